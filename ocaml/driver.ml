(* driver.ml — replays traces written by the Rust harness on the extracted Coq
   model and compares, step by step, results and byte images.  Glue only:
   parsing, printing, comparison; all semantics come from model.ml. *)
open Model

(* ---------- N / Z <-> OCaml ---------- *)
let rec pos_of_int i =
  if i = 1 then XH
  else if i land 1 = 0 then XO (pos_of_int (i lsr 1))
  else XI (pos_of_int (i lsr 1))
let n_of_int i = if i = 0 then N0 else Npos (pos_of_int i)
let rec int_of_pos = function
  | XH -> 1
  | XO p -> 2 * int_of_pos p
  | XI p -> 2 * int_of_pos p + 1
let int_of_n = function N0 -> 0 | Npos p -> int_of_pos p

let ten = n_of_int 10
let n_of_dec (s : string) : n =
  let acc = ref N0 in
  String.iter (fun c -> acc := N.add (N.mul !acc ten) (n_of_int (Char.code c - 48))) s;
  !acc
let n_of_hex (s : string) : n =
  let acc = ref N0 in
  let sixteen = n_of_int 16 in
  String.iter (fun c ->
    let d = match c with
      | '0'..'9' -> Char.code c - 48
      | 'a'..'f' -> Char.code c - 87
      | 'A'..'F' -> Char.code c - 55
      | _ -> failwith "hex" in
    acc := N.add (N.mul !acc sixteen) (n_of_int d)) s;
  !acc
let dec_of_n (x : n) : string =
  if x = N0 then "0" else begin
    let b = Buffer.create 20 in
    let rec go x acc =
      if x = N0 then acc
      else let (q, r) = N.div_eucl x ten in go q (string_of_int (int_of_n r) :: acc) in
    List.iter (Buffer.add_string b) (go x []);
    Buffer.contents b
  end
let hex_of_n_width (x : n) (width : int) : string =
  let sixteen = n_of_int 16 in
  let rec go x k acc =
    if k = 0 then acc
    else let (q, r) = N.div_eucl x sixteen in
      go q (k - 1) (Printf.sprintf "%x" (int_of_n r) :: acc) in
  String.concat "" (go x width [])
let z_of_dec (s : string) : z =
  if String.length s > 0 && s.[0] = '-' then
    Z.opp (Z.of_N (n_of_dec (String.sub s 1 (String.length s - 1))))
  else Z.of_N (n_of_dec s)

(* ---------- encodings shared with the harness ---------- *)
let dec_path (s : string) : n list =
  if s = "-" then []
  else List.map (fun h -> n_of_int (int_of_string ("0x" ^ h))) (String.split_on_char '.' s)
let enc_path (p : n list) : string =
  if p = [] then "-"
  else String.concat "." (List.map (fun c -> Printf.sprintf "%x" (int_of_n c)) p)

let byte_tab = Array.init 256 n_of_int
let hexval c = match c with
  | '0'..'9' -> Char.code c - 48
  | 'a'..'f' -> Char.code c - 87
  | _ -> failwith "hexval"
let dec_hex (s : string) : n list =
  if s = "-" then []
  else begin
    let n = String.length s / 2 in
    let r = ref [] in
    for i = n - 1 downto 0 do
      r := byte_tab.(hexval s.[2*i] * 16 + hexval s.[2*i+1]) :: !r
    done;
    !r
  end
let enc_hex (bs : n list) : string =
  if bs = [] then "-"
  else begin
    let b = Buffer.create 64 in
    List.iter (fun x -> Buffer.add_string b (Printf.sprintf "%02x" (int_of_n x))) bs;
    Buffer.contents b
  end

let kind_name = function
  | ENotFound -> "NotFound" | EAlreadyExists -> "AlreadyExists"
  | EInvalidInput -> "InvalidInput" | EInvalidData -> "InvalidData"
  | EUnexpectedEof -> "UnexpectedEof" | EWriteZero -> "WriteZero" | EOther -> "Other"

let enc_time (ts : n) : string =
  let ((before, s), ns) = to_system_time ts in
  Printf.sprintf "%s%s.%s" (if before then "-" else "+") (dec_of_n s) (dec_of_n ns)

let enc_entry (e : entry) : string =
  let ty = match e.e_type with TRoot -> "R" | TStream -> "F" | _ -> "D" in
  Printf.sprintf "%s,%s,%s,%s,%s,%s,%s,%s"
    (enc_path e.e_name) (enc_path e.e_path) ty (hex_of_n_width e.e_clsid 32)
    (dec_of_n e.e_state) (enc_time e.e_ctime) (enc_time e.e_mtime) (dec_of_n e.e_len)

let enc_value = function
  | VUnit -> "ok"
  | VBool b -> if b then "b1" else "b0"
  | VNum x -> "n:" ^ dec_of_n x
  | VBytes bs -> "x:" ^ enc_hex bs
  | VEntry e -> "e:" ^ enc_entry e
  | VEntries [] -> "l:-"
  | VEntries es -> "l:" ^ String.concat ";" (List.map enc_entry es)
  | VVersion V3 -> "v3"
  | VVersion V4 -> "v4"
  | VNoHandle -> "nohandle"

let enc_res = function
  | Ok v -> enc_value v
  | Err k -> "err:" ^ kind_name k
  | Panic site -> "panic"
  | OutOfFuel -> "outoffuel"

let panic_site = function Panic s -> int_of_n s | _ -> -1

let parse_op (t : string array) : op =
  let p i = dec_path t.(i) in
  let u i = n_of_dec t.(i) in
  match t.(0) with
  | "cs" -> OCreateStorage (p 1)
  | "csa" -> OCreateStorageAll (p 1)
  | "rs" -> ORemoveStorage (p 1)
  | "rsa" -> ORemoveStorageAll (p 1)
  | "cst" -> OCreateStream (u 1, p 2)
  | "cns" -> OCreateNewStream (u 1, p 2)
  | "os" -> OOpenStream (u 1, p 2)
  | "rst" -> ORemoveStream (p 1)
  | "clsid" -> OSetClsid (p 1, n_of_hex t.(2))
  | "state" -> OSetState (p 1, u 2)
  | "ctime" -> OSetCreated (p 1, t.(2) = "-", u 3, u 4)
  | "mtime" -> OSetModified (p 1, t.(2) = "-", u 3, u 4)
  | "ex" -> OExists (p 1)
  | "ist" -> OIsStream (p 1)
  | "isg" -> OIsStorage (p 1)
  | "ent" -> OEntry (p 1)
  | "rent" -> ORootEntry
  | "ls" -> OReadStorage (p 1)
  | "lsr" -> OReadRoot
  | "walk" -> OWalk
  | "walks" -> OWalkStorage (p 1)
  | "fl" -> OFlushFile
  | "ver" -> OVersion
  | "hr" -> OHRead (u 1, u 2)
  | "hf" -> OHFill (u 1)
  | "hc" -> OHConsume (u 1, u 2)
  | "hw" -> OHWrite (u 1, dec_hex t.(2))
  | "hsk" -> OHSeek (u 1, (match t.(2) with "s" -> WStart | "e" -> WEnd | _ -> WCur), z_of_dec t.(3))
  | "hsl" -> OHSetLen (u 1, u 2)
  | "hfl" -> OHFlush (u 1)
  | "hlen" -> OHLen (u 1)
  | "hpos" -> OHPos (u 1)
  | "hd" -> OHDrop (u 1)
  | "cat" -> OCat (p 1)
  | "reopen" -> OReopen (t.(1) = "s")
  | s -> failwith ("unknown op " ^ s)

(* ---------- coverage counters ---------- *)
let cov : (string, int) Hashtbl.t = Hashtbl.create 64
let bump k = Hashtbl.replace cov k (1 + try Hashtbl.find cov k with Not_found -> 0)

(* ---------- image comparison ---------- *)
let hex_of_img (f : fstate) : string =
  let b = Buffer.create 4096 in
  List.iter (fun sec -> List.iter (fun x -> Buffer.add_string b (Printf.sprintf "%02x" (int_of_n x))) sec) f.cs.img;
  Buffer.contents b

let first_diff (a : string) (b : string) : int =
  let n = min (String.length a) (String.length b) in
  let i = ref 0 in
  while !i < n && a.[!i] = b.[!i] do incr i done;
  !i / 2


(* ---------- the abstract-tree specification run on the implementation's results ---------- *)
let enc_sentry (e : sentry) : string =
  let ty = match e.se_type with ERoot -> "R" | EStream -> "F" | EStorage -> "D" in
  Printf.sprintf "%s,%s,%s,%s,%s,%s,%s,%s"
    (enc_path e.se_name) (enc_path e.se_path) ty (hex_of_n_width e.se_clsid 32)
    (dec_of_n e.se_state) (enc_time e.se_ctime) (enc_time e.se_mtime) (dec_of_n e.se_len)
let enc_svalue = function
  | SVUnit -> "ok"
  | SVBool b -> if b then "b1" else "b0"
  | SVBytes bs -> "x:" ^ enc_hex bs
  | SVEntry e -> "e:" ^ enc_sentry e
  | SVEntries [] -> "l:-"
  | SVEntries es -> "l:" ^ String.concat ";" (List.map enc_sentry es)
let enc_sres = function
  | Ok v -> enc_svalue v
  | Err k -> "err:" ^ kind_name k
  | Panic _ -> "panic"
  | OutOfFuel -> "outoffuel"

(* the root entry's len() exposes the size of the mini stream, an allocation
   detail with no counterpart in the abstract tree: not compared *)
let mask_root_len (s : string) : string =
  let fix_entry e =
    let f = String.split_on_char ',' e in
    if List.length f = 8 && List.nth f 2 = "R" then
      String.concat "," (List.mapi (fun i x -> if i = 7 then "*" else x) f)
    else e in
  if String.length s >= 2 && (String.sub s 0 2 = "e:" || String.sub s 0 2 = "l:") && s <> "l:-" then
    String.sub s 0 2 ^ String.concat ";" (List.map fix_entry (String.split_on_char ';' (String.sub s 2 (String.length s - 2))))
  else s

let rec take_list k l = if k <= 0 then [] else match l with [] -> [] | x :: t -> x :: take_list (k - 1) t

(* maps a trace operation to a specification operation; None = not expressible
   on the abstract tree (the history is then left to the other checks) *)
let sop_of (slots : (int, n list) Hashtbl.t) (t : string array) (impl : string) : sop option option =
  let p i = dec_path t.(i) in
  let u i = n_of_dec t.(i) in
  match t.(0) with
  | "cs" -> Some (Some (SCreateStorage (p 1)))
  | "csa" -> Some (Some (SCreateStorageAll (p 1)))
  | "rs" -> Some (Some (SRemoveStorage (p 1)))
  | "rsa" -> Some (Some (SRemoveStorageAll (p 1)))
  | "cst" -> if impl = "ok" then Hashtbl.replace slots (int_of_string t.(1)) (p 2); Some (Some (SCreateStream (p 2, true)))
  | "cns" -> if impl = "ok" then Hashtbl.replace slots (int_of_string t.(1)) (p 2); Some (Some (SCreateStream (p 2, false)))
  | "os" -> if impl = "ok" then Hashtbl.replace slots (int_of_string t.(1)) (p 2); Some (Some (SOpenStream (p 2)))
  | "rst" -> Some (Some (SRemoveStream (p 1)))
  | "clsid" -> Some (Some (SSetClsid (p 1, n_of_hex t.(2))))
  | "state" -> Some (Some (SSetState (p 1, u 2)))
  | "ctime" -> Some (Some (SSetCreated (p 1, t.(2) = "-", u 3, u 4)))
  | "mtime" -> Some (Some (SSetModified (p 1, t.(2) = "-", u 3, u 4)))
  | "ex" -> Some (Some (SExists (p 1)))
  | "ist" -> Some (Some (SIsStream (p 1)))
  | "isg" -> Some (Some (SIsStorage (p 1)))
  | "ent" -> Some (Some (SEntry (p 1)))
  | "rent" -> Some (Some SRootEntry)
  | "ls" -> Some (Some (SReadStorage (p 1)))
  | "lsr" -> Some (Some SReadRoot)
  | "walk" -> Some (Some SWalk)
  | "walks" -> Some (Some (SWalkStorage (p 1)))
  | "cat" -> Some (Some (SCat (p 1)))
  | "reopen" -> Some (Some SReopen)
  | "hw" ->
    (* sequential append on the handle created by the preceding cst/cns: the
       implementation tells how many bytes it accepted (any count 1..len is
       allowed by the Write contract, checked here) *)
    (match Hashtbl.find_opt slots (int_of_string t.(1)) with
     | Some path when String.length impl > 2 && String.sub impl 0 2 = "n:" ->
       let k = int_of_string (String.sub impl 2 (String.length impl - 2)) in
       let bs = dec_hex t.(2) in
       if (bs = [] && k = 0) || (k >= 1 && k <= List.length bs) then Some (Some (SAppend (path, take_list k bs)))
       else None
     | _ -> None)
  | "hd" -> Hashtbl.remove slots (int_of_string t.(1)); Some None
  | "fl" | "ver" | "hfl" | "hlen" | "hpos" -> Some None
  | _ -> None

let noimg_mode = ref false
let refuse_mode = ref false
let refusals = ref 0
let spec_mode = ref false
let wf_mode = ref false
let abs_mode = ref false
let spec_steps = ref 0
let wf_images = ref 0
let abs_checks = ref 0

(* ---------- replay of one trace file ---------- *)
type hist = { mutable f : fstate option; mutable id : string; mutable step : int;
              mutable ok : bool; mutable last_img : string; mutable check_img : bool;
              mutable tree : node option; slots : (int, n list) Hashtbl.t; mutable refused : string }

let mismatches = ref 0
let histories = ref 0
let steps = ref 0
let images = ref 0
let model_bad = ref 0

let split_ws s = Array.of_list (List.filter (fun x -> x <> "") (String.split_on_char ' ' s))

let hist_t0 = ref 0.0
let hist_name = ref ""
let slow_note () =
  let dt = Sys.time () -. !hist_t0 in
  if dt > 2.0 && !hist_name <> "" then Printf.printf "SLOW history=%s cpu_s=%.1f\n%!" !hist_name dt

let replay_file (path : string) =
  let ic = open_in path in
  let h = { f = None; id = ""; step = 0; ok = true; last_img = ""; check_img = true; tree = None; slots = Hashtbl.create 8; refused = "" } in
  let report kind detail =
    if h.ok then begin
      incr mismatches;
      Printf.printf "MISMATCH file=%s history=%s step=%d kind=%s %s\n" path h.id h.step kind detail;
      h.ok <- false
    end in
  (try
    while true do
      let line = input_line ic in
      if String.length line > 0 then
      match line.[0] with
      | 'H' ->
        (* H <id> v3|v4 <maxbuf> <nhandles> create|createreopen|noimg *)
        let t = split_ws line in
        incr histories;
        h.id <- t.(1); h.step <- 0; h.ok <- true; h.last_img <- "";
        let v = if t.(2) = "v3" then V3 else V4 in
        let f0 = init_fstate v (n_of_dec t.(3)) (n_of_dec t.(4)) in
        h.check_img <- not (Array.length t > 6 && t.(6) = "noimg");
        let f0 =
          if t.(5) = "createreopen" then
            (match open_model false (concat_img f0.cs.img) with
             | Ok s -> { f0 with cs = s }
             | _ -> report "open" "model cannot reopen a fresh image"; f0)
          else f0 in
        h.f <- Some f0;
        h.last_img <- hex_of_img f0;
        Hashtbl.reset h.slots;
        h.tree <- (if !spec_mode then Some empty_tree else None)
      | 'B' ->
        (* B <id> <maxbuf> <nhandles> p|s <impl open result> <hex image> : start from a given byte string *)
        let t = split_ws line in
        incr histories;
        slow_note (); hist_t0 := Sys.time (); hist_name := t.(1);
        if Sys.getenv_opt "DRIVER_VERBOSE" <> None then Printf.printf "START %s\n%!" t.(1);
        h.id <- t.(1); h.step <- 0; h.ok <- true; h.last_img <- t.(6);
        h.check_img <- true; h.tree <- None; Hashtbl.reset h.slots;
        let impl = t.(5) in
        let bytes = dec_hex t.(6) in
        let r = open_model (t.(4) = "s") bytes in
        let mine = (match r with Ok _ -> "ok" | Err k -> "err:" ^ kind_name k | Panic _ -> "panic" | OutOfFuel -> "outoffuel") in
        bump ("open:" ^ impl);
        (match r with Panic _ | OutOfFuel -> incr model_bad | _ -> ());
        if mine <> impl then begin
          h.f <- None;
          report "open" (Printf.sprintf "mode=%s model=%s%s impl=%s len=%d" t.(4) mine
            (match r with Panic s -> Printf.sprintf "(site %d)" (int_of_n s) | _ -> "") impl (List.length bytes))
        end else
          (match r with
           | Ok s -> h.f <- Some { cs = s; hs = (init_fstate V3 N0 (n_of_dec t.(3))).hs; maxbuf = n_of_dec t.(2) }
           | _ -> h.f <- None)
      | 'S' when h.ok ->
        (* S <now> <op tokens...> => <result> *)
        (match h.f with
         | None -> ()
         | Some f ->
           h.step <- h.step + 1;
           incr steps;
           let arrow = (try Str.search_forward (Str.regexp_string " => ") line 0 with Not_found -> failwith ("bad S line: " ^ line)) in
           let lhs = String.sub line 2 (arrow - 2) in
           let impl = String.sub line (arrow + 4) (String.length line - arrow - 4) in
           let t = split_ws lhs in
           let now = n_of_dec t.(0) in
           let opt = Array.sub t 1 (Array.length t - 1) in
           bump ("op:" ^ opt.(0));
           if Sys.getenv_opt "DRIVER_VERBOSE" <> None then Printf.printf "STEP %d %s\n%!" h.step (String.sub lhs 0 (min 60 (String.length lhs)));
           let o = parse_op opt in
           let (f', r) = step f now o in
           let mine = enc_res r in
           bump ("res:" ^ (if String.length impl >= 4 && String.sub impl 0 4 = "err:" then impl else if impl = "panic" then "panic" else "ok"));
           (match r with Panic _ | OutOfFuel -> incr model_bad | _ -> ());
           h.f <- Some f';
           h.refused <- (if impl = "err:NotFound" || impl = "err:AlreadyExists" || impl = "err:InvalidInput" then lhs ^ " => " ^ impl else "");
           (if !spec_mode then match h.tree with
             | None -> ()
             | Some tr ->
               (match sop_of h.slots opt impl with
                | None -> h.tree <- None; bump "spec:unsupported"
                | Some None -> ()
                | Some (Some so) ->
                  incr spec_steps;
                  let (tr', sr) = spec_step tr now so in
                  h.tree <- Some tr';
                  let want = enc_sres sr in
                  let cmp_ok = (match so with SAppend _ -> sr = Ok SVUnit | _ -> mask_root_len want = mask_root_len impl) in
                  if not cmp_ok then
                    report "spec" (Printf.sprintf "op=[%s] spec=%s impl=%s" lhs
                      (if String.length want > 300 then String.sub want 0 300 ^ "..." else want)
                      (if String.length impl > 300 then String.sub impl 0 300 ^ "..." else impl))
                  else if !abs_mode && (match so with SAppend _ | SCreateStream _ | SOpenStream _ -> false | _ -> true)
                          && Hashtbl.length h.slots = 0 then begin
                    incr abs_checks;
                    match abs_state f'.cs with
                    | Ok a -> if a <> tr' then report "abs" (Printf.sprintf "op=[%s] abstraction of the model state differs from the specification tree" lhs)
                    | _ -> report "abs" "abstraction function failed"
                  end));
           if mine <> impl then
             report "result" (Printf.sprintf "op=[%s] model=%s%s impl=%s" lhs
               (if String.length mine > 300 then String.sub mine 0 300 ^ "..." else mine)
               (match r with Panic s -> Printf.sprintf "(site %d)" (int_of_n s) | _ -> "")
               (if String.length impl > 300 then String.sub impl 0 300 ^ "..." else impl)))
      | 'I' when h.ok && h.check_img ->
        (match h.f with
         | None -> ()
         | Some f ->
           let impl = if String.length line >= 3 && line.[2] = '=' then h.last_img
                      else String.sub line 2 (String.length line - 2) in
           (if !refuse_mode && h.refused <> "" then begin
              incr refusals;
              if impl <> h.last_img then
                report "refuse" (Printf.sprintf "a refused call changed the bytes: [%s] first_diff_byte=%d" h.refused (first_diff impl h.last_img))
            end);
           h.last_img <- impl;
           incr images;
           (if !wf_mode && not (String.length line >= 3 && line.[2] = '=') then begin
              incr wf_images;
              let code = int_of_n (wf_check (dec_hex impl)) in
              if code <> 0 then report "wf" (Printf.sprintf "independent checker rejects the implementation's image: rule %d" code)
            end);
           let mine = if !noimg_mode then impl else hex_of_img f in
           if mine <> impl then
             report "image" (Printf.sprintf "len_model=%d len_impl=%d first_diff_byte=%d"
               (String.length mine / 2) (String.length impl / 2) (first_diff mine impl)))
      | 'I' ->
        if String.length line >= 3 && line.[2] <> '=' then h.last_img <- String.sub line 2 (String.length line - 2)
      | _ -> ()
    done
  with End_of_file -> ());
  close_in ic

let () =
  let args = List.tl (Array.to_list Sys.argv) in
  let files = List.filter (fun a ->
    match a with
    | "--noimg" -> noimg_mode := true; false
    | "--refuse" -> refuse_mode := true; false
    | "--spec" -> spec_mode := true; false
    | "--wf" -> wf_mode := true; false
    | "--abs" -> abs_mode := true; false
    | _ -> true) args in
  List.iter replay_file files;
  Printf.printf "SUMMARY histories=%d steps=%d images=%d mismatches=%d model_panic_or_fuel=%d spec_steps=%d wf_images=%d abs_checks=%d refusals=%d\n"
    !histories !steps !images !mismatches !model_bad !spec_steps !wf_images !abs_checks !refusals;
  Hashtbl.iter (fun k v -> Printf.printf "COV %s %d\n" k v) cov;
  exit (if !mismatches > 0 then 1 else 0)
