From Coq Require Import List Arith Bool Lia.
Import ListNotations.

Definition byte := nat.
Definition bytes := list byte.

Definition MINB := 4.   (* STREAM_BUFFER_MIN scaled down *)
Definition GROW := 2.

(* ---- store = byte vector (fault-free, zero-filling resize = the contract) ---- *)
Definition swrite (v : bytes) (o : nat) (d : bytes) : bytes :=
  firstn o v ++ d ++ skipn (o + length d) v.
Definition sread (v : bytes) (o n : nat) : bytes := firstn n (skipn o v).
Definition sresize (v : bytes) (n : nat) : bytes := firstn n v ++ repeat 0 (n - length v).

(* ---- StreamBuffer ---- *)
Record buf := { data : bytes; pos : nat; cap : nat; maxsz : nat }.
Definition new_buf (m : nat) := {| data := repeat 0 MINB; pos := 0; cap := 0; maxsz := max m MINB |}.
Definition clear (b : buf) := {| data := data b; pos := 0; cap := 0; maxsz := maxsz b |}.
Definition grow (b : buf) : option buf :=
  if maxsz b <=? length (data b) then None
  else let nl := min (length (data b) * GROW) (maxsz b) in
       Some {| data := data b ++ repeat 0 (nl - length (data b)); pos := pos b; cap := cap b; maxsz := maxsz b |}.
Definition write_bytes (b : buf) (inp : bytes) : option (buf * nat) :=
  let ob := if length (data b) <=? pos b then grow b else Some b in
  match ob with
  | None => None
  | Some b =>
    let w := min (length inp) (length (data b) - pos b) in
    let d := firstn (pos b) (data b) ++ firstn w inp ++ skipn (pos b + w) (data b) in
    let p := pos b + w in
    Some ({| data := d; pos := p; cap := max (cap b) p; maxsz := maxsz b |}, w)
  end.
Definition grow_for_read (b : buf) (remaining : nat) : buf :=
  if remaining <=? length (data b) then b
  else let desired := max (min remaining (maxsz b)) MINB in
       {| data := firstn desired (data b) ++ repeat 0 (desired - length (data b)); pos := pos b; cap := cap b; maxsz := maxsz b |}.

(* ---- Stream handle + its store ---- *)
Record hs := { L : nat; off : nat; b : buf; dirty : bool; V : bytes }.

Definition flush_changes (h : hs) : hs :=
  if dirty h then {| L := L h; off := off h; b := b h; dirty := false;
                     V := swrite (V h) (off h) (firstn (cap (b h)) (data (b h))) |}
  else h.

Definition fill_buf (h : hs) : hs * bytes :=
  let h :=
    if negb (pos (b h) <? cap (b h)) && (off h + pos (b h) <? L h) then
      let h := flush_changes h in
      let o := off h + pos (b h) in
      let remaining := L h - o in
      let b0 := {| data := data (b h); pos := 0; cap := cap (b h); maxsz := maxsz (b h) |} in
      let b1 := grow_for_read b0 remaining in
      let got := sread (V h) o (length (data b1)) in
      let d := got ++ skipn (length got) (data b1) in
      {| L := L h; off := o; b := {| data := d; pos := 0; cap := length got; maxsz := maxsz b1 |}; dirty := dirty h; V := V h |}
    else h in
  (h, skipn (pos (b h)) (firstn (cap (b h)) (data (b h)))).

Definition consume (h : hs) (k : nat) : hs :=
  {| L := L h; off := off h; b := {| data := data (b h); pos := pos (b h) + k; cap := cap (b h); maxsz := maxsz (b h) |}; dirty := dirty h; V := V h |}.

Definition read (h : hs) (n : nat) : hs * bytes :=
  let '(h, s) := fill_buf h in
  let r := firstn n s in (consume h (length r), r).

Definition write (h : hs) (inp : bytes) : hs * nat :=
  let '(h, bf, k) :=
    match write_bytes (b h) inp with
    | Some (bf, k) => (h, bf, k)
    | None =>
      let h := flush_changes h in
      let o := off h + pos (b h) in
      let h := {| L := L h; off := o; b := clear (b h); dirty := dirty h; V := V h |} in
      match write_bytes (b h) inp with Some (bf, k) => (h, bf, k) | None => (h, b h, 0) end
    end in
  if 0 <? k then
    ({| L := max (L h) (off h + cap bf); off := off h; b := bf; dirty := true; V := V h |}, k)
  else ({| L := L h; off := off h; b := bf; dirty := dirty h; V := V h |}, k).

(* seek to an absolute, already validated position np <= L *)
Definition seek (h : hs) (np : nat) : hs :=
  if (np <? off h) || (off h + cap (b h) <? np) then
    let h := flush_changes h in
    {| L := L h; off := np; b := clear (b h); dirty := dirty h; V := V h |}
  else {| L := L h; off := off h;
          b := {| data := data (b h); pos := np - off h; cap := max (cap (b h)) (np - off h); maxsz := maxsz (b h) |};
          dirty := dirty h; V := V h |}.

Definition set_len (h : hs) (n : nat) : hs :=
  if n =? L h then h else
  let np := min (off h + pos (b h)) n in
  let h := flush_changes h in
  {| L := n; off := np; b := clear (b h); dirty := dirty h; V := sresize (V h) n |}.

Definition flush (h : hs) : hs := flush_changes h.

(* ---- abstraction and invariant (boolean, for small-scope checking) ---- *)
Definition A (h : hs) : bytes :=
  if dirty h then swrite (V h) (off h) (firstn (cap (b h)) (data (b h))) else V h.
Definition cur (h : hs) : nat := off h + pos (b h).

Definition beq_bytes := list_eq_dec Nat.eq_dec.
Definition eqb_bytes (x y : bytes) : bool := if beq_bytes x y then true else false.

Definition HInv (h : hs) : bool :=
  let bb := b h in
  (pos bb <=? cap bb) && (cap bb <=? length (data bb)) && (MINB <=? length (data bb)) &&
  (length (data bb) <=? maxsz bb) &&
  (off h <=? length (V h)) && (length (V h) <=? L h) && (off h + cap bb <=? L h) &&
  (if dirty h then L h =? max (length (V h)) (off h + cap bb)
   else (length (V h) =? L h) && eqb_bytes (firstn (cap bb) (data bb)) (firstn (cap bb) (skipn (off h) (V h)))).

(* ---------------- small-scope exhaustive check ---------------- *)
Inductive op := ORead (n : nat) | OFill | OWrite (n : nat) (tag : nat) | OSeek (p : nat) | OSetLen (n : nat) | OFlush.

(* abstract contract state: (vector, cursor); returns whether the concrete step is permitted and the new abstract state *)
Definition step_check (h : hs) (o : op) : hs * bool :=
  let a := A h in let c := cur h in
  match o with
  | ORead n =>
      let '(h', r) := read h n in
      let k := length r in
      (h', eqb_bytes (A h') a && (cur h' =? c + k) && eqb_bytes r (firstn k (skipn c a))
           && (if (n =? 0) || (c =? length a) then k =? 0 else (1 <=? k) && (k <=? min n (length a - c))))
  | OFill =>
      let '(h', s) := fill_buf h in
      let k := length s in
      (h', eqb_bytes (A h') a && (cur h' =? c) && eqb_bytes s (firstn k (skipn c a))
           && (if c =? length a then k =? 0 else 1 <=? k))
  | OWrite n tag =>
      let inp := repeat tag n in
      let '(h', k) := write h inp in
      (h', eqb_bytes (A h') (swrite a c (firstn k inp)) && (cur h' =? c + k)
           && (if n =? 0 then k =? 0 else (1 <=? k) && (k <=? n)))
  | OSeek p =>
      if p <=? length a then let h' := seek h p in (h', eqb_bytes (A h') a && (cur h' =? p))
      else (h, true)   (* refused before touching state *)
  | OSetLen n =>
      let h' := set_len h n in (h', eqb_bytes (A h') (sresize a n) && (cur h' =? min c n))
  | OFlush =>
      let h' := flush h in (h', eqb_bytes (A h') a && (cur h' =? c) && negb (dirty h') && eqb_bytes (V h') a)
  end.

Definition ops_small : list op :=
  [ORead 0; ORead 1; ORead 3; ORead 9; OFill;
   OWrite 0 7; OWrite 1 1; OWrite 3 2; OWrite 5 3; OWrite 9 4;
   OSeek 0; OSeek 2; OSeek 4; OSeek 7; OSeek 99;
   OSetLen 0; OSetLen 2; OSetLen 6; OSetLen 11; OFlush].

Definition LH_ok (h : hs) : bool := length (A h) =? L h.

Fixpoint explore (depth : nat) (h : hs) : bool :=
  match depth with
  | 0 => true
  | S d => forallb (fun o => let '(h', ok) := step_check h o in
                             ok && HInv h' && LH_ok h' && explore d h') ops_small
  end.

Definition init (m : nat) : hs := {| L := 0; off := 0; b := new_buf m; dirty := false; V := [] |}.
Time Eval vm_compute in (explore 4 (init 1), explore 4 (init 6), explore 4 (init 64)).
