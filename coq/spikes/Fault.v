From Coq Require Import String.
From Coq Require Import List Arith Bool Lia.
Import ListNotations.

Definition byte := nat.
Definition bytes := list byte.

Definition MINB := 4.   (* STREAM_BUFFER_MIN scaled down *)
Definition GROW := 2.

(* ---- store = byte vector (fault-free, zero-filling resize = the contract) ---- *)
Definition swrite (v : bytes) (o : nat) (d : bytes) : bytes :=
  firstn o v ++ d ++ skipn (o + length d) v.
Definition sread (v : bytes) (o n : nat) : bytes := firstn n (skipn o v).
Definition sresize (v : bytes) (n : nat) : bytes := firstn n v ++ repeat 0 (n - length v).

(* ---- StreamBuffer ---- *)
Record buf := { data : bytes; pos : nat; cap : nat; maxsz : nat }.
Definition new_buf (m : nat) := {| data := repeat 0 MINB; pos := 0; cap := 0; maxsz := max m MINB |}.
Definition clear (b : buf) := {| data := data b; pos := 0; cap := 0; maxsz := maxsz b |}.
Definition grow (b : buf) : option buf :=
  if maxsz b <=? length (data b) then None
  else let nl := min (length (data b) * GROW) (maxsz b) in
       Some {| data := data b ++ repeat 0 (nl - length (data b)); pos := pos b; cap := cap b; maxsz := maxsz b |}.
Definition write_bytes (b : buf) (inp : bytes) : option (buf * nat) :=
  let ob := if length (data b) <=? pos b then grow b else Some b in
  match ob with
  | None => None
  | Some b =>
    let w := min (length inp) (length (data b) - pos b) in
    let d := firstn (pos b) (data b) ++ firstn w inp ++ skipn (pos b + w) (data b) in
    let p := pos b + w in
    Some ({| data := d; pos := p; cap := max (cap b) p; maxsz := maxsz b |}, w)
  end.
Definition grow_for_read (b : buf) (remaining : nat) : buf :=
  if remaining <=? length (data b) then b
  else let desired := max (min remaining (maxsz b)) MINB in
       {| data := firstn desired (data b) ++ repeat 0 (desired - length (data b)); pos := pos b; cap := cap b; maxsz := maxsz b |}.

(* ---- Stream handle + its store ---- *)
Record hs := { L : nat; off : nat; b : buf; dirty : bool; V : bytes }.

Definition flush_changes (h : hs) : hs :=
  if dirty h then {| L := L h; off := off h; b := b h; dirty := false;
                     V := swrite (V h) (off h) (firstn (cap (b h)) (data (b h))) |}
  else h.

Definition fill_buf (h : hs) : hs * bytes :=
  let h :=
    if negb (pos (b h) <? cap (b h)) && (off h + pos (b h) <? L h) then
      let h := flush_changes h in
      let o := off h + pos (b h) in
      let remaining := L h - o in
      let b0 := {| data := data (b h); pos := 0; cap := cap (b h); maxsz := maxsz (b h) |} in
      let b1 := grow_for_read b0 remaining in
      let got := sread (V h) o (length (data b1)) in
      let d := got ++ skipn (length got) (data b1) in
      {| L := L h; off := o; b := {| data := d; pos := 0; cap := length got; maxsz := maxsz b1 |}; dirty := dirty h; V := V h |}
    else h in
  (h, skipn (pos (b h)) (firstn (cap (b h)) (data (b h)))).

Definition consume (h : hs) (k : nat) : hs :=
  {| L := L h; off := off h; b := {| data := data (b h); pos := pos (b h) + k; cap := cap (b h); maxsz := maxsz (b h) |}; dirty := dirty h; V := V h |}.

Definition read (h : hs) (n : nat) : hs * bytes :=
  let '(h, s) := fill_buf h in
  let r := firstn n s in (consume h (length r), r).

Definition write (h : hs) (inp : bytes) : hs * nat :=
  let '(h, bf, k) :=
    match write_bytes (b h) inp with
    | Some (bf, k) => (h, bf, k)
    | None =>
      let h := flush_changes h in
      let o := off h + pos (b h) in
      let h := {| L := L h; off := o; b := clear (b h); dirty := dirty h; V := V h |} in
      match write_bytes (b h) inp with Some (bf, k) => (h, bf, k) | None => (h, b h, 0) end
    end in
  if 0 <? k then
    ({| L := max (L h) (off h + cap bf); off := off h; b := bf; dirty := true; V := V h |}, k)
  else ({| L := L h; off := off h; b := bf; dirty := dirty h; V := V h |}, k).

(* seek to an absolute, already validated position np <= L *)
Definition seek (h : hs) (np : nat) : hs :=
  if (np <? off h) || (off h + cap (b h) <? np) then
    let h := flush_changes h in
    {| L := L h; off := np; b := clear (b h); dirty := dirty h; V := V h |}
  else {| L := L h; off := off h;
          b := {| data := data (b h); pos := np - off h; cap := max (cap (b h)) (np - off h); maxsz := maxsz (b h) |};
          dirty := dirty h; V := V h |}.

Definition set_len (h : hs) (n : nat) : hs :=
  if n =? L h then h else
  let np := min (off h + pos (b h)) n in
  let h := flush_changes h in
  {| L := n; off := np; b := clear (b h); dirty := dirty h; V := sresize (V h) n |}.

Definition flush (h : hs) : hs := flush_changes h.

(* ---- abstraction and invariant (boolean, for small-scope checking) ---- *)
Definition A (h : hs) : bytes :=
  if dirty h then swrite (V h) (off h) (firstn (cap (b h)) (data (b h))) else V h.
Definition cur (h : hs) : nat := off h + pos (b h).

Definition beq_bytes := list_eq_dec Nat.eq_dec.
Definition eqb_bytes (x y : bytes) : bool := if beq_bytes x y then true else false.

Definition HInv (h : hs) : bool :=
  let bb := b h in
  (pos bb <=? cap bb) && (cap bb <=? length (data bb)) && (MINB <=? length (data bb)) &&
  (length (data bb) <=? maxsz bb) &&
  (off h <=? length (V h)) && (length (V h) <=? L h) && (off h + cap bb <=? L h) &&
  (if dirty h then L h =? max (length (V h)) (off h + cap bb)
   else (length (V h) =? L h) && eqb_bytes (firstn (cap bb) (data bb)) (firstn (cap bb) (skipn (off h) (V h)))).


(* ================= fault variants =================
   An op carries f: 0 = no fault, 1 = first store access of the op fails, 2 = second.
   A failing store access has no effect on V (atomic failure) and makes the op return Err.
   FIXED = false is the pinned behaviour, FIXED = true the intended repair. *)
Section F.
Variable FIXED : bool.

(* returns (state, ok) *)
Definition flush_changes_f (h : hs) (fail : bool) : hs * bool :=
  if dirty h then
    if fail then
      ({| L := L h; off := off h; b := b h; dirty := if FIXED then true else false; V := V h |}, false)
    else (flush_changes h, true)
  else (h, true).

(* number of store accesses flush_changes performs *)
Definition fl_n (h : hs) : nat := if dirty h then 1 else 0.
Definition failing (f k : nat) : bool := (f =? k).

Definition fill_buf_f (h : hs) (f : nat) : hs * option bytes :=
  if negb (pos (b h) <? cap (b h)) && (off h + pos (b h) <? L h) then
    let n0 := fl_n h in
    let '(h, ok) := flush_changes_f h (failing f 1 && (0 <? n0)) in
    if negb ok then (h, None) else
    let o := off h + pos (b h) in
    let remaining := L h - o in
    let b0 := {| data := data (b h); pos := 0; cap := cap (b h); maxsz := maxsz (b h) |} in
    let b1 := grow_for_read b0 remaining in
    if failing f (n0 + 1) then
      (* read fails: window offset already advanced, cursor reset, cap keeps old value; buffer bytes clobbered *)
      let garbage := repeat 99 (length (data b1)) in
      let bb := if FIXED then clear {| data := garbage; pos := 0; cap := 0; maxsz := maxsz b1 |}
                else {| data := garbage; pos := 0; cap := cap b1; maxsz := maxsz b1 |} in
      ({| L := L h; off := o; b := bb; dirty := dirty h; V := V h |}, None)
    else
      let got := sread (V h) o (length (data b1)) in
      let d := got ++ skipn (length got) (data b1) in
      let h := {| L := L h; off := o; b := {| data := d; pos := 0; cap := length got; maxsz := maxsz b1 |}; dirty := dirty h; V := V h |} in
      (h, Some (skipn (pos (b h)) (firstn (cap (b h)) (data (b h)))))
  else (h, Some (skipn (pos (b h)) (firstn (cap (b h)) (data (b h))))).

Definition read_f (h : hs) (n f : nat) : hs * option bytes :=
  match fill_buf_f h f with
  | (h, None) => (h, None)
  | (h, Some s) => let r := firstn n s in (consume h (length r), Some r)
  end.

Definition write_f (h : hs) (inp : bytes) (f : nat) : hs * option nat :=
  match write_bytes (b h) inp with
  | Some (bf, k) =>
      if 0 <? k then ({| L := max (L h) (off h + cap bf); off := off h; b := bf; dirty := true; V := V h |}, Some k)
      else ({| L := L h; off := off h; b := bf; dirty := dirty h; V := V h |}, Some k)
  | None =>
      let '(h, ok) := flush_changes_f h (failing f 1) in
      if negb ok then (h, None) else
      let o := off h + pos (b h) in
      let h := {| L := L h; off := o; b := clear (b h); dirty := dirty h; V := V h |} in
      match write_bytes (b h) inp with
      | Some (bf, k) =>
        if 0 <? k then ({| L := max (L h) (off h + cap bf); off := off h; b := bf; dirty := true; V := V h |}, Some k)
        else ({| L := L h; off := off h; b := bf; dirty := dirty h; V := V h |}, Some k)
      | None => (h, Some 0)
      end
  end.

Definition seek_f (h : hs) (np f : nat) : hs * bool :=
  if (np <? off h) || (off h + cap (b h) <? np) then
    let '(h, ok) := flush_changes_f h (failing f 1) in
    if negb ok then (h, false) else
    ({| L := L h; off := np; b := clear (b h); dirty := dirty h; V := V h |}, true)
  else (seek h np, true).

Definition set_len_f (h : hs) (n f : nat) : hs * bool :=
  if n =? L h then (h, true) else
  let np := min (off h + pos (b h)) n in
  let n0 := fl_n h in
  let '(h, ok) := flush_changes_f h (failing f 1 && (0 <? n0)) in
  if negb ok then (h, false) else
  if failing f (n0 + 1) then (h, false) else
  ({| L := n; off := np; b := clear (b h); dirty := dirty h; V := sresize (V h) n |}, true).

Definition flush_f (h : hs) (f : nat) : hs * bool := flush_changes_f h (failing f 1).
End F.

Inductive op := ORead (n : nat) | OWrite (n : nat) (tag : nat) | OSeek (p : nat) | OSetLen (n : nat) | OFlush.

(* ghost contract state (g, c): what a correct handle must expose.
   check: every Ok result is permitted by the contract w.r.t. (g,c); every Err leaves (g,c) alone;
          an Ok flush implies V = g (durability). *)
Definition step_check (FIXED : bool) (h : hs) (g : bytes) (c : nat) (o : op) (f : nat) : hs * bytes * nat * bool :=
  match o with
  | ORead n =>
      match read_f FIXED h n f with
      | (h', None) => (h', g, c, true)
      | (h', Some r) => let k := length r in
          (h', g, c + k, eqb_bytes r (firstn k (skipn c g)) &&
             (if (n =? 0) || (c =? length g) then k =? 0 else (1 <=? k) && (k <=? min n (length g - c))))
      end
  | OWrite n tag =>
      let inp := repeat tag n in
      match write_f FIXED h inp f with
      | (h', None) => (h', g, c, true)
      | (h', Some k) => (h', swrite g c (firstn k inp), c + k, if n =? 0 then k =? 0 else (1 <=? k) && (k <=? n))
      end
  | OSeek p =>
      if p <=? length g then
        match seek_f FIXED h p f with (h', true) => (h', g, p, true) | (h', false) => (h', g, c, true) end
      else (h, g, c, true)
  | OSetLen n =>
      match set_len_f FIXED h n f with
      | (h', true) => (h', sresize g n, min c n, true)
      | (h', false) => (h', g, c, true)
      end
  | OFlush =>
      match flush_f FIXED h f with
      | (h', true) => (h', g, c, eqb_bytes (V h') g)
      | (h', false) => (h', g, c, true)
      end
  end.

Definition ops_small : list (op * nat) :=
  flat_map (fun o => [(o, 0); (o, 1); (o, 2)])
  [ORead 1; ORead 9; OWrite 1 1; OWrite 5 3; OWrite 9 4; OSeek 0; OSeek 3; OSeek 7; OSetLen 2; OSetLen 11; OFlush].

(* cursor agreement is part of the check: the handle's own position must equal the ghost cursor *)
Fixpoint explore (FIXED : bool) (depth : nat) (h : hs) (g : bytes) (c : nat) : bool :=
  match depth with
  | 0 => true
  | S d => forallb (fun '(o, f) =>
             let '(h', g', c', ok) := step_check FIXED h g c o f in
             ok && (cur h' =? c') && (length g' =? L h') && explore FIXED d h' g' c') ops_small
  end.

Definition init (m : nat) : hs := {| L := 0; off := 0; b := new_buf m; dirty := false; V := [] |}.
Time Eval vm_compute in (explore false 4 (init 1) [] 0, explore false 4 (init 6) [] 0).
Time Eval vm_compute in (explore true 4 (init 1) [] 0, explore true 4 (init 6) [] 0).
