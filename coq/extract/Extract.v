(* Extraction of the executable model for the correspondence check.
   Only ExtrOcamlBasic is used: bool, option, unit, list, prod, sumbool map to
   OCaml's own; N, Z, positive, nat stay extracted inductive types. *)
From Coq Require Import Extraction ExtrOcamlBasic.
From Cfb.model Require Import Base Names Time DirEnt State Alloc Dir Mini Store Handle Open Cfb.
From Cfb.spec Require Import Tree Abs WfImage.
Extraction Language OCaml.
Extraction "model.ml"
  step init_fstate open_model concat_img create_state
  cmp_names validate_name name_chain_from_path upper utf16
  from_system_time to_system_time
  dirent_decode dirent_encode header_decode
  spec_step empty_tree abs_state wf_check
  N.add N.mul N.div_eucl N.of_nat N.to_nat N.compare Z.opp Z.of_N lenN.
