(* Time.v — FILETIME <-> SystemTime, mirrors src/internal/timestamp.rs.
   A SystemTime is (before_epoch, secs, nanos) relative to the Unix epoch. *)
From Cfb.model Require Import Base.
From Cfb.gen Require Import Consts.
Open Scope N_scope.

Definition sat_add (a b : N) : N := N.min (a + b) u64_max.
Definition sat_sub (a b : N) : N := a - b.          (* N subtraction truncates at 0 *)
Definition sat_mul (a b : N) : N := N.min (a * b) u64_max.

Definition TICKS_PER_SEC : N := 10000000.

Definition duration_to_delta (secs nanos : N) : N :=
  sat_add (sat_mul secs TICKS_PER_SEC) (nanos / 100).

Definition from_system_time (before : bool) (secs nanos : N) : N :=
  let delta := duration_to_delta secs nanos in
  if before then sat_sub UNIX_EPOCH_TIMESTAMP delta else sat_add UNIX_EPOCH_TIMESTAMP delta.

Definition delta_to_duration (d : N) : N * N :=
  (d / TICKS_PER_SEC, (d mod TICKS_PER_SEC) * 100).

(* assumes a 64-bit SystemTime, on which checked_add/checked_sub never fail for
   u64 tick counts *)
Definition to_system_time (ts : N) : bool * N * N :=
  if UNIX_EPOCH_TIMESTAMP <=? ts then
    let '(s, n) := delta_to_duration (ts - UNIX_EPOCH_TIMESTAMP) in (false, s, n)
  else
    let '(s, n) := delta_to_duration (UNIX_EPOCH_TIMESTAMP - ts) in (true, s, n).
