(* State.v — the compound-file state (image + cached tables), the state/error
   monad, and the sector layer.  Mirrors src/internal/sector.rs and the fields
   of Allocator / Directory / MiniAllocator. *)
From Cfb.model Require Import Base Names DirEnt.
From Cfb.gen Require Import Consts.
Open Scope N_scope.

(* img: sector 0 of this list is the header sector (sector_len bytes, of which
   the first 512 are the header); element i+1 is CFB sector i.  Only the last
   element may be shorter than sector_len (foreign files).  The file's bytes are
   [concat img]. *)
Record cstate := mkState {
  ver : version;
  img : list (list byte);
  nsect : N;                 (* Sectors::num_sectors *)
  difat_ids : list N;
  difat : list N;
  fat : list N;
  free : list N;             (* Allocator::free_sectors (a stack: last = next) *)
  dirs : list dirent;
  dir_start : N;
  minifat : list N;
  minifat_start : N;
  mfree : list N
}.

Definition w_img (s : cstate) v := mkState (ver s) v (nsect s) (difat_ids s) (difat s) (fat s) (free s) (dirs s) (dir_start s) (minifat s) (minifat_start s) (mfree s).
Definition w_nsect (s : cstate) v := mkState (ver s) (img s) v (difat_ids s) (difat s) (fat s) (free s) (dirs s) (dir_start s) (minifat s) (minifat_start s) (mfree s).
Definition w_difat_ids (s : cstate) v := mkState (ver s) (img s) (nsect s) v (difat s) (fat s) (free s) (dirs s) (dir_start s) (minifat s) (minifat_start s) (mfree s).
Definition w_difat (s : cstate) v := mkState (ver s) (img s) (nsect s) (difat_ids s) v (fat s) (free s) (dirs s) (dir_start s) (minifat s) (minifat_start s) (mfree s).
Definition w_fat (s : cstate) v := mkState (ver s) (img s) (nsect s) (difat_ids s) (difat s) v (free s) (dirs s) (dir_start s) (minifat s) (minifat_start s) (mfree s).
Definition w_free (s : cstate) v := mkState (ver s) (img s) (nsect s) (difat_ids s) (difat s) (fat s) v (dirs s) (dir_start s) (minifat s) (minifat_start s) (mfree s).
Definition w_dirs (s : cstate) v := mkState (ver s) (img s) (nsect s) (difat_ids s) (difat s) (fat s) (free s) v (dir_start s) (minifat s) (minifat_start s) (mfree s).
Definition w_minifat (s : cstate) v := mkState (ver s) (img s) (nsect s) (difat_ids s) (difat s) (fat s) (free s) (dirs s) (dir_start s) v (minifat_start s) (mfree s).
Definition w_minifat_start (s : cstate) v := mkState (ver s) (img s) (nsect s) (difat_ids s) (difat s) (fat s) (free s) (dirs s) (dir_start s) (minifat s) v (mfree s).
Definition w_mfree (s : cstate) v := mkState (ver s) (img s) (nsect s) (difat_ids s) (difat s) (fat s) (free s) (dirs s) (dir_start s) (minifat s) (minifat_start s) v.

(* state monad that keeps the state reached when an error is raised: a Rust
   method that fails half-way has already made its earlier mutations *)
Definition M (A : Type) := cstate -> cstate * res A.
Definition ret {A} (a : A) : M A := fun s => (s, Ok a).
Definition fail {A} (k : ekind) : M A := fun s => (s, Err k).
Definition panic {A} (site : N) : M A := fun s => (s, Panic site).
Definition out_of_fuel {A} : M A := fun s => (s, OutOfFuel).
Definition bind {A B} (m : M A) (f : A -> M B) : M B :=
  fun s => let '(s1, r) := m s in
           match r with
           | Ok a => f a s1
           | Err k => (s1, Err k)
           | Panic n => (s1, Panic n)
           | OutOfFuel => (s1, OutOfFuel)
           end.
Definition get : M cstate := fun s => (s, Ok s).
Definition put (s' : cstate) : M unit := fun _ => (s', Ok tt).
Definition modify (f : cstate -> cstate) : M unit := fun s => (f s, Ok tt).
Definition lift {A} (r : res A) : M A := fun s => (s, r).

Notation "'do' x <- m ; f" := (bind m (fun x => f)) (at level 200, x name, m at level 100, f at level 200).
Notation "'do' ' p <- m ; f" := (bind m (fun x => let p := x in f)) (at level 200, p pattern, m at level 100, f at level 200).
Notation "m ;; f" := (bind m (fun _ => f)) (at level 199, right associativity).

Definition slen (s : cstate) : N := sector_len (ver s).

(* ---- raw image access (the backend behaves like Cursor<Vec<u8>>) ---- *)
(* bytes [off, off+n) of image element [idx]; short when the file ends first *)
Definition img_read (im : list (list byte)) (idx off n : N) : list byte :=
  match nthN im idx with
  | Some sec => takeN n (dropN off sec)
  | None => []
  end.

Definition img_write (im : list (list byte)) (idx off : N) (bs : list byte) : list (list byte) :=
  match nthN im idx with
  | Some sec => updN im idx (spliceN sec off bs)
  | None => im ++ [spliceN [] off bs]      (* idx = length im: appending at the end *)
  end.

(* pad the last element to a whole sector before a new one is appended after it *)
Definition img_pad_last (sl : N) (im : list (list byte)) : list (list byte) :=
  match lastN im with
  | Some sec => if lenN sec <? sl then pop_last im ++ [sec ++ repeatN 0 (sl - lenN sec)] else im
  | None => im
  end.

(* ---- Sectors ---- *)
(* seek_within_sector: the bounds check only; the position is implicit in the
   (sector, offset) pair the caller then reads or writes at *)
Definition seek_sector (sid off : N) : M unit :=
  do s <- get;
  if slen s <? off then panic 201            (* debug_assert!(offset <= sector_len) *)
  else if nsect s <=? sid then fail EInvalidData
  else ret tt.

(* read_exact of [n] bytes inside sector [sid] at [off] *)
Definition sector_read_exact (sid off n : N) : M (list byte) :=
  seek_sector sid off ;;
  do s <- get;
  let bs := img_read (img s) (sid + 1) off n in
  if lenN bs <? n then fail EUnexpectedEof else ret bs.

(* write_all of [bs] inside sector [sid] at [off]; the caller guarantees it fits *)
Definition sector_write (sid off : N) (bs : list byte) : M unit :=
  seek_sector sid off ;;
  modify (fun s =>
    let im := if lenN (img s) <=? sid + 1 then img_pad_last (slen s) (img s) else img s in
    w_img s (img_write im (sid + 1) off bs)).

Definition header_write (off : N) (bs : list byte) : M unit :=
  if HEADER_LEN <=? off then panic 202 else
  modify (fun s => w_img s (img_write (img s) 0 off bs)).

Inductive sinit := IZero | IFat | IDifat | IDir.

Definition init_bytes (v : version) (i : sinit) : list byte :=
  let sl := sector_len v in
  match i with
  | IZero => repeatN 0 sl
  | IFat => repeatN 255 sl
  | IDifat => repeatN 255 (sl - 4) ++ le_bytes 4 END_OF_CHAIN
  | IDir => concat (repeatN (dirent_encode dirent_unallocated) (sl / DIR_ENTRY_LEN))
  end.

Definition init_sector (sid : N) (i : sinit) : M unit :=
  do s <- get;
  (if nsect s <? sid then fail EInvalidData
   else if sid =? nsect s then modify (fun s => w_nsect s (nsect s + 1))
   else ret tt) ;;
  do s <- get;
  sector_write sid 0 (init_bytes (ver s) i).
