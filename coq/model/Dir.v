(* Dir.v — the directory table: lookup, insertion, removal (by relinking),
   slot allocation, write-through.  Mirrors src/internal/directory.rs. *)
From Cfb.model Require Import Base Names DirEnt State Alloc.
From Cfb.gen Require Import Consts.
Open Scope N_scope.

(* Directory::dir_entry: an unchecked Vec index *)
Definition dir_entry (id : N) : M dirent :=
  do s <- get;
  match nthN (dirs s) id with Some e => ret e | None => panic 401 end.
Definition dir_entry_of (ds : list dirent) (id : N) : res dirent :=
  match nthN ds id with Some e => Ok e | None => Panic 401 end.
Definition set_dir_entry (id : N) (e : dirent) : M unit :=
  do s <- get;
  match nthN (dirs s) id with
  | Some _ => put (w_dirs s (updN (dirs s) id e))
  | None => panic 402
  end.

(* descent inside one sibling tree *)
Fixpoint find_in_siblings (fuel : nat) (ds : list dirent) (nm : name) (id : N) : res (option N) :=
  match fuel with
  | O => OutOfFuel
  | S f =>
    if id =? NO_STREAM then Ok None else
    rbind (dir_entry_of ds id) (fun e =>
    match cmp_names nm (d_name e) with
    | Eq => Ok (Some id)
    | Lt => find_in_siblings f ds nm (d_left e)
    | Gt => find_in_siblings f ds nm (d_right e)
    end)
  end.

(* stream_id_for_name_chain *)
Fixpoint lookup_chain (ds : list dirent) (names : list name) (id : N) : res (option N) :=
  match names with
  | [] => Ok (Some id)
  | nm :: rest =>
    rbind (dir_entry_of ds id) (fun e =>
    rbind (find_in_siblings (S (length ds)) ds nm (d_child e)) (fun r =>
    match r with
    | None => Ok None
    | Some cid => lookup_chain ds rest cid
    end))
  end.
Definition lookup (names : list name) : M (option N) :=
  do s <- get; lift (lookup_chain (dirs s) names ROOT_STREAM_ID).

(* seek_within_dir_entry: walk the directory chain with checked next *)
Fixpoint dir_sector_go (n : nat) (fat : list N) (sid : N) : res N :=
  match n with
  | O => Ok sid
  | S n' =>
    if sid =? END_OF_CHAIN then Err EInvalidData      (* the directory chain was cut short *)
    else rbind (next_of fat sid) (fun nx => dir_sector_go n' fat nx)
  end.
Definition write_in_dir_entry (id off : N) (bs : list byte) : M unit :=
  do s <- get;
  let per := dir_per_sector (ver s) in
  do sid <- lift (dir_sector_go (N.to_nat (id / per)) (fat s) (dir_start s));
  sector_write sid ((id mod per) * DIR_ENTRY_LEN + off) bs.

(* write_dir_entry: through a Chain over the directory chain *)
Definition write_dir_entry (id : N) : M unit :=
  do s <- get;
  do c <- chain_new (dir_start s) IDir;
  do c <- chain_seek c (DIR_ENTRY_LEN * id);
  do e <- dir_entry id;
  (if MAX_NAME_LEN <? lenN (utf16 (d_name e)) then panic 404 else ret tt) ;;  (* debug_assert!(name_utf16.len() < 32) *)
  do _ <- chain_write_all c (dirent_encode e);
  ret tt.

Definition with_dir_entry_mut_inner (id : N) (f : dirent -> dirent) : M unit :=
  do e <- dir_entry id;
  set_dir_entry id (f e) ;;
  write_dir_entry id.

(* when the entry cannot be written the in-memory copy is put back (only entry [id] was
   changed in memory, so this is the table the call started with) *)
Definition with_dir_entry_mut (id : N) (f : dirent -> dirent) : M unit := fun s =>
  match with_dir_entry_mut_inner id f s with
  | (s', Ok u) => (s', Ok u)
  | (s', r) => (w_dirs s' (dirs s), r)
  end.

(* count_directory_sectors / update_num_dir_sectors *)
Fixpoint count_dir_go (fuel : nat) (fat : list N) (n : N) (sid : N) : res N :=
  match fuel with
  | O => OutOfFuel
  | S f => if sid =? END_OF_CHAIN then Ok n
           else rbind (next_of fat sid) (fun nx => count_dir_go f fat (n + 1) nx)
  end.
Definition update_num_dir_sectors : M unit :=
  do s <- get;
  match ver s with
  | V3 => ret tt
  | V4 =>
    do nx <- next (dir_start s);
    do n <- lift (count_dir_go (S (S (length (fat s)))) (fat s) 1 nx);
    header_write HDR_OFF_NUM_DIR (le_bytes 4 n)
  end.

(* allocate_dir_entry *)
Fixpoint first_unalloc (ds : list dirent) (i : N) : option N :=
  match ds with
  | [] => None
  | e :: t => if objtype_eqb (d_type e) TUnalloc then Some i else first_unalloc t (i + 1)
  end.
Definition allocate_dir_entry : M N :=
  do s <- get;
  match first_unalloc (dirs s) 0 with
  | Some id => ret id
  | None =>
    (if lenN (dirs s) mod dir_per_sector (ver s) =? 0 then
       do _ <- extend_chain (dir_start s) IDir;
       update_num_dir_sectors
     else ret tt) ;;
    do s <- get;
    let id := lenN (dirs s) in
    put (w_dirs s (dirs s ++ [dirent_unallocated])) ;;
    ret id
  end.

Definition free_dir_entry (id : N) : M unit :=
  if id =? ROOT_STREAM_ID then panic 405 else
  write_in_dir_entry id 0 (dirent_encode dirent_unallocated) ;;
  set_dir_entry id dirent_unallocated.

(* insert_dir_entry; [now] is the value Timestamp::now() returns *)
Fixpoint insert_descend (fuel : nat) (ds : list dirent) (nm : name) (sib prev : N) (ord : comparison)
  : res (N * comparison) :=
  match fuel with
  | O => OutOfFuel
  | S f =>
    if sib =? NO_STREAM then Ok (prev, ord) else
    rbind (dir_entry_of ds sib) (fun e =>
    match cmp_names nm (d_name e) with
    | Lt => insert_descend f ds nm (d_left e) sib Lt
    | Gt => insert_descend f ds nm (d_right e) sib Gt
    | Eq => Panic 406                    (* panic!("internal error: insert duplicate") *)
    end)
  end.

Definition insert_dir_entry (parent : N) (nm : name) (ty : objtype) (now : N) : M N :=
  do id <- allocate_dir_entry;
  let ts := if objtype_eqb ty TStorage then now else 0 in
  set_dir_entry id (dirent_new nm ty ts) ;;
  do p <- dir_entry parent;
  do s <- get;
  do '(prev, ord) <- lift (insert_descend (S (length (dirs s))) (dirs s) nm (d_child p) parent Eq);
  do pe <- dir_entry prev;
  (match ord with
   | Lt => set_dir_entry prev (set_left pe id) ;; write_in_dir_entry prev DE_OFF_LEFT (le_bytes 4 id)
   | Gt => set_dir_entry prev (set_right pe id) ;; write_in_dir_entry prev DE_OFF_RIGHT (le_bytes 4 id)
   | Eq => set_dir_entry parent (set_child pe id) ;; write_in_dir_entry parent DE_OFF_CHILD (le_bytes 4 id)
   end) ;;
  write_dir_entry id ;;
  ret id.

(* remove_dir_entry (relinking version) *)
(* path of ids from the sibling-tree root down to the entry named nm *)
Fixpoint remove_find (fuel : nat) (ds : list dirent) (nm : name) (id : N) (path : list N) : res (list N) :=
  match fuel with
  | O => OutOfFuel
  | S f =>
    if id =? NO_STREAM then Panic 407 else          (* debug_assert_ne!(stream_id, NO_STREAM); then dir_entry(NO_STREAM) *)
    if memN id path then Panic 408 else             (* debug_assert!(!stream_ids.contains(..)) *)
    rbind (dir_entry_of ds id) (fun e =>
    match cmp_names nm (d_name e) with
    | Eq => Ok (path ++ [id])
    | Lt => remove_find f ds nm (d_left e) (path ++ [id])
    | Gt => remove_find f ds nm (d_right e) (path ++ [id])
    end)
  end.

(* rightmost node of the subtree at [cur], with its parent *)
Fixpoint find_pred (fuel : nat) (ds : list dirent) (pparent cur : N) : res (N * N) :=
  match fuel with
  | O => OutOfFuel
  | S f =>
    rbind (dir_entry_of ds cur) (fun e =>
    if d_right e =? NO_STREAM then Ok (pparent, cur)
    else find_pred f ds cur (d_right e))
  end.

Fixpoint write_entries (ids : list N) : M unit :=
  match ids with
  | [] => ret tt
  | id :: t => write_dir_entry id ;; write_entries t
  end.

Definition remove_dir_entry_inner (parent : N) (nm : name) : M unit :=
  do p <- dir_entry parent;
  do s <- get;
  do path <- lift (remove_find (S (length (dirs s))) (dirs s) nm (d_child p) []);
  match lastN path with
  | None => panic 409
  | Some id =>
  do e <- dir_entry id;
  (if negb (d_child e =? NO_STREAM) then panic 410 else ret tt) ;;   (* debug_assert_eq!(child, NO_STREAM) *)
  let l := d_left e in
  let r := d_right e in
  do '(repl, touched) <-
    (if (l =? NO_STREAM) || (r =? NO_STREAM) then
       let c := if l =? NO_STREAM then r else l in
       if negb (c =? NO_STREAM) then
         do ce <- dir_entry c;
         set_dir_entry c (set_color ce Black) ;;
         ret (c, [c])
       else ret (c, [])
     else
       do s <- get;
       do '(pp, pred) <- lift (find_pred (S (length (dirs s))) (dirs s) id l);
       do pe <- dir_entry pred;
       let pl := d_left pe in
       do t1 <- (if negb (pl =? NO_STREAM) then
                   do ple <- dir_entry pl;
                   set_dir_entry pl (set_color ple Black) ;; ret [pl]
                 else ret []);
       do t2 <- (if negb (pp =? id) then
                   do ppe <- dir_entry pp;
                   set_dir_entry pp (set_right ppe pl) ;;
                   do pe' <- dir_entry pred;
                   set_dir_entry pred (set_left pe' l) ;;
                   ret [pp]
                 else ret []);
       do pe' <- dir_entry pred;
       set_dir_entry pred (set_color (set_right pe' r) (d_color e)) ;;
       ret (pred, t1 ++ t2 ++ [pred]));
  write_entries touched ;;
  (match lastN (pop_last path) with
   | Some sib =>
     do se <- dir_entry sib;
     if d_left se =? id then
       set_dir_entry sib (set_left se repl) ;; write_in_dir_entry sib DE_OFF_LEFT (le_bytes 4 repl)
     else if negb (d_right se =? id) then panic 411
     else set_dir_entry sib (set_right se repl) ;; write_in_dir_entry sib DE_OFF_RIGHT (le_bytes 4 repl)
   | None =>
     do pe <- dir_entry parent;
     set_dir_entry parent (set_child pe repl) ;; write_in_dir_entry parent DE_OFF_CHILD (le_bytes 4 repl)
   end) ;;
  free_dir_entry id
  end.

(* every in-memory entry is recorded before it is changed; when the removal fails part-way the
   recorded values are put back, so the table in memory is the one the call started with
   (the bytes already written stay written) *)
Definition remove_dir_entry (parent : N) (nm : name) : M unit := fun s =>
  match remove_dir_entry_inner parent nm s with
  | (s', Ok u) => (s', Ok u)
  | (s', r) => (w_dirs s' (dirs s), r)
  end.
