(* Open.v — parsing a byte string into the cached state, with every strict /
   permissive branch.  Mirrors src/lib.rs:429-702, Allocator::validate,
   Directory::validate, MiniAllocator::validate. *)
From Cfb.model Require Import Base Names DirEnt State Alloc Dir Mini.
From Cfb.gen Require Import Consts.
Open Scope N_scope.

(* cut the file into sector-sized pieces; only the last may be short *)
Fixpoint chunks_go (fuel : nat) (sl : N) (bs : list byte) : list (list byte) :=
  match fuel with
  | O => []
  | S f => match bs with
           | [] => []
           | _ => takeN sl bs :: chunks_go f sl (dropN sl bs)
           end
  end.
Definition chunks (sl : N) (bs : list byte) : list (list byte) :=
  chunks_go (S (N.to_nat (lenN bs / sl))) sl bs.

Definition read_sector_u32s (im : list (list byte)) (sl sid : N) (count : N) : res (list N) :=
  let bs := img_read im (sid + 1) 0 (4 * count) in
  if lenN bs <? 4 * count then Err EUnexpectedEof else Ok (u32s bs).

(* ---- DIFAT ---- *)
Fixpoint check_difat_cells (cells : list N) : res unit :=
  match cells with
  | [] => Ok tt
  | c :: t => if negb (c =? FREE_SECTOR) && (MAX_REGULAR_SECTOR <? c) then Err EInvalidData
              else check_difat_cells t
  end.

(* the cells of a DIFAT sector.  On a truncated last sector each cell is checked as soon as it
   has been read, so an invalid cell among the complete ones is reported before the end of the
   file is hit; otherwise the read fails with UnexpectedEof. *)
Definition read_difat_sector (im : list (list byte)) (sl cur : N) : res (list N) :=
  let raw := img_read im (cur + 1) 0 sl in
  if lenN raw <? sl then
    rbind (check_difat_cells (takeN (sl / 4 - 1) (u32s (takeN (4 * (lenN raw / 4)) raw))))
          (fun _ => Err EUnexpectedEof)
  else read_sector_u32s im sl cur (sl / 4).

Fixpoint difat_loop (fuel : nat) (strict : bool) (im : list (list byte)) (sl ns : N)
         (cur : N) (seen ids difat : list N) : res (list N * list N) :=
  match fuel with
  | O => OutOfFuel
  | S f =>
    if (cur =? END_OF_CHAIN) || (cur =? FREE_SECTOR) then Ok (ids, difat) else
    if MAX_REGULAR_SECTOR <? cur then Err EInvalidData else
    if ns <=? cur then Err EInvalidData else
    if memN cur seen then Err EInvalidData else
    rbind (read_difat_sector im sl cur) (fun cells =>
    let entries := takeN (sl / 4 - 1) cells in
    rbind (check_difat_cells entries) (fun _ =>
    match nthN cells (sl / 4 - 1) with
    | None => Panic 801
    | Some nx =>
      if strict && (nx =? FREE_SECTOR) then Err EInvalidData
      else difat_loop f strict im sl ns nx (cur :: seen) (ids ++ [cur]) (difat ++ entries)
    end))
  end.

(* pops trailing elements satisfying p while more than minlen elements remain *)
Fixpoint pop_while (fuel : nat) (p : N -> bool) (minlen : N) (r : list N) (len : N) : list N :=
  match fuel with
  | O => r
  | S f => match r with
           | x :: t => if (minlen <? len) && p x then pop_while f p minlen t (len - 1) else r
           | [] => r
           end
  end.
(* rev' is the linear-time reversal (rev' l = rev l by rev_alt): the FAT of a file can have
   tens of thousands of trailing FREE entries *)
Definition strip_last_while (p : N -> bool) (minlen : N) (l : list N) : list N :=
  rev' (pop_while (length l) p minlen (rev' l) (lenN l)).

(* ---- Allocator::validate ---- *)
Fixpoint mark_sectors (strict : bool) (marker : N) (ids : list N) (fat : list N) : res (list N) :=
  match ids with
  | [] => Ok fat
  | i :: t =>
    match nthN fat i with
    | None => Err EInvalidData
    | Some v =>
      if negb (v =? marker) && strict then Err EInvalidData
      else mark_sectors strict marker t (updN fat i marker)
    end
  end.

Fixpoint check_pointees (invalid_ok : bool) (cells : list N) (n : N) (seen : list N) : res unit :=
  match cells with
  | [] => Ok tt
  | c :: t =>
    if c <=? MAX_REGULAR_SECTOR then
      if n <=? c then Err EInvalidData
      else if memN c seen then Err EInvalidData
      else check_pointees invalid_ok t n (c :: seen)
    else if negb invalid_ok && (c =? INVALID_SECTOR) then Err EInvalidData
    else check_pointees invalid_ok t n seen
  end.

Fixpoint free_indices (cells : list N) (i : N) : list N :=
  match cells with
  | [] => []
  | c :: t => if c =? FREE_SECTOR then i :: free_indices t (i + 1) else free_indices t (i + 1)
  end.

Definition alloc_validate (strict : bool) (ns : N) (difat_ids difat fat : list N) : res (list N * list N) :=
  if ns <? lenN fat then Err EInvalidData else
  rbind (mark_sectors strict DIFAT_SECTOR difat_ids fat) (fun fat1 =>
  rbind (mark_sectors strict FAT_SECTOR difat fat1) (fun fat2 =>
  rbind (check_pointees false fat2 (lenN fat2) []) (fun _ =>
  Ok (fat2, free_indices fat2 0)))).

(* ---- directory chain ---- *)
Fixpoint read_dirents (v : version) (strict : bool) (n : nat) (bs : list byte) : res (list dirent) :=
  match n with
  | O => Ok []
  | S n' =>
    rbind (dirent_decode v strict (takeN DIR_ENTRY_LEN bs)) (fun e =>
    rbind (read_dirents v strict n' (dropN DIR_ENTRY_LEN bs)) (fun r => Ok (e :: r)))
  end.

Fixpoint dir_loop (fuel : nat) (strict : bool) (v : version) (num_dir : N) (im : list (list byte))
         (ns : N) (fat : list N) (cur count : N) (seen : list N) (acc : list dirent) : res (list dirent) :=
  match fuel with
  | O => OutOfFuel
  | S f =>
    if cur =? END_OF_CHAIN then Ok acc else
    if strict && version_eqb v V4 && (num_dir <? count) then Err EInvalidData else
    if MAX_REGULAR_SECTOR <? cur then Err EInvalidData else
    if ns <=? cur then Err EInvalidData else
    if memN cur seen then Err EInvalidData else
    let sl := sector_len v in
    rbind (read_dirents v strict (N.to_nat (dir_per_sector v)) (img_read im (cur + 1) 0 sl)) (fun es =>
    rbind (next_of fat cur) (fun nx =>
    dir_loop f strict v num_dir im ns fat nx (count + 1) (cur :: seen) (acc ++ es)))
  end.

(* ---- Directory::validate: DFS with a visited set ---- *)
Fixpoint dir_dfs (fuel : nat) (strict : bool) (ds : list dirent) (stack : list (N * bool)) (visited : list N)
  : res unit :=
  match fuel with
  | O => OutOfFuel
  | S f =>
    match stack with
    | [] => Ok tt
    | (id, parent_red) :: rest =>
      if memN id visited then Err EInvalidData else
      rbind (dir_entry_of ds id) (fun e =>
      if (if id =? ROOT_STREAM_ID then negb (objtype_eqb (d_type e) TRoot)
          else negb (objtype_eqb (d_type e) TStorage) && negb (objtype_eqb (d_type e) TStream))
      then Err EInvalidData else
      let red := color_eqb (d_color e) Red in
      if parent_red && red && strict then Err EInvalidData else
      let n := lenN ds in
      rbind (if d_left e =? NO_STREAM then Ok rest else
             if n <=? d_left e then Err EInvalidData else
             rbind (dir_entry_of ds (d_left e)) (fun le =>
             match cmp_names (d_name le) (d_name e) with
             | Lt => Ok ((d_left e, red) :: rest)
             | _ => Err EInvalidData
             end)) (fun st1 =>
      rbind (if d_right e =? NO_STREAM then Ok st1 else
             if n <=? d_right e then Err EInvalidData else
             rbind (dir_entry_of ds (d_right e)) (fun re =>
             match cmp_names (d_name e) (d_name re) with
             | Lt => Ok ((d_right e, red) :: st1)
             | _ => Err EInvalidData
             end)) (fun st2 =>
      rbind (if d_child e =? NO_STREAM then Ok st2 else
             if n <=? d_child e then Err EInvalidData else Ok ((d_child e, false) :: st2)) (fun st3 =>
      dir_dfs f strict ds st3 (id :: visited)))))
    end
  end.

Definition dir_validate (strict : bool) (ds : list dirent) : res unit :=
  match ds with
  | [] => Err EInvalidData
  | root :: _ =>
    if negb (d_len root mod MINI_SECTOR_LEN =? 0) then Err EInvalidData
    else dir_dfs (S (S (length ds))) strict ds [(ROOT_STREAM_ID, false)] []
  end.

(* ---- MiniAllocator::validate ---- *)
Definition mini_validate (strict : bool) (root_len : N) (mf : list N) : res (list N * list N) :=
  let rs := root_len / MINI_SECTOR_LEN in
  rbind (if rs <? lenN mf then (if strict then Err EInvalidData else Ok (takeN rs mf)) else Ok mf) (fun mf1 =>
  rbind (check_pointees true mf1 (lenN mf1) []) (fun _ =>
  Ok (mf1, free_indices mf1 0))).

Definition run {A} (m : M A) (s : cstate) : res (A * cstate) :=
  match m s with
  | (s', Ok a) => Ok (a, s')
  | (_, Err k) => Err k
  | (_, Panic p) => Panic p
  | (_, OutOfFuel) => OutOfFuel
  end.

Definition open_model (strict : bool) (bytes : list byte) : res cstate :=
  let inner_len := lenN bytes in
  if inner_len <? HEADER_LEN then Err EInvalidData else
  rbind (header_decode strict (takeN HEADER_LEN bytes)) (fun h =>
  let v := h_ver h in
  let sl := sector_len v in
  if (MAX_REGULAR_SECTOR + 1) * sl <? inner_len then Err EInvalidData else
  if inner_len <? sl then Err EInvalidData else
  let ns := (inner_len + sl - 1) / sl - 1 in
  let im := chunks sl bytes in
  rbind (difat_loop (S (S (N.to_nat ns))) strict im sl ns (h_first_difat h) [] [] (h_difat h)) (fun '(ids, difat0) =>
  if strict && negb (h_num_difat h =? lenN ids) then Err EInvalidData else
  let difat1 := if strict then difat0
                else strip_last_while (fun x => x =? 0) (N.max NUM_DIFAT_HDR (h_num_fat h)) difat0 in
  let difat2 := strip_last_while (fun x => x =? FREE_SECTOR) 0 difat1 in
  if strict && negb (h_num_fat h =? lenN difat2) then Err EInvalidData else
  rbind ((fix rd (l : list N) : res (list N) :=
            match l with
            | [] => Ok []
            | sid :: t =>
              if ns <=? sid then Err EInvalidData else
              rbind (read_sector_u32s im sl sid (sl / 4)) (fun cells =>
              rbind (rd t) (fun r => Ok (cells ++ r)))
            end) difat2) (fun fat0 =>
  let fat1 := if strict then fat0
              else strip_last_while (fun x => (x =? 0) || (x =? DIFAT_SECTOR) || (x =? FAT_SECTOR) || (x =? FREE_SECTOR)) ns fat0 in
  let fat2 := strip_last_while (fun x => x =? FREE_SECTOR) ns fat1 in
  let fat3 := fat2 ++ repeatN FREE_SECTOR (ns - lenN fat2) in
  rbind (alloc_validate strict ns ids difat2 fat3) (fun '(fat4, free) =>
  rbind (dir_loop (S (S (N.to_nat ns))) strict v (h_num_dir h) im ns fat4 (h_first_dir h) 1 [] []) (fun ds =>
  rbind (dir_validate strict ds) (fun _ =>
  let s0 := mkState v im ns ids difat2 fat4 free ds (h_first_dir h) [] (h_first_minifat h) [] in
  rbind (run (chain_new (h_first_minifat h) IFat) s0) (fun '(c, _) =>
  if strict && negb (h_num_minifat h =? lenN (c_ids c)) then Err EInvalidData else
  let nent := chain_len sl c / 4 in
  rbind (run (chain_read_exact c (4 * nent)) s0) (fun '((_, mbytes), _) =>
  let mf0 := strip_last_while (fun x => x =? FREE_SECTOR) 0 (u32s mbytes) in
  match ds with
  | [] => Err EInvalidData
  | root :: _ =>
    rbind (mini_validate strict (d_len root) mf0) (fun '(mf, mfree) =>
    Ok (mkState v im ns ids difat2 fat4 free ds (h_first_dir h) mf (h_first_minifat h) mfree))
  end)))))))).
