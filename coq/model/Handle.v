(* Handle.v — the buffered stream handle.  Mirrors src/internal/stream.rs:12-260
   (after the seek-negation, failed-refill and failed-flush fixes) and
   stream_buffer.rs.  The handle is written over an abstract store (a state type
   St with the three operations of stream.rs:276-500 and the length lookup of
   Stream::new); Cfb.v instantiates it with Store.v over the compound file. *)
From Cfb.model Require Import Base.
From Cfb.gen Require Import Consts.
Open Scope N_scope.

Record sbuf := mkBuf { b_data : list byte; b_pos : N; b_cap : N; b_max : N }.

Definition buf_new (maxsz : N) : sbuf :=
  mkBuf (repeatN 0 STREAM_BUFFER_MIN) 0 0 (N.max maxsz STREAM_BUFFER_MIN).
Definition buf_clear (b : sbuf) : sbuf := mkBuf (b_data b) 0 0 (b_max b).
Definition buf_resize (d : list byte) (n : N) : list byte :=
  takeN n d ++ repeatN 0 (n - lenN d).

(* grow: None when already at max size *)
Definition buf_grow (b : sbuf) : option sbuf :=
  if b_max b <=? lenN (b_data b) then None
  else let nl := N.min (lenN (b_data b) * STREAM_BUFFER_GROWTH_FACTOR) (b_max b) in
       Some (mkBuf (buf_resize (b_data b) nl) (b_pos b) (b_cap b) (b_max b)).

(* write_bytes *)
Definition buf_write_bytes (b : sbuf) (inp : list byte) : res (option (sbuf * N)) :=
  if lenN (b_data b) <? b_pos b then Panic 701 else        (* debug_assert!(pos <= data.len()) *)
  let ob := if lenN (b_data b) <=? b_pos b then buf_grow b else Some b in
  match ob with
  | None => Ok None
  | Some b =>
    let w := N.min (lenN inp) (lenN (b_data b) - b_pos b) in
    let d := takeN (b_pos b) (b_data b) ++ takeN w inp ++ dropN (b_pos b + w) (b_data b) in
    let p := b_pos b + w in
    Ok (Some (mkBuf d p (N.max (b_cap b) p) (b_max b), w))
  end.

(* grow_for_read_remaining; usize::try_from(remaining) never fails on 64 bits *)
Definition buf_grow_for_read (b : sbuf) (remaining : N) : sbuf :=
  if remaining <=? lenN (b_data b) then b
  else let desired := N.max (N.min remaining (b_max b)) STREAM_BUFFER_MIN in
       mkBuf (buf_resize (b_data b) desired) (b_pos b) (b_cap b) (b_max b).

Definition buf_filled (b : sbuf) : list byte := takeN (b_cap b) (b_data b).
Definition buf_remaining (b : sbuf) : list byte := dropN (b_pos b) (takeN (b_cap b) (b_data b)).

Record handle := mkHandle {
  h_id : N;            (* stream_id *)
  h_total : N;         (* total_len *)
  h_buf : sbuf;
  h_off : N;           (* buf_offset_from_start *)
  h_dirty : bool       (* flusher.is_some() *)
}.
Definition h_with_buf (h : handle) (b : sbuf) := mkHandle (h_id h) (h_total h) b (h_off h) (h_dirty h).
Definition h_position (h : handle) : N := h_off h + b_pos (h_buf h).

Section HandleOps.
Variable St : Type.
(* read_data id off buflen: the bytes of the stream from off, at most buflen *)
Variable read_data : N -> N -> N -> St -> St * res (list byte).
Variable write_data : N -> N -> list byte -> St -> St * res unit.
Variable resize : N -> N -> St -> St * res unit.
(* the stream length recorded in the directory entry (an unchecked index) *)
Variable stream_len : N -> St -> St * res N.

(* Stream::new *)
Definition handle_new (id maxsz : N) : St -> St * res handle := fun s =>
  match stream_len id s with
  | (s1, Ok len) => (s1, Ok (mkHandle id len (buf_new maxsz) 0 false))
  | (s1, Err k) => (s1, Err k) | (s1, Panic p) => (s1, Panic p) | (s1, OutOfFuel) => (s1, OutOfFuel)
  end.

(* flush_changes: on failure the marker stays set *)
Definition flush_changes (h : handle) : St -> St * res handle := fun s =>
  if h_dirty h then
    match write_data (h_id h) (h_off h) (buf_filled (h_buf h)) s with
    | (s1, Ok _) =>
      match stream_len (h_id h) s1 with
      | (s2, Ok len) =>
        (* another handle may have grown the stream: adopt the entry's length when it is larger *)
        (s2, Ok (mkHandle (h_id h) (N.max (h_total h) len) (h_buf h) (h_off h) false))
      | (s2, Err k) => (s2, Err k) | (s2, Panic p) => (s2, Panic p) | (s2, OutOfFuel) => (s2, OutOfFuel)
      end
    | (s1, Err k) => (s1, Err k) | (s1, Panic p) => (s1, Panic p) | (s1, OutOfFuel) => (s1, OutOfFuel)
    end
  else (s, Ok h).

(* Operations return the handle as it is left even when they fail: a failed
   call has side effects on the handle (the window may have moved). *)
Definition HM (A : Type) := St -> St * (handle * res A).

(* fill_buf *)
Definition h_fill_buf (h : handle) : HM (list byte) := fun s =>
  let b := h_buf h in
  if negb (b_pos b <? b_cap b) && (h_position h <? h_total h) then
    match flush_changes h s with
    | (s1, Ok h1) =>
      let off := h_off h1 + b_pos (h_buf h1) in
      let remaining := h_total h1 - off in
      let b0 := mkBuf (b_data (h_buf h1)) 0 (b_cap (h_buf h1)) (b_max (h_buf h1)) in
      let b1 := buf_grow_for_read b0 remaining in
      (* never more than [remaining] bytes: another handle may have grown the stream *)
      let limit := N.min remaining (lenN (b_data b1)) in
      match read_data (h_id h1) off limit s1 with
      | (s2, Ok got) =>
        let n := lenN got in
        if limit <? n then (s2, (h1, Panic 703)) else
        let d := got ++ dropN n (b_data b1) in
        let b2 := mkBuf d 0 n (b_max b1) in
        let h2 := mkHandle (h_id h1) (h_total h1) b2 off (h_dirty h1) in
        (s2, (h2, Ok (buf_remaining b2)))
      | (s2, r) =>
        let h2 := mkHandle (h_id h1) (h_total h1) (buf_clear b1) off (h_dirty h1) in
        (s2, (h2, match r with Ok _ => Panic 0 | Err k => Err k | Panic p => Panic p | OutOfFuel => OutOfFuel end))
      end
    | (s1, r) => (s1, (h, match r with Ok _ => Panic 0 | Err k => Err k | Panic p => Panic p | OutOfFuel => OutOfFuel end))
    end
  else (s, (h, Ok (buf_remaining b))).

(* consume *)
Definition h_consume (h : handle) (amt : N) : handle * res unit :=
  let b := h_buf h in
  if b_cap b <? b_pos b + amt then (h, Panic 704)           (* debug_assert!(pos + amt <= cap) *)
  else (h_with_buf h (mkBuf (b_data b) (b_pos b + amt) (b_cap b) (b_max b)), Ok tt).

(* read *)
Definition h_read (h : handle) (n : N) : HM (list byte) := fun s =>
  match h_fill_buf h s with
  | (s1, (h1, Ok avail)) =>
    let r := takeN n avail in
    let '(h2, c) := h_consume h1 (lenN r) in
    (s1, (h2, match c with Ok _ => Ok r | Err k => Err k | Panic p => Panic p | OutOfFuel => OutOfFuel end))
  | other => other
  end.

(* seek; the argument is (whence, signed offset): i64 for End/Current, u64 for Start *)
Inductive whence := WStart | WEnd | WCur.
Definition seek_target (h : handle) (w : whence) (z : Z) : res N :=
  match w with
  | WStart =>
    let d := Z.to_N z in
    if h_total h <? d then Err EInvalidInput else Ok d
  | WEnd =>
    if (0 <? z)%Z then Err EInvalidInput else
    let d := Z.to_N (Z.abs z) in                   (* unsigned_abs *)
    if h_total h <? d then Err EInvalidInput else Ok (h_total h - d)
  | WCur =>
    let old := h_position h in
    if h_total h <? old then Panic 705 else          (* debug_assert!(old_pos <= total_len) *)
    if (z <? 0)%Z then
      let d := Z.to_N (Z.abs z) in
      if old <? d then Err EInvalidInput else Ok (old - d)
    else
      let d := Z.to_N z in
      if h_total h - old <? d then Err EInvalidInput else Ok (old + d)
  end.

Definition h_seek (h : handle) (w : whence) (z : Z) : HM N := fun s =>
  match seek_target h w z with
  | Ok np =>
    if (np <? h_off h) || (h_off h + b_cap (h_buf h) <? np) then
      match flush_changes h s with
      | (s1, Ok h1) =>
        (s1, (mkHandle (h_id h1) (h_total h1) (buf_clear (h_buf h1)) np (h_dirty h1), Ok np))
      | (s1, r) => (s1, (h, match r with Ok _ => Panic 0 | Err k => Err k | Panic p => Panic p | OutOfFuel => OutOfFuel end))
      end
    else
      let b := h_buf h in
      let p := np - h_off h in
      if lenN (b_data b) <? p then (s, (h, Panic 706)) else      (* debug_assert!(pos <= data.len()) *)
      (s, (h_with_buf h (mkBuf (b_data b) p (N.max (b_cap b) p) (b_max b)), Ok np))
  | Err k => (s, (h, Err k))
  | Panic p => (s, (h, Panic p))
  | OutOfFuel => (s, (h, OutOfFuel))
  end.

(* write *)
Definition h_write (h : handle) (inp : list byte) : HM N := fun s =>
  let finish (s' : St) (h' : handle) (bf : sbuf) (k : N) :=
    if 0 <? k then
      (s', (mkHandle (h_id h') (N.max (h_total h') (h_off h' + b_cap bf)) bf (h_off h') true, Ok k))
    else (s', (h_with_buf h' bf, Ok k)) in
  match buf_write_bytes (h_buf h) inp with
  | Ok (Some (bf, k)) => finish s h bf k
  | Ok None =>
    match flush_changes h s with
    | (s1, Ok h1) =>
      let h2 := mkHandle (h_id h1) (h_total h1) (buf_clear (h_buf h1)) (h_off h1 + b_pos (h_buf h1)) (h_dirty h1) in
      match buf_write_bytes (h_buf h2) inp with
      | Ok (Some (bf, k)) => finish s1 h2 bf k
      | Ok None => finish s1 h2 (h_buf h2) 0
      | Err e => (s1, (h2, Err e)) | Panic p => (s1, (h2, Panic p)) | OutOfFuel => (s1, (h2, OutOfFuel))
      end
    | (s1, r) => (s1, (h, match r with Ok _ => Panic 0 | Err k => Err k | Panic p => Panic p | OutOfFuel => OutOfFuel end))
    end
  | Err e => (s, (h, Err e)) | Panic p => (s, (h, Panic p)) | OutOfFuel => (s, (h, OutOfFuel))
  end.

(* set_len *)
Definition h_set_len (h : handle) (size : N) : HM unit := fun s =>
  if size =? h_total h then (s, (h, Ok tt)) else
  let np := N.min (h_position h) size in
  match flush_changes h s with
  | (s1, Ok h1) =>
    match resize (h_id h1) size s1 with
    | (s2, Ok _) => (s2, (mkHandle (h_id h1) size (buf_clear (h_buf h1)) np (h_dirty h1), Ok tt))
    | (s2, r) =>
      (* the resize may have been partly applied: the handle re-reads the length the
         directory entry now records, keeps its position (clamped) and empties its buffer *)
      let r' := match r with Ok _ => Panic 0 | Err k => Err k | Panic p => Panic p | OutOfFuel => OutOfFuel end in
      match stream_len (h_id h1) s2 with
      | (s3, Ok len) =>
        (s3, (mkHandle (h_id h1) len (buf_clear (h_buf h1)) (N.min (h_position h) len) (h_dirty h1), r'))
      | (s3, Err k) => (s3, (h1, Err k))
      | (s3, Panic p) => (s3, (h1, Panic p))
      | (s3, OutOfFuel) => (s3, (h1, OutOfFuel))
      end
    end
  | (s1, r) => (s1, (h, match r with Ok _ => Panic 0 | Err k => Err k | Panic p => Panic p | OutOfFuel => OutOfFuel end))
  end.

(* flush (the underlying writer's flush has no modelled effect) *)
Definition h_flush (h : handle) : HM unit := fun s =>
  match flush_changes h s with
  | (s1, Ok h1) => (s1, (h1, Ok tt))
  | (s1, r) => (s1, (h, match r with Ok _ => Panic 0 | Err k => Err k | Panic p => Panic p | OutOfFuel => OutOfFuel end))
  end.

End HandleOps.
