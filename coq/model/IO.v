(* IO.v — the backend I/O layer: raw Read/Write/Seek calls that may transfer
   short counts or fail with ErrorKind::Interrupted, and the std loops
   (read_exact / write_all / io::copy) the library drives them with.

   Mirrors:
     sector.rs 46-88    Sectors::seek_within_header / seek_within_sector
                        (every access starts with inner.seek(SeekFrom::Start(abs)))
     sector.rs 152-180  Sector::read / Sector::write (ONE inner.read / inner.write
                        per call, clipped to the end of the sector; returns
                        Ok(0) without touching the backend when nothing fits)
     chain.rs 136-198   Chain::read / Chain::write (locate sector by
                        offset / sector_len, seek_within_sector, one Sector call)
     minichain.rs 101-158  MiniChain::read / write (same shape, sector_len = 64,
                        sector start = absolute offset of the mini sector)
   and the std default loops (modelled from the std documentation / source,
   NOT verified against std):
     Read::read_exact   while !buf.is_empty() { match read(buf) { Ok(0) => break,
                        Ok(n) => buf = &mut buf[n..], Err(Interrupted) => {},
                        Err(e) => return Err(e) } }  then UnexpectedEof if
                        buf is not empty
     Write::write_all   while !buf.is_empty() { match write(buf) {
                        Ok(0) => return Err(WriteZero), Ok(n) => buf = &buf[n..],
                        Err(Interrupted) => {}, Err(e) => return Err(e) } }
     io::copy           loop { read up to 8 KiB from the source (retrying on
                        Interrupted); if 0 break; writer.write_all(chunk) }
   The backend is a file with a cursor whose writes past the end zero-fill
   the gap (Cursor<Vec<u8>>, or a sparse file): also taken from documentation.

   Definitions only; the theorems are in proofs/IOProofs.v. *)
From Cfb.model Require Import Base.
Open Scope N_scope.

(* ---- backend and chunking oracle ---- *)

Record backend := { data : list byte; pos : N }.

(* One decision per raw read/write call.  [Short k]: transfer at most
   [max 1 k] bytes (never 0 when something can be transferred).
   [Interrupted]: fail with ErrorKind::Interrupted, transferring nothing and
   leaving the cursor where it was.  An exhausted oracle transfers everything
   that was requested (the one-shot backend is the oracle []). *)
Inductive choice := Short (k : N) | Interrupted.
Definition oracle := list choice.

Fixpoint count_interrupted (o : oracle) : N :=
  match o with
  | [] => 0
  | Interrupted :: t => N.succ (count_interrupted t)
  | Short _ :: t => count_interrupted t
  end.

(* how many of [m] transferable bytes this call moves; None = Interrupted *)
Definition xfer (m : N) (o : oracle) : option N * oracle :=
  match o with
  | [] => (Some m, [])
  | Short k :: o' => (Some (N.min m (N.max 1 k)), o')
  | Interrupted :: o' => (None, o')
  end.

(* outcome of a raw call: [None] = Err(Interrupted), [Some x] = Ok *)
Definition raw (A : Type) := (option A * backend * oracle)%type.

(* F::seek(SeekFrom::Start(p)) — never fails in the model, consumes no choice *)
Definition raw_seek (p : N) (b : backend) : backend :=
  {| data := data b; pos := p |}.

(* F::read(&mut buf[..want]) : returns the bytes placed in the buffer *)
Definition raw_read (want : N) (b : backend) (o : oracle) : raw (list byte) :=
  let avail := lenN (data b) - pos b in
  let m := N.min want avail in
  match xfer m o with
  | (Some k, o') =>
      (Some (takeN k (dropN (pos b) (data b))),
       {| data := data b; pos := pos b + k |}, o')
  | (None, o') => (None, b, o')
  end.

(* F::write(bs) : returns the count written (a prefix of bs); always has room *)
Definition raw_write (bs : list byte) (b : backend) (o : oracle) : raw N :=
  match xfer (lenN bs) o with
  | (Some k, o') =>
      (Some k,
       {| data := spliceN (data b) (pos b) (takeN k bs); pos := pos b + k |}, o')
  | (None, o') => (None, b, o')
  end.

(* ---- outcome of a looping primitive ---- *)

Record outcome (A : Type) := mkOut { result : res A; final : backend; rest : oracle }.
Arguments mkOut {A} _ _ _.
Arguments result {A} _.
Arguments final {A} _.
Arguments rest {A} _.

(* ---- std loops on the bare backend (Sector-less: lib.rs 763-779 create,
        header.rs read_from/write_to on the raw file) ---- *)

(* Read::read_exact with [rem] bytes still to read, [acc] already read *)
Fixpoint read_exact_loop (fuel : nat) (rem : N) (acc : list byte)
         (b : backend) (o : oracle) : outcome (list byte) :=
  match fuel with
  | O => mkOut OutOfFuel b o
  | S f =>
      if rem =? 0 then mkOut (Ok acc) b o
      else match raw_read rem b o with
           | (None, b', o') => read_exact_loop f rem acc b' o'
           | (Some bs, b', o') =>
               if lenN bs =? 0 then mkOut (Err EUnexpectedEof) b' o'
               else read_exact_loop f (rem - lenN bs) (acc ++ bs) b' o'
           end
  end.

Definition read_exact (fuel : nat) (n : N) (b : backend) (o : oracle) :=
  read_exact_loop fuel n [] b o.

(* Write::write_all with [bs] still to write *)
Fixpoint write_all (fuel : nat) (bs : list byte) (b : backend) (o : oracle)
  : outcome unit :=
  match fuel with
  | O => mkOut OutOfFuel b o
  | S f =>
      if lenN bs =? 0 then mkOut (Ok tt) b o
      else match raw_write bs b o with
           | (None, b', o') => write_all f bs b' o'
           | (Some k, b', o') =>
               if k =? 0 then mkOut (Err EWriteZero) b' o'
               else write_all f (dropN k bs) b' o'
           end
  end.

(* io::copy(&mut io::repeat(0).take(n), w)  (sector.rs 217-223, stream.rs 417).
   std reads the source in chunks of up to 8 KiB (the source never fails and
   never returns short before its limit) and write_all's each chunk; a
   sequence of write_all calls on consecutive pieces issues exactly the same
   raw calls as one write_all loop would with the buffer refilled, so this is
   MODELLED as a single write_all of n zero bytes.  [copy_zeros_chunked] below
   is the literal chunk-by-chunk version. *)
Definition copy_zeros (fuel : nat) (n : N) (b : backend) (o : oracle) : outcome unit :=
  write_all fuel (repeatN 0 n) b o.

Definition copy_buf_len : N := 8192.

Fixpoint copy_zeros_chunked (cfuel wfuel : nat) (n : N) (b : backend) (o : oracle)
  : outcome unit :=
  match cfuel with
  | O => mkOut OutOfFuel b o
  | S f =>
      if n =? 0 then mkOut (Ok tt) b o
      else let c := N.min n copy_buf_len in
           let r := write_all wfuel (repeatN 0 c) b o in
           match result r with
           | Ok _ => copy_zeros_chunked f wfuel (n - c) (final r) (rest r)
           | _ => r
           end
  end.

(* ---- positioned accesses: every access begins with an absolute seek ---- *)

Definition read_exact_at (fuel : nat) (p n : N) (b : backend) (o : oracle) :=
  read_exact fuel n (raw_seek p b) o.
Definition write_all_at (fuel : nat) (p : N) (bs : list byte) (b : backend) (o : oracle) :=
  write_all fuel bs (raw_seek p b) o.
Definition copy_zeros_at (fuel : nat) (p n : N) (b : backend) (o : oracle) :=
  copy_zeros fuel n (raw_seek p b) o.

(* ---- Sector: one clipped raw call after seek_within_sector ---- *)

(* Sectors::seek_within_sector(id, within) then Sector::read(&mut buf[..buflen]).
   [sector_off] is the absolute offset of the (mini) sector start,
   (id+1)*sector_len for regular sectors.  max_len == 0 returns Ok(0) without
   calling the backend (no choice consumed). *)
Definition sector_read (sl sector_off within buflen : N) (b : backend) (o : oracle)
  : raw (list byte) :=
  let b1 := raw_seek (sector_off + within) b in
  let max_len := N.min buflen (sl - within) in
  if max_len =? 0 then (Some [], b1, o) else raw_read max_len b1 o.

Definition sector_write (sl sector_off within : N) (bs : list byte)
           (b : backend) (o : oracle) : raw N :=
  let b1 := raw_seek (sector_off + within) b in
  let max_len := N.min (lenN bs) (sl - within) in
  if max_len =? 0 then (Some 0, b1, o) else raw_write (takeN max_len bs) b1 o.

(* ---- Chain / MiniChain: read_exact and write_all over Chain::read/write ---- *)

(* [secs] = absolute start offsets of the chain's sectors in chain order,
   [ofs] = Chain::offset_from_start, total_len = sl * len secs.
   Result carries the final offset_from_start.
   Panic 1 = sector_ids[current_sector_index] out of range (unreachable:
   ofs < total_len there; proved in IOProofs). *)
Fixpoint chain_read_exact_loop (fuel : nat) (sl : N) (secs : list N) (ofs rem : N)
         (acc : list byte) (b : backend) (o : oracle) : outcome (list byte * N) :=
  match fuel with
  | O => mkOut OutOfFuel b o
  | S f =>
      if rem =? 0 then mkOut (Ok (acc, ofs)) b o
      else
        let max_len := N.min rem (sl * lenN secs - ofs) in
        if max_len =? 0 then mkOut (Err EUnexpectedEof) b o   (* Chain::read -> Ok(0) *)
        else match nthN secs (ofs / sl) with
             | None => mkOut (Panic 1) b o
             | Some s =>
                 match sector_read sl s (ofs mod sl) max_len b o with
                 | (None, b', o') => chain_read_exact_loop f sl secs ofs rem acc b' o'
                 | (Some bs, b', o') =>
                     if lenN bs =? 0 then mkOut (Err EUnexpectedEof) b' o'
                     else chain_read_exact_loop f sl secs (ofs + lenN bs)
                                                (rem - lenN bs) (acc ++ bs) b' o'
                 end
             end
  end.

(* chain.seek(SeekFrom::Start(ofs)); chain.read_exact(&mut buf[..n]) *)
Definition chain_read_exact (fuel : nat) (sl : N) (secs : list N) (ofs n : N)
           (b : backend) (o : oracle) :=
  chain_read_exact_loop fuel sl secs ofs n [] b o.

(* Chain::write when offset_from_start == total_len calls the allocator
   (extend_chain / begin_chain), which is outside this file: the loop below
   covers writes inside the already allocated sectors and reports
   Panic 2 at the point where Rust would allocate.  (The allocator's own
   writes go through the same Sector primitives.) *)
Fixpoint chain_write_all_loop (fuel : nat) (sl : N) (secs : list N) (ofs : N)
         (bs : list byte) (b : backend) (o : oracle) : outcome N :=
  match fuel with
  | O => mkOut OutOfFuel b o
  | S f =>
      if lenN bs =? 0 then mkOut (Ok ofs) b o
      else if sl * lenN secs <=? ofs then mkOut (Panic 2) b o
      else match nthN secs (ofs / sl) with
           | None => mkOut (Panic 1) b o
           | Some s =>
               match sector_write sl s (ofs mod sl) bs b o with
               | (None, b', o') => chain_write_all_loop f sl secs ofs bs b' o'
               | (Some k, b', o') =>
                   if k =? 0 then mkOut (Err EWriteZero) b' o'
                   else chain_write_all_loop f sl secs (ofs + k) (dropN k bs) b' o'
               end
           end
  end.

Definition chain_write_all (fuel : nat) (sl : N) (secs : list N) (ofs : N)
           (bs : list byte) (b : backend) (o : oracle) :=
  chain_write_all_loop fuel sl secs ofs bs b o.

(* ---- one-shot results as pure functions ---- *)

(* what read_exact n returns and where it leaves the cursor *)
Definition read_exact_spec (n : N) (b : backend) : res (list byte) * backend :=
  if n <=? lenN (data b) - pos b
  then (Ok (takeN n (dropN (pos b) (data b))), {| data := data b; pos := pos b + n |})
  else (Err EUnexpectedEof,
        {| data := data b; pos := pos b + (lenN (data b) - pos b) |}).

(* write_all bs: an empty buffer issues no call at all (so no zero-fill) *)
Definition write_all_spec (bs : list byte) (b : backend) : backend :=
  if lenN bs =? 0 then b
  else {| data := spliceN (data b) (pos b) bs; pos := pos b + lenN bs |}.

(* logical contents of a chain: its sectors' bytes in chain order *)
Definition chain_contents (d : list byte) (secs : list N) (sl : N) : list byte :=
  flat_map (fun s => takeN sl (dropN s d)) secs.

Definition chain_bytes (d : list byte) (secs : list N) (sl ofs n : N) : list byte :=
  takeN n (dropN ofs (chain_contents d secs sl)).

(* file contents after writing bs at logical offset ofs of the chain: one
   splice per sector touched, at absolute offset sector_start + within *)
Fixpoint chain_splice (d : list byte) (secs : list N) (sl ofs : N) (bs : list byte)
  : list byte :=
  match secs with
  | [] => d
  | s :: tl =>
      if lenN bs =? 0 then d
      else if ofs <? sl then
        let k := N.min (lenN bs) (sl - ofs) in
        chain_splice (spliceN d (s + ofs) (takeN k bs)) tl sl 0 (dropN k bs)
      else chain_splice d tl sl (ofs - sl) bs
  end.

(* absolute position of logical offset [ofs] (where the last raw call of a
   transfer ending at [ofs] leaves the cursor is [chain_abs (ofs-1) + 1]) *)
Definition chain_abs (secs : list N) (sl ofs : N) : N :=
  match nthN secs (ofs / sl) with Some s => s + ofs mod sl | None => 0 end.

Definition all_in_bounds (d : list byte) (secs : list N) (sl : N) : Prop :=
  Forall (fun s => s + sl <= lenN d) secs.
