(* Alloc.v — FAT-level allocation and regular chains.
   Mirrors src/internal/alloc.rs (after the "checked walks" fix) and chain.rs. *)
From Cfb.model Require Import Base Names DirEnt State.
From Cfb.gen Require Import Consts.
Open Scope N_scope.

Definition fat_per_sector (s : cstate) : N := slen s / 4.

(* Allocator::next *)
Definition next_of (fat : list N) (sid : N) : res N :=
  match nthN fat sid with
  | None => Err EInvalidData
  | Some nx =>
    if negb (nx =? END_OF_CHAIN) && ((MAX_REGULAR_SECTOR <? nx) || (lenN fat <=? nx))
    then Err EInvalidData else Ok nx
  end.
Definition next (sid : N) : M N := do s <- get; lift (next_of (fat s) sid).

(* Chain::new — the walk with its "came back to the first sector" check *)
Fixpoint chain_ids_go (fuel : nat) (fat : list N) (first cur : N) (acc : list N) : res (list N) :=
  match fuel with
  | O => OutOfFuel
  | S f =>
    if cur =? END_OF_CHAIN then Ok (rev acc)
    else rbind (next_of fat cur) (fun nx =>
         if nx =? first then Err EInvalidData
         else chain_ids_go f fat first nx (cur :: acc))
  end.
Definition chain_ids_of (fat : list N) (start : N) : res (list N) :=
  chain_ids_go (S (S (length fat))) fat start start [].

Record chain := mkChain { c_init : sinit; c_ids : list N; c_off : N }.
Definition chain_new (start : N) (i : sinit) : M chain :=
  do s <- get;
  do ids <- lift (chain_ids_of (fat s) start);
  ret (mkChain i ids 0).
Definition chain_start (c : chain) : N := match c_ids c with x :: _ => x | [] => END_OF_CHAIN end.
Definition chain_len (sl : N) (c : chain) : N := sl * lenN (c_ids c).

(* set_fat *)
Definition set_fat (index value : N) : M unit :=
  do s <- get;
  if lenN (fat s) <? index then panic 301 else       (* debug_assert!(index <= fat.len()) *)
  match nthN (difat s) (index / fat_per_sector s) with
  | None => fail EInvalidData
  | Some fsid =>
    sector_write fsid (4 * (index mod fat_per_sector s)) (le_bytes 4 value) ;;
    modify (fun s => w_fat s (if index =? lenN (fat s) then fat s ++ [value] else updN (fat s) index value))
  end.

Definition difat_per_sector (s : cstate) : N := (slen s - 4) / 4.

(* append_fat_sector *)
Definition append_fat_sector : M unit :=
  do s <- get;
  let new_fat_sid := lenN (fat s) in
  init_sector new_fat_sid IFat ;;
  let difat_index := lenN (difat s) in
  modify (fun s => w_difat s (difat s ++ [new_fat_sid])) ;;
  set_fat new_fat_sid FAT_SECTOR ;;
  (if difat_index <? NUM_DIFAT_HDR then
     header_write (HDR_OFF_DIFAT_ARRAY + 4 * difat_index) (le_bytes 4 new_fat_sid)
   else
     do s <- get;
     let per := difat_per_sector s in
     let dsi := (difat_index - NUM_DIFAT_HDR) / per in
     (if lenN (difat_ids s) <=? dsi then
        let new_difat_sid := lenN (fat s) in
        init_sector new_difat_sid IDifat ;;
        set_fat new_difat_sid DIFAT_SECTOR ;;
        do s <- get;
        (match lastN (difat_ids s) with
         | Some last_sid => sector_write last_sid (slen s - 4) (le_bytes 4 new_difat_sid)
         | None => ret tt
         end) ;;
        modify (fun s => w_difat_ids s (difat_ids s ++ [new_difat_sid])) ;;
        do s <- get;
        match difat_ids s with
        | first :: _ => header_write HDR_OFF_FIRST_DIFAT (le_bytes 4 first ++ le_bytes 4 (lenN (difat_ids s)))
        | [] => panic 302
        end
      else ret tt) ;;
     do s <- get;
     match nthN (difat_ids s) dsi with
     | None => panic 303
     | Some dsid =>
       let idx := difat_index - NUM_DIFAT_HDR - dsi * per in
       sector_write dsid (4 * idx) (le_bytes 4 new_fat_sid)
     end) ;;
  do s <- get;
  header_write HDR_OFF_NUM_FAT (le_bytes 4 (lenN (difat s))).

(* allocate_sector *)
Definition allocate_sector (i : sinit) : M N :=
  do s <- get;
  match lastN (free s) with
  | Some sid =>
    modify (fun s => w_free s (pop_last (free s))) ;;
    set_fat sid END_OF_CHAIN ;;
    init_sector sid i ;;
    ret sid
  | None =>
    (if lenN (fat s) mod fat_per_sector s =? 0 then append_fat_sector else ret tt) ;;
    do s <- get;
    let new_sid := lenN (fat s) in
    set_fat new_sid END_OF_CHAIN ;;
    init_sector new_sid i ;;
    ret new_sid
  end.
Definition begin_chain (i : sinit) : M N := allocate_sector i.

(* extend_chain: checked, bounded walk to the last sector *)
Fixpoint find_last_go (fuel : nat) (fat : list N) (steps : N) (cur : N) : res N :=
  match fuel with
  | O => OutOfFuel
  | S f =>
    rbind (next_of fat cur) (fun nx =>
    if nx =? END_OF_CHAIN then Ok cur
    else if lenN fat <? steps + 1 then Err EInvalidData
    else find_last_go f fat (steps + 1) nx)
  end.
Definition extend_chain (start : N) (i : sinit) : M N :=
  if start =? END_OF_CHAIN then panic 304 else
  do s <- get;
  do last <- lift (find_last_go (S (S (length (fat s)))) (fat s) 0 start);
  do new_sid <- allocate_sector i;
  set_fat last new_sid ;;
  ret new_sid.

(* free_sector / free_chain / free_chain_after *)
Definition free_sector (sid : N) : M unit :=
  do s <- get;
  match nthN (fat s) sid with
  | Some v => if v =? FREE_SECTOR then fail EInvalidInput else
      set_fat sid FREE_SECTOR ;; modify (fun s => w_free s (free s ++ [sid]))
  | None => set_fat sid FREE_SECTOR ;; modify (fun s => w_free s (free s ++ [sid]))
  end.

Fixpoint free_chain_go (fuel : nat) (sid : N) : M unit :=
  match fuel with
  | O => out_of_fuel
  | S f =>
    if sid =? END_OF_CHAIN then ret tt
    else do nx <- next sid; free_sector sid ;; free_chain_go f nx
  end.
Definition free_chain (start : N) : M unit :=
  do s <- get; free_chain_go (S (S (length (fat s)))) start.
Definition free_chain_after (sid : N) : M unit :=
  do nx <- next sid;
  set_fat sid END_OF_CHAIN ;;
  free_chain nx.

(* ---- Chain operations ---- *)
Definition chain_seek (c : chain) (pos : N) : M chain :=
  do s <- get;
  if chain_len (slen s) c <? pos then fail EInvalidInput
  else ret (mkChain (c_init c) (c_ids c) pos).

(* Chain::set_len *)
Fixpoint chain_grow (n : nat) (c : chain) : M chain :=
  match n with
  | O => ret c
  | S n' =>
    do sid <- match lastN (c_ids c) with
              | Some last => extend_chain last (c_init c)
              | None => begin_chain (c_init c)
              end;
    chain_grow n' (mkChain (c_init c) (c_ids c ++ [sid]) (c_off c))
  end.

Definition chain_set_len (c : chain) (new_len : N) : M chain :=
  do s <- get;
  let sl := slen s in
  if two64 <=? sl + new_len - 1 + 1 then panic 305 else     (* u64 overflow of sector_len + new_len - 1 *)
  let new_num := (sl + new_len - 1) / sl in
  let cur := lenN (c_ids c) in
  if new_num =? 0 then
    match c_ids c with
    | first :: _ => free_chain first ;; ret c
    | [] => ret c
    end
  else if new_num <=? cur then
    (if new_num <? cur then
       match nthN (c_ids c) (new_num - 1) with
       | Some sid => free_chain_after sid
       | None => panic 306
       end
     else ret tt) ;; ret c
  else chain_grow (N.to_nat (new_num - cur)) c.

(* Chain::read via read_exact: one sector-bounded read per round *)
Fixpoint chain_read_go (fuel : nat) (c : chain) (n : N) (acc : list byte) : M (chain * list byte) :=
  match fuel with
  | O => out_of_fuel
  | S f =>
    if n =? 0 then ret (c, acc) else
    do s <- get;
    let sl := slen s in
    let total := chain_len sl c in
    if total <? c_off c then panic 307 else
    let maxlen := N.min n (total - c_off c) in
    if maxlen =? 0 then fail EUnexpectedEof else
    match nthN (c_ids c) (c_off c / sl) with
    | None => panic 308
    | Some sid =>
      let ow := c_off c mod sl in
      let k := N.min maxlen (sl - ow) in
      do bs <- sector_read_exact sid ow k;
      chain_read_go f (mkChain (c_init c) (c_ids c) (c_off c + k)) (n - k) (acc ++ bs)
    end
  end.
Definition chain_read_exact (c : chain) (n : N) : M (chain * list byte) :=
  do s <- get;
  chain_read_go (S (S (S (N.to_nat (n / slen s))))) c n [].

(* Chain::write via write_all *)
Fixpoint chain_write_go (fuel : nat) (c : chain) (bs : list byte) : M chain :=
  match fuel with
  | O => out_of_fuel
  | S f =>
    match bs with
    | [] => ret c
    | _ =>
      do s <- get;
      let sl := slen s in
      do c <- (if c_off c =? chain_len sl c then
                 do sid <- match lastN (c_ids c) with
                           | Some last => extend_chain last (c_init c)
                           | None => begin_chain (c_init c)
                           end;
                 ret (mkChain (c_init c) (c_ids c ++ [sid]) (c_off c))
               else ret c);
      match nthN (c_ids c) (c_off c / sl) with
      | None => panic 309
      | Some sid =>
        let ow := c_off c mod sl in
        let k := N.min (lenN bs) (sl - ow) in
        sector_write sid ow (takeN k bs) ;;
        chain_write_go f (mkChain (c_init c) (c_ids c) (c_off c + k)) (dropN k bs)
      end
    end
  end.
Definition chain_write_all (c : chain) (bs : list byte) : M chain :=
  do s <- get;
  chain_write_go (S (S (S (N.to_nat (lenN bs / slen s))))) c bs.
