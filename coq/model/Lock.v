(* Lock.v — a small-step model of threads sharing one std::sync::RwLock.

   Definitions only (Inductives, Fixpoints, Definitions); all theorems are in
   proofs/LockProofs.v.  Standard library only; nat everywhere.

   Threads are indices into a list.  A thread's program is a list of acts:
   AcqR / AcqW request the lock in read / write mode, Rel drops the most
   recent guard, Read observes the shared state (needs a read guard), Write f
   replaces the shared state s by f s (needs a write guard).  A configuration
   holds, per thread, the remaining program, the stack of guards it holds and
   the log of values it observed; plus the list of pending requests
   (thread, mode) in arrival order, the shared state, and a ghost list
   `commits` of the values the shared state had each time a write section
   completed (most recent first, the initial value last).

   The lock's fairness policy is a parameter `policy : config -> nat -> bool`
   ("may the pending request of this thread be granted now?").  Compatibility
   with the guards currently held is enforced by the step relation itself, so
   a policy cannot break mutual exclusion; `admissible` only asks the policy
   not to starve everybody when the lock is completely free. *)
From Coq Require Import List Arith Bool.
Import ListNotations.

(* ------------------------------------------------------------------ *)
(* Syntax                                                             *)

Inductive mode : Set := R | W.

Inductive act : Type :=
| AcqR
| AcqW
| Rel
| Read
| Write (f : nat -> nat).

Definition acq (m : mode) : act := match m with R => AcqR | W => AcqW end.

Definition act_mode (a : act) : option mode :=
  match a with AcqR => Some R | AcqW => Some W | _ => None end.

Definition isR (m : mode) : bool := match m with R => true | W => false end.
Definition isW (m : mode) : bool := match m with W => true | R => false end.
Definition mode_eqb (a b : mode) : bool :=
  match a, b with R, R => true | W, W => true | _, _ => false end.

(* ------------------------------------------------------------------ *)
(* Configurations                                                     *)

Record thread : Type := mkThread {
  prog : list act;        (* remaining program *)
  held : list mode;       (* guards held, most recent first; depth = length *)
  log  : list nat         (* values observed by Read, most recent first *)
}.

Record config : Type := mkConfig {
  threads : list thread;
  waiting : list (nat * mode);   (* pending requests, oldest first *)
  st      : nat;                 (* the shared state behind the lock *)
  commits : list nat             (* ghost: state at the end of each completed
                                    write section, newest first; initial last *)
}.

Definition policy_t : Type := config -> nat -> bool.

Fixpoint upd {A : Type} (i : nat) (x : A) (l : list A) : list A :=
  match l, i with
  | [], _ => []
  | _ :: l', 0 => x :: l'
  | y :: l', S i' => y :: upd i' x l'
  end.

(* thread i has a pending request *)
Definition is_waiting (w : list (nat * mode)) (i : nat) : bool :=
  existsb (fun e => fst e =? i) w.

(* thread i has a pending request for mode m (boolean form of In (i,m) w) *)
Definition in_waiting (w : list (nat * mode)) (i : nat) (m : mode) : bool :=
  existsb (fun e => (fst e =? i) && mode_eqb (snd e) m) w.

(* remove the pending request(s) of thread i *)
Definition unwait (i : nat) (w : list (nat * mode)) : list (nat * mode) :=
  filter (fun e => negb (fst e =? i)) w.

(* A request is compatible with the guards currently held by ALL threads,
   the requester included: write needs no guard at all to be held, read
   needs no write guard to be held. *)
Definition compat (ts : list thread) (m : mode) : Prop :=
  match m with
  | W => forall t, In t ts -> held t = []
  | R => forall t, In t ts -> ~ In W (held t)
  end.

Definition holds_none (t : thread) : bool :=
  match held t with [] => true | _ :: _ => false end.

Definition compatb (ts : list thread) (m : mode) : bool :=
  match m with
  | W => forallb holds_none ts
  | R => forallb (fun t => negb (existsb isW (held t))) ts
  end.

Definition lock_free (c : config) : Prop := compat (threads c) W.

(* ------------------------------------------------------------------ *)
(* Steps                                                              *)

Inductive label : Set :=
| LReq   (i : nat)
| LGrant (i : nat)
| LRel   (i : nat)
| LRead  (i : nat)
| LWrite (i : nat).

Inductive step (policy : policy_t) : config -> label -> config -> Prop :=
| S_Req : forall c i t m rest,
    nth_error (threads c) i = Some t ->
    prog t = acq m :: rest ->
    is_waiting (waiting c) i = false ->
    step policy c (LReq i)
      (mkConfig (threads c) (waiting c ++ [(i, m)]) (st c) (commits c))
| S_Grant : forall c i t m rest,
    nth_error (threads c) i = Some t ->
    prog t = acq m :: rest ->
    In (i, m) (waiting c) ->
    compat (threads c) m ->
    policy c i = true ->
    step policy c (LGrant i)
      (mkConfig (upd i (mkThread rest (m :: held t) (log t)) (threads c))
                (unwait i (waiting c)) (st c) (commits c))
| S_Rel : forall c i t m hs rest,
    nth_error (threads c) i = Some t ->
    prog t = Rel :: rest ->
    held t = m :: hs ->
    step policy c (LRel i)
      (mkConfig (upd i (mkThread rest hs (log t)) (threads c))
                (waiting c) (st c)
                (match m with W => st c :: commits c | R => commits c end))
| S_Read : forall c i t rest,
    nth_error (threads c) i = Some t ->
    prog t = Read :: rest ->
    In R (held t) ->
    step policy c (LRead i)
      (mkConfig (upd i (mkThread rest (held t) (st c :: log t)) (threads c))
                (waiting c) (st c) (commits c))
| S_Write : forall c i t f rest,
    nth_error (threads c) i = Some t ->
    prog t = Write f :: rest ->
    In W (held t) ->
    step policy c (LWrite i)
      (mkConfig (upd i (mkThread rest (held t) (log t)) (threads c))
                (waiting c) (f (st c)) (commits c)).

(* a schedule is a list of labels *)
Inductive run (policy : policy_t) : config -> list label -> config -> Prop :=
| run_nil  : forall c, run policy c [] c
| run_cons : forall c l c' ls c'',
    step policy c l c' -> run policy c' ls c'' -> run policy c (l :: ls) c''.

Definition reachable (policy : policy_t) (c0 c : config) : Prop :=
  exists ls, run policy c0 ls c.

Definition init (progs : list (list act)) (s0 : nat) : config :=
  mkConfig (map (fun p => mkThread p [] []) progs) [] s0 [s0].

Definition finished (t : thread) : Prop := prog t = [] /\ held t = [].
Definition final (c : config) : Prop := forall t, In t (threads c) -> finished t.
Definition enabled (policy : policy_t) (c : config) : Prop :=
  exists l c', step policy c l c'.
Definition stuck (policy : policy_t) (c : config) : Prop :=
  ~ final c /\ ~ enabled policy c.

(* Every execution from c is finite and ends in a final configuration. *)
Inductive inevitably_final (policy : policy_t) : config -> Prop :=
| IF_final : forall c, final c -> inevitably_final policy c
| IF_step  : forall c,
    enabled policy c ->
    (forall l c', step policy c l c' -> inevitably_final policy c') ->
    inevitably_final policy c.

(* ------------------------------------------------------------------ *)
(* Policies                                                           *)

(* The only thing asked of a policy: when no guard at all is held and some
   request is pending, it lets at least one pending request through.
   (It need not be compatible-only: compatibility is checked by S_Grant.) *)
Definition admissible (policy : policy_t) : Prop :=
  forall c, lock_free c -> waiting c <> [] ->
    exists i m, In (i, m) (waiting c) /\ policy c i = true.

(* Not needed by any theorem; recorded because std-like locks have it:
   with only read guards held and no writer queued, every queued reader
   is let in. *)
Definition readers_share (policy : policy_t) : Prop :=
  forall c, compat (threads c) R ->
    (forall i, ~ In (i, W) (waiting c)) ->
    forall i, In (i, R) (waiting c) -> policy c i = true.

Definition wants_write (w : list (nat * mode)) (i : nat) : bool :=
  existsb (fun e => (fst e =? i) && isW (snd e)) w.
Definition writer_waiting (w : list (nat * mode)) : bool :=
  existsb (fun e => isW (snd e)) w.

(* writer preference: a read request is refused while any write request
   is pending (the futex RwLock of std behaves like this) *)
Definition writer_pref : policy_t :=
  fun c i => wants_write (waiting c) i || negb (writer_waiting (waiting c)).

(* reader preference: anything compatible goes *)
Definition reader_pref : policy_t := fun _ _ => true.

(* strict FIFO: only the oldest pending request may be granted *)
Definition fifo : policy_t :=
  fun c i => match waiting c with [] => false | e :: _ => fst e =? i end.

(* ------------------------------------------------------------------ *)
(* Program shapes                                                     *)

(* wb_from d p: started with d guards held, p never releases a guard it
   does not hold and ends holding nothing *)
Fixpoint wb_from (d : nat) (p : list act) : Prop :=
  match p with
  | [] => d = 0
  | AcqR :: p' => wb_from (S d) p'
  | AcqW :: p' => wb_from (S d) p'
  | Rel :: p' => match d with 0 => False | S d' => wb_from d' p' end
  | Read :: p' => wb_from d p'
  | Write _ :: p' => wb_from d p'
  end.
Definition well_bracketed (p : list act) : Prop := wb_from 0 p.

(* depth_from d p: started with d guards held, the number of guards held
   never exceeds 1 while running p *)
Fixpoint depth_from (d : nat) (p : list act) : Prop :=
  d <= 1 /\
  match p with
  | [] => True
  | AcqR :: p' => depth_from (S d) p'
  | AcqW :: p' => depth_from (S d) p'
  | Rel :: p' => depth_from (pred d) p'
  | Read :: p' => depth_from d p'
  | Write _ :: p' => depth_from d p'
  end.
Definition depth_le1 (p : list act) : Prop := depth_from 0 p.

(* guarded_from hs p: started with guard stack hs, every Read happens
   under a read guard and every Write under a write guard (what the Rust
   type system enforces: the data is reachable only through a guard) *)
Fixpoint guarded_from (hs : list mode) (p : list act) : Prop :=
  match p with
  | [] => True
  | AcqR :: p' => guarded_from (R :: hs) p'
  | AcqW :: p' => guarded_from (W :: hs) p'
  | Rel :: p' => guarded_from (tl hs) p'
  | Read :: p' => In R hs /\ guarded_from hs p'
  | Write _ :: p' => In W hs /\ guarded_from hs p'
  end.
Definition guarded (p : list act) : Prop := guarded_from [] p.

(* ------------------------------------------------------------------ *)
(* Termination measure                                                *)

Definition tmeasure (w : list (nat * mode)) (k : nat) (t : thread) : nat :=
  2 * length (prog t) + (if is_waiting w k then 0 else 1).

Fixpoint msum (w : list (nat * mode)) (k : nat) (ts : list thread) : nat :=
  match ts with
  | [] => 0
  | t :: ts' => tmeasure w k t + msum w (S k) ts'
  end.

Definition measure (c : config) : nat := msum (waiting c) 0 (threads c).

(* ------------------------------------------------------------------ *)
(* Executable step (for replaying concrete schedules)                 *)

Definition exec (policy : policy_t) (c : config) (l : label) : option config :=
  match l with
  | LReq i =>
      match nth_error (threads c) i with
      | Some t =>
          match prog t with
          | a :: _ =>
              match act_mode a with
              | Some m =>
                  if is_waiting (waiting c) i then None
                  else Some (mkConfig (threads c) (waiting c ++ [(i, m)])
                                      (st c) (commits c))
              | None => None
              end
          | [] => None
          end
      | None => None
      end
  | LGrant i =>
      match nth_error (threads c) i with
      | Some t =>
          match prog t with
          | a :: rest =>
              match act_mode a with
              | Some m =>
                  if in_waiting (waiting c) i m && compatb (threads c) m
                     && policy c i
                  then Some (mkConfig
                               (upd i (mkThread rest (m :: held t) (log t))
                                    (threads c))
                               (unwait i (waiting c)) (st c) (commits c))
                  else None
              | None => None
              end
          | [] => None
          end
      | None => None
      end
  | LRel i =>
      match nth_error (threads c) i with
      | Some t =>
          match prog t, held t with
          | Rel :: rest, m :: hs =>
              Some (mkConfig (upd i (mkThread rest hs (log t)) (threads c))
                             (waiting c) (st c)
                             (match m with
                              | W => st c :: commits c
                              | R => commits c
                              end))
          | _, _ => None
          end
      | None => None
      end
  | LRead i =>
      match nth_error (threads c) i with
      | Some t =>
          match prog t with
          | Read :: rest =>
              if existsb isR (held t)
              then Some (mkConfig
                           (upd i (mkThread rest (held t) (st c :: log t))
                                (threads c))
                           (waiting c) (st c) (commits c))
              else None
          | _ => None
          end
      | None => None
      end
  | LWrite i =>
      match nth_error (threads c) i with
      | Some t =>
          match prog t with
          | Write f :: rest =>
              if existsb isW (held t)
              then Some (mkConfig
                           (upd i (mkThread rest (held t) (log t)) (threads c))
                           (waiting c) (f (st c)) (commits c))
              else None
          | _ => None
          end
      | None => None
      end
  end.

Fixpoint exec_all (policy : policy_t) (c : config) (ls : list label)
  : option config :=
  match ls with
  | [] => Some c
  | l :: ls' =>
      match exec policy c l with
      | Some c' => exec_all policy c' ls'
      | None => None
      end
  end.

(* ------------------------------------------------------------------ *)
(* Concrete systems                                                   *)

(* The pre-repair shape: a reader that re-requests the read lock while
   holding a read guard, and a writer. *)
Definition nested_reader : list act := [AcqR; AcqR; Rel; Rel].
Definition plain_writer  : list act := [AcqW; Rel].
Definition dl_progs : list (list act) := [nested_reader; plain_writer].
Definition dl_sched : list label := [LReq 0; LGrant 0; LReq 1; LReq 0].
Definition dl_config : config :=
  mkConfig [mkThread [AcqR; Rel; Rel] [R] []; mkThread [AcqW; Rel] [] []]
           [(1, W); (0, R)] 0 [0].

(* The post-repair shape: two readers with two read sections each, and a
   writer-ish thread with read, write, read sections. *)
Definition ex_reader : list act := [AcqR; Read; Rel; AcqR; Read; Rel].
Definition ex_writer : list act :=
  [AcqR; Read; Rel; AcqW; Write S; Write S; Rel; AcqR; Read; Rel].
Definition ex_progs : list (list act) := [ex_reader; ex_reader; ex_writer].
Definition ex_sched : list label :=
  [LReq 0; LGrant 0; LRead 0;
   LReq 2; LGrant 2; LRead 2; LRel 2; LRel 0;
   LReq 2; LGrant 2; LWrite 2; LReq 1; LWrite 2; LRel 2;
   LGrant 1; LRead 1; LRel 1;
   LReq 0; LGrant 0; LRead 0; LRel 0;
   LReq 1; LGrant 1; LRead 1; LRel 1;
   LReq 2; LGrant 2; LRead 2; LRel 2].
