(* Names.v — names, CFB name order, name validation, path normalisation.
   Mirrors src/internal/path.rs (after the "order by UTF-16 code units" fix).
   Names and paths are lists of Unicode scalar values. *)
From Cfb.model Require Import Base.
From Cfb.gen Require Import Consts UpTable.
Open Scope N_scope.

Definition name := list N.

Fixpoint up_lookup (t : uptree) (c : N) : option N :=
  match t with
  | UL => None
  | UN l k v r => if c =? k then Some v else if c <? k then up_lookup l c else up_lookup r c
  end.

(* cfb_uppercase_char: the generated table holds every scalar value that the
   real function does not map to itself *)
Definition upper (c : N) : N :=
  match up_lookup up_tree c with Some v => v | None => c end.

Definition utf16_char (c : N) : list N :=
  if c <? 65536 then [c]
  else let d := c - 65536 in [55296 + d / 1024; 56320 + d mod 1024].
Definition utf16 (n : name) : list N := flat_map utf16_char n.

Definition is_ascii (n : name) : bool := forallb (fun c => c <? 128) n.
Definition ascii_upper (c : N) : N := if (97 <=? c) && (c <=? 122) then c - 32 else c.

Fixpoint lex_cmp (a b : list N) : comparison :=
  match a, b with
  | [], [] => Eq
  | [], _ :: _ => Lt
  | _ :: _, [] => Gt
  | x :: a', y :: b' => match x ?= y with Eq => lex_cmp a' b' | c => c end
  end.

(* path.rs compare_names: both branches *)
Definition cmp_names (a b : name) : comparison :=
  if is_ascii a && is_ascii b then
    match lenN a ?= lenN b with
    | Eq => lex_cmp (map ascii_upper a) (map ascii_upper b)
    | c => c
    end
  else
    match lenN (utf16 a) ?= lenN (utf16 b) with
    | Eq => lex_cmp (utf16 (map upper a)) (utf16 (map upper b))
    | c => c
    end.

(* path.rs validate_name *)
Definition validate_name (n : name) : res (list N) :=
  let u := utf16 n in
  if MAX_NAME_LEN <? lenN u then Err EInvalidInput
  else if existsb (fun f => memN f n) FORBIDDEN_CHARS then Err EInvalidInput
  else Ok u.

(* ---- std::path::Path::components on Unix, then name_chain_from_path ---- *)
Inductive comp := CRoot | CCur | CParent | CNormal (n : name).

Definition SLASH : N := 47.
Definition DOT : N := 46.

(* split on '/', keeping empty pieces *)
Fixpoint split_slash (p : list N) (cur : list N) : list (list N) :=
  match p with
  | [] => [rev cur]
  | c :: t => if c =? SLASH then rev cur :: split_slash t [] else split_slash t (c :: cur)
  end.

Definition is_dot (s : list N) := list_eqb N.eqb s [DOT].
Definition is_dotdot (s : list N) := list_eqb N.eqb s [DOT; DOT].

(* Unix components: a leading '/' gives RootDir; empty pieces vanish; "." vanishes
   except as the very first component of a relative path (CurDir); ".." is ParentDir *)
Definition components (p : list N) : list comp :=
  match p with
  | [] => []
  | c0 :: _ =>
    let pieces := split_slash p [] in
    let has_root := c0 =? SLASH in
    let body :=
      flat_map (fun s => match s with
                         | [] => []
                         | _ => if is_dot s then [] else if is_dotdot s then [CParent] else [CNormal s]
                         end) pieces in
    if has_root then CRoot :: body
    else match pieces with
         | s :: _ => if is_dot s then CCur :: body else body
         | [] => body
         end
  end.

Fixpoint name_chain_go (cs : list comp) (names : list name) : res (list name) :=
  match cs with
  | [] => Ok names
  | CRoot :: t => name_chain_go t []
  | CCur :: t => name_chain_go t names
  | CParent :: t =>
      match names with
      | [] => Err EInvalidInput
      | _ => name_chain_go t (pop_last names)
      end
  | CNormal n :: t => name_chain_go t (names ++ [n])
  end.

Definition name_chain_from_path (p : list N) : res (list name) :=
  name_chain_go (components p) [].

(* path_from_name_chain: "/" joined *)
Definition path_join (parent : list N) (n : name) : list N :=
  match lastN parent with
  | Some c => if c =? SLASH then parent ++ n else parent ++ [SLASH] ++ n
  | None => n
  end.
Definition path_from_name_chain (names : list name) : list N :=
  fold_left path_join names [SLASH].
