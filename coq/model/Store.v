(* Store.v — stream storage: read, write-back and resize of a stream's bytes,
   with the mini <-> regular migrations at the 4096-byte cutoff.
   Mirrors src/internal/stream.rs:276-500 (after the "set_len growth reads as
   zeros" fix). *)
From Cfb.model Require Import Base Names DirEnt State Alloc Dir Mini.
From Cfb.gen Require Import Consts.
Open Scope N_scope.

Definition stream_entry (id : N) : M (N * N) :=
  do e <- dir_entry id;
  if negb (objtype_eqb (d_type e) TStream) then fail ENotFound    (* the stream was removed behind the handle *)
  else ret (d_start e, d_len e).

(* read_data_from_stream: returns the bytes read (buf[..num_bytes]) *)
Definition read_data (id off buflen : N) : M (list byte) :=
  do '(start, len) <- stream_entry id;
  let n := if len <=? off then 0 else N.min (len - off) buflen in
  if n =? 0 then ret [] else
  if len <? MINI_STREAM_CUTOFF then
    do c <- mchain_new start;
    do c <- mchain_seek c off;
    do '(_, bs) <- mchain_read_exact c n;
    ret bs
  else
    do c <- chain_new start IZero;
    do c <- chain_seek c off;
    do '(_, bs) <- chain_read_exact c n;
    ret bs.

Definition update_entry (id start len : N) : M unit :=
  with_dir_entry_mut id (fun e => set_start_len e start len).

(* write_data_to_stream *)
Definition write_data (id off : N) (buf : list byte) : M unit :=
  do '(old_start, old_len) <- stream_entry id;
  (if old_len <? off then fail EInvalidInput else ret tt) ;;   (* the stream was shortened behind the handle *)
  let new_len := N.max old_len (off + lenN buf) in
  do s0 <- get;
  (* the same two bounds as in resize, before anything is changed *)
  (if N.min (MAX_REGULAR_SECTOR * slen s0) (stream_len_mask (ver s0)) <? new_len then fail EInvalidInput else ret tt) ;;
  do new_start <-
    (if old_start =? END_OF_CHAIN then
       (if negb (old_len =? 0) then fail EInvalidData else if negb (off =? 0) then panic 604 else ret tt) ;;
       if new_len <? MINI_STREAM_CUTOFF then
         do c <- mchain_new END_OF_CHAIN;
         do c <- mchain_write_all c buf;
         ret (mchain_start c)
       else
         do c <- chain_new END_OF_CHAIN IZero;
         do c <- chain_write_all c buf;
         ret (chain_start c)
     else if old_len <? MINI_STREAM_CUTOFF then
       if new_len <? MINI_STREAM_CUTOFF then
         do c <- mchain_new old_start;
         do c <- mchain_seek c off;
         do c <- mchain_write_all c buf;
         (if negb (mchain_start c =? old_start) then panic 605 else ret tt) ;;
         ret old_start
       else
         (if MINI_STREAM_CUTOFF <=? off then panic 606 else ret tt) ;;
         do c <- mchain_new old_start;
         do '(c, tmp) <- mchain_read_exact c off;
         free_mini_chain (mchain_start c) ;;
         do c <- chain_new END_OF_CHAIN IZero;
         do c <- chain_write_all c tmp;
         do c <- chain_write_all c buf;
         ret (chain_start c)
     else
       (if new_len <? MINI_STREAM_CUTOFF then panic 607 else ret tt) ;;
       do c <- chain_new old_start IZero;
       do c <- chain_seek c off;
       do c <- chain_write_all c buf;
       (if negb (chain_start c =? old_start) then panic 608 else ret tt) ;;
       ret old_start);
  update_entry id new_start new_len.

(* zero_fill on a regular / mini chain *)
Definition zero_fill_chain (c : chain) (from to : N) : M chain :=
  if from <? to then
    do c <- chain_seek c from;
    chain_write_all c (repeatN 0 (to - from))
  else ret c.
Definition zero_fill_mchain (c : mchain) (from to : N) : M mchain :=
  if from <? to then
    do c <- mchain_seek c from;
    mchain_write_all c (repeatN 0 (to - from))
  else ret c.

(* resize_stream *)
Definition resize (id new_len : N) : M unit :=
  do '(old_start, old_len) <- stream_entry id;
  do s0 <- get;
  (* no file holds more than MAX_REGULAR_SECTOR sectors; refused before anything changes *)
  (if MAX_REGULAR_SECTOR * slen s0 <? new_len then fail EInvalidInput else ret tt) ;;
  (* ... and a version 3 entry records only 32 bits of the length *)
  (if stream_len_mask (ver s0) <? new_len then fail EInvalidInput else ret tt) ;;
  do new_start <-
    (if old_start =? END_OF_CHAIN then
       (if negb (old_len =? 0) then fail EInvalidData else ret tt) ;;
       if new_len <? MINI_STREAM_CUTOFF then
         do c <- mchain_new END_OF_CHAIN;
         do c <- mchain_set_len c new_len;
         do c <- zero_fill_mchain c 0 new_len;
         ret (mchain_start c)
       else
         do c <- chain_new END_OF_CHAIN IZero;
         do c <- chain_set_len c new_len;
         ret (chain_start c)
     else if old_len <? MINI_STREAM_CUTOFF then
       if new_len =? 0 then
         free_mini_chain old_start ;; ret END_OF_CHAIN
       else if new_len <? MINI_STREAM_CUTOFF then
         do c <- mchain_new old_start;
         do c <- mchain_set_len c new_len;
         do c <- zero_fill_mchain c old_len new_len;
         (if negb (mchain_start c =? old_start) then panic 610 else ret tt) ;;
         ret old_start
       else
         do c <- mchain_new old_start;
         do '(c, tmp) <- mchain_read_exact c old_len;
         free_mini_chain (mchain_start c) ;;
         do c <- chain_new END_OF_CHAIN IZero;
         do c <- chain_write_all c tmp;
         do c <- chain_set_len c new_len;
         ret (chain_start c)
     else
       if new_len =? 0 then
         free_chain old_start ;; ret END_OF_CHAIN
       else if new_len <? MINI_STREAM_CUTOFF then
         (if old_len <=? new_len then panic 611 else ret tt) ;;
         do c <- chain_new old_start IZero;
         do '(c, tmp) <- chain_read_exact c new_len;
         free_chain (chain_start c) ;;
         do c <- mchain_new END_OF_CHAIN;
         do c <- mchain_write_all c tmp;
         ret (mchain_start c)
       else
         do c <- chain_new old_start IZero;
         do s <- get;
         let old_chain_len := chain_len (slen s) c in
         do c <- chain_set_len c new_len;
         do c <- zero_fill_chain c old_len (N.min new_len old_chain_len);
         (if negb (chain_start c =? old_start) then panic 612 else ret tt) ;;
         ret old_start);
  update_entry id new_start new_len.
