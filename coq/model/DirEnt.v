(* DirEnt.v — directory entries and the file header: records, encoders, decoders
   with every strict/permissive branch.  Mirrors src/internal/direntry.rs,
   header.rs, version.rs, color.rs, objtype.rs. *)
From Cfb.model Require Import Base Names.
From Cfb.gen Require Import Consts.
Open Scope N_scope.

Inductive version := V3 | V4.
Definition version_eqb (a b : version) := match a, b with V3, V3 | V4, V4 => true | _, _ => false end.
Definition ver_number (v : version) := match v with V3 => V3_NUMBER | V4 => V4_NUMBER end.
Definition sector_shift (v : version) := match v with V3 => V3_SECTOR_SHIFT | V4 => V4_SECTOR_SHIFT end.
Definition sector_len (v : version) : N := 2 ^ sector_shift v.
Definition stream_len_mask (v : version) := match v with V3 => V3_STREAM_LEN_MASK | V4 => V4_STREAM_LEN_MASK end.
Definition dir_per_sector (v : version) : N := sector_len v / DIR_ENTRY_LEN.
Definition version_of_number (n : N) : option version :=
  if n =? V3_NUMBER then Some V3 else if n =? V4_NUMBER then Some V4 else None.

Inductive objtype := TUnalloc | TStorage | TStream | TRoot.
Definition objtype_eqb (a b : objtype) :=
  match a, b with
  | TUnalloc, TUnalloc | TStorage, TStorage | TStream, TStream | TRoot, TRoot => true
  | _, _ => false
  end.
Definition objtype_byte (t : objtype) : N :=
  match t with TUnalloc => OBJ_TYPE_UNALLOCATED | TStorage => OBJ_TYPE_STORAGE
             | TStream => OBJ_TYPE_STREAM | TRoot => OBJ_TYPE_ROOT end.
Definition objtype_of_byte (b : N) : option objtype :=
  if b =? OBJ_TYPE_UNALLOCATED then Some TUnalloc
  else if b =? OBJ_TYPE_STORAGE then Some TStorage
  else if b =? OBJ_TYPE_STREAM then Some TStream
  else if b =? OBJ_TYPE_ROOT then Some TRoot else None.

Inductive color := Red | Black.
Definition color_eqb (a b : color) := match a, b with Red, Red | Black, Black => true | _, _ => false end.
Definition color_byte (c : color) : N := match c with Red => COLOR_RED | Black => COLOR_BLACK end.
Definition color_of_byte (b : N) : option color :=
  if b =? COLOR_RED then Some Red else if b =? COLOR_BLACK then Some Black else None.

Record dirent := mkDirent {
  d_name : name;
  d_type : objtype;
  d_color : color;
  d_left : N;
  d_right : N;
  d_child : N;
  d_clsid : N;       (* Uuid::as_u128 *)
  d_state : N;
  d_ctime : N;
  d_mtime : N;
  d_start : N;
  d_len : N
}.

Definition dirent_new (n : name) (t : objtype) (ts : N) : dirent :=
  mkDirent n t Black NO_STREAM NO_STREAM NO_STREAM 0 0 ts ts
           (if objtype_eqb t TStorage then 0 else END_OF_CHAIN) 0.
Definition dirent_unallocated : dirent :=
  mkDirent [] TUnalloc Red NO_STREAM NO_STREAM NO_STREAM 0 0 0 0 0 0.
Definition dirent_empty_root : dirent := dirent_new ROOT_DIR_NAME TRoot 0.

Definition set_left (e : dirent) v := mkDirent (d_name e) (d_type e) (d_color e) v (d_right e) (d_child e) (d_clsid e) (d_state e) (d_ctime e) (d_mtime e) (d_start e) (d_len e).
Definition set_right (e : dirent) v := mkDirent (d_name e) (d_type e) (d_color e) (d_left e) v (d_child e) (d_clsid e) (d_state e) (d_ctime e) (d_mtime e) (d_start e) (d_len e).
Definition set_child (e : dirent) v := mkDirent (d_name e) (d_type e) (d_color e) (d_left e) (d_right e) v (d_clsid e) (d_state e) (d_ctime e) (d_mtime e) (d_start e) (d_len e).
Definition set_color (e : dirent) v := mkDirent (d_name e) (d_type e) v (d_left e) (d_right e) (d_child e) (d_clsid e) (d_state e) (d_ctime e) (d_mtime e) (d_start e) (d_len e).
Definition set_clsid (e : dirent) v := mkDirent (d_name e) (d_type e) (d_color e) (d_left e) (d_right e) (d_child e) v (d_state e) (d_ctime e) (d_mtime e) (d_start e) (d_len e).
Definition set_state (e : dirent) v := mkDirent (d_name e) (d_type e) (d_color e) (d_left e) (d_right e) (d_child e) (d_clsid e) v (d_ctime e) (d_mtime e) (d_start e) (d_len e).
Definition set_ctime (e : dirent) v := mkDirent (d_name e) (d_type e) (d_color e) (d_left e) (d_right e) (d_child e) (d_clsid e) (d_state e) v (d_mtime e) (d_start e) (d_len e).
Definition set_mtime (e : dirent) v := mkDirent (d_name e) (d_type e) (d_color e) (d_left e) (d_right e) (d_child e) (d_clsid e) (d_state e) (d_ctime e) v (d_start e) (d_len e).
Definition set_start_len (e : dirent) st ln := mkDirent (d_name e) (d_type e) (d_color e) (d_left e) (d_right e) (d_child e) (d_clsid e) (d_state e) (d_ctime e) (d_mtime e) st ln.

(* ---- CLSID: Uuid::as_fields / from_fields with little-endian d1 d2 d3 ---- *)
Definition be_bytes8 (v : N) : list byte := rev (le_bytes 8 v).
Definition clsid_encode (g : N) : list byte :=
  let d1 := g / 2 ^ 96 in
  let d2 := (g / 2 ^ 80) mod 2 ^ 16 in
  let d3 := (g / 2 ^ 64) mod 2 ^ 16 in
  let d4 := g mod 2 ^ 64 in
  le_bytes 4 d1 ++ le_bytes 2 d2 ++ le_bytes 2 d3 ++ be_bytes8 d4.
Definition clsid_decode (bs : list byte) : N :=
  let d1 := le_val (takeN 4 bs) in
  let d2 := le_val (takeN 2 (dropN 4 bs)) in
  let d3 := le_val (takeN 2 (dropN 6 bs)) in
  let d4 := le_val (rev (takeN 8 (dropN 8 bs))) in
  d1 * 2 ^ 96 + d2 * 2 ^ 80 + d3 * 2 ^ 64 + d4.

(* ---- write_to (128 bytes when the name is valid) ---- *)
Definition dirent_encode (e : dirent) : list byte :=
  let u := utf16 (d_name e) in
  flat_map (le_bytes 2) u ++ repeatN 0 (2 * (32 - lenN u)) ++
  le_bytes 2 ((lenN u + 1) * 2) ++
  [objtype_byte (d_type e)] ++ [color_byte (d_color e)] ++
  le_bytes 4 (d_left e) ++ le_bytes 4 (d_right e) ++ le_bytes 4 (d_child e) ++
  clsid_encode (d_clsid e) ++ le_bytes 4 (d_state e) ++
  le_bytes 8 (d_ctime e) ++ le_bytes 8 (d_mtime e) ++
  le_bytes 4 (d_start e) ++ le_bytes 8 (d_len e).

(* String::from_utf16: None on an unpaired surrogate *)
Fixpoint from_utf16 (u : list N) : option name :=
  match u with
  | [] => Some []
  | a :: t =>
    if (55296 <=? a) && (a <=? 56319) then
      match t with
      | b :: t' =>
        if (56320 <=? b) && (b <=? 57343) then
          match from_utf16 t' with
          | Some r => Some ((65536 + (a - 55296) * 1024 + (b - 56320)) :: r)
          | None => None
          end
        else None
      | [] => None
      end
    else if (56320 <=? a) && (a <=? 57343) then None
    else match from_utf16 t with Some r => Some (a :: r) | None => None end
  end.

Fixpoint u16s (bs : list byte) : list N :=
  match bs with
  | a :: b :: t => (a + 256 * b) :: u16s t
  | _ => []
  end.

(* read_from on fewer than 128 bytes (the slot lies in a truncated last sector): the fields are
   read one after the other and each is checked as soon as it has been read, so the result is
   the first event in reading order - a failed check of a field that is completely there, or
   UnexpectedEof at the first field that is not.  Never Ok. *)
Definition dirent_decode_short (strict : bool) (bs0 : list byte) : res dirent :=
  let L := lenN bs0 in
  let bs := bs0 ++ repeatN 0 (DIR_ENTRY_LEN - L) in
  if L <? 66 then Err EUnexpectedEof else
  let name_chars := u16s (takeN 64 bs) in
  let name_len_bytes := le_val (takeN 2 (dropN 64 bs)) in
  if 64 <? name_len_bytes then Err EInvalidData else
  if negb (name_len_bytes mod 2 =? 0) then Err EInvalidData else
  let name_len_chars := if 0 <? name_len_bytes then name_len_bytes / 2 - 1 else 0 in
  match nthN name_chars name_len_chars with
  | None => Panic 101
  | Some term =>
  if strict && negb (term =? 0) then Err EInvalidData else
  match from_utf16 (takeN name_len_chars name_chars) with
  | None => Err EInvalidData
  | Some nm0 =>
  if L <? 67 then Err EUnexpectedEof else
  match nthN bs 66 with None => Err EUnexpectedEof | Some tb =>
  match objtype_of_byte tb with
  | None => Err EInvalidData
  | Some ty =>
  match (if objtype_eqb ty TRoot then
           if list_eqb N.eqb nm0 ROOT_DIR_NAME then Ok nm0
           else if strict then Err EInvalidData else Ok nm0
         else validate_name nm0) with
  | Err k => Err k | Panic n => Panic n | OutOfFuel => OutOfFuel
  | Ok _ =>
  if L <? 68 then Err EUnexpectedEof else
  match nthN bs 67 with None => Err EUnexpectedEof | Some cb =>
  match color_of_byte cb with
  | None => Err EInvalidData
  | Some _ =>
  if L <? 72 then Err EUnexpectedEof else
  let left := le_val (takeN 4 (dropN 68 bs)) in
  if negb (left =? NO_STREAM) && (MAX_REGULAR_STREAM_ID <? left) then Err EInvalidData else
  if L <? 76 then Err EUnexpectedEof else
  let right := le_val (takeN 4 (dropN 72 bs)) in
  if negb (right =? NO_STREAM) && (MAX_REGULAR_STREAM_ID <? right) then Err EInvalidData else
  if L <? 80 then Err EUnexpectedEof else
  let child := le_val (takeN 4 (dropN 76 bs)) in
  if negb (child =? NO_STREAM) && (objtype_eqb ty TStream || (MAX_REGULAR_STREAM_ID <? child))
  then Err EInvalidData else
  if L <? 96 then Err EUnexpectedEof else
  let clsid0 := clsid_decode (takeN 16 (dropN 80 bs)) in
  if objtype_eqb ty TStream && negb (clsid0 =? 0) && strict then Err EInvalidData else
  if L <? 108 then Err EUnexpectedEof else
  let ct0 := le_val (takeN 8 (dropN 100 bs)) in
  if objtype_eqb ty TStream && negb (ct0 =? 0) && strict then Err EInvalidData else
  if L <? 116 then Err EUnexpectedEof else
  let mt0 := le_val (takeN 8 (dropN 108 bs)) in
  if objtype_eqb ty TStream && negb (mt0 =? 0) && strict then Err EInvalidData else
  Err EUnexpectedEof            (* start sector and length are read before either is checked *)
  end end end end end end end.

(* read_from: [bs] are the 128 bytes of the slot *)
Definition dirent_decode (v : version) (strict : bool) (bs : list byte) : res dirent :=
  if lenN bs <? DIR_ENTRY_LEN then dirent_decode_short strict bs else
  let name_chars := u16s (takeN 64 bs) in
  let name_len_bytes := le_val (takeN 2 (dropN 64 bs)) in
  if 64 <? name_len_bytes then Err EInvalidData else
  if negb (name_len_bytes mod 2 =? 0) then Err EInvalidData else
  let name_len_chars := if 0 <? name_len_bytes then name_len_bytes / 2 - 1 else 0 in
  match nthN name_chars name_len_chars with
  | None => Panic 101
  | Some term =>
  if strict && negb (term =? 0) then Err EInvalidData else
  match from_utf16 (takeN name_len_chars name_chars) with
  | None => Err EInvalidData
  | Some nm0 =>
  match nthN bs 66 with None => Err EUnexpectedEof | Some tb =>
  match objtype_of_byte tb with
  | None => Err EInvalidData
  | Some ty =>
  rbind (if objtype_eqb ty TRoot then
           if list_eqb N.eqb nm0 ROOT_DIR_NAME then Ok nm0
           else if strict then Err EInvalidData else Ok ROOT_DIR_NAME
         else rbind (validate_name nm0) (fun _ => Ok nm0)) (fun nm =>
  match nthN bs 67 with None => Err EUnexpectedEof | Some cb =>
  match color_of_byte cb with
  | None => Err EInvalidData
  | Some col =>
  let left := le_val (takeN 4 (dropN 68 bs)) in
  if negb (left =? NO_STREAM) && (MAX_REGULAR_STREAM_ID <? left) then Err EInvalidData else
  let right := le_val (takeN 4 (dropN 72 bs)) in
  if negb (right =? NO_STREAM) && (MAX_REGULAR_STREAM_ID <? right) then Err EInvalidData else
  let child := le_val (takeN 4 (dropN 76 bs)) in
  if negb (child =? NO_STREAM) && (objtype_eqb ty TStream || (MAX_REGULAR_STREAM_ID <? child))
  then Err EInvalidData else
  let clsid0 := clsid_decode (takeN 16 (dropN 80 bs)) in
  if objtype_eqb ty TStream && negb (clsid0 =? 0) && strict then Err EInvalidData else
  let clsid := if objtype_eqb ty TStream then 0 else clsid0 in
  let state := le_val (takeN 4 (dropN 96 bs)) in
  let ct0 := le_val (takeN 8 (dropN 100 bs)) in
  if objtype_eqb ty TStream && negb (ct0 =? 0) && strict then Err EInvalidData else
  let ct := if objtype_eqb ty TStream then 0 else ct0 in
  let mt0 := le_val (takeN 8 (dropN 108 bs)) in
  if objtype_eqb ty TStream && negb (mt0 =? 0) && strict then Err EInvalidData else
  let mt := if objtype_eqb ty TStream then 0 else mt0 in
  let start0 := le_val (takeN 4 (dropN 116 bs)) in
  let len0 := N.land (le_val (takeN 8 (dropN 120 bs))) (stream_len_mask v) in
  if objtype_eqb ty TStorage && strict && negb (start0 =? 0) then Err EInvalidData else
  if objtype_eqb ty TStorage && strict && negb (len0 =? 0) then Err EInvalidData else
  let start := if objtype_eqb ty TStorage then 0 else start0 in
  let len := if objtype_eqb ty TStorage then 0 else len0 in
  Ok (mkDirent nm ty col left right child clsid state ct mt start len)
  end end)
  end end end end.

(* ---- header ---- *)
Record header := mkHeader {
  h_ver : version;
  h_num_dir : N; h_num_fat : N; h_first_dir : N;
  h_first_minifat : N; h_num_minifat : N;
  h_first_difat : N; h_num_difat : N;
  h_difat : list N        (* 109 entries *)
}.

Definition header_encode (h : header) : list byte :=
  MAGIC_NUMBER ++ repeatN 0 16 ++ le_bytes 2 MINOR_VERSION ++ le_bytes 2 (ver_number (h_ver h)) ++
  le_bytes 2 BYTE_ORDER_MARK ++ le_bytes 2 (sector_shift (h_ver h)) ++ le_bytes 2 MINI_SECTOR_SHIFT ++
  repeatN 0 6 ++ le_bytes 4 (h_num_dir h) ++ le_bytes 4 (h_num_fat h) ++ le_bytes 4 (h_first_dir h) ++
  le_bytes 4 0 ++ le_bytes 4 MINI_STREAM_CUTOFF ++ le_bytes 4 (h_first_minifat h) ++
  le_bytes 4 (h_num_minifat h) ++ le_bytes 4 (h_first_difat h) ++ le_bytes 4 (h_num_difat h) ++
  flat_map (le_bytes 4) (h_difat h).

(* the loop that fills initial_difat_entries: stops at the first FREE_SECTOR,
   leaving the rest of the array FREE_SECTOR *)
Fixpoint hdr_difat_go (cells : list N) : res (list N) :=
  match cells with
  | [] => Ok []
  | c :: t =>
    if c =? FREE_SECTOR then Ok (repeatN FREE_SECTOR (lenN cells))
    else if MAX_REGULAR_SECTOR <? c then Err EInvalidData
    else rbind (hdr_difat_go t) (fun r => Ok (c :: r))
  end.

Fixpoint u32s (bs : list byte) : list N :=
  match bs with
  | a :: b :: c :: d :: t => (a + 256 * (b + 256 * (c + 256 * d))) :: u32s t
  | _ => []
  end.

Definition header_decode (strict : bool) (bs : list byte) : res header :=
  if lenN bs <? HEADER_LEN then Err EUnexpectedEof else
  if negb (list_eqb N.eqb (takeN 8 bs) MAGIC_NUMBER) then Err EInvalidData else
  let version_number := le_val (takeN 2 (dropN 26 bs)) in
  let bom := le_val (takeN 2 (dropN 28 bs)) in
  if negb (bom =? BYTE_ORDER_MARK) then Err EInvalidData else
  match version_of_number version_number with
  | None => Err EInvalidData
  | Some v =>
  let sshift := le_val (takeN 2 (dropN 30 bs)) in
  if negb (sshift =? sector_shift v) then Err EInvalidData else
  let mshift := le_val (takeN 2 (dropN 32 bs)) in
  if negb (mshift =? MINI_SECTOR_SHIFT) then Err EInvalidData else
  let nd0 := le_val (takeN 4 (dropN 40 bs)) in
  if version_eqb v V3 && negb (nd0 =? 0) && strict then Err EInvalidData else
  let nd := if version_eqb v V3 then 0 else nd0 in
  let nf := le_val (takeN 4 (dropN 44 bs)) in
  let fd := le_val (takeN 4 (dropN 48 bs)) in
  let cutoff := le_val (takeN 4 (dropN 56 bs)) in
  if negb (cutoff =? MINI_STREAM_CUTOFF) then Err EInvalidData else
  let fm := le_val (takeN 4 (dropN 60 bs)) in
  let nm := le_val (takeN 4 (dropN 64 bs)) in
  let fdi0 := le_val (takeN 4 (dropN 68 bs)) in
  let ndi := le_val (takeN 4 (dropN 72 bs)) in
  let fdi := if fdi0 =? FREE_SECTOR then END_OF_CHAIN else fdi0 in
  rbind (hdr_difat_go (u32s (takeN (4 * NUM_DIFAT_HDR) (dropN 76 bs)))) (fun dif =>
  Ok (mkHeader v nd nf fd fm nm fdi ndi dif))
  end.
