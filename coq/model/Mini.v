(* Mini.v — MiniFAT allocation and mini chains.
   Mirrors src/internal/minialloc.rs (after the "checked walks" and "reuse
   retained sectors" fixes) and minichain.rs. *)
From Cfb.model Require Import Base Names DirEnt State Alloc Dir.
From Cfb.gen Require Import Consts.
Open Scope N_scope.

Definition root_entry : M dirent := dir_entry ROOT_STREAM_ID.

(* next_mini_sector *)
Definition next_mini_of (mf : list N) (ms : N) : res N := next_of mf ms.
Definition next_mini (ms : N) : M N := do s <- get; lift (next_mini_of (minifat s) ms).

(* MiniChain::new *)
Record mchain := mkMChain { mc_ids : list N; mc_off : N }.
Definition mchain_new (start : N) : M mchain :=
  do s <- get;
  do ids <- lift (chain_ids_of (minifat s) start);
  ret (mkMChain ids 0).
Definition mchain_start (c : mchain) : N := match mc_ids c with x :: _ => x | [] => END_OF_CHAIN end.
Definition mchain_len (c : mchain) : N := MINI_SECTOR_LEN * lenN (mc_ids c).

(* seek_within_mini_sector: (sector of the root chain, offset within it) *)
Definition mini_locate (ms off : N) : M (N * N) :=
  if MINI_SECTOR_LEN <=? off then panic 501 else       (* debug_assert!(offset < MINI_SECTOR_LEN) *)
  do r <- root_entry;
  do c <- chain_new (d_start r) IFat;
  do s <- get;
  let per := slen s / MINI_SECTOR_LEN in
  match nthN (c_ids c) (ms / per) with
  | None => fail EInvalidData
  | Some sid =>
    let o := (ms mod per) * MINI_SECTOR_LEN + off in
    seek_sector sid o ;; ret (sid, o)
  end.

(* set_minifat *)
Definition set_minifat (index value : N) : M unit :=
  do s <- get;
  if lenN (minifat s) <? index then panic 502 else
  do c <- chain_new (minifat_start s) IFat;
  let off := index * 4 in
  if chain_len (slen s) c <? off + 4 then fail EInvalidData else       (* the MiniFAT chain was cut short *)
  do c <- chain_seek c off;
  do _ <- chain_write_all c (le_bytes 4 value);
  modify (fun s => w_minifat s (if index =? lenN (minifat s) then minifat s ++ [value]
                                else updN (minifat s) index value)).

(* append_mini_sector *)
Definition append_mini_sector : M unit :=
  do r <- root_entry;
  let start := d_start r in
  let mlen := d_len r in
  (if negb (mlen mod MINI_SECTOR_LEN =? 0) then panic 504 else ret tt) ;;
  (* fix b10c443: the root entry must be able to record the new length
     (max_stream_len: a version 3 entry keeps 32 bits); refused before anything changes *)
  do s0 <- get;
  (if N.min (MAX_REGULAR_SECTOR * slen s0) (stream_len_mask (ver s0)) <? mlen + MINI_SECTOR_LEN
   then fail EInvalidInput else ret tt) ;;
  do new_start <-
    (if start =? END_OF_CHAIN then
       (if negb (mlen =? 0) then fail EInvalidData else ret tt) ;;
       begin_chain IZero
     else
       do c <- chain_new start IZero;
       do s <- get;
       (if chain_len (slen s) c <=? mlen then
          do _ <- extend_chain start IZero; ret tt
        else ret tt) ;;
       ret start);
  with_dir_entry_mut ROOT_STREAM_ID (fun e => set_start_len e new_start (d_len e + MINI_SECTOR_LEN)).

(* allocate_mini_sector *)
Fixpoint pop_free_mini (fuel : nat) : M (option N) :=
  match fuel with
  | O => out_of_fuel
  | S f =>
    do s <- get;
    match lastN (mfree s) with
    | None => ret None
    | Some idx =>
      put (w_mfree s (pop_last (mfree s))) ;;
      match nthN (minifat s) idx with
      | None => panic 506                              (* self.minifat[free_idx] *)
      | Some v => if v =? FREE_SECTOR then ret (Some idx) else pop_free_mini f
      end
    end
  end.

Definition allocate_mini_sector (value : N) : M N :=
  do s <- get;
  do got <- pop_free_mini (S (length (mfree s)));
  match got with
  | Some idx => set_minifat idx value ;; ret idx
  | None =>
    do s <- get;
    let per := slen s / 4 in
    (if minifat_start s =? END_OF_CHAIN then
       (if negb (lenN (minifat s) =? 0) then panic 507 else ret tt) ;;
       do sid <- begin_chain IFat;
       (* the chain is remembered only once the header records it *)
       header_write HDR_OFF_FIRST_MINIFAT (le_bytes 4 sid ++ le_bytes 4 1) ;;
       modify (fun s => w_minifat_start s sid)
     else
       let start := minifat_start s in
       do c <- chain_new start IFat;
       if lenN (c_ids c) * per <=? lenN (minifat s) then
         do _ <- extend_chain start IFat;
         do c2 <- chain_new start IFat;
         header_write HDR_OFF_NUM_MINIFAT (le_bytes 4 (lenN (c_ids c2)))
       else ret tt) ;;
    do s <- get;
    let new_ms := lenN (minifat s) in
    (* the mini stream grows first (unless it already reaches past the new mini sector: a
       foreign file can end in free mini sectors whose MiniFAT entries were trimmed at open),
       then the MiniFAT entry is added *)
    do r <- root_entry;
    (if d_len r <? (new_ms + 1) * MINI_SECTOR_LEN then append_mini_sector else ret tt) ;;
    set_minifat new_ms value ;;
    ret new_ms
  end.
Definition begin_mini_chain : M N := allocate_mini_sector END_OF_CHAIN.

(* extend_mini_chain *)
Definition extend_mini_chain (start : N) : M N :=
  if start =? END_OF_CHAIN then panic 508 else
  do s <- get;
  do last <- lift (find_last_go (S (S (length (minifat s)))) (minifat s) 0 start);
  do new_ms <- allocate_mini_sector END_OF_CHAIN;
  set_minifat last new_ms ;;
  ret new_ms.

(* free_mini_sector *)
Fixpoint strip_free (l : list N) (n : N) : list N * N :=
  (* pops trailing FREE_SECTOR entries; n counts them *)
  match l with
  | [] => ([], n)
  | x :: t =>
    let '(t', k) := strip_free t n in
    match t' with
    | [] => if x =? FREE_SECTOR then ([], k + 1) else ([x], k)
    | _ => (x :: t', k)
    end
  end.

Definition free_mini_sector (ms : N) : M unit :=
  do s <- get;
  match nthN (minifat s) ms with
  | None => panic 509
  | Some v =>
    if v =? FREE_SECTOR then fail EInvalidInput else
    set_minifat ms FREE_SECTOR ;;
    modify (fun s => w_mfree s (mfree s ++ [ms])) ;;
    do r <- root_entry;
    (if negb (d_len r mod MINI_SECTOR_LEN =? 0) then panic 510 else ret tt) ;;
    do s <- get;
    let '(mf', k) := strip_free (minifat s) 0 in
    let new_len := d_len r - k * MINI_SECTOR_LEN in          (* saturating_sub, once per stripped entry *)
    put (w_mfree (w_minifat s mf') (filter (fun i => i <? lenN mf') (mfree s))) ;;
    if negb (new_len =? d_len r) then
      with_dir_entry_mut ROOT_STREAM_ID (fun e => set_start_len e (d_start e) new_len)
    else ret tt
  end.

Fixpoint free_mini_chain_go (fuel : nat) (ms : N) : M unit :=
  match fuel with
  | O => out_of_fuel
  | S f =>
    if ms =? END_OF_CHAIN then ret tt
    else do nx <- next_mini ms; free_mini_sector ms ;; free_mini_chain_go f nx
  end.
Definition free_mini_chain (start : N) : M unit :=
  do s <- get; free_mini_chain_go (S (S (length (minifat s)))) start.
Definition free_mini_chain_after (ms : N) : M unit :=
  do nx <- next_mini ms;
  set_minifat ms END_OF_CHAIN ;;
  free_mini_chain nx.

(* ---- MiniChain operations ---- *)
Definition mchain_seek (c : mchain) (pos : N) : M mchain :=
  if mchain_len c <? pos then fail EInvalidInput else ret (mkMChain (mc_ids c) pos).

Fixpoint mchain_grow (n : nat) (c : mchain) : M mchain :=
  match n with
  | O => ret c
  | S n' =>
    do ms <- match lastN (mc_ids c) with
             | Some last => extend_mini_chain last
             | None => begin_mini_chain
             end;
    mchain_grow n' (mkMChain (mc_ids c ++ [ms]) (mc_off c))
  end.

Definition mchain_set_len (c : mchain) (new_len : N) : M mchain :=
  if MINI_STREAM_CUTOFF <=? new_len then panic 512 else          (* debug_assert!(new_len < CUTOFF) *)
  let new_num := (MINI_SECTOR_LEN + new_len - 1) / MINI_SECTOR_LEN in
  let cur := lenN (mc_ids c) in
  if new_num =? 0 then
    match mc_ids c with
    | first :: _ => free_mini_chain first ;; ret c
    | [] => ret c
    end
  else if new_num <=? cur then
    (if new_num <? cur then
       match nthN (mc_ids c) (new_num - 1) with
       | Some ms => free_mini_chain_after ms
       | None => panic 513
       end
     else ret tt) ;; ret c
  else mchain_grow (N.to_nat (new_num - cur)) c.

Fixpoint mchain_read_go (fuel : nat) (c : mchain) (n : N) (acc : list byte) : M (mchain * list byte) :=
  match fuel with
  | O => out_of_fuel
  | S f =>
    if n =? 0 then ret (c, acc) else
    let total := mchain_len c in
    if total <? mc_off c then panic 514 else
    let maxlen := N.min n (total - mc_off c) in
    if maxlen =? 0 then fail EUnexpectedEof else
    match nthN (mc_ids c) (mc_off c / MINI_SECTOR_LEN) with
    | None => panic 515
    | Some ms =>
      let ow := mc_off c mod MINI_SECTOR_LEN in
      let k := N.min maxlen (MINI_SECTOR_LEN - ow) in
      do '(sid, o) <- mini_locate ms ow;
      do bs <- sector_read_exact sid o k;
      mchain_read_go f (mkMChain (mc_ids c) (mc_off c + k)) (n - k) (acc ++ bs)
    end
  end.
Definition mchain_read_exact (c : mchain) (n : N) : M (mchain * list byte) :=
  mchain_read_go (S (S (S (N.to_nat (n / MINI_SECTOR_LEN))))) c n [].

Fixpoint mchain_write_go (fuel : nat) (c : mchain) (bs : list byte) : M mchain :=
  match fuel with
  | O => out_of_fuel
  | S f =>
    match bs with
    | [] => ret c
    | _ =>
      do c <- (if mc_off c =? mchain_len c then
                 do ms <- match lastN (mc_ids c) with
                          | Some last => extend_mini_chain last
                          | None => begin_mini_chain
                          end;
                 ret (mkMChain (mc_ids c ++ [ms]) (mc_off c))
               else ret c);
      match nthN (mc_ids c) (mc_off c / MINI_SECTOR_LEN) with
      | None => panic 516
      | Some ms =>
        let ow := mc_off c mod MINI_SECTOR_LEN in
        let k := N.min (lenN bs) (MINI_SECTOR_LEN - ow) in
        do '(sid, o) <- mini_locate ms ow;
        sector_write sid o (takeN k bs) ;;
        mchain_write_go f (mkMChain (mc_ids c) (mc_off c + k)) (dropN k bs)
      end
    end
  end.
Definition mchain_write_all (c : mchain) (bs : list byte) : M mchain :=
  mchain_write_go (S (S (S (N.to_nat (lenN bs / MINI_SECTOR_LEN))))) c bs.
