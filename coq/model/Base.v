(* Base.v — bytes, little-endian codecs, result type, list helpers indexed by N.
   Mirrors: lib.rs ReadLeNumber/WriteLeNumber (1137-1167), macros.rs error kinds. *)
From Coq Require Export List NArith ZArith Bool Lia.
Export ListNotations.
Open Scope N_scope.

Definition byte := N.

Inductive ekind :=
| ENotFound | EAlreadyExists | EInvalidInput | EInvalidData
| EUnexpectedEof | EWriteZero | EOther.

(* Panic: an unchecked index, unwrap, failed (debug) assertion, arithmetic
   overflow or explicit panic! in the Rust code; the number names the site.
   OutOfFuel: the model's loop bound ran out, i.e. the Rust loop is not shown
   to terminate. *)
Inductive res (A : Type) :=
| Ok (a : A) | Err (k : ekind) | Panic (site : N) | OutOfFuel.
Arguments Ok {A} a.
Arguments Err {A} k.
Arguments Panic {A} site.
Arguments OutOfFuel {A}.

Definition rbind {A B} (m : res A) (f : A -> res B) : res B :=
  match m with
  | Ok a => f a
  | Err k => Err k
  | Panic n => Panic n
  | OutOfFuel => OutOfFuel
  end.
Definition rmap {A B} (f : A -> B) (m : res A) : res B := rbind m (fun a => Ok (f a)).
Definition is_ok {A} (m : res A) : bool := match m with Ok _ => true | _ => false end.
Definition is_bad {A} (m : res A) : bool :=
  match m with Panic _ => true | OutOfFuel => true | _ => false end.

Definition ekind_eqb (a b : ekind) : bool :=
  match a, b with
  | ENotFound, ENotFound | EAlreadyExists, EAlreadyExists | EInvalidInput, EInvalidInput
  | EInvalidData, EInvalidData | EUnexpectedEof, EUnexpectedEof | EWriteZero, EWriteZero
  | EOther, EOther => true
  | _, _ => false
  end.

(* ---- lists indexed / measured by N (structural on the list; no nat round trips) ---- *)
Fixpoint lenN {A} (l : list A) : N :=
  match l with [] => 0 | _ :: t => N.succ (lenN t) end.

Fixpoint nthN {A} (l : list A) (i : N) : option A :=
  match l with
  | [] => None
  | x :: t => if i =? 0 then Some x else nthN t (N.pred i)
  end.

Fixpoint updN {A} (l : list A) (i : N) (v : A) : list A :=
  match l with
  | [] => []
  | x :: t => if i =? 0 then v :: t else x :: updN t (N.pred i) v
  end.

Fixpoint takeN {A} (n : N) (l : list A) : list A :=
  match l with
  | [] => []
  | x :: t => if n =? 0 then [] else x :: takeN (N.pred n) t
  end.

Fixpoint dropN {A} (n : N) (l : list A) : list A :=
  match l with
  | [] => []
  | x :: t => if n =? 0 then l else dropN (N.pred n) t
  end.

Definition repeatN {A} (x : A) (n : N) : list A :=
  N.iter n (fun l => x :: l) [].

Definition lastN {A} (l : list A) : option A :=
  match rev l with [] => None | x :: _ => Some x end.
Definition pop_last {A} (l : list A) : list A := removelast l.

(* overwrite [bs] into [l] at offset [off], zero-filling a gap and extending as a
   Vec-backed cursor does *)
Definition spliceN (l : list byte) (off : N) (bs : list byte) : list byte :=
  let pre := takeN off l in
  pre ++ repeatN 0 (off - lenN pre) ++ bs ++ dropN (off + lenN bs) l.

Fixpoint memN (x : N) (l : list N) : bool :=
  match l with [] => false | y :: t => (x =? y) || memN x t end.

Fixpoint list_eqb {A} (eqb : A -> A -> bool) (a b : list A) : bool :=
  match a, b with
  | [], [] => true
  | x :: a', y :: b' => eqb x y && list_eqb eqb a' b'
  | _, _ => false
  end.

(* ---- little-endian numbers ---- *)
Fixpoint le_bytes (width : nat) (v : N) : list byte :=
  match width with
  | O => []
  | S w => (v mod 256) :: le_bytes w (v / 256)
  end.

Fixpoint le_val (bs : list byte) : N :=
  match bs with
  | [] => 0
  | b :: t => b + 256 * le_val t
  end.

Definition u16_max := 65535.
Definition u32_max := 4294967295.
Definition u64_max := 18446744073709551615.
Definition two64 := 18446744073709551616.

Definition bytes_ok (bs : list byte) : bool := forallb (fun b => b <? 256) bs.
