(* Cfb.v — the public API: creation of an empty file, every CompoundFile
   method, the Entries iterators, the table of open stream handles, and the
   step function of the whole system.  Mirrors src/lib.rs:197-409, 705-1128 and
   src/internal/entry.rs. *)
From Cfb.model Require Import Base Names Time DirEnt State Alloc Dir Mini Store Handle Open.
From Cfb.gen Require Import Consts.
Open Scope N_scope.

(* ---- create_with_version ---- *)
Definition create_image (v : version) : list (list byte) :=
  let sl := sector_len v in
  let hdr := mkHeader v (match v with V3 => 0 | V4 => 1 end) 1 1 END_OF_CHAIN 0 END_OF_CHAIN 0
                      (0 :: repeatN FREE_SECTOR (NUM_DIFAT_HDR - 1)) in
  let hsec := header_encode hdr ++ repeatN 0 (sl - HEADER_LEN) in
  let fatsec := le_bytes 4 FAT_SECTOR ++ le_bytes 4 END_OF_CHAIN ++ flat_map (le_bytes 4) (repeatN FREE_SECTOR (sl / 4 - 2)) in
  let dirsec := dirent_encode dirent_empty_root ++
                concat (repeatN (dirent_encode dirent_unallocated) (dir_per_sector v - 1)) in
  [hsec; fatsec; dirsec].

Definition create_state (v : version) : cstate :=
  mkState v (create_image v) 2 [] [0] [FAT_SECTOR; END_OF_CHAIN] [] [dirent_empty_root] 1 [] END_OF_CHAIN [].

(* ---- Entry ---- *)
Record entry := mkEntry {
  e_name : name; e_path : list N; e_type : objtype; e_clsid : N; e_state : N;
  e_ctime : N; e_mtime : N; e_len : N
}.
Definition entry_of (e : dirent) (path : list N) : entry :=
  mkEntry (d_name e) path (d_type e) (d_clsid e) (d_state e) (d_ctime e) (d_mtime e) (d_len e).

(* ---- Entries iterator (entry.rs): the stack's head is the top ---- *)
Inductive eorder := Nonrecursive | Preorder.

Fixpoint left_spine (fuel : nat) (ds : list dirent) (parent : list N) (id : N)
         (stack : list (list N * N * bool)) : res (list (list N * N * bool)) :=
  match fuel with
  | O => OutOfFuel
  | S f =>
    if id =? NO_STREAM then Ok stack else
    rbind (dir_entry_of ds id) (fun e =>
    left_spine f ds parent (d_left e) ((parent, id, true) :: stack))
  end.

Fixpoint entries_go (fuel : nat) (ds : list dirent) (ord : eorder)
         (stack : list (list N * N * bool)) (acc : list entry) : res (list entry) :=
  match fuel with
  | O => OutOfFuel
  | S f =>
    match stack with
    | [] => Ok (rev acc)
    | (parent, id, vis) :: rest =>
      rbind (dir_entry_of ds id) (fun e =>
      let path := if objtype_eqb (d_type e) TRoot then parent else path_join parent (d_name e) in
      rbind (if vis then left_spine (S (length ds)) ds parent (d_right e) rest else Ok rest) (fun st1 =>
      rbind (match ord with
             | Preorder =>
               if negb (objtype_eqb (d_type e) TStream) && negb (d_child e =? NO_STREAM)
               then left_spine (S (length ds)) ds path (d_child e) st1 else Ok st1
             | Nonrecursive => Ok st1
             end) (fun st2 =>
      entries_go f ds ord st2 (entry_of e path :: acc))))
    end
  end.

Definition entries_collect (ds : list dirent) (ord : eorder) (parent : list N) (start : N) : res (list entry) :=
  let fuel := S (S (2 * length ds)) in
  match ord with
  | Nonrecursive =>
    rbind (left_spine (S (length ds)) ds parent start []) (fun st => entries_go fuel ds ord st [])
  | Preorder => entries_go fuel ds ord [(parent, start, false)] []
  end.

(* ---- read-only methods ---- *)
Definition names_of (p : list N) : M (list name) := lift (name_chain_from_path p).

Definition api_entry (p : list N) : M entry :=
  do names <- names_of p;
  do r <- lookup names;
  match r with
  | None => fail ENotFound
  | Some id => do e <- dir_entry id; ret (entry_of e (path_from_name_chain names))
  end.

Definition api_root_entry : M entry :=
  do e <- dir_entry ROOT_STREAM_ID; ret (entry_of e [SLASH]).

Definition api_read_root : M (list entry) :=
  do e <- dir_entry ROOT_STREAM_ID;
  do s <- get;
  lift (entries_collect (dirs s) Nonrecursive [SLASH] (d_child e)).

Definition api_read_storage (p : list N) : M (list entry) :=
  do names <- names_of p;
  do r <- lookup names;
  match r with
  | None => fail ENotFound
  | Some id =>
    do e <- dir_entry id;
    if objtype_eqb (d_type e) TStream then fail EInvalidInput else
    if negb (objtype_eqb (d_type e) TStorage) && negb (objtype_eqb (d_type e) TRoot) then panic 901 else
    do s <- get;
    lift (entries_collect (dirs s) Nonrecursive (path_from_name_chain names) (d_child e))
  end.

Definition api_walk : M (list entry) :=
  do s <- get;
  lift (entries_collect (dirs s) Preorder [SLASH] ROOT_STREAM_ID).

Definition api_walk_storage (p : list N) : M (list entry) :=
  do names <- names_of p;
  do r <- lookup names;
  match r with
  | None => fail ENotFound
  | Some id =>
    do s <- get;
    lift (entries_collect (dirs s) Preorder (path_from_name_chain (pop_last names)) id)
  end.

Definition lookup_path (p : list N) : M (option (N * dirent)) :=
  fun s =>
    match name_chain_from_path p with
    | Ok names =>
      match lookup names s with
      | (s1, Ok (Some id)) =>
        match dir_entry id s1 with
        | (s2, Ok e) => (s2, Ok (Some (id, e)))
        | (s2, Err k) => (s2, Err k) | (s2, Panic n) => (s2, Panic n) | (s2, OutOfFuel) => (s2, OutOfFuel)
        end
      | (s1, Ok None) => (s1, Ok None)
      | (s1, Err k) => (s1, Err k) | (s1, Panic n) => (s1, Panic n) | (s1, OutOfFuel) => (s1, OutOfFuel)
      end
    | Err _ => (s, Ok None)
    | Panic n => (s, Panic n)
    | OutOfFuel => (s, OutOfFuel)
    end.

Definition api_exists (p : list N) : M bool :=
  do r <- lookup_path p; ret (match r with Some _ => true | None => false end).
Definition api_is_stream (p : list N) : M bool :=
  do r <- lookup_path p;
  ret (match r with Some (_, e) => objtype_eqb (d_type e) TStream | None => false end).
Definition api_is_storage (p : list N) : M bool :=
  do r <- lookup_path p;
  ret (match r with Some (_, e) => negb (objtype_eqb (d_type e) TStream) | None => false end).

(* ---- mutating methods ---- *)
Definition create_storage_names (names : list name) (now : N) : M unit :=
  do r <- lookup names;
  match r with
  | Some id => do _ <- dir_entry id; fail EAlreadyExists
  | None =>
    match lastN names with
    | None => panic 902
    | Some nm =>
      do _ <- lift (validate_name nm);
      do pr <- lookup (pop_last names);
      match pr with
      | None => fail ENotFound
      | Some pid =>
        do pe <- dir_entry pid;
        if objtype_eqb (d_type pe) TStream then fail EInvalidInput else
        do _ <- insert_dir_entry pid nm TStorage now; ret tt
      end
    end
  end.

Definition api_create_storage (p : list N) (now : N) : M unit :=
  do names <- names_of p; create_storage_names names now.

Fixpoint validate_all (names : list name) : res unit :=
  match names with
  | [] => Ok tt
  | n :: t => rbind (validate_name n) (fun _ => validate_all t)
  end.

Fixpoint create_all_go (prefixes : list (list name)) (now : N) : M unit :=
  match prefixes with
  | [] => ret tt
  | pre :: t =>
    do r <- lookup pre;
    do is_stg <- match r with
                 | Some id => do e <- dir_entry id; ret (negb (objtype_eqb (d_type e) TStream))
                 | None => ret false
                 end;
    (if is_stg then ret tt else create_storage_names pre now) ;;
    create_all_go t now
  end.

Fixpoint prefixes_of {A} (l : list A) (acc : list A) : list (list A) :=
  match l with
  | [] => []
  | x :: t => (acc ++ [x]) :: prefixes_of t (acc ++ [x])
  end.

Definition api_create_storage_all (p : list N) (now : N) : M unit :=
  do names <- names_of p;
  do _ <- lift (validate_all names);
  create_all_go (prefixes_of names []) now.

Definition remove_storage_names (names : list name) : M unit :=
  do r <- lookup names;
  match r with
  | None => fail ENotFound
  | Some id =>
    do e <- dir_entry id;
    if objtype_eqb (d_type e) TRoot then fail EInvalidInput else
    if objtype_eqb (d_type e) TStream then fail EInvalidInput else
    if negb (objtype_eqb (d_type e) TStorage) then panic 903 else
    if negb (d_child e =? NO_STREAM) then fail EInvalidInput else
    match lastN names with
    | None => panic 904
    | Some nm =>
      do pr <- lookup (pop_last names);
      match pr with
      | None => panic 905                             (* .unwrap() *)
      | Some pid => remove_dir_entry pid nm
      end
    end
  end.
Definition api_remove_storage (p : list N) : M unit :=
  do names <- names_of p; remove_storage_names names.

Definition remove_stream_names (names : list name) : M unit :=
  do r <- lookup names;
  match r with
  | None => fail ENotFound
  | Some id =>
    do e <- dir_entry id;
    if negb (objtype_eqb (d_type e) TStream) then fail EInvalidInput else
    if negb (d_child e =? NO_STREAM) then panic 906 else
    (if d_len e <? MINI_STREAM_CUTOFF then free_mini_chain (d_start e) else free_chain (d_start e)) ;;
    match lastN names with
    | None => panic 907
    | Some nm =>
      do pr <- lookup (pop_last names);
      match pr with
      | None => panic 908
      | Some pid => remove_dir_entry pid nm
      end
    end
  end.
Definition api_remove_stream (p : list N) : M unit :=
  do names <- names_of p; remove_stream_names names.

(* remove_storage_all: walk, then remove from the back of the list; entry paths
   are re-parsed by the callee, which for paths built from stored names gives
   back the names *)
Fixpoint remove_all_go (es : list entry) : M unit :=
  match es with
  | [] => ret tt
  | e :: t =>
    (if objtype_eqb (e_type e) TStream then api_remove_stream (e_path e)
     else if negb (objtype_eqb (e_type e) TRoot) then api_remove_storage (e_path e)
     else ret tt) ;;
    remove_all_go t
  end.
Definition api_remove_storage_all (p : list N) : M unit :=
  do es <- api_walk_storage p;
  remove_all_go (rev es).

Definition api_set_clsid (p : list N) (g : N) : M unit :=
  do names <- names_of p;
  do r <- lookup names;
  match r with
  | None => fail ENotFound
  | Some id =>
    do e <- dir_entry id;
    if objtype_eqb (d_type e) TStream then fail EInvalidInput else
    with_dir_entry_mut id (fun e => set_clsid e g)
  end.

Definition set_entry_with_path (p : list N) (f : dirent -> dirent) : M unit :=
  do names <- names_of p;
  do r <- lookup names;
  match r with
  | None => fail ENotFound
  | Some id => with_dir_entry_mut id f
  end.
Definition api_set_state (p : list N) (bits : N) : M unit :=
  set_entry_with_path p (fun e => set_state e bits).
Definition api_set_modified (p : list N) (before : bool) (secs nanos : N) : M unit :=
  set_entry_with_path p (fun e =>
    if objtype_eqb (d_type e) TStream then e else set_mtime e (from_system_time before secs nanos)).
Definition api_set_created (p : list N) (before : bool) (secs nanos : N) : M unit :=
  set_entry_with_path p (fun e =>
    if objtype_eqb (d_type e) TStream then e else set_ctime e (from_system_time before secs nanos)).

(* ---- streams: the handle of Handle.v over the compound file ---- *)
Definition stream_len_of (id : N) : M N := do e <- dir_entry id; ret (d_len e).
Definition handle_new' := handle_new cstate stream_len_of.
Definition flush_changes' := flush_changes cstate write_data stream_len_of.
Definition h_fill_buf' := h_fill_buf cstate read_data write_data stream_len_of.
Definition h_read' := h_read cstate read_data write_data stream_len_of.
Definition h_seek' := h_seek cstate write_data stream_len_of.
Definition h_write' := h_write cstate write_data stream_len_of.
Definition h_set_len' := h_set_len cstate write_data resize stream_len_of.
Definition h_flush' := h_flush cstate write_data stream_len_of.

Definition api_open_stream (p : list N) (maxbuf : N) : M handle :=
  do names <- names_of p;
  do r <- lookup names;
  match r with
  | None => fail ENotFound
  | Some id =>
    do e <- dir_entry id;
    if negb (objtype_eqb (d_type e) TStream) then fail EInvalidInput else handle_new' id maxbuf
  end.

Definition api_create_stream (p : list N) (overwrite : bool) (maxbuf now : N) : M handle :=
  do names <- names_of p;
  do r <- lookup names;
  match r with
  | Some id =>
    do e <- dir_entry id;
    if negb (objtype_eqb (d_type e) TStream) then fail EAlreadyExists
    else if negb overwrite then fail EAlreadyExists
    else
      do h <- handle_new' id maxbuf;
      fun s => match h_set_len' h 0 s with
               | (s1, (h1, Ok _)) => (s1, Ok h1)
               | (s1, (_, Err k)) => (s1, Err k)
               | (s1, (_, Panic n)) => (s1, Panic n)
               | (s1, (_, OutOfFuel)) => (s1, OutOfFuel)
               end
  | None =>
    match lastN names with
    | None => panic 909
    | Some nm =>
      do _ <- lift (validate_name nm);
      do pr <- lookup (pop_last names);
      match pr with
      | None => fail ENotFound
      | Some pid =>
        do pe <- dir_entry pid;
        if objtype_eqb (d_type pe) TStream then fail EInvalidInput else
        do id <- insert_dir_entry pid nm TStream now;
        handle_new' id maxbuf
      end
    end
  end.

(* ---- the whole system: file + table of open handles ---- *)
Record fstate := mkF { cs : cstate; hs : list (option handle); maxbuf : N }.

Inductive op :=
| OCreateStorage (p : list N) | OCreateStorageAll (p : list N)
| ORemoveStorage (p : list N) | ORemoveStorageAll (p : list N)
| OCreateStream (h : N) (p : list N) | OCreateNewStream (h : N) (p : list N)
| OOpenStream (h : N) (p : list N) | ORemoveStream (p : list N)
| OSetClsid (p : list N) (g : N) | OSetState (p : list N) (bits : N)
| OSetCreated (p : list N) (before : bool) (secs nanos : N)
| OSetModified (p : list N) (before : bool) (secs nanos : N)
| OExists (p : list N) | OIsStream (p : list N) | OIsStorage (p : list N)
| OEntry (p : list N) | ORootEntry | OReadStorage (p : list N) | OReadRoot
| OWalk | OWalkStorage (p : list N) | OFlushFile | OVersion
| OHRead (h n : N) | OHFill (h : N) | OHConsume (h k : N) | OHWrite (h : N) (bs : list byte)
| OHSeek (h : N) (w : whence) (z : Z) | OHSetLen (h n : N) | OHFlush (h : N)
| OHLen (h : N) | OHPos (h : N) | OHDrop (h : N)
| OCat (p : list N)
| OReopen (strict : bool).

Inductive value :=
| VUnit | VBool (b : bool) | VNum (n : N) | VBytes (bs : list byte)
| VEntry (e : entry) | VEntries (es : list entry) | VVersion (v : version) | VNoHandle.

Definition with_cs {A} (f : fstate) (m : M A) (k : A -> value) : fstate * res value :=
  let '(s', r) := m (cs f) in
  (mkF s' (hs f) (maxbuf f), rmap k r).

Definition set_handle (f : fstate) (i : N) (h : option handle) : list (option handle) :=
  updN (hs f) i h.

Definition with_new_handle (f : fstate) (i : N) (m : M handle) : fstate * res value :=
  let '(s', r) := m (cs f) in
  match r with
  | Ok h => (mkF s' (updN (hs f) i (Some h)) (maxbuf f), Ok VUnit)
  | Err k => (mkF s' (hs f) (maxbuf f), Err k)
  | Panic n => (mkF s' (hs f) (maxbuf f), Panic n)
  | OutOfFuel => (mkF s' (hs f) (maxbuf f), OutOfFuel)
  end.

Definition with_handle {A} (f : fstate) (i : N) (m : handle -> HM cstate A) (k : A -> value) : fstate * res value :=
  match nthN (hs f) i with
  | Some (Some h) =>
    let '(s', (h', r)) := m h (cs f) in
    (mkF s' (updN (hs f) i (Some h')) (maxbuf f), rmap k r)
  | _ => (f, Ok VNoHandle)
  end.

(* read_to_end through a fresh handle: fill_buf / consume until empty *)
Fixpoint cat_go (fuel : nat) (h : handle) (acc : list byte) : M (list byte) :=
  match fuel with
  | O => out_of_fuel
  | S f => fun s =>
    match h_fill_buf' h s with
    | (s1, (h1, Ok avail)) =>
      match avail with
      | [] => (s1, Ok acc)
      | _ => let '(h2, _) := h_consume h1 (lenN avail) in cat_go f h2 (acc ++ avail) s1
      end
    | (s1, (_, Err k)) => (s1, Err k)
    | (s1, (_, Panic n)) => (s1, Panic n)
    | (s1, (_, OutOfFuel)) => (s1, OutOfFuel)
    end
  end.
(* Every successful round delivers at least STREAM_BUFFER_MIN bytes that exist in
   the image (or the rest of the stream), so the number of rounds is bounded by
   the image size as well as by the recorded length; the recorded length alone
   must not be used as fuel: it comes from the file and may be any u64. *)
Definition api_cat (p : list N) (maxbuf : N) : M (list byte) :=
  do h <- api_open_stream p maxbuf;
  do s <- get;
  let bound := N.min (h_total h) (lenN (img s) * slen s) in
  cat_go (S (S (S (N.to_nat (bound / STREAM_BUFFER_MIN))))) h [].

(* dropping a handle flushes it, ignoring errors *)
Definition drop_handle (f : fstate) (i : N) : fstate :=
  match nthN (hs f) i with
  | Some (Some h) =>
    let '(s', _) := flush_changes' h (cs f) in
    mkF s' (updN (hs f) i None) (maxbuf f)
  | _ => f
  end.

(* Drop swallows an error of the final flush, but a panic inside it still unwinds *)
Definition drop_result (f : fstate) (i : N) : res value :=
  match nthN (hs f) i with
  | Some (Some h) =>
    match snd (flush_changes' h (cs f)) with
    | Panic n => Panic n
    | OutOfFuel => OutOfFuel
    | _ => Ok VUnit
    end
  | _ => Ok VUnit
  end.

Fixpoint drop_all (fuel : nat) (f : fstate) (i : N) : fstate :=
  match fuel with
  | O => f
  | S n => drop_all n (drop_handle f i) (i + 1)
  end.

Definition concat_img (im : list (list byte)) : list byte := concat im.

(* assigning a new handle to an occupied slot drops the old handle *after* the
   call that produced the new one returned *)
Definition step (f : fstate) (now : N) (o : op) : fstate * res value :=
  match o with
  | OCreateStorage p => with_cs f (api_create_storage p now) (fun _ => VUnit)
  | OCreateStorageAll p => with_cs f (api_create_storage_all p now) (fun _ => VUnit)
  | ORemoveStorage p => with_cs f (api_remove_storage p) (fun _ => VUnit)
  | ORemoveStorageAll p => with_cs f (api_remove_storage_all p) (fun _ => VUnit)
  | OCreateStream i p =>
      let '(f1, r) := with_new_handle (mkF (cs f) (hs f) (maxbuf f)) i (api_create_stream p true (maxbuf f) now) in
      (f1, r)
  | OCreateNewStream i p => with_new_handle f i (api_create_stream p false (maxbuf f) now)
  | OOpenStream i p => with_new_handle f i (api_open_stream p (maxbuf f))
  | ORemoveStream p => with_cs f (api_remove_stream p) (fun _ => VUnit)
  | OSetClsid p g => with_cs f (api_set_clsid p g) (fun _ => VUnit)
  | OSetState p b => with_cs f (api_set_state p b) (fun _ => VUnit)
  | OSetCreated p b s n => with_cs f (api_set_created p b s n) (fun _ => VUnit)
  | OSetModified p b s n => with_cs f (api_set_modified p b s n) (fun _ => VUnit)
  | OExists p => with_cs f (api_exists p) VBool
  | OIsStream p => with_cs f (api_is_stream p) VBool
  | OIsStorage p => with_cs f (api_is_storage p) VBool
  | OEntry p => with_cs f (api_entry p) VEntry
  | ORootEntry => with_cs f api_root_entry VEntry
  | OReadStorage p => with_cs f (api_read_storage p) VEntries
  | OReadRoot => with_cs f api_read_root VEntries
  | OWalk => with_cs f api_walk VEntries
  | OWalkStorage p => with_cs f (api_walk_storage p) VEntries
  | OFlushFile => (f, Ok VUnit)
  | OVersion => (f, Ok (VVersion (ver (cs f))))
  | OHRead i n => with_handle f i (fun h => h_read' h n) VBytes
  | OHFill i => with_handle f i h_fill_buf' VBytes
  | OHConsume i k => with_handle f i (fun h s => (s, h_consume h k)) (fun _ => VUnit)
  | OHWrite i bs => with_handle f i (fun h => h_write' h bs) VNum
  | OHSeek i w z => with_handle f i (fun h => h_seek' h w z) VNum
  | OHSetLen i n => with_handle f i (fun h => h_set_len' h n) (fun _ => VUnit)
  | OHFlush i => with_handle f i h_flush' (fun _ => VUnit)
  | OHLen i => with_handle f i (fun h s => (s, (h, Ok (h_total h)))) VNum
  | OHPos i => with_handle f i (fun h s => (s, (h, Ok (h_position h)))) VNum
  | OHDrop i => (drop_handle f i, drop_result f i)
  | OCat p => with_cs f (api_cat p (maxbuf f)) VBytes
  | OReopen strict =>
      let f1 := drop_all (length (hs f)) f 0 in
      match open_model strict (concat_img (img (cs f1))) with
      | Ok s' => (mkF s' (hs f1) (maxbuf f1), Ok VUnit)
      | Err k => (f1, Err k)
      | Panic n => (f1, Panic n)
      | OutOfFuel => (f1, OutOfFuel)
      end
  end.

Definition init_fstate (v : version) (mb nh : N) : fstate :=
  mkF (create_state v) (repeatN None nh) mb.
