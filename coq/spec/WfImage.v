(* WfImage.v — an independent MS-CFB well-formedness checker on raw bytes
   (property C03).  Written from MS-CFB section 2 and the wording of C03.  It
   uses only the byte/number helpers of Base.v, the generated constants and the
   name order of Names.v (specified by the C09 theorems); none of Open.v /
   Alloc.v / Dir.v / DirEnt.v.  [wf_check] returns 0 when the image is
   well-formed and otherwise a code naming the first rule found violated.

   Readings (stated in DESIGN.md): the directory, MiniFAT and mini-stream chains
   may be longer than their contents need (capacity is never given back); every
   user stream's chain has exactly ceil(size / sector) sectors (ceil(size / 64)
   mini sectors below the 4096 cutoff); an unallocated entry is blank when its
   type byte is 0, its links are NO_STREAM, its name is empty (length field 0 or
   2) and every other field is zero.

   Rules 1-44 are the original rules.  Rules 45-50 were added when the converse
   direction (proofs/WfOpen.v: every accepted image is opened by open_strict) was
   proved; each closes a place where the checker asked less than MS-CFB:
     45  at most MAXREGSECT sectors follow the header (after rule 9)
     46  the root entry's colour flag is 0 or 1          (after rule 29)
     47  the root entry's name field passes name_ok       (after rule 29)
     48  an unallocated entry's name-length field is even (after rule 31)
     49  a storage entry's start sector is 0              (after rule 32)
     50  a storage entry's size is 0                      (after rule 32) *)
From Cfb.model Require Import Base Names.
From Cfb.gen Require Import Consts.
Open Scope N_scope.

Definition u32_at (bs : list byte) (off : N) : N := le_val (takeN 4 (dropN off bs)).
Definition u16_at (bs : list byte) (off : N) : N := le_val (takeN 2 (dropN off bs)).
Definition u64_at (bs : list byte) (off : N) : N := le_val (takeN 8 (dropN off bs)).

Fixpoint words (n : nat) (bs : list byte) : list N :=
  match n with
  | O => []
  | S n' => le_val (takeN 4 bs) :: words n' (dropN 4 bs)
  end.

Fixpoint split_chunks (fuel : nat) (sl : N) (bs : list byte) : list (list byte) :=
  match fuel with
  | O => []
  | S f => match bs with [] => [] | _ => takeN sl bs :: split_chunks f sl (dropN sl bs) end
  end.

Definition all_zero (bs : list byte) : bool := forallb (fun b => b =? 0) bs.

(* walk a chain in a table; Some ids when it ends with END_OF_CHAIN after
   visiting distinct in-range cells *)
Fixpoint walk (fuel : nat) (tbl : list N) (cur : N) (acc : list N) : option (list N) :=
  match fuel with
  | O => None
  | S f =>
    if cur =? END_OF_CHAIN then Some (rev acc) else
    if MAX_REGULAR_SECTOR <? cur then None else
    if memN cur acc then None else
    match nthN tbl cur with
    | None => None
    | Some nx => walk f tbl nx (cur :: acc)
    end
  end.
Definition chain_of (tbl : list N) (start : N) : option (list N) :=
  walk (S (length tbl)) tbl start [].

Fixpoint disjoint_add (xs owned : list N) : option (list N) :=
  match xs with
  | [] => Some owned
  | x :: t => if memN x owned then None else disjoint_add t (x :: owned)
  end.

Definition ceil_div (a b : N) : N := (a + b - 1) / b.

(* ---- directory entries, decoded by field offsets ---- *)
Record wentry := mkW {
  w_name : list N;  (* UTF-16 units *)
  w_namelen : N; w_type : N; w_color : N; w_left : N; w_right : N; w_child : N;
  w_clsid_zero : bool; w_state : N; w_ctime : N; w_mtime : N; w_start : N; w_len : N;
  w_raw : list byte
}.

Definition units_of (bs : list byte) (n : nat) : list N :=
  (fix go (k : nat) (b : list byte) :=
     match k with O => [] | S k' => le_val (takeN 2 b) :: go k' (dropN 2 b) end) n bs.

Definition parse_entry (mask : N) (bs : list byte) : wentry :=
  let nl := u16_at bs 64 in
  mkW (units_of bs (N.to_nat (if (2 <=? nl) && (nl <=? 64) then nl / 2 - 1 else 0)))
      nl (le_val (takeN 1 (dropN 66 bs))) (le_val (takeN 1 (dropN 67 bs)))
      (u32_at bs 68) (u32_at bs 72) (u32_at bs 76)
      (all_zero (takeN 16 (dropN 80 bs))) (u32_at bs 96) (u64_at bs 100) (u64_at bs 108)
      (u32_at bs 116) (N.land (u64_at bs 120) mask) bs.

(* UTF-16 -> scalar values; None on an unpaired surrogate *)
Fixpoint scalars (u : list N) : option (list N) :=
  match u with
  | [] => Some []
  | a :: t =>
    if (55296 <=? a) && (a <=? 56319) then
      match t with
      | b :: t' =>
        if (56320 <=? b) && (b <=? 57343) then
          match scalars t' with
          | Some r => Some ((65536 + (a - 55296) * 1024 + (b - 56320)) :: r)
          | None => None
          end
        else None
      | [] => None
      end
    else if (56320 <=? a) && (a <=? 57343) then None
    else match scalars t with Some r => Some (a :: r) | None => None end
  end.

Definition name_ok (e : wentry) : option (list N) :=
  if negb ((2 <=? w_namelen e) && (w_namelen e <=? 64) && (w_namelen e mod 2 =? 0)) then None else
  if negb (u16_at (w_raw e) (w_namelen e - 2) =? 0) then None else          (* terminator *)
  if negb (all_zero (takeN (64 - w_namelen e) (dropN (w_namelen e) (w_raw e)))) then None else  (* padding *)
  match scalars (w_name e) with
  | None => None
  | Some n => if existsb (fun f => memN f n) FORBIDDEN_CHARS then None else Some n
  end.

Definition blank_entry (e : wentry) : bool :=
  (w_type e =? OBJ_TYPE_UNALLOCATED) && (w_namelen e <=? 2) && all_zero (takeN 64 (w_raw e)) &&
  (w_left e =? NO_STREAM) && (w_right e =? NO_STREAM) && (w_child e =? NO_STREAM) &&
  (w_color e =? 0) && w_clsid_zero e && (w_state e =? 0) && (w_ctime e =? 0) && (w_mtime e =? 0) &&
  (w_start e =? 0) && (w_len e =? 0).

(* in-order traversal of a sibling tree with full bounds, collecting
   (id, name); fails on range errors, repeats, order violations, red-red edges,
   invalid names or types.  lo/hi are exclusive bounds (None = unbounded). *)
Definition lt_name (a b : list N) : bool := match cmp_names a b with Lt => true | _ => false end.

Fixpoint sib_walk (fuel : nat) (es : list wentry) (id : N) (lo hi : option (list N))
         (parent_red : bool) (seen : list N) : option (list N * list N) :=
  (* returns (ids of this subtree incl. descendants through child links are NOT followed here, seen') *)
  match fuel with
  | O => None
  | S f =>
    if id =? NO_STREAM then Some ([], seen) else
    if MAX_REGULAR_STREAM_ID <? id then None else
    if memN id seen then None else
    match nthN es id with
    | None => None
    | Some e =>
      if negb ((w_type e =? OBJ_TYPE_STORAGE) || (w_type e =? OBJ_TYPE_STREAM)) then None else
      if negb ((w_color e =? COLOR_RED) || (w_color e =? COLOR_BLACK)) then None else
      let red := w_color e =? COLOR_RED in
      if parent_red && red then None else
      match name_ok e with
      | None => None
      | Some nm =>
        if negb (match lo with Some l => lt_name l nm | None => true end) then None else
        if negb (match hi with Some h => lt_name nm h | None => true end) then None else
        match sib_walk f es (w_left e) lo (Some nm) red (id :: seen) with
        | None => None
        | Some (lids, seen1) =>
          match sib_walk f es (w_right e) (Some nm) hi red seen1 with
          | None => None
          | Some (rids, seen2) => Some (lids ++ id :: rids, seen2)
          end
        end
      end
    end
  end.

(* all storages, breadth by work-list: each storage's child tree is walked *)
Fixpoint tree_walk (fuel : nat) (es : list wentry) (work : list N) (seen : list N) : option (list N) :=
  match fuel with
  | O => None
  | S f =>
    match work with
    | [] => Some seen
    | child :: rest =>
      match sib_walk (S (length es)) es child None None false seen with
      | None => None
      | Some (ids, seen1) =>
        let storages := filter (fun i => match nthN es i with
                                         | Some e => w_type e =? OBJ_TYPE_STORAGE
                                         | None => false end) ids in
        let kids := map (fun i => match nthN es i with Some e => w_child e | None => NO_STREAM end) storages in
        tree_walk f es (kids ++ rest) seen1
      end
    end
  end.

Fixpoint index_from {A} (l : list A) (i : N) : list (N * A) :=
  match l with [] => [] | x :: t => (i, x) :: index_from t (i + 1) end.

(* ---- the checker ---- *)
Definition wf_check (bytes : list byte) : N :=
  let len := lenN bytes in
  if len <? HEADER_LEN then 1 else
  if negb (list_eqb N.eqb (takeN 8 bytes) MAGIC_NUMBER) then 2 else
  let vnum := u16_at bytes 26 in
  if negb (u16_at bytes 28 =? BYTE_ORDER_MARK) then 3 else
  if negb ((vnum =? 3) || (vnum =? 4)) then 4 else
  let shift := if vnum =? 3 then 9 else 12 in
  if negb (u16_at bytes 30 =? shift) then 5 else
  if negb (u16_at bytes 32 =? MINI_SECTOR_SHIFT) then 6 else
  if negb (u32_at bytes 56 =? MINI_STREAM_CUTOFF) then 7 else
  let sl := 2 ^ shift in
  if negb (len mod sl =? 0) then 8 else                        (* whole number of sectors *)
  if len <? 2 * sl then 9 else
  let ns := len / sl - 1 in
  (* rule 45: sector numbers are regular: at most MAXREGSECT sectors follow the header *)
  if MAX_REGULAR_SECTOR <? ns then 45 else
  let secs := split_chunks (S (N.to_nat (len / sl))) sl bytes in
  let sec := fun i => match nthN secs (i + 1) with Some s => s | None => [] end in
  let per := sl / 4 in
  let num_dir := u32_at bytes 40 in
  let num_fat := u32_at bytes 44 in
  let first_dir := u32_at bytes 48 in
  let first_minifat := u32_at bytes 60 in
  let num_minifat := u32_at bytes 64 in
  let first_difat := u32_at bytes 68 in
  let num_difat := u32_at bytes 72 in
  (* DIFAT: header array, then the chain of DIFAT sectors *)
  let hdr_difat := words 109 (dropN 76 bytes) in
  let difat_walk :=
    (fix go (fuel : nat) (cur : N) (ids acc : list N) : option (list N * list N) :=
       match fuel with
       | O => None
       | S f =>
         if cur =? END_OF_CHAIN then Some (rev ids, acc) else
         if ns <=? cur then None else
         if memN cur ids then None else
         let ws := words (N.to_nat per) (sec cur) in
         match lastN ws with
         | None => None
         | Some nx => go f nx (cur :: ids) (acc ++ pop_last ws)
         end
       end) (S (N.to_nat ns)) first_difat [] hdr_difat in
  match difat_walk with
  | None => 10
  | Some (difat_ids, difat_all) =>
  if negb (num_difat =? lenN difat_ids) then 11 else
  let fat_ids := filter (fun x => negb (x =? FREE_SECTOR)) difat_all in
  (* used entries form a prefix: nothing but FREE after the first FREE *)
  if negb (list_eqb N.eqb (takeN (lenN fat_ids) difat_all) fat_ids) then 12 else
  if negb (num_fat =? lenN fat_ids) then 13 else
  if negb (forallb (fun x => x <? ns) fat_ids) then 14 else
  let fat_full := flat_map (fun i => words (N.to_nat per) (sec i)) fat_ids in
  if lenN fat_full <? ns then 15 else
  if negb (forallb (fun x => x =? FREE_SECTOR) (dropN ns fat_full)) then 16 else
  let fat := takeN ns fat_full in
  (* FAT and DIFAT sectors are marked as such, and nothing else is *)
  if negb (forallb (fun i => match nthN fat i with Some v => v =? FAT_SECTOR | None => false end) fat_ids) then 17 else
  if negb (forallb (fun i => match nthN fat i with Some v => v =? DIFAT_SECTOR | None => false end) difat_ids) then 18 else
  if negb (forallb (fun '(i, v) => if v =? FAT_SECTOR then memN i fat_ids
                                   else if v =? DIFAT_SECTOR then memN i difat_ids
                                   else if v =? INVALID_SECTOR then false else true) (index_from fat 0)) then 19 else
  match disjoint_add fat_ids [] with None => 20 | Some own0 =>
  match disjoint_add difat_ids own0 with None => 21 | Some own1 =>
  (* directory chain *)
  match chain_of fat first_dir with None => 22 | Some dir_ids =>
  if lenN dir_ids =? 0 then 23 else
  if negb (if vnum =? 3 then num_dir =? 0 else num_dir =? lenN dir_ids) then 24 else
  match disjoint_add dir_ids own1 with None => 25 | Some own2 =>
  let mask := if vnum =? 3 then 4294967295 else 18446744073709551615 in
  let raw_entries := flat_map (fun i => split_chunks (N.to_nat (sl / DIR_ENTRY_LEN)) DIR_ENTRY_LEN (sec i)) dir_ids in
  let es := map (parse_entry mask) raw_entries in
  match es with [] => 26 | root :: _ =>
  if negb (w_type root =? OBJ_TYPE_ROOT) then 27 else
  if negb (match scalars (w_name root) with Some n => list_eqb N.eqb n ROOT_DIR_NAME | None => false end) then 28 else
  if negb ((w_left root =? NO_STREAM) && (w_right root =? NO_STREAM)) then 29 else
  (* rule 46: the root entry's colour flag is red or black; rule 47: its name field is
     formed like every other (even length field, terminator, zero padding) *)
  if negb ((w_color root =? COLOR_RED) || (w_color root =? COLOR_BLACK)) then 46 else
  if negb (match name_ok root with Some _ => true | None => false end) then 47 else
  (* the tree: every storage's children a search tree with full bounds, no red-red, ids unique *)
  match tree_walk (S (length es)) es [w_child root] [0] with None => 30 | Some reach =>
  (* every allocated entry is reachable; every other entry is blank *)
  if negb (forallb (fun '(i, e) => if memN i reach then true else blank_entry e) (index_from es 0)) then 31 else
  (* rule 48: the name-length field of an unallocated entry is even (0 or 2) *)
  if negb (forallb (fun '(i, e) => if memN i reach then true else w_namelen e mod 2 =? 0) (index_from es 0)) then 48 else
  (* stream entries: no CLSID, no times, no children *)
  if negb (forallb (fun '(i, e) => if (w_type e =? OBJ_TYPE_STREAM) && memN i reach
                                   then w_clsid_zero e && (w_ctime e =? 0) && (w_mtime e =? 0) && (w_child e =? NO_STREAM)
                                   else true) (index_from es 0)) then 32 else
  (* rules 49, 50: storage entries: start sector and size are zero (MS-CFB 2.6.3) *)
  if negb (forallb (fun '(i, e) => if (w_type e =? OBJ_TYPE_STORAGE) && memN i reach
                                   then w_start e =? 0 else true) (index_from es 0)) then 49 else
  if negb (forallb (fun '(i, e) => if (w_type e =? OBJ_TYPE_STORAGE) && memN i reach
                                   then w_len e =? 0 else true) (index_from es 0)) then 50 else
  (* MiniFAT chain *)
  match chain_of fat first_minifat with None => 33 | Some mf_ids =>
  if negb (num_minifat =? lenN mf_ids) then 34 else
  match disjoint_add mf_ids own2 with None => 35 | Some own3 =>
  let mf_full := flat_map (fun i => words (N.to_nat per) (sec i)) mf_ids in
  (* mini stream *)
  if negb (w_len root mod MINI_SECTOR_LEN =? 0) then 36 else
  let nmini := w_len root / MINI_SECTOR_LEN in
  match chain_of fat (w_start root) with None => 37 | Some ms_ids =>
  if lenN ms_ids * sl <? w_len root then 38 else
  match disjoint_add ms_ids own3 with None => 39 | Some own4 =>
  if lenN mf_full <? nmini then 40 else
  if negb (forallb (fun x => x =? FREE_SECTOR) (dropN nmini mf_full)) then 41 else
  let mf := takeN nmini mf_full in
  (* user streams: chain length matches size, placement by the cutoff, ownership *)
  let streams := filter (fun '(i, e) => (w_type e =? OBJ_TYPE_STREAM) && memN i reach) (index_from es 0) in
  let step := fun (acc : option (list N * list N)) (ie : N * wentry) =>
    match acc with
    | None => None
    | Some (own, mown) =>
      let e := snd ie in
      if w_len e =? 0 then (if w_start e =? END_OF_CHAIN then Some (own, mown) else None)
      else if w_len e <? MINI_STREAM_CUTOFF then
        match chain_of mf (w_start e) with
        | None => None
        | Some ids =>
          if negb (lenN ids =? ceil_div (w_len e) MINI_SECTOR_LEN) then None else
          match disjoint_add ids mown with None => None | Some m' => Some (own, m') end
        end
      else
        match chain_of fat (w_start e) with
        | None => None
        | Some ids =>
          if negb (lenN ids =? ceil_div (w_len e) sl) then None else
          match disjoint_add ids own with None => None | Some o' => Some (o', mown) end
        end
    end in
  match fold_left step streams (Some (own4, [])) with None => 42 | Some (own5, mown) =>
  (* every non-free sector / mini sector has an owner, every free one has none *)
  if negb (forallb (fun '(i, v) => if v =? FREE_SECTOR then negb (memN i own5) else memN i own5) (index_from fat 0)) then 43 else
  if negb (forallb (fun '(i, v) => if v =? FREE_SECTOR then negb (memN i mown) else memN i mown) (index_from mf 0)) then 44 else
  0
  end end end end end end end end end end end end.

Definition wf_b (bytes : list byte) : bool := wf_check bytes =? 0.
