(* Tree.v — the abstract specification of C01: a tree of storages holding
   case-insensitively unique names whose leaves are byte vectors, and the result
   of every public operation on it.  Shares with the model only Names.v (the name
   order, validation and path normalisation, which are themselves specified by
   the theorems of C09) and Time.v (C17); none of the table / chain mechanics. *)
From Cfb.model Require Import Base Names Time.
From Cfb.gen Require Import Consts.
Open Scope N_scope.

Record meta := mkMeta { m_clsid : N; m_state : N; m_ctime : N; m_mtime : N }.

(* a stream has state bits and bytes; a storage has metadata and children kept
   sorted by the CFB order *)
Inductive node :=
| Leaf (state : N) (bytes : list byte)
| Dir (m : meta) (kids : list (name * node)).

Definition is_leaf (n : node) := match n with Leaf _ _ => true | Dir _ _ => false end.

(* ---- children ---- *)
Fixpoint find_kid (nm : name) (kids : list (name * node)) : option (name * node) :=
  match kids with
  | [] => None
  | (k, n) :: t => match cmp_names nm k with Eq => Some (k, n) | _ => find_kid nm t end
  end.

Fixpoint insert_kid (nm : name) (n : node) (kids : list (name * node)) : list (name * node) :=
  match kids with
  | [] => [(nm, n)]
  | (k, x) :: t =>
    match cmp_names nm k with
    | Lt => (nm, n) :: kids
    | _ => (k, x) :: insert_kid nm n t
    end
  end.

Fixpoint remove_kid (nm : name) (kids : list (name * node)) : list (name * node) :=
  match kids with
  | [] => []
  | (k, x) :: t => match cmp_names nm k with Eq => t | _ => (k, x) :: remove_kid nm t end
  end.

Fixpoint replace_kid (nm : name) (n : node) (kids : list (name * node)) : list (name * node) :=
  match kids with
  | [] => []
  | (k, x) :: t => match cmp_names nm k with Eq => (k, n) :: t | _ => (k, x) :: replace_kid nm n t end
  end.

(* ---- addressing by name chain ---- *)
Fixpoint get (t : node) (names : list name) : option node :=
  match names with
  | [] => Some t
  | nm :: rest =>
    match t with
    | Leaf _ _ => None
    | Dir _ kids => match find_kid nm kids with Some (_, c) => get c rest | None => None end
    end
  end.

(* apply f to the node at names (which must exist) *)
Fixpoint update (t : node) (names : list name) (f : node -> node) : node :=
  match names with
  | [] => f t
  | nm :: rest =>
    match t with
    | Leaf _ _ => t
    | Dir m kids =>
      match find_kid nm kids with
      | Some (_, c) => Dir m (replace_kid nm (update c rest f) kids)
      | None => t
      end
    end
  end.

(* ---- entries ---- *)
Inductive etype := EStorage | EStream | ERoot.
Record sentry := mkSEntry {
  se_name : name; se_path : list N; se_type : etype; se_clsid : N; se_state : N;
  se_ctime : N; se_mtime : N; se_len : N
}.

Definition entry_for (is_root : bool) (nm : name) (path : list N) (n : node) : sentry :=
  match n with
  | Leaf st bs => mkSEntry nm path EStream 0 st 0 0 (lenN bs)
  | Dir m _ => mkSEntry nm path (if is_root then ERoot else EStorage) (m_clsid m) (m_state m) (m_ctime m) (m_mtime m) 0
  end.

Definition list_kids (parent : list N) (kids : list (name * node)) : list sentry :=
  map (fun '(k, n) => entry_for false k (path_join parent k) n) kids.

(* pre-order walk; the tree is finite so structural recursion through the nested
   list needs a local fixpoint *)
Fixpoint walk_node (is_root : bool) (nm : name) (path : list N) (n : node) : list sentry :=
  entry_for is_root nm path n ::
  match n with
  | Leaf _ _ => []
  | Dir _ kids =>
    (fix go (l : list (name * node)) : list sentry :=
       match l with
       | [] => []
       | (k, c) :: t => walk_node false k (path_join path k) c ++ go t
       end) kids
  end.

(* stored spelling of the last name of an existing path *)
Fixpoint stored_name (t : node) (names : list name) (dflt : name) : name :=
  match names with
  | [] => dflt
  | nm :: rest =>
    match t with
    | Leaf _ _ => dflt
    | Dir _ kids => match find_kid nm kids with Some (k, c) => stored_name c rest k | None => dflt end
    end
  end.

(* ---- operations ---- *)
Inductive sop :=
| SCreateStorage (p : list N) | SCreateStorageAll (p : list N)
| SRemoveStorage (p : list N) | SRemoveStorageAll (p : list N)
| SCreateStream (p : list N) (overwrite : bool)      (* create_stream / create_new_stream: a new empty stream, or truncation *)
| SAppend (p : list N) (bs : list byte)              (* bytes accepted by a sequential write on the handle just created *)
| SOpenStream (p : list N)
| SRemoveStream (p : list N)
| SSetClsid (p : list N) (g : N) | SSetState (p : list N) (bits : N)
| SSetCreated (p : list N) (before : bool) (secs nanos : N)
| SSetModified (p : list N) (before : bool) (secs nanos : N)
| SExists (p : list N) | SIsStream (p : list N) | SIsStorage (p : list N)
| SEntry (p : list N) | SRootEntry | SReadStorage (p : list N) | SReadRoot
| SWalk | SWalkStorage (p : list N)
| SCat (p : list N)
| SReopen.

Inductive svalue :=
| SVUnit | SVBool (b : bool) | SVBytes (bs : list byte)
| SVEntry (e : sentry) | SVEntries (es : list sentry).

Definition new_dir (now : N) : node := Dir (mkMeta 0 0 now now) [].
Definition root_path : list N := [SLASH].

Definition parent_of (names : list name) := pop_last names.

(* creation of a storage at an absent path *)
Definition create_storage_at (t : node) (names : list name) (now : N) : node * res svalue :=
  match get t names with
  | Some _ => (t, Err EAlreadyExists)
  | None =>
    match lastN names with
    | None => (t, Err EAlreadyExists)
    | Some nm =>
      match validate_name nm with
      | Ok _ =>
        match get t (parent_of names) with
        | None => (t, Err ENotFound)
        | Some (Leaf _ _) => (t, Err EInvalidInput)
        | Some (Dir _ _) =>
          (update t (parent_of names)
             (fun p => match p with Dir m kids => Dir m (insert_kid nm (new_dir now) kids) | x => x end),
           Ok SVUnit)
        end
      | _ => (t, Err EInvalidInput)
      end
    end
  end.

Fixpoint all_valid (names : list name) : bool :=
  match names with
  | [] => true
  | n :: t => match validate_name n with Ok _ => all_valid t | _ => false end
  end.

Fixpoint create_all (t : node) (prefixes : list (list name)) (now : N) : node * res svalue :=
  match prefixes with
  | [] => (t, Ok SVUnit)
  | pre :: rest =>
    match get t pre with
    | Some (Dir _ _) => create_all t rest now
    | _ =>
      match create_storage_at t pre now with
      | (t', Ok _) => create_all t' rest now
      | other => other
      end
    end
  end.

Fixpoint prefixes {A} (l : list A) (acc : list A) : list (list A) :=
  match l with
  | [] => []
  | x :: r => (acc ++ [x]) :: prefixes r (acc ++ [x])
  end.

Definition remove_at (t : node) (names : list name) : node :=
  match lastN names with
  | None => t
  | Some nm =>
    update t (parent_of names)
      (fun p => match p with Dir m kids => Dir m (remove_kid nm kids) | x => x end)
  end.

Definition with_names (t : node) (p : list N) (k : list name -> node * res svalue) : node * res svalue :=
  match name_chain_from_path p with
  | Ok names => k names
  | _ => (t, Err EInvalidInput)
  end.

Definition spec_step (t : node) (now : N) (o : sop) : node * res svalue :=
  match o with
  | SCreateStorage p => with_names t p (fun names => create_storage_at t names now)
  | SCreateStorageAll p => with_names t p (fun names =>
      if all_valid names then create_all t (prefixes names []) now else (t, Err EInvalidInput))
  | SRemoveStorage p => with_names t p (fun names =>
      match get t names with
      | None => (t, Err ENotFound)
      | Some (Leaf _ _) => (t, Err EInvalidInput)
      | Some (Dir _ kids) =>
        match names with
        | [] => (t, Err EInvalidInput)
        | _ => match kids with [] => (remove_at t names, Ok SVUnit) | _ => (t, Err EInvalidInput) end
        end
      end)
  | SRemoveStorageAll p => with_names t p (fun names =>
      match get t names with
      | None => (t, Err ENotFound)
      | Some n =>
        match names with
        | [] => (match t with Dir m _ => Dir m [] | x => x end, Ok SVUnit)
        | _ => (remove_at t names, Ok SVUnit)
        end
      end)
  | SCreateStream p overwrite => with_names t p (fun names =>
      match get t names with
      | Some (Dir _ _) => (t, Err EAlreadyExists)
      | Some (Leaf st _) =>
        if overwrite then (update t names (fun _ => Leaf st []), Ok SVUnit) else (t, Err EAlreadyExists)
      | None =>
        match lastN names with
        | None => (t, Err EAlreadyExists)
        | Some nm =>
          match validate_name nm with
          | Ok _ =>
            match get t (parent_of names) with
            | None => (t, Err ENotFound)
            | Some (Leaf _ _) => (t, Err EInvalidInput)
            | Some (Dir _ _) =>
              (update t (parent_of names)
                 (fun p => match p with Dir m kids => Dir m (insert_kid nm (Leaf 0 []) kids) | x => x end),
               Ok SVUnit)
            end
          | _ => (t, Err EInvalidInput)
          end
        end
      end)
  | SAppend p bs => with_names t p (fun names =>
      match get t names with
      | Some (Leaf st old) => (update t names (fun _ => Leaf st (old ++ bs)), Ok SVUnit)
      | _ => (t, Err ENotFound)
      end)
  | SOpenStream p => with_names t p (fun names =>
      match get t names with
      | None => (t, Err ENotFound)
      | Some (Dir _ _) => (t, Err EInvalidInput)
      | Some (Leaf _ _) => (t, Ok SVUnit)
      end)
  | SRemoveStream p => with_names t p (fun names =>
      match get t names with
      | None => (t, Err ENotFound)
      | Some (Dir _ _) => (t, Err EInvalidInput)
      | Some (Leaf _ _) => (remove_at t names, Ok SVUnit)
      end)
  | SSetClsid p g => with_names t p (fun names =>
      match get t names with
      | None => (t, Err ENotFound)
      | Some (Leaf _ _) => (t, Err EInvalidInput)
      | Some (Dir _ _) =>
        (update t names (fun n => match n with
                                  | Dir m k => Dir (mkMeta g (m_state m) (m_ctime m) (m_mtime m)) k
                                  | x => x end), Ok SVUnit)
      end)
  | SSetState p bits => with_names t p (fun names =>
      match get t names with
      | None => (t, Err ENotFound)
      | Some _ =>
        (update t names (fun n => match n with
                                  | Dir m k => Dir (mkMeta (m_clsid m) bits (m_ctime m) (m_mtime m)) k
                                  | Leaf _ bs => Leaf bits bs end), Ok SVUnit)
      end)
  | SSetCreated p before secs nanos => with_names t p (fun names =>
      match get t names with
      | None => (t, Err ENotFound)
      | Some _ =>
        (update t names (fun n => match n with
                                  | Dir m k => Dir (mkMeta (m_clsid m) (m_state m) (from_system_time before secs nanos) (m_mtime m)) k
                                  | x => x end), Ok SVUnit)
      end)
  | SSetModified p before secs nanos => with_names t p (fun names =>
      match get t names with
      | None => (t, Err ENotFound)
      | Some _ =>
        (update t names (fun n => match n with
                                  | Dir m k => Dir (mkMeta (m_clsid m) (m_state m) (m_ctime m) (from_system_time before secs nanos)) k
                                  | x => x end), Ok SVUnit)
      end)
  | SExists p =>
      (t, Ok (SVBool (match name_chain_from_path p with
                      | Ok names => match get t names with Some _ => true | None => false end
                      | _ => false end)))
  | SIsStream p =>
      (t, Ok (SVBool (match name_chain_from_path p with
                      | Ok names => match get t names with Some n => is_leaf n | None => false end
                      | _ => false end)))
  | SIsStorage p =>
      (t, Ok (SVBool (match name_chain_from_path p with
                      | Ok names => match get t names with Some n => negb (is_leaf n) | None => false end
                      | _ => false end)))
  | SEntry p => with_names t p (fun names =>
      match get t names with
      | None => (t, Err ENotFound)
      | Some n =>
        (t, Ok (SVEntry (entry_for (match names with [] => true | _ => false end)
                                   (stored_name t names ROOT_DIR_NAME) (path_from_name_chain names) n)))
      end)
  | SRootEntry => (t, Ok (SVEntry (entry_for true ROOT_DIR_NAME root_path t)))
  | SReadStorage p => with_names t p (fun names =>
      match get t names with
      | None => (t, Err ENotFound)
      | Some (Leaf _ _) => (t, Err EInvalidInput)
      | Some (Dir _ kids) => (t, Ok (SVEntries (list_kids (path_from_name_chain names) kids)))
      end)
  | SReadRoot =>
      (t, Ok (SVEntries (match t with Dir _ kids => list_kids root_path kids | _ => [] end)))
  | SWalk => (t, Ok (SVEntries (walk_node true ROOT_DIR_NAME root_path t)))
  | SWalkStorage p => with_names t p (fun names =>
      match get t names with
      | None => (t, Err ENotFound)
      | Some n =>
        match names with
        | [] => (t, Ok (SVEntries (walk_node true ROOT_DIR_NAME root_path t)))
        | _ =>
          let nm := stored_name t names ROOT_DIR_NAME in
          (t, Ok (SVEntries (walk_node false nm (path_join (path_from_name_chain (parent_of names)) nm) n)))
        end
      end)
  | SCat p => with_names t p (fun names =>
      match get t names with
      | None => (t, Err ENotFound)
      | Some (Dir _ _) => (t, Err EInvalidInput)
      | Some (Leaf _ bs) => (t, Ok (SVBytes bs))
      end)
  | SReopen => (t, Ok SVUnit)
  end.

Definition empty_tree : node := Dir (mkMeta 0 0 0 0) [].
