(* VecSpec.v — the specification side of the buffered stream handle (model/Handle.v):
   * the contract assumed of the store layer below the handle (store_contract);
   * the representation invariant HInv and the abstraction absV of a handle over a
     store whose stream currently holds the bytes V;
   * the Read / BufRead / Write / Seek / set_len / flush contract, phrased on an
     abstract pair (A, c) = (a growable byte vector, a cursor), sharing no
     mechanics with the handle (no buffer, no window, no dirty marker);
   * a trace language (hop), its run on the model, and its run on the contract;
   * the looping forms read_exact / read_to_end / write_all on the model (by fuel).
   No proofs live here; proofs/HandleProofs.v proves that the model refines the
   contract for every store satisfying store_contract. *)
From Cfb.model Require Import Base Handle.
From Cfb.gen Require Import Consts.
Open Scope N_scope.

(* ------------------------------------------------------------------------- *)
(* The Vec + cursor contract (pure; bytes are arbitrary N)                   *)
(* ------------------------------------------------------------------------- *)

(* Seek target, computed over Z from the vector length and the cursor.
   Start offsets are u64 in Rust, hence the Z.to_N clamp (a negative Start
   offset is not expressible).  None = target outside [0, len]. *)
Definition seek_spec (len c : N) (w : whence) (z : Z) : option N :=
  let t := (match w with
            | WStart => Z.of_N (Z.to_N z)
            | WEnd => Z.of_N len + z
            | WCur => Z.of_N c + z
            end)%Z in
  if ((0 <=? t) && (t <=? Z.of_N len))%Z then Some (Z.to_N t) else None.

(* Every post-condition relates the abstract state before (A, c), the abstract
   state after (A', c') and the value returned. *)
Definition read_post (n : N) (A : list byte) (c : N) (A' : list byte) (c' : N) (bs : list byte) : Prop :=
  A' = A /\ c' = c + lenN bs /\ bs = takeN (lenN bs) (dropN c A) /\
  (lenN bs = 0 <-> n = 0 \/ c = lenN A) /\ lenN bs <= n.

Definition fill_post (A : list byte) (c : N) (A' : list byte) (c' : N) (bs : list byte) : Prop :=
  A' = A /\ c' = c /\ bs = takeN (lenN bs) (dropN c A) /\ (bs = [] <-> c = lenN A).

Definition consume_post (k : N) (A : list byte) (c : N) (A' : list byte) (c' : N) (_ : unit) : Prop :=
  A' = A /\ c' = c + k.

Definition write_post (bs : list byte) (A : list byte) (c : N) (A' : list byte) (c' : N) (k : N) : Prop :=
  (k = 0 <-> bs = []) /\ k <= lenN bs /\ A' = spliceN A c (takeN k bs) /\ c' = c + k.

Definition seek_post (w : whence) (z : Z) (A : list byte) (c : N) (A' : list byte) (c' : N) (np : N) : Prop :=
  seek_spec (lenN A) c w z = Some np /\ A' = A /\ c' = np.

Definition set_len_post (n : N) (A : list byte) (c : N) (A' : list byte) (c' : N) (_ : unit) : Prop :=
  A' = takeN n A ++ repeatN 0 (n - lenN A) /\ c' = N.min c n.

Definition flush_post (A : list byte) (c : N) (A' : list byte) (c' : N) (_ : unit) : Prop :=
  A' = A /\ c' = c.

(* ------------------------------------------------------------------------- *)
(* Representation invariant and abstraction                                   *)
(* ------------------------------------------------------------------------- *)

(* V is what the store holds for the stream; the handle h buffers a window
   [h_off, h_off + b_cap) of the abstract vector, possibly with unwritten data. *)
Record HInv (V : list byte) (h : handle) : Prop := mkHInv {
  hi_pos_cap : b_pos (h_buf h) <= b_cap (h_buf h);
  hi_cap_len : b_cap (h_buf h) <= lenN (b_data (h_buf h));
  hi_min     : STREAM_BUFFER_MIN <= lenN (b_data (h_buf h));
  hi_max     : lenN (b_data (h_buf h)) <= b_max (h_buf h);
  hi_off     : h_off h <= lenN V;
  hi_len     : lenN V <= h_total h;
  hi_win     : h_off h + b_cap (h_buf h) <= h_total h;
  hi_clean   : h_dirty h = false ->
               lenN V = h_total h /\
               takeN (b_cap (h_buf h)) (b_data (h_buf h)) =
               takeN (b_cap (h_buf h)) (dropN (h_off h) V);
  hi_dirty   : h_dirty h = true ->
               h_total h = N.max (lenN V) (h_off h + b_cap (h_buf h))
}.

Definition absV (h : handle) (V : list byte) : list byte :=
  if h_dirty h then spliceN V (h_off h) (buf_filled (h_buf h)) else V.

(* ------------------------------------------------------------------------- *)
(* Trace language                                                             *)
(* ------------------------------------------------------------------------- *)

Inductive hop :=
| HRead (n : N) | HFill | HConsume (k : N) | HWrite (bs : list byte)
| HSeek (w : whence) (z : Z) | HSetLen (n : N) | HFlush | HLen | HPos.

(* observable outcome of one operation; OSkip = a consume larger than what the
   buffer holds was not issued (it would violate BufRead's precondition);
   OBad = Panic or OutOfFuel *)
Inductive hout :=
| OBytes (l : list byte) | ONum (n : N) | OUnit | OSkip | OErr (k : ekind) | OBad.

Definition out_of {X} (f : X -> hout) (r : res X) : hout :=
  match r with Ok x => f x | Err k => OErr k | Panic _ => OBad | OutOfFuel => OBad end.

(* operations that touch the store and may therefore report an I/O error *)
Definition fallible (o : hop) : bool :=
  match o with
  | HRead _ | HFill | HWrite _ | HSeek _ _ | HSetLen _ | HFlush => true
  | HConsume _ | HLen | HPos => false
  end.

(* One step of the contract.  An I/O error leaves (A, c) untouched; a seek
   whose target is out of range can only answer Err EInvalidInput; Panic /
   OutOfFuel (OBad) is never permitted. *)
Inductive cstep : list byte * N -> hop -> hout -> list byte * N -> Prop :=
| cs_read A c n bs A' c' :
    read_post n A c A' c' bs -> cstep (A, c) (HRead n) (OBytes bs) (A', c')
| cs_fill A c bs A' c' :
    fill_post A c A' c' bs -> cstep (A, c) HFill (OBytes bs) (A', c')
| cs_consume A c k :
    c + k <= lenN A -> cstep (A, c) (HConsume k) OUnit (A, c + k)
| cs_consume_skip A c k :
    cstep (A, c) (HConsume k) OSkip (A, c)
| cs_write A c bs k A' c' :
    write_post bs A c A' c' k -> cstep (A, c) (HWrite bs) (ONum k) (A', c')
| cs_seek A c w z np A' c' :
    seek_post w z A c A' c' np -> cstep (A, c) (HSeek w z) (ONum np) (A', c')
| cs_set_len A c n A' c' :
    set_len_post n A c A' c' tt -> cstep (A, c) (HSetLen n) OUnit (A', c')
| cs_flush A c :
    cstep (A, c) HFlush OUnit (A, c)
| cs_len A c :
    cstep (A, c) HLen (ONum (lenN A)) (A, c)
| cs_pos A c :
    cstep (A, c) HPos (ONum c) (A, c)
| cs_err A c o k :
    fallible o = true ->
    (forall w z, o = HSeek w z -> seek_spec (lenN A) c w z = None -> k = EInvalidInput) ->
    cstep (A, c) o (OErr k) (A, c).

Inductive cruns : list byte * N -> list hop -> list hout -> list byte * N -> Prop :=
| cr_nil st : cruns st [] [] st
| cr_cons st o r st1 os rs st2 :
    cstep st o r st1 -> cruns st1 os rs st2 -> cruns st (o :: os) (r :: rs) st2.

(* ------------------------------------------------------------------------- *)
(* The store contract and the shape of the refinement statements              *)
(* ------------------------------------------------------------------------- *)
Section Contract.
Variable St : Type.
Variable read_data : N -> N -> N -> St -> St * res (list byte).
Variable write_data : N -> N -> list byte -> St -> St * res unit.
Variable resize : N -> N -> St -> St * res unit.
Variable stream_len : N -> St -> St * res N.
(* content s id V: in store state s the stream id holds exactly the bytes V *)
Variable content : St -> N -> list byte -> Prop.

(* (1) the length lookup is pure and exact *)
Definition stream_len_contract : Prop :=
  forall s id V, content s id V -> stream_len id s = (s, Ok (lenN V)).

(* (2) a read does not change the stream content (it may change the state: the
   backend cursor moves); it returns exactly the requested slice, shortened at
   the end of the stream, or fails with an I/O error.  It never panics.  The
   handle only ever reads strictly inside the stream with a non-empty buffer,
   so nothing is assumed about off >= lenN V or n = 0. *)
Definition read_data_contract : Prop :=
  forall s id V off n, content s id V -> off < lenN V -> 0 < n ->
  exists s' r, read_data id off n s = (s', r) /\ content s' id V /\
    (r = Ok (takeN (N.min n (lenN V - off)) (dropN off V)) \/ exists k, r = Err k).

(* (3) a write at off <= lenN V either happens completely, or fails leaving a
   content V' that agrees with V outside the written range [off, off+lenN buf):
   same prefix before off and same suffix from off + lenN buf on.  (This implies
   lenN V' = lenN V when the range is interior, and lenN V' <= off + lenN buf
   when the range reaches the end: a torn write may have extended the stream,
   partially or fully, and may have written any part of buf.)  Never panics. *)
Definition write_data_contract : Prop :=
  forall s id V off buf, content s id V -> off <= lenN V ->
  exists s' r, write_data id off buf s = (s', r) /\
    ((r = Ok tt /\ content s' id (spliceN V off buf)) \/
     (exists k V', r = Err k /\ content s' id V' /\
        takeN off V' = takeN off V /\
        dropN (off + lenN buf) V' = dropN (off + lenN buf) V)).

(* (4) resize truncates or zero-extends; ASSUMPTION: a failed resize is
   failure-atomic (the stream content is what it was).  Never panics. *)
Definition resize_contract : Prop :=
  forall s id V n, content s id V ->
  exists s' r, resize id n s = (s', r) /\
    ((r = Ok tt /\ content s' id (takeN n V ++ repeatN 0 (n - lenN V))) \/
     (exists k, r = Err k /\ content s' id V)).

Record store_contract : Prop := mkSC {
  sc_len : stream_len_contract;
  sc_read : read_data_contract;
  sc_write : write_data_contract;
  sc_resize : resize_contract
}.

(* Uniform shape of the per-operation theorems: from a store holding V for the
   stream and a handle h with HInv V h, the outcome (s', (h', r)) of an operation
   - is never Panic / OutOfFuel;
   - if Ok x: the store holds some V', HInv V' h', and the abstract states
     (absV h V, h_position h) -> (absV h' V', h_position h') and x satisfy post;
   - if Err k: the store holds some V', HInv V' h', and nothing observable
     changed: absV h' V' = absV h V and the cursor is where it was. *)
Definition op_refines {X} (id : N)
  (post : list byte -> N -> list byte -> N -> X -> Prop)
  (V : list byte) (h : handle) (out : St * (handle * res X)) : Prop :=
  let '(s', (h', r)) := out in
  h_id h' = id /\
  match r with
  | Ok x => exists V', content s' id V' /\ HInv V' h' /\
              post (absV h V) (h_position h) (absV h' V') (h_position h') x
  | Err k => exists V', content s' id V' /\ HInv V' h' /\
              absV h' V' = absV h V /\ h_position h' = h_position h
  | Panic _ => False
  | OutOfFuel => False
  end.

(* The simulation relation of the trace theorem: the handle h over store state s
   represents the abstract state st = (A, c). *)
Definition handle_rel (id : N) (s : St) (h : handle) (st : list byte * N) : Prop :=
  h_id h = id /\
  exists V, content s id V /\ HInv V h /\ absV h V = fst st /\ h_position h = snd st.

(* ---- running a trace on the model ---- *)
Definition run_op (h : handle) (o : hop) (s : St) : St * (handle * hout) :=
  match o with
  | HRead n =>
    let '(s', (h', r)) := h_read St read_data write_data stream_len h n s in (s', (h', out_of OBytes r))
  | HFill =>
    let '(s', (h', r)) := h_fill_buf St read_data write_data stream_len h s in (s', (h', out_of OBytes r))
  | HConsume k =>
    if b_pos (h_buf h) + k <=? b_cap (h_buf h)
    then let '(h', r) := h_consume h k in (s, (h', out_of (fun _ => OUnit) r))
    else (s, (h, OSkip))
  | HWrite bs =>
    let '(s', (h', r)) := h_write St write_data stream_len h bs s in (s', (h', out_of ONum r))
  | HSeek w z =>
    let '(s', (h', r)) := h_seek St write_data stream_len h w z s in (s', (h', out_of ONum r))
  | HSetLen n =>
    let '(s', (h', r)) := h_set_len St write_data resize stream_len h n s in (s', (h', out_of (fun _ => OUnit) r))
  | HFlush =>
    let '(s', (h', r)) := h_flush St write_data stream_len h s in (s', (h', out_of (fun _ => OUnit) r))
  | HLen => (s, (h, ONum (h_total h)))
  | HPos => (s, (h, ONum (h_position h)))
  end.

Fixpoint run_ops (h : handle) (os : list hop) (s : St) : St * (handle * list hout) :=
  match os with
  | [] => (s, (h, []))
  | o :: t =>
    let '(s1, (h1, r)) := run_op h o s in
    let '(s2, (h2, rs)) := run_ops h1 t s1 in
    (s2, (h2, r :: rs))
  end.

(* ---- the looping forms on the model (std::io default methods), by fuel ---- *)
(* read_exact: loop { read(&mut buf[got..]) ; 0 => UnexpectedEof } *)
Fixpoint read_exact_f (fuel : nat) (h : handle) (n : N) (acc : list byte) (s : St)
  : St * (handle * res (list byte)) :=
  if n =? 0 then (s, (h, Ok acc)) else
  match fuel with
  | O => (s, (h, OutOfFuel))
  | S f =>
    match h_read St read_data write_data stream_len h n s with
    | (s1, (h1, Ok bs)) =>
      if lenN bs =? 0 then (s1, (h1, Err EUnexpectedEof))
      else read_exact_f f h1 (n - lenN bs) (acc ++ bs) s1
    | (s1, (h1, Err k)) => (s1, (h1, Err k))
    | (s1, (h1, Panic p)) => (s1, (h1, Panic p))
    | (s1, (h1, OutOfFuel)) => (s1, (h1, OutOfFuel))
    end
  end.

(* read_to_end: read chunks of at most [chunk] bytes until a read returns 0 *)
Fixpoint read_to_end_f (fuel : nat) (chunk : N) (h : handle) (acc : list byte) (s : St)
  : St * (handle * res (list byte)) :=
  match fuel with
  | O => (s, (h, OutOfFuel))
  | S f =>
    match h_read St read_data write_data stream_len h chunk s with
    | (s1, (h1, Ok bs)) =>
      if lenN bs =? 0 then (s1, (h1, Ok acc))
      else read_to_end_f f chunk h1 (acc ++ bs) s1
    | (s1, (h1, Err k)) => (s1, (h1, Err k))
    | (s1, (h1, Panic p)) => (s1, (h1, Panic p))
    | (s1, (h1, OutOfFuel)) => (s1, (h1, OutOfFuel))
    end
  end.

(* write_all: loop { write(buf) ; 0 => WriteZero ; n => buf = &buf[n..] } *)
Fixpoint write_all_f (fuel : nat) (h : handle) (bs : list byte) (s : St)
  : St * (handle * res unit) :=
  match bs with
  | [] => (s, (h, Ok tt))
  | _ :: _ =>
    match fuel with
    | O => (s, (h, OutOfFuel))
    | S f =>
      match h_write St write_data stream_len h bs s with
      | (s1, (h1, Ok k)) =>
        if k =? 0 then (s1, (h1, Err EWriteZero))
        else write_all_f f h1 (dropN k bs) s1
      | (s1, (h1, Err e)) => (s1, (h1, Err e))
      | (s1, (h1, Panic p)) => (s1, (h1, Panic p))
      | (s1, (h1, OutOfFuel)) => (s1, (h1, OutOfFuel))
      end
    end
  end.

End Contract.
