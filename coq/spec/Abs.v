(* Abs.v — the abstraction function from the model's state to the abstract tree
   of spec/Tree.v: follow child / left / right through the directory table and
   read every stream through its chain.  Executable (fuel = table length), so
   the correspondence check can evaluate it on every reached state. *)
From Cfb.model Require Import Base Names DirEnt State Alloc Dir Mini Store.
From Cfb.spec Require Import Tree.
From Cfb.gen Require Import Consts.
Open Scope N_scope.

Definition stream_bytes (s : cstate) (id : N) (len : N) : res (list byte) :=
  match read_data id 0 len s with
  | (_, r) => r
  end.

(* in-order list of the sibling tree rooted at id, each child abstracted *)
Fixpoint abs_sibs (fuel : nat) (s : cstate) (id : N) : res (list (name * node)) :=
  match fuel with
  | O => OutOfFuel
  | S f =>
    if id =? NO_STREAM then Ok [] else
    rbind (dir_entry_of (dirs s) id) (fun e =>
    rbind (abs_sibs f s (d_left e)) (fun l =>
    rbind (match d_type e with
           | TStream => rbind (stream_bytes s id (d_len e)) (fun bs => Ok (Leaf (d_state e) bs))
           | _ => rbind (abs_sibs f s (d_child e)) (fun kids =>
                  Ok (Dir (mkMeta (d_clsid e) (d_state e) (d_ctime e) (d_mtime e)) kids))
           end) (fun n =>
    rbind (abs_sibs f s (d_right e)) (fun r =>
    Ok (l ++ (d_name e, n) :: r)))))
  end.

Definition abs_state (s : cstate) : res node :=
  rbind (dir_entry_of (dirs s) ROOT_STREAM_ID) (fun e =>
  rbind (abs_sibs (S (length (dirs s))) s (d_child e)) (fun kids =>
  Ok (Dir (mkMeta (d_clsid e) (d_state e) (d_ctime e) (d_mtime e)) kids))).
