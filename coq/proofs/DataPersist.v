(* DataPersist.v -- property C02 "write-through persistence" for the operations
   that MOVE STREAM DATA.

   PersistProofs.v / Progress.v prove the reopen round trip along histories of
   namespace and metadata calls (streams stay empty).  This file extends the
   round trip to stream writes and resizes that allocate nothing (the
   [CoveredWrite] / [CoveredResize] cases of HandleFrame.v), at the store
   level and through the buffered handle.

   Sections (in file order):
     0   small facts
     1   [Coherent] = [CoreCoh] (no word about the directory table) +
         [DirPart]; a step that changes sectors of a set X only ([dframe X])
         keeps [CoreCoh] when X avoids the FAT sectors and the MiniFAT chain,
         and keeps [DirCoherent] when X avoids the directory chain and the
         cached table is unchanged
     2   Directory::validate does not look at start / length of a non-root
         entry; the write-back of a stream's entry keeps [Coherent]
     3   two-phase form of the four covered store cases (data sectors, then
         the entry) with the header sector untouched
     4   [CohData] and its preservation by write_data / resize
     5   the stream contents survive the reopen
     7a  the round trip after one covered store call, new content visible in
         the reopened state
     6   through the handle ([hop_run], [step]): every covered handle
         operation keeps [CohData]; flush / drop put the buffered bytes on disk
     11  metadata calls (set_state, set_clsid, set_created, set_modified) on
         files that hold data
     7b  histories of handle operations, metadata calls and queries
     9   growth of a large stream into sectors of the free stack (FAT cells
         change): [FR], [FR_coherent], [FreeClean], resize_big_reuse_coherent
     10  growth of a large stream at the end of the file (the file grows):
         extend_chain_append_coherent, resize_big_append_coherent
     8   non-vacuity (HandleFrame's two-stream example)
   Stdlib only; no axioms; every proof is complete. *)
From Coq Require Import List NArith ZArith Lia Bool ZifyN ZifyBool Permutation.
From Cfb.model Require Import Base Names Time DirEnt State Alloc Dir Mini Store Handle Open Cfb.
From Cfb.gen Require Import Consts.
From Cfb.proofs Require Import DirProofs ChainProofs.
From Cfb.proofs Require CodecProofs WalkProofs ReuseProofs CoherenceProofs DirCoherence
                        ReopenProofs MutRefine PersistProofs StoreProofs StoreMiniProofs
                        MiniChainProofs HandleFrame TimeProofs QueryRefine.
Import ListNotations.
Open Scope N_scope.

Ltac Zify.zify_post_hook ::= Z.div_mod_to_equations.

Import ReopenProofs PersistProofs.

(* ================================================================== *)
(* 0. small facts                                                      *)
(* ================================================================== *)

Definition avoids (X l : list N) : Prop := forall x, In x X -> ~ In x l.

Lemma avoids_app : forall X Y l, avoids X l -> avoids Y l -> avoids (X ++ Y) l.
Proof. intros X Y l H1 H2 x Hx. apply in_app_or in Hx. destruct Hx; auto. Qed.

Lemma dframe_weaken : forall X Y s s',
  (forall x, In x X -> In x Y) -> dframe X s s' -> dframe Y s s'.
Proof.
  intros X Y s s' Hsub (F1 & F2 & F3 & F4 & F5 & F6 & F7 & F8 & F9 & F10 & F11 & F12 & F13 & F14 & F15).
  unfold dframe. repeat split; try assumption.
  intros x Hx. apply F13. intro Hin. apply Hx. apply Hsub. exact Hin.
Qed.

(* ================================================================== *)
(* 1. Coherent = CoreCoh + DirPart; frames                             *)
(* ================================================================== *)

(* everything in [Coherent] that does not mention the directory table *)
Record CoreCoh (s : cstate) : Prop := mkCoreCoh {
  cc_hdr : HeaderCoherent s;
  cc_fat : CoherenceProofs.FatInv s;
  cc_difat_ok : CoherenceProofs.DifatOk s;
  cc_ids : difat_ids s = [];
  cc_ndifat : lenN (difat s) <= NUM_DIFAT_HDR;
  cc_nsect : nsect s <= MAX_REGULAR_SECTOR;
  cc_uniform : uniform (slen s) (img s);
  cc_fat_tail : FatTailFree s;
  cc_marks : forall f, In f (difat s) -> nthN (fat s) f = Some FAT_SECTOR;
  cc_fat_valid : check_pointees false (fat s) (lenN (fat s)) [] = Ok tt;
  cc_mini : DirCoherence.MiniFatCoherent s;
  cc_mini_tail : MiniTailFree s;
  cc_mini_last : lastN (minifat s) <> Some FREE_SECTOR;
  cc_mini_valid : check_pointees true (minifat s) (lenN (minifat s)) [] = Ok tt
}.

(* ... and what does *)
Record DirPart (s : cstate) : Prop := mkDirPart {
  dp_dir : DirCoherence.DirCoherent s;
  dp_wf : forall e, In e (dirs s) -> CodecProofs.dirent_wf (ver s) e;
  dp_valid : dir_validate true (dirs s) = Ok tt;
  dp_fits : forall root, nthN (dirs s) 0 = Some root ->
            lenN (minifat s) <= d_len root / MINI_SECTOR_LEN
}.

Lemma Coherent_split : forall s, Coherent s <-> CoreCoh s /\ DirPart s.
Proof.
  intro s. split.
  - intros [H1 H2 H3 H4 H5 H6 H7 H8 H9 H10 H11 H12 H13 H14 H15 H16 H17 H18].
    split; constructor; assumption.
  - intros [[H1 H2 H3 H4 H5 H6 H7 H8 H9 H10 H14 H15 H16 H18] [H11 H12 H13 H17]].
    constructor; assumption.
Qed.

(* a step that rewrites sectors of X only keeps the non-directory part, as long
   as X contains no FAT sector and no MiniFAT sector *)
Theorem core_dframe : forall X s s',
  CoreCoh s -> dframe X s s' ->
  avoids X (difat s) ->
  (forall mids, DirCoherence.minifat_ids s mids -> avoids X mids) ->
  CoreCoh s'.
Proof.
  intros X s s' B F Hfatdisj Hminidisj.
  pose proof (dframe_slen _ _ _ F) as Hsl.
  pose proof F as (F1 & F2 & F3 & F4 & F5 & F6 & F7 & F8 & F9 & F10 & F11 & F12 & F13 & F14 & F15).
  destruct B as [Bh Bf Bd Bi Bn Bs Bu Bt Bm Bv Bmi Bmt Bml Bmv].
  pose proof Bf as [[Ci Cfull Ccoh Cnd Clt] Clen Cpos Ctight].
  assert (Hfps : fat_per_sector s' = fat_per_sector s) by (unfold fat_per_sector; rewrite Hsl; reflexivity).
  assert (HfatS : forall f, In f (difat s) -> sector_bytes s' f = sector_bytes s f).
  { intros f Hf. apply F13. intro Hin. exact (Hfatdisj f Hin Hf). }
  assert (Hmini : forall mids, DirCoherence.minifat_ids s mids ->
            forall x, In x mids -> sector_bytes s' x = sector_bytes s x).
  { intros mids Hm x Hx. apply F13. intro Hin. exact (Hminidisj mids Hm x Hin Hx). }
  constructor.
  - unfold HeaderCoherent in *. rewrite F12, Bh. f_equal. symmetry. apply header_of_ext; assumption.
  - constructor; [constructor|..].
    + rewrite F11, F2. exact Ci.
    + intros x Hx. rewrite F14, Hsl. apply Cfull. rewrite <- F2. exact Hx.
    + apply (CoherenceProofs.coherent_frame s); try assumption; [rewrite F2; lia|].
      intros f Hf _ _. apply HfatS. exact Hf.
    + rewrite F4. exact Cnd.
    + intros f Hf. rewrite F4 in Hf. rewrite F2. apply Clt. exact Hf.
    + rewrite F5, F2. exact Clen.
    + rewrite F2. exact Cpos.
    + rewrite F4, F5, Hfps. exact Ctight.
  - intros d Hd. rewrite F3 in Hd. rewrite F2, F4. apply Bd. exact Hd.
  - congruence.
  - rewrite F4. exact Bn.
  - rewrite F2. exact Bs.
  - destruct (uniform_parts s (slen s) Ci Bu) as [Uh Us].
    rewrite Hsl. apply uniform_of_parts.
    + rewrite F11, F2. exact Ci.
    + rewrite F12. exact Uh.
    + intros x Hx. rewrite F14. apply Us. rewrite <- F2. exact Hx.
  - intros k f m Hk Hm Hge. rewrite F4 in Hk. rewrite Hfps in Hm, Hge. rewrite F5 in Hge.
    rewrite (HfatS f (nthN_In _ _ _ _ Hk)). exact (Bt k f m Hk Hm Hge).
  - intros f Hf. rewrite F4 in Hf. rewrite F5. apply Bm. exact Hf.
  - rewrite F5. exact Bv.
  - destruct Bmi as (mids & M1 & M2 & M3 & M4).
    exists mids. split; [unfold DirCoherence.minifat_ids in *; rewrite F5, F9; exact M1|].
    split; [eapply good_chain_dframe; eassumption|].
    rewrite F8, Hsl. split; [exact M3|].
    rewrite (chain_content_same s s' mids (Hmini mids M1)). exact M4.
  - intros mids Hm i Hi Hfit. unfold DirCoherence.minifat_ids in Hm. rewrite F5, F9 in Hm.
    rewrite F8 in Hi. rewrite Hsl in Hfit.
    rewrite (chain_content_same s s' mids (Hmini mids Hm)). exact (Bmt mids Hm i Hi Hfit).
  - rewrite F8. exact Bml.
  - rewrite F8. exact Bmv.
Qed.

(* the same step keeps the directory table on disk in step with the (unchanged)
   cache when X contains no directory sector *)
Theorem dir_dframe : forall X s s',
  DirCoherence.DirCoherent s -> dframe X s s' -> dirs s' = dirs s ->
  (forall dids, DirCoherence.dir_ids s dids -> avoids X dids) ->
  DirCoherence.DirCoherent s'.
Proof.
  intros X s s' (dids & H1 & H2 & H3 & H4 & H5) F Hd Hdisj.
  pose proof (dframe_slen _ _ _ F) as Hsl.
  pose proof F as (F1 & F2 & F3 & F4 & F5 & F6 & F7 & F8 & F9 & F10 & F11 & F12 & F13 & F14 & F15).
  assert (Hc : chain_content s' dids = chain_content s dids).
  { apply chain_content_same. intros x Hx. apply F13. intro Hin. exact (Hdisj dids H1 x Hin Hx). }
  exists dids. split; [unfold DirCoherence.dir_ids in *; rewrite F5, F7; exact H1|].
  split; [eapply good_chain_dframe; eassumption|].
  rewrite Hd, Hsl. split; [exact H3|].
  unfold DirCoherence.slot_bytes in *. rewrite Hc. split; assumption.
Qed.

Lemma DirPart_dframe : forall X s s',
  DirPart s -> dframe X s s' -> dirs s' = dirs s ->
  (forall dids, DirCoherence.dir_ids s dids -> avoids X dids) ->
  DirPart s'.
Proof.
  intros X s s' [D1 D2 D3 D4] F Hd Hdisj.
  pose proof F as (F1 & _ & _ & _ & _ & _ & _ & F8 & _).
  constructor.
  - eapply dir_dframe; eassumption.
  - rewrite Hd, F1. exact D2.
  - rewrite Hd. exact D3.
  - rewrite Hd, F8. exact D4.
Qed.

(* a chain of the FAT contains no FAT sector *)
Lemma chain_avoids_difat : forall s st ids,
  CoreCoh s -> chain_ids_of (fat s) st = Ok ids -> avoids ids (difat s).
Proof.
  intros s st ids C H x Hx. exact (chain_not_marked s st ids x (cc_marks s C) H Hx).
Qed.

(* ================================================================== *)
(* 2. the write-back of a stream's entry                               *)
(* ================================================================== *)

(* Directory::validate looks at name, type, colour and the three links only
   (and at the length of the ROOT entry) *)
Definition nav_eq (a b : dirent) : Prop :=
  d_name b = d_name a /\ d_type b = d_type a /\ d_color b = d_color a /\
  d_left b = d_left a /\ d_right b = d_right a /\ d_child b = d_child a.

Definition tbl_nav (ds ds' : list dirent) : Prop :=
  lenN ds' = lenN ds /\
  forall j, match nthN ds j, nthN ds' j with
            | Some a, Some b => nav_eq a b
            | None, None => True
            | _, _ => False
            end.

Lemma nav_link_step : forall ds ds' A (g : name -> res A) (lnk : N),
  tbl_nav ds ds' ->
  rbind (dir_entry_of ds' lnk) (fun le => g (d_name le))
  = rbind (dir_entry_of ds lnk) (fun le => g (d_name le)).
Proof.
  intros ds ds' A g lnk [_ H]. specialize (H lnk). unfold dir_entry_of.
  destruct (nthN ds lnk) as [a|], (nthN ds' lnk) as [b|]; try contradiction; cbn [rbind];
    [|reflexivity].
  destruct H as (E & _). rewrite E. reflexivity.
Qed.

Lemma tbl_nav_entry : forall ds ds', tbl_nav ds ds' -> forall j,
  match dir_entry_of ds j, dir_entry_of ds' j with
  | Ok a, Ok b => nav_eq a b
  | Panic n, Panic m => m = n
  | _, _ => False
  end.
Proof.
  intros ds ds' [_ H] j. specialize (H j). unfold dir_entry_of.
  destruct (nthN ds j), (nthN ds' j); try contradiction; [exact H|reflexivity].
Qed.

Lemma dir_dfs_nav : forall ds ds', tbl_nav ds ds' -> forall fuel strict st vis,
  dir_dfs fuel strict ds' st vis = dir_dfs fuel strict ds st vis.
Proof.
  intros ds ds' HT fuel. pose proof HT as [Hlen H].
  induction fuel as [|f IH]; intros strict st vis; [reflexivity|].
  cbn [dir_dfs]. destruct st as [|[id pr] rest]; [reflexivity|].
  destruct (memN id vis); [reflexivity|].
  pose proof (tbl_nav_entry ds ds' HT id) as Hid.
  destruct (dir_entry_of ds id) as [e| |n|], (dir_entry_of ds' id) as [e'| |n'|];
    try contradiction; cbn [rbind]; [|rewrite Hid; reflexivity].
  destruct Hid as (E1 & E2 & E3 & E4 & E5 & E6). rewrite E1, E2, E3, E4, E5, E6, Hlen.
  match goal with |- (if ?c then _ else _) = _ => destruct c; [reflexivity|] end.
  match goal with |- (if ?c then _ else _) = _ => destruct c; [reflexivity|] end.
  rewrite (nav_link_step ds ds' _ (fun nm => match cmp_names nm (d_name e) with
             | Lt => Ok ((d_left e, color_eqb (d_color e) Red) :: rest)
             | _ => Err EInvalidData end) (d_left e) HT).
  match goal with |- rbind ?a _ = rbind ?a _ => destruct a as [st1| | |]; try reflexivity end.
  cbn [rbind].
  rewrite (nav_link_step ds ds' _ (fun nm => match cmp_names (d_name e) nm with
             | Lt => Ok ((d_right e, color_eqb (d_color e) Red) :: st1)
             | _ => Err EInvalidData end) (d_right e) HT).
  match goal with |- rbind ?a _ = rbind ?a _ => destruct a as [st2| | |]; try reflexivity end.
  cbn [rbind].
  match goal with |- rbind ?a _ = rbind ?a _ => destruct a as [st3| | |]; try reflexivity end.
  cbn [rbind]. apply IH.
Qed.

Lemma tbl_nav_updN : forall ds id e e',
  nthN ds id = Some e -> nav_eq e e' -> tbl_nav ds (updN ds id e').
Proof.
  intros ds id e e' He Hn. split; [apply lenN_updN|].
  intro j. destruct (N.eq_dec j id) as [->|Hne].
  - rewrite He, nthN_updN_same by (eapply nthN_Some_lt; exact He). exact Hn.
  - rewrite nthN_updN_other by congruence.
    destruct (nthN ds j); [unfold nav_eq; repeat split|exact I].
Qed.

Lemma nav_eq_set_start_len : forall e st ln, nav_eq e (set_start_len e st ln).
Proof. intros. unfold nav_eq. repeat split. Qed.

(* start and length of a non-root entry are invisible to Directory::validate *)
Theorem dir_validate_updN : forall strict ds id e e',
  id <> 0 -> nthN ds id = Some e -> nav_eq e e' ->
  dir_validate strict (updN ds id e') = dir_validate strict ds.
Proof.
  intros strict ds id e e' Hid He Hn. unfold dir_validate.
  destruct ds as [|root t]; [reflexivity|].
  assert (Hupd : exists t', updN (root :: t) id e' = root :: t' /\ length t' = length t).
  { cbn [updN]. destruct (N.eqb_spec id 0); [contradiction|].
    eexists. split; [reflexivity|].
    assert (L : forall (l : list dirent) i x, length (updN l i x) = length l).
    { induction l as [|y l IH]; intros i x; cbn [updN]; [reflexivity|].
      destruct (i =? 0); cbn [length]; [reflexivity|]. rewrite IH. reflexivity. }
    apply L. }
  destruct Hupd as (t' & Eu & Hl).
  pose proof (tbl_nav_updN (root :: t) id e e' He Hn) as HT.
  rewrite Eu in *. cbv iota.
  destruct (negb (d_len root mod MINI_SECTOR_LEN =? 0)); [reflexivity|].
  cbn [length]. rewrite Hl. apply dir_dfs_nav. exact HT.
Qed.

(* the root entry is not a stream *)
Lemma valid_root_type : forall strict ds root,
  dir_validate strict ds = Ok tt -> nthN ds 0 = Some root -> d_type root = TRoot.
Proof.
  intros strict ds root H Hr. unfold dir_validate in H.
  destruct ds as [|r t]; [discriminate H|].
  cbn [nthN N.eqb] in Hr. injection Hr as ->.
  destruct (negb (d_len root mod MINI_SECTOR_LEN =? 0)); [discriminate H|].
  cbn [dir_dfs length memN] in H.
  change (dir_entry_of (root :: t) ROOT_STREAM_ID) with (Ok root) in H. cbn [rbind] in H.
  change (ROOT_STREAM_ID =? ROOT_STREAM_ID) with true in H. cbv iota in H.
  destruct (d_type root); cbn [objtype_eqb negb] in H; try discriminate H. reflexivity.
Qed.

Lemma dirent_wf_set_start_len : forall v e st ln,
  CodecProofs.dirent_wf v e -> d_type e = TStream ->
  st <= u32_max -> ln <= stream_len_mask v ->
  CodecProofs.dirent_wf v (set_start_len e st ln).
Proof.
  intros v e st ln [W1 W2 W3 W4 W5 W6 W7 W8 W9 W10 W11 W12 W13] Ht Hst Hln.
  constructor; cbn [set_start_len d_name d_type d_left d_right d_child d_clsid d_state
                    d_ctime d_mtime d_start d_len]; try assumption.
  intro Hs. rewrite Ht in Hs. discriminate Hs.
Qed.

(* the write-back of the entry of stream [id] with a new start / length keeps
   the whole invariant; it rewrites sectors of the directory chain only *)
Theorem update_entry_coherent : forall s1 s' id e st ln,
  Coherent s1 ->
  (forall dids mids, DirCoherence.dir_ids s1 dids -> DirCoherence.minifat_ids s1 mids ->
     avoids dids mids) ->
  nthN (dirs s1) id = Some e -> d_type e = TStream ->
  st <= u32_max -> ln <= stream_len_mask (ver s1) ->
  update_entry id st ln s1 = (s', Ok tt) ->
  Coherent s' /\ dirs s' = updN (dirs s1) id (set_start_len e st ln) /\
  exists dids, DirCoherence.dir_ids s1 dids /\ dframe dids s1 s'.
Proof.
  intros s1 s' id e st ln HC Hdm He Ht Hst Hln H.
  apply Coherent_split in HC. destruct HC as [C [D1 D2 D3 D4]].
  pose proof D1 as (dids & Hids & Hg & Hcap & _).
  assert (HD : DH dids s1).
  { split; [exact Hids|]. split; [exact Hg|]. split; [unfold DIR_ENTRY_LEN in Hcap; exact Hcap|].
    exact (cc_nsect s1 C). }
  unfold update_entry in H.
  destruct (dstep_with_dir_entry_mut dids id _ s1 s' tt HD H) as [HD' F].
  destruct (MutRefine.wdem_inv _ _ _ _ _ H) as (e0 & He0 & Ed).
  rewrite He in He0. injection He0 as <-.
  unfold modN in Ed. rewrite He in Ed.
  pose proof F as (F1 & _ & _ & _ & _ & _ & _ & F8 & _).
  assert (Hid : id <> 0).
  { intros ->. pose proof (valid_root_type _ _ _ D3 He) as Hr. rewrite Hr in Ht. discriminate Ht. }
  split; [|split; [exact Ed|exists dids; split; assumption]].
  apply Coherent_split. split.
  - eapply (core_dframe dids); [exact C|exact F| |].
    + eapply chain_avoids_difat; [exact C|exact Hids].
    + intros mids Hm. exact (Hdm dids mids Hids Hm).
  - constructor.
    + eapply DirCoherence.with_dir_entry_mut_coherent; eassumption.
    + intros e2 Hin. rewrite Ed in Hin. rewrite F1.
      destruct (In_updN _ _ _ _ _ Hin) as [->|Hold]; [|apply D2; exact Hold].
      apply dirent_wf_set_start_len; try assumption.
      apply D2. eapply nthN_In. exact He.
    + rewrite Ed. rewrite (dir_validate_updN true (dirs s1) id e _ Hid He); [exact D3|].
      apply nav_eq_set_start_len.
    + intros root Hr. rewrite Ed in Hr. rewrite nthN_updN_other in Hr by congruence.
      rewrite F8. apply D4. exact Hr.
Qed.

(* ================================================================== *)
(* 3. the covered store cases in two phases                            *)
(* ================================================================== *)

Lemma meta_dframe : forall X s s1,
  same_meta s s1 -> lenN (img s1) = lenN (img s) ->
  hd [] (img s1) = hd [] (img s) ->
  (forall x, ~ In x X -> sector_bytes s1 x = sector_bytes s x) ->
  (forall x, lenN (sector_bytes s1 x) = lenN (sector_bytes s x)) ->
  dframe X s s1 /\ dirs s1 = dirs s.
Proof.
  intros X s s1 Hm Hi Hh Hfr Hl.
  destruct (same_meta_fields _ _ Hm) as (M1 & M2 & M3 & M4 & M5 & M6 & M7 & M8 & M9 & M10 & M11 & M12).
  split; [|exact M7]. unfold dframe. repeat split; try assumption. congruence.
Qed.

(* a write inside a regular chain: only the chain's sectors change, the header
   sector included *)
Lemma chain_write_dframe : forall s c bs,
  good_chain s (c_ids c) -> c_off c + lenN bs <= chain_len (slen s) c ->
  exists s1,
    chain_write_all c bs s = (s1, Ok (mkChain (c_init c) (c_ids c) (c_off c + lenN bs))) /\
    dframe (c_ids c) s s1 /\ dirs s1 = dirs s /\
    chain_content s1 (c_ids c) = spliceN (chain_content s (c_ids c)) (c_off c) bs.
Proof.
  intros s c bs Hg Hfit.
  destruct (chain_write_spec s c bs Hg Hfit) as (s1 & Hw & Hc & _ & _ & Hfr & Hl & Hi & Hm).
  assert (Hh : hd [] (img s1) = hd [] (img s)).
  { pose proof Hg as (_ & _ & Himg & _).
    unfold chain_write_all in Hw. rewrite ReuseProofs.bind_get in Hw.
    eapply chain_write_go_hd; [exact Himg| |exact Hw]. exact Hfit. }
  destruct (meta_dframe (c_ids c) s s1 Hm Hi Hh Hfr Hl) as [F Hd].
  exists s1. split; [exact Hw|]. split; [exact F|]. split; [exact Hd|exact Hc].
Qed.

Lemma mchain_write_go_hd : forall fuel c bs s s' r,
  lenN (img s) = nsect s + 1 -> mc_off c + lenN bs <= 64 * lenN (mc_ids c) ->
  mchain_write_go fuel c bs s = (s', r) ->
  hd [] (img s') = hd [] (img s).
Proof.
  induction fuel as [|f IH]; intros c bs s s' r Hi Hfit H; cbn [mchain_write_go] in H.
  - unfold out_of_fuel in H. injection H as <- _. reflexivity.
  - destruct bs as [|b0 bt] eqn:Ebs; [unfold ret in H; injection H as <- _; reflexivity|].
    rewrite <- Ebs in *. assert (Hpos : 0 < lenN bs) by (rewrite Ebs; cbn [lenN]; lia).
    clear Ebs b0 bt.
    unfold mchain_len, MINI_SECTOR_LEN in H.
    destruct (mc_off c =? 64 * lenN (mc_ids c)) eqn:E; [lia|].
    unfold bind at 1 in H. unfold ret at 1 in H.
    destruct (nthN (mc_ids c) (mc_off c / 64)) as [ms|];
      [|unfold panic in H; injection H as <- _; reflexivity].
    unfold bind at 1 in H.
    pose proof (HandleFrame.pure_mini_locate ms (mc_off c mod 64) s) as Hp.
    destruct (mini_locate ms (mc_off c mod 64) s) as [s0 r0]. cbn [fst] in Hp. subst s0.
    destruct r0 as [[sid o]|k|n|]; try (injection H as <- _; reflexivity).
    unfold bind in H.
    destruct (sector_write sid o (takeN (N.min (lenN bs) (64 - mc_off c mod 64)) bs) s) as [s1 r1] eqn:Ew.
    destruct (sector_write_frame _ _ _ _ _ _ Hi Ew) as (Hh & Hm & Hl).
    assert (Hs1 : nsect s1 = nsect s) by (rewrite Hm; reflexivity).
    destruct r1 as [u|k|n|]; try (injection H as <- _; exact Hh).
    rewrite <- Hh. eapply IH; [| |exact H].
    + rewrite Hs1, Hl. exact Hi.
    + cbn [mc_off mc_ids]. rewrite lenN_dropN. lia.
Qed.

(* a write inside a mini chain: only sectors of the mini stream (root chain) change *)
Lemma mchain_write_dframe : forall s rids c bs,
  MiniChainProofs.good_mchain s rids (mc_ids c) -> mc_off c + lenN bs <= mchain_len c ->
  exists s1,
    mchain_write_all c bs s = (s1, Ok (mkMChain (mc_ids c) (mc_off c + lenN bs))) /\
    dframe rids s s1 /\ dirs s1 = dirs s.
Proof.
  intros s rids c bs Hg Hfit.
  destruct (MiniChainProofs.mchain_write_spec s rids c bs Hg Hfit)
    as (s1 & Hw & _ & _ & _ & _ & Hfr & Hl & Hi & Hm).
  assert (Hh : hd [] (img s1) = hd [] (img s)).
  { destruct Hg as (_ & (_ & _ & Himg & _) & _).
    unfold mchain_write_all in Hw.
    eapply mchain_write_go_hd; [exact Himg| |exact Hw].
    unfold mchain_len, MINI_SECTOR_LEN in Hfit. exact Hfit. }
  destruct (meta_dframe rids s s1 Hm Hi Hh Hfr Hl) as [F Hd].
  exists s1. split; [exact Hw|]. split; [exact F|exact Hd].
Qed.

Import ReuseProofs StoreProofs MiniChainProofs StoreMiniProofs HandleFrame.

(* the shape shared by the four covered cases: first sectors of [D] are
   rewritten (no table, no header field, no cached entry changes), then the
   entry of the stream is written back with its old start and the length [ln] *)
Definition TwoPhase (s s' : cstate) (id : N) (e : dirent) (ln : N) (D : list N) : Prop :=
  exists s1, dframe D s s1 /\ dirs s1 = dirs s /\
             update_entry id (d_start e) ln s1 = (s', Ok tt).

(* S2 / S3 *)
Lemma write_big_two_phase : forall s id V ids e off buf s',
  big_content s id V -> stream_ids s id ids -> nthN (dirs s) id = Some e ->
  off <= lenN V -> off + lenN buf <= slen s * lenN ids ->
  write_data id off buf s = (s', Ok tt) ->
  TwoPhase s s' id e (N.max (d_len e) (off + lenN buf)) ids.
Proof.
  intros s id V ids e1 off buf s' HB (e0 & He0 & _ & Hc0) He1 Hoff Hfit Hrun.
  pose proof HB as (e & ids' & He & Ht & Hcut & Hc & Hg & Hle & HV).
  rewrite He in He0. injection He0 as <-. rewrite Hc in Hc0. injection Hc0 as ->.
  rewrite He in He1. injection He1 as <-.
  pose proof (big_content_len _ _ _ _ HB He) as HlV. rewrite HlV in Hoff.
  destruct (chain_ids_head _ _ _ Hc (ids_nonempty s ids _ Hcut Hle)) as (Hst & t & Eids).
  set (new_len := N.max (d_len e) (off + lenN buf)).
  destruct (chain_write_dframe s (mkChain IZero ids off) buf Hg) as (s1 & Hw & F & Hd & _).
  { unfold chain_len. cbn [c_ids c_off]. exact Hfit. }
  cbn [c_init c_ids c_off] in *.
  exists s1. split; [exact F|]. split; [exact Hd|].
  unfold write_data in Hrun.
  rewrite (bind_exec _ _ _ _ _ (stream_entry_exec s id e He Ht)) in Hrun.
  cbv beta iota zeta in Hrun.
  destruct (d_len e <? off) eqn:E1; [lia|]. rewrite bind_ret in Hrun.
  fold new_len in Hrun.
  rewrite (bind_exec _ _ _ _ _ (eq_refl : get s = (s, Ok s))) in Hrun. cbv beta iota zeta in Hrun.
  destruct (N.min (MAX_REGULAR_SECTOR * slen s) (stream_len_mask (ver s)) <? new_len) eqn:Ebd;
    [unfold bind at 1, fail in Hrun; discriminate Hrun|].
  rewrite (bind_exec _ _ _ _ _ (eq_refl : ret tt s = (s, Ok tt))) in Hrun.
  match type of Hrun with bind ?m _ s = _ => assert (E : m s = (s1, Ok (d_start e))) end.
  { destruct (d_start e =? END_OF_CHAIN) eqn:E2; [apply N.eqb_eq in E2; contradiction|].
    destruct (d_len e <? MINI_STREAM_CUTOFF) eqn:E3; [lia|].
    destruct (new_len <? MINI_STREAM_CUTOFF) eqn:E4; [unfold new_len in E4; lia|].
    rewrite bind_ret.
    rewrite (bind_exec _ _ _ _ _ (chain_new_exec s (d_start e) IZero ids Hc)).
    destruct (chain_seek_spec s (mkChain IZero ids 0) off) as [Hseek _].
    rewrite (bind_exec _ _ _ _ _ (Hseek ltac:(unfold chain_len; cbn [c_ids]; lia))).
    cbn [c_init c_ids].
    rewrite (bind_exec _ _ _ _ _ Hw).
    rewrite Eids, chain_start_head, N.eqb_refl. reflexivity. }
  rewrite (bind_exec _ _ _ _ _ E) in Hrun. exact Hrun.
Qed.

Lemma zero_fill_chain_dframe : forall s c from to,
  good_chain s (c_ids c) -> to <= chain_len (slen s) c ->
  exists s1 c1,
    zero_fill_chain c from to s = (s1, Ok c1) /\ c_ids c1 = c_ids c /\
    dframe (c_ids c) s s1 /\ dirs s1 = dirs s.
Proof.
  intros s c from to Hg Hto. unfold zero_fill_chain.
  destruct (from <? to) eqn:E.
  - destruct (chain_seek_spec s c from) as [Hseek _].
    rewrite (bind_exec _ _ _ _ _ (Hseek ltac:(lia))).
    destruct (chain_write_dframe s (mkChain (c_init c) (c_ids c) from) (repeatN 0 (to - from)))
      as (s1 & Hw & F & Hd & _).
    { exact Hg. }
    { unfold chain_len in *. cbn [c_ids c_off]. rewrite lenN_repeatN. lia. }
    cbn [c_init c_ids c_off] in *.
    eexists s1, _. split; [exact Hw|]. cbn [c_ids]. split; [reflexivity|]. split; assumption.
  - exists s, c. unfold ret. split; [reflexivity|]. split; [reflexivity|].
    split; [apply dframe_refl|reflexivity].
Qed.

(* S4 / S5 with an unchanged number of sectors *)
Lemma resize_big_two_phase : forall s id V ids e new_len s',
  big_content s id V -> stream_ids s id ids -> StoreWf s ->
  nthN (dirs s) id = Some e ->
  MINI_STREAM_CUTOFF <= new_len ->
  new_len <= slen s * lenN ids -> slen s * lenN ids < new_len + slen s ->
  new_len <= MAX_REGULAR_SECTOR * slen s ->
  resize id new_len s = (s', Ok tt) ->
  TwoPhase s s' id e new_len ids.
Proof.
  intros s id V ids e1 new_len s' HB (e0 & He0 & _ & Hc0) Hwf He1 Hnl Hfit Htight Hmax Hrun.
  pose proof HB as (e & ids' & He & Ht & Hcut & Hc & Hg & Hle & HV).
  rewrite He in He0. injection He0 as <-. rewrite Hc in Hc0. injection Hc0 as ->.
  rewrite He in He1. injection He1 as <-.
  pose proof (slen_pos s) as Hsp.
  destruct (chain_ids_head _ _ _ Hc (ids_nonempty s ids _ Hcut Hle)) as (Hst & t & Eids).
  destruct (zero_fill_chain_dframe s (mkChain IZero ids 0) (d_len e) new_len Hg)
    as (s1 & c1 & Hz & Hids1 & F & Hd).
  { unfold chain_len. cbn [c_ids]. exact Hfit. }
  cbn [c_ids] in *.
  exists s1. split; [exact F|]. split; [exact Hd|].
  unfold resize in Hrun.
  rewrite (bind_exec _ _ _ _ _ (stream_entry_exec s id e He Ht)) in Hrun.
  cbv beta iota zeta in Hrun.
  rewrite (bind_exec _ _ _ _ _ (eq_refl : get s = (s, Ok s))) in Hrun. cbv beta iota zeta in Hrun.
  replace (MAX_REGULAR_SECTOR * slen s <? new_len) with false in Hrun
    by (symmetry; apply N.ltb_ge; exact Hmax).
  rewrite (bind_exec _ _ _ _ _ (eq_refl : ret tt s = (s, Ok tt))) in Hrun.
  destruct (stream_len_mask (ver s) <? new_len) eqn:Emk;
    [unfold bind at 1, fail in Hrun; discriminate Hrun|].
  rewrite (bind_exec _ _ _ _ _ (eq_refl : ret tt s = (s, Ok tt))) in Hrun.
  match type of Hrun with bind ?m _ s = _ => assert (E : m s = (s1, Ok (d_start e))) end.
  { destruct (d_start e =? END_OF_CHAIN) eqn:E2; [apply N.eqb_eq in E2; contradiction|].
    destruct (d_len e <? MINI_STREAM_CUTOFF) eqn:E3; [lia|].
    destruct (new_len =? 0) eqn:E4; [rewrite CUTOFF_val in Hnl; lia|].
    destruct (new_len <? MINI_STREAM_CUTOFF) eqn:E5; [lia|].
    rewrite (bind_exec _ _ _ _ _ (chain_new_exec s (d_start e) IZero ids Hc)).
    rewrite bind_get.
    rewrite (bind_exec _ _ _ _ _ (chain_set_len_same s (mkChain IZero ids 0) new_len
               ltac:(rewrite CUTOFF_val in Hnl; lia)
               ltac:(pose proof (good_chain_count _ _ Hg); pose proof (wf_nsect_u32 s Hwf);
                     destruct (ReuseProofs.slen_cases s) as [Es|Es]; rewrite Es in *;
                     unfold u32_max in *; rewrite two64_val; nia)
               ltac:(cbn [c_ids]; symmetry; apply (N.div_unique _ _ _
                       (slen s + new_len - 1 - slen s * lenN ids)); lia))).
    unfold chain_len at 1. cbn [c_ids].
    replace (N.min new_len (slen s * lenN ids)) with new_len by lia.
    rewrite (bind_exec _ _ _ _ _ Hz).
    unfold chain_start. rewrite Hids1, Eids, N.eqb_refl. reflexivity. }
  rewrite (bind_exec _ _ _ _ _ E) in Hrun. exact Hrun.
Qed.

(* M2 / M3 *)
Lemma write_small_two_phase : forall s id e rids mids V off buf s',
  small_at s id e rids mids V ->
  off <= lenN V -> off + lenN buf <= 64 * lenN mids ->
  off + lenN buf < MINI_STREAM_CUTOFF ->
  write_data id off buf s = (s', Ok tt) ->
  TwoPhase s s' id e (N.max (d_len e) (off + lenN buf)) rids.
Proof.
  intros s id e ids mids V off buf s' Hsm Hoff Hfit Hcut2 Hrun.
  pose proof (small_at_lenV _ _ _ _ _ _ Hsm) as HlenV. rewrite HlenV in *.
  destruct (small_at_start _ _ _ _ _ _ Hsm) as (Hne & Hst & Hk).
  pose proof Hsm as (Hnth & Ht & Hcut & Hpos & Hch & Hgm & Hle & HV).
  set (ln := N.max (d_len e) (off + lenN buf)).
  destruct (mchain_write_dframe s ids (mkMChain mids off) buf Hgm) as (s1 & Hw & F & Hd).
  { unfold mchain_len. cbn [mc_ids mc_off]. rewrite MSL_64. exact Hfit. }
  cbn [mc_ids mc_off] in *.
  exists s1. split; [exact F|]. split; [exact Hd|].
  rewrite <- Hrun. symmetry.
  unfold write_data. sred.
  rewrite (stream_entry_ok s id e Hnth Ht). sred.
  assert (E1 : (d_len e <? off) = false) by lia. rewrite E1.
  rewrite (both_check_false_small s (N.max (d_len e) (off + lenN buf))) by lia.
  assert (E2 : (d_start e =? END_OF_CHAIN) = false) by lia. rewrite E2.
  assert (E3 : (d_len e <? MINI_STREAM_CUTOFF) = true) by lia. rewrite E3.
  fold ln.
  assert (E4 : (ln <? MINI_STREAM_CUTOFF) = true) by (unfold ln; lia). rewrite E4.
  rewrite (mchain_new_ok s _ mids Hch).
  rewrite (mchain_seek_ok s mids 0 off) by lia.
  rewrite Hw.
  assert (E5 : negb (mchain_start (mkMChain mids (off + lenN buf)) =? d_start e) = false).
  { unfold mchain_start in *. cbn [mc_ids] in *. rewrite Hst, N.eqb_refl. reflexivity. }
  rewrite E5. reflexivity.
Qed.

(* M4 / M5 with an unchanged number of mini sectors *)
Lemma resize_small_two_phase : forall s id e rids mids V new_len s',
  small_at s id e rids mids V ->
  0 < new_len -> (64 + new_len - 1) / 64 = lenN mids -> new_len < MINI_STREAM_CUTOFF ->
  resize id new_len s = (s', Ok tt) ->
  TwoPhase s s' id e new_len rids.
Proof.
  intros s id e ids mids V new_len s' Hsm Hpos' Hceil Hcut' Hrun.
  pose proof (small_at_lenV _ _ _ _ _ _ Hsm) as HlenV.
  destruct (small_at_start _ _ _ _ _ _ Hsm) as (Hne & Hst & Hk).
  destruct (ceil_bounds _ _ Hceil Hpos') as [Hub Hlb].
  pose proof Hsm as (Hnth & Ht & Hcut & Hpos & Hch & Hgm & Hle & HV).
  set (zs := repeatN 0 (new_len - d_len e) : list byte).
  assert (Hzs : lenN zs = new_len - d_len e) by (unfold zs; apply lenN_repeatN).
  destruct (mchain_write_dframe s ids (mkMChain mids (N.min (d_len e) new_len)) zs Hgm)
    as (s1 & Hw & F & Hd).
  { unfold mchain_len. cbn [mc_ids mc_off]. rewrite MSL_64. blia. }
  cbn [mc_ids mc_off] in *.
  exists s1. split; [exact F|]. split; [exact Hd|].
  rewrite <- Hrun. symmetry.
  unfold resize. sred.
  rewrite (stream_entry_ok s id e Hnth Ht). sred.
  assert (E0 : (MAX_REGULAR_SECTOR * slen s <? new_len) = false).
  { pose proof (ChainProofs.slen_pos s). apply N.ltb_ge. rewrite MAXREG_val. rewrite CUTOFF_val in *. nia. }
  rewrite E0. sred.
  rewrite (mask_check_false s new_len) by (apply small_fits_mask; lia). sred.
  assert (E2 : (d_start e =? END_OF_CHAIN) = false) by lia. rewrite E2.
  assert (E3 : (d_len e <? MINI_STREAM_CUTOFF) = true) by lia. rewrite E3.
  assert (E4 : (new_len =? 0) = false) by lia. rewrite E4.
  assert (E5 : (new_len <? MINI_STREAM_CUTOFF) = true) by lia. rewrite E5.
  rewrite (mchain_new_ok s _ mids Hch).
  rewrite (mchain_set_len_same s (mkMChain mids 0) new_len Hcut' Hpos' Hceil).
  unfold zero_fill_mchain.
  destruct (d_len e <? new_len) eqn:Egrow.
  + sred. rewrite (mchain_seek_ok s mids 0 (d_len e)) by lia.
    replace (N.min (d_len e) new_len) with (d_len e) in Hw by lia.
    fold zs. rewrite Hw.
    assert (E6 : negb (mchain_start (mkMChain mids (d_len e + lenN zs)) =? d_start e) = false).
    { unfold mchain_start in *. cbn [mc_ids] in *. rewrite Hst, N.eqb_refl. reflexivity. }
    rewrite E6. reflexivity.
  + sred.
    assert (E6 : negb (mchain_start (mkMChain mids 0) =? d_start e) = false).
    { rewrite Hst, N.eqb_refl. reflexivity. }
    rewrite E6.
    assert (Hs1 : s1 = s).
    { replace zs with (@nil byte) in Hw
        by (unfold zs; replace (new_len - d_len e) with 0 by lia; reflexivity).
      unfold mchain_write_all in Hw. cbn [mchain_write_go] in Hw.
      unfold ret in Hw. injection Hw as <- _. reflexivity. }
    rewrite <- Hs1. reflexivity.
Qed.

(* ================================================================== *)
(* 4. the invariant and its preservation at the store level            *)
(* ================================================================== *)

(* [Coherent]: every table on disk equals its cache, the image passes strict
   validation.  [AllStreamsWf]: the chains of the large streams, the mini
   stream, the directory chain, the MiniFAT chain and the FAT sectors are
   pairwise disjoint; small streams are pairwise disjoint in the MiniFAT. *)
Definition CohData (s : cstate) : Prop := Coherent s /\ AllStreamsWf s.

(* the length the entry will record fits the version's length field
   (32 bits in a version-3 file) *)
Definition LenFits (s : cstate) (n : N) : Prop := n <= stream_len_mask (ver s).

Lemma avoids_sym : forall a b, avoids a b -> avoids b a.
Proof. intros a b H x Hx Hin. exact (H x Hin Hx). Qed.

Lemma cohdata_dir_mini : forall s, AllStreamsWf s ->
  forall dids mids, DirCoherence.dir_ids s dids -> DirCoherence.minifat_ids s mids ->
  avoids dids mids.
Proof.
  intros s HA dids mids Hd Hm. apply avoids_sym.
  exact (aw_mfat_dir s HA mids dids Hm Hd).
Qed.

Theorem two_phase_coherent : forall s s' id e ln D st,
  Coherent s ->
  nthN (dirs s) id = Some e -> d_type e = TStream -> LenFits s ln ->
  chain_ids_of (fat s) st = Ok D ->
  (forall mids, DirCoherence.minifat_ids s mids -> avoids D mids) ->
  (forall dids, DirCoherence.dir_ids s dids -> avoids D dids) ->
  (forall dids mids, DirCoherence.dir_ids s dids -> DirCoherence.minifat_ids s mids ->
     avoids dids mids) ->
  TwoPhase s s' id e ln D ->
  Coherent s' /\ dirs s' = updN (dirs s) id (set_start_len e (d_start e) ln).
Proof.
  intros s s' id e ln D st HC He Ht Hln HD Hdm Hdd Hdirmini (s1 & F & Hd & Hu).
  pose proof HC as HC0. apply Coherent_split in HC. destruct HC as [C DP].
  pose proof F as (F1 & _ & _ & _ & F5 & _ & F7 & _ & F9 & _).
  assert (HC1 : Coherent s1).
  { apply Coherent_split. split.
    - eapply (core_dframe D); [exact C|exact F| |exact Hdm].
      eapply chain_avoids_difat; eassumption.
    - eapply DirPart_dframe; eassumption. }
  destruct (update_entry_coherent s1 s' id e (d_start e) ln HC1) as (HC' & Ed & _).
  - intros dids mids H1 H2. unfold DirCoherence.dir_ids, DirCoherence.minifat_ids in *.
    rewrite F5, F7 in H1. rewrite F5, F9 in H2. exact (Hdirmini dids mids H1 H2).
  - rewrite Hd. exact He.
  - exact Ht.
  - apply (CodecProofs.wf_start (ver s) e). apply (ch_dir_wf s HC0). eapply nthN_In. exact He.
  - unfold LenFits in Hln. rewrite F1. exact Hln.
  - exact Hu.
  - split; [exact HC'|]. rewrite Ed, Hd. reflexivity.
Qed.

Lemma old_len_fits : forall s id e, Coherent s -> nthN (dirs s) id = Some e -> LenFits s (d_len e).
Proof.
  intros s id e HC He. apply (CodecProofs.wf_len (ver s) e).
  apply (ch_dir_wf s HC). eapply nthN_In. exact He.
Qed.

(* ---- write_data ---- *)
Theorem write_data_cohdata : forall s id off buf,
  CohData s -> CoveredWrite s id off buf -> LenFits s (off + lenN buf) ->
  exists s',
    write_data id off buf s = (s', Ok tt) /\ CohData s' /\ StoreFrame id s s'.
Proof.
  intros s id off buf [HC HA] HCW Hlen.
  destruct (write_data_frames_others s id off buf HA HCW) as (s' & Hrun & HA' & HSF).
  exists s'. split; [exact Hrun|]. split; [|exact HSF]. split; [|exact HA'].
  destruct HCW as [(V & ids & HB & Hsi & Hoff & Hfit & Hbounds)|(e & rids & mids & V & Hsm & Hoff & Hfit & Hcut)].
  - destruct (big_content_ids s id V ids HB Hsi) as (e & He & Hbig).
    pose proof Hbig as (e0 & He0 & Ht & Hc & Hch). rewrite He in He0. injection He0 as <-.
    pose proof (write_big_two_phase s id V ids e off buf s' HB Hsi He Hoff Hfit Hrun) as TP.
    refine (proj1 (two_phase_coherent s s' id e _ ids (d_start e) HC He Ht _ Hch _ _
                     (cohdata_dir_mini s HA) TP)).
    + unfold LenFits in *. pose proof (old_len_fits s id e HC He). unfold LenFits in *. lia.
    + intros mids Hm. exact (aw_mfat_big s HA mids id ids Hm Hbig).
    + intros dids Hd. exact (sw_dir_disj s (aw_store s HA) id ids dids Hbig Hd).
  - pose proof Hsm as (He & Ht & Hcute & Hpos & Hch & (Hroot & _) & _).
    pose proof Hroot as (r & Hr & Hrch).
    pose proof (write_small_two_phase s id e rids mids V off buf s' Hsm Hoff Hfit Hcut Hrun) as TP.
    refine (proj1 (two_phase_coherent s s' id e _ rids (d_start r) HC He Ht _ Hrch _ _
                     (cohdata_dir_mini s HA) TP)).
    + unfold LenFits in *. pose proof (old_len_fits s id e HC He). unfold LenFits in *. lia.
    + intros l Hm. apply avoids_sym. exact (aw_mfat_root s HA l rids Hm Hroot).
    + intros dids Hd. exact (aw_root_dir s HA rids dids Hroot Hd).
Qed.

(* ---- resize ---- *)
Theorem resize_cohdata : forall s id n,
  CohData s -> CoveredResize s id n -> LenFits s n ->
  exists s',
    resize id n s = (s', Ok tt) /\ CohData s' /\ StoreFrame id s s'.
Proof.
  intros s id n [HC HA] HCR Hlen.
  destruct (resize_frames_others s id n HA HCR) as (s' & Hrun & HA' & HSF).
  exists s'. split; [exact Hrun|]. split; [|exact HSF]. split; [|exact HA'].
  destruct HCR as [(V & ids & HB & Hsi & Hn & Hfit & Htight & Hmax & Hmask)|(e & rids & mids & V & Hsm & H0 & Hceil & Hcut)].
  - destruct (big_content_ids s id V ids HB Hsi) as (e & He & Hbig).
    pose proof Hbig as (e0 & He0 & Ht & Hc & Hch). rewrite He in He0. injection He0 as <-.
    pose proof (resize_big_two_phase s id V ids e n s' HB Hsi (aw_store s HA) He Hn Hfit Htight Hmax Hrun) as TP.
    refine (proj1 (two_phase_coherent s s' id e _ ids (d_start e) HC He Ht Hlen Hch _ _
                     (cohdata_dir_mini s HA) TP)).
    + intros mids Hm. exact (aw_mfat_big s HA mids id ids Hm Hbig).
    + intros dids Hd. exact (sw_dir_disj s (aw_store s HA) id ids dids Hbig Hd).
  - pose proof Hsm as (He & Ht & Hcute & Hpos & Hch & (Hroot & _) & _).
    pose proof Hroot as (r & Hr & Hrch).
    pose proof (resize_small_two_phase s id e rids mids V n s' Hsm H0 Hceil Hcut Hrun) as TP.
    refine (proj1 (two_phase_coherent s s' id e _ rids (d_start r) HC He Ht Hlen Hrch _ _
                     (cohdata_dir_mini s HA) TP)).
    + intros l Hm. apply avoids_sym. exact (aw_mfat_root s HA l rids Hm Hroot).
    + intros dids Hd. exact (aw_root_dir s HA rids dids Hroot Hd).
Qed.

(* ================================================================== *)
(* 5. the contents survive the reopen                                  *)
(* ================================================================== *)

(* [big_content] / [small_content] read the version, the image, the sector
   count, the FAT, the MiniFAT and the allocated directory entries -- all of
   which [reopened] preserves (it drops the free lists and appends the blank
   slots of the last directory sector to the table) *)
Definition same_store (s s2 : cstate) : Prop :=
  ver s2 = ver s /\ img s2 = img s /\ nsect s2 = nsect s /\ fat s2 = fat s /\
  minifat s2 = minifat s /\ exists ext, dirs s2 = dirs s ++ ext.

Lemma same_store_reopened : forall s, same_store s (reopened s).
Proof.
  intro s. unfold same_store, reopened. cbn [ver img nsect fat minifat dirs].
  repeat split. eexists. reflexivity.
Qed.

Section SameStore.
Variables s s2 : cstate.
Hypothesis HS : same_store s s2.

Lemma ss_slen : slen s2 = slen s.
Proof. destruct HS as (H & _). unfold slen. rewrite H. reflexivity. Qed.

Lemma ss_sector : forall x, sector_bytes s2 x = sector_bytes s x.
Proof. destruct HS as (_ & H & _). apply ReuseProofs.sector_bytes_ext. exact H. Qed.

Lemma ss_content : forall ids, chain_content s2 ids = chain_content s ids.
Proof. intro ids. apply chain_content_same. intros x _. apply ss_sector. Qed.

Lemma ss_nth : forall id e, nthN (dirs s) id = Some e -> nthN (dirs s2) id = Some e.
Proof.
  intros id e He. destruct HS as (_ & _ & _ & _ & _ & ext & Hd). rewrite Hd.
  rewrite ReuseProofs.nthN_app_l by (eapply nthN_Some_lt; exact He). exact He.
Qed.

Lemma ss_good_chain : forall ids, good_chain s ids -> good_chain s2 ids.
Proof.
  intros ids Hg. destruct HS as (_ & Hi & Hn & _).
  apply (good_chain_transfer2 s s2 ids Hg Hn ss_slen).
  - rewrite Hi. reflexivity.
  - intro x. rewrite ss_sector. reflexivity.
Qed.

Theorem big_content_same_store : forall id V, big_content s id V -> big_content s2 id V.
Proof.
  intros id V (e & ids & He & Ht & Hc & Hch & Hg & Hle & HV).
  pose proof HS as (_ & _ & _ & Hf & _).
  exists e, ids. rewrite Hf, ss_slen, ss_content.
  csplit; try assumption; [apply ss_nth; exact He|apply ss_good_chain; exact Hg].
Qed.

Theorem small_content_same_store : forall id V, small_content s id V -> small_content s2 id V.
Proof.
  intros id V (e & rids & mids & He & Ht & Hcut & Hpos & Hch & Hgm & Hle & HV).
  pose proof HS as (_ & _ & _ & Hf & Hmf & _).
  exists e, rids, mids. unfold small_at. rewrite Hmf.
  csplit; try assumption; [apply ss_nth; exact He| |].
  - destruct Hgm as ((r & Hr & Hrc) & Hg & Hnd & HF).
    split; [exists r; split; [apply ss_nth; exact Hr|rewrite Hf; exact Hrc]|].
    split; [apply ss_good_chain; exact Hg|]. split; [exact Hnd|]. rewrite ss_slen. exact HF.
  - rewrite HV. f_equal. unfold mchain_content. f_equal. apply map_ext. intro ms.
    unfold mini_bytes, mini_stream. rewrite ss_content. reflexivity.
Qed.

Theorem stream_content_same_store : forall id V, stream_content s id V -> stream_content s2 id V.
Proof.
  intros id V [H|[H|(e & He & Ht & Hl & HV)]].
  - left. apply big_content_same_store. exact H.
  - right; left. apply small_content_same_store. exact H.
  - right; right. exists e. split; [apply ss_nth; exact He|auto].
Qed.
End SameStore.

Corollary stream_content_reopened : forall s id V,
  stream_content s id V -> stream_content (reopened s) id V.
Proof. intros s id V. apply stream_content_same_store. apply same_store_reopened. Qed.

(* a stream has one content *)
Lemma stream_content_fun : forall s id V V',
  stream_content s id V -> stream_content s id V' -> V = V'.
Proof.
  intros s id V V' H H'.
  destruct H as [HB|[(e & rids & mids & HS)|(e & He & _ & Hl & ->)]];
  destruct H' as [HB'|[(e' & rids' & mids' & HS')|(e' & He' & _ & Hl' & ->)]].
  - eapply big_content_fun; eassumption.
  - exfalso. destruct HB as (e & ids & He & _ & Hc & _). destruct HS' as (He' & _ & Hcut & _).
    rewrite He in He'. injection He' as <-. lia.
  - exfalso. destruct HB as (e & ids & He & _ & Hc & _).
    rewrite He in He'. injection He' as <-. rewrite CUTOFF_val in Hc. lia.
  - exfalso. destruct HB' as (e' & ids & He' & _ & Hc & _). destruct HS as (He & _ & Hcut & _).
    rewrite He in He'. injection He' as <-. lia.
  - destruct HS as (He & _ & _ & _ & Hch & (Hroot & _) & _ & HV).
    destruct HS' as (He' & _ & _ & _ & Hch' & (Hroot' & _) & _ & HV').
    rewrite He in He'. injection He' as <-. rewrite Hch in Hch'. injection Hch' as <-.
    rewrite (root_ids_fun s rids rids' Hroot Hroot') in HV. congruence.
  - exfalso. destruct HS as (He & _ & _ & Hpos & _). rewrite He in He'. injection He' as <-. lia.
  - exfalso. destruct HB' as (e' & ids & He' & _ & Hc & _).
    rewrite He in He'. injection He' as <-. rewrite CUTOFF_val in Hc. lia.
  - exfalso. destruct HS' as (He' & _ & _ & Hpos & _). rewrite He in He'. injection He' as <-. lia.
  - reflexivity.
Qed.

(* what the covered store calls do to the content of their own stream *)
Lemma covered_write_content : forall s id off buf V s',
  AllStreamsWf s -> CoveredWrite s id off buf -> stream_content s id V ->
  write_data id off buf s = (s', Ok tt) ->
  stream_content s' id (spliceN V off buf).
Proof.
  intros s id off buf V s' HA HCW HV Hrun.
  destruct HCW as [(V0 & ids & HB & Hsi & Hoff & Hfit & Hbounds)|(e & rids & mids & V0 & Hsm & Hoff & Hfit & Hcut)].
  - assert (V = V0) by (eapply stream_content_fun; [exact HV|left; exact HB]). subst V0.
    destruct (write_data_big_no_alloc s id V ids off buf HB Hsi (aw_store s HA) Hoff Hfit Hbounds)
      as (s2 & Hrun2 & HB2 & _).
    rewrite Hrun in Hrun2. injection Hrun2 as <-. left. exact HB2.
  - assert (V = V0) by (eapply stream_content_fun; [exact HV|right; left; exists e, rids, mids; exact Hsm]).
    subst V0. pose proof Hsm as (He & _).
    destruct (write_data_small_full s id e rids mids V off buf Hsm (asw_dirwritable s id e HA He)
                Hoff Hfit Hcut) as (s2 & Hrun2 & HS2 & _).
    rewrite Hrun in Hrun2. injection Hrun2 as <-. right; left. eexists _, rids, mids. exact HS2.
Qed.

Definition resized (V : list byte) (n : N) : list byte := takeN n V ++ repeatN 0 (n - lenN V).

Lemma covered_resize_content : forall s id n V s',
  AllStreamsWf s -> CoveredResize s id n -> stream_content s id V ->
  resize id n s = (s', Ok tt) ->
  stream_content s' id (resized V n).
Proof.
  intros s id n V s' HA HCR HV Hrun. unfold resized.
  destruct HCR as [(V0 & ids & HB & Hsi & Hn & Hfit & Htight & Hmax & Hmask)|(e & rids & mids & V0 & Hsm & H0 & Hceil & Hcut)].
  - assert (V = V0) by (eapply stream_content_fun; [exact HV|left; exact HB]). subst V0.
    destruct (resize_big_same_count s id V ids n HB Hsi (aw_store s HA) Hn Hfit Htight Hmax Hmask)
      as (s2 & Hrun2 & HB2 & _).
    rewrite Hrun in Hrun2. injection Hrun2 as <-. left. exact HB2.
  - assert (V = V0) by (eapply stream_content_fun; [exact HV|right; left; exists e, rids, mids; exact Hsm]).
    subst V0. pose proof Hsm as (He & _).
    destruct (resize_small_full s id e rids mids V n Hsm (asw_dirwritable s id e HA He)
                H0 Hceil Hcut) as (s2 & Hrun2 & HS2 & _).
    rewrite Hrun in Hrun2. injection Hrun2 as <-. right; left. eexists _, rids, mids. exact HS2.
Qed.

(* ================================================================== *)
(* 7a. the round trip after one covered store call                     *)
(* ================================================================== *)

Theorem cohdata_reopens : forall s, CohData s -> forall strict,
  open_model strict (concat_img (img s)) = Ok (reopened s).
Proof. intros s [HC _] strict. apply reopen_both_modes. exact HC. Qed.

(* Overwrite in place / growth inside the last sector, large or small stream:
   the call succeeds, the invariant holds again, so the bytes alone reopen in
   both modes to the cached tables, and the reopened file holds the new bytes
   of this stream and the old bytes of every other stream. *)
Theorem persist_after_covered_write : forall s id off buf V,
  CohData s -> CoveredWrite s id off buf -> LenFits s (off + lenN buf) ->
  stream_content s id V ->
  exists s',
    write_data id off buf s = (s', Ok tt) /\ CohData s' /\
    (forall strict, open_model strict (concat_img (img s')) = Ok (reopened s')) /\
    stream_content (reopened s') id (spliceN V off buf) /\
    (forall id' V', id' <> id -> stream_content s id' V' -> stream_content (reopened s') id' V').
Proof.
  intros s id off buf V HCD HCW Hlen HV.
  destruct (write_data_cohdata s id off buf HCD HCW Hlen) as (s' & Hrun & HCD' & (_ & _ & Hoth)).
  exists s'. split; [exact Hrun|]. split; [exact HCD'|].
  split; [exact (cohdata_reopens s' HCD')|]. split.
  - apply stream_content_reopened. exact (covered_write_content s id off buf V s' (proj2 HCD) HCW HV Hrun).
  - intros id' V' Hne H. apply stream_content_reopened. exact (Hoth id' V' Hne H).
Qed.

Theorem persist_after_covered_resize : forall s id n V,
  CohData s -> CoveredResize s id n -> LenFits s n ->
  stream_content s id V ->
  exists s',
    resize id n s = (s', Ok tt) /\ CohData s' /\
    (forall strict, open_model strict (concat_img (img s')) = Ok (reopened s')) /\
    stream_content (reopened s') id (resized V n) /\
    (forall id' V', id' <> id -> stream_content s id' V' -> stream_content (reopened s') id' V').
Proof.
  intros s id n V HCD HCR Hlen HV.
  destruct (resize_cohdata s id n HCD HCR Hlen) as (s' & Hrun & HCD' & (_ & _ & Hoth)).
  exists s'. split; [exact Hrun|]. split; [exact HCD'|].
  split; [exact (cohdata_reopens s' HCD')|]. split.
  - apply stream_content_reopened. exact (covered_resize_content s id n V s' (proj2 HCD) HCR HV Hrun).
  - intros id' V' Hne H. apply stream_content_reopened. exact (Hoth id' V' Hne H).
Qed.

(* an overwrite strictly inside the stream never needs the length hypothesis *)
Lemma inplace_len_fits : forall s id V off (buf : list byte),
  Coherent s -> stream_content s id V -> off + lenN buf <= lenN V -> LenFits s (off + lenN buf).
Proof.
  intros s id V off buf HC HV Hin.
  assert (exists e, nthN (dirs s) id = Some e) as [e He].
  { destruct HV as [(e & ids & He & _)|[(e & rids & mids & He & _)|(e & He & _)]]; exists e; exact He. }
  pose proof (HandleFrame.stream_content_len s id V e HV He) as HL.
  pose proof (old_len_fits s id e HC He). unfold LenFits in *. lia.
Qed.

(* a version-4 file never needs it either *)
Lemma v4_len_fits : forall s n, ver s = V4 -> n <= MAX_REGULAR_SECTOR * slen s -> LenFits s n.
Proof.
  intros s n Hv Hn. unfold LenFits, slen in *. rewrite Hv in *.
  unfold stream_len_mask, V4_STREAM_LEN_MASK. change (sector_len V4) with 4096 in Hn.
  rewrite MAXREG_val in Hn. lia.
Qed.

(* ================================================================== *)
(* 6. through the handle                                               *)
(* ================================================================== *)

(* the write-back the handle would perform now is a covered store call whose
   new length fits the entry *)
Definition CWd (id off : N) (bs : list byte) (s : cstate) : Prop :=
  CoveredWrite s id off bs /\ LenFits s (off + lenN bs).
Definition CRd (id n : N) (s : cstate) : Prop :=
  CoveredResize s id n /\ LenFits s n.

Definition cov_flush_d (h : handle) (s : cstate) : Prop :=
  h_dirty h = true -> CWd (h_id h) (h_off h) (buf_filled (h_buf h)) s.

(* the case hypothesis of a handle operation (as HandleFrame.covered_op, plus
   the length bound) *)
Definition covered_op_d (o : op) (h : handle) (s : cstate) : Prop :=
  match o with
  | OHRead _ _ | OHFill _ | OHWrite _ _ | OHSeek _ _ _ | OHFlush _ | OHDrop _ => cov_flush_d h s
  | OHSetLen _ n =>
      cov_flush_d h s /\
      (n <> h_total h -> CRd (h_id h) n (fst (flush_changes' h s)))
  | _ => True
  end.

Lemma covered_op_d_weaken : forall o h s, covered_op_d o h s -> covered_op o h s.
Proof.
  intros o h s H. destruct o; cbn [covered_op_d covered_op] in *; try exact I;
    try (intro Hd; exact (proj1 (H Hd))).
  destruct H as [H1 H2]. split; [intro Hd; exact (proj1 (H1 Hd))|].
  intro Hn. exact (proj1 (H2 Hn)).
Qed.

Lemma cd_rd : forall id off n s, CohData s ->
  CohData (fst (read_data id off n s)) /\ StoreFrame id s (fst (read_data id off n s)).
Proof. intros. rewrite read_data_pure. split; [assumption|apply StoreFrame_refl]. Qed.
Lemma cd_sl : forall id s, CohData s ->
  CohData (fst (stream_len_of id s)) /\ StoreFrame id s (fst (stream_len_of id s)).
Proof. intros. rewrite stream_len_of_pure. split; [assumption|apply StoreFrame_refl]. Qed.
Lemma cd_wr : forall id off bs s, CohData s -> CWd id off bs s ->
  CohData (fst (write_data id off bs s)) /\ StoreFrame id s (fst (write_data id off bs s)).
Proof.
  intros id off bs s HG [HC HL]. destruct (write_data_cohdata s id off bs HG HC HL) as (s' & E & H).
  rewrite E. exact H.
Qed.
Lemma cd_rs : forall id n s, CohData s -> CRd id n s ->
  CohData (fst (resize id n s)) /\ StoreFrame id s (fst (resize id n s)).
Proof.
  intros id n s HG [HC HL]. destruct (resize_cohdata s id n HG HC HL) as (s' & E & H).
  rewrite E. exact H.
Qed.

(* every covered handle operation keeps the invariant -- not only the flush:
   unflushed bytes live in the handle, never in the cached tables *)
Theorem hop_run_cohdata : forall o h s,
  CohData s -> covered_op_d o h s ->
  CohData (fst (hop_run o h s)) /\ StoreFrame (h_id h) s (fst (hop_run o h s)).
Proof.
  intros o h s HA HC.
  pose proof (h_read_C cstate read_data write_data stream_len_of CohData StoreFrame CWd
                StoreFrame_refl StoreFrame_trans cd_rd cd_sl cd_wr) as Xread.
  pose proof (h_fill_buf_C cstate read_data write_data stream_len_of CohData StoreFrame CWd
                StoreFrame_refl StoreFrame_trans cd_rd cd_sl cd_wr) as Xfill.
  pose proof (h_write_C cstate write_data stream_len_of CohData StoreFrame CWd
                StoreFrame_refl StoreFrame_trans cd_sl cd_wr) as Xwrite.
  pose proof (h_seek_C cstate write_data stream_len_of CohData StoreFrame CWd
                StoreFrame_refl StoreFrame_trans cd_sl cd_wr) as Xseek.
  pose proof (h_set_len_C cstate write_data resize stream_len_of CohData StoreFrame CWd CRd
                StoreFrame_refl StoreFrame_trans cd_sl cd_wr cd_rs) as Xsetlen.
  pose proof (h_flush_C cstate write_data stream_len_of CohData StoreFrame CWd
                StoreFrame_refl StoreFrame_trans cd_sl cd_wr) as Xflush.
  pose proof (flush_changes_C cstate write_data stream_len_of CohData StoreFrame CWd
                StoreFrame_refl StoreFrame_trans cd_sl cd_wr) as Xfc.
  destruct o; cbn [hop_run covered_op_d] in *; cbv zeta; cbn [fst snd];
    try (split; [exact HA|apply StoreFrame_refl]).
  - exact (proj1 (Xread h n s HA HC)).
  - exact (proj1 (Xfill h s HA HC)).
  - exact (proj1 (Xwrite h bs s HA HC)).
  - exact (proj1 (Xseek h w z s HA HC)).
  - destruct HC as [HC1 HC2]. exact (proj1 (Xsetlen h n s HA HC1 HC2)).
  - exact (proj1 (Xflush h s HA HC)).
  - exact (proj1 (Xfc h s HA HC)).
Qed.

(* C02 for a handle operation: whatever it returns, the file it leaves reopens
   from its bytes alone, in both modes, to the cached tables; every other
   stream holds the same bytes in the reopened file *)
Theorem handle_op_persists : forall f now o i h f' r,
  is_handle_op o i -> nthN (hs f) i = Some (Some h) ->
  CohData (cs f) -> covered_op_d o h (cs f) ->
  step f now o = (f', r) ->
  CohData (cs f') /\
  (forall strict, open_model strict (concat_img (img (cs f'))) = Ok (reopened (cs f'))) /\
  (forall id' V', id' <> h_id h -> stream_content (cs f) id' V' ->
     stream_content (reopened (cs f')) id' V').
Proof.
  intros f now o i h f' r Ho Hh HA HC H.
  destruct (step_handle_shape f now o i h f' r Ho Hh H) as (E1 & _ & _).
  destruct (hop_run_cohdata o h (cs f) HA HC) as (HA' & _ & _ & F3).
  rewrite E1. split; [exact HA'|]. split; [exact (cohdata_reopens _ HA')|].
  intros id' V' Hne HV. apply stream_content_reopened. exact (F3 id' V' Hne HV).
Qed.

(* ---- the flush: the bytes buffered in the handle reach the disk ---- *)
From Cfb.spec Require VecSpec.

(* the stream as seen through the handle: the stored bytes with the dirty
   window laid over them (VecSpec.absV) *)
Notation absV := VecSpec.absV.

Lemma stream_len_of_exec : forall s id e, nthN (dirs s) id = Some e ->
  stream_len_of id s = (s, Ok (d_len e)).
Proof.
  intros s id e He. unfold stream_len_of. rewrite (bind_exec _ _ _ _ _ (dir_entry_exec s id e He)).
  reflexivity.
Qed.

Lemma stream_content_entry : forall s id V, stream_content s id V ->
  exists e, nthN (dirs s) id = Some e.
Proof.
  intros s id V [(e & ids & He & _)|[(e & rids & mids & He & _)|(e & He & _)]]; exists e; exact He.
Qed.

Theorem flush_changes_covered : forall h s V,
  CohData s -> cov_flush_d h s -> stream_content s (h_id h) V ->
  exists s' h',
    flush_changes' h s = (s', Ok h') /\ h_dirty h' = false /\ h_id h' = h_id h /\
    CohData s' /\ stream_content s' (h_id h) (absV h V) /\
    (forall id' V', id' <> h_id h -> stream_content s id' V' -> stream_content s' id' V').
Proof.
  intros h s V HG HC HV. unfold flush_changes', flush_changes, VecSpec.absV.
  destruct (h_dirty h) eqn:Ed.
  - destruct (HC Ed) as [HCW HL].
    destruct (write_data_cohdata s _ _ _ HG HCW HL) as (s' & Hrun & HG' & (_ & Hent & Hoth)).
    rewrite Hrun.
    destruct (stream_content_entry _ _ _ HV) as (e & He).
    destruct (Hent e He) as (e' & He' & _).
    rewrite (stream_len_of_exec s' (h_id h) e' He').
    eexists s', _. split; [reflexivity|]. cbn [h_dirty h_id].
    split; [reflexivity|]. split; [reflexivity|]. split; [exact HG'|]. split; [|exact Hoth].
    exact (covered_write_content s _ _ _ V s' (proj2 HG) HCW HV Hrun).
  - exists s, h. split; [reflexivity|]. split; [exact Ed|]. split; [reflexivity|].
    split; [exact HG|]. split; [exact HV|]. auto.
Qed.

(* OHFlush through the step function: it succeeds, the handle is clean, the
   invariant holds, the bytes alone reopen in both modes, and the reopened file
   holds what the handle showed *)
Theorem flush_persists : forall f now i h V f' r,
  nthN (hs f) i = Some (Some h) ->
  CohData (cs f) -> cov_flush_d h (cs f) -> stream_content (cs f) (h_id h) V ->
  step f now (OHFlush i) = (f', r) ->
  r = Ok VUnit /\
  (exists h', nthN (hs f') i = Some (Some h') /\ h_dirty h' = false /\ h_id h' = h_id h) /\
  CohData (cs f') /\
  (forall strict, open_model strict (concat_img (img (cs f'))) = Ok (reopened (cs f'))) /\
  stream_content (reopened (cs f')) (h_id h) (absV h V) /\
  (forall id' V', id' <> h_id h -> stream_content (cs f) id' V' ->
     stream_content (reopened (cs f')) id' V').
Proof.
  intros f now i h V f' r Hh HG HC HV H.
  destruct (flush_changes_covered h (cs f) V HG HC HV) as (s' & h' & E & Hd & Hid & HG' & HV' & Hoth).
  cbn [step] in H. unfold with_handle in H. rewrite Hh in H.
  unfold h_flush', h_flush in H. unfold flush_changes' in E. rewrite E in H.
  injection H as <- <-. cbn [cs hs rmap rbind].
  split; [reflexivity|]. split.
  - exists h'. split; [|split; assumption].
    apply nthN_updN_same. eapply nthN_Some_lt. exact Hh.
  - split; [exact HG'|]. split; [exact (cohdata_reopens _ HG')|].
    split; [apply stream_content_reopened; exact HV'|].
    intros id' V' Hne HV2. apply stream_content_reopened. exact (Hoth id' V' Hne HV2).
Qed.

(* OHDrop: the final flush of a dropped handle, same conclusion *)
Theorem drop_persists : forall f now i h V f' r,
  nthN (hs f) i = Some (Some h) ->
  CohData (cs f) -> cov_flush_d h (cs f) -> stream_content (cs f) (h_id h) V ->
  step f now (OHDrop i) = (f', r) ->
  r = Ok VUnit /\ nthN (hs f') i = Some None /\
  CohData (cs f') /\
  (forall strict, open_model strict (concat_img (img (cs f'))) = Ok (reopened (cs f'))) /\
  stream_content (reopened (cs f')) (h_id h) (absV h V) /\
  (forall id' V', id' <> h_id h -> stream_content (cs f) id' V' ->
     stream_content (reopened (cs f')) id' V').
Proof.
  intros f now i h V f' r Hh HG HC HV H.
  destruct (flush_changes_covered h (cs f) V HG HC HV) as (s' & h' & E & Hd & Hid & HG' & HV' & Hoth).
  cbn [step] in H. unfold drop_handle, drop_result in H. rewrite Hh, E in H.
  injection H as <- <-. cbn [cs hs snd].
  split; [reflexivity|]. split; [apply nthN_updN_same; eapply nthN_Some_lt; exact Hh|].
  split; [exact HG'|]. split; [exact (cohdata_reopens _ HG')|].
  split; [apply stream_content_reopened; exact HV'|].
  intros id' V' Hne HV2. apply stream_content_reopened. exact (Hoth id' V' Hne HV2).
Qed.

(* Write then Flush on the same handle.  After the write the invariant holds
   already (the new bytes sit in the handle); after the flush they are in the
   file the bytes reopen to. *)
Theorem write_flush_persists : forall f now1 now2 i h bs f1 r1 h1 V1 f2 r2,
  nthN (hs f) i = Some (Some h) -> CohData (cs f) ->
  covered_op_d (OHWrite i bs) h (cs f) ->
  step f now1 (OHWrite i bs) = (f1, r1) ->
  nthN (hs f1) i = Some (Some h1) -> cov_flush_d h1 (cs f1) ->
  stream_content (cs f1) (h_id h1) V1 ->
  step f1 now2 (OHFlush i) = (f2, r2) ->
  (CohData (cs f1) /\
   forall strict, open_model strict (concat_img (img (cs f1))) = Ok (reopened (cs f1))) /\
  r2 = Ok VUnit /\ CohData (cs f2) /\
  (forall strict, open_model strict (concat_img (img (cs f2))) = Ok (reopened (cs f2))) /\
  stream_content (reopened (cs f2)) (h_id h1) (absV h1 V1).
Proof.
  intros f now1 now2 i h bs f1 r1 h1 V1 f2 r2 Hh HG HC S1 Hh1 HC1 HV1 S2.
  destruct (handle_op_persists f now1 (OHWrite i bs) i h f1 r1 eq_refl Hh HG HC S1) as (HG1 & HR1 & _).
  destruct (flush_persists f1 now2 i h1 V1 f2 r2 Hh1 HG1 HC1 HV1 S2) as (E & _ & HG2 & HR2 & HV2 & _).
  split; [split; assumption|]. split; [exact E|]. split; [exact HG2|]. split; assumption.
Qed.

(* ================================================================== *)
(* 11. metadata updates on files that hold data                        *)
(* ================================================================== *)

(* a setter that keeps what Directory::validate and the store look at *)
Definition payload_keep (f : dirent -> dirent) : Prop :=
  forall e, nav_eq e (f e) /\ d_start (f e) = d_start e /\ d_len (f e) = d_len e.

Theorem dir_validate_updN_len : forall strict ds id e e',
  nthN ds id = Some e -> nav_eq e e' -> d_len e' = d_len e ->
  dir_validate strict (updN ds id e') = dir_validate strict ds.
Proof.
  intros strict ds id e e' He Hn Hl.
  destruct (N.eq_dec id 0) as [->|Hid]; [|eapply dir_validate_updN; eassumption].
  unfold dir_validate. destruct ds as [|root t]; [reflexivity|].
  cbn [nthN N.eqb] in He. injection He as ->.
  pose proof (tbl_nav_updN (e :: t) 0 e e' eq_refl Hn) as HT.
  cbn [updN N.eqb] in *. rewrite Hl.
  destruct (negb (d_len e mod MINI_SECTOR_LEN =? 0)); [reflexivity|].
  cbn [length]. apply dir_dfs_nav. exact HT.
Qed.

(* a read-modify-write of one entry by such a setter keeps [Coherent] *)
Theorem wdem_coherent : forall s s' id f e,
  Coherent s ->
  (forall dids mids, DirCoherence.dir_ids s dids -> DirCoherence.minifat_ids s mids ->
     avoids dids mids) ->
  nthN (dirs s) id = Some e ->
  nav_eq e (f e) -> d_len (f e) = d_len e -> CodecProofs.dirent_wf (ver s) (f e) ->
  with_dir_entry_mut id f s = (s', Ok tt) ->
  Coherent s' /\ dirs s' = updN (dirs s) id (f e) /\
  exists dids, DirCoherence.dir_ids s dids /\ dframe dids s s'.
Proof.
  intros s1 s' id f e HC Hdm He Hnav Hlen Hwf H.
  apply Coherent_split in HC. destruct HC as [C [D1 D2 D3 D4]].
  pose proof D1 as (dids & Hids & Hg & Hcap & _).
  assert (HD : DH dids s1).
  { split; [exact Hids|]. split; [exact Hg|]. split; [unfold DIR_ENTRY_LEN in Hcap; exact Hcap|].
    exact (cc_nsect s1 C). }
  destruct (dstep_with_dir_entry_mut dids id _ s1 s' tt HD H) as [HD' F].
  destruct (MutRefine.wdem_inv _ _ _ _ _ H) as (e0 & He0 & Ed).
  rewrite He in He0. injection He0 as <-.
  unfold modN in Ed. rewrite He in Ed.
  pose proof F as (F1 & _ & _ & _ & _ & _ & _ & F8 & _).
  split; [|split; [exact Ed|exists dids; split; assumption]].
  apply Coherent_split. split.
  - eapply (core_dframe dids); [exact C|exact F| |].
    + eapply chain_avoids_difat; [exact C|exact Hids].
    + intros mids Hm. exact (Hdm dids mids Hids Hm).
  - constructor.
    + eapply DirCoherence.with_dir_entry_mut_coherent; eassumption.
    + intros e2 Hin. rewrite Ed in Hin. rewrite F1.
      destruct (In_updN _ _ _ _ _ Hin) as [->|Hold]; [exact Hwf|apply D2; exact Hold].
    + rewrite Ed. rewrite (dir_validate_updN_len true (dirs s1) id e _ He Hnav Hlen). exact D3.
    + intros root Hr. rewrite Ed in Hr. rewrite F8.
      destruct (N.eq_dec id 0) as [->|Hid].
      * rewrite nthN_updN_same in Hr by (eapply nthN_Some_lt; exact He). injection Hr as <-.
        rewrite Hlen. apply D4. exact He.
      * rewrite nthN_updN_other in Hr by congruence. apply D4. exact Hr.
Qed.

(* ---- the chains and the contents do not see such an update ---- *)
Section MetaFacts.
Variables (s s' : cstate) (id : N) (e e' : dirent) (dids : list N).
Hypothesis HF : dframe dids s s'.
Hypothesis Hdids : DirCoherence.dir_ids s dids.
Hypothesis Ed : dirs s' = updN (dirs s) id e'.
Hypothesis He : nthN (dirs s) id = Some e.
Hypothesis Hnav : nav_eq e e'.
Hypothesis Hst : d_start e' = d_start e.
Hypothesis Hln : d_len e' = d_len e.

Let m_fat : fat s' = fat s. Proof. apply HF. Qed.
Let m_minifat : minifat s' = minifat s. Proof. apply HF. Qed.
Let m_slen : slen s' = slen s. Proof. eapply dframe_slen. exact HF. Qed.

Lemma m_id : nthN (dirs s') id = Some e'.
Proof. rewrite Ed. apply nthN_updN_same. eapply nthN_Some_lt. exact He. Qed.
Lemma m_other : forall j, j <> id -> nthN (dirs s') j = nthN (dirs s) j.
Proof. intros j Hj. rewrite Ed. apply nthN_updN_other. congruence. Qed.

(* every entry of s' has a twin in s with the same type, start, length, name *)
Lemma m_back : forall j x', nthN (dirs s') j = Some x' ->
  exists x, nthN (dirs s) j = Some x /\ d_type x' = d_type x /\ d_start x' = d_start x /\
            d_len x' = d_len x /\ d_name x' = d_name x.
Proof.
  intros j x' H. destruct (N.eq_dec j id) as [->|Hne].
  - rewrite m_id in H. injection H as <-. exists e. destruct Hnav as (A & B & _). auto.
  - rewrite m_other in H by exact Hne. exists x'. auto.
Qed.
Lemma m_fwd : forall j x, nthN (dirs s) j = Some x ->
  exists x', nthN (dirs s') j = Some x' /\ d_type x' = d_type x /\ d_start x' = d_start x /\
             d_len x' = d_len x /\ d_name x' = d_name x.
Proof.
  intros j x H. destruct (N.eq_dec j id) as [->|Hne].
  - rewrite He in H. injection H as <-. exists e'. destruct Hnav as (A & B & _). split; [exact m_id|auto].
  - exists x. rewrite m_other by exact Hne. auto.
Qed.

Lemma m_big_back : forall j l, big_ids s' j l -> big_ids s j l.
Proof.
  intros j l (x' & Hx & Ht & Hc & Hch). destruct (m_back j x' Hx) as (x & Hx0 & A & B & C & _).
  exists x. rewrite <- A, <- B, <- C, <- m_fat. auto.
Qed.
Lemma m_small_back : forall j l, small_ids s' j l -> small_ids s j l.
Proof.
  intros j l (x' & Hx & Ht & H0 & Hc & Hch). destruct (m_back j x' Hx) as (x & Hx0 & A & B & C & _).
  exists x. rewrite <- A, <- B, <- C, <- m_minifat. auto.
Qed.
Lemma m_root_back : forall l, root_ids s' l -> root_ids s l.
Proof.
  intros l (r' & Hr & Hch). destruct (m_back _ r' Hr) as (r & Hr0 & _ & B & _).
  exists r. rewrite <- B, <- m_fat. auto.
Qed.
Lemma m_root_fwd : forall l, root_ids s l -> root_ids s' l.
Proof.
  intros l (r & Hr & Hch). destruct (m_fwd _ r Hr) as (r' & Hr0 & _ & B & _).
  exists r'. rewrite B, m_fat. auto.
Qed.
Lemma m_dir_back : forall l, StoreProofs.dir_ids s' l -> StoreProofs.dir_ids s l.
Proof.
  intros l H. unfold StoreProofs.dir_ids in *. rewrite m_fat in H.
  replace (dir_start s') with (dir_start s) in H by (symmetry; apply HF). exact H.
Qed.
Lemma m_mfat_back : forall l, mfat_ids s' l -> mfat_ids s l.
Proof.
  intros l H. unfold mfat_ids in *. rewrite m_fat in H.
  replace (minifat_start s') with (minifat_start s) in H by (symmetry; apply HF). exact H.
Qed.

Lemma m_shape : same_shape s s'.
Proof.
  destruct HF as (F1 & F2 & F3 & F4 & F5 & F6 & F7 & F8 & F9 & F10 & F11 & F12 & F13 & F14 & F15).
  unfold same_shape. csplit; assumption.
Qed.

Lemma StoreWf_meta : StoreWf s -> StoreWf s'.
Proof.
  intros [Wa Wn Wd Wnm Wdd Wfn Wfd Wdf].
  pose proof m_shape as Hsh.
  pose proof Hsh as (Hn & Hv & Hi & Hl & Hfat & Hfree & Hdifat & Hds & _).
  constructor.
  - eapply AllocWf_shape; eassumption.
  - rewrite Hn. exact Wn.
  - destruct Wd as (dd & D1 & D2 & D3). exists dd. split; [|split].
    + unfold StoreProofs.dir_ids in *. rewrite Hfat, Hds. exact D1.
    + eapply good_chain_shape; eassumption.
    + rewrite Ed, lenN_updN, m_slen. exact D3.
  - intros i x' Hx. destruct (m_back i x' Hx) as (x & Hx0 & _ & _ & _ & D). rewrite D. eapply Wnm. exact Hx0.
  - intros i l dl Hb Hd. eapply Wdd; [apply m_big_back; exact Hb | apply m_dir_back; exact Hd].
  - rewrite Hfree. exact Wfn.
  - intros x Hx. rewrite Hfree in Hx. destruct (Wfd x Hx) as (F1 & F2 & F3).
    split; [|split].
    + intros i l Hb. eapply F1. apply m_big_back. exact Hb.
    + intros l Hd. apply F2. apply m_dir_back. exact Hd.
    + rewrite Hdifat. exact F3.
  - intros f Hf. rewrite Hdifat in Hf. destruct (Wdf f Hf) as (F1 & F2).
    split.
    + intros i l Hb. eapply F1. apply m_big_back. exact Hb.
    + intros l Hd. apply F2. apply m_dir_back. exact Hd.
Qed.

Theorem AllStreamsWf_meta : AllStreamsWf s -> AllStreamsWf s'.
Proof.
  intros [A1 A2 A3 A4 A5 A6 A7 A8]. constructor.
  - apply StoreWf_meta. exact A1.
  - intros i j l1 l2 Hij H1 H2. exact (A2 i j l1 l2 Hij (m_big_back _ _ H1) (m_big_back _ _ H2)).
  - intros r d H1 H2. exact (A3 r d (m_root_back _ H1) (m_dir_back _ H2)).
  - intros r i l H1 H2. exact (A4 r i l (m_root_back _ H1) (m_big_back _ _ H2)).
  - intros l d H1 H2. exact (A5 l d (m_mfat_back _ H1) (m_dir_back _ H2)).
  - intros l r H1 H2. exact (A6 l r (m_mfat_back _ H1) (m_root_back _ H2)).
  - intros l i l2 H1 H2. exact (A7 l i l2 (m_mfat_back _ H1) (m_big_back _ _ H2)).
  - intros i j m1 m2 Hij H1 H2. exact (A8 i j m1 m2 Hij (m_small_back _ _ H1) (m_small_back _ _ H2)).
Qed.

(* every stream, the updated one included, keeps its bytes *)
Theorem stream_content_meta : AllStreamsWf s -> forall j V,
  stream_content s j V -> stream_content s' j V.
Proof.
  intros HA j V HV.
  assert (Hsec : forall l, avoids l dids -> forall x, In x l -> sector_bytes s' x = sector_bytes s x).
  { intros l Ha x Hx. destruct HF as (_ & _ & _ & _ & _ & _ & _ & _ & _ & _ & _ & _ & F13 & _).
    apply F13. intro Hin. exact (Ha x Hx Hin). }
  destruct HV as [(x & ids & Hx & Ht & Hc & Hch & Hg & Hle & HV)|[(x & rids & mids & Hx & Ht & Hc & Hp & Hch & (Hroot & Hg & Hnd & HFm) & Hle & HV)|(x & Hx & Ht & Hl & HV)]].
  - destruct (m_fwd j x Hx) as (x' & Hx' & A & B & C & _).
    assert (Hb : big_ids s j ids) by (exists x; csplit; assumption).
    pose proof (sw_dir_disj s (aw_store s HA) j ids dids Hb Hdids) as Hdisj.
    left. exists x', ids. rewrite A, B, C, m_fat, m_slen.
    rewrite (chain_content_same s s' ids (Hsec ids Hdisj)).
    csplit; try assumption. eapply good_chain_dframe; eassumption.
  - destruct (m_fwd j x Hx) as (x' & Hx' & A & B & C & _).
    pose proof (aw_root_dir s HA rids dids Hroot Hdids) as Hdisj.
    right; left. exists x', rids, mids. unfold small_at. rewrite A, B, C, m_minifat.
    csplit; try assumption.
    + split; [apply m_root_fwd; exact Hroot|]. split; [eapply good_chain_dframe; eassumption|].
      split; [exact Hnd|]. rewrite m_slen. exact HFm.
    + rewrite HV. f_equal. unfold mchain_content. f_equal. apply map_ext. intro ms.
      unfold mini_bytes, mini_stream. rewrite (chain_content_same s s' rids (Hsec rids Hdisj)). reflexivity.
  - destruct (m_fwd j x Hx) as (x' & Hx' & A & B & C & _).
    right; right. exists x'. rewrite A, C. auto.
Qed.
End MetaFacts.

Theorem wdem_cohdata : forall s s' id f e,
  CohData s -> payload_keep f -> nthN (dirs s) id = Some e ->
  CodecProofs.dirent_wf (ver s) (f e) ->
  with_dir_entry_mut id f s = (s', Ok tt) ->
  CohData s' /\ (forall j V, stream_content s j V -> stream_content s' j V).
Proof.
  intros s s' id f e [HC HA] Hf He Hwf H.
  destruct (Hf e) as (Hnav & Hst & Hln).
  destruct (wdem_coherent s s' id f e HC (cohdata_dir_mini s HA) He Hnav Hln Hwf H)
    as (HC' & Ed & dids & Hdids & F).
  split; [split; [exact HC'|]|].
  - exact (AllStreamsWf_meta s s' id e (f e) dids F Ed He Hnav Hst Hln HA).
  - exact (stream_content_meta s s' id e (f e) dids F Hdids Ed He Hnav Hst Hln HA).
Qed.

(* the four metadata setters of the API keep what matters *)
Lemma wf_set_state : forall v e x, CodecProofs.dirent_wf v e -> x <= u32_max ->
  CodecProofs.dirent_wf v (set_state e x).
Proof. intros v e x [W1 W2 W3 W4 W5 W6 W7 W8 W9 W10 W11 W12 W13] Hx. constructor; wf_fields; assumption. Qed.
Lemma wf_set_clsid : forall v e x, CodecProofs.dirent_wf v e -> x < 2 ^ 128 -> d_type e <> TStream ->
  CodecProofs.dirent_wf v (set_clsid e x).
Proof.
  intros v e x [W1 W2 W3 W4 W5 W6 W7 W8 W9 W10 W11 W12 W13] Hx Ht.
  constructor; wf_fields; try assumption. intro Hs. contradiction.
Qed.
Lemma wf_set_ctime : forall v e x, CodecProofs.dirent_wf v e -> x <= u64_max -> d_type e <> TStream ->
  CodecProofs.dirent_wf v (set_ctime e x).
Proof.
  intros v e x [W1 W2 W3 W4 W5 W6 W7 W8 W9 W10 W11 W12 W13] Hx Ht.
  constructor; wf_fields; try assumption. intro Hs. contradiction.
Qed.
Lemma wf_set_mtime : forall v e x, CodecProofs.dirent_wf v e -> x <= u64_max -> d_type e <> TStream ->
  CodecProofs.dirent_wf v (set_mtime e x).
Proof.
  intros v e x [W1 W2 W3 W4 W5 W6 W7 W8 W9 W10 W11 W12 W13] Hx Ht.
  constructor; wf_fields; try assumption. intro Hs. contradiction.
Qed.

Lemma coherent_DH : forall s, Coherent s -> exists dids, DH dids s.
Proof.
  intros s HC. destruct (ch_dir s HC) as (dids & H1 & H2 & H3 & _). exists dids.
  split; [exact H1|]. split; [exact H2|]. split; [unfold DIR_ENTRY_LEN in H3; exact H3|exact (ch_nsect s HC)].
Qed.

Lemma coherent_name_len : forall s id e, Coherent s -> nthN (dirs s) id = Some e ->
  lenN (utf16 (d_name e)) <= 31.
Proof.
  intros s id e HC He. pose proof (ch_dir_wf s HC e (nthN_In _ _ _ _ He)) as W.
  exact (CodecProofs.wf_name_len _ _ (CodecProofs.wf_name _ _ W)).
Qed.

(* set_entry_with_path either runs the read-modify-write to the end or leaves
   the state untouched, whatever it returns *)
Lemma set_entry_cases : forall p f s s' r,
  Coherent s -> (forall e, d_name (f e) = d_name e) ->
  set_entry_with_path p f s = (s', r) ->
  (r = Ok tt /\ exists id e, nthN (dirs s) id = Some e /\ with_dir_entry_mut id f s = (s', Ok tt)) \/
  s' = s.
Proof.
  intros p f s s' r HC Hf H. unfold set_entry_with_path, names_of in H.
  unfold bind at 1 in H. unfold lift at 1 in H.
  destruct (name_chain_from_path p) as [names| | |]; try (injection H as <- _; right; reflexivity).
  unfold bind at 1 in H. rewrite QueryRefine.q_lookup_run in H.
  destruct (lookup_chain (dirs s) names ROOT_STREAM_ID) as [ro| | |];
    try (injection H as <- _; right; reflexivity).
  destruct ro as [id|]; [|injection H as <- _; right; reflexivity].
  destruct (nthN (dirs s) id) as [e|] eqn:He.
  - destruct (coherent_DH s HC) as (dids & HD).
    destruct (wdem_total dids s id f e HD He) as (s2 & E).
    + rewrite Hf. eapply coherent_name_len; eassumption.
    + rewrite E in H. injection H as <- <-. left. split; [reflexivity|]. exists id, e. auto.
  - unfold with_dir_entry_mut, with_dir_entry_mut_inner in H. unfold bind at 1 in H.
    rewrite QueryRefine.q_dir_entry_run in H. unfold dir_entry_of in H. rewrite He in H.
    injection H as <- _. right. destruct s; reflexivity.
Qed.

Lemma set_clsid_cases : forall p g s s' r,
  Coherent s -> api_set_clsid p g s = (s', r) ->
  (r = Ok tt /\ exists id e, nthN (dirs s) id = Some e /\ d_type e <> TStream /\
     with_dir_entry_mut id (fun e0 => set_clsid e0 g) s = (s', Ok tt)) \/
  s' = s.
Proof.
  intros p g s s' r HC H. unfold api_set_clsid, names_of in H.
  unfold bind at 1 in H. unfold lift at 1 in H.
  destruct (name_chain_from_path p) as [names| | |]; try (injection H as <- _; right; reflexivity).
  unfold bind at 1 in H. rewrite QueryRefine.q_lookup_run in H.
  destruct (lookup_chain (dirs s) names ROOT_STREAM_ID) as [ro| | |];
    try (injection H as <- _; right; reflexivity).
  destruct ro as [id|]; [|injection H as <- _; right; reflexivity].
  unfold bind at 1 in H. rewrite QueryRefine.q_dir_entry_run in H. unfold dir_entry_of in H.
  destruct (nthN (dirs s) id) as [e|] eqn:He; [|injection H as <- _; right; reflexivity].
  destruct (objtype_eqb (d_type e) TStream) eqn:T; [injection H as <- _; right; reflexivity|].
  destruct (coherent_DH s HC) as (dids & HD).
  destruct (wdem_total dids s id (fun e0 => set_clsid e0 g) e HD He) as (s2 & E).
  - cbn [set_clsid d_name]. eapply coherent_name_len; eassumption.
  - rewrite E in H. injection H as <- <-. left. split; [reflexivity|]. exists id, e.
    split; [exact He|]. split; [apply objtype_eqb_false; exact T|exact E].
Qed.

Definition meta_op (o : op) : Prop :=
  match o with
  | OSetClsid _ g => g < 2 ^ 128
  | OSetState _ bits => bits <= u32_max
  | OSetCreated _ _ _ _ | OSetModified _ _ _ _ => True
  | _ => False
  end.

(* a metadata call of the API on a file that holds data: the invariant is kept
   and no stream changes its bytes, whatever the call returns *)
Theorem meta_step_cohdata : forall f now o,
  CohData (cs f) -> meta_op o ->
  CohData (cs (fst (step f now o))) /\
  (forall j V, stream_content (cs f) j V -> stream_content (cs (fst (step f now o))) j V).
Proof.
  intros f now o HG Ho. pose proof HG as [HC HA].
  assert (Hsame : forall s', s' = cs f -> CohData s' /\
            (forall j V, stream_content (cs f) j V -> stream_content s' j V)).
  { intros s' ->. split; [exact HG|auto]. }
  destruct o; cbn [meta_op] in Ho; try contradiction; cbn [step]; unfold with_cs.
  - (* set_clsid *)
    destruct (api_set_clsid p g (cs f)) as [s' r] eqn:E. cbn [fst cs].
    destruct (set_clsid_cases p g (cs f) s' r HC E) as [(-> & id & e & He & Ht & Hw)|Hs]; [|exact (Hsame s' Hs)].
    refine (wdem_cohdata (cs f) s' id _ e HG _ He _ Hw).
    + intro e0. unfold nav_eq. cbn [set_clsid d_name d_type d_color d_left d_right d_child d_start d_len].
      repeat split.
    + apply wf_set_clsid; [apply (ch_dir_wf _ HC); eapply nthN_In; exact He|exact Ho|exact Ht].
  - (* set_state *)
    destruct (api_set_state p bits (cs f)) as [s' r] eqn:E. cbn [fst cs]. unfold api_set_state in E.
    destruct (set_entry_cases p (fun e0 => set_state e0 bits) (cs f) s' r HC ltac:(reflexivity) E) as [(-> & id & e & He & Hw)|Hs];
      [|exact (Hsame s' Hs)].
    refine (wdem_cohdata (cs f) s' id _ e HG _ He _ Hw).
    + intro e0. unfold nav_eq. cbn [set_state d_name d_type d_color d_left d_right d_child d_start d_len].
      repeat split.
    + apply wf_set_state; [apply (ch_dir_wf _ HC); eapply nthN_In; exact He|exact Ho].
  - (* set_created *)
    destruct (api_set_created p before secs nanos (cs f)) as [s' r] eqn:E. cbn [fst cs].
    unfold api_set_created in E.
    destruct (set_entry_cases p (fun e0 => if objtype_eqb (d_type e0) TStream then e0
                                           else set_ctime e0 (from_system_time before secs nanos)) (cs f) s' r HC
                ltac:(intro e0; cbv beta; destruct (objtype_eqb (d_type e0) TStream); reflexivity) E)
      as [(-> & id & e & He & Hw)|Hs]; [|exact (Hsame s' Hs)].
    refine (wdem_cohdata (cs f) s' id _ e HG _ He _ Hw).
    + intro e0. cbv beta. unfold nav_eq. destruct (objtype_eqb (d_type e0) TStream);
        cbn [set_ctime d_name d_type d_color d_left d_right d_child d_start d_len]; repeat split.
    + cbv beta. pose proof (ch_dir_wf _ HC e (nthN_In _ _ _ _ He)) as W.
      destruct (objtype_eqb (d_type e) TStream) eqn:T; [exact W|].
      apply wf_set_ctime; [exact W|apply TimeProofs.from_time_range|apply objtype_eqb_false; exact T].
  - (* set_modified *)
    destruct (api_set_modified p before secs nanos (cs f)) as [s' r] eqn:E. cbn [fst cs].
    unfold api_set_modified in E.
    destruct (set_entry_cases p (fun e0 => if objtype_eqb (d_type e0) TStream then e0
                                           else set_mtime e0 (from_system_time before secs nanos)) (cs f) s' r HC
                ltac:(intro e0; cbv beta; destruct (objtype_eqb (d_type e0) TStream); reflexivity) E)
      as [(-> & id & e & He & Hw)|Hs]; [|exact (Hsame s' Hs)].
    refine (wdem_cohdata (cs f) s' id _ e HG _ He _ Hw).
    + intro e0. cbv beta. unfold nav_eq. destruct (objtype_eqb (d_type e0) TStream);
        cbn [set_mtime d_name d_type d_color d_left d_right d_child d_start d_len]; repeat split.
    + cbv beta. pose proof (ch_dir_wf _ HC e (nthN_In _ _ _ _ He)) as W.
      destruct (objtype_eqb (d_type e) TStream) eqn:T; [exact W|].
      apply wf_set_mtime; [exact W|apply TimeProofs.from_time_range|apply objtype_eqb_false; exact T].
Qed.

(* ================================================================== *)
(* 7b. histories                                                       *)
(* ================================================================== *)
(* From any state satisfying the invariant (for instance one built by running
   the model, section 8): every sequence of
     - operations on open stream handles whose write-backs and resizes fall in
       the covered store cases (read, fill, consume, write, seek, set_len,
       flush, len, position, drop),
     - opening further handles on existing streams,
     - read-only queries,
   keeps the invariant, so at every point between two calls the bytes of the
   file alone reopen, in both modes, to the cached tables. *)

Lemma pure_handle_new : forall id mb, PersistProofs.pure_m (handle_new' id mb).
Proof.
  intros id mb s. unfold handle_new', handle_new.
  pose proof (stream_len_of_pure id s) as H.
  destruct (stream_len_of id s) as [s1 r]. cbn [fst] in H. subst s1.
  destruct r; reflexivity.
Qed.

Lemma pure_api_open_stream : forall p mb, PersistProofs.pure_m (api_open_stream p mb).
Proof.
  intros. unfold api_open_stream.
  PersistProofs.pm; try apply PersistProofs.pure_names_of; try apply PersistProofs.pure_lookup;
    try apply PersistProofs.pure_dir_entry; apply pure_handle_new.
Qed.

Lemma with_new_handle_pure : forall (f : fstate) i (m : M handle),
  PersistProofs.pure_m m -> cs (fst (with_new_handle f i m)) = cs f.
Proof.
  intros f i m H. unfold with_new_handle. specialize (H (cs f)). destruct (m (cs f)) as [s' r].
  cbn [fst] in H. subst s'. destruct r; reflexivity.
Qed.

Definition query_op (o : op) : Prop :=
  match o with
  | OExists _ | OIsStream _ | OIsStorage _ | OEntry _ | ORootEntry | OReadStorage _
  | OReadRoot | OWalk | OWalkStorage _ | OFlushFile | OVersion | OOpenStream _ _ => True
  | _ => False
  end.

(* what is asked of one step in the state it runs in *)
Definition data_step_ok (f : fstate) (o : op) : Prop :=
  match handle_slot o with
  | Some i => forall h, nthN (hs f) i = Some (Some h) -> covered_op_d o h (cs f)
  | None => query_op o \/ meta_op o
  end.

Fixpoint data_hist_ok (f : fstate) (l : list (N * op)) : Prop :=
  match l with
  | [] => True
  | (now, o) :: t => data_step_ok f o /\ data_hist_ok (fst (step f now o)) t
  end.

Theorem data_step_cohdata : forall f now o,
  CohData (cs f) -> data_step_ok f o -> CohData (cs (fst (step f now o))).
Proof.
  intros f now o HG Hok. unfold data_step_ok in Hok.
  destruct (handle_slot o) as [i|] eqn:Eslot.
  - destruct (nthN (hs f) i) as [[h|]|] eqn:Eh.
    + destruct (step f now o) as [f' r] eqn:Es. cbn [fst].
      exact (proj1 (handle_op_persists f now o i h f' r Eslot Eh HG (Hok h eq_refl) Es)).
    + rewrite (step_no_handle f now o i Eslot); [exact HG|]. intros h E. rewrite Eh in E. discriminate E.
    + rewrite (step_no_handle f now o i Eslot); [exact HG|]. intros h E. rewrite Eh in E. discriminate E.
  - destruct Hok as [Hok|Hm]; [|exact (proj1 (meta_step_cohdata f now o HG Hm))].
    assert (Hsame : cs (fst (step f now o)) = cs f -> CohData (cs (fst (step f now o)))).
    { intros ->. exact HG. }
    destruct o; cbn [query_op] in Hok; try contradiction; cbn [handle_slot] in Eslot;
      try discriminate Eslot; cbn [step].
    + apply Hsame, with_new_handle_pure, pure_api_open_stream.
    + apply Hsame, PersistProofs.with_cs_pure, PersistProofs.pure_api_exists.
    + apply Hsame, PersistProofs.with_cs_pure, PersistProofs.pure_api_is_stream.
    + apply Hsame, PersistProofs.with_cs_pure, PersistProofs.pure_api_is_storage.
    + apply Hsame, PersistProofs.with_cs_pure, PersistProofs.pure_api_entry.
    + apply Hsame, PersistProofs.with_cs_pure, PersistProofs.pure_api_root_entry.
    + apply Hsame, PersistProofs.with_cs_pure, PersistProofs.pure_api_read_storage.
    + apply Hsame, PersistProofs.with_cs_pure, PersistProofs.pure_api_read_root.
    + apply Hsame, PersistProofs.with_cs_pure, PersistProofs.pure_api_walk.
    + apply Hsame, PersistProofs.with_cs_pure, PersistProofs.pure_api_walk_storage.
    + apply Hsame. reflexivity.
    + apply Hsame. reflexivity.
Qed.

Theorem data_history_cohdata : forall l f,
  CohData (cs f) -> data_hist_ok f l -> CohData (cs (fst (run_ops f l))).
Proof.
  induction l as [|[now o] t IH]; intros f HG Hrun; [exact HG|].
  cbn [data_hist_ok] in Hrun. destruct Hrun as [Hok Hrun].
  rewrite run_ops_cons. apply IH; [|exact Hrun].
  apply data_step_cohdata; assumption.
Qed.

Lemma data_hist_ok_app : forall l1 l2 f,
  data_hist_ok f (l1 ++ l2) -> data_hist_ok f l1.
Proof.
  induction l1 as [|[now o] t IH]; intros l2 f H; [exact I|].
  cbn [app data_hist_ok] in *. destruct H as [H1 H2]. split; [exact H1|]. eapply IH. exact H2.
Qed.

(* the round trip at every point of such a history *)
Theorem persist_data_history : forall (l1 l2 : list (N * op)) f,
  CohData (cs f) -> data_hist_ok f (l1 ++ l2) ->
  let f1 := fst (run_ops f l1) in
  forall strict, open_model strict (concat_img (img (cs f1))) = Ok (reopened (cs f1)).
Proof.
  intros l1 l2 f HG Hrun f1 strict. apply cohdata_reopens.
  apply data_history_cohdata; [exact HG|]. eapply data_hist_ok_app. exact Hrun.
Qed.

(* ================================================================== *)
(* 9. growth of a large stream into free sectors                       *)
(* ================================================================== *)

(* what a step of the FAT allocator that takes no new sector from the end of
   the file does: FAT cells of [C] are rewritten (cache and disk), sectors of
   [Z] are re-initialised, nothing else moves *)
Record FR (C Z : list N) (s s' : cstate) : Prop := mkFR {
  fr_G : G s';
  fr_coh : CoherenceProofs.FatCoherent s';
  fr_ver : ver s' = ver s;
  fr_nsect : nsect s' = nsect s;
  fr_difat : difat s' = difat s;
  fr_dids : difat_ids s' = difat_ids s;
  fr_dirs : dirs s' = dirs s;
  fr_dstart : dir_start s' = dir_start s;
  fr_mf : minifat s' = minifat s;
  fr_mstart : minifat_start s' = minifat_start s;
  fr_mfree : mfree s' = mfree s;
  fr_len : lenN (fat s') = lenN (fat s);
  fr_hd : hd [] (img s') = hd [] (img s);
  fr_cells : forall x, ~ In x C -> nthN (fat s') x = nthN (fat s) x;
  fr_sect : forall x, ~ In x (difat s) -> ~ In x Z -> sector_bytes s' x = sector_bytes s x
}.

Lemma FR_trans : forall C1 Z1 C2 Z2 a b c,
  FR C1 Z1 a b -> FR C2 Z2 b c -> FR (C1 ++ C2) (Z1 ++ Z2) a c.
Proof.
  intros C1 Z1 C2 Z2 a b c [A1 A2 A3 A4 A5 A6 A7 A8 A9 A10 A11 A12 A13 A14 A15]
                           [B1 B2 B3 B4 B5 B6 B7 B8 B9 B10 B11 B12 B13 B14 B15].
  constructor; try assumption; try congruence.
  - intros x Hx. rewrite B14 by (intro Hin; apply Hx; apply in_or_app; auto).
    apply A14. intro Hin; apply Hx; apply in_or_app; auto.
  - intros x Hd Hx. rewrite B15.
    + apply A15; [exact Hd|]. intro Hin; apply Hx; apply in_or_app; auto.
    + rewrite A5. exact Hd.
    + intro Hin; apply Hx; apply in_or_app; auto.
Qed.

Lemma FR_set_fat : forall s index v s' u,
  G s -> CoherenceProofs.FatCoherent s -> v < 2 ^ 32 -> index < lenN (fat s) ->
  set_fat index v s = (s', Ok u) ->
  FR [index] [] s s' /\ fat s' = updN (fat s) index v /\ free s' = free s.
Proof.
  intros s index v s' u HG HC Hv Hidx H.
  destruct (G_set_fat s index v s' u HG H) as (HG' & Ef & En & Ed & Er & Eh & Hs & _).
  destruct (rest_fields _ _ Er) as (R1 & R2 & R3 & R4 & R5 & R6 & R7 & R8).
  rewrite fat_set_lt in Ef by exact Hidx.
  destruct (WalkProofs.nthN_lt_Some (fat s) index Hidx) as [w Hw].
  destruct (HC index w Hw) as (f & Hd & Hf & Hl & _).
  destruct HG as (_ & _ & Hnd & _).
  destruct u.
  destruct (CoherenceProofs.set_fat_coherent s s' index v f HC Hv ltac:(lia) Hd Hf Hl Hnd H) as (HC' & _).
  split; [|split; assumption].
  constructor; try assumption.
  - rewrite Ef. apply lenN_updN.
  - intros x Hx. rewrite Ef. apply nthN_updN_other. intro E. apply Hx. left. exact E.
  - intros x Hx _. apply Hs. exact Hx.
Qed.

Lemma FR_init_existing : forall s sid i s' u,
  G s -> CoherenceProofs.FatCoherent s -> sid < nsect s -> ~ In sid (difat s) ->
  init_sector sid i s = (s', Ok u) ->
  FR [] [sid] s s' /\ fat s' = fat s /\ free s' = free s /\
  sector_bytes s' sid = init_bytes (ver s) i.
Proof.
  intros s sid i s' u HG HC Hsid Hnd H.
  pose proof HG as (Gi & Gf & Gn & Gl & Gt).
  rewrite (init_sector_exec s sid i Hsid (Gf sid Hsid)) in H. injection H as <- _.
  unfold init_state.
  assert (Hfit : 0 + lenN (init_bytes (ver s) i) <= slen s)
    by (rewrite lenN_init_bytes; unfold slen; lia).
  assert (Hoth : forall x, x <> sid -> sector_bytes (wr s sid 0 (init_bytes (ver s) i)) x = sector_bytes s x).
  { intros x Hx. apply sector_bytes_wr_other. exact Hx. }
  split; [|split; [reflexivity|split; [reflexivity|]]].
  - constructor; try reflexivity.
    + split; [rewrite lenN_img_wr; exact Gi|]. split; [apply full_wr; assumption|].
      split; [exact Gn|]. split; [exact Gl|].
      intros k f m Hk Hm Hge.
      change (sector_bytes (wr s sid 0 (init_bytes (ver s) i)) f = _) || idtac.
      rewrite Hoth by (intro E; subst f; apply Hnd; eapply nthN_In; exact Hk).
      exact (Gt k f m Hk Hm Hge).
    + apply CoherenceProofs.wr_coherent; assumption.
    + unfold wr. cbn [img w_img]. apply hd_updN_pos. lia.
    + intros x _ Hx. apply Hoth. intro E. apply Hx. left. symmetry. exact E.
  - rewrite sector_bytes_wr_same by (apply Gf; exact Hsid).
    apply spliceN_full. rewrite lenN_init_bytes. symmetry. apply Gf. exact Hsid.
Qed.

Lemma FR_w_free : forall s l,
  G s -> CoherenceProofs.FatCoherent s -> FR [] [] s (w_free s l).
Proof.
  intros s l HG HC. constructor; try reflexivity.
  - exact HG.
  - apply CoherenceProofs.w_free_coherent. exact HC.
Qed.

(* allocate_sector when the free stack is not empty *)
Lemma allocate_reuse_FR : forall s sid i s' x,
  G s -> CoherenceProofs.FatCoherent s ->
  lastN (free s) = Some sid -> sid < nsect s -> sid < lenN (fat s) -> ~ In sid (difat s) ->
  allocate_sector i s = (s', Ok x) ->
  x = sid /\ FR [sid] [sid] s s' /\ fat s' = updN (fat s) sid END_OF_CHAIN /\
  free s' = pop_last (free s) /\ sector_bytes s' sid = init_bytes (ver s) i.
Proof.
  intros s sid i s' x HG HC Hfree Hn Hf Hnd H.
  unfold allocate_sector in H. rewrite bind_get, Hfree, bind_modify in H.
  set (s1 := w_free s (pop_last (free s))) in *.
  pose proof (FR_w_free s (pop_last (free s)) HG HC) as F1. fold s1 in F1.
  binv H u1 s2 H1 H. binv H u2 s3 H2 H. apply ret_inv in H. destruct H as [Es Ex]. subst s3 x.
  destruct (FR_set_fat s1 sid END_OF_CHAIN s2 u1 (fr_G _ _ _ _ F1) (fr_coh _ _ _ _ F1)
              ltac:(rewrite EOC_val; lia) ltac:(exact Hf) H1) as (F2 & Ef2 & Efr2).
  destruct (FR_init_existing s2 sid i s' u2 (fr_G _ _ _ _ F2) (fr_coh _ _ _ _ F2)
              ltac:(rewrite (fr_nsect _ _ _ _ F2); exact Hn)
              ltac:(rewrite (fr_difat _ _ _ _ F2); exact Hnd) H2) as (F3 & Ef3 & Efr3 & Hz).
  split; [reflexivity|]. split.
  - pose proof (FR_trans _ _ _ _ _ _ _ (FR_trans _ _ _ _ _ _ _ F1 F2) F3) as F. exact F.
  - split; [rewrite Ef3, Ef2; reflexivity|]. split; [rewrite Efr3, Efr2; reflexivity|].
    rewrite Hz. rewrite (fr_ver _ _ _ _ F2). reflexivity.
Qed.

(* extend_chain when the free stack is not empty: the popped sector is
   zero-initialised and linked behind the last sector of the chain *)
Lemma extend_chain_reuse_FR : forall s last sid i s' x,
  G s -> CoherenceProofs.FatCoherent s ->
  next_of (fat s) last = Ok END_OF_CHAIN -> last <> END_OF_CHAIN -> last <> sid ->
  lastN (free s) = Some sid -> sid < nsect s -> sid < lenN (fat s) -> ~ In sid (difat s) ->
  nsect s <= MAX_REGULAR_SECTOR ->
  extend_chain last i s = (s', Ok x) ->
  x = sid /\ FR [sid; last] [sid] s s' /\
  fat s' = updN (updN (fat s) sid END_OF_CHAIN) last sid /\
  free s' = pop_last (free s) /\ sector_bytes s' sid = init_bytes (ver s) i.
Proof.
  intros s last sid i s' x HG HC Hnx Hle Hls Hfree Hn Hf Hnd Hmax H.
  unfold extend_chain in H.
  destruct (last =? END_OF_CHAIN) eqn:E; [apply N.eqb_eq in E; contradiction|].
  rewrite bind_get in H. rewrite (find_last_at_end _ _ Hnx), bind_lift_ok in H.
  binv H y s1 H1 H. binv H u s2 H2 H. apply ret_inv in H. destruct H as [Es Ex]. subst s2 x.
  destruct (allocate_reuse_FR s sid i s1 y HG HC Hfree Hn Hf Hnd H1) as (Ey & F1 & Ef1 & Efr1 & Hz).
  subst y.
  pose proof (WalkProofs.next_of_lt _ _ _ Hnx) as Hlast_lt.
  destruct (FR_set_fat s1 last sid s' u (fr_G _ _ _ _ F1) (fr_coh _ _ _ _ F1)) as (F2 & Ef2 & Efr2).
  { change (2 ^ 32) with 4294967296. rewrite MAXREG_val in Hmax. lia. }
  { rewrite (fr_len _ _ _ _ F1). exact Hlast_lt. }
  { exact H2. }
  split; [reflexivity|]. split.
  - exact (FR_trans _ _ _ _ _ _ _ F1 F2).
  - split; [rewrite Ef2, Ef1; reflexivity|]. split; [rewrite Efr2; exact Efr1|].
    rewrite (fr_sect _ _ _ _ F2); [exact Hz| |intros []].
    rewrite (fr_difat _ _ _ _ F1). exact Hnd.
Qed.

Lemma chain_ids_of_ext : forall fat fat' st ids,
  chain_ids_of fat st = Ok ids -> lenN fat' = lenN fat ->
  (forall x, In x ids -> nthN fat' x = nthN fat x) ->
  chain_ids_of fat' st = Ok ids.
Proof.
  intros fat fat' st ids H Hl Hc. apply WalkProofs.chain_ids_path in H.
  apply WalkProofs.chain_ids_of_path; [|eapply ReuseProofs.path_nodup; exact H].
  eapply StoreProofs.path_ext; eassumption.
Qed.

(* such a step keeps the whole invariant when the rewritten cells and the
   re-initialised sectors belong neither to the FAT sectors, nor to the
   directory chain, nor to the MiniFAT chain, and the new FAT is valid *)
Theorem FR_coherent : forall C Z s s',
  Coherent s -> FR C Z s s' ->
  avoids C (difat s) ->
  (forall dids, DirCoherence.dir_ids s dids -> avoids C dids /\ avoids Z dids) ->
  (forall mids, DirCoherence.minifat_ids s mids -> avoids C mids /\ avoids Z mids) ->
  check_pointees false (fat s') (lenN (fat s')) [] = Ok tt ->
  Coherent s'.
Proof.
  intros C Z s s' HC [FG Fc Fv Fn Fd Fi Fdirs Fds Fmf Fms Fmfree Fl Fh Fcells Fsect] HCd HCdir HCmini Hval.
  destruct HC as [Hhdr Hfat Hdok Hids Hnd Hns Huni Hftail Hmarks Hfval Hdir Hdwf Hdval
                    Hmini Hmtail Hmlast Hmfits Hmval].
  pose proof FG as (Gi & Gf & Gn & Gl & Gt).
  pose proof Hfat as [[Ci Cfull Ccoh Cnd Clt] Clen Cpos Ctight].
  pose proof Hdir as (dids & D1 & D2 & D3 & D4 & D5).
  pose proof Hmini as (mids & M1 & M2 & M3 & M4).
  destruct (HCdir dids D1) as [HCdids HZdids]. destruct (HCmini mids M1) as [HCmids HZmids].
  assert (Hsl : slen s' = slen s) by (unfold slen; rewrite Fv; reflexivity).
  assert (Hfps : fat_per_sector s' = fat_per_sector s) by (unfold fat_per_sector; rewrite Hsl; reflexivity).
  assert (Hch : forall st ids, chain_ids_of (fat s) st = Ok ids -> avoids C ids ->
                chain_ids_of (fat s') st = Ok ids).
  { intros st ids H Ha. eapply chain_ids_of_ext; [exact H|exact Fl|].
    intros x Hx. apply Fcells. intro Hin. exact (Ha x Hin Hx). }
  assert (D1' : chain_ids_of (fat s') (dir_start s') = Ok dids) by (rewrite Fds; apply Hch; assumption).
  assert (M1' : chain_ids_of (fat s') (minifat_start s') = Ok mids) by (rewrite Fms; apply Hch; assumption).
  assert (Hsec : forall ids st, chain_ids_of (fat s) st = Ok ids -> avoids Z ids ->
                 forall x, In x ids -> sector_bytes s' x = sector_bytes s x).
  { intros ids st H Ha x Hx. apply Fsect.
    - exact (chain_not_marked s st ids x Hmarks H Hx).
    - intro Hin. exact (Ha x Hin Hx). }
  assert (Hgood : forall ids, good_chain s ids -> good_chain s' ids).
  { intros ids (N1 & N2 & N3 & N4). split; [exact N1|]. split; [|split; [exact Gi|rewrite Hsl; exact N4]].
    rewrite Forall_forall in *. intros x Hx. destruct (N2 x Hx) as [A B]. rewrite Fn.
    split; [exact A|]. apply Gf. rewrite Fn. exact A. }
  constructor.
  - unfold HeaderCoherent in *. rewrite Fh, Hhdr. f_equal. unfold header_of.
    unfold chain_count. rewrite D1', M1'. rewrite Fv, Fd, Fds, Fms, Fi.
    unfold DirCoherence.dir_ids in D1. unfold DirCoherence.minifat_ids in M1. rewrite D1, M1. reflexivity.
  - constructor; [constructor|..]; try assumption.
    + rewrite Fl, Fn. exact Clen.
    + rewrite Fn. exact Cpos.
    + rewrite Fd, Fl, Hfps. exact Ctight.
  - intros d Hd. rewrite Fi in Hd. rewrite Fn, Fd. apply Hdok. exact Hd.
  - congruence.
  - rewrite Fd. exact Hnd.
  - rewrite Fn. exact Hns.
  - destruct (uniform_parts s (slen s) Ci Huni) as [Uh Us].
    rewrite Hsl. apply uniform_of_parts; [exact Gi|rewrite Fh; exact Uh|].
    intros x Hx. rewrite <- Hsl. apply Gf. exact Hx.
  - exact Gt.
  - intros f Hf. rewrite Fd in Hf. rewrite Fcells; [apply Hmarks; exact Hf|].
    intro Hin. exact (HCd f Hin Hf).
  - exact Hval.
  - exists dids. split; [exact D1'|]. split; [apply Hgood; exact D2|].
    rewrite Fdirs, Hsl. split; [exact D3|].
    unfold DirCoherence.slot_bytes in *.
    rewrite (chain_content_same s s' dids (Hsec dids _ D1 HZdids)). split; assumption.
  - intros e He. rewrite Fdirs in He. rewrite Fv. apply Hdwf. exact He.
  - rewrite Fdirs. exact Hdval.
  - exists mids. split; [exact M1'|]. split; [apply Hgood; exact M2|].
    rewrite Fmf, Hsl. split; [exact M3|].
    rewrite (chain_content_same s s' mids (Hsec mids _ M1 HZmids)). exact M4.
  - intros mids' Hm' i Hi Hfit. unfold DirCoherence.minifat_ids in Hm'. rewrite M1' in Hm'.
    injection Hm' as <-. rewrite Fmf in Hi. rewrite Hsl in Hfit.
    rewrite (chain_content_same s s' mids (Hsec mids _ M1 HZmids)). exact (Hmtail mids M1 i Hi Hfit).
  - rewrite Fmf. exact Hmlast.
  - intros root Hr. rewrite Fdirs in Hr. rewrite Fmf. apply Hmfits. exact Hr.
  - rewrite Fmf. exact Hmval.
Qed.

(* ---- the free stack: FREE cells that nothing points to ---- *)
Notation regs := WalkProofs.regs.
Notation regular := WalkProofs.regular.

Definition FreeClean (s : cstate) : Prop :=
  NoDup (free s) /\
  forall x, In x (free s) ->
    x < nsect s /\ nthN (fat s) x = Some FREE_SECTOR /\ ~ In x (regs (fat s)).

Lemma regs_updN_irr : forall l i c v,
  nthN l i = Some c -> regular c = false -> regular v = false -> regs (updN l i v) = regs l.
Proof.
  induction l as [|a t IH]; intros i c v Hn Hc Hv; [discriminate Hn|].
  cbn [updN nthN] in *. destruct (i =? 0).
  - injection Hn as ->. unfold WalkProofs.regs. cbn [filter]. rewrite Hc, Hv. reflexivity.
  - unfold WalkProofs.regs. cbn [filter]. fold (regs (updN t (N.pred i) v)). fold (regs t).
    rewrite (IH _ _ _ Hn Hc Hv). reflexivity.
Qed.

Lemma irregular_marks : regular END_OF_CHAIN = false /\ regular FREE_SECTOR = false.
Proof. split; vm_compute; reflexivity. Qed.

(* linking a free cell behind an END_OF_CHAIN cell keeps the FAT valid *)
Lemma pointees_link : forall fat last sid,
  check_pointees false fat (lenN fat) [] = Ok tt ->
  nthN fat last = Some END_OF_CHAIN -> nthN fat sid = Some FREE_SECTOR -> last <> sid ->
  ~ In sid (regs fat) -> sid <= MAX_REGULAR_SECTOR ->
  check_pointees false (updN (updN fat sid END_OF_CHAIN) last sid)
                 (lenN (updN (updN fat sid END_OF_CHAIN) last sid)) [] = Ok tt /\
  Permutation (regs (updN (updN fat sid END_OF_CHAIN) last sid)) (sid :: regs fat).
Proof.
  intros fat last sid H Hlast Hsid Hne Hnp Hreg.
  apply WalkProofs.check_pointees_spec in H. destruct H as (P1 & P2 & _ & P4).
  destruct irregular_marks as [IE IF].
  pose proof (nthN_Some_lt _ _ _ _ Hsid) as Hsl.
  assert (HP : Permutation (regs (updN (updN fat sid END_OF_CHAIN) last sid)) (sid :: regs fat)).
  { rewrite <- (regs_updN_irr fat sid FREE_SECTOR END_OF_CHAIN Hsid IF IE).
    eapply regs_updN; [|exact IE|apply regular_spec; exact Hreg].
    rewrite nthN_updN_other by congruence. exact Hlast. }
  split; [|exact HP].
  apply WalkProofs.check_pointees_spec. rewrite !lenN_updN.
  split; [|split; [|split]].
  - eapply Permutation_Forall; [apply Permutation_sym; exact HP|].
    constructor; [exact Hsl|exact P1].
  - eapply Permutation_NoDup; [apply Permutation_sym; exact HP|].
    constructor; [exact Hnp|exact P2].
  - intros c _ [].
  - intros _ Hin. pose proof INVALID_val as HI. markers.
    apply In_updN in Hin. destruct Hin as [E|Hin]; [lia|].
    apply In_updN in Hin. destruct Hin as [E|Hin]; [lia|]. exact (P4 eq_refl Hin).
Qed.

Lemma coherent_G : forall s, Coherent s -> G s /\ CoherenceProofs.FatCoherent s.
Proof.
  intros s HC. destruct (ch_fat s HC) as [[Ci Cf Cc Cn Cl] _ _ _].
  split; [|exact Cc]. split; [exact Ci|]. split; [exact Cf|]. split; [exact Cn|].
  split; [exact Cl|exact (ch_fat_tail s HC)].
Qed.

Lemma free_not_in_chain : forall s st ids x,
  chain_ids_of (fat s) st = Ok ids -> nthN (fat s) x = Some FREE_SECTOR -> ~ In x ids.
Proof.
  intros s st ids x H Hx Hin. destruct (chain_cell _ _ _ _ H Hin) as (v & Hv & Hr).
  rewrite Hx in Hv. injection Hv as <-. markers. lia.
Qed.

Lemma In_pop_last_nodup : forall (l : list N) x, NoDup l -> lastN l = Some x -> ~ In x (pop_last l).
Proof.
  intros l x Hnd Hl. rewrite (lastN_Some_snoc _ _ _ Hl) in Hnd.
  apply NoDup_remove_2 in Hnd. rewrite app_nil_r in Hnd. exact Hnd.
Qed.

Lemma NoDup_pop_last : forall (l : list N), NoDup l -> NoDup (pop_last l).
Proof.
  intros l Hnd. destruct (lastN l) as [x|] eqn:E.
  - rewrite (lastN_Some_snoc _ _ _ E) in Hnd. apply NoDup_remove_1 in Hnd.
    rewrite app_nil_r in Hnd. exact Hnd.
  - apply lastN_None_nil in E. subst l. constructor.
Qed.

(* one step of growth: the invariant, the cleanliness of the free stack and
   the two capacity chains survive *)
Lemma extend_chain_reuse_coherent : forall s last sid dids mids s' x,
  Coherent s -> FreeClean s ->
  DirCoherence.dir_ids s dids -> DirCoherence.minifat_ids s mids ->
  next_of (fat s) last = Ok END_OF_CHAIN -> last <> END_OF_CHAIN ->
  ~ In last dids -> ~ In last mids ->
  lastN (free s) = Some sid ->
  extend_chain last IZero s = (s', Ok x) ->
  x = sid /\ Coherent s' /\ FreeClean s' /\
  DirCoherence.dir_ids s' dids /\ DirCoherence.minifat_ids s' mids /\
  FR [sid; last] [sid] s s' /\
  fat s' = updN (updN (fat s) sid END_OF_CHAIN) last sid /\
  free s' = pop_last (free s) /\ sector_bytes s' sid = repeatN 0 (slen s).
Proof.
  intros s last sid dids mids s' x HC [Hnd HF] Hdids Hmids Hnx Hle Hld Hlm Hfree H.
  destruct (coherent_G s HC) as [HG HFc].
  assert (Hin : In sid (free s)).
  { rewrite (lastN_Some_snoc _ _ _ Hfree). apply in_or_app. right. left. reflexivity. }
  destruct (HF sid Hin) as (Hsn & Hsf & Hsr).
  pose proof (nthN_Some_lt _ _ _ _ Hsf) as Hsl.
  pose proof (proj1 (WalkProofs.next_of_Ok _ _ _) Hnx) as [Hlast _].
  assert (Hne : last <> sid).
  { intros ->. rewrite Hsf in Hlast. vm_compute in Hlast. discriminate Hlast. }
  assert (Hsd : ~ In sid (difat s)).
  { intro Hd. rewrite (ch_marks s HC sid Hd) in Hsf. vm_compute in Hsf. discriminate Hsf. }
  assert (Hld' : ~ In last (difat s)).
  { intro Hd. rewrite (ch_marks s HC last Hd) in Hlast. vm_compute in Hlast. discriminate Hlast. }
  destruct (extend_chain_reuse_FR s last sid IZero s' x HG HFc Hnx Hle Hne Hfree Hsn Hsl Hsd
              (ch_nsect s HC) H) as (-> & F & Ef & Efr & Hz).
  assert (Hmax : sid <= MAX_REGULAR_SECTOR) by (pose proof (ch_nsect s HC); lia).
  destruct (pointees_link (fat s) last sid (ch_fat_valid s HC) Hlast Hsf Hne Hsr Hmax) as [Hval HP].
  assert (Hsdids : ~ In sid dids) by exact (free_not_in_chain s _ dids sid Hdids Hsf).
  assert (Hsmids : ~ In sid mids) by exact (free_not_in_chain s _ mids sid Hmids Hsf).
  assert (HC' : Coherent s').
  { eapply (FR_coherent [sid; last] [sid]); [exact HC|exact F| | | |].
    - intros y [<-|[<-|[]]]; assumption.
    - intros d Hd. unfold DirCoherence.dir_ids in *. rewrite Hdids in Hd. injection Hd as <-.
      split; [intros y [<-|[<-|[]]]; assumption|intros y [<-|[]]; assumption].
    - intros m Hm. unfold DirCoherence.minifat_ids in *. rewrite Hmids in Hm. injection Hm as <-.
      split; [intros y [<-|[<-|[]]]; assumption|intros y [<-|[]]; assumption].
    - rewrite Ef. exact Hval. }
  split; [reflexivity|]. split; [exact HC'|]. split; [|split; [|split; [|split; [exact F|split; [exact Ef|split; [exact Efr|]]]]]].
  - split; [rewrite Efr; apply NoDup_pop_last; exact Hnd|].
    intros y Hy. rewrite Efr in Hy.
    pose proof (In_pop_last_nodup _ _ Hnd Hfree) as Hns.
    assert (Hys : y <> sid) by (intros ->; contradiction).
    pose proof (In_pop_last _ _ _ Hy) as Hy0.
    destruct (HF y Hy0) as (Y1 & Y2 & Y3).
    assert (Hyl : y <> last).
    { intros ->. rewrite Y2 in Hlast. vm_compute in Hlast. discriminate Hlast. }
    rewrite (fr_nsect _ _ _ _ F). split; [exact Y1|]. split.
    + rewrite Ef, !nthN_updN_other by congruence. exact Y2.
    + rewrite Ef. intro Hin2. apply (Permutation_in _ HP) in Hin2.
      destruct Hin2 as [E|Hin2]; [congruence|contradiction].
  - unfold DirCoherence.dir_ids in *. rewrite (fr_dstart _ _ _ _ F).
    eapply chain_ids_of_ext; [exact Hdids|exact (fr_len _ _ _ _ F)|].
    intros y Hy. apply (fr_cells _ _ _ _ F). intros [<-|[<-|[]]]; contradiction.
  - unfold DirCoherence.minifat_ids in *. rewrite (fr_mstart _ _ _ _ F).
    eapply chain_ids_of_ext; [exact Hmids|exact (fr_len _ _ _ _ F)|].
    intros y Hy. apply (fr_cells _ _ _ _ F). intros [<-|[<-|[]]]; contradiction.
  - rewrite Hz. reflexivity.
Qed.

Lemma coherent_allocwf : forall s, Coherent s -> FreeClean s -> AllocWf s.
Proof.
  intros s HC [_ HF]. destruct (ch_fat s HC) as [[Ci Cf Cc Cn Cl] _ _ _].
  constructor; [exact Ci|exact Cf| |apply CoherenceProofs.coherent_backed; exact Cc].
  intros x Hx. destruct (HF x Hx) as (A & B & _). split; [exact A|]. eapply nthN_Some_lt. exact B.
Qed.

(* Chain::set_len growing by the sectors [nw] popped from the free stack *)
Lemma chain_grow_reuse_coherent : forall nw s start ids base o dids mids,
  Coherent s -> FreeClean s ->
  DirCoherence.dir_ids s dids -> DirCoherence.minifat_ids s mids ->
  ids <> [] -> WalkProofs.path (fat s) start ids ->
  avoids ids dids -> avoids ids mids ->
  free s = base ++ rev nw ->
  exists s',
    chain_grow (length nw) (mkChain IZero ids o) s = (s', Ok (mkChain IZero (ids ++ nw) o)) /\
    Coherent s' /\ FreeClean s' /\
    DirCoherence.dir_ids s' dids /\ DirCoherence.minifat_ids s' mids /\
    WalkProofs.path (fat s') start (ids ++ nw) /\
    avoids (ids ++ nw) dids /\ avoids (ids ++ nw) mids /\
    free s' = base /\ dirs s' = dirs s /\ ver s' = ver s /\ nsect s' = nsect s.
Proof.
  induction nw as [|a nw IH]; intros s start ids base o dids mids HC HFc Hdids Hmids Hne Hp Had Ham Hfree.
  - exists s. cbn [length chain_grow]. rewrite app_nil_r.
    cbn [rev] in Hfree. rewrite app_nil_r in Hfree.
    unfold ret. split; [reflexivity|]. split; [exact HC|]. split; [exact HFc|].
    split; [exact Hdids|]. split; [exact Hmids|]. split; [exact Hp|]. split; [exact Had|].
    split; [exact Ham|]. split; [exact Hfree|]. split; [reflexivity|]. split; reflexivity.
  - cbn [rev] in Hfree. rewrite app_assoc in Hfree.
    assert (Hlf : lastN (free s) = Some a) by (rewrite Hfree; apply lastN_snoc).
    destruct (exists_last Hne) as (l & last & El).
    assert (Hlast : lastN ids = Some last) by (rewrite El; apply lastN_snoc).
    assert (Hlin : In last ids) by (rewrite El; apply in_or_app; right; left; reflexivity).
    pose proof Hp as Hp0. rewrite El in Hp0.
    pose proof (path_last_EOC _ _ _ _ Hp0) as Hnx.
    assert (Hle : last <> END_OF_CHAIN).
    { apply path_mid in Hp0. inversion Hp0 as [|cur nx l' Hc Hn' Hp']. exact Hc. }
    pose proof HFc as [Hnd HF].
    assert (Hain : In a (free s)) by (rewrite Hfree; apply in_or_app; right; left; reflexivity).
    destruct (HF a Hain) as (Han & Haf & Har).
    assert (Ha_ids : ~ In a ids).
    { intro Hin. pose proof (WalkProofs.path_lt _ _ _ Hp) as HFl.
      destruct (path_next _ _ _ _ Hp Hin) as [nx Hn]. apply WalkProofs.next_of_Ok in Hn.
      destruct Hn as [Hn Hr]. rewrite Haf in Hn. injection Hn as <-. markers. lia. }
    assert (Ha_difat : ~ In a (difat s)).
    { intro Hd. rewrite (ch_marks s HC a Hd) in Haf. vm_compute in Haf. discriminate Haf. }
    destruct (extend_chain_reuse s start ids last a (coherent_allocwf s HC HFc)
                ltac:(pose proof (ch_nsect s HC); lia) Hp Hlast Hlf Ha_ids Ha_difat)
      as (s1 & E1 & _ & _ & _ & P1 & _).
    destruct (extend_chain_reuse_coherent s last a dids mids s1 a HC HFc Hdids Hmids Hnx Hle
                (Had last Hlin) (Ham last Hlin) Hlf E1)
      as (_ & HC1 & HFc1 & Hdids1 & Hmids1 & F1 & Ef1 & Efr1 & _).
    rewrite Hfree, pop_last_snoc in Efr1.
    assert (Had1 : avoids (ids ++ [a]) dids).
    { apply avoids_app; [exact Had|]. intros y [<-|[]]. exact (free_not_in_chain s _ dids a Hdids Haf). }
    assert (Ham1 : avoids (ids ++ [a]) mids).
    { apply avoids_app; [exact Ham|]. intros y [<-|[]]. exact (free_not_in_chain s _ mids a Hmids Haf). }
    destruct (IH s1 start (ids ++ [a]) base o dids mids HC1 HFc1 Hdids1 Hmids1)
      as (s' & E' & HC' & HFc' & Hd' & Hm' & P' & Ad' & Am' & Fr' & Dd' & V' & N').
    + intro E. apply app_eq_nil in E. destruct E as [_ E]. discriminate.
    + exact P1.
    + exact Had1.
    + exact Ham1.
    + exact Efr1.
    + exists s'. cbn [length chain_grow]. cbn [c_ids c_init c_off].
      rewrite Hlast. rewrite (bind_exec _ _ _ _ _ E1).
      rewrite <- app_assoc in E', P', Ad', Am'. cbn [app] in E', P', Ad', Am'.
      split; [exact E'|]. split; [exact HC'|]. split; [exact HFc'|]. split; [exact Hd'|].
      split; [exact Hm'|]. split; [exact P'|]. split; [exact Ad'|]. split; [exact Am'|].
      split; [exact Fr'|]. split; [rewrite Dd'; exact (fr_dirs _ _ _ _ F1)|].
      split; [rewrite V'; exact (fr_ver _ _ _ _ F1)|rewrite N'; exact (fr_nsect _ _ _ _ F1)].
Qed.

Lemma FreeClean_transfer : forall s s',
  free s' = free s -> nsect s' = nsect s -> fat s' = fat s -> FreeClean s -> FreeClean s'.
Proof. intros s s' E1 E2 E3 H. unfold FreeClean in *. rewrite E1, E2, E3. exact H. Qed.

(* S6 (reuse): a large stream grows by sectors taken from the free stack.
   FAT cells change (cache and disk together), the popped sectors are
   zero-initialised, the old tail is zero-filled, the entry is written back:
   the invariant holds again and the bytes alone reopen to the new state. *)
Theorem resize_big_reuse_coherent : forall s id V ids new_len base nw,
  CohData s -> FreeClean s ->
  big_content s id V -> stream_ids s id ids ->
  slen s * lenN ids < new_len ->
  free s = base ++ rev nw ->
  lenN ids + lenN nw = (slen s + new_len - 1) / slen s ->
  new_len <= MAX_REGULAR_SECTOR * slen s -> LenFits s new_len ->
  exists s',
    resize id new_len s = (s', Ok tt) /\ Coherent s' /\ FreeClean s' /\
    (forall strict, open_model strict (concat_img (img s')) = Ok (reopened s')) /\
    big_content (reopened s') id (V ++ repeatN 0 (new_len - lenN V)) /\
    stream_ids s' id (ids ++ nw) /\ free s' = base /\ nsect s' = nsect s /\
    (forall id' V' ids', id' <> id -> big_content s id' V' -> stream_ids s id' ids' ->
       big_content (reopened s') id' V').
Proof.
  intros s id V ids new_len base nw [HC HA] HFc HB Hsi Hgt Hfree Hcount Hmax Hlen.
  pose proof (aw_store s HA) as Hwf.
  destruct (resize_big_grow_zero_new_sectors s id V ids new_len base nw HB Hsi Hwf Hgt Hfree Hcount Hmax Hlen)
    as (s' & Hrun & HB' & Hsi' & Hfr' & Hn' & _ & Hoth).
  pose proof (slen_pos s) as Hsp.
  pose proof Hsi as (e0 & He0 & _ & Hc0).
  pose proof HB as (e & ids' & He & Ht & Hcut & Hc & Hg & Hle & HV).
  rewrite He in He0. injection He0 as <-. rewrite Hc in Hc0. injection Hc0 as ->.
  assert (Hnl : MINI_STREAM_CUTOFF <= new_len) by lia.
  assert (Hnl0 : 0 < new_len) by (rewrite CUTOFF_val in Hnl; lia).
  destruct (ceil_props (slen s) new_len Hsp Hnl0) as [Hc1 Hc2].
  rewrite <- Hcount in Hc1, Hc2.
  pose proof (ids_nonempty s ids _ Hcut Hle) as Hne.
  destruct (chain_ids_head _ _ _ Hc Hne) as (Hst & t & Eids).
  pose proof (WalkProofs.chain_ids_path _ _ _ Hc) as Hp.
  assert (Hbig : big_ids s id ids) by (exists e; csplit; assumption).
  pose proof (ch_dir s HC) as (dids & Hdids & _).
  pose proof (ch_mini s HC) as (mids & Hmids & _).
  assert (Had : avoids ids dids) by exact (sw_dir_disj s Hwf id ids dids Hbig Hdids).
  assert (Ham : avoids ids mids) by exact (aw_mfat_big s HA mids id ids Hmids Hbig).
  assert (Hov : slen s + new_len < two64).
  { destruct (slen_cases s) as [Es|Es]; rewrite Es in *; rewrite MAXREG_val in Hmax;
      rewrite two64_val; lia. }
  (* Chain::set_len *)
  destruct (chain_grow_reuse_coherent nw s (d_start e) ids base 0 dids mids HC HFc Hdids Hmids Hne Hp
              Had Ham Hfree)
    as (s1 & Hgrow & HC1 & HFc1 & Hd1 & Hm1 & P1 & Ad1 & Am1 & Fr1 & Dd1 & V1 & N1).
  assert (Hsl1 : slen s1 = slen s) by (unfold slen; rewrite V1; reflexivity).
  assert (Hg1 : good_chain s1 (ids ++ nw)).
  { apply good_chain_of_wf; [exact (coherent_allocwf s1 HC1 HFc1)|eapply path_nodup; exact P1|].
    pose proof (WalkProofs.path_lt _ _ _ P1) as HFl.
    destruct (ch_fat s1 HC1) as [_ Clen _ _]. rewrite <- Clen. exact HFl. }
  (* zero fill of the tail of the old last sector *)
  destruct (zero_fill_chain_dframe s1 (mkChain IZero (ids ++ nw) 0) (d_len e) (slen s * lenN ids) Hg1)
    as (s2 & c2 & Hz & Hids2 & F2 & Hd2).
  { unfold chain_len. cbn [c_ids]. rewrite Hsl1, lenN_app. nia. }
  cbn [c_ids] in *.
  pose proof F2 as (G1 & G2 & G3 & G4 & G5 & G6 & G7 & G8 & G9 & G10 & _).
  assert (HC2 : Coherent s2).
  { apply Coherent_split. apply Coherent_split in HC1. destruct HC1 as [C1 DP1]. split.
    - eapply (core_dframe (ids ++ nw)); [exact C1|exact F2| |].
      + eapply chain_avoids_difat; [exact C1|].
        apply WalkProofs.chain_ids_of_path; [exact P1|eapply path_nodup; exact P1].
      + intros m Hm. unfold DirCoherence.minifat_ids in *. rewrite Hm1 in Hm. injection Hm as <-. exact Am1.
    - eapply DirPart_dframe; [exact DP1|exact F2|exact Hd2|].
      intros d Hd. unfold DirCoherence.dir_ids in *. rewrite Hd1 in Hd. injection Hd as <-. exact Ad1. }
  (* the resize, executed *)
  assert (E : resize id new_len s = update_entry id (d_start e) new_len s2).
  { unfold resize.
    rewrite (bind_exec _ _ _ _ _ (stream_entry_exec s id e He Ht)).
    cbv beta iota zeta.
    rewrite (bind_exec _ _ _ _ _ (eq_refl : get s = (s, Ok s))). cbv beta iota zeta.
    replace (MAX_REGULAR_SECTOR * slen s <? new_len) with false by (symmetry; apply N.ltb_ge; exact Hmax).
    rewrite (bind_exec _ _ _ _ _ (eq_refl : ret tt s = (s, Ok tt))).
    rewrite (mask_check_false s new_len Hlen).
    rewrite (bind_exec _ _ _ _ _ (eq_refl : ret tt s = (s, Ok tt))).
    match goal with |- bind ?m _ s = _ => assert (E : m s = (s2, Ok (d_start e))) end.
    { destruct (d_start e =? END_OF_CHAIN) eqn:E2; [apply N.eqb_eq in E2; contradiction|].
      destruct (d_len e <? MINI_STREAM_CUTOFF) eqn:E3; [lia|].
      destruct (new_len =? 0) eqn:E4; [lia|].
      destruct (new_len <? MINI_STREAM_CUTOFF) eqn:E5; [lia|].
      rewrite (bind_exec _ _ _ _ _ (chain_new_exec s (d_start e) IZero ids Hc)).
      rewrite bind_get.
      assert (Hset : chain_set_len (mkChain IZero ids 0) new_len s
                     = (s1, Ok (mkChain IZero (ids ++ nw) 0))).
      { rewrite chain_set_len_grow by (cbn [c_ids]; lia). cbn [c_ids].
        rewrite <- Hcount.
        replace (N.to_nat (lenN ids + lenN nw - lenN ids)) with (length nw)
          by (rewrite (WalkProofs.lenN_length nw); lia).
        exact Hgrow. }
      rewrite (bind_exec _ _ _ _ _ Hset).
      unfold chain_len at 1. cbn [c_ids].
      replace (N.min new_len (slen s * lenN ids)) with (slen s * lenN ids) by lia.
      rewrite (bind_exec _ _ _ _ _ Hz).
      unfold chain_start. rewrite Hids2, Eids. cbn [app]. rewrite N.eqb_refl. reflexivity. }
    rewrite (bind_exec _ _ _ _ _ E). reflexivity. }
  rewrite E in Hrun.
  (* the entry *)
  destruct (update_entry_coherent s2 s' id e (d_start e) new_len HC2) as (HC' & Ed' & (dd & Hdd & Fu)).
  { intros d m Hd Hm. apply avoids_sym.
    assert (Hm0 : DirCoherence.minifat_ids s m).
    { unfold DirCoherence.minifat_ids in *. rewrite G5, G9 in Hm. rewrite Hm1 in Hm. injection Hm as <-. exact Hmids. }
    assert (Hd0 : DirCoherence.dir_ids s d).
    { unfold DirCoherence.dir_ids in *. rewrite G5, G7 in Hd. rewrite Hd1 in Hd. injection Hd as <-. exact Hdids. }
    exact (aw_mfat_dir s HA m d Hm0 Hd0). }
  { rewrite Hd2, Dd1. exact He. }
  { exact Ht. }
  { apply (CodecProofs.wf_start (ver s) e). apply (ch_dir_wf s HC). eapply nthN_In. exact He. }
  { unfold LenFits in Hlen. rewrite G1, V1. exact Hlen. }
  { exact Hrun. }
  pose proof Fu as (U1 & U2 & _ & _ & U5 & U6 & _).
  exists s'. split; [rewrite E; exact Hrun|]. split; [exact HC'|]. split.
  { apply (FreeClean_transfer s1); [congruence|congruence|congruence|exact HFc1]. }
  split; [intro strict; apply reopen_both_modes; exact HC'|].
  split; [exact (big_content_same_store s' (reopened s') (same_store_reopened s') _ _ HB')|].
  split; [exact Hsi'|]. split; [exact Hfr'|]. split; [exact Hn'|].
  intros id' V' ids2 Hneq HB2 Hsi2.
  apply (big_content_same_store s' (reopened s') (same_store_reopened s')).
  destruct (big_content_ids s id' V' ids2 HB2 Hsi2) as (e2 & He2 & Hbig2).
  refine (proj1 (Hoth id' V' ids2 Hneq HB2 Hsi2 _)).
  exact (aw_big_disj s HA id id' ids ids2 ltac:(congruence) Hbig Hbig2).
Qed.

(* a decision procedure for FreeClean (for the example) *)
Definition free_clean_b (s : cstate) : bool :=
  StoreProofs.nodup_b (free s) &&
  forallb (fun x => (x <? nsect s) &&
                    match nthN (fat s) x with Some v => v =? FREE_SECTOR | None => false end &&
                    negb (memN x (regs (fat s)))) (free s).

Lemma free_clean_b_sound : forall s, free_clean_b s = true -> FreeClean s.
Proof.
  intros s H. unfold free_clean_b in H. apply andb_true_iff in H. destruct H as [H1 H2].
  split; [apply StoreProofs.nodup_b_sound; exact H1|].
  rewrite forallb_forall in H2. intros x Hx. specialize (H2 x Hx).
  apply andb_true_iff in H2. destruct H2 as [H2 H3]. apply andb_true_iff in H2. destruct H2 as [H2 H4].
  split; [apply N.ltb_lt; exact H2|]. split.
  - destruct (nthN (fat s) x) as [v|]; [|discriminate H4]. apply N.eqb_eq in H4. subst v. reflexivity.
  - apply WalkProofs.memN_false. apply negb_true_iff. exact H3.
Qed.

(* ================================================================== *)
(* 10. growth of a large stream at the end of the file                 *)
(* ================================================================== *)

(* one step: the free stack is empty, the file grows by the new sector and,
   when the FAT is full, by a FAT sector before it (below 109 FAT sectors);
   header fields (number of FAT sectors, DIFAT entry) are written through *)
Lemma extend_chain_append_coherent : forall s last dids mids s' x,
  Coherent s -> free s = [] ->
  lenN (difat s) < NUM_DIFAT_HDR -> nsect s + 3 <= MAX_REGULAR_SECTOR ->
  DirCoherence.dir_ids s dids -> DirCoherence.minifat_ids s mids ->
  next_of (fat s) last = Ok END_OF_CHAIN -> last <> END_OF_CHAIN ->
  ~ In last dids -> ~ In last mids ->
  extend_chain last IZero s = (s', Ok x) ->
  Coherent s' /\ free s' = [] /\
  DirCoherence.dir_ids s' dids /\ DirCoherence.minifat_ids s' mids /\
  nsect s <= x /\ x < nsect s' /\ nsect s' <= nsect s + 2 /\
  lenN (difat s') <= lenN (difat s) + 1 /\
  dirs s' = dirs s /\ ver s' = ver s.
Proof.
  intros s lst dids mids s2 nw HC Hfree Hreg Hsize Hids Hmids Hnx Hle Hld Hlm He.
  destruct (coherent_G s HC) as [HG _].
  destruct HC as [Bh Bf Bd Bi Bn Bs Bu Bt Bm Bv Bdir Bdwf Bdval Bmi Bmt Bml Bmfits Bmv].
  pose proof Bf as [[Ci Cfull Ccoh Cnd Clt] Clen Cpos Ctight].
  pose proof Bdir as (dids0 & Hids0 & Hgd & Hdcap & Hdslot & Hdblank).
  assert (dids0 = dids) by (unfold DirCoherence.dir_ids in *; congruence). subst dids0.
  pose proof Bmi as (mids0 & Hmids0 & Hgm & Hmcap & Hmcell).
  assert (mids0 = mids) by (unfold DirCoherence.minifat_ids in *; congruence). subst mids0.
  destruct (uniform_parts s (slen s) Ci Bu) as [Uh _].
  unfold DirCoherence.dir_ids in Hids. unfold DirCoherence.minifat_ids in Hmids.
  (* open extend_chain *)
  unfold extend_chain in He.
  destruct (N.eqb_spec lst END_OF_CHAIN) as [E|_]; [contradiction|].
  rewrite bind_get in He. rewrite (find_last_at_end _ _ Hnx), bind_lift_ok in He.
  binv He nw0 sa Ha H2. binv H2 u2 sb Hs H2. apply ret_inv in H2. destruct H2 as [Es Ex]. subst sb nw0.
  destruct u2.
  pose proof (proj1 (WalkProofs.next_of_Ok _ _ _) Hnx) as [Hlast_eoc _].
  assert (Hlast_lt : lst < lenN (fat s)) by (eapply nthN_Some_lt; exact Hlast_eoc).
  assert (Hdids_nf : forall x, In x dids -> ~ In x (difat s))
    by (intros x Hx; exact (chain_not_marked s _ _ x Bm Hids Hx)).
  assert (Hmids_nf : forall x, In x mids -> ~ In x (difat s))
    by (intros x Hx; exact (chain_not_marked s _ _ x Bm Hmids Hx)).
  assert (Hlast_nf : ~ In lst (difat s)).
  { intro Hd. rewrite (Bm lst Hd) in Hlast_eoc. vm_compute in Hlast_eoc. discriminate Hlast_eoc. }
  (* the allocation *)
  markers.
  destruct (G_allocate_grow IZero s sa nw HG Hfree Clen Hreg Ha) as (HGa & Hshape & Ra & Oa & Ba).
  destruct (CoherenceProofs.allocate_grow_coherent IZero s sa nw Bf Bd Hfree Ha)
    as (Hinva & Hoka & Hfra & Hnw & Hnsa).
  destruct (allocate_sector_header IZero s sa nw Bh Bf Hreg ltac:(rewrite Uh; lia)
              ltac:(intros x Hx; rewrite Hfree in Hx; destruct Hx)
              (ex_intro _ dids Hids) (ex_intro _ mids Hmids) Ha)
    as ((P1 & P2 & P3 & P4 & P5 & P6 & P7 & P8) & Hcell & Hfl2).
  destruct (rest_fields _ _ Ra) as (Rv & Rdirs & Rds & Rmf & Rms & Rmfr & Rdi & Rfr).
  assert (Hfa : exists X, fat sa = fat s ++ X /\ (X = [END_OF_CHAIN] \/ X = [FAT_SECTOR; END_OF_CHAIN]) /\
                 (forall f, In f (difat sa) -> In f (difat s) \/ (f = nsect s /\ X = [FAT_SECTOR; END_OF_CHAIN])) /\
                 lenN (difat sa) <= lenN (difat s) + 1 /\ nsect sa = nsect s + lenN X /\ nsect s <= nw).
  { destruct Hshape as [(A & B & C & D)|(A & B & C & D)].
    - exists [END_OF_CHAIN]. split; [exact A|]. split; [left; reflexivity|]. split.
      + intros f Hf. rewrite B in Hf. left. exact Hf.
      + rewrite B, D. cbn [lenN]. repeat split; lia.
    - exists [FAT_SECTOR; END_OF_CHAIN]. split; [exact A|]. split; [right; reflexivity|]. split.
      + intros f Hf. rewrite B in Hf. apply in_app_or in Hf.
        destruct Hf as [Hf|[<-|[]]]; [left; exact Hf|right; split; reflexivity].
      + rewrite B, D, lenN_app. cbn [lenN]. repeat split; lia. }
  destruct Hfa as (X & EfX & HX & HdX & HdlX & HnX & Hnwge).
  assert (HlX : lenN X <= 2) by (destruct HX as [-> | ->]; cbn [lenN]; lia).
  pose proof Hinva as [[Cia Cfulla Ccoha Cnda Clta] Clena Cposa Ctighta].
  assert (Hnwreg : nw <= MAX_REGULAR_SECTOR) by lia.
  (* the link *)
  destruct (G_set_fat sa lst nw s2 tt HGa Hs) as (HG2 & F2 & N2 & D2 & R2 & Hh2 & O2 & _).
  assert (Hlast_a : lst < lenN (fat sa)) by (rewrite EfX, lenN_app; lia).
  assert (F2' : fat s2 = updN (fat sa) lst nw).
  { rewrite F2. unfold ReuseProofs.fat_set. destruct (N.eqb_spec lst (lenN (fat sa))); [lia|reflexivity]. }
  destruct (rest_fields _ _ R2) as (Rv2 & Rdirs2 & Rds2 & Rmf2 & Rms2 & Rmfr2 & Rdi2 & Rfr2).
  destruct (CoherenceProofs.set_fat_existing_coherent sa lst nw Ccoha Cnda ltac:(lia) Hlast_a)
    as (f0 & Hd0 & Hf0 & Hl0 & Eset & Hcoh2 & Efat2).
  rewrite Eset in Hs. injection Hs as Es2.
  assert (Hinv2 : CoherenceProofs.FatInv s2).
  { rewrite <- Es2.
    pose proof (ReuseProofs.set_fat_state_fields sa lst nw f0)
      as (Ev & En & _ & Ed & Ef & _ & _ & _ & _ & _ & Efps & _).
    constructor.
    - apply CoherenceProofs.set_fat_state_core; [apply Hinva|lia|lia|exact Hd0].
    - rewrite Efat2, lenN_updN, En. exact Clena.
    - rewrite En. exact Cposa.
    - rewrite Ed, Efat2, lenN_updN, Efps. exact Ctighta. }
  (* the chains of s2 *)
  assert (Hch2 : forall st ids, chain_ids_of (fat s) st = Ok ids -> ~ In lst ids ->
                 chain_ids_of (fat s2) st = Ok ids).
  { intros st ids Hci Hni. rewrite F2'. pose proof (P8 _ _ Hci) as Hc1.
    apply WalkProofs.chain_ids_path in Hc1.
    apply WalkProofs.chain_ids_of_path; [|eapply ReuseProofs.path_nodup; exact Hc1].
    apply ReuseProofs.path_updN; assumption. }
  assert (Hids2 : chain_ids_of (fat s2) (dir_start s2) = Ok dids)
    by (rewrite Rds2, Rds; apply Hch2; assumption).
  assert (Hmids2 : chain_ids_of (fat s2) (minifat_start s2) = Ok mids)
    by (rewrite Rms2, Rms; apply Hch2; assumption).
  (* sectors of the two capacity chains *)
  pose proof Hgm as (Hndm & HFm & _ & _). rewrite Forall_forall in HFm.
  pose proof Hgd as (Hndd & HFd & _ & _). rewrite Forall_forall in HFd.
  assert (Hsec2 : forall x, x < nsect s -> ~ In x (difat s) -> sector_bytes s2 x = sector_bytes s x).
  { intros x Hx Hnf. rewrite O2.
    - apply Oa; assumption.
    - intro Hin. destruct (HdX _ Hin) as [Hin'|[E _]]; [exact (Hnf Hin')|lia]. }
  assert (Hver2 : ver s2 = ver s) by congruence.
  assert (Hsl2 : slen s2 = slen s) by (unfold slen; rewrite Hver2; reflexivity).
  assert (Hns2 : nsect s2 = nsect s + lenN X) by congruence.
  assert (Hfat2 : fat s2 = updN (fat s ++ X) lst nw) by congruence.
  assert (Hdif2 : difat s2 = difat sa) by congruence.
  assert (Hgood2 : forall ids, good_chain s ids -> good_chain s2 ids).
  { intros ids (N1 & N2' & N3 & N4). pose proof HG2 as (Gi2 & Gf2 & _).
    split; [exact N1|]. split; [|split; [exact Gi2|apply slen_pos]].
    rewrite Forall_forall in *. intros y Hy. destruct (N2' y Hy) as [A B].
    split; [lia|]. apply Gf2. lia. }
  assert (Hcd2 : chain_content s2 dids = chain_content s dids).
  { apply chain_content_same. intros y Hy. destruct (HFd y Hy) as [A _]. apply Hsec2; [exact A|].
    apply Hdids_nf. exact Hy. }
  assert (Hcm2 : chain_content s2 mids = chain_content s mids).
  { apply chain_content_same. intros y Hy. destruct (HFm y Hy) as [A _]. apply Hsec2; [exact A|].
    apply Hmids_nf. exact Hy. }
  split; [|split; [congruence|split; [exact Hids2|split; [exact Hmids2|
           split; [exact Hnwge|split; [lia|split; [lia|split; [rewrite Hdif2; exact HdlX|
           split; [congruence|exact Hver2]]]]]]]]].
  constructor.
  - (* header *)
    unfold HeaderCoherent in *. rewrite Hh2, P1. f_equal. unfold header_of.
    rewrite Rv2, D2, Rds2, Rms2, Rdi2.
    rewrite (chain_count_eq (fat sa) (fat s2) (dir_start sa) dids);
      [|rewrite Rds; apply P8; exact Hids|rewrite <- Rds2; exact Hids2].
    rewrite (chain_count_eq (fat sa) (fat s2) (minifat_start sa) mids);
      [reflexivity|rewrite Rms; apply P8; exact Hmids|rewrite <- Rms2; exact Hmids2].
  - exact Hinv2.
  - intros d Hd. rewrite Rdi2, Rdi, Bi in Hd. destruct Hd.
  - congruence.
  - rewrite Hdif2. lia.
  - lia.
  - rewrite Hsl2. pose proof HG2 as (Gi2 & Gf2 & _). apply uniform_of_parts; [exact Gi2| |].
    + unfold byte in *. rewrite Hh2, P7. exact Uh.
    + intros y Hy. rewrite <- Hsl2. apply Gf2. exact Hy.
  - apply HG2.
  - intros f Hf. rewrite Hdif2 in Hf. rewrite Hfat2.
    assert (Hfnl : f <> lst).
    { intros ->. destruct (HdX _ Hf) as [Hin|[E _]]; [exact (Hlast_nf Hin)|lia]. }
    rewrite nthN_updN_other by congruence.
    destruct (HdX _ Hf) as [Hin|[E EX]].
    + rewrite nthN_app_l by (rewrite Clen; apply Clt; exact Hin). apply Bm. exact Hin.
    + subst f. rewrite EX, ReuseProofs.nthN_app_r by lia. rewrite Clen, N.sub_diag. reflexivity.
  - rewrite Hfat2. apply pointees_extend; try assumption; [lia|].
    rewrite lenN_app. lia.
  - exists dids. split; [exact Hids2|]. split; [apply Hgood2; exact Hgd|].
    rewrite Rdirs2, Rdirs, Hsl2. split; [exact Hdcap|].
    unfold DirCoherence.slot_bytes in *. rewrite Hcd2. split; assumption.
  - intros e He. rewrite Rdirs2, Rdirs in He. rewrite Hver2. apply Bdwf. exact He.
  - rewrite Rdirs2, Rdirs. exact Bdval.
  - exists mids. split; [exact Hmids2|]. split; [apply Hgood2; exact Hgm|].
    rewrite Rmf2, Rmf, Hsl2, Hcm2. split; assumption.
  - intros mids' Hm' i Hi Hfit. unfold DirCoherence.minifat_ids in Hm'. rewrite Hmids2 in Hm'.
    injection Hm' as <-. rewrite Rmf2, Rmf in Hi. rewrite Hsl2 in Hfit. rewrite Hcm2.
    exact (Bmt mids Hmids i Hi Hfit).
  - rewrite Rmf2, Rmf. exact Bml.
  - intros root Hr. rewrite Rdirs2, Rdirs in Hr. rewrite Rmf2, Rmf. apply Bmfits. exact Hr.
  - rewrite Rmf2, Rmf. exact Bmv.
Qed.

Lemma FreeClean_nil : forall s, free s = [] -> FreeClean s.
Proof. intros s H. unfold FreeClean. rewrite H. split; [constructor|intros x []]. Qed.

Lemma chain_members_lt : forall s ids, good_chain s ids -> forall x, In x ids -> x < nsect s.
Proof. intros s ids (_ & HF & _) x Hx. rewrite Forall_forall in HF. apply HF. exact Hx. Qed.

(* Chain::set_len growing by k sectors appended to the file (no new FAT sector
   needed on the way, as in StoreProofs.chain_grow_append) *)
Lemma chain_grow_append_coherent : forall k s start ids o dids mids,
  Coherent s -> free s = [] -> lenN (difat s) < NUM_DIFAT_HDR ->
  nsect s + N.of_nat k + 3 <= MAX_REGULAR_SECTOR ->
  (forall j, j < N.of_nat k -> (nsect s + j) mod fat_per_sector s <> 0) ->
  DirCoherence.dir_ids s dids -> DirCoherence.minifat_ids s mids ->
  (forall x, In x dids -> x < nsect s) -> (forall x, In x mids -> x < nsect s) ->
  ids <> [] -> WalkProofs.path (fat s) start ids ->
  avoids ids dids -> avoids ids mids ->
  exists s',
    chain_grow k (mkChain IZero ids o) s = (s', Ok (mkChain IZero (ids ++ seqN (nsect s) k) o)) /\
    Coherent s' /\ free s' = [] /\
    DirCoherence.dir_ids s' dids /\ DirCoherence.minifat_ids s' mids /\
    WalkProofs.path (fat s') start (ids ++ seqN (nsect s) k) /\
    avoids (ids ++ seqN (nsect s) k) dids /\ avoids (ids ++ seqN (nsect s) k) mids /\
    dirs s' = dirs s /\ ver s' = ver s /\ nsect s' = nsect s + N.of_nat k.
Proof.
  induction k as [|k IH]; intros s start ids o dids mids HC Hfree Hreg Hsize Hmod Hdids Hmids Hdlt Hmlt Hne Hp Had Ham.
  - exists s. cbn [chain_grow seqN]. rewrite app_nil_r. unfold ret.
    split; [reflexivity|]. split; [exact HC|]. split; [exact Hfree|]. split; [exact Hdids|].
    split; [exact Hmids|]. split; [exact Hp|]. split; [exact Had|]. split; [exact Ham|].
    split; [reflexivity|]. split; [reflexivity|]. cbn. lia.
  - destruct (exists_last Hne) as (l & last & El).
    assert (Hlast : lastN ids = Some last) by (rewrite El; apply lastN_snoc).
    assert (Hlin : In last ids) by (rewrite El; apply in_or_app; right; left; reflexivity).
    pose proof Hp as Hp0. rewrite El in Hp0.
    pose proof (path_last_EOC _ _ _ _ Hp0) as Hnx.
    assert (Hle : last <> END_OF_CHAIN).
    { apply path_mid in Hp0. inversion Hp0 as [|cur nx l' Hc Hn' Hp']. exact Hc. }
    destruct (ch_fat s HC) as [_ Clen _ _].
    destruct (extend_chain_append s start ids last (coherent_allocwf s HC (FreeClean_nil s Hfree))
                Hfree Clen ltac:(lia)
                ltac:(pose proof (Hmod 0 ltac:(lia)) as M; rewrite N.add_0_r in M; exact M) Hp Hlast)
      as (s1 & E1 & _ & _ & _ & N1 & V1 & D1 & _ & _ & P1 & _).
    destruct (extend_chain_append_coherent s last dids mids s1 (nsect s) HC Hfree Hreg ltac:(lia)
                Hdids Hmids Hnx Hle (Had last Hlin) (Ham last Hlin) E1)
      as (HC1 & Hfr1 & Hd1 & Hm1 & _ & _ & _ & _ & Dd1 & _).
    assert (Hfps1 : fat_per_sector s1 = fat_per_sector s)
      by (unfold fat_per_sector, slen; rewrite V1; reflexivity).
    destruct (IH s1 start (ids ++ [nsect s]) o dids mids HC1 Hfr1)
      as (s' & E' & HC' & Hfr' & Hd' & Hm' & P' & Ad' & Am' & Dd' & V' & N').
    + rewrite D1. exact Hreg.
    + rewrite N1. lia.
    + intros j Hj. rewrite N1, Hfps1. replace (nsect s + 1 + j) with (nsect s + (j + 1)) by lia.
      apply Hmod. lia.
    + exact Hd1.
    + exact Hm1.
    + intros x Hx. rewrite N1. specialize (Hdlt x Hx). lia.
    + intros x Hx. rewrite N1. specialize (Hmlt x Hx). lia.
    + intro E. apply app_eq_nil in E. destruct E as [_ E]. discriminate.
    + exact P1.
    + apply avoids_app; [exact Had|]. intros y [<-|[]] Hin. specialize (Hdlt _ Hin). lia.
    + apply avoids_app; [exact Ham|]. intros y [<-|[]] Hin. specialize (Hmlt _ Hin). lia.
    + exists s'. cbn [chain_grow seqN]. cbn [c_ids c_init c_off].
      rewrite Hlast. rewrite (bind_exec _ _ _ _ _ E1).
      rewrite N1 in E', P', Ad', Am'.
      rewrite <- app_assoc in E', P', Ad', Am'. cbn [app] in E', P', Ad', Am'.
      split; [exact E'|]. split; [exact HC'|]. split; [exact Hfr'|]. split; [exact Hd'|].
      split; [exact Hm'|]. split; [exact P'|]. split; [exact Ad'|]. split; [exact Am'|].
      split; [congruence|]. split; [congruence|]. rewrite N', N1. lia.
Qed.

(* S6 (append): a large stream grows by sectors appended to the file *)
Theorem resize_big_append_coherent : forall s id V ids new_len k,
  CohData s -> free s = [] ->
  lenN (difat s) < NUM_DIFAT_HDR -> nsect s + N.of_nat k + 3 <= MAX_REGULAR_SECTOR ->
  big_content s id V -> stream_ids s id ids ->
  slen s * lenN ids < new_len ->
  lenN ids + N.of_nat k = (slen s + new_len - 1) / slen s ->
  (forall j, j < N.of_nat k -> (nsect s + j) mod fat_per_sector s <> 0) ->
  new_len <= MAX_REGULAR_SECTOR * slen s -> LenFits s new_len ->
  exists s',
    resize id new_len s = (s', Ok tt) /\ Coherent s' /\ free s' = [] /\
    (forall strict, open_model strict (concat_img (img s')) = Ok (reopened s')) /\
    big_content (reopened s') id (V ++ repeatN 0 (new_len - lenN V)) /\
    stream_ids s' id (ids ++ seqN (nsect s) k) /\ nsect s' = nsect s + N.of_nat k /\
    (forall id' V' ids', id' <> id -> big_content s id' V' -> stream_ids s id' ids' ->
       big_content (reopened s') id' V').
Proof.
  intros s id V ids new_len k [HC HA] Hfree Hreg Hsize HB Hsi Hgt Hcount Hmod Hmax Hlen.
  pose proof (aw_store s HA) as Hwf.
  destruct (ch_fat s HC) as [[_ _ _ _ Clt] Clen _ _].
  destruct (resize_big_grow_zero_append s id V ids new_len k HB Hsi Hwf Hfree Clen Clt Hgt Hcount
              ltac:(lia) Hmod Hmax Hlen)
    as (s' & Hrun & HB' & Hsi' & Hfr' & Hn' & _ & _ & Hoth).
  pose proof (slen_pos s) as Hsp.
  pose proof Hsi as (e0 & He0 & _ & Hc0).
  pose proof HB as (e & ids' & He & Ht & Hcut & Hc & Hg & Hle & HV).
  rewrite He in He0. injection He0 as <-. rewrite Hc in Hc0. injection Hc0 as ->.
  assert (Hnl : MINI_STREAM_CUTOFF <= new_len) by lia.
  assert (Hnl0 : 0 < new_len) by (rewrite CUTOFF_val in Hnl; lia).
  destruct (ceil_props (slen s) new_len Hsp Hnl0) as [Hc1 Hc2].
  rewrite <- Hcount in Hc1, Hc2.
  pose proof (ids_nonempty s ids _ Hcut Hle) as Hne.
  destruct (chain_ids_head _ _ _ Hc Hne) as (Hst & t & Eids).
  pose proof (WalkProofs.chain_ids_path _ _ _ Hc) as Hp.
  assert (Hbig : big_ids s id ids) by (exists e; csplit; assumption).
  pose proof (ch_dir s HC) as (dids & Hdids & Hgd & _).
  pose proof (ch_mini s HC) as (mids & Hmids & Hgm & _).
  assert (Had : avoids ids dids) by exact (sw_dir_disj s Hwf id ids dids Hbig Hdids).
  assert (Ham : avoids ids mids) by exact (aw_mfat_big s HA mids id ids Hmids Hbig).
  assert (Hov : slen s + new_len < two64).
  { destruct (slen_cases s) as [Es|Es]; rewrite Es in *; rewrite MAXREG_val in Hmax;
      rewrite two64_val; lia. }
  (* Chain::set_len *)
  destruct (chain_grow_append_coherent k s (d_start e) ids 0 dids mids HC Hfree Hreg Hsize Hmod
              Hdids Hmids (chain_members_lt s dids Hgd) (chain_members_lt s mids Hgm) Hne Hp Had Ham)
    as (s1 & Hgrow & HC1 & Hfr1 & Hd1 & Hm1 & P1 & Ad1 & Am1 & Dd1 & V1 & N1).
  set (nw := seqN (nsect s) k) in *.
  assert (Hlnw : lenN nw = N.of_nat k) by (unfold nw; apply lenN_seqN).
  assert (Hsl1 : slen s1 = slen s) by (unfold slen; rewrite V1; reflexivity).
  assert (Hg1 : good_chain s1 (ids ++ nw)).
  { apply good_chain_of_wf; [exact (coherent_allocwf s1 HC1 (FreeClean_nil s1 Hfr1))|
                              eapply path_nodup; exact P1|].
    pose proof (WalkProofs.path_lt _ _ _ P1) as HFl.
    destruct (ch_fat s1 HC1) as [_ Clen1 _ _]. rewrite <- Clen1. exact HFl. }
  (* zero fill of the tail of the old last sector *)
  destruct (zero_fill_chain_dframe s1 (mkChain IZero (ids ++ nw) 0) (d_len e) (slen s * lenN ids) Hg1)
    as (s2 & c2 & Hz & Hids2 & F2 & Hd2).
  { unfold chain_len. cbn [c_ids]. rewrite Hsl1, lenN_app. nia. }
  cbn [c_ids] in *.
  pose proof F2 as (G1 & G2 & G3 & G4 & G5 & G6 & G7 & G8 & G9 & G10 & _).
  assert (HC2 : Coherent s2).
  { apply Coherent_split. apply Coherent_split in HC1. destruct HC1 as [C1 DP1]. split.
    - eapply (core_dframe (ids ++ nw)); [exact C1|exact F2| |].
      + eapply chain_avoids_difat; [exact C1|].
        apply WalkProofs.chain_ids_of_path; [exact P1|eapply path_nodup; exact P1].
      + intros m Hm. unfold DirCoherence.minifat_ids in *. rewrite Hm1 in Hm. injection Hm as <-. exact Am1.
    - eapply DirPart_dframe; [exact DP1|exact F2|exact Hd2|].
      intros d Hd. unfold DirCoherence.dir_ids in *. rewrite Hd1 in Hd. injection Hd as <-. exact Ad1. }
  (* the resize, executed *)
  assert (E : resize id new_len s = update_entry id (d_start e) new_len s2).
  { unfold resize.
    rewrite (bind_exec _ _ _ _ _ (stream_entry_exec s id e He Ht)).
    cbv beta iota zeta.
    rewrite (bind_exec _ _ _ _ _ (eq_refl : get s = (s, Ok s))). cbv beta iota zeta.
    replace (MAX_REGULAR_SECTOR * slen s <? new_len) with false by (symmetry; apply N.ltb_ge; exact Hmax).
    rewrite (bind_exec _ _ _ _ _ (eq_refl : ret tt s = (s, Ok tt))).
    rewrite (mask_check_false s new_len Hlen).
    rewrite (bind_exec _ _ _ _ _ (eq_refl : ret tt s = (s, Ok tt))).
    match goal with |- bind ?m _ s = _ => assert (E : m s = (s2, Ok (d_start e))) end.
    { destruct (d_start e =? END_OF_CHAIN) eqn:E2; [apply N.eqb_eq in E2; contradiction|].
      destruct (d_len e <? MINI_STREAM_CUTOFF) eqn:E3; [lia|].
      destruct (new_len =? 0) eqn:E4; [lia|].
      destruct (new_len <? MINI_STREAM_CUTOFF) eqn:E5; [lia|].
      rewrite (bind_exec _ _ _ _ _ (chain_new_exec s (d_start e) IZero ids Hc)).
      rewrite bind_get.
      assert (Hset : chain_set_len (mkChain IZero ids 0) new_len s
                     = (s1, Ok (mkChain IZero (ids ++ nw) 0))).
      { assert (Hk1 : lenN ids < (slen s + new_len - 1) / slen s) by (rewrite <- Hcount; nia).
        rewrite chain_set_len_grow by (cbn [c_ids]; assumption). cbn [c_ids].
        rewrite <- Hcount.
        replace (N.to_nat (lenN ids + N.of_nat k - lenN ids)) with k by lia.
        exact Hgrow. }
      rewrite (bind_exec _ _ _ _ _ Hset).
      unfold chain_len at 1. cbn [c_ids].
      replace (N.min new_len (slen s * lenN ids)) with (slen s * lenN ids) by lia.
      rewrite (bind_exec _ _ _ _ _ Hz).
      unfold chain_start. rewrite Hids2, Eids. cbn [app]. rewrite N.eqb_refl. reflexivity. }
    rewrite (bind_exec _ _ _ _ _ E). reflexivity. }
  rewrite E in Hrun.
  (* the entry *)
  destruct (update_entry_coherent s2 s' id e (d_start e) new_len HC2) as (HC' & Ed' & _).
  { intros d m Hd Hm. apply avoids_sym.
    assert (Hm0 : DirCoherence.minifat_ids s m).
    { unfold DirCoherence.minifat_ids in *. rewrite G5, G9 in Hm. rewrite Hm1 in Hm. injection Hm as <-. exact Hmids. }
    assert (Hd0 : DirCoherence.dir_ids s d).
    { unfold DirCoherence.dir_ids in *. rewrite G5, G7 in Hd. rewrite Hd1 in Hd. injection Hd as <-. exact Hdids. }
    exact (aw_mfat_dir s HA m d Hm0 Hd0). }
  { rewrite Hd2, Dd1. exact He. }
  { exact Ht. }
  { apply (CodecProofs.wf_start (ver s) e). apply (ch_dir_wf s HC). eapply nthN_In. exact He. }
  { unfold LenFits in Hlen. rewrite G1, V1. exact Hlen. }
  { exact Hrun. }
  exists s'. split; [rewrite E; exact Hrun|]. split; [exact HC'|]. split; [exact Hfr'|].
  split; [intro strict; apply reopen_both_modes; exact HC'|].
  split; [exact (big_content_same_store s' (reopened s') (same_store_reopened s') _ _ HB')|].
  split; [exact Hsi'|]. split; [exact Hn'|].
  intros id' V' ids2 Hneq HB2 Hsi2.
  apply (big_content_same_store s' (reopened s') (same_store_reopened s')).
  destruct (big_content_ids s id' V' ids2 HB2 Hsi2) as (e2 & He2 & Hbig2).
  refine (proj1 (Hoth id' V' ids2 Hneq HB2 Hsi2 _)).
  exact (aw_big_disj s HA id id' ids ids2 ltac:(congruence) Hbig Hbig2).
Qed.

(* ================================================================== *)
(* 8. non-vacuity                                                      *)
(* ================================================================== *)
(* HandleFrame's example file: "/a" = 100 bytes (slot 1, small, two mini
   sectors of the mini stream in sector 3), "/b" = 5000 bytes (slot 2, large,
   sectors 4..13), both created by running the model; handles 0 and 1 open.
     fA --OHWrite 0 [9;9;9]--> fB --OHFlush 0--> fC
        --OHSeek 1 Start 100--> fD --OHWrite 1 [5;5]--> fE --OHFlush 1--> fF *)
Module Example.
  Import HandleFrame.Example.

  Lemma cohdata_check : forall s, coherent_b s = true -> allwf_b s = true -> CohData s.
  Proof. intros s H1 H2. split; [apply coherent_b_sound; exact H1|apply allwf_b_sound; exact H2]. Qed.

  Example fA_cd : CohData (cs fA).
  Proof. apply cohdata_check; vm_compute; reflexivity. Qed.

  Ltac len_fits := unfold LenFits; vm_compute; discriminate.

  (* ---- the small stream: Write then Flush through handle 0 ---- *)
  Example write_covered_d : covered_op_d (OHWrite 0 [9; 9; 9]) hA0 (cs fA).
  Proof. cbn [covered_op_d]. intros E. vm_compute in E. discriminate E. Qed.

  Example flush_covered_d : cov_flush_d hB0 (cs fB).
  Proof. intro Hd. split; [exact (flush_covered Hd)|len_fits]. Qed.

  Example small_write_flush :
    (CohData (cs fB) /\
     forall strict, open_model strict (concat_img (img (cs fB))) = Ok (reopened (cs fB))) /\
    CohData (cs fC) /\
    (forall strict, open_model strict (concat_img (img (cs fC))) = Ok (reopened (cs fC))) /\
    stream_content (reopened (cs fC)) 1 Va.
  Proof.
    assert (H0 : nthN (hs fA) 0 = Some (Some hA0)) by (vm_compute; reflexivity).
    assert (H1 : nthN (hs fB) 0 = Some (Some hB0)) by (vm_compute; reflexivity).
    assert (I1 : h_id hB0 = 1) by (vm_compute; reflexivity).
    assert (HV : stream_content (cs fB) (h_id hB0) bytes100) by (rewrite I1; right; left; exact a_small).
    destruct (write_flush_persists fA 0 0 0 hA0 [9; 9; 9] fB _ hB0 bytes100 fC _
                H0 fA_cd write_covered_d step_write_ok H1 flush_covered_d HV step_flush_ok)
      as (X1 & _ & X2 & X3 & X4).
    split; [exact X1|]. split; [exact X2|]. split; [exact X3|].
    rewrite I1 in X4. replace Va with (absV hB0 bytes100) by (vm_compute; reflexivity). exact X4.
  Qed.

  (* the same, by evaluation: both modes accept the bytes after the flush, give
     the state [reopened], and reading "/a" from the reopened file returns the
     103 bytes *)
  Example small_flush_evaluated :
    open_model true (concat_img (img (cs fC))) = Ok (reopened (cs fC)) /\
    open_model false (concat_img (img (cs fC))) = Ok (reopened (cs fC)) /\
    snd (read_data 1 0 200 (reopened (cs fC))) = Ok Va.
  Proof. repeat split; vm_compute; reflexivity. Qed.

  (* ---- the large stream: Seek, Write, Flush through handle 1 ---- *)
  Example fE_cd : CohData (cs fE).
  Proof. apply cohdata_check; vm_compute; reflexivity. Qed.

  Example flush2_covered_d : cov_flush_d hE1 (cs fE).
  Proof. intro Hd. split; [exact (flush2_covered Hd)|len_fits]. Qed.

  Example fE_b_content : stream_content (cs fE) (h_id hE1) Vb.
  Proof.
    assert (I : h_id hE1 = 2) by (vm_compute; reflexivity). rewrite I.
    left. apply (big_check (cs fE) Vb idsb fE_wf). vm_compute. reflexivity.
  Qed.

  Example large_flush :
    CohData (cs fF) /\
    (forall strict, open_model strict (concat_img (img (cs fF))) = Ok (reopened (cs fF))) /\
    stream_content (reopened (cs fF)) 2 Vb' /\
    stream_content (reopened (cs fF)) 1 Va.
  Proof.
    destruct steps2_ok as (_ & _ & S3).
    assert (H2 : nthN (hs fE) 1 = Some (Some hE1)) by (vm_compute; reflexivity).
    assert (I : h_id hE1 = 2) by (vm_compute; reflexivity).
    destruct (flush_persists fE 0 1 hE1 Vb fF _ H2 fE_cd flush2_covered_d fE_b_content S3)
      as (_ & _ & X1 & X2 & X3 & X4).
    split; [exact X1|]. split; [exact X2|]. rewrite I in X3, X4. split.
    - replace Vb' with (absV hE1 Vb) by (vm_compute; reflexivity). exact X3.
    - apply X4; [discriminate|]. right; left.
      (* "/a" in fE is what the first flush left *)
      assert (E : cs fE = cs fC) by (vm_compute; reflexivity). rewrite E.
      destruct fC_a_content as [H|[H|H]]; [| exact H |].
      + exfalso. destruct H as (e & ids & He & _ & Hc & _). vm_compute in He. injection He as <-.
        vm_compute in Hc. apply Hc. reflexivity.
      + exfalso. destruct H as (e & He & _ & Hl & _). vm_compute in He. injection He as <-.
        vm_compute in Hl. discriminate Hl.
  Qed.

  Example large_flush_evaluated :
    open_model true (concat_img (img (cs fF))) = Ok (reopened (cs fF)) /\
    open_model false (concat_img (img (cs fF))) = Ok (reopened (cs fF)) /\
    snd (read_data 2 0 5000 (reopened (cs fF))) = Ok Vb' /\
    snd (read_data 1 0 200 (reopened (cs fF))) = Ok Va.
  Proof. repeat split; vm_compute; reflexivity. Qed.

  (* ---- store level: one in-place overwrite and one resize inside the last
          sector of "/b", directly on the state fA ---- *)
  Example store_overwrite :
    exists s',
      write_data 2 100 [5; 5] (cs fA) = (s', Ok tt) /\ CohData s' /\
      (forall strict, open_model strict (concat_img (img s')) = Ok (reopened s')) /\
      stream_content (reopened s') 2 (spliceN Vb 100 [5; 5]) /\
      stream_content (reopened s') 1 bytes100.
  Proof.
    destruct (big_check (cs fA) Vb idsb fA_wf) as [HB Hsi]; [vm_compute; reflexivity|].
    assert (HCW : CoveredWrite (cs fA) 2 100 [5; 5]).
    { left. exists Vb, idsb. split; [exact HB|]. split; [exact Hsi|]. split; [|split]; vm_compute; discriminate. }
    destruct (persist_after_covered_write (cs fA) 2 100 [5; 5] Vb fA_cd HCW ltac:(len_fits) (or_introl HB))
      as (s' & R & G & O & C1 & C2).
    exists s'. split; [exact R|]. split; [exact G|]. split; [exact O|]. split; [exact C1|].
    apply C2; [discriminate|]. right; left.
    assert (E : cs fA = cs fB) by (vm_compute; reflexivity). rewrite E. exact a_small.
  Qed.

  Example store_resize :
    exists s',
      resize 2 5100 (cs fA) = (s', Ok tt) /\ CohData s' /\
      (forall strict, open_model strict (concat_img (img s')) = Ok (reopened s')) /\
      stream_content (reopened s') 2 (resized Vb 5100).
  Proof.
    destruct (big_check (cs fA) Vb idsb fA_wf) as [HB Hsi]; [vm_compute; reflexivity|].
    assert (HCR : CoveredResize (cs fA) 2 5100).
    { left. exists Vb, idsb. split; [exact HB|]. split; [exact Hsi|].
      repeat split; vm_compute; first [discriminate|reflexivity]. }
    destruct (persist_after_covered_resize (cs fA) 2 5100 Vb fA_cd HCR ltac:(len_fits) (or_introl HB))
      as (s' & R & G & O & C1 & _).
    exists s'. split; [exact R|]. split; [exact G|]. split; [exact O|exact C1].
  Qed.

  (* ---- a history: the five handle operations above, a query, a metadata
          call (set_state on "/a") and the drop of handle 1; the round trip
          holds after every prefix ---- *)
  Definition hist : list (N * op) :=
    [(0, OHWrite 0 [9; 9; 9]); (0, OHFlush 0); (0, OHSeek 1 WStart 100);
     (0, OHWrite 1 [5; 5]); (0, OHFlush 1); (0, OExists [47; 98]);
     (0, OSetState [47; 97] 7); (0, OHDrop 1)].

  Ltac the_handle E H := rewrite H in E; injection E as <-.

  Example hist_ok : data_hist_ok fA hist.
  Proof.
    destruct steps2_ok as (S1 & S2 & S3).
    assert (A0 : nthN (hs fA) 0 = Some (Some hA0)) by (vm_compute; reflexivity).
    assert (B0 : nthN (hs fB) 0 = Some (Some hB0)) by (vm_compute; reflexivity).
    assert (C1 : nthN (hs fC) 1 = Some (Some hC1)) by (vm_compute; reflexivity).
    assert (D1 : nthN (hs fD) 1 = Some (Some hD1)) by (vm_compute; reflexivity).
    assert (E1 : nthN (hs fE) 1 = Some (Some hE1)) by (vm_compute; reflexivity).
    unfold hist. cbn [data_hist_ok].
    rewrite step_write_ok. cbn [fst]. rewrite step_flush_ok. cbn [fst].
    rewrite S1. cbn [fst]. rewrite S2. cbn [fst]. rewrite S3. cbn [fst].
    unfold data_step_ok. cbn [handle_slot query_op].
    split; [intros h E; the_handle E A0; exact write_covered_d|].
    split; [intros h E; the_handle E B0; exact flush_covered_d|].
    split; [intros h E; the_handle E C1; intro Hd; vm_compute in Hd; discriminate Hd|].
    split; [intros h E; the_handle E D1; intro Hd; vm_compute in Hd; discriminate Hd|].
    split; [intros h E; the_handle E E1; exact flush2_covered_d|].
    split; [left; exact I|]. split; [right; cbn [meta_op]; vm_compute; discriminate|].
    split; [|exact I].
    intros h E Hd. exfalso.
    assert (X : nthN (hs (fst (step (fst (step fF 0 (OExists [47; 98]))) 0 (OSetState [47; 97] 7)))) 1
                = Some (Some hF1))
      by (vm_compute; reflexivity).
    the_handle E X. vm_compute in Hd. discriminate Hd.
  Qed.

  Example hist_persists : forall l1 l2, hist = l1 ++ l2 ->
    let f1 := fst (run_ops fA l1) in
    forall strict, open_model strict (concat_img (img (cs f1))) = Ok (reopened (cs f1)).
  Proof.
    intros l1 l2 E. apply (persist_data_history l1 l2 fA fA_cd). rewrite <- E. exact hist_ok.
  Qed.

  (* and by evaluation at the end of the history *)
  Example hist_end_evaluated :
    let f := fst (run_ops fA hist) in
    open_model true (concat_img (img (cs f))) = Ok (reopened (cs f)) /\
    snd (read_data 2 0 5000 (reopened (cs f))) = Ok Vb' /\
    snd (read_data 1 0 200 (reopened (cs f))) = Ok Va.
  Proof. repeat split; vm_compute; reflexivity. Qed.

  (* ---- growth into a free sector: fG is fF after SetLen 4200 through handle 1
          (sector 13 released to the free stack); "/b" grows back to 5000 ---- *)
  Definition idsg : list N := [4; 5; 6; 7; 8; 9; 10; 11; 12].
  Definition Vg : list byte := takeN 4200 Vb'.

  Example fG_cd : CohData (cs fG).
  Proof. apply cohdata_check; vm_compute; reflexivity. Qed.
  Example fG_free : FreeClean (cs fG) /\ free (cs fG) = [] ++ rev [13].
  Proof. split; [apply free_clean_b_sound|]; vm_compute; reflexivity. Qed.

  Example reuse_growth :
    exists s',
      resize 2 5000 (cs fG) = (s', Ok tt) /\ Coherent s' /\ FreeClean s' /\
      (forall strict, open_model strict (concat_img (img s')) = Ok (reopened s')) /\
      big_content (reopened s') 2 (Vg ++ repeatN 0 800) /\
      stream_ids s' 2 (idsg ++ [13]) /\ free s' = [] /\ nsect s' = nsect (cs fG).
  Proof.
    destruct fG_free as [HF Hfr].
    destruct (big_check (cs fG) Vg idsg (proj2 fG_cd)) as [HB Hsi]; [vm_compute; reflexivity|].
    assert (H1 : slen (cs fG) * lenN idsg < 5000) by (vm_compute; reflexivity).
    assert (H2 : lenN idsg + lenN [13] = (slen (cs fG) + 5000 - 1) / slen (cs fG)) by (vm_compute; reflexivity).
    assert (H3 : 5000 <= MAX_REGULAR_SECTOR * slen (cs fG)) by (vm_compute; discriminate).
    assert (H4 : LenFits (cs fG) 5000) by (unfold LenFits; vm_compute; discriminate).
    destruct (resize_big_reuse_coherent (cs fG) 2 Vg idsg 5000 [] [13] fG_cd HF HB Hsi H1 Hfr H2 H3 H4)
      as (s' & R & C & F & O & B & S & Fr & N & _).
    exists s'. split; [exact R|]. split; [exact C|]. split; [exact F|]. split; [exact O|].
    split; [|split; [exact S|split; [exact Fr|exact N]]].
    replace (Vg ++ repeatN 0 800) with (Vg ++ repeatN 0 (5000 - lenN Vg)) by (vm_compute; reflexivity).
    exact B.
  Qed.

  Example reuse_growth_evaluated :
    let s' := fst (resize 2 5000 (cs fG)) in
    open_model true (concat_img (img s')) = Ok (reopened s') /\
    snd (read_data 2 0 5000 (reopened s')) = Ok (Vg ++ repeatN 0 800).
  Proof. split; vm_compute; reflexivity. Qed.

  (* ---- growth at the end of the file: "/b" from 5000 to 6000 bytes on fA
          (free stack empty: sectors 14 and 15 are appended) ---- *)
  Example append_growth :
    exists s',
      resize 2 6000 (cs fA) = (s', Ok tt) /\ Coherent s' /\ free s' = [] /\
      (forall strict, open_model strict (concat_img (img s')) = Ok (reopened s')) /\
      big_content (reopened s') 2 (Vb ++ repeatN 0 1000) /\
      stream_ids s' 2 (idsb ++ [14; 15]) /\ nsect s' = 16.
  Proof.
    destruct (big_check (cs fA) Vb idsb fA_wf) as [HB Hsi]; [vm_compute; reflexivity|].
    assert (H0 : free (cs fA) = []) by (vm_compute; reflexivity).
    assert (H1 : lenN (difat (cs fA)) < NUM_DIFAT_HDR) by (vm_compute; reflexivity).
    assert (H2 : nsect (cs fA) + N.of_nat 2 + 3 <= MAX_REGULAR_SECTOR) by (vm_compute; discriminate).
    assert (H3 : slen (cs fA) * lenN idsb < 6000) by (vm_compute; reflexivity).
    assert (H4 : lenN idsb + N.of_nat 2 = (slen (cs fA) + 6000 - 1) / slen (cs fA)) by (vm_compute; reflexivity).
    assert (H5 : forall j, j < N.of_nat 2 -> (nsect (cs fA) + j) mod fat_per_sector (cs fA) <> 0).
    { intros j Hj. assert (j = 0 \/ j = 1) as [-> | ->] by lia; vm_compute; discriminate. }
    assert (H6 : 6000 <= MAX_REGULAR_SECTOR * slen (cs fA)) by (vm_compute; discriminate).
    assert (H7 : LenFits (cs fA) 6000) by (unfold LenFits; vm_compute; discriminate).
    destruct (resize_big_append_coherent (cs fA) 2 Vb idsb 6000 2 fA_cd H0 H1 H2 HB Hsi H3 H4 H5 H6 H7)
      as (s' & R & C & F & O & B & S & N & _).
    exists s'. split; [exact R|]. split; [exact C|]. split; [exact F|]. split; [exact O|].
    split; [|split; [exact S|rewrite N; vm_compute; reflexivity]].
    replace (Vb ++ repeatN 0 1000) with (Vb ++ repeatN 0 (6000 - lenN Vb)) by (vm_compute; reflexivity).
    exact B.
  Qed.

  Example append_growth_evaluated :
    let s' := fst (resize 2 6000 (cs fA)) in
    open_model true (concat_img (img s')) = Ok (reopened s') /\
    snd (read_data 2 0 6000 (reopened s')) = Ok (Vb ++ repeatN 0 1000).
  Proof. split; vm_compute; reflexivity. Qed.

  (* ---- why [LenFits]: a version-3 entry stores 64 bits of length but is read
          back through a 32-bit mask; a length of 2^32 + 5 comes back as 5 ---- *)
  Example len_fits_needed :
    let e := set_start_len (dirent_new [97] TStream 0) 4 (4294967296 + 5) in
    (exists e', dirent_decode V3 true (dirent_encode e) = Ok e' /\ d_len e' = 5) /\
    (exists e', dirent_decode V4 true (dirent_encode e) = Ok e' /\ d_len e' = 4294967296 + 5).
  Proof. split; eexists; split; vm_compute; reflexivity. Qed.
End Example.

Check core_dframe.
Check dir_dframe.
Check dir_validate_updN.
Check update_entry_coherent.
Check two_phase_coherent.
Check write_data_cohdata.
Check resize_cohdata.
Check stream_content_reopened.
Check persist_after_covered_write.
Check persist_after_covered_resize.
Check hop_run_cohdata.
Check handle_op_persists.
Check flush_persists.
Check drop_persists.
Check write_flush_persists.
Check data_history_cohdata.
Check persist_data_history.
Check wdem_coherent.
Check wdem_cohdata.
Check meta_step_cohdata.
Check FR_coherent.
Check extend_chain_reuse_coherent.
Check chain_grow_reuse_coherent.
Check resize_big_reuse_coherent.
Check extend_chain_append_coherent.
Check chain_grow_append_coherent.
Check resize_big_append_coherent.
Print Assumptions write_data_cohdata.
Print Assumptions resize_cohdata.
Print Assumptions persist_after_covered_write.
Print Assumptions persist_after_covered_resize.
Print Assumptions handle_op_persists.
Print Assumptions flush_persists.
Print Assumptions drop_persists.
Print Assumptions write_flush_persists.
Print Assumptions persist_data_history.
Print Assumptions meta_step_cohdata.
Print Assumptions Example.small_write_flush.
Print Assumptions Example.large_flush.
Print Assumptions Example.store_overwrite.
Print Assumptions Example.store_resize.
Print Assumptions Example.hist_persists.
Print Assumptions resize_big_reuse_coherent.
Print Assumptions Example.reuse_growth.
Print Assumptions resize_big_append_coherent.
Print Assumptions Example.append_growth.
