(* DirProofs.v — the directory table of model/Dir.v as a family of
   id-labelled binary search trees: representation, lookup, insertion,
   removal by relinking (ids of surviving entries never change), listing. *)
From Coq Require Import List NArith Lia Bool Sorted Permutation ZifyN ZifyBool Arith.
From Cfb.model Require Import Base Names DirEnt State Alloc Dir.
From Cfb.gen Require Import Consts.
From Cfb.proofs Require Import NamesProofs.
Import ListNotations.
Open Scope N_scope.

(* ================================================================== *)
(* 0. lists indexed by N                                               *)
(* ================================================================== *)

Lemma lenN_length : forall A (l : list A), lenN l = N.of_nat (length l).
Proof.
  induction l as [|a l IH]; cbn [lenN length]; [reflexivity|]. rewrite IH. lia.
Qed.

Lemma lenN_app : forall A (l m : list A), lenN (l ++ m) = lenN l + lenN m.
Proof.
  induction l as [|a l IH]; intros m; cbn [lenN app]; [lia|]. rewrite IH. lia.
Qed.

Lemma nthN_Some_lt : forall A (l : list A) i e, nthN l i = Some e -> i < lenN l.
Proof.
  induction l as [|a l IH]; intros i e H; cbn [nthN lenN] in *; [discriminate|].
  destruct (N.eqb_spec i 0); [lia|]. apply IH in H. lia.
Qed.

Lemma nthN_lt_Some : forall A (l : list A) i, i < lenN l -> exists e, nthN l i = Some e.
Proof.
  induction l as [|a l IH]; intros i H; cbn [nthN lenN] in *; [lia|].
  destruct (N.eqb_spec i 0); [eauto|]. apply IH. lia.
Qed.

Lemma nthN_None_ge : forall A (l : list A) i, nthN l i = None -> lenN l <= i.
Proof.
  intros A l i H. destruct (N.lt_ge_cases i (lenN l)) as [Hlt|Hge]; [|exact Hge].
  destruct (nthN_lt_Some _ l i Hlt) as [e He]. congruence.
Qed.

Lemma lenN_updN : forall A (l : list A) i v, lenN (updN l i v) = lenN l.
Proof.
  induction l as [|a l IH]; intros i v; cbn [updN lenN]; [reflexivity|].
  destruct (i =? 0); cbn [lenN]; [reflexivity|]. rewrite IH. reflexivity.
Qed.

Lemma length_updN : forall A (l : list A) i v, length (updN l i v) = length l.
Proof.
  intros. apply Nat2N.inj. rewrite <- !lenN_length. apply lenN_updN.
Qed.

Lemma nthN_updN_same : forall A (l : list A) i v, i < lenN l -> nthN (updN l i v) i = Some v.
Proof.
  induction l as [|a l IH]; intros i v H; cbn [updN nthN lenN] in *; [lia|].
  destruct (N.eqb_spec i 0) as [E|E]; cbn [nthN].
  - subst. reflexivity.
  - destruct (N.eqb_spec i 0); [contradiction|]. apply IH. lia.
Qed.

Lemma nthN_updN_other : forall A (l : list A) i j v, i <> j -> nthN (updN l i v) j = nthN l j.
Proof.
  induction l as [|a l IH]; intros i j v H; cbn [updN nthN]; [reflexivity|].
  destruct (N.eqb_spec i 0) as [E|E]; cbn [nthN].
  - destruct (N.eqb_spec j 0); [lia|reflexivity].
  - destruct (N.eqb_spec j 0); [reflexivity|]. apply IH. lia.
Qed.

Lemma updN_out : forall A (l : list A) i v, nthN l i = None -> updN l i v = l.
Proof.
  induction l as [|a l IH]; intros i v H; cbn [updN nthN] in *; [reflexivity|].
  destruct (i =? 0); [discriminate|]. rewrite IH by assumption. reflexivity.
Qed.

Lemma nthN_app_l : forall A (l m : list A) i, i < lenN l -> nthN (l ++ m) i = nthN l i.
Proof.
  induction l as [|a l IH]; intros m i H; cbn [nthN lenN app] in *; [lia|].
  destruct (N.eqb_spec i 0); [reflexivity|]. apply IH. lia.
Qed.

Lemma nthN_app_last : forall A (l : list A) v, nthN (l ++ [v]) (lenN l) = Some v.
Proof.
  induction l as [|a l IH]; intros v; cbn [nthN lenN app].
  - reflexivity.
  - destruct (N.eqb_spec (N.succ (lenN l)) 0); [lia|]. rewrite N.pred_succ. apply IH.
Qed.

(* read-modify-write of one slot *)
Definition modN (ds : list dirent) (i : N) (f : dirent -> dirent) : list dirent :=
  match nthN ds i with Some e => updN ds i (f e) | None => ds end.

Lemma lenN_modN : forall ds i f, lenN (modN ds i f) = lenN ds.
Proof. intros. unfold modN. destruct (nthN ds i); [apply lenN_updN|reflexivity]. Qed.

Lemma nthN_modN_same : forall ds i f e, nthN ds i = Some e -> nthN (modN ds i f) i = Some (f e).
Proof.
  intros ds i f e H. unfold modN. rewrite H. apply nthN_updN_same. eapply nthN_Some_lt; eauto.
Qed.

Lemma nthN_modN_other : forall ds i j f, i <> j -> nthN (modN ds i f) j = nthN ds j.
Proof.
  intros ds i j f H. unfold modN. destruct (nthN ds i); [apply nthN_updN_other; exact H|reflexivity].
Qed.

Lemma nthN_modN : forall ds i j f,
  nthN (modN ds i f) j = if i =? j then option_map f (nthN ds j) else nthN ds j.
Proof.
  intros ds i j f. destruct (N.eqb_spec i j) as [E|E].
  - subst. destruct (nthN ds j) as [e|] eqn:He.
    + erewrite nthN_modN_same by eauto. reflexivity.
    + unfold modN. rewrite He. cbn. exact He.
  - apply nthN_modN_other. exact E.
Qed.

(* ================================================================== *)
(* A. representation                                                   *)
(* ================================================================== *)

Inductive btree := BL | BN (l : btree) (id : N) (r : btree).

Fixpoint ids (t : btree) : list N :=
  match t with BL => [] | BN l i r => ids l ++ i :: ids r end.

Fixpoint Rep (ds : list dirent) (root : N) (t : btree) : Prop :=
  match t with
  | BL => root = NO_STREAM
  | BN l i r =>
    root = i /\ i <> NO_STREAM /\
    exists e, nthN ds i = Some e /\ Rep ds (d_left e) l /\ Rep ds (d_right e) r
  end.

Definition nm_of (ds : list dirent) (i : N) : name :=
  match nthN ds i with Some e => d_name e | None => [] end.

Fixpoint bst (ds : list dirent) (t : btree) : Prop :=
  match t with
  | BL => True
  | BN l i r =>
    bst ds l /\ bst ds r /\
    (forall j, In j (ids l) -> cmp_names (nm_of ds j) (nm_of ds i) = Lt) /\
    (forall j, In j (ids r) -> cmp_names (nm_of ds j) (nm_of ds i) = Gt)
  end.

Theorem rep_functional : forall ds t root t', Rep ds root t -> Rep ds root t' -> t = t'.
Proof.
  induction t as [|l IHl i r IHr]; intros root t' H H'.
  - destruct t' as [|l' i' r']; [reflexivity|]. cbn [Rep] in *.
    destruct H' as (E & Hne & _). congruence.
  - destruct t' as [|l' i' r']; cbn [Rep] in *.
    + destruct H as (E & Hne & _). congruence.
    + destruct H as (E & Hne & e & He & HL & HR).
      destruct H' as (E' & Hne' & e' & He' & HL' & HR').
      assert (i = i') by congruence. subst i'. subst root.
      assert (e = e') by congruence. subst e'.
      f_equal; eauto.
Qed.

(* only the link fields of the entries of the tree matter *)
Definition keeps (ds ds' : list dirent) (j : N) : Prop :=
  forall e, nthN ds j = Some e ->
  exists e', nthN ds' j = Some e' /\ d_left e' = d_left e /\ d_right e' = d_right e.

Lemma keeps_eq : forall ds ds' j, nthN ds' j = nthN ds j -> keeps ds ds' j.
Proof. intros ds ds' j H e He. exists e. rewrite H. auto. Qed.

Lemma keeps_trans : forall a b c j, keeps a b j -> keeps b c j -> keeps a c j.
Proof.
  intros a b c j H1 H2 e He. destruct (H1 e He) as (e1 & He1 & L1 & R1).
  destruct (H2 e1 He1) as (e2 & He2 & L2 & R2). exists e2. repeat split; congruence.
Qed.

Lemma rep_frame_links : forall ds ds' t root,
  Rep ds root t -> (forall j, In j (ids t) -> keeps ds ds' j) -> Rep ds' root t.
Proof.
  induction t as [|l IHl i r IHr]; intros root H K; cbn [Rep ids] in *; [exact H|].
  destruct H as (E & Hne & e & He & HL & HR).
  assert (In i (ids l ++ i :: ids r)) as Hi by (apply in_or_app; right; left; reflexivity).
  destruct (K i Hi e He) as (e' & He' & EL & ER).
  split; [exact E|]. split; [exact Hne|]. exists e'. split; [exact He'|].
  rewrite EL, ER. split.
  - apply IHl; [exact HL|]. intros j Hj. apply K. apply in_or_app. left. exact Hj.
  - apply IHr; [exact HR|]. intros j Hj. apply K. apply in_or_app. right. right. exact Hj.
Qed.

Theorem rep_frame : forall ds ds' t root,
  Rep ds root t -> (forall i, In i (ids t) -> nthN ds' i = nthN ds i) -> Rep ds' root t.
Proof.
  intros ds ds' t root H K. eapply rep_frame_links; [exact H|].
  intros j Hj. apply keeps_eq. apply K. exact Hj.
Qed.

Lemma rep_ids : forall ds t root, Rep ds root t ->
  forall i, In i (ids t) -> i <> NO_STREAM /\ i < lenN ds.
Proof.
  induction t as [|l IHl i r IHr]; intros root H j Hj; cbn [Rep ids] in *; [contradiction|].
  destruct H as (E & Hne & e & He & HL & HR).
  apply in_app_or in Hj. destruct Hj as [Hj|[Hj|Hj]].
  - eapply IHl; eauto.
  - subst j. split; [exact Hne|]. eapply nthN_Some_lt; eauto.
  - eapply IHr; eauto.
Qed.

Lemma rep_root : forall ds t root, Rep ds root t ->
  match t with BL => root = NO_STREAM | BN _ i _ => root = i /\ i <> NO_STREAM end.
Proof. intros ds [|l i r] root H; cbn [Rep] in H; tauto. Qed.

Lemma rep_nostream : forall ds t, Rep ds NO_STREAM t -> t = BL.
Proof. intros ds [|l i r] H; [reflexivity|]. cbn [Rep] in H. destruct H as (E & Hne & _). congruence. Qed.

Lemma rep_some : forall ds t root, Rep ds root t -> root <> NO_STREAM ->
  exists l r, t = BN l root r.
Proof.
  intros ds [|l i r] root H Hne; cbn [Rep] in H; [contradiction|].
  destruct H as (E & _). subst. eauto.
Qed.

(* pigeonhole: a duplicate-free tree inside the table is no longer than the table *)
Lemma nodup_bound : forall (l : list N) (n : nat),
  NoDup l -> (forall i, In i l -> i < N.of_nat n) -> (length l <= n)%nat.
Proof.
  intros l n ND B.
  assert (incl l (map N.of_nat (seq 0 n))) as I.
  { intros i Hi. apply B in Hi. apply in_map_iff. exists (N.to_nat i). split; [lia|].
    apply in_seq. lia. }
  apply NoDup_incl_length in I; [|exact ND]. rewrite map_length, seq_length in I. exact I.
Qed.

Lemma rep_length : forall ds t root, Rep ds root t -> NoDup (ids t) ->
  (length (ids t) <= length ds)%nat.
Proof.
  intros ds t root H ND. apply nodup_bound; [exact ND|].
  intros i Hi. rewrite <- lenN_length. eapply rep_ids; eauto.
Qed.

(* ================================================================== *)
(* B. lookup                                                           *)
(* ================================================================== *)

Fixpoint bst_find (ds : list dirent) (nm : name) (t : btree) : option N :=
  match t with
  | BL => None
  | BN l i r =>
    match cmp_names nm (nm_of ds i) with
    | Eq => Some i
    | Lt => bst_find ds nm l
    | Gt => bst_find ds nm r
    end
  end.

Theorem find_in_siblings_spec : forall ds nm t root fuel,
  Rep ds root t -> (length (ids t) < fuel)%nat ->
  find_in_siblings fuel ds nm root = Ok (bst_find ds nm t).
Proof.
  induction t as [|l IHl i r IHr]; intros root fuel H Hf.
  - cbn [Rep] in H. subst root. destruct fuel; [cbn in Hf; lia|].
    cbn [find_in_siblings]. rewrite N.eqb_refl. reflexivity.
  - cbn [Rep] in H. destruct H as (E & Hne & e & He & HL & HR). subst root.
    cbn [ids] in Hf. rewrite app_length in Hf. cbn [length] in Hf.
    destruct fuel; [lia|]. cbn [find_in_siblings].
    destruct (N.eqb_spec i NO_STREAM); [contradiction|].
    unfold dir_entry_of. rewrite He. cbn [rbind bst_find]. unfold nm_of. rewrite He.
    destruct (cmp_names nm (d_name e)).
    + reflexivity.
    + apply IHl; [exact HL|lia].
    + apply IHr; [exact HR|lia].
Qed.

Lemma bst_find_sound : forall ds nm t id,
  bst_find ds nm t = Some id -> In id (ids t) /\ cmp_names nm (nm_of ds id) = Eq.
Proof.
  induction t as [|l IHl i r IHr]; intros id H; cbn [bst_find ids] in *; [discriminate|].
  destruct (cmp_names nm (nm_of ds i)) eqn:C.
  - injection H as <-. split; [apply in_or_app; right; left; reflexivity|exact C].
  - apply IHl in H. destruct H. split; [apply in_or_app; left|]; assumption.
  - apply IHr in H. destruct H. split; [apply in_or_app; right; right|]; assumption.
Qed.

Theorem bst_find_iff : forall ds nm t id, bst ds t ->
  (bst_find ds nm t = Some id <-> In id (ids t) /\ cmp_names nm (nm_of ds id) = Eq).
Proof.
  intros ds nm t id B. split; [apply bst_find_sound|].
  revert B. induction t as [|l IHl i r IHr]; intros B [Hin Hc]; cbn [bst_find ids bst] in *; [contradiction|].
  destruct B as (Bl & Br & Lo & Hi).
  pose proof (cmp_names_eq_compat_l _ _ (nm_of ds i) Hc) as Hk.
  apply in_app_or in Hin. destruct Hin as [Hin|[Hin|Hin]].
  - rewrite Hk, (Lo _ Hin). apply IHl; auto.
  - subst id. rewrite Hc. reflexivity.
  - rewrite Hk, (Hi _ Hin). apply IHr; auto.
Qed.

Corollary bst_find_none : forall ds nm t, bst ds t ->
  (bst_find ds nm t = None <-> forall id, In id (ids t) -> cmp_names nm (nm_of ds id) <> Eq).
Proof.
  intros ds nm t B. split.
  - intros H id Hin Hc. assert (bst_find ds nm t = Some id) by (apply bst_find_iff; auto). congruence.
  - intros H. destruct (bst_find ds nm t) as [id|] eqn:E; [|reflexivity].
    apply bst_find_sound in E. destruct E as [Hin Hc]. exfalso. eapply H; eauto.
Qed.

(* the model's own fuel is enough, and the descent never panics *)
Corollary find_in_siblings_total : forall ds nm t root,
  Rep ds root t -> NoDup (ids t) ->
  find_in_siblings (S (length ds)) ds nm root = Ok (bst_find ds nm t).
Proof.
  intros ds nm t root H ND. apply find_in_siblings_spec; [exact H|].
  pose proof (rep_length _ _ _ H ND). lia.
Qed.

Corollary find_in_siblings_not_bad : forall ds nm t root,
  Rep ds root t -> NoDup (ids t) ->
  is_bad (find_in_siblings (S (length ds)) ds nm root) = false.
Proof. intros. erewrite find_in_siblings_total by eauto. reflexivity. Qed.

(* ================================================================== *)
(* monad plumbing: inversion and frame lemmas                          *)
(* ================================================================== *)

Lemma bind_ok_inv : forall A B (m : M A) (f : A -> M B) s s' x,
  bind m f s = (s', Ok x) -> exists a s1, m s = (s1, Ok a) /\ f a s1 = (s', Ok x).
Proof.
  intros A B m f s s' x H. unfold bind in H. destruct (m s) as [s1 r].
  destruct r; try discriminate H. eauto.
Qed.

(* [m] leaves the cached directory table alone, whatever its outcome *)
Definition frames {A} (m : M A) : Prop := forall s, dirs (fst (m s)) = dirs s.

Lemma frames_run : forall A (m : M A) s s' r, frames m -> m s = (s', r) -> dirs s' = dirs s.
Proof. intros A m s s' r F H. specialize (F s). rewrite H in F. exact F. Qed.

Lemma frames_bind : forall A B (m : M A) (f : A -> M B),
  frames m -> (forall a, frames (f a)) -> frames (bind m f).
Proof.
  intros A B m f Hm Hf s. unfold bind. specialize (Hm s). destruct (m s) as [s1 r].
  cbn [fst] in Hm. destruct r; cbn [fst]; try exact Hm. rewrite (Hf a s1). exact Hm.
Qed.
Lemma frames_ret : forall A (a : A), frames (ret a). Proof. intros A a s. reflexivity. Qed.
Lemma frames_fail : forall A k, frames (@fail A k). Proof. intros A k s. reflexivity. Qed.
Lemma frames_panic : forall A n, frames (@panic A n). Proof. intros A n s. reflexivity. Qed.
Lemma frames_oof : forall A, frames (@out_of_fuel A). Proof. intros A s. reflexivity. Qed.
Lemma frames_get : frames get. Proof. intros s. reflexivity. Qed.
Lemma frames_lift : forall A (r : res A), frames (lift r). Proof. intros A r s. reflexivity. Qed.
Lemma frames_modify : forall f, (forall s, dirs (f s) = dirs s) -> frames (modify f).
Proof. intros f H s. cbn. apply H. Qed.

Create HintDb frames.

Ltac fr_step :=
  match goal with
  | |- frames (bind _ _) => apply frames_bind; [|intros]
  | |- frames (ret _) => apply frames_ret
  | |- frames (fail _) => apply frames_fail
  | |- frames (panic _) => apply frames_panic
  | |- frames out_of_fuel => apply frames_oof
  | |- frames get => apply frames_get
  | |- frames (lift _) => apply frames_lift
  | |- frames (modify _) => apply frames_modify; intros; reflexivity
  | |- frames (match ?x with _ => _ end) => destruct x
  | |- frames _ => solve [auto with frames]
  end.
Ltac fr := intros; repeat fr_step.

Lemma frames_seek_sector : forall sid off, frames (seek_sector sid off).
Proof. unfold seek_sector. fr. Qed.
#[export] Hint Resolve frames_seek_sector : frames.
Lemma frames_sector_write : forall sid off bs, frames (sector_write sid off bs).
Proof. unfold sector_write. fr. Qed.
#[export] Hint Resolve frames_sector_write : frames.
Lemma frames_header_write : forall off bs, frames (header_write off bs).
Proof. unfold header_write. fr. Qed.
#[export] Hint Resolve frames_header_write : frames.
Lemma frames_init_sector : forall sid i, frames (init_sector sid i).
Proof. unfold init_sector. fr. Qed.
#[export] Hint Resolve frames_init_sector : frames.
Lemma frames_next : forall sid, frames (next sid).
Proof. unfold next. fr. Qed.
#[export] Hint Resolve frames_next : frames.
Lemma frames_chain_new : forall st i, frames (chain_new st i).
Proof. unfold chain_new. fr. Qed.
#[export] Hint Resolve frames_chain_new : frames.
Lemma frames_set_fat : forall i v, frames (set_fat i v).
Proof. unfold set_fat. fr. Qed.
#[export] Hint Resolve frames_set_fat : frames.
Lemma frames_append_fat_sector : frames append_fat_sector.
Proof. unfold append_fat_sector. fr. Qed.
#[export] Hint Resolve frames_append_fat_sector : frames.
Lemma frames_allocate_sector : forall i, frames (allocate_sector i).
Proof. unfold allocate_sector. fr. Qed.
#[export] Hint Resolve frames_allocate_sector : frames.
Lemma frames_begin_chain : forall i, frames (begin_chain i).
Proof. unfold begin_chain. fr. Qed.
#[export] Hint Resolve frames_begin_chain : frames.
Lemma frames_extend_chain : forall st i, frames (extend_chain st i).
Proof. unfold extend_chain. fr. Qed.
#[export] Hint Resolve frames_extend_chain : frames.
Lemma frames_chain_seek : forall c pos, frames (chain_seek c pos).
Proof. unfold chain_seek. fr. Qed.
#[export] Hint Resolve frames_chain_seek : frames.
Lemma frames_chain_write_go : forall fuel c bs, frames (chain_write_go fuel c bs).
Proof. induction fuel as [|f IH]; intros c bs; cbn [chain_write_go]; fr. Qed.
#[export] Hint Resolve frames_chain_write_go : frames.
Lemma frames_chain_write_all : forall c bs, frames (chain_write_all c bs).
Proof. unfold chain_write_all. fr. Qed.
#[export] Hint Resolve frames_chain_write_all : frames.
Lemma frames_dir_entry : forall id, frames (dir_entry id).
Proof. unfold dir_entry. fr. Qed.
#[export] Hint Resolve frames_dir_entry : frames.
Lemma frames_write_in_dir_entry : forall id off bs, frames (write_in_dir_entry id off bs).
Proof. unfold write_in_dir_entry. fr. Qed.
#[export] Hint Resolve frames_write_in_dir_entry : frames.
Lemma frames_write_dir_entry : forall id, frames (write_dir_entry id).
Proof. unfold write_dir_entry. fr. Qed.
#[export] Hint Resolve frames_write_dir_entry : frames.
Lemma frames_update_num_dir_sectors : frames update_num_dir_sectors.
Proof. unfold update_num_dir_sectors. fr. Qed.
#[export] Hint Resolve frames_update_num_dir_sectors : frames.
Lemma frames_write_entries : forall l, frames (write_entries l).
Proof. induction l as [|i l IH]; cbn [write_entries]; fr. Qed.
#[export] Hint Resolve frames_write_entries : frames.

(* inversion of the primitives *)
Lemma ret_inv : forall A (a x : A) s s', ret a s = (s', Ok x) -> s' = s /\ x = a.
Proof. intros A a x s s' H. unfold ret in H. injection H as <- <-. auto. Qed.
Lemma lift_inv : forall A (r : res A) x s s', lift r s = (s', Ok x) -> s' = s /\ r = Ok x.
Proof. intros A r x s s' H. unfold lift in H. injection H as <- <-. auto. Qed.
Lemma get_inv : forall x s s', get s = (s', Ok x) -> s' = s /\ x = s.
Proof. intros x s s' H. unfold get in H. injection H as <- <-. auto. Qed.
Lemma panic_inv : forall A n (x : A) s s', panic n s = (s', Ok x) -> False.
Proof. intros A n x s s' H. unfold panic in H. discriminate H. Qed.

Lemma dir_entry_inv : forall id s s' e,
  dir_entry id s = (s', Ok e) -> s' = s /\ nthN (dirs s) id = Some e.
Proof.
  intros id s s' e H. unfold dir_entry in H. apply bind_ok_inv in H.
  destruct H as (s0 & s1 & Hg & H). apply get_inv in Hg. destruct Hg as [-> ->].
  destruct (nthN (dirs s) id) as [e0|]; [|exfalso; eapply panic_inv; eauto].
  apply ret_inv in H. destruct H as [-> ->]. auto.
Qed.

Lemma set_dir_entry_inv : forall id e s s' u,
  set_dir_entry id e s = (s', Ok u) ->
  (exists old, nthN (dirs s) id = Some old) /\ dirs s' = updN (dirs s) id e.
Proof.
  intros id e s s' u H. unfold set_dir_entry in H. apply bind_ok_inv in H.
  destruct H as (s0 & s1 & Hg & H). apply get_inv in Hg. destruct Hg as [-> ->].
  destruct (nthN (dirs s) id) as [e0|]; [|exfalso; eapply panic_inv; eauto].
  unfold put in H. injection H as <-. split; [eauto|reflexivity].
Qed.

(* dir_entry k; set_dir_entry k (f e) *)
Lemma rmw_inv : forall k (f : dirent -> dirent) s s' u,
  bind (dir_entry k) (fun e => set_dir_entry k (f e)) s = (s', Ok u) ->
  (exists e, nthN (dirs s) k = Some e) /\ dirs s' = modN (dirs s) k f.
Proof.
  intros k f s s' u H. apply bind_ok_inv in H. destruct H as (e & s1 & H1 & H2).
  apply dir_entry_inv in H1. destruct H1 as [-> He].
  apply set_dir_entry_inv in H2. destruct H2 as [_ H2].
  split; [eauto|]. unfold modN. rewrite He. exact H2.
Qed.

(* ================================================================== *)
(* D. removal: projection on the table                                 *)
(* ================================================================== *)

Definition recolor_black (ds : list dirent) (c : N) : list dirent :=
  if c =? NO_STREAM then ds else modN ds c (fun ce => set_color ce Black).

(* splice the entry [x] (contents [e]) out of its subtree; result: the new
   table and the id that takes x's place *)
Definition splice_tbl (ds : list dirent) (x : N) (e : dirent) (pp pred : N) : list dirent * N :=
  let l := d_left e in
  let r := d_right e in
  if (l =? NO_STREAM) || (r =? NO_STREAM) then
    let c := if l =? NO_STREAM then r else l in (recolor_black ds c, c)
  else
    let pl := match nthN ds pred with Some pe => d_left pe | None => NO_STREAM end in
    let ds1 := recolor_black ds pl in
    let ds2 := if pp =? x then ds1
               else modN (modN ds1 pp (fun ppe => set_right ppe pl)) pred (fun pe' => set_left pe' l) in
    (modN ds2 pred (fun pe' => set_color (set_right pe' r) (d_color e)), pred).

Definition relink (ds : list dirent) (parent : N) (sibo : option N) (x repl : N) : list dirent :=
  match sibo with
  | Some sib => modN ds sib (fun se => if d_left se =? x then set_left se repl else set_right se repl)
  | None => modN ds parent (fun pe => set_child pe repl)
  end.

Definition remove_tbl (ds : list dirent) (parent : N) (sibo : option N) (x : N) (e : dirent)
           (pp pred : N) : list dirent :=
  let '(ds1, repl) := splice_tbl ds x e pp pred in
  updN (relink ds1 parent sibo x repl) x dirent_unallocated.

Definition splice_block (id : N) (e : dirent) : M (N * list N) :=
  let l := d_left e in
  let r := d_right e in
    (if (l =? NO_STREAM) || (r =? NO_STREAM) then
       let c := if l =? NO_STREAM then r else l in
       if negb (c =? NO_STREAM) then
         do ce <- dir_entry c;
         set_dir_entry c (set_color ce Black) ;;
         ret (c, [c])
       else ret (c, [])
     else
       do s <- get;
       do '(pp, pred) <- lift (find_pred (S (length (dirs s))) (dirs s) id l);
       do pe <- dir_entry pred;
       let pl := d_left pe in
       do t1 <- (if negb (pl =? NO_STREAM) then
                   do ple <- dir_entry pl;
                   set_dir_entry pl (set_color ple Black) ;; ret [pl]
                 else ret []);
       do t2 <- (if negb (pp =? id) then
                   do ppe <- dir_entry pp;
                   set_dir_entry pp (set_right ppe pl) ;;
                   do pe' <- dir_entry pred;
                   set_dir_entry pred (set_left pe' l) ;;
                   ret [pp]
                 else ret []);
       do pe' <- dir_entry pred;
       set_dir_entry pred (set_color (set_right pe' r) (d_color e)) ;;
       ret (pred, t1 ++ t2 ++ [pred])).

Ltac binv H a s1 H1 H2 :=
  apply bind_ok_inv in H; destruct H as (a & s1 & H1 & H2).

Lemma rmw_inv2 : forall k (f : dirent -> dirent) s s1 s2 e u,
  dir_entry k s = (s1, Ok e) -> set_dir_entry k (f e) s1 = (s2, Ok u) ->
  s1 = s /\ nthN (dirs s) k = Some e /\ dirs s2 = modN (dirs s) k f.
Proof.
  intros k f s s1 s2 e u H1 H2.
  apply dir_entry_inv in H1. destruct H1 as [-> He].
  apply set_dir_entry_inv in H2. destruct H2 as [_ H2].
  split; [reflexivity|]. split; [exact He|]. unfold modN. rewrite He. exact H2.
Qed.

Lemma recolor_proj : forall c s s' (t : list N),
  (if negb (c =? NO_STREAM)
   then do ce <- dir_entry c; set_dir_entry c (set_color ce Black) ;; ret [c]
   else ret []) s = (s', Ok t) ->
  dirs s' = recolor_black (dirs s) c.
Proof.
  intros c s s' t H. unfold recolor_black. destruct (c =? NO_STREAM); cbn [negb] in H.
  - apply ret_inv in H. destruct H as [-> _]. reflexivity.
  - binv H ce s1 H1 H2. binv H2 u s2 H2 H3.
    destruct (rmw_inv2 c (fun ce => set_color ce Black) _ _ _ _ _ H1 H2) as (_ & _ & E).
    apply ret_inv in H3. destruct H3 as [-> _]. exact E.
Qed.

Lemma splice_proj : forall x e s s' repl touched,
  splice_block x e s = (s', Ok (repl, touched)) ->
  exists pp pred,
    (d_left e <> NO_STREAM -> d_right e <> NO_STREAM ->
     find_pred (S (length (dirs s))) (dirs s) x (d_left e) = Ok (pp, pred)) /\
    (dirs s', repl) = splice_tbl (dirs s) x e pp pred.
Proof.
  intros x e s s' repl touched H. unfold splice_block in H. cbv zeta in H.
  unfold splice_tbl. cbv zeta.
  destruct ((d_left e =? NO_STREAM) || (d_right e =? NO_STREAM)) eqn:C.
  - exists 0, 0. split.
    { intros Hl Hr. apply orb_true_iff in C. destruct C as [C|C]; apply N.eqb_eq in C; contradiction. }
    set (c := if d_left e =? NO_STREAM then d_right e else d_left e) in *.
    unfold recolor_black. destruct (c =? NO_STREAM) eqn:Cc; cbn [negb] in H.
    + apply ret_inv in H. destruct H as [-> H]. injection H as -> _. reflexivity.
    + binv H ce s1 H1 H2. binv H2 u s2 H2 H3.
      destruct (rmw_inv2 c (fun ce => set_color ce Black) _ _ _ _ _ H1 H2) as (_ & _ & E).
      apply ret_inv in H3. destruct H3 as [-> H3]. injection H3 as -> _. rewrite E. reflexivity.
  - binv H s0 s1 H1 H2. apply get_inv in H1. destruct H1 as [-> ->].
    binv H2 a s1 H1 H2. apply lift_inv in H1. destruct H1 as [-> Hfp].
    destruct a as [pp pred]. exists pp, pred. split; [intros _ _; exact Hfp|].
    binv H2 pe s1 H1 H2. apply dir_entry_inv in H1. destruct H1 as [-> Hpe]. rewrite Hpe.
    binv H2 t1 s1 H1 H2. apply recolor_proj in H1.
    binv H2 t2 s2 H2 H3.
    assert (dirs s2 = if pp =? x then dirs s1
                      else modN (modN (dirs s1) pp (fun ppe => set_right ppe (d_left pe))) pred
                                (fun pe' => set_left pe' (d_left e))) as E2.
    { destruct (pp =? x); cbn [negb] in H2.
      - apply ret_inv in H2. destruct H2 as [-> _]. reflexivity.
      - binv H2 ppe s3 H2 H4. binv H4 u s4 H4 H5.
        destruct (rmw_inv2 pp (fun ppe => set_right ppe (d_left pe)) _ _ _ _ _ H2 H4) as (-> & _ & E4).
        binv H5 pe' s5 H5 H6. binv H6 u' s6 H6 H7.
        destruct (rmw_inv2 pred (fun pe' => set_left pe' (d_left e)) _ _ _ _ _ H5 H6) as (-> & _ & E6).
        apply ret_inv in H7. destruct H7 as [-> _]. rewrite E6, E4. reflexivity. }
    binv H3 pe' s3 H3 H4. binv H4 u s4 H4 H5.
    destruct (rmw_inv2 pred (fun pe' => set_color (set_right pe' (d_right e)) (d_color e)) _ _ _ _ _ H3 H4)
      as (-> & _ & E4).
    apply ret_inv in H5. destruct H5 as [-> H5]. injection H5 as -> _.
    rewrite E4, E2, H1. reflexivity.
Qed.

Lemma remove_proj : forall parent nm s s' u,
  remove_dir_entry parent nm s = (s', Ok u) ->
  exists p path x e pp pred,
    nthN (dirs s) parent = Some p /\
    remove_find (S (length (dirs s))) (dirs s) nm (d_child p) [] = Ok path /\
    lastN path = Some x /\ nthN (dirs s) x = Some e /\
    d_child e = NO_STREAM /\ x <> ROOT_STREAM_ID /\
    (d_left e <> NO_STREAM -> d_right e <> NO_STREAM ->
     find_pred (S (length (dirs s))) (dirs s) x (d_left e) = Ok (pp, pred)) /\
    dirs s' = remove_tbl (dirs s) parent (lastN (pop_last path)) x e pp pred.
Proof.
  intros parent nm s s' u H. unfold remove_dir_entry in H.
  binv H p s1 H1 H2. apply dir_entry_inv in H1. destruct H1 as [-> Hp].
  binv H2 s0 s1 H1 H2. apply get_inv in H1. destruct H1 as [-> ->].
  binv H2 path s1 H1 H2. apply lift_inv in H1. destruct H1 as [-> Hrf].
  destruct (lastN path) as [x|] eqn:Hlast; [|exfalso; eapply panic_inv; eauto].
  binv H2 e s1 H1 H2. apply dir_entry_inv in H1. destruct H1 as [-> He].
  binv H2 u1 s1 H1 H2.
  destruct (d_child e =? NO_STREAM) eqn:Hc; cbn [negb] in H1; [|exfalso; eapply panic_inv; eauto].
  apply ret_inv in H1. destruct H1 as [-> _]. apply N.eqb_eq in Hc.
  cbv zeta in H2. binv H2 a s2 H2 H3. destruct a as [repl touched].
  change (splice_block x e s = (s2, Ok (repl, touched))) in H2.
  apply splice_proj in H2. destruct H2 as (pp & pred & Hfp & Hsp).
  cbv beta iota in H3.
  binv H3 u2 s3 H3 H4. apply (frames_run _ _ _ _ _ (frames_write_entries touched)) in H3.
  binv H4 u3 s4 H4 H5.
  assert (dirs s4 = relink (dirs s3) parent (lastN (pop_last path)) x repl) as E4.
  { unfold relink. destruct (lastN (pop_last path)) as [sib|].
    - binv H4 se s5 H4 H6. apply dir_entry_inv in H4. destruct H4 as [-> Hse].
      unfold modN. rewrite Hse.
      destruct (d_left se =? x) eqn:Cl.
      + binv H6 u4 s6 H6 H7. apply set_dir_entry_inv in H6. destruct H6 as [_ H6].
        apply (frames_run _ _ _ _ _ (frames_write_in_dir_entry _ _ _)) in H7. congruence.
      + destruct (d_right se =? x) eqn:Cr; cbn [negb] in H6; [|exfalso; eapply panic_inv; eauto].
        binv H6 u4 s6 H6 H7. apply set_dir_entry_inv in H6. destruct H6 as [_ H6].
        apply (frames_run _ _ _ _ _ (frames_write_in_dir_entry _ _ _)) in H7. congruence.
    - binv H4 pe s5 H4 H6. binv H6 u4 s6 H6 H7.
      destruct (rmw_inv2 parent (fun pe => set_child pe repl) _ _ _ _ _ H4 H6) as (-> & _ & E).
      apply (frames_run _ _ _ _ _ (frames_write_in_dir_entry _ _ _)) in H7. congruence. }
  unfold free_dir_entry in H5.
  destruct (x =? ROOT_STREAM_ID) eqn:Cx; [exfalso; eapply panic_inv; eauto|].
  apply N.eqb_neq in Cx.
  binv H5 u5 s5 H5 H6. apply (frames_run _ _ _ _ _ (frames_write_in_dir_entry _ _ _)) in H5.
  apply set_dir_entry_inv in H6. destruct H6 as [_ H6].
  exists p, path, x, e, pp, pred. repeat (split; [assumption|]).
  unfold remove_tbl. rewrite <- Hsp. rewrite H6, H5, E4, H3. reflexivity.
Qed.

(* ================================================================== *)
(* trees: order as sortedness, removal on trees                        *)
(* ================================================================== *)

Lemma nodup_app_iff : forall (a b : list N),
  NoDup (a ++ b) <-> NoDup a /\ NoDup b /\ (forall x, In x a -> ~ In x b).
Proof.
  induction a as [|h a IH]; intros b; cbn [app].
  - split; [intros H; repeat split; [constructor|exact H|intros x []]|tauto].
  - rewrite NoDup_cons_iff, IH, NoDup_cons_iff, in_app_iff. split.
    + intros (Hh & Ha & Hb & Hd). repeat split; try tauto. intros x [<-|Hx]; [tauto|auto].
    + intros ((Hh & Ha) & Hb & Hd). repeat split; try tauto.
      * intros [H|H]; [tauto|]. eapply Hd; [left; reflexivity|exact H].
      * intros x Hx. apply Hd. right. exact Hx.
Qed.

Lemma nodup_node : forall l i r, NoDup (ids (BN l i r)) <->
  NoDup (ids l) /\ NoDup (ids r) /\ ~ In i (ids l) /\ ~ In i (ids r) /\
  (forall x, In x (ids l) -> ~ In x (ids r)).
Proof.
  intros. cbn [ids]. rewrite nodup_app_iff, NoDup_cons_iff. split.
  - intros (Hl & (Hir & Hr) & Hd). repeat split; auto.
    + intros Hi. eapply Hd; [exact Hi|left; reflexivity].
    + intros x Hx Hxr. eapply Hd; [exact Hx|right; exact Hxr].
  - intros (Hl & Hr & Hil & Hir & Hd). repeat split; auto.
    intros x Hx [<-|Hxr]; [tauto|]. eapply Hd; eauto.
Qed.

Lemma in_node : forall j l i r, In j (ids (BN l i r)) <-> In j (ids l) \/ j = i \/ In j (ids r).
Proof. intros. cbn [ids]. rewrite in_app_iff. cbn [In]. intuition congruence. Qed.

Definition ltn (ds : list dirent) (i j : N) : Prop := cmp_names (nm_of ds i) (nm_of ds j) = Lt.

Lemma cmp_gt_lt : forall a b, cmp_names a b = Gt <-> cmp_names b a = Lt.
Proof.
  intros a b. split; intros H.
  - rewrite (cmp_names_antisym a b), H. reflexivity.
  - rewrite (cmp_names_antisym b a), H. reflexivity.
Qed.

Lemma SS_app_iff : forall A (R : A -> A -> Prop) a b,
  StronglySorted R (a ++ b) <->
  StronglySorted R a /\ StronglySorted R b /\ (forall x y, In x a -> In y b -> R x y).
Proof.
  induction a as [|h a IH]; intros b; cbn [app].
  - split; [intros H; repeat split; [constructor|exact H|intros x y []]|tauto].
  - split.
    + intros H. apply StronglySorted_inv in H. destruct H as [H F].
      apply IH in H. destruct H as (Ha & Hb & Hc). apply Forall_app in F. destruct F as [Fa Fb].
      repeat split; [constructor; assumption|assumption|].
      intros x y [<-|Hx] Hy; [|auto]. rewrite Forall_forall in Fb. auto.
    + intros (Ha & Hb & Hc). apply StronglySorted_inv in Ha. destruct Ha as [Ha F].
      constructor.
      * apply IH. repeat split; auto. intros x y Hx Hy. apply Hc; [right|]; assumption.
      * apply Forall_app. split; [exact F|]. apply Forall_forall. intros y Hy. apply Hc; [left; reflexivity|exact Hy].
Qed.

Theorem bst_sorted : forall ds t, bst ds t <-> StronglySorted (ltn ds) (ids t).
Proof.
  induction t as [|l IHl i r IHr]; cbn [bst ids].
  - split; [constructor|trivial].
  - rewrite SS_app_iff. split.
    + intros (Bl & Br & Lo & Hi). split; [apply IHl; exact Bl|]. split.
      * constructor; [apply IHr; exact Br|]. apply Forall_forall. intros j Hj.
        apply cmp_gt_lt. apply Hi. exact Hj.
      * intros x y Hx [<-|Hy]; [apply Lo; exact Hx|].
        eapply cmp_names_trans_lt; [apply Lo; exact Hx|]. apply cmp_gt_lt. apply Hi. exact Hy.
    + intros (Sl & Sr & Hc). apply StronglySorted_inv in Sr. destruct Sr as [Sr F].
      rewrite Forall_forall in F. split; [apply IHl; exact Sl|]. split; [apply IHr; exact Sr|]. split.
      * intros j Hj. apply Hc; [exact Hj|left; reflexivity].
      * intros j Hj. apply cmp_gt_lt. apply F. exact Hj.
Qed.

Lemma SS_remove : forall (R : N -> N -> Prop) x l,
  StronglySorted R l -> StronglySorted R (remove N.eq_dec x l).
Proof.
  induction l as [|h l IH]; intros H; cbn [remove]; [constructor|].
  apply StronglySorted_inv in H. destruct H as [H F].
  destruct (N.eq_dec x h); [auto|]. constructor; [auto|].
  rewrite Forall_forall in *. intros y Hy. apply in_remove in Hy. apply F. tauto.
Qed.

Lemma bst_frame : forall ds ds' t,
  (forall j, In j (ids t) -> nm_of ds' j = nm_of ds j) -> bst ds t -> bst ds' t.
Proof.
  intros ds ds' t H B. apply bst_sorted. apply bst_sorted in B.
  assert (forall l, (forall j, In j l -> nm_of ds' j = nm_of ds j) ->
          StronglySorted (ltn ds) l -> StronglySorted (ltn ds') l) as G.
  { induction l as [|h l IH]; intros Hn S; [constructor|].
    apply StronglySorted_inv in S. destruct S as [S F]. constructor.
    - apply IH; [intros j Hj; apply Hn; right; exact Hj|exact S].
    - rewrite Forall_forall in *. intros y Hy. unfold ltn.
      rewrite (Hn h), (Hn y); [apply F; exact Hy|right; exact Hy|left; reflexivity]. }
  apply G; assumption.
Qed.

Fixpoint split_max (l : btree) (i : N) (r : btree) : btree * N :=
  match r with
  | BL => (l, i)
  | BN rl ri rr => let (r', m) := split_max rl ri rr in (BN l i r', m)
  end.

Definition join (l r : btree) : btree :=
  match l with
  | BL => r
  | BN ll li lr =>
    match r with
    | BL => l
    | BN _ _ _ => let (l', m) := split_max ll li lr in BN l' m r
    end
  end.

Fixpoint bst_remove (x : N) (t : btree) : btree :=
  match t with
  | BL => BL
  | BN l i r => if i =? x then join l r else BN (bst_remove x l) i (bst_remove x r)
  end.

Lemma ids_split_max : forall r l i,
  ids (fst (split_max l i r)) ++ [snd (split_max l i r)] = ids l ++ i :: ids r.
Proof.
  induction r as [|a _ b c IH]; intros l i; cbn [split_max].
  - reflexivity.
  - specialize (IH a b). destruct (split_max a b c) as [r' m]. cbn [fst snd ids] in *.
    rewrite <- app_assoc. cbn [app]. rewrite IH. reflexivity.
Qed.

Lemma ids_join : forall l r, ids (join l r) = ids l ++ ids r.
Proof.
  intros [|ll li lr] r; [reflexivity|]. destruct r as [|rl ri rr].
  - cbn [join ids]. rewrite app_nil_r. reflexivity.
  - cbn [join]. pose proof (ids_split_max lr ll li) as H.
    destruct (split_max ll li lr) as [l' m]. cbn [fst snd] in H.
    change (ids (BN l' m (BN rl ri rr))) with (ids l' ++ m :: ids (BN rl ri rr)).
    change (ids (BN ll li lr)) with (ids ll ++ li :: ids lr). rewrite <- H, <- app_assoc. reflexivity.
Qed.

Lemma bst_remove_notin : forall x t, ~ In x (ids t) -> bst_remove x t = t.
Proof.
  induction t as [|l IHl i r IHr]; intros H; cbn [bst_remove]; [reflexivity|].
  rewrite in_node in H. destruct (N.eqb_spec i x); [subst; tauto|].
  rewrite IHl, IHr by tauto. reflexivity.
Qed.

Theorem ids_bst_remove : forall x t, NoDup (ids t) ->
  ids (bst_remove x t) = remove N.eq_dec x (ids t).
Proof.
  induction t as [|l IHl i r IHr]; intros ND; [reflexivity|].
  apply nodup_node in ND. destruct ND as (NDl & NDr & Hil & Hir & Hlr).
  cbn [bst_remove ids]. rewrite remove_app. destruct (N.eqb_spec i x) as [E|E].
  - subst. rewrite remove_cons, ids_join, !notin_remove by assumption. reflexivity.
  - cbn [ids remove]. rewrite IHl, IHr by assumption.
    destruct (N.eq_dec x i); [congruence|]. reflexivity.
Qed.

Lemma bst_remove_bst : forall ds x t, bst ds t -> NoDup (ids t) -> bst ds (bst_remove x t).
Proof.
  intros ds x t B ND. apply bst_sorted. rewrite ids_bst_remove by exact ND.
  apply SS_remove. apply bst_sorted. exact B.
Qed.

Lemma in_bst_remove : forall x t j, NoDup (ids t) ->
  (In j (ids (bst_remove x t)) <-> In j (ids t) /\ j <> x).
Proof.
  intros x t j ND. rewrite ids_bst_remove by exact ND. split.
  - apply in_remove.
  - intros [H1 H2]. apply in_in_remove; assumption.
Qed.

(* the right spine: predecessor and its parent *)
Fixpoint tree_pred (pparent i : N) (r : btree) : N * N :=
  match r with BL => (pparent, i) | BN _ b c => tree_pred i b c end.

Lemma find_pred_spec : forall ds r l i pparent fuel pp pred,
  Rep ds i (BN l i r) -> find_pred fuel ds pparent i = Ok (pp, pred) ->
  tree_pred pparent i r = (pp, pred).
Proof.
  induction r as [|a _ b c IHc]; intros l i pparent fuel pp pred HR H;
    (destruct fuel as [|f]; [discriminate H|]); cbn [find_pred] in H;
    cbn [Rep] in HR; destruct HR as (_ & Hne & e & He & HL & HRr);
    unfold dir_entry_of in H; rewrite He in H; cbn [rbind] in H.
  - rewrite HRr, N.eqb_refl in H. cbn [tree_pred]. congruence.
  - assert (Rep ds (d_right e) (BN a b c)) as HRr' by exact HRr.
    destruct HRr as (Eb & Hbne & _).
    rewrite Eb in H, HRr'. destruct (N.eqb_spec b NO_STREAM); [contradiction|].
    cbn [tree_pred]. eapply IHc; eauto.
Qed.

Lemma find_pred_total : forall ds r l i pparent fuel,
  Rep ds i (BN l i r) -> (length (ids r) < fuel)%nat ->
  find_pred fuel ds pparent i = Ok (tree_pred pparent i r).
Proof.
  induction r as [|a _ b c IHc]; intros l i pparent fuel HR Hf;
    (destruct fuel as [|f]; [lia|]); cbn [find_pred];
    cbn [Rep] in HR; destruct HR as (_ & Hne & e & He & HL & HRr);
    unfold dir_entry_of; rewrite He; cbn [rbind].
  - rewrite HRr, N.eqb_refl. reflexivity.
  - assert (Rep ds (d_right e) (BN a b c)) as HRr' by exact HRr.
    destruct HRr as (Eb & Hbne & _).
    rewrite Eb in *. destruct (N.eqb_spec b NO_STREAM); [contradiction|].
    cbn [tree_pred]. eapply IHc; [exact HRr'|].
    cbn [ids] in Hf. rewrite app_length in Hf. cbn [length] in Hf. lia.
Qed.

Lemma tree_pred_in : forall r i pparent pp pred, r <> BL ->
  tree_pred pparent i r = (pp, pred) -> In pp (i :: ids r) /\ In pred (ids r).
Proof.
  induction r as [|a _ b c IHc]; intros i pparent pp pred Hne H; [congruence|].
  cbn [tree_pred] in H. destruct c as [|c1 c2 c3].
  - cbn [tree_pred] in H. injection H as <- <-. split; [left; reflexivity|].
    apply in_node. right. left. reflexivity.
  - destruct (IHc b i pp pred) as [P1 P2]; [discriminate|exact H|]. split.
    + right. cbn [ids]. apply in_or_app. right. exact P1.
    + apply in_node. right. right. exact P2.
Qed.

Lemma tree_pred_neq : forall r i pparent pp pred, NoDup (i :: ids r) -> r <> BL ->
  tree_pred pparent i r = (pp, pred) -> pp <> pred.
Proof.
  induction r as [|a _ b c IHc]; intros i pparent pp pred ND Hne H; [congruence|].
  cbn [tree_pred] in H. apply NoDup_cons_iff in ND. destruct ND as [Hi ND].
  destruct c as [|c1 c2 c3].
  - cbn [tree_pred] in H. injection H as <- <-. intros ->. apply Hi.
    apply in_node. right. left. reflexivity.
  - eapply IHc; [|discriminate|exact H].
    cbn [ids] in ND. apply nodup_app_iff in ND. tauto.
Qed.

Lemma split_max_rep : forall ds ds' pl r l i pparent pp pred,
  Rep ds i (BN l i r) -> NoDup (ids (BN l i r)) -> r <> BL ->
  tree_pred pparent i r = (pp, pred) ->
  (forall j, In j (ids (BN l i r)) -> j <> pp -> j <> pred -> keeps ds ds' j) ->
  (forall ppe, nthN ds pp = Some ppe ->
     exists ppe', nthN ds' pp = Some ppe' /\ d_left ppe' = d_left ppe /\ d_right ppe' = pl) ->
  (forall pe, nthN ds pred = Some pe -> d_left pe = pl) ->
  Rep ds' i (fst (split_max l i r)) /\ snd (split_max l i r) = pred.
Proof.
  intros ds ds' pl. induction r as [|a _ b c IHc];
    intros l i pparent pp pred HR ND Hne HP K Kpp Kpred; [congruence|].
  cbn [tree_pred] in HP.
  destruct HR as (_ & Hine & e & He & HL & HRr).
  destruct HRr as (Eb & Hbne & eb & Heb & HLa & HRc).
  apply nodup_node in ND. destruct ND as (NDl & NDr & Hil & Hir & Hlr).
  pose proof NDr as NDr0. apply nodup_node in NDr. destruct NDr as (NDa & NDc & Hba & Hbc & Hac).
  destruct c as [|c1 c2 c3].
  - cbn [tree_pred] in HP. injection HP as <- <-. cbn [split_max fst snd]. split; [|reflexivity].
    destruct (Kpp e He) as (e' & He' & EL & ER).
    split; [reflexivity|]. split; [exact Hine|]. exists e'. split; [exact He'|].
    rewrite EL, ER. split.
    + eapply rep_frame_links; [exact HL|]. intros j Hj. apply K.
      * apply in_node. left. exact Hj.
      * intros ->. contradiction.
      * intros ->. apply (Hlr b Hj). apply in_node. right. left. reflexivity.
    + rewrite <- (Kpred eb Heb). eapply rep_frame_links; [exact HLa|]. intros j Hj. apply K.
      * apply in_node. right. right. apply in_node. left. exact Hj.
      * intros ->. apply Hir. apply in_node. left. exact Hj.
      * intros ->. contradiction.
  - assert (Rep ds b (BN a b (BN c1 c2 c3))) as HRb.
    { split; [reflexivity|]. split; [exact Hbne|]. exists eb. split; [exact Heb|]. split; [exact HLa|exact HRc]. }
    destruct (tree_pred_in (BN c1 c2 c3) b i pp pred) as [Ppp Ppred]; [discriminate|exact HP|].
    assert (In pp (ids (BN a b (BN c1 c2 c3)))) as Ppp'.
    { apply in_node. destruct Ppp as [<-|Ppp]; [right; left; reflexivity|right; right; exact Ppp]. }
    assert (In pred (ids (BN a b (BN c1 c2 c3)))) as Ppred'.
    { apply in_node. right. right. exact Ppred. }
    destruct (IHc a b i pp pred HRb NDr0) as [IH1 IH2]; [discriminate|exact HP| |exact Kpp|exact Kpred|].
    { intros j Hj. apply K. apply in_node. right. right. exact Hj. }
    cbn [split_max]. destruct (split_max a b (BN c1 c2 c3)) as [r' m]. cbn [fst snd] in *.
    split; [|exact IH2].
    assert (keeps ds ds' i) as Ki.
    { apply K; [apply in_node; right; left; reflexivity| |]; intros ->; apply Hir; assumption. }
    destruct (Ki e He) as (e' & He' & EL & ER).
    split; [reflexivity|]. split; [exact Hine|]. exists e'. split; [exact He'|]. rewrite EL, ER. split.
    + eapply rep_frame_links; [exact HL|]. intros j Hj. apply K.
      * apply in_node. left. exact Hj.
      * intros ->. exact (Hlr _ Hj Ppp').
      * intros ->. exact (Hlr _ Hj Ppred').
    + rewrite Eb. exact IH1.
Qed.
