(* DirProofs.v — the directory table of model/Dir.v as a family of
   id-labelled binary search trees: representation, lookup, insertion,
   removal by relinking (ids of surviving entries never change), listing. *)
From Coq Require Import List NArith Lia Bool Sorted Permutation ZifyN ZifyBool Arith.
From Cfb.model Require Import Base Names DirEnt State Alloc Dir.
From Cfb.gen Require Import Consts.
From Cfb.proofs Require Import NamesProofs.
Import ListNotations.
Open Scope N_scope.

(* ================================================================== *)
(* 0. lists indexed by N                                               *)
(* ================================================================== *)

Lemma lenN_length : forall A (l : list A), lenN l = N.of_nat (length l).
Proof.
  induction l as [|a l IH]; cbn [lenN length]; [reflexivity|]. rewrite IH. lia.
Qed.

Lemma lenN_app : forall A (l m : list A), lenN (l ++ m) = lenN l + lenN m.
Proof.
  induction l as [|a l IH]; intros m; cbn [lenN app]; [lia|]. rewrite IH. lia.
Qed.

Lemma nthN_Some_lt : forall A (l : list A) i e, nthN l i = Some e -> i < lenN l.
Proof.
  induction l as [|a l IH]; intros i e H; cbn [nthN lenN] in *; [discriminate|].
  destruct (N.eqb_spec i 0); [lia|]. apply IH in H. lia.
Qed.

Lemma nthN_lt_Some : forall A (l : list A) i, i < lenN l -> exists e, nthN l i = Some e.
Proof.
  induction l as [|a l IH]; intros i H; cbn [nthN lenN] in *; [lia|].
  destruct (N.eqb_spec i 0); [eauto|]. apply IH. lia.
Qed.

Lemma nthN_None_ge : forall A (l : list A) i, nthN l i = None -> lenN l <= i.
Proof.
  intros A l i H. destruct (N.lt_ge_cases i (lenN l)) as [Hlt|Hge]; [|exact Hge].
  destruct (nthN_lt_Some _ l i Hlt) as [e He]. congruence.
Qed.

Lemma lenN_updN : forall A (l : list A) i v, lenN (updN l i v) = lenN l.
Proof.
  induction l as [|a l IH]; intros i v; cbn [updN lenN]; [reflexivity|].
  destruct (i =? 0); cbn [lenN]; [reflexivity|]. rewrite IH. reflexivity.
Qed.

Lemma length_updN : forall A (l : list A) i v, length (updN l i v) = length l.
Proof.
  intros. apply Nat2N.inj. rewrite <- !lenN_length. apply lenN_updN.
Qed.

Lemma nthN_updN_same : forall A (l : list A) i v, i < lenN l -> nthN (updN l i v) i = Some v.
Proof.
  induction l as [|a l IH]; intros i v H; cbn [updN nthN lenN] in *; [lia|].
  destruct (N.eqb_spec i 0) as [E|E]; cbn [nthN].
  - subst. reflexivity.
  - destruct (N.eqb_spec i 0); [contradiction|]. apply IH. lia.
Qed.

Lemma nthN_updN_other : forall A (l : list A) i j v, i <> j -> nthN (updN l i v) j = nthN l j.
Proof.
  induction l as [|a l IH]; intros i j v H; cbn [updN nthN]; [reflexivity|].
  destruct (N.eqb_spec i 0) as [E|E]; cbn [nthN].
  - destruct (N.eqb_spec j 0); [lia|reflexivity].
  - destruct (N.eqb_spec j 0); [reflexivity|]. apply IH. lia.
Qed.

Lemma updN_out : forall A (l : list A) i v, nthN l i = None -> updN l i v = l.
Proof.
  induction l as [|a l IH]; intros i v H; cbn [updN nthN] in *; [reflexivity|].
  destruct (i =? 0); [discriminate|]. rewrite IH by assumption. reflexivity.
Qed.

Lemma nthN_app_l : forall A (l m : list A) i, i < lenN l -> nthN (l ++ m) i = nthN l i.
Proof.
  induction l as [|a l IH]; intros m i H; cbn [nthN lenN app] in *; [lia|].
  destruct (N.eqb_spec i 0); [reflexivity|]. apply IH. lia.
Qed.

Lemma nthN_app_last : forall A (l : list A) v, nthN (l ++ [v]) (lenN l) = Some v.
Proof.
  induction l as [|a l IH]; intros v; cbn [nthN lenN app].
  - reflexivity.
  - destruct (N.eqb_spec (N.succ (lenN l)) 0); [lia|]. rewrite N.pred_succ. apply IH.
Qed.

(* read-modify-write of one slot *)
Definition modN (ds : list dirent) (i : N) (f : dirent -> dirent) : list dirent :=
  match nthN ds i with Some e => updN ds i (f e) | None => ds end.

Lemma lenN_modN : forall ds i f, lenN (modN ds i f) = lenN ds.
Proof. intros. unfold modN. destruct (nthN ds i); [apply lenN_updN|reflexivity]. Qed.

Lemma nthN_modN_same : forall ds i f e, nthN ds i = Some e -> nthN (modN ds i f) i = Some (f e).
Proof.
  intros ds i f e H. unfold modN. rewrite H. apply nthN_updN_same. eapply nthN_Some_lt; eauto.
Qed.

Lemma nthN_modN_other : forall ds i j f, i <> j -> nthN (modN ds i f) j = nthN ds j.
Proof.
  intros ds i j f H. unfold modN. destruct (nthN ds i); [apply nthN_updN_other; exact H|reflexivity].
Qed.

Lemma nthN_modN : forall ds i j f,
  nthN (modN ds i f) j = if i =? j then option_map f (nthN ds j) else nthN ds j.
Proof.
  intros ds i j f. destruct (N.eqb_spec i j) as [E|E].
  - subst. destruct (nthN ds j) as [e|] eqn:He.
    + erewrite nthN_modN_same by eauto. reflexivity.
    + unfold modN. rewrite He. cbn. exact He.
  - apply nthN_modN_other. exact E.
Qed.

(* ================================================================== *)
(* A. representation                                                   *)
(* ================================================================== *)

Inductive btree := BL | BN (l : btree) (id : N) (r : btree).

Fixpoint ids (t : btree) : list N :=
  match t with BL => [] | BN l i r => ids l ++ i :: ids r end.

Fixpoint Rep (ds : list dirent) (root : N) (t : btree) : Prop :=
  match t with
  | BL => root = NO_STREAM
  | BN l i r =>
    root = i /\ i <> NO_STREAM /\
    exists e, nthN ds i = Some e /\ Rep ds (d_left e) l /\ Rep ds (d_right e) r
  end.

Definition nm_of (ds : list dirent) (i : N) : name :=
  match nthN ds i with Some e => d_name e | None => [] end.

Fixpoint bst (ds : list dirent) (t : btree) : Prop :=
  match t with
  | BL => True
  | BN l i r =>
    bst ds l /\ bst ds r /\
    (forall j, In j (ids l) -> cmp_names (nm_of ds j) (nm_of ds i) = Lt) /\
    (forall j, In j (ids r) -> cmp_names (nm_of ds j) (nm_of ds i) = Gt)
  end.

Theorem rep_functional : forall ds t root t', Rep ds root t -> Rep ds root t' -> t = t'.
Proof.
  induction t as [|l IHl i r IHr]; intros root t' H H'.
  - destruct t' as [|l' i' r']; [reflexivity|]. cbn [Rep] in *.
    destruct H' as (E & Hne & _). congruence.
  - destruct t' as [|l' i' r']; cbn [Rep] in *.
    + destruct H as (E & Hne & _). congruence.
    + destruct H as (E & Hne & e & He & HL & HR).
      destruct H' as (E' & Hne' & e' & He' & HL' & HR').
      assert (i = i') by congruence. subst i'. subst root.
      assert (e = e') by congruence. subst e'.
      f_equal; eauto.
Qed.

(* only the link fields of the entries of the tree matter *)
Definition keeps (ds ds' : list dirent) (j : N) : Prop :=
  forall e, nthN ds j = Some e ->
  exists e', nthN ds' j = Some e' /\ d_left e' = d_left e /\ d_right e' = d_right e.

Lemma keeps_eq : forall ds ds' j, nthN ds' j = nthN ds j -> keeps ds ds' j.
Proof. intros ds ds' j H e He. exists e. rewrite H. auto. Qed.

Lemma keeps_trans : forall a b c j, keeps a b j -> keeps b c j -> keeps a c j.
Proof.
  intros a b c j H1 H2 e He. destruct (H1 e He) as (e1 & He1 & L1 & R1).
  destruct (H2 e1 He1) as (e2 & He2 & L2 & R2). exists e2. repeat split; congruence.
Qed.

Lemma rep_frame_links : forall ds ds' t root,
  Rep ds root t -> (forall j, In j (ids t) -> keeps ds ds' j) -> Rep ds' root t.
Proof.
  induction t as [|l IHl i r IHr]; intros root H K; cbn [Rep ids] in *; [exact H|].
  destruct H as (E & Hne & e & He & HL & HR).
  assert (In i (ids l ++ i :: ids r)) as Hi by (apply in_or_app; right; left; reflexivity).
  destruct (K i Hi e He) as (e' & He' & EL & ER).
  split; [exact E|]. split; [exact Hne|]. exists e'. split; [exact He'|].
  rewrite EL, ER. split.
  - apply IHl; [exact HL|]. intros j Hj. apply K. apply in_or_app. left. exact Hj.
  - apply IHr; [exact HR|]. intros j Hj. apply K. apply in_or_app. right. right. exact Hj.
Qed.

Theorem rep_frame : forall ds ds' t root,
  Rep ds root t -> (forall i, In i (ids t) -> nthN ds' i = nthN ds i) -> Rep ds' root t.
Proof.
  intros ds ds' t root H K. eapply rep_frame_links; [exact H|].
  intros j Hj. apply keeps_eq. apply K. exact Hj.
Qed.

Lemma rep_ids : forall ds t root, Rep ds root t ->
  forall i, In i (ids t) -> i <> NO_STREAM /\ i < lenN ds.
Proof.
  induction t as [|l IHl i r IHr]; intros root H j Hj; cbn [Rep ids] in *; [contradiction|].
  destruct H as (E & Hne & e & He & HL & HR).
  apply in_app_or in Hj. destruct Hj as [Hj|[Hj|Hj]].
  - eapply IHl; eauto.
  - subst j. split; [exact Hne|]. eapply nthN_Some_lt; eauto.
  - eapply IHr; eauto.
Qed.

Lemma rep_root : forall ds t root, Rep ds root t ->
  match t with BL => root = NO_STREAM | BN _ i _ => root = i /\ i <> NO_STREAM end.
Proof. intros ds [|l i r] root H; cbn [Rep] in H; tauto. Qed.

Lemma rep_nostream : forall ds t, Rep ds NO_STREAM t -> t = BL.
Proof. intros ds [|l i r] H; [reflexivity|]. cbn [Rep] in H. destruct H as (E & Hne & _). congruence. Qed.

Lemma rep_some : forall ds t root, Rep ds root t -> root <> NO_STREAM ->
  exists l r, t = BN l root r.
Proof.
  intros ds [|l i r] root H Hne; cbn [Rep] in H; [contradiction|].
  destruct H as (E & _). subst. eauto.
Qed.

(* pigeonhole: a duplicate-free tree inside the table is no longer than the table *)
Lemma nodup_bound : forall (l : list N) (n : nat),
  NoDup l -> (forall i, In i l -> i < N.of_nat n) -> (length l <= n)%nat.
Proof.
  intros l n ND B.
  assert (incl l (map N.of_nat (seq 0 n))) as I.
  { intros i Hi. apply B in Hi. apply in_map_iff. exists (N.to_nat i). split; [lia|].
    apply in_seq. lia. }
  apply NoDup_incl_length in I; [|exact ND]. rewrite map_length, seq_length in I. exact I.
Qed.

Lemma rep_length : forall ds t root, Rep ds root t -> NoDup (ids t) ->
  (length (ids t) <= length ds)%nat.
Proof.
  intros ds t root H ND. apply nodup_bound; [exact ND|].
  intros i Hi. rewrite <- lenN_length. eapply rep_ids; eauto.
Qed.

(* ================================================================== *)
(* B. lookup                                                           *)
(* ================================================================== *)

Fixpoint bst_find (ds : list dirent) (nm : name) (t : btree) : option N :=
  match t with
  | BL => None
  | BN l i r =>
    match cmp_names nm (nm_of ds i) with
    | Eq => Some i
    | Lt => bst_find ds nm l
    | Gt => bst_find ds nm r
    end
  end.

Theorem find_in_siblings_spec : forall ds nm t root fuel,
  Rep ds root t -> (length (ids t) < fuel)%nat ->
  find_in_siblings fuel ds nm root = Ok (bst_find ds nm t).
Proof.
  induction t as [|l IHl i r IHr]; intros root fuel H Hf.
  - cbn [Rep] in H. subst root. destruct fuel; [cbn in Hf; lia|].
    cbn [find_in_siblings]. rewrite N.eqb_refl. reflexivity.
  - cbn [Rep] in H. destruct H as (E & Hne & e & He & HL & HR). subst root.
    cbn [ids] in Hf. rewrite app_length in Hf. cbn [length] in Hf.
    destruct fuel; [lia|]. cbn [find_in_siblings].
    destruct (N.eqb_spec i NO_STREAM); [contradiction|].
    unfold dir_entry_of. rewrite He. cbn [rbind bst_find]. unfold nm_of. rewrite He.
    destruct (cmp_names nm (d_name e)).
    + reflexivity.
    + apply IHl; [exact HL|lia].
    + apply IHr; [exact HR|lia].
Qed.

Lemma bst_find_sound : forall ds nm t id,
  bst_find ds nm t = Some id -> In id (ids t) /\ cmp_names nm (nm_of ds id) = Eq.
Proof.
  induction t as [|l IHl i r IHr]; intros id H; cbn [bst_find ids] in *; [discriminate|].
  destruct (cmp_names nm (nm_of ds i)) eqn:C.
  - injection H as <-. split; [apply in_or_app; right; left; reflexivity|exact C].
  - apply IHl in H. destruct H. split; [apply in_or_app; left|]; assumption.
  - apply IHr in H. destruct H. split; [apply in_or_app; right; right|]; assumption.
Qed.

Theorem bst_find_iff : forall ds nm t id, bst ds t ->
  (bst_find ds nm t = Some id <-> In id (ids t) /\ cmp_names nm (nm_of ds id) = Eq).
Proof.
  intros ds nm t id B. split; [apply bst_find_sound|].
  revert B. induction t as [|l IHl i r IHr]; intros B [Hin Hc]; cbn [bst_find ids bst] in *; [contradiction|].
  destruct B as (Bl & Br & Lo & Hi).
  pose proof (cmp_names_eq_compat_l _ _ (nm_of ds i) Hc) as Hk.
  apply in_app_or in Hin. destruct Hin as [Hin|[Hin|Hin]].
  - rewrite Hk, (Lo _ Hin). apply IHl; auto.
  - subst id. rewrite Hc. reflexivity.
  - rewrite Hk, (Hi _ Hin). apply IHr; auto.
Qed.

Corollary bst_find_none : forall ds nm t, bst ds t ->
  (bst_find ds nm t = None <-> forall id, In id (ids t) -> cmp_names nm (nm_of ds id) <> Eq).
Proof.
  intros ds nm t B. split.
  - intros H id Hin Hc. assert (bst_find ds nm t = Some id) by (apply bst_find_iff; auto). congruence.
  - intros H. destruct (bst_find ds nm t) as [id|] eqn:E; [|reflexivity].
    apply bst_find_sound in E. destruct E as [Hin Hc]. exfalso. eapply H; eauto.
Qed.

(* the model's own fuel is enough, and the descent never panics *)
Corollary find_in_siblings_total : forall ds nm t root,
  Rep ds root t -> NoDup (ids t) ->
  find_in_siblings (S (length ds)) ds nm root = Ok (bst_find ds nm t).
Proof.
  intros ds nm t root H ND. apply find_in_siblings_spec; [exact H|].
  pose proof (rep_length _ _ _ H ND). lia.
Qed.

Corollary find_in_siblings_not_bad : forall ds nm t root,
  Rep ds root t -> NoDup (ids t) ->
  is_bad (find_in_siblings (S (length ds)) ds nm root) = false.
Proof. intros. erewrite find_in_siblings_total by eauto. reflexivity. Qed.

(* ================================================================== *)
(* monad plumbing: inversion and frame lemmas                          *)
(* ================================================================== *)

Lemma bind_ok_inv : forall A B (m : M A) (f : A -> M B) s s' x,
  bind m f s = (s', Ok x) -> exists a s1, m s = (s1, Ok a) /\ f a s1 = (s', Ok x).
Proof.
  intros A B m f s s' x H. unfold bind in H. destruct (m s) as [s1 r].
  destruct r; try discriminate H. eauto.
Qed.

(* [m] leaves the cached directory table alone, whatever its outcome *)
Definition frames {A} (m : M A) : Prop := forall s, dirs (fst (m s)) = dirs s.

Lemma frames_run : forall A (m : M A) s s' r, frames m -> m s = (s', r) -> dirs s' = dirs s.
Proof. intros A m s s' r F H. specialize (F s). rewrite H in F. exact F. Qed.

Lemma frames_bind : forall A B (m : M A) (f : A -> M B),
  frames m -> (forall a, frames (f a)) -> frames (bind m f).
Proof.
  intros A B m f Hm Hf s. unfold bind. specialize (Hm s). destruct (m s) as [s1 r].
  cbn [fst] in Hm. destruct r; cbn [fst]; try exact Hm. rewrite (Hf a s1). exact Hm.
Qed.
Lemma frames_ret : forall A (a : A), frames (ret a). Proof. intros A a s. reflexivity. Qed.
Lemma frames_fail : forall A k, frames (@fail A k). Proof. intros A k s. reflexivity. Qed.
Lemma frames_panic : forall A n, frames (@panic A n). Proof. intros A n s. reflexivity. Qed.
Lemma frames_oof : forall A, frames (@out_of_fuel A). Proof. intros A s. reflexivity. Qed.
Lemma frames_get : frames get. Proof. intros s. reflexivity. Qed.
Lemma frames_lift : forall A (r : res A), frames (lift r). Proof. intros A r s. reflexivity. Qed.
Lemma frames_modify : forall f, (forall s, dirs (f s) = dirs s) -> frames (modify f).
Proof. intros f H s. cbn. apply H. Qed.

Create HintDb frames.

Ltac fr_step :=
  match goal with
  | |- frames (bind _ _) => apply frames_bind; [|intros]
  | |- frames (ret _) => apply frames_ret
  | |- frames (fail _) => apply frames_fail
  | |- frames (panic _) => apply frames_panic
  | |- frames out_of_fuel => apply frames_oof
  | |- frames get => apply frames_get
  | |- frames (lift _) => apply frames_lift
  | |- frames (modify _) => apply frames_modify; intros; reflexivity
  | |- frames (match ?x with _ => _ end) => destruct x
  | |- frames _ => solve [auto with frames]
  end.
Ltac fr := intros; repeat fr_step.

Lemma frames_seek_sector : forall sid off, frames (seek_sector sid off).
Proof. unfold seek_sector. fr. Qed.
#[export] Hint Resolve frames_seek_sector : frames.
Lemma frames_sector_write : forall sid off bs, frames (sector_write sid off bs).
Proof. unfold sector_write. fr. Qed.
#[export] Hint Resolve frames_sector_write : frames.
Lemma frames_header_write : forall off bs, frames (header_write off bs).
Proof. unfold header_write. fr. Qed.
#[export] Hint Resolve frames_header_write : frames.
Lemma frames_init_sector : forall sid i, frames (init_sector sid i).
Proof. unfold init_sector. fr. Qed.
#[export] Hint Resolve frames_init_sector : frames.
Lemma frames_next : forall sid, frames (next sid).
Proof. unfold next. fr. Qed.
#[export] Hint Resolve frames_next : frames.
Lemma frames_chain_new : forall st i, frames (chain_new st i).
Proof. unfold chain_new. fr. Qed.
#[export] Hint Resolve frames_chain_new : frames.
Lemma frames_set_fat : forall i v, frames (set_fat i v).
Proof. unfold set_fat. fr. Qed.
#[export] Hint Resolve frames_set_fat : frames.
Lemma frames_append_fat_sector : frames append_fat_sector.
Proof. unfold append_fat_sector. fr. Qed.
#[export] Hint Resolve frames_append_fat_sector : frames.
Lemma frames_allocate_sector : forall i, frames (allocate_sector i).
Proof. unfold allocate_sector. fr. Qed.
#[export] Hint Resolve frames_allocate_sector : frames.
Lemma frames_begin_chain : forall i, frames (begin_chain i).
Proof. unfold begin_chain. fr. Qed.
#[export] Hint Resolve frames_begin_chain : frames.
Lemma frames_extend_chain : forall st i, frames (extend_chain st i).
Proof. unfold extend_chain. fr. Qed.
#[export] Hint Resolve frames_extend_chain : frames.
Lemma frames_chain_seek : forall c pos, frames (chain_seek c pos).
Proof. unfold chain_seek. fr. Qed.
#[export] Hint Resolve frames_chain_seek : frames.
Lemma frames_chain_write_go : forall fuel c bs, frames (chain_write_go fuel c bs).
Proof. induction fuel as [|f IH]; intros c bs; cbn [chain_write_go]; fr. Qed.
#[export] Hint Resolve frames_chain_write_go : frames.
Lemma frames_chain_write_all : forall c bs, frames (chain_write_all c bs).
Proof. unfold chain_write_all. fr. Qed.
#[export] Hint Resolve frames_chain_write_all : frames.
Lemma frames_dir_entry : forall id, frames (dir_entry id).
Proof. unfold dir_entry. fr. Qed.
#[export] Hint Resolve frames_dir_entry : frames.
Lemma frames_write_in_dir_entry : forall id off bs, frames (write_in_dir_entry id off bs).
Proof. unfold write_in_dir_entry. fr. Qed.
#[export] Hint Resolve frames_write_in_dir_entry : frames.
Lemma frames_write_dir_entry : forall id, frames (write_dir_entry id).
Proof. unfold write_dir_entry. fr. Qed.
#[export] Hint Resolve frames_write_dir_entry : frames.
Lemma frames_update_num_dir_sectors : frames update_num_dir_sectors.
Proof. unfold update_num_dir_sectors. fr. Qed.
#[export] Hint Resolve frames_update_num_dir_sectors : frames.
Lemma frames_write_entries : forall l, frames (write_entries l).
Proof. induction l as [|i l IH]; cbn [write_entries]; fr. Qed.
#[export] Hint Resolve frames_write_entries : frames.

(* inversion of the primitives *)
Lemma ret_inv : forall A (a x : A) s s', ret a s = (s', Ok x) -> s' = s /\ x = a.
Proof. intros A a x s s' H. unfold ret in H. injection H as <- <-. auto. Qed.
Lemma lift_inv : forall A (r : res A) x s s', lift r s = (s', Ok x) -> s' = s /\ r = Ok x.
Proof. intros A r x s s' H. unfold lift in H. injection H as <- <-. auto. Qed.
Lemma get_inv : forall x s s', get s = (s', Ok x) -> s' = s /\ x = s.
Proof. intros x s s' H. unfold get in H. injection H as <- <-. auto. Qed.
Lemma panic_inv : forall A n (x : A) s s', panic n s = (s', Ok x) -> False.
Proof. intros A n x s s' H. unfold panic in H. discriminate H. Qed.

Lemma dir_entry_inv : forall id s s' e,
  dir_entry id s = (s', Ok e) -> s' = s /\ nthN (dirs s) id = Some e.
Proof.
  intros id s s' e H. unfold dir_entry in H. apply bind_ok_inv in H.
  destruct H as (s0 & s1 & Hg & H). apply get_inv in Hg. destruct Hg as [-> ->].
  destruct (nthN (dirs s) id) as [e0|]; [|exfalso; eapply panic_inv; eauto].
  apply ret_inv in H. destruct H as [-> ->]. auto.
Qed.

Lemma set_dir_entry_inv : forall id e s s' u,
  set_dir_entry id e s = (s', Ok u) ->
  (exists old, nthN (dirs s) id = Some old) /\ dirs s' = updN (dirs s) id e.
Proof.
  intros id e s s' u H. unfold set_dir_entry in H. apply bind_ok_inv in H.
  destruct H as (s0 & s1 & Hg & H). apply get_inv in Hg. destruct Hg as [-> ->].
  destruct (nthN (dirs s) id) as [e0|]; [|exfalso; eapply panic_inv; eauto].
  unfold put in H. injection H as <-. split; [eauto|reflexivity].
Qed.

(* dir_entry k; set_dir_entry k (f e) *)
Lemma rmw_inv : forall k (f : dirent -> dirent) s s' u,
  bind (dir_entry k) (fun e => set_dir_entry k (f e)) s = (s', Ok u) ->
  (exists e, nthN (dirs s) k = Some e) /\ dirs s' = modN (dirs s) k f.
Proof.
  intros k f s s' u H. apply bind_ok_inv in H. destruct H as (e & s1 & H1 & H2).
  apply dir_entry_inv in H1. destruct H1 as [-> He].
  apply set_dir_entry_inv in H2. destruct H2 as [_ H2].
  split; [eauto|]. unfold modN. rewrite He. exact H2.
Qed.

(* ================================================================== *)
(* D. removal: projection on the table                                 *)
(* ================================================================== *)

Definition recolor_black (ds : list dirent) (c : N) : list dirent :=
  if c =? NO_STREAM then ds else modN ds c (fun ce => set_color ce Black).

(* splice the entry [x] (contents [e]) out of its subtree; result: the new
   table and the id that takes x's place *)
Definition splice_tbl (ds : list dirent) (x : N) (e : dirent) (pp pred : N) : list dirent * N :=
  let l := d_left e in
  let r := d_right e in
  if (l =? NO_STREAM) || (r =? NO_STREAM) then
    let c := if l =? NO_STREAM then r else l in (recolor_black ds c, c)
  else
    let pl := match nthN ds pred with Some pe => d_left pe | None => NO_STREAM end in
    let ds1 := recolor_black ds pl in
    let ds2 := if pp =? x then ds1
               else modN (modN ds1 pp (fun ppe => set_right ppe pl)) pred (fun pe' => set_left pe' l) in
    (modN ds2 pred (fun pe' => set_color (set_right pe' r) (d_color e)), pred).

Definition relink (ds : list dirent) (parent : N) (sibo : option N) (x repl : N) : list dirent :=
  match sibo with
  | Some sib => modN ds sib (fun se => if d_left se =? x then set_left se repl else set_right se repl)
  | None => modN ds parent (fun pe => set_child pe repl)
  end.

Definition remove_tbl (ds : list dirent) (parent : N) (sibo : option N) (x : N) (e : dirent)
           (pp pred : N) : list dirent :=
  let '(ds1, repl) := splice_tbl ds x e pp pred in
  updN (relink ds1 parent sibo x repl) x dirent_unallocated.

Definition splice_block (id : N) (e : dirent) : M (N * list N) :=
  let l := d_left e in
  let r := d_right e in
    (if (l =? NO_STREAM) || (r =? NO_STREAM) then
       let c := if l =? NO_STREAM then r else l in
       if negb (c =? NO_STREAM) then
         do ce <- dir_entry c;
         set_dir_entry c (set_color ce Black) ;;
         ret (c, [c])
       else ret (c, [])
     else
       do s <- get;
       do '(pp, pred) <- lift (find_pred (S (length (dirs s))) (dirs s) id l);
       do pe <- dir_entry pred;
       let pl := d_left pe in
       do t1 <- (if negb (pl =? NO_STREAM) then
                   do ple <- dir_entry pl;
                   set_dir_entry pl (set_color ple Black) ;; ret [pl]
                 else ret []);
       do t2 <- (if negb (pp =? id) then
                   do ppe <- dir_entry pp;
                   set_dir_entry pp (set_right ppe pl) ;;
                   do pe' <- dir_entry pred;
                   set_dir_entry pred (set_left pe' l) ;;
                   ret [pp]
                 else ret []);
       do pe' <- dir_entry pred;
       set_dir_entry pred (set_color (set_right pe' r) (d_color e)) ;;
       ret (pred, t1 ++ t2 ++ [pred])).

Ltac binv H a s1 H1 H2 :=
  apply bind_ok_inv in H; destruct H as (a & s1 & H1 & H2).

Lemma rmw_inv2 : forall k (f : dirent -> dirent) s s1 s2 e u,
  dir_entry k s = (s1, Ok e) -> set_dir_entry k (f e) s1 = (s2, Ok u) ->
  s1 = s /\ nthN (dirs s) k = Some e /\ dirs s2 = modN (dirs s) k f.
Proof.
  intros k f s s1 s2 e u H1 H2.
  apply dir_entry_inv in H1. destruct H1 as [-> He].
  apply set_dir_entry_inv in H2. destruct H2 as [_ H2].
  split; [reflexivity|]. split; [exact He|]. unfold modN. rewrite He. exact H2.
Qed.

Lemma recolor_proj : forall c s s' (t : list N),
  (if negb (c =? NO_STREAM)
   then do ce <- dir_entry c; set_dir_entry c (set_color ce Black) ;; ret [c]
   else ret []) s = (s', Ok t) ->
  dirs s' = recolor_black (dirs s) c.
Proof.
  intros c s s' t H. unfold recolor_black. destruct (c =? NO_STREAM); cbn [negb] in H.
  - apply ret_inv in H. destruct H as [-> _]. reflexivity.
  - binv H ce s1 H1 H2. binv H2 u s2 H2 H3.
    destruct (rmw_inv2 c (fun ce => set_color ce Black) _ _ _ _ _ H1 H2) as (_ & _ & E).
    apply ret_inv in H3. destruct H3 as [-> _]. exact E.
Qed.

Lemma splice_proj : forall x e s s' repl touched,
  splice_block x e s = (s', Ok (repl, touched)) ->
  exists pp pred,
    (d_left e <> NO_STREAM -> d_right e <> NO_STREAM ->
     find_pred (S (length (dirs s))) (dirs s) x (d_left e) = Ok (pp, pred)) /\
    (dirs s', repl) = splice_tbl (dirs s) x e pp pred.
Proof.
  intros x e s s' repl touched H. unfold splice_block in H. cbv zeta in H.
  unfold splice_tbl. cbv zeta.
  destruct ((d_left e =? NO_STREAM) || (d_right e =? NO_STREAM)) eqn:C.
  - exists 0, 0. split.
    { intros Hl Hr. apply orb_true_iff in C. destruct C as [C|C]; apply N.eqb_eq in C; contradiction. }
    set (c := if d_left e =? NO_STREAM then d_right e else d_left e) in *.
    unfold recolor_black. destruct (c =? NO_STREAM) eqn:Cc; cbn [negb] in H.
    + apply ret_inv in H. destruct H as [-> H]. injection H as -> _. reflexivity.
    + binv H ce s1 H1 H2. binv H2 u s2 H2 H3.
      destruct (rmw_inv2 c (fun ce => set_color ce Black) _ _ _ _ _ H1 H2) as (_ & _ & E).
      apply ret_inv in H3. destruct H3 as [-> H3]. injection H3 as -> _. rewrite E. reflexivity.
  - binv H s0 s1 H1 H2. apply get_inv in H1. destruct H1 as [-> ->].
    binv H2 a s1 H1 H2. apply lift_inv in H1. destruct H1 as [-> Hfp].
    destruct a as [pp pred]. exists pp, pred. split; [intros _ _; exact Hfp|].
    binv H2 pe s1 H1 H2. apply dir_entry_inv in H1. destruct H1 as [-> Hpe]. rewrite Hpe.
    binv H2 t1 s1 H1 H2. apply recolor_proj in H1.
    binv H2 t2 s2 H2 H3.
    assert (dirs s2 = if pp =? x then dirs s1
                      else modN (modN (dirs s1) pp (fun ppe => set_right ppe (d_left pe))) pred
                                (fun pe' => set_left pe' (d_left e))) as E2.
    { destruct (pp =? x); cbn [negb] in H2.
      - apply ret_inv in H2. destruct H2 as [-> _]. reflexivity.
      - binv H2 ppe s3 H2 H4. binv H4 u s4 H4 H5.
        destruct (rmw_inv2 pp (fun ppe => set_right ppe (d_left pe)) _ _ _ _ _ H2 H4) as (-> & _ & E4).
        binv H5 pe' s5 H5 H6. binv H6 u' s6 H6 H7.
        destruct (rmw_inv2 pred (fun pe' => set_left pe' (d_left e)) _ _ _ _ _ H5 H6) as (-> & _ & E6).
        apply ret_inv in H7. destruct H7 as [-> _]. rewrite E6, E4. reflexivity. }
    binv H3 pe' s3 H3 H4. binv H4 u s4 H4 H5.
    destruct (rmw_inv2 pred (fun pe' => set_color (set_right pe' (d_right e)) (d_color e)) _ _ _ _ _ H3 H4)
      as (-> & _ & E4).
    apply ret_inv in H5. destruct H5 as [-> H5]. injection H5 as -> _.
    rewrite E4, E2, H1. reflexivity.
Qed.

(* a successful removal is a successful run of the relinking proper *)
Lemma remove_dir_entry_ok_inv : forall parent nm s s' u,
  remove_dir_entry parent nm s = (s', Ok u) -> remove_dir_entry_inner parent nm s = (s', Ok u).
Proof.
  intros parent nm s s' u H. unfold remove_dir_entry in H.
  destruct (remove_dir_entry_inner parent nm s) as [s1 [u1| | |]]; try discriminate H. exact H.
Qed.

Lemma remove_dir_entry_ok : forall parent nm s s' u,
  remove_dir_entry_inner parent nm s = (s', Ok u) -> remove_dir_entry parent nm s = (s', Ok u).
Proof. intros parent nm s s' u H. unfold remove_dir_entry. rewrite H. reflexivity. Qed.

(* a failed removal leaves the table in memory as it was *)
Lemma remove_dir_entry_failed_dirs : forall parent nm s s' r,
  remove_dir_entry parent nm s = (s', r) -> (forall u, r <> Ok u) -> dirs s' = dirs s.
Proof.
  intros parent nm s s' r H Hr. unfold remove_dir_entry in H.
  destruct (remove_dir_entry_inner parent nm s) as [s1 [u1| | |]]; injection H as <- <-;
    try reflexivity. exfalso. exact (Hr u1 eq_refl).
Qed.

(* the same three facts for the read-modify-write of one entry *)
Lemma with_dir_entry_mut_ok_inv : forall id f s s' u,
  with_dir_entry_mut id f s = (s', Ok u) -> with_dir_entry_mut_inner id f s = (s', Ok u).
Proof.
  intros id f s s' u H. unfold with_dir_entry_mut in H.
  destruct (with_dir_entry_mut_inner id f s) as [s1 [u1| | |]]; try discriminate H. exact H.
Qed.

Lemma with_dir_entry_mut_ok : forall id f s s' u,
  with_dir_entry_mut_inner id f s = (s', Ok u) -> with_dir_entry_mut id f s = (s', Ok u).
Proof. intros id f s s' u H. unfold with_dir_entry_mut. rewrite H. reflexivity. Qed.

Lemma with_dir_entry_mut_failed_dirs : forall id f s s' r,
  with_dir_entry_mut id f s = (s', r) -> (forall u, r <> Ok u) -> dirs s' = dirs s.
Proof.
  intros id f s s' r H Hr. unfold with_dir_entry_mut in H.
  destruct (with_dir_entry_mut_inner id f s) as [s1 [u1| | |]]; injection H as <- <-;
    try reflexivity. exfalso. exact (Hr u1 eq_refl).
Qed.

(* the wrapper in terms of the inner run, in every outcome *)
Lemma with_dir_entry_mut_unfold : forall id f s,
  with_dir_entry_mut id f s =
  match with_dir_entry_mut_inner id f s with
  | (s', Ok u) => (s', Ok u)
  | (s', r) => (w_dirs s' (dirs s), r)
  end.
Proof. reflexivity. Qed.

Lemma remove_proj : forall parent nm s s' u,
  remove_dir_entry parent nm s = (s', Ok u) ->
  exists p path x e pp pred,
    nthN (dirs s) parent = Some p /\
    remove_find (S (length (dirs s))) (dirs s) nm (d_child p) [] = Ok path /\
    lastN path = Some x /\ nthN (dirs s) x = Some e /\
    d_child e = NO_STREAM /\ x <> ROOT_STREAM_ID /\
    (d_left e <> NO_STREAM -> d_right e <> NO_STREAM ->
     find_pred (S (length (dirs s))) (dirs s) x (d_left e) = Ok (pp, pred)) /\
    dirs s' = remove_tbl (dirs s) parent (lastN (pop_last path)) x e pp pred.
Proof.
  intros parent nm s s' u H. apply remove_dir_entry_ok_inv in H. unfold remove_dir_entry_inner in H.
  binv H p s1 H1 H2. apply dir_entry_inv in H1. destruct H1 as [-> Hp].
  binv H2 s0 s1 H1 H2. apply get_inv in H1. destruct H1 as [-> ->].
  binv H2 path s1 H1 H2. apply lift_inv in H1. destruct H1 as [-> Hrf].
  destruct (lastN path) as [x|] eqn:Hlast; [|exfalso; eapply panic_inv; eauto].
  binv H2 e s1 H1 H2. apply dir_entry_inv in H1. destruct H1 as [-> He].
  binv H2 u1 s1 H1 H2.
  destruct (d_child e =? NO_STREAM) eqn:Hc; cbn [negb] in H1; [|exfalso; eapply panic_inv; eauto].
  apply ret_inv in H1. destruct H1 as [-> _]. apply N.eqb_eq in Hc.
  cbv zeta in H2. binv H2 a s2 H2 H3. destruct a as [repl touched].
  change (splice_block x e s = (s2, Ok (repl, touched))) in H2.
  apply splice_proj in H2. destruct H2 as (pp & pred & Hfp & Hsp).
  cbv beta iota in H3.
  binv H3 u2 s3 H3 H4. apply (frames_run _ _ _ _ _ (frames_write_entries touched)) in H3.
  binv H4 u3 s4 H4 H5.
  assert (dirs s4 = relink (dirs s3) parent (lastN (pop_last path)) x repl) as E4.
  { unfold relink. destruct (lastN (pop_last path)) as [sib|].
    - binv H4 se s5 H4 H6. apply dir_entry_inv in H4. destruct H4 as [-> Hse].
      unfold modN. rewrite Hse.
      destruct (d_left se =? x) eqn:Cl.
      + binv H6 u4 s6 H6 H7. apply set_dir_entry_inv in H6. destruct H6 as [_ H6].
        apply (frames_run _ _ _ _ _ (frames_write_in_dir_entry _ _ _)) in H7. congruence.
      + destruct (d_right se =? x) eqn:Cr; cbn [negb] in H6; [|exfalso; eapply panic_inv; eauto].
        binv H6 u4 s6 H6 H7. apply set_dir_entry_inv in H6. destruct H6 as [_ H6].
        apply (frames_run _ _ _ _ _ (frames_write_in_dir_entry _ _ _)) in H7. congruence.
    - binv H4 pe s5 H4 H6. binv H6 u4 s6 H6 H7.
      destruct (rmw_inv2 parent (fun pe => set_child pe repl) _ _ _ _ _ H4 H6) as (-> & _ & E).
      apply (frames_run _ _ _ _ _ (frames_write_in_dir_entry _ _ _)) in H7. congruence. }
  unfold free_dir_entry in H5.
  destruct (x =? ROOT_STREAM_ID) eqn:Cx; [exfalso; eapply panic_inv; eauto|].
  apply N.eqb_neq in Cx.
  binv H5 u5 s5 H5 H6. apply (frames_run _ _ _ _ _ (frames_write_in_dir_entry _ _ _)) in H5.
  apply set_dir_entry_inv in H6. destruct H6 as [_ H6].
  exists p, path, x, e, pp, pred. repeat (split; [assumption|]).
  unfold remove_tbl. rewrite <- Hsp. rewrite H6, H5, E4, H3. reflexivity.
Qed.

(* ================================================================== *)
(* trees: order as sortedness, removal on trees                        *)
(* ================================================================== *)

Lemma nodup_app_iff : forall (a b : list N),
  NoDup (a ++ b) <-> NoDup a /\ NoDup b /\ (forall x, In x a -> ~ In x b).
Proof.
  induction a as [|h a IH]; intros b; cbn [app].
  - split; [intros H; repeat split; [constructor|exact H|intros x []]|tauto].
  - rewrite NoDup_cons_iff, IH, NoDup_cons_iff, in_app_iff. split.
    + intros (Hh & Ha & Hb & Hd). repeat split; try tauto. intros x [<-|Hx]; [tauto|auto].
    + intros ((Hh & Ha) & Hb & Hd). repeat split; try tauto.
      * intros [H|H]; [tauto|]. eapply Hd; [left; reflexivity|exact H].
      * intros x Hx. apply Hd. right. exact Hx.
Qed.

Lemma nodup_node : forall l i r, NoDup (ids (BN l i r)) <->
  NoDup (ids l) /\ NoDup (ids r) /\ ~ In i (ids l) /\ ~ In i (ids r) /\
  (forall x, In x (ids l) -> ~ In x (ids r)).
Proof.
  intros. cbn [ids]. rewrite nodup_app_iff, NoDup_cons_iff. split.
  - intros (Hl & (Hir & Hr) & Hd). repeat split; auto.
    + intros Hi. eapply Hd; [exact Hi|left; reflexivity].
    + intros x Hx Hxr. eapply Hd; [exact Hx|right; exact Hxr].
  - intros (Hl & Hr & Hil & Hir & Hd). repeat split; auto.
    intros x Hx [<-|Hxr]; [tauto|]. eapply Hd; eauto.
Qed.

Lemma in_node : forall j l i r, In j (ids (BN l i r)) <-> In j (ids l) \/ j = i \/ In j (ids r).
Proof. intros. cbn [ids]. rewrite in_app_iff. cbn [In]. intuition congruence. Qed.

Definition ltn (ds : list dirent) (i j : N) : Prop := cmp_names (nm_of ds i) (nm_of ds j) = Lt.

Lemma cmp_gt_lt : forall a b, cmp_names a b = Gt <-> cmp_names b a = Lt.
Proof.
  intros a b. split; intros H.
  - rewrite (cmp_names_antisym a b), H. reflexivity.
  - rewrite (cmp_names_antisym b a), H. reflexivity.
Qed.

Lemma SS_app_iff : forall A (R : A -> A -> Prop) a b,
  StronglySorted R (a ++ b) <->
  StronglySorted R a /\ StronglySorted R b /\ (forall x y, In x a -> In y b -> R x y).
Proof.
  induction a as [|h a IH]; intros b; cbn [app].
  - split; [intros H; repeat split; [constructor|exact H|intros x y []]|tauto].
  - split.
    + intros H. apply StronglySorted_inv in H. destruct H as [H F].
      apply IH in H. destruct H as (Ha & Hb & Hc). apply Forall_app in F. destruct F as [Fa Fb].
      repeat split; [constructor; assumption|assumption|].
      intros x y [<-|Hx] Hy; [|auto]. rewrite Forall_forall in Fb. auto.
    + intros (Ha & Hb & Hc). apply StronglySorted_inv in Ha. destruct Ha as [Ha F].
      constructor.
      * apply IH. repeat split; auto. intros x y Hx Hy. apply Hc; [right|]; assumption.
      * apply Forall_app. split; [exact F|]. apply Forall_forall. intros y Hy. apply Hc; [left; reflexivity|exact Hy].
Qed.

Theorem bst_sorted : forall ds t, bst ds t <-> StronglySorted (ltn ds) (ids t).
Proof.
  induction t as [|l IHl i r IHr]; cbn [bst ids].
  - split; [constructor|trivial].
  - rewrite SS_app_iff. split.
    + intros (Bl & Br & Lo & Hi). split; [apply IHl; exact Bl|]. split.
      * constructor; [apply IHr; exact Br|]. apply Forall_forall. intros j Hj.
        apply cmp_gt_lt. apply Hi. exact Hj.
      * intros x y Hx [<-|Hy]; [apply Lo; exact Hx|].
        eapply cmp_names_trans_lt; [apply Lo; exact Hx|]. apply cmp_gt_lt. apply Hi. exact Hy.
    + intros (Sl & Sr & Hc). apply StronglySorted_inv in Sr. destruct Sr as [Sr F].
      rewrite Forall_forall in F. split; [apply IHl; exact Sl|]. split; [apply IHr; exact Sr|]. split.
      * intros j Hj. apply Hc; [exact Hj|left; reflexivity].
      * intros j Hj. apply cmp_gt_lt. apply F. exact Hj.
Qed.

Lemma SS_remove : forall (R : N -> N -> Prop) x l,
  StronglySorted R l -> StronglySorted R (remove N.eq_dec x l).
Proof.
  induction l as [|h l IH]; intros H; cbn [remove]; [constructor|].
  apply StronglySorted_inv in H. destruct H as [H F].
  destruct (N.eq_dec x h); [auto|]. constructor; [auto|].
  rewrite Forall_forall in *. intros y Hy. apply in_remove in Hy. apply F. tauto.
Qed.

Lemma bst_frame : forall ds ds' t,
  (forall j, In j (ids t) -> nm_of ds' j = nm_of ds j) -> bst ds t -> bst ds' t.
Proof.
  intros ds ds' t H B. apply bst_sorted. apply bst_sorted in B.
  assert (forall l, (forall j, In j l -> nm_of ds' j = nm_of ds j) ->
          StronglySorted (ltn ds) l -> StronglySorted (ltn ds') l) as G.
  { induction l as [|h l IH]; intros Hn S; [constructor|].
    apply StronglySorted_inv in S. destruct S as [S F]. constructor.
    - apply IH; [intros j Hj; apply Hn; right; exact Hj|exact S].
    - rewrite Forall_forall in *. intros y Hy. unfold ltn.
      rewrite (Hn h), (Hn y); [apply F; exact Hy|right; exact Hy|left; reflexivity]. }
  apply G; assumption.
Qed.

Fixpoint split_max (l : btree) (i : N) (r : btree) : btree * N :=
  match r with
  | BL => (l, i)
  | BN rl ri rr => let (r', m) := split_max rl ri rr in (BN l i r', m)
  end.

Definition join (l r : btree) : btree :=
  match l with
  | BL => r
  | BN ll li lr =>
    match r with
    | BL => l
    | BN _ _ _ => let (l', m) := split_max ll li lr in BN l' m r
    end
  end.

Fixpoint bst_remove (x : N) (t : btree) : btree :=
  match t with
  | BL => BL
  | BN l i r => if i =? x then join l r else BN (bst_remove x l) i (bst_remove x r)
  end.

Lemma ids_split_max : forall r l i,
  ids (fst (split_max l i r)) ++ [snd (split_max l i r)] = ids l ++ i :: ids r.
Proof.
  induction r as [|a _ b c IH]; intros l i; cbn [split_max].
  - reflexivity.
  - specialize (IH a b). destruct (split_max a b c) as [r' m]. cbn [fst snd ids] in *.
    rewrite <- app_assoc. cbn [app]. rewrite IH. reflexivity.
Qed.

Lemma ids_join : forall l r, ids (join l r) = ids l ++ ids r.
Proof.
  intros [|ll li lr] r; [reflexivity|]. destruct r as [|rl ri rr].
  - cbn [join ids]. rewrite app_nil_r. reflexivity.
  - cbn [join]. pose proof (ids_split_max lr ll li) as H.
    destruct (split_max ll li lr) as [l' m]. cbn [fst snd] in H.
    change (ids (BN l' m (BN rl ri rr))) with (ids l' ++ m :: ids (BN rl ri rr)).
    change (ids (BN ll li lr)) with (ids ll ++ li :: ids lr). rewrite <- H, <- app_assoc. reflexivity.
Qed.

Lemma bst_remove_notin : forall x t, ~ In x (ids t) -> bst_remove x t = t.
Proof.
  induction t as [|l IHl i r IHr]; intros H; cbn [bst_remove]; [reflexivity|].
  rewrite in_node in H. destruct (N.eqb_spec i x); [subst; tauto|].
  rewrite IHl, IHr by tauto. reflexivity.
Qed.

Theorem ids_bst_remove : forall x t, NoDup (ids t) ->
  ids (bst_remove x t) = remove N.eq_dec x (ids t).
Proof.
  induction t as [|l IHl i r IHr]; intros ND; [reflexivity|].
  apply nodup_node in ND. destruct ND as (NDl & NDr & Hil & Hir & Hlr).
  cbn [bst_remove ids]. rewrite remove_app. destruct (N.eqb_spec i x) as [E|E].
  - subst. rewrite remove_cons, ids_join, !notin_remove by assumption. reflexivity.
  - cbn [ids remove]. rewrite IHl, IHr by assumption.
    destruct (N.eq_dec x i); [congruence|]. reflexivity.
Qed.

Lemma bst_remove_bst : forall ds x t, bst ds t -> NoDup (ids t) -> bst ds (bst_remove x t).
Proof.
  intros ds x t B ND. apply bst_sorted. rewrite ids_bst_remove by exact ND.
  apply SS_remove. apply bst_sorted. exact B.
Qed.

Lemma in_bst_remove : forall x t j, NoDup (ids t) ->
  (In j (ids (bst_remove x t)) <-> In j (ids t) /\ j <> x).
Proof.
  intros x t j ND. rewrite ids_bst_remove by exact ND. split.
  - apply in_remove.
  - intros [H1 H2]. apply in_in_remove; assumption.
Qed.

(* the right spine: predecessor and its parent *)
Fixpoint tree_pred (pparent i : N) (r : btree) : N * N :=
  match r with BL => (pparent, i) | BN _ b c => tree_pred i b c end.

Lemma find_pred_spec : forall ds r l i pparent fuel pp pred,
  Rep ds i (BN l i r) -> find_pred fuel ds pparent i = Ok (pp, pred) ->
  tree_pred pparent i r = (pp, pred).
Proof.
  induction r as [|a _ b c IHc]; intros l i pparent fuel pp pred HR H;
    (destruct fuel as [|f]; [discriminate H|]); cbn [find_pred] in H;
    cbn [Rep] in HR; destruct HR as (_ & Hne & e & He & HL & HRr);
    unfold dir_entry_of in H; rewrite He in H; cbn [rbind] in H.
  - rewrite HRr, N.eqb_refl in H. cbn [tree_pred]. congruence.
  - assert (Rep ds (d_right e) (BN a b c)) as HRr' by exact HRr.
    destruct HRr as (Eb & Hbne & _).
    rewrite Eb in H, HRr'. destruct (N.eqb_spec b NO_STREAM); [contradiction|].
    cbn [tree_pred]. eapply IHc; eauto.
Qed.

Lemma find_pred_total : forall ds r l i pparent fuel,
  Rep ds i (BN l i r) -> (length (ids r) < fuel)%nat ->
  find_pred fuel ds pparent i = Ok (tree_pred pparent i r).
Proof.
  induction r as [|a _ b c IHc]; intros l i pparent fuel HR Hf;
    (destruct fuel as [|f]; [lia|]); cbn [find_pred];
    cbn [Rep] in HR; destruct HR as (_ & Hne & e & He & HL & HRr);
    unfold dir_entry_of; rewrite He; cbn [rbind].
  - rewrite HRr, N.eqb_refl. reflexivity.
  - assert (Rep ds (d_right e) (BN a b c)) as HRr' by exact HRr.
    destruct HRr as (Eb & Hbne & _).
    rewrite Eb in *. destruct (N.eqb_spec b NO_STREAM); [contradiction|].
    cbn [tree_pred]. eapply IHc; [exact HRr'|].
    cbn [ids] in Hf. rewrite app_length in Hf. cbn [length] in Hf. lia.
Qed.

Lemma tree_pred_in : forall r i pparent pp pred, r <> BL ->
  tree_pred pparent i r = (pp, pred) -> In pp (i :: ids r) /\ In pred (ids r).
Proof.
  induction r as [|a _ b c IHc]; intros i pparent pp pred Hne H; [congruence|].
  cbn [tree_pred] in H. destruct c as [|c1 c2 c3].
  - cbn [tree_pred] in H. injection H as <- <-. split; [left; reflexivity|].
    apply in_node. right. left. reflexivity.
  - destruct (IHc b i pp pred) as [P1 P2]; [discriminate|exact H|]. split.
    + right. cbn [ids]. apply in_or_app. right. exact P1.
    + apply in_node. right. right. exact P2.
Qed.

Lemma tree_pred_neq : forall r i pparent pp pred, NoDup (i :: ids r) -> r <> BL ->
  tree_pred pparent i r = (pp, pred) -> pp <> pred.
Proof.
  induction r as [|a _ b c IHc]; intros i pparent pp pred ND Hne H; [congruence|].
  cbn [tree_pred] in H. apply NoDup_cons_iff in ND. destruct ND as [Hi ND].
  destruct c as [|c1 c2 c3].
  - cbn [tree_pred] in H. injection H as <- <-. intros ->. apply Hi.
    apply in_node. right. left. reflexivity.
  - eapply IHc; [|discriminate|exact H].
    cbn [ids] in ND. apply nodup_app_iff in ND. tauto.
Qed.

Lemma split_max_rep : forall ds ds' pl r l i pparent pp pred,
  Rep ds i (BN l i r) -> NoDup (ids (BN l i r)) -> r <> BL ->
  tree_pred pparent i r = (pp, pred) ->
  (forall j, In j (ids (BN l i r)) -> j <> pp -> j <> pred -> keeps ds ds' j) ->
  (forall ppe, nthN ds pp = Some ppe ->
     exists ppe', nthN ds' pp = Some ppe' /\ d_left ppe' = d_left ppe /\ d_right ppe' = pl) ->
  (forall pe, nthN ds pred = Some pe -> d_left pe = pl) ->
  Rep ds' i (fst (split_max l i r)) /\ snd (split_max l i r) = pred.
Proof.
  intros ds ds' pl. induction r as [|a _ b c IHc];
    intros l i pparent pp pred HR ND Hne HP K Kpp Kpred; [congruence|].
  cbn [tree_pred] in HP.
  destruct HR as (_ & Hine & e & He & HL & HRr).
  destruct HRr as (Eb & Hbne & eb & Heb & HLa & HRc).
  apply nodup_node in ND. destruct ND as (NDl & NDr & Hil & Hir & Hlr).
  pose proof NDr as NDr0. apply nodup_node in NDr. destruct NDr as (NDa & NDc & Hba & Hbc & Hac).
  destruct c as [|c1 c2 c3].
  - cbn [tree_pred] in HP. injection HP as <- <-. cbn [split_max fst snd]. split; [|reflexivity].
    destruct (Kpp e He) as (e' & He' & EL & ER).
    split; [reflexivity|]. split; [exact Hine|]. exists e'. split; [exact He'|].
    rewrite EL, ER. split.
    + eapply rep_frame_links; [exact HL|]. intros j Hj. apply K.
      * apply in_node. left. exact Hj.
      * intros ->. contradiction.
      * intros ->. apply (Hlr b Hj). apply in_node. right. left. reflexivity.
    + rewrite <- (Kpred eb Heb). eapply rep_frame_links; [exact HLa|]. intros j Hj. apply K.
      * apply in_node. right. right. apply in_node. left. exact Hj.
      * intros ->. apply Hir. apply in_node. left. exact Hj.
      * intros ->. contradiction.
  - assert (Rep ds b (BN a b (BN c1 c2 c3))) as HRb.
    { split; [reflexivity|]. split; [exact Hbne|]. exists eb. split; [exact Heb|]. split; [exact HLa|exact HRc]. }
    destruct (tree_pred_in (BN c1 c2 c3) b i pp pred) as [Ppp Ppred]; [discriminate|exact HP|].
    assert (In pp (ids (BN a b (BN c1 c2 c3)))) as Ppp'.
    { apply in_node. destruct Ppp as [<-|Ppp]; [right; left; reflexivity|right; right; exact Ppp]. }
    assert (In pred (ids (BN a b (BN c1 c2 c3)))) as Ppred'.
    { apply in_node. right. right. exact Ppred. }
    destruct (IHc a b i pp pred HRb NDr0) as [IH1 IH2]; [discriminate|exact HP| |exact Kpp|exact Kpred|].
    { intros j Hj. apply K. apply in_node. right. right. exact Hj. }
    change (split_max l i (BN a b (BN c1 c2 c3)))
      with (let (r', m) := split_max a b (BN c1 c2 c3) in (BN l i r', m)).
    destruct (split_max a b (BN c1 c2 c3)) as [r' m]. cbn [fst snd] in *.
    split; [|exact IH2].
    assert (keeps ds ds' i) as Ki.
    { apply K; [apply in_node; right; left; reflexivity| |]; intros ->; apply Hir; assumption. }
    destruct (Ki e He) as (e' & He' & EL & ER).
    split; [reflexivity|]. split; [exact Hine|]. exists e'. split; [exact He'|]. rewrite EL, ER. split.
    + eapply rep_frame_links; [exact HL|]. intros j Hj. apply K.
      * apply in_node. left. exact Hj.
      * intros ->. exact (Hlr _ Hj Ppp').
      * intros ->. exact (Hlr _ Hj Ppred').
    + rewrite Eb. exact IH1.
Qed.

Lemma keeps_modN : forall ds k f j,
  (forall e, d_left (f e) = d_left e /\ d_right (f e) = d_right e) -> keeps ds (modN ds k f) j.
Proof.
  intros ds k f j Hf e He. rewrite nthN_modN. destruct (k =? j).
  - rewrite He. cbn [option_map]. exists (f e). split; [reflexivity|apply Hf].
  - exists e. auto.
Qed.

Lemma keeps_recolor : forall ds c j, keeps ds (recolor_black ds c) j.
Proof.
  intros. unfold recolor_black. destruct (c =? NO_STREAM); [apply keeps_eq; reflexivity|].
  apply keeps_modN. intros e. split; reflexivity.
Qed.

(* the subtree of x after the splice *)
Lemma splice_rep : forall ds x e l r pp pred,
  nthN ds x = Some e -> Rep ds (d_left e) l -> Rep ds (d_right e) r -> NoDup (ids (BN l x r)) ->
  (d_left e <> NO_STREAM -> d_right e <> NO_STREAM ->
   exists fuel, find_pred fuel ds x (d_left e) = Ok (pp, pred)) ->
  Rep (fst (splice_tbl ds x e pp pred)) (snd (splice_tbl ds x e pp pred)) (join l r) /\
  (forall j, ~ In j (ids l ++ ids r) -> keeps ds (fst (splice_tbl ds x e pp pred)) j).
Proof.
  intros ds x e l r pp pred He HL HR ND Hfp.
  apply nodup_node in ND. destruct ND as (NDl & NDr & Hxl & Hxr & Hlr).
  unfold splice_tbl. cbv zeta.
  destruct l as [|ll li lr].
  - cbn [Rep] in HL. rewrite HL, N.eqb_refl. cbn [orb fst snd join].
    split; [|intros; apply keeps_recolor].
    eapply rep_frame_links; [exact HR|]. intros; apply keeps_recolor.
  - pose proof HL as HL0. destruct HL as (El & Hline & el & Hel & HLl & HLr).
    rewrite El in *.
    destruct (N.eqb_spec li NO_STREAM); [contradiction|].
    destruct r as [|rl ri rr].
    + cbn [Rep] in HR. rewrite HR, N.eqb_refl. cbn [orb fst snd join].
      split; [|intros; apply keeps_recolor].
      eapply rep_frame_links; [exact HL0|]. intros; apply keeps_recolor.
    + pose proof HR as HR0. destruct HR as (Er & Hrine & er & Her & HRl & HRr).
      rewrite Er in *.
      destruct (N.eqb_spec ri NO_STREAM); [contradiction|]. cbn [orb fst snd].
      destruct (Hfp Hline Hrine) as [fuel Hf]. apply (find_pred_spec _ _ _ _ _ _ _ _ HL0) in Hf.
      apply nodup_node in NDl. destruct NDl as (NDll & NDlr & Hlil & Hlir & Hllr).
      set (ds1 := recolor_black ds _).
      assert (forall j, keeps ds ds1 j) as K1 by (intros; apply keeps_recolor).
      set (F := fun pe' => set_color (set_right pe' ri) (d_color e)).
      destruct lr as [|q1 q2 q3].
      * cbn [tree_pred] in Hf. injection Hf as <- <-. rewrite N.eqb_refl.
        cbn [join split_max].
        destruct (K1 li el Hel) as (el1 & Hel1 & EL1 & ER1).
        assert (nthN (modN ds1 li F) li = Some (F el1)) as H3 by (apply nthN_modN_same; exact Hel1).
        split.
        -- split; [reflexivity|]. split; [exact Hline|]. exists (F el1). split; [exact H3|]. split.
           ++ change (d_left (F el1)) with (d_left el1). rewrite EL1.
              eapply rep_frame_links; [exact HLl|]. intros j Hj.
              eapply keeps_trans; [apply K1|]. apply keeps_eq. apply nthN_modN_other.
              intros ->. contradiction.
           ++ change (d_right (F el1)) with ri.
              eapply rep_frame_links; [exact HR0|]. intros j Hj.
              eapply keeps_trans; [apply K1|]. apply keeps_eq. apply nthN_modN_other.
              intros ->. apply (Hlr j); [apply in_node; right; left; reflexivity|exact Hj].
        -- intros j Hj. eapply keeps_trans; [apply K1|]. apply keeps_eq. apply nthN_modN_other.
           intros ->. apply Hj. apply in_or_app. left. apply in_node. right. left. reflexivity.
      * destruct (tree_pred_in (BN q1 q2 q3) li x pp pred) as [Ppp Ppred]; [discriminate|exact Hf|].
        assert (In pp (ids (BN ll li (BN q1 q2 q3)))) as Ppp'.
        { apply in_node. destruct Ppp as [<-|Ppp]; [right; left; reflexivity|right; right; exact Ppp]. }
        assert (In pred (ids (BN ll li (BN q1 q2 q3)))) as Ppred'.
        { apply in_node. right. right. exact Ppred. }
        assert (pp <> pred) as Hpn.
        { apply (tree_pred_neq (BN q1 q2 q3) li x pp pred); [|discriminate|exact Hf].
          apply NoDup_cons_iff. split; assumption. }
        destruct (N.eqb_spec pp x) as [Epx|Epx]; [subst pp; contradiction|].
        destruct (rep_ids _ _ _ HL0 pred Ppred') as [_ Hplt].
        destruct (nthN_lt_Some _ _ _ Hplt) as [pe Hpe].
        destruct (rep_ids _ _ _ HL0 pp Ppp') as [_ Hpplt].
        destruct (nthN_lt_Some _ _ _ Hpplt) as [ppe Hppe].
        subst ds1. rewrite Hpe in *.
        set (ds1 := recolor_black ds (d_left pe)) in *.
        set (G1 := fun ppe0 => set_right ppe0 (d_left pe)).
        set (G2 := fun pe' => set_left pe' li).
        set (ds2 := modN (modN ds1 pp G1) pred G2).
        destruct (K1 pred pe Hpe) as (pe1 & Hpe1 & PL1 & PR1).
        destruct (K1 pp ppe Hppe) as (ppe1 & Hppe1 & PPL1 & PPR1).
        assert (nthN ds2 pred = Some (G2 pe1)) as D2pred.
        { apply nthN_modN_same. rewrite nthN_modN_other by exact Hpn. exact Hpe1. }
        assert (nthN (modN ds2 pred F) pred = Some (F (G2 pe1))) as D3pred.
        { apply nthN_modN_same. exact D2pred. }
        assert (nthN (modN ds2 pred F) pp = Some (G1 ppe1)) as D3pp.
        { rewrite nthN_modN_other by congruence. unfold ds2.
          rewrite nthN_modN_other by congruence. apply nthN_modN_same. exact Hppe1. }
        assert (forall j, j <> pp -> j <> pred -> keeps ds (modN ds2 pred F) j) as D3o.
        { intros j J1 J2. eapply keeps_trans; [apply K1|]. apply keeps_eq.
          rewrite nthN_modN_other by congruence. unfold ds2.
          rewrite nthN_modN_other by congruence. apply nthN_modN_other. congruence. }
        destruct (split_max_rep ds (modN ds2 pred F) (d_left pe) (BN q1 q2 q3) ll li x pp pred)
          as [S1 S2]; [exact HL0| |discriminate|exact Hf| | | |].
        { apply nodup_node. repeat split; assumption. }
        { intros j _ J1 J2. apply D3o; assumption. }
        { intros ppe0 Hppe0. exists (G1 ppe1). split; [exact D3pp|]. split.
          - change (d_left (G1 ppe1)) with (d_left ppe1). congruence.
          - reflexivity. }
        { intros pe0 Hpe0. congruence. }
        cbn [join]. destruct (split_max ll li (BN q1 q2 q3)) as [l' m]. cbn [fst snd] in S1, S2. subst m.
        split.
        -- split; [reflexivity|]. split; [eapply rep_ids; [exact HL0|exact Ppred']|].
           exists (F (G2 pe1)). split; [exact D3pred|]. split.
           ++ change (d_left (F (G2 pe1))) with li. exact S1.
           ++ change (d_right (F (G2 pe1))) with ri.
              eapply rep_frame_links; [exact HR0|]. intros j Hj. apply D3o.
              ** intros ->. exact (Hlr _ Ppp' Hj).
              ** intros ->. exact (Hlr _ Ppred' Hj).
        -- intros j Hj. apply D3o.
           ** intros ->. apply Hj. apply in_or_app. left. exact Ppp'.
           ** intros ->. apply Hj. apply in_or_app. left. exact Ppred'.
Qed.

(* search path *)
Fixpoint anc (ds : list dirent) (nm : name) (t : btree) : list N :=
  match t with
  | BL => []
  | BN l i r =>
    match cmp_names nm (nm_of ds i) with
    | Eq => []
    | Lt => i :: anc ds nm l
    | Gt => i :: anc ds nm r
    end
  end.

Fixpoint kids (ds : list dirent) (nm : name) (t : btree) : btree * btree :=
  match t with
  | BL => (BL, BL)
  | BN l i r =>
    match cmp_names nm (nm_of ds i) with
    | Eq => (l, r)
    | Lt => kids ds nm l
    | Gt => kids ds nm r
    end
  end.

Lemma lastN_app1 : forall A (l : list A) x, lastN (l ++ [x]) = Some x.
Proof. intros. unfold lastN. rewrite rev_unit. reflexivity. Qed.

Lemma pop_last_app1 : forall A (l : list A) x, pop_last (l ++ [x]) = l.
Proof. intros. unfold pop_last. apply removelast_last. Qed.

Lemma lastN_cons : forall A (a : A) l,
  lastN (a :: l) = match lastN l with Some y => Some y | None => Some a end.
Proof. intros. unfold lastN. cbn [rev]. destruct (rev l); reflexivity. Qed.

Lemma anc_in : forall ds nm t j, In j (anc ds nm t) -> In j (ids t).
Proof.
  induction t as [|l IHl i r IHr]; intros j H; cbn [anc] in H; [contradiction|].
  apply in_node. destruct (cmp_names nm (nm_of ds i)); [contradiction| |];
    (destruct H as [<-|H]; [right; left; reflexivity|]); auto.
Qed.

Lemma lastN_in : forall A (l : list A) x, lastN l = Some x -> In x l.
Proof.
  intros A l x H. unfold lastN in H. destruct (rev l) as [|y l'] eqn:E; [discriminate|].
  injection H as ->. apply in_rev. rewrite E. left. reflexivity.
Qed.

Lemma kids_rep : forall ds nm x l r t root,
  Rep ds root t -> bst_find ds nm t = Some x -> kids ds nm t = (l, r) ->
  Rep ds x (BN l x r) /\ (forall j, In j (ids (BN l x r)) -> In j (ids t)) /\
  (NoDup (ids t) -> NoDup (ids (BN l x r))).
Proof.
  intros ds nm x l r. induction t as [|tl IHl i tr IHr]; intros root HR HF HK; [discriminate HF|].
  pose proof HR as HR0. destruct HR as (E & Hne & e & He & HL & HRr).
  cbn [bst_find kids] in HF, HK. destruct (cmp_names nm (nm_of ds i)).
  - injection HF as <-. injection HK as <- <-. subst root. split; [exact HR0|]. split; auto.
  - destruct (IHl _ HL HF HK) as (R1 & R2 & R3). split; [exact R1|]. split.
    + intros j Hj. apply in_node. left. auto.
    + intros ND. apply nodup_node in ND. apply R3. tauto.
  - destruct (IHr _ HRr HF HK) as (R1 & R2 & R3). split; [exact R1|]. split.
    + intros j Hj. apply in_node. right. right. auto.
    + intros ND. apply nodup_node in ND. apply R3. tauto.
Qed.

Lemma remove_find_spec : forall ds nm x t root fuel acc,
  Rep ds root t -> bst_find ds nm t = Some x -> NoDup (ids t) ->
  (forall j, In j acc -> ~ In j (ids t)) -> (length (ids t) < fuel)%nat ->
  remove_find fuel ds nm root acc = Ok (acc ++ anc ds nm t ++ [x]).
Proof.
  intros ds nm x. induction t as [|l IHl i r IHr]; intros root fuel acc HR HF ND HA Hf; [discriminate HF|].
  destruct HR as (E & Hne & e & He & HL & HRr). subst root.
  cbn [ids] in Hf. rewrite app_length in Hf. cbn [length] in Hf.
  destruct fuel as [|f]; [lia|]. cbn [remove_find].
  destruct (N.eqb_spec i NO_STREAM); [contradiction|].
  destruct (memN i acc) eqn:Hm.
  { apply memN_In in Hm. exfalso. apply (HA i Hm). apply in_node. right. left. reflexivity. }
  unfold dir_entry_of. rewrite He. cbn [rbind].
  cbn [bst_find anc] in *. unfold nm_of in *. rewrite He in *.
  apply nodup_node in ND. destruct ND as (NDl & NDr & Hil & Hir & Hlr).
  destruct (cmp_names nm (d_name e)).
  - injection HF as <-. reflexivity.
  - rewrite (IHl (d_left e) f (acc ++ [i])); [|exact HL|exact HF|exact NDl| |lia].
    + rewrite <- app_assoc. reflexivity.
    + intros j Hj. apply in_app_or in Hj. destruct Hj as [Hj|[<-|[]]]; [|exact Hil].
      intros Hjl. apply (HA j Hj). apply in_node. left. exact Hjl.
  - rewrite (IHr (d_right e) f (acc ++ [i])); [|exact HRr|exact HF|exact NDr| |lia].
    + rewrite <- app_assoc. reflexivity.
    + intros j Hj. apply in_app_or in Hj. destruct Hj as [Hj|[<-|[]]]; [|exact Hir].
      intros Hjr. apply (HA j Hj). apply in_node. right. right. exact Hjr.
Qed.

(* the context of x: relinking the parent slot *)
Lemma ctx_rep : forall ds ds1 nm x l r repl t root,
  Rep ds root t -> NoDup (ids t) -> bst_find ds nm t = Some x -> kids ds nm t = (l, r) ->
  (forall j, In j (ids t) -> ~ In j (ids (BN l x r)) -> keeps ds ds1 j) ->
  Rep ds1 repl (join l r) ->
  match lastN (anc ds nm t) with
  | None => root = x /\ t = BN l x r
  | Some sib => forall ds2,
      (forall j, j <> sib -> nthN ds2 j = nthN ds1 j) ->
      (forall se, nthN ds1 sib = Some se -> exists se2, nthN ds2 sib = Some se2 /\
         if d_left se =? x then d_left se2 = repl /\ d_right se2 = d_right se
         else d_left se2 = d_left se /\ d_right se2 = repl) ->
      Rep ds2 root (bst_remove x t)
  end.
Proof.
  intros ds ds1 nm x l r repl.
  induction t as [|tl IHl i tr IHr]; intros root HR ND HF HK K HJ; [discriminate HF|].
  pose proof HR as HR0. destruct HR as (E & Hne & e & He & HL & HRr). subst root.
  pose proof (kids_rep _ _ _ _ _ _ _ HR0 HF HK) as (KR & KI & _).
  pose proof (bst_find_sound _ _ _ _ HF) as [Hxin _].
  cbn [bst_find kids anc] in *.
  apply nodup_node in ND. destruct ND as (NDl & NDr & Hil & Hir & Hlr).
  destruct (cmp_names nm (nm_of ds i)) eqn:C.
  - injection HF as <-. injection HK as <- <-. cbn [lastN rev]. auto.
  - (* x is in the left subtree *)
    pose proof (bst_find_sound _ _ _ _ HF) as [Hxl _].
    pose proof (kids_rep _ _ _ _ _ _ _ HL HF HK) as (_ & KIl & _).
    assert (i <> x) as Hix by (intros ->; contradiction).
    assert (~ In i (ids (BN l x r))) as Hisub by (intros Hc; apply Hil; apply KIl; exact Hc).
    assert (keeps ds ds1 i) as Ki by (apply K; [apply in_node; right; left; reflexivity|exact Hisub]).
    destruct (Ki e He) as (e1 & He1 & EL1 & ER1).
    assert (forall j, In j (ids tr) -> keeps ds ds1 j) as Ktr.
    { intros j Hj. apply K; [apply in_node; right; right; exact Hj|].
      intros Hc. apply (Hlr j); [apply KIl; exact Hc|exact Hj]. }
    specialize (IHl (d_left e) HL NDl HF HK).
    rewrite lastN_cons. cbn [bst_remove]. destruct (N.eqb_spec i x); [contradiction|].
    rewrite (bst_remove_notin x tr) by (intros Hc; exact (Hlr _ Hxl Hc)).
    destruct (lastN (anc ds nm tl)) as [sib|] eqn:Hlast.
    + assert (In sib (ids tl)) as Hsib by (eapply anc_in; eapply lastN_in; exact Hlast).
      intros ds2 Hoth Hsibe.
      assert (sib <> i) as Hsi by (intros ->; contradiction).
      split; [reflexivity|]. split; [exact Hne|]. exists e1.
      split; [rewrite Hoth by congruence; exact He1|]. rewrite EL1, ER1. split.
      * apply IHl; [|exact HJ|exact Hoth|exact Hsibe].
        intros j Hj Hjs. apply K; [apply in_node; left; exact Hj|exact Hjs].
      * eapply rep_frame_links; [exact HRr|]. intros j Hj.
        eapply keeps_trans; [apply Ktr; exact Hj|]. apply keeps_eq. apply Hoth.
        intros ->. exact (Hlr _ Hsib Hj).
    + destruct IHl as [Ex Et]; [|exact HJ|].
      { intros j Hj Hjs. apply K; [apply in_node; left; exact Hj|exact Hjs]. }
      subst tl. intros ds2 Hoth Hsibe.
      destruct (Hsibe e1 He1) as (e2 & He2 & Hlinks).
      rewrite EL1, Ex, N.eqb_refl in Hlinks. destruct Hlinks as [EL2 ER2].
      cbn [bst_remove]. rewrite N.eqb_refl.
      split; [reflexivity|]. split; [exact Hne|]. exists e2. split; [exact He2|].
      rewrite EL2, ER2, ER1. split.
      * eapply rep_frame; [exact HJ|]. intros j Hj. apply Hoth.
        intros ->. apply Hisub. rewrite ids_join in Hj. apply in_node.
        apply in_app_or in Hj. tauto.
      * eapply rep_frame_links; [exact HRr|]. intros j Hj.
        eapply keeps_trans; [apply Ktr; exact Hj|]. apply keeps_eq. apply Hoth.
        intros ->. contradiction.
  - (* x is in the right subtree *)
    pose proof (bst_find_sound _ _ _ _ HF) as [Hxr _].
    pose proof (kids_rep _ _ _ _ _ _ _ HRr HF HK) as (_ & KIr & _).
    assert (i <> x) as Hix by (intros ->; contradiction).
    assert (~ In i (ids (BN l x r))) as Hisub by (intros Hc; apply Hir; apply KIr; exact Hc).
    assert (keeps ds ds1 i) as Ki by (apply K; [apply in_node; right; left; reflexivity|exact Hisub]).
    destruct (Ki e He) as (e1 & He1 & EL1 & ER1).
    assert (forall j, In j (ids tl) -> keeps ds ds1 j) as Ktl.
    { intros j Hj. apply K; [apply in_node; left; exact Hj|].
      intros Hc. apply (Hlr j); [exact Hj|apply KIr; exact Hc]. }
    specialize (IHr (d_right e) HRr NDr HF HK).
    rewrite lastN_cons. cbn [bst_remove]. destruct (N.eqb_spec i x); [contradiction|].
    rewrite (bst_remove_notin x tl) by (intros Hc; exact (Hlr _ Hc Hxr)).
    destruct (lastN (anc ds nm tr)) as [sib|] eqn:Hlast.
    + assert (In sib (ids tr)) as Hsib by (eapply anc_in; eapply lastN_in; exact Hlast).
      intros ds2 Hoth Hsibe.
      assert (sib <> i) as Hsi by (intros ->; contradiction).
      split; [reflexivity|]. split; [exact Hne|]. exists e1.
      split; [rewrite Hoth by congruence; exact He1|]. rewrite EL1, ER1. split.
      * eapply rep_frame_links; [exact HL|]. intros j Hj.
        eapply keeps_trans; [apply Ktl; exact Hj|]. apply keeps_eq. apply Hoth.
        intros ->. exact (Hlr _ Hj Hsib).
      * apply IHr; [|exact HJ|exact Hoth|exact Hsibe].
        intros j Hj Hjs. apply K; [apply in_node; right; right; exact Hj|exact Hjs].
    + destruct IHr as [Ex Et]; [|exact HJ|].
      { intros j Hj Hjs. apply K; [apply in_node; right; right; exact Hj|exact Hjs]. }
      subst tr. intros ds2 Hoth Hsibe.
      destruct (Hsibe e1 He1) as (e2 & He2 & Hlinks).
      assert (d_left e1 <> x) as Hlx.
      { rewrite EL1. intros Hc. pose proof (rep_root _ _ _ HL) as Hroot.
        destruct tl as [|a b c].
        - destruct (rep_ids _ _ _ HRr x Hxr) as [Hxne _]. congruence.
        - destruct Hroot as [Hb _]. apply (Hlr x); [|exact Hxr].
          apply in_node. right. left. congruence. }
      destruct (N.eqb_spec (d_left e1) x); [contradiction|]. destruct Hlinks as [EL2 ER2].
      cbn [bst_remove]. rewrite N.eqb_refl.
      split; [reflexivity|]. split; [exact Hne|]. exists e2. split; [exact He2|].
      rewrite EL2, ER2, EL1. split.
      * eapply rep_frame_links; [exact HL|]. intros j Hj.
        eapply keeps_trans; [apply Ktl; exact Hj|]. apply keeps_eq. apply Hoth.
        intros ->. contradiction.
      * eapply rep_frame; [exact HJ|]. intros j Hj. apply Hoth.
        intros ->. apply Hisub. rewrite ids_join in Hj. apply in_node.
        apply in_app_or in Hj. tauto.
Qed.

(* ================================================================== *)
(* what the table function preserves, field by field                   *)
(* ================================================================== *)

Definition same_payload (e e' : dirent) : Prop :=
  d_name e' = d_name e /\ d_type e' = d_type e /\ d_start e' = d_start e /\ d_len e' = d_len e /\
  d_clsid e' = d_clsid e /\ d_state e' = d_state e /\ d_ctime e' = d_ctime e /\ d_mtime e' = d_mtime e.

(* only d_left / d_right / d_color may differ *)
Definition same_lrc (e e' : dirent) : Prop := same_payload e e' /\ d_child e' = d_child e.

Definition pres (P : dirent -> dirent -> Prop) (ds ds' : list dirent) : Prop :=
  forall j e, nthN ds j = Some e -> exists e', nthN ds' j = Some e' /\ P e e'.

Lemma same_lrc_refl : forall e, same_lrc e e.
Proof. intros. unfold same_lrc, same_payload. repeat split; reflexivity. Qed.

Lemma same_lrc_trans : forall a b c, same_lrc a b -> same_lrc b c -> same_lrc a c.
Proof. unfold same_lrc, same_payload. intros a b c H1 H2. intuition congruence. Qed.

Lemma pres_refl : forall ds, pres same_lrc ds ds.
Proof. intros ds j e He. exists e. split; [exact He|apply same_lrc_refl]. Qed.

Lemma lrc_modN : forall ds ds' k f,
  pres same_lrc ds ds' -> (forall e, same_lrc e (f e)) -> pres same_lrc ds (modN ds' k f).
Proof.
  intros ds ds' k f H Hf j e He. destruct (H j e He) as (e1 & He1 & P1).
  rewrite nthN_modN. destruct (k =? j).
  - rewrite He1. cbn [option_map]. exists (f e1). split; [reflexivity|].
    eapply same_lrc_trans; [exact P1|apply Hf].
  - exists e1. auto.
Qed.

Ltac lrc_solve := intros; unfold same_lrc, same_payload; repeat split; reflexivity.

Lemma splice_pres : forall ds x e pp pred, pres same_lrc ds (fst (splice_tbl ds x e pp pred)).
Proof.
  intros. unfold splice_tbl, recolor_black. cbv zeta.
  destruct ((d_left e =? NO_STREAM) || (d_right e =? NO_STREAM)); cbn [fst].
  - destruct (_ =? NO_STREAM); [apply pres_refl|]. apply lrc_modN; [apply pres_refl|lrc_solve].
  - apply lrc_modN; [|lrc_solve].
    assert (pres same_lrc ds
      (if match nthN ds pred with Some pe => d_left pe | None => NO_STREAM end =? NO_STREAM
       then ds
       else modN ds match nthN ds pred with Some pe => d_left pe | None => NO_STREAM end
              (fun ce => set_color ce Black))) as H1.
    { destruct (_ =? NO_STREAM); [apply pres_refl|]. apply lrc_modN; [apply pres_refl|lrc_solve]. }
    destruct (pp =? x); [exact H1|].
    apply lrc_modN; [|lrc_solve]. apply lrc_modN; [exact H1|lrc_solve].
Qed.

Lemma lenN_recolor : forall ds c, lenN (recolor_black ds c) = lenN ds.
Proof. intros. unfold recolor_black. destruct (c =? NO_STREAM); [reflexivity|apply lenN_modN]. Qed.

Lemma lenN_splice : forall ds x e pp pred, lenN (fst (splice_tbl ds x e pp pred)) = lenN ds.
Proof.
  intros. unfold splice_tbl. cbv zeta.
  destruct ((d_left e =? NO_STREAM) || (d_right e =? NO_STREAM)); cbn [fst].
  - apply lenN_recolor.
  - rewrite lenN_modN. destruct (pp =? x); rewrite ?lenN_modN; apply lenN_recolor.
Qed.

Lemma lenN_relink : forall ds parent sibo x repl, lenN (relink ds parent sibo x repl) = lenN ds.
Proof. intros. unfold relink. destruct sibo; apply lenN_modN. Qed.

Lemma lenN_remove_tbl : forall ds parent sibo x e pp pred,
  lenN (remove_tbl ds parent sibo x e pp pred) = lenN ds.
Proof.
  intros. unfold remove_tbl. pose proof (lenN_splice ds x e pp pred) as H.
  destruct (splice_tbl ds x e pp pred) as [ds1 repl]. cbn [fst] in H.
  rewrite lenN_updN, lenN_relink. exact H.
Qed.

Lemma remove_tbl_stable : forall ds parent sibo x e pp pred j ej,
  j <> x -> nthN ds j = Some ej ->
  exists e', nthN (remove_tbl ds parent sibo x e pp pred) j = Some e' /\ same_payload ej e' /\
             (sibo <> None \/ j <> parent -> d_child e' = d_child ej).
Proof.
  intros ds parent sibo x e pp pred j ej Hjx Hej. unfold remove_tbl.
  pose proof (splice_pres ds x e pp pred) as P.
  destruct (splice_tbl ds x e pp pred) as [ds1 repl]. cbn [fst] in P.
  destruct (P j ej Hej) as (e1 & He1 & [P1 C1]).
  rewrite nthN_updN_other by congruence. unfold relink. destruct sibo as [sib|].
  - assert (pres same_lrc ds (modN ds1 sib
      (fun se => if d_left se =? x then set_left se repl else set_right se repl))) as P2.
    { apply lrc_modN; [exact P|]. intros e0. destruct (d_left e0 =? x); lrc_solve. }
    destruct (P2 j ej Hej) as (e2 & He2 & [P2a C2]). exists e2. auto.
  - rewrite nthN_modN. destruct (N.eqb_spec parent j) as [E|E].
    + rewrite He1. cbn [option_map]. exists (set_child e1 repl). split; [reflexivity|].
      split; [exact P1|]. intros [H|H]; congruence.
    + exists e1. split; [exact He1|]. split; [exact P1|]. intros _. exact C1.
Qed.

Lemma remove_tbl_x : forall ds parent sibo x e pp pred,
  nthN ds x = Some e ->
  nthN (remove_tbl ds parent sibo x e pp pred) x = Some dirent_unallocated.
Proof.
  intros ds parent sibo x e pp pred He. unfold remove_tbl.
  pose proof (lenN_splice ds x e pp pred) as H.
  destruct (splice_tbl ds x e pp pred) as [ds1 repl]. cbn [fst] in H.
  apply nthN_updN_same. rewrite lenN_relink, H. eapply nthN_Some_lt; eauto.
Qed.

(* the slots that are written at all *)
Definition optN (c : N) : list N := if c =? NO_STREAM then [] else [c].

Definition splice_touched (ds : list dirent) (x : N) (e : dirent) (pp pred : N) : list N :=
  if (d_left e =? NO_STREAM) || (d_right e =? NO_STREAM)
  then optN (if d_left e =? NO_STREAM then d_right e else d_left e)
  else optN (match nthN ds pred with Some pe => d_left pe | None => NO_STREAM end)
       ++ (if pp =? x then [] else [pp]) ++ [pred].

Definition remove_touched (ds : list dirent) (parent : N) (sibo : option N) (x : N) (e : dirent)
           (pp pred : N) : list N :=
  x :: (match sibo with Some sib => sib | None => parent end) :: splice_touched ds x e pp pred.

Lemma recolor_other : forall ds c j, ~ In j (optN c) -> nthN (recolor_black ds c) j = nthN ds j.
Proof.
  intros ds c j H. unfold recolor_black, optN in *. destruct (c =? NO_STREAM); [reflexivity|].
  apply nthN_modN_other. intros ->. apply H. left. reflexivity.
Qed.

Lemma splice_untouched : forall ds x e pp pred j,
  ~ In j (splice_touched ds x e pp pred) -> nthN (fst (splice_tbl ds x e pp pred)) j = nthN ds j.
Proof.
  intros ds x e pp pred j H. unfold splice_tbl, splice_touched in *. cbv zeta.
  destruct ((d_left e =? NO_STREAM) || (d_right e =? NO_STREAM)); cbn [fst].
  - apply recolor_other. exact H.
  - rewrite !in_app_iff in H. rewrite nthN_modN_other by (intros ->; apply H; right; right; left; reflexivity).
    destruct (pp =? x).
    + apply recolor_other. tauto.
    + rewrite nthN_modN_other by (intros ->; apply H; right; right; left; reflexivity).
      rewrite nthN_modN_other by (intros ->; apply H; right; left; left; reflexivity).
      apply recolor_other. tauto.
Qed.

Lemma remove_tbl_untouched : forall ds parent sibo x e pp pred j,
  ~ In j (remove_touched ds parent sibo x e pp pred) ->
  nthN (remove_tbl ds parent sibo x e pp pred) j = nthN ds j.
Proof.
  intros ds parent sibo x e pp pred j H. unfold remove_tbl, remove_touched in *.
  pose proof (splice_untouched ds x e pp pred j) as P.
  destruct (splice_tbl ds x e pp pred) as [ds1 repl]. cbn [fst] in P.
  rewrite nthN_updN_other by (intros ->; apply H; left; reflexivity).
  unfold relink. destruct sibo as [sib|];
    (rewrite nthN_modN_other by (intros ->; apply H; right; left; reflexivity));
    apply P; intros Hc; apply H; right; right; exact Hc.
Qed.

Lemma remove_find_last : forall ds nm fuel id acc path,
  remove_find fuel ds nm id acc = Ok path ->
  exists x e, lastN path = Some x /\ nthN ds x = Some e /\ cmp_names nm (d_name e) = Eq.
Proof.
  induction fuel as [|f IH]; intros id acc path H; [discriminate H|].
  cbn [remove_find] in H. destruct (id =? NO_STREAM); [discriminate H|].
  destruct (memN id acc); [discriminate H|].
  unfold dir_entry_of in H. destruct (nthN ds id) as [e|] eqn:He; [|discriminate H].
  cbn [rbind] in H. destruct (cmp_names nm (d_name e)) eqn:C.
  - injection H as <-. exists id, e. rewrite lastN_app1. auto.
  - eapply IH; eauto.
  - eapply IH; eauto.
Qed.

(* C07 core, for every table whatsoever: a successful removal frees exactly
   one slot, whose name matches, and no other entry changes anything but
   links and colour (the parent: its child link) *)
Theorem remove_ids_stable_raw : forall parent nm s s' u,
  remove_dir_entry parent nm s = (s', Ok u) ->
  exists x ex,
    nthN (dirs s) x = Some ex /\ cmp_names nm (d_name ex) = Eq /\ d_child ex = NO_STREAM /\
    x <> ROOT_STREAM_ID /\ nthN (dirs s') x = Some dirent_unallocated /\
    lenN (dirs s') = lenN (dirs s) /\
    forall i e, i <> x -> nthN (dirs s) i = Some e ->
      exists e', nthN (dirs s') i = Some e' /\ same_payload e e' /\
                 (i <> parent -> d_child e' = d_child e).
Proof.
  intros parent nm s s' u H.
  destruct (remove_proj _ _ _ _ _ H) as (p & path & x & e & pp & pred & Hp & Hrf & Hlast & He & Hc & Hroot & Hfp & Hds).
  destruct (remove_find_last _ _ _ _ _ _ Hrf) as (x' & e' & Hl' & He' & Hcmp).
  assert (x' = x) by congruence. subst x'. assert (e' = e) by congruence. subst e'.
  exists x, e. repeat (split; [assumption|]). rewrite Hds. split; [apply remove_tbl_x; exact He|].
  split; [apply lenN_remove_tbl|].
  intros i ei Hix Hei.
  destruct (remove_tbl_stable (dirs s) parent (lastN (pop_last path)) x e pp pred i ei Hix Hei)
    as (e2 & He2 & P2 & C2).
  exists e2. split; [exact He2|]. split; [exact P2|]. intros Hip. apply C2. right. exact Hip.
Qed.

(* ================================================================== *)
(* D. removal: the theorems                                            *)
(* ================================================================== *)

Lemma nodup_remove : forall x (l : list N), NoDup l -> NoDup (remove N.eq_dec x l).
Proof.
  induction l as [|h l IH]; intros ND; cbn [remove]; [constructor|].
  apply NoDup_cons_iff in ND. destruct ND as [Hh ND].
  destruct (N.eq_dec x h); [auto|]. constructor; [|auto].
  intros Hc. apply in_remove in Hc. tauto.
Qed.

Lemma remove_core : forall parent nm s s' u p t x,
  remove_dir_entry parent nm s = (s', Ok u) ->
  nthN (dirs s) parent = Some p -> Rep (dirs s) (d_child p) t -> NoDup (ids t) ->
  bst_find (dirs s) nm t = Some x ->
  exists e pp pred l r,
    nthN (dirs s) x = Some e /\ d_child e = NO_STREAM /\ x <> parent /\
    kids (dirs s) nm t = (l, r) /\
    Rep (dirs s) x (BN l x r) /\ NoDup (ids (BN l x r)) /\
    (forall j, In j (ids (BN l x r)) -> In j (ids t)) /\
    dirs s' = remove_tbl (dirs s) parent (lastN (anc (dirs s) nm t)) x e pp pred /\
    (d_left e <> NO_STREAM -> d_right e <> NO_STREAM ->
     find_pred (S (length (dirs s))) (dirs s) x (d_left e) = Ok (pp, pred)) /\
    (lastN (anc (dirs s) nm t) = None -> d_child p = x) /\
    exists p', nthN (dirs s') parent = Some p' /\ Rep (dirs s') (d_child p') (bst_remove x t).
Proof.
  intros parent nm s s' u p t x H Hp HR ND HF.
  destruct (remove_proj _ _ _ _ _ H)
    as (p0 & path & x0 & e & pp & pred & Hp0 & Hrf & Hlast & He & Hc & Hroot & Hfp & Hds).
  assert (p0 = p) by congruence. subst p0.
  set (ds := dirs s) in *.
  rewrite (remove_find_spec ds nm x t (d_child p) (S (length ds)) []) in Hrf;
    [|exact HR|exact HF|exact ND|intros j []|].
  2: { pose proof (rep_length _ _ _ HR ND). lia. }
  cbn [app] in Hrf. injection Hrf as <-.
  rewrite lastN_app1 in Hlast. injection Hlast as <-.
  rewrite pop_last_app1 in Hds.
  destruct (kids ds nm t) as [l r] eqn:HK.
  destruct (kids_rep _ _ _ _ _ _ _ HR HF HK) as (KR & KI & KND). specialize (KND ND).
  pose proof KR as KR0. destruct KR as (_ & Hxne & e0 & He0 & HLl & HRr).
  assert (e0 = e) by congruence. subst e0.
  assert (x <> parent) as Hxp.
  { intros ->. assert (p = e) by congruence. subst p. rewrite Hc in HR.
    apply rep_nostream in HR. subst t. discriminate HF. }
  destruct (splice_rep ds x e l r pp pred He HLl HRr KND) as [SR SK].
  { intros A B. eexists. apply Hfp; assumption. }
  pose proof (splice_pres ds x e pp pred) as SP.
  pose proof Hds as Hds0.
  unfold remove_tbl in Hds. destruct (splice_tbl ds x e pp pred) as [ds1 repl] eqn:S.
  cbn [fst snd] in *.
  assert (forall j, In j (ids t) -> ~ In j (ids (BN l x r)) -> keeps ds ds1 j) as K.
  { intros j Hj Hn. apply SK. intros Hc'. apply Hn. apply in_node. apply in_app_or in Hc'. tauto. }
  pose proof (ctx_rep ds ds1 nm x l r repl t (d_child p) HR ND HF HK K SR) as CTX.
  destruct (SP parent p Hp) as (p1 & Hp1 & [PP1 PC1]).
  exists e, pp, pred, l, r. repeat (split; [first [assumption|reflexivity]|]).
  destruct (lastN (anc ds nm t)) as [sib|] eqn:Hl.
  - split; [discriminate|].
    unfold relink in Hds.
    set (f := fun se => if d_left se =? x then set_left se repl else set_right se repl) in Hds.
    assert (Rep (modN ds1 sib f) (d_child p) (bst_remove x t)) as R2.
    { apply CTX.
      - intros j Hj. apply nthN_modN_other. congruence.
      - intros se Hse. exists (f se). split; [apply nthN_modN_same; exact Hse|].
        unfold f. destruct (d_left se =? x); split; reflexivity. }
    assert (parent <> x) as Hpx by congruence.
    destruct (remove_tbl_stable ds parent (Some sib) x e pp pred parent p Hpx Hp) as (p' & Hp' & _ & Cp').
    rewrite <- Hds0 in Hp'. exists p'. split; [exact Hp'|].
    rewrite Cp' by (left; discriminate). rewrite Hds.
    eapply rep_frame; [exact R2|]. intros j Hj. apply nthN_updN_other.
    apply in_bst_remove in Hj; [|exact ND]. intros ->. tauto.
  - destruct CTX as [Ex Et]. split; [intros _; exact Ex|]. subst t.
    unfold relink in Hds. exists (set_child p1 repl). split.
    + rewrite Hds. rewrite nthN_updN_other by exact Hxp.
      exact (nthN_modN_same ds1 parent (fun pe => set_child pe repl) p1 Hp1).
    + change (d_child (set_child p1 repl)) with repl.
      cbn [bst_remove]. rewrite N.eqb_refl. rewrite Hds.
      eapply rep_frame_links; [exact SR|]. intros j Hj.
      eapply keeps_trans;
        [apply (keeps_modN ds1 parent (fun pe => set_child pe repl)); intros; split; reflexivity|].
      apply keeps_eq. apply nthN_updN_other. intros ->.
      rewrite ids_join in Hj. apply nodup_node in KND.
      apply in_app_or in Hj. tauto.
Qed.

Lemma stable_nm : forall ds ds' (x i : N),
  (forall i e, i <> x -> nthN ds i = Some e ->
     exists e', nthN ds' i = Some e' /\ same_payload e e') ->
  i <> x -> i < lenN ds -> nm_of ds' i = nm_of ds i.
Proof.
  intros ds ds' x i H Hix Hlt. destruct (nthN_lt_Some _ _ _ Hlt) as [e He].
  destruct (H i e Hix He) as (e' & He' & P). unfold nm_of. rewrite He, He'. apply P.
Qed.

Theorem remove_rep : forall parent nm s s' u p t x,
  remove_dir_entry parent nm s = (s', Ok u) ->
  nthN (dirs s) parent = Some p -> Rep (dirs s) (d_child p) t ->
  bst (dirs s) t -> NoDup (ids t) -> bst_find (dirs s) nm t = Some x ->
  exists p',
    nthN (dirs s') parent = Some p' /\ same_payload p p' /\
    Rep (dirs s') (d_child p') (bst_remove x t) /\
    bst (dirs s') (bst_remove x t) /\
    NoDup (ids (bst_remove x t)) /\
    ids (bst_remove x t) = remove N.eq_dec x (ids t) /\
    nthN (dirs s') x = Some dirent_unallocated /\
    lenN (dirs s') = lenN (dirs s).
Proof.
  intros parent nm s s' u p t x H Hp HR HB ND HF.
  destruct (remove_core _ _ _ _ _ _ _ _ H Hp HR ND HF)
    as (e & pp & pred & l & r & He & Hc & Hxp & HK & _ & _ & _ & Hds & _ & _ & p' & Hp' & HR').
  assert (forall i ei, i <> x -> nthN (dirs s) i = Some ei ->
            exists e', nthN (dirs s') i = Some e' /\ same_payload ei e') as ST.
  { intros i ei Hix Hei. rewrite Hds.
    destruct (remove_tbl_stable (dirs s) parent (lastN (anc (dirs s) nm t)) x e pp pred i ei Hix Hei)
      as (e2 & He2 & P2 & _). eauto. }
  exists p'. split; [exact Hp'|]. split.
  { destruct (ST parent p) as (p2 & Hp2 & P2); [congruence|exact Hp|]. congruence. }
  split; [exact HR'|]. split.
  { eapply bst_frame; [|apply bst_remove_bst; [exact HB|exact ND]].
    intros j Hj. apply in_bst_remove in Hj; [|exact ND]. destruct Hj as [Hj Hjx].
    eapply stable_nm; [exact ST|exact Hjx|]. eapply rep_ids; eauto. }
  split; [rewrite ids_bst_remove by exact ND; apply nodup_remove; exact ND|].
  split; [apply ids_bst_remove; exact ND|].
  rewrite Hds. split; [apply remove_tbl_x; exact He|apply lenN_remove_tbl].
Qed.

Lemma tree_pred_in2 : forall r i pparent pp pred,
  tree_pred pparent i r = (pp, pred) ->
  (pp = pparent \/ In pp (i :: ids r)) /\ In pred (i :: ids r).
Proof.
  induction r as [|a _ b c IHc]; intros i pparent pp pred H; cbn [tree_pred] in H.
  - injection H as <- <-. split; [left; reflexivity|left; reflexivity].
  - destruct (IHc _ _ _ _ H) as [[P1|P1] P2].
    + subst pp. split; [right; left; reflexivity|]. right. cbn [ids]. apply in_or_app. right. exact P2.
    + split; [right|]; right; cbn [ids]; apply in_or_app; right; assumption.
Qed.

Lemma rep_left_in : forall ds t root j e,
  Rep ds root t -> In j (ids t) -> nthN ds j = Some e -> d_left e <> NO_STREAM ->
  In (d_left e) (ids t).
Proof.
  induction t as [|l IHl i r IHr]; intros root j e HR Hj He Hne; [contradiction|].
  destruct HR as (_ & _ & e0 & He0 & HL & HRr). apply in_node in Hj. apply in_node.
  destruct Hj as [Hj|[->|Hj]].
  - left. eapply IHl; eauto.
  - assert (e0 = e) by congruence. subst e0. left.
    destruct (rep_some _ _ _ HL Hne) as (a & b & ->). apply in_node. right. left. reflexivity.
  - right. right. eapply IHr; eauto.
Qed.

Lemma splice_touched_in : forall ds x e l r pp pred j,
  nthN ds x = Some e -> Rep ds (d_left e) l -> Rep ds (d_right e) r ->
  (d_left e <> NO_STREAM -> d_right e <> NO_STREAM ->
   exists fuel, find_pred fuel ds x (d_left e) = Ok (pp, pred)) ->
  In j (splice_touched ds x e pp pred) -> In j (ids l ++ ids r).
Proof.
  intros ds x e l r pp pred j He HL HR Hfp H. unfold splice_touched, optN in H.
  destruct (N.eqb_spec (d_left e) NO_STREAM) as [El|El]; cbn [orb] in H.
  - destruct (N.eqb_spec (d_right e) NO_STREAM) as [Er|Er]; [contradiction|].
    destruct H as [<-|[]]. destruct (rep_some _ _ _ HR Er) as (a & b & ->).
    apply in_or_app. right. apply in_node. right. left. reflexivity.
  - destruct (rep_some _ _ _ HL El) as (ll & lr & ->).
    destruct (N.eqb_spec (d_right e) NO_STREAM) as [Er|Er]; cbn [orb] in H.
    + destruct (N.eqb_spec (d_left e) NO_STREAM); [contradiction|].
      destruct H as [<-|[]]. apply in_or_app. left. apply in_node. right. left. reflexivity.
    + destruct (Hfp El Er) as [fuel Hf]. apply (find_pred_spec _ _ _ _ _ _ _ _ HL) in Hf.
      destruct (tree_pred_in2 _ _ _ _ _ Hf) as [Ppp Ppred].
      assert (In pred (ids (BN ll (d_left e) lr))) as Ppred'.
      { apply in_node. destruct Ppred as [<-|P]; [right; left; reflexivity|right; right; exact P]. }
      apply in_or_app. left.
      apply in_app_or in H. destruct H as [H|H].
      * destruct (nthN ds pred) as [pe|] eqn:Hpe.
        -- destruct (N.eqb_spec (d_left pe) NO_STREAM) as [Epl|Epl]; [contradiction|].
           destruct H as [<-|[]]. eapply rep_left_in; eauto.
        -- rewrite N.eqb_refl in H. contradiction.
      * apply in_app_or in H. destruct H as [H|[<-|[]]]; [|exact Ppred'].
        destruct (N.eqb_spec pp x) as [Epx|Epx]; [contradiction|]. destruct H as [<-|[]].
        destruct Ppp as [P|P]; [contradiction|]. apply in_node.
        destruct P as [<-|P]; [right; left; reflexivity|right; right; exact P].
Qed.

(* C07: the ids of the surviving entries keep designating the same streams *)
Theorem remove_ids_stable : forall parent nm s s' u p t x,
  remove_dir_entry parent nm s = (s', Ok u) ->
  nthN (dirs s) parent = Some p -> Rep (dirs s) (d_child p) t -> NoDup (ids t) ->
  bst_find (dirs s) nm t = Some x ->
  (forall i e, i <> x -> nthN (dirs s) i = Some e ->
     exists e', nthN (dirs s') i = Some e' /\ same_payload e e' /\
                (i <> parent \/ d_child p <> x -> d_child e' = d_child e)) /\
  (forall i l r, kids (dirs s) nm t = (l, r) -> i <> x ->
     (match lastN (anc (dirs s) nm t) with Some sib => i <> sib | None => i <> parent end) ->
     ~ In i (ids l ++ ids r) -> nthN (dirs s') i = nthN (dirs s) i).
Proof.
  intros parent nm s s' u p t x H Hp HR ND HF.
  destruct (remove_core _ _ _ _ _ _ _ _ H Hp HR ND HF)
    as (e & pp & pred & l & r & He & Hc & Hxp & HK & KR & _ & _ & Hds & Hfp & Hroot & _).
  split.
  - intros i ei Hix Hei. rewrite Hds.
    destruct (remove_tbl_stable (dirs s) parent (lastN (anc (dirs s) nm t)) x e pp pred i ei Hix Hei)
      as (e2 & He2 & P2 & C2).
    exists e2. split; [exact He2|]. split; [exact P2|]. intros [Hi|Hi]; apply C2; [right; exact Hi|].
    left. intros Hn. apply Hi. apply Hroot. exact Hn.
  - intros i l0 r0 HK0 Hix Hsib Hsub. rewrite HK in HK0. injection HK0 as <- <-.
    rewrite Hds. apply remove_tbl_untouched. unfold remove_touched.
    intros [Hc'|[Hc'|Hc']].
    + congruence.
    + destruct (lastN (anc (dirs s) nm t)); congruence.
    + apply Hsub. destruct KR as (_ & _ & e0 & He0 & HLl & HRr).
      assert (e0 = e) by congruence. subst e0.
      eapply splice_touched_in; [exact He|exact HLl|exact HRr| |exact Hc'].
      intros A B. eexists. apply Hfp; assumption.
Qed.

(* the exact set of written slots *)
Theorem remove_untouched_exact : forall parent nm s s' u p t x,
  remove_dir_entry parent nm s = (s', Ok u) ->
  nthN (dirs s) parent = Some p -> Rep (dirs s) (d_child p) t -> NoDup (ids t) ->
  bst_find (dirs s) nm t = Some x ->
  exists e pp pred,
    nthN (dirs s) x = Some e /\
    (d_left e <> NO_STREAM -> d_right e <> NO_STREAM ->
     find_pred (S (length (dirs s))) (dirs s) x (d_left e) = Ok (pp, pred)) /\
    forall i, ~ In i (remove_touched (dirs s) parent (lastN (anc (dirs s) nm t)) x e pp pred) ->
              nthN (dirs s') i = nthN (dirs s) i.
Proof.
  intros parent nm s s' u p t x H Hp HR ND HF.
  destruct (remove_core _ _ _ _ _ _ _ _ H Hp HR ND HF)
    as (e & pp & pred & l & r & He & Hc & Hxp & HK & KR & _ & _ & Hds & Hfp & Hroot & _).
  exists e, pp, pred. split; [exact He|]. split; [exact Hfp|].
  intros i Hi. rewrite Hds. apply remove_tbl_untouched. exact Hi.
Qed.

(* listings stay sorted, minus the removed name *)
Theorem remove_inorder : forall parent nm s s' u p t x,
  remove_dir_entry parent nm s = (s', Ok u) ->
  nthN (dirs s) parent = Some p -> Rep (dirs s) (d_child p) t -> NoDup (ids t) ->
  bst_find (dirs s) nm t = Some x ->
  map (nm_of (dirs s')) (ids (bst_remove x t)) =
  map (nm_of (dirs s)) (remove N.eq_dec x (ids t)).
Proof.
  intros parent nm s s' u p t x H Hp HR ND HF.
  destruct (remove_ids_stable _ _ _ _ _ _ _ _ H Hp HR ND HF) as [ST _].
  rewrite ids_bst_remove by exact ND. apply map_ext_in. intros j Hj.
  apply in_remove in Hj. destruct Hj as [Hj Hjx].
  eapply stable_nm; [|exact Hjx|eapply rep_ids; eauto].
  intros i ei Hix Hei. destruct (ST i ei Hix Hei) as (e' & He' & P & _). eauto.
Qed.

(* every other name is found as before, at the same id; the removed name is gone *)
Theorem remove_lookup : forall parent nm s s' u p t x,
  remove_dir_entry parent nm s = (s', Ok u) ->
  nthN (dirs s) parent = Some p -> Rep (dirs s) (d_child p) t ->
  bst (dirs s) t -> NoDup (ids t) -> bst_find (dirs s) nm t = Some x ->
  exists p', nthN (dirs s') parent = Some p' /\
    forall nm',
      find_in_siblings (S (length (dirs s'))) (dirs s') nm' (d_child p') =
      Ok (match bst_find (dirs s) nm' t with
          | Some y => if y =? x then None else Some y
          | None => None
          end).
Proof.
  intros parent nm s s' u p t x H Hp HR HB ND HF.
  destruct (remove_rep _ _ _ _ _ _ _ _ H Hp HR HB ND HF)
    as (p' & Hp' & _ & HR' & HB' & ND' & Hids & _ & _).
  destruct (remove_ids_stable _ _ _ _ _ _ _ _ H Hp HR ND HF) as [ST _].
  exists p'. split; [exact Hp'|]. intros nm'.
  rewrite (find_in_siblings_total _ nm' _ _ HR' ND'). f_equal.
  assert (forall j, In j (ids (bst_remove x t)) -> nm_of (dirs s') j = nm_of (dirs s) j) as NM.
  { intros j Hj. apply in_bst_remove in Hj; [|exact ND]. destruct Hj as [Hj Hjx].
    eapply stable_nm; [|exact Hjx|eapply rep_ids; eauto].
    intros i ei Hix Hei. destruct (ST i ei Hix Hei) as (e' & He' & P & _). eauto. }
  destruct (bst_find (dirs s) nm' t) as [y|] eqn:Fy.
  - apply bst_find_iff in Fy; [|exact HB]. destruct Fy as [Hy Cy].
    destruct (N.eqb_spec y x) as [Eyx|Eyx].
    + subst y. apply bst_find_none; [exact HB'|]. intros id Hid Cid.
      pose proof Hid as Hid0. apply in_bst_remove in Hid; [|exact ND]. destruct Hid as [Hid Hidx].
      rewrite (NM id Hid0) in Cid.
      assert (bst_find (dirs s) nm' t = Some id) as F1 by (apply bst_find_iff; auto).
      assert (bst_find (dirs s) nm' t = Some x) as F2 by (apply bst_find_iff; auto).
      congruence.
    + apply bst_find_iff; [exact HB'|].
      assert (In y (ids (bst_remove x t))) as Hy' by (apply in_bst_remove; auto).
      split; [exact Hy'|]. rewrite (NM y Hy'). exact Cy.
  - apply bst_find_none; [exact HB'|]. intros id Hid Cid.
    pose proof Hid as Hid0. apply in_bst_remove in Hid; [|exact ND]. destruct Hid as [Hid Hidx].
    rewrite (NM id Hid0) in Cid.
    assert (bst_find (dirs s) nm' t = Some id) as F1 by (apply bst_find_iff; auto).
    congruence.
Qed.

(* ================================================================== *)
(* C. insertion                                                        *)
(* ================================================================== *)

Definition alloc_tbl (ds : list dirent) : list dirent * N :=
  match first_unalloc ds 0 with
  | Some id => (ds, id)
  | None => (ds ++ [dirent_unallocated], lenN ds)
  end.

Definition tbl_link (ds : list dirent) (parent prev : N) (ord : comparison) (id : N) : list dirent :=
  match ord with
  | Lt => modN ds prev (fun pe => set_left pe id)
  | Gt => modN ds prev (fun pe => set_right pe id)
  | Eq => match nthN ds prev with Some pe => updN ds parent (set_child pe id) | None => ds end
  end.

Lemma alloc_proj : forall s s' id,
  allocate_dir_entry s = (s', Ok id) -> (dirs s', id) = alloc_tbl (dirs s).
Proof.
  intros s s' id H. unfold allocate_dir_entry in H. unfold alloc_tbl.
  binv H s0 s1 H1 H2. apply get_inv in H1. destruct H1 as [-> ->].
  destruct (first_unalloc (dirs s) 0) as [i|].
  - apply ret_inv in H2. destruct H2 as [-> ->]. reflexivity.
  - binv H2 u1 s1 H1 H2.
    assert (dirs s1 = dirs s) as E1.
    { eapply frames_run; [|exact H1]. fr. }
    binv H2 s0 s2 H2 H3. apply get_inv in H2. destruct H2 as [-> ->].
    binv H3 u2 s2 H3 H4. unfold put in H3. injection H3 as <-.
    apply ret_inv in H4. destruct H4 as [-> ->]. cbn [dirs w_dirs]. rewrite E1. reflexivity.
Qed.

Lemma insert_proj : forall parent nm ty now s s' id,
  insert_dir_entry parent nm ty now s = (s', Ok id) ->
  exists ds0 p prev ord,
    (ds0, id) = alloc_tbl (dirs s) /\ nthN ds0 id <> None /\
    let ds1 := updN ds0 id (dirent_new nm ty (if objtype_eqb ty TStorage then now else 0)) in
    nthN ds1 parent = Some p /\
    insert_descend (S (length ds1)) ds1 nm (d_child p) parent Eq = Ok (prev, ord) /\
    dirs s' = tbl_link ds1 parent prev ord id.
Proof.
  intros parent nm ty now s s' id H. unfold insert_dir_entry in H.
  binv H id0 s1 H1 H2. apply alloc_proj in H1. cbv zeta in H2.
  binv H2 u1 s2 H2 H3. apply set_dir_entry_inv in H2. destruct H2 as [[old Hold] E2].
  binv H3 p s3 H3 H4. apply dir_entry_inv in H3. destruct H3 as [-> Hp].
  binv H4 s0 s3 H4 H5. apply get_inv in H4. destruct H4 as [-> ->].
  binv H5 a s3 H5 H6. apply lift_inv in H5. destruct H5 as [-> Hd]. destruct a as [prev ord].
  binv H6 pe s3 H6 H7. apply dir_entry_inv in H6. destruct H6 as [-> Hpe].
  binv H7 u2 s3 H7 H8. binv H8 u3 s4 H8 H9. apply ret_inv in H9. destruct H9 as [-> ->].
  apply (frames_run _ _ _ _ _ (frames_write_dir_entry _)) in H8.
  exists (dirs s1), p, prev, ord. split; [exact H1|]. split; [congruence|].
  cbv zeta. rewrite <- E2. split; [exact Hp|]. split; [exact Hd|].
  rewrite H8. unfold tbl_link. destruct ord.
  - binv H7 u4 s5 H7 H9. apply set_dir_entry_inv in H7. destruct H7 as [_ H7].
    apply (frames_run _ _ _ _ _ (frames_write_in_dir_entry _ _ _)) in H9. rewrite Hpe. congruence.
  - binv H7 u4 s5 H7 H9. apply set_dir_entry_inv in H7. destruct H7 as [_ H7].
    apply (frames_run _ _ _ _ _ (frames_write_in_dir_entry _ _ _)) in H9.
    unfold modN. rewrite Hpe. congruence.
  - binv H7 u4 s5 H7 H9. apply set_dir_entry_inv in H7. destruct H7 as [_ H7].
    apply (frames_run _ _ _ _ _ (frames_write_in_dir_entry _ _ _)) in H9.
    unfold modN. rewrite Hpe. congruence.
Qed.

Fixpoint bst_insert (ds : list dirent) (nm : name) (id : N) (t : btree) : btree :=
  match t with
  | BL => BN BL id BL
  | BN l i r =>
    match cmp_names nm (nm_of ds i) with
    | Lt => BN (bst_insert ds nm id l) i r
    | Gt => BN l i (bst_insert ds nm id r)
    | Eq => t
    end
  end.

Fixpoint ins_point (ds : list dirent) (nm : name) (t : btree) (prev : N) (ord : comparison)
  : N * comparison :=
  match t with
  | BL => (prev, ord)
  | BN l i r =>
    match cmp_names nm (nm_of ds i) with
    | Lt => ins_point ds nm l i Lt
    | Gt => ins_point ds nm r i Gt
    | Eq => (prev, ord)
    end
  end.

Lemma insert_descend_spec : forall ds nm t root fuel prev ord,
  Rep ds root t -> bst_find ds nm t = None -> (length (ids t) < fuel)%nat ->
  insert_descend fuel ds nm root prev ord = Ok (ins_point ds nm t prev ord).
Proof.
  induction t as [|l IHl i r IHr]; intros root fuel prev ord HR HF Hf.
  - cbn [Rep] in HR. subst root. destruct fuel; [cbn in Hf; lia|].
    cbn [insert_descend]. rewrite N.eqb_refl. reflexivity.
  - destruct HR as (E & Hne & e & He & HL & HRr). subst root.
    cbn [ids] in Hf. rewrite app_length in Hf. cbn [length] in Hf.
    destruct fuel; [lia|]. cbn [insert_descend].
    destruct (N.eqb_spec i NO_STREAM); [contradiction|].
    unfold dir_entry_of. rewrite He. cbn [rbind ins_point bst_find] in *. unfold nm_of in *. rewrite He in *.
    destruct (cmp_names nm (d_name e)).
    + discriminate HF.
    + apply IHl; [exact HL|exact HF|lia].
    + apply IHr; [exact HRr|exact HF|lia].
Qed.

Lemma in_bst_insert : forall ds nm id t j, bst_find ds nm t = None ->
  (In j (ids (bst_insert ds nm id t)) <-> j = id \/ In j (ids t)).
Proof.
  induction t as [|l IHl i r IHr]; intros j HF; cbn [bst_insert bst_find] in *.
  - cbn. intuition congruence.
  - destruct (cmp_names nm (nm_of ds i)); [discriminate HF| |]; rewrite !in_node.
    + rewrite IHl by exact HF. tauto.
    + rewrite IHr by exact HF. tauto.
Qed.

Lemma perm_bst_insert : forall ds nm id t, bst_find ds nm t = None ->
  Permutation (ids (bst_insert ds nm id t)) (id :: ids t).
Proof.
  induction t as [|l IHl i r IHr]; intros HF; cbn [bst_insert bst_find] in *.
  - apply Permutation_refl.
  - destruct (cmp_names nm (nm_of ds i)); [discriminate HF| |]; cbn [ids].
    + eapply Permutation_trans; [apply Permutation_app_tail; apply IHl; exact HF|]. reflexivity.
    + eapply Permutation_trans; [apply Permutation_app_head; apply perm_skip; apply IHr; exact HF|].
      apply Permutation_sym.
      pose proof (Permutation_middle (ids l ++ [i]) (ids r) id) as P.
      rewrite <- !app_assoc in P. cbn [app] in P. exact P.
Qed.

Lemma bst_find_ext : forall ds ds' nm t,
  (forall j, In j (ids t) -> nm_of ds' j = nm_of ds j) -> bst_find ds' nm t = bst_find ds nm t.
Proof.
  induction t as [|l IHl i r IHr]; intros H; cbn [bst_find]; [reflexivity|].
  rewrite (H i) by (apply in_node; right; left; reflexivity).
  rewrite IHl by (intros j Hj; apply H; apply in_node; left; exact Hj).
  rewrite IHr by (intros j Hj; apply H; apply in_node; right; right; exact Hj). reflexivity.
Qed.

Lemma bst_insert_ext : forall ds ds' nm id t,
  (forall j, In j (ids t) -> nm_of ds' j = nm_of ds j) ->
  bst_insert ds' nm id t = bst_insert ds nm id t.
Proof.
  induction t as [|l IHl i r IHr]; intros H; cbn [bst_insert]; [reflexivity|].
  rewrite (H i) by (apply in_node; right; left; reflexivity).
  rewrite IHl by (intros j Hj; apply H; apply in_node; left; exact Hj).
  rewrite IHr by (intros j Hj; apply H; apply in_node; right; right; exact Hj). reflexivity.
Qed.

Lemma ins_point_ext : forall ds ds' nm t prev ord,
  (forall j, In j (ids t) -> nm_of ds' j = nm_of ds j) ->
  ins_point ds' nm t prev ord = ins_point ds nm t prev ord.
Proof.
  induction t as [|l IHl i r IHr]; intros prev ord H; cbn [ins_point]; [reflexivity|].
  rewrite (H i) by (apply in_node; right; left; reflexivity).
  rewrite IHl by (intros j Hj; apply H; apply in_node; left; exact Hj).
  rewrite IHr by (intros j Hj; apply H; apply in_node; right; right; exact Hj). reflexivity.
Qed.

Lemma bst_insert_bst : forall ds nm id t,
  bst ds t -> bst_find ds nm t = None -> nm_of ds id = nm -> bst ds (bst_insert ds nm id t).
Proof.
  induction t as [|l IHl i r IHr]; intros B HF Hn; cbn [bst_insert bst_find] in *.
  - cbn. repeat split; intros j [].
  - destruct B as (Bl & Br & Lo & Hi).
    destruct (cmp_names nm (nm_of ds i)) eqn:C; [discriminate HF| |]; cbn [bst].
    + split; [apply IHl; assumption|]. split; [exact Br|]. split; [|exact Hi].
      intros j Hj. apply in_bst_insert in Hj; [|exact HF]. destruct Hj as [->|Hj]; [|auto].
      rewrite Hn. exact C.
    + split; [exact Bl|]. split; [apply IHr; assumption|]. split; [exact Lo|].
      intros j Hj. apply in_bst_insert in Hj; [|exact HF]. destruct Hj as [->|Hj]; [|auto].
      rewrite Hn. exact C.
Qed.

Lemma tbl_link_other : forall ds parent prev ord id j,
  ord <> Eq -> j <> prev -> nthN (tbl_link ds parent prev ord id) j = nthN ds j.
Proof.
  intros ds parent prev ord id j Ho Hj. unfold tbl_link.
  destruct ord; [congruence| |]; apply nthN_modN_other; congruence.
Qed.

Lemma btree_case : forall t, t = BL \/ t <> BL.
Proof. intros [|l i r]; [left; reflexivity|right; discriminate]. Qed.

Lemma ins_rep : forall ds parent nm id ei,
  nthN ds id = Some ei -> d_left ei = NO_STREAM -> d_right ei = NO_STREAM -> id <> NO_STREAM ->
  forall t root prev0 ord0 pv od,
  Rep ds root t -> NoDup (ids t) -> bst_find ds nm t = None -> ~ In id (ids t) -> t <> BL ->
  ins_point ds nm t prev0 ord0 = (pv, od) ->
  In pv (ids t) /\ od <> Eq /\ Rep (tbl_link ds parent pv od id) root (bst_insert ds nm id t).
Proof.
  intros ds parent nm id ei Hei Hil Hir Hidne.
  assert (forall ds', nthN ds' id = Some ei -> Rep ds' id (BN BL id BL)) as Leaf.
  { intros ds' H. split; [reflexivity|]. split; [exact Hidne|]. exists ei. split; [exact H|].
    split; [exact Hil|exact Hir]. }
  induction t as [|l IHl i r IHr]; intros root prev0 ord0 pv od HR ND HF Hid Hne HP; [congruence|].
  destruct HR as (E & Hine & e & He & HL & HRr). subst root.
  apply nodup_node in ND. destruct ND as (NDl & NDr & Hnil & Hnir & Hlr).
  rewrite in_node in Hid.
  assert (i <> id) as Hiid by (intros Hc; apply Hid; right; left; symmetry; exact Hc).
  cbn [bst_find ins_point bst_insert] in *.
  destruct (cmp_names nm (nm_of ds i)) eqn:C; [discriminate HF| |].
  - destruct (btree_case l) as [->|Hl].
    + cbn [ins_point] in HP. injection HP as <- <-.
      split; [apply in_node; right; left; reflexivity|]. split; [discriminate|].
      cbn [bst_insert tbl_link].
      split; [reflexivity|]. split; [exact Hine|]. exists (set_left e id).
      split; [exact (nthN_modN_same ds i (fun pe => set_left pe id) e He)|]. split.
      * change (d_left (set_left e id)) with id. apply Leaf.
        rewrite nthN_modN_other by exact Hiid. exact Hei.
      * change (d_right (set_left e id)) with (d_right e).
        eapply rep_frame; [exact HRr|]. intros j Hj. apply nthN_modN_other. intros ->. contradiction.
    + destruct (IHl (d_left e) i Lt pv od HL NDl HF) as (Pin & Pod & PR); [tauto|exact Hl|exact HP|].
      split; [apply in_node; left; exact Pin|]. split; [exact Pod|].
      split; [reflexivity|]. split; [exact Hine|]. exists e.
      split; [rewrite tbl_link_other; [exact He|exact Pod|intros ->; contradiction]|].
      split; [exact PR|].
      eapply rep_frame; [exact HRr|]. intros j Hj. apply tbl_link_other; [exact Pod|].
      intros ->. exact (Hlr _ Pin Hj).
  - destruct (btree_case r) as [->|Hr].
    + cbn [ins_point] in HP. injection HP as <- <-.
      split; [apply in_node; right; left; reflexivity|]. split; [discriminate|].
      cbn [bst_insert tbl_link].
      split; [reflexivity|]. split; [exact Hine|]. exists (set_right e id).
      split; [exact (nthN_modN_same ds i (fun pe => set_right pe id) e He)|]. split.
      * change (d_left (set_right e id)) with (d_left e).
        eapply rep_frame; [exact HL|]. intros j Hj. apply nthN_modN_other. intros ->. contradiction.
      * change (d_right (set_right e id)) with id. apply Leaf.
        rewrite nthN_modN_other by exact Hiid. exact Hei.
    + destruct (IHr (d_right e) i Gt pv od HRr NDr HF) as (Pin & Pod & PR); [tauto|exact Hr|exact HP|].
      split; [apply in_node; right; right; exact Pin|]. split; [exact Pod|].
      split; [reflexivity|]. split; [exact Hine|]. exists e.
      split; [rewrite tbl_link_other; [exact He|exact Pod|intros ->; contradiction]|].
      split; [|exact PR].
      eapply rep_frame; [exact HL|]. intros j Hj. apply tbl_link_other; [exact Pod|].
      intros ->. exact (Hlr _ Hj Pin).
Qed.

Lemma tbl_link_stable : forall ds parent pv od id p j e,
  nthN ds parent = Some p -> (od = Eq -> pv = parent) -> nthN ds j = Some e ->
  exists e', nthN (tbl_link ds parent pv od id) j = Some e' /\ same_payload e e' /\
             d_color e' = d_color e /\ (od <> Eq \/ j <> parent -> d_child e' = d_child e).
Proof.
  intros ds parent pv od id p j e Hp Hod He. unfold tbl_link. destruct od.
  - rewrite (Hod eq_refl), Hp. destruct (N.eqb_spec parent j) as [E|E].
    + subst j. assert (e = p) by congruence. subst e. exists (set_child p id).
      split; [apply nthN_updN_same; eapply nthN_Some_lt; eauto|].
      split; [unfold same_payload; repeat split; reflexivity|]. split; [reflexivity|].
      intros [H|H]; congruence.
    + exists e. rewrite nthN_updN_other by exact E. split; [exact He|].
      split; [unfold same_payload; repeat split; reflexivity|]. auto.
  - rewrite nthN_modN. destruct (pv =? j).
    + rewrite He. cbn [option_map]. eexists. split; [reflexivity|].
      split; [unfold same_payload; repeat split; reflexivity|]. split; [reflexivity|]. intros _. reflexivity.
    + exists e. split; [exact He|]. split; [unfold same_payload; repeat split; reflexivity|]. auto.
  - rewrite nthN_modN. destruct (pv =? j).
    + rewrite He. cbn [option_map]. eexists. split; [reflexivity|].
      split; [unfold same_payload; repeat split; reflexivity|]. split; [reflexivity|]. intros _. reflexivity.
    + exists e. split; [exact He|]. split; [unfold same_payload; repeat split; reflexivity|]. auto.
Qed.

Lemma alloc_old : forall ds ds0 id, (ds0, id) = alloc_tbl ds ->
  forall i, i < lenN ds -> nthN ds0 i = nthN ds i.
Proof.
  intros ds ds0 id H i Hi. unfold alloc_tbl in H. destruct (first_unalloc ds 0).
  - injection H as -> _. reflexivity.
  - injection H as -> _. apply nthN_app_l. exact Hi.
Qed.

Theorem insert_rep : forall parent nm ty now s s' id p t,
  insert_dir_entry parent nm ty now s = (s', Ok id) ->
  nthN (dirs s) parent = Some p -> Rep (dirs s) (d_child p) t ->
  bst (dirs s) t -> NoDup (ids t) -> bst_find (dirs s) nm t = None ->
  ~ In id (ids t) -> id <> parent -> id <> NO_STREAM ->
  let t' := bst_insert (dirs s) nm id t in
  let at_ := fst (ins_point (dirs s) nm t parent Eq) in
  exists p',
    nthN (dirs s') parent = Some p' /\ same_payload p p' /\
    Rep (dirs s') (d_child p') t' /\ bst (dirs s') t' /\ NoDup (ids t') /\
    Permutation (ids t') (id :: ids t) /\
    nthN (dirs s') id = Some (dirent_new nm ty (if objtype_eqb ty TStorage then now else 0)) /\
    (forall i e, i <> id -> nthN (dirs s) i = Some e ->
       exists e', nthN (dirs s') i = Some e' /\ same_payload e e' /\ d_color e' = d_color e /\
                  (i <> parent -> d_child e' = d_child e)) /\
    (forall i, i <> id -> i <> at_ -> i < lenN (dirs s) -> nthN (dirs s') i = nthN (dirs s) i).
Proof.
  intros parent nm ty now s s' id p t H Hp HR HB ND HF Hid Hidp Hidne t' at_.
  destruct (insert_proj _ _ _ _ _ _ _ H) as (ds0 & p1 & prev & ord & Hal & Hid0 & Hrest).
  set (ds := dirs s) in *.
  set (new := dirent_new nm ty (if objtype_eqb ty TStorage then now else 0)) in *.
  set (ds1 := updN ds0 id new) in *. cbv zeta in Hrest. destruct Hrest as (Hp1 & Hd & Hds).
  assert (id < lenN ds0) as Hidlt.
  { destruct (nthN ds0 id) eqn:E; [eapply nthN_Some_lt; eauto|congruence]. }
  assert (forall i, i <> id -> i < lenN ds -> nthN ds1 i = nthN ds i) as A.
  { intros i Hi Hlt. unfold ds1. rewrite nthN_updN_other by congruence. eapply alloc_old; eauto. }
  assert (nthN ds1 id = Some new) as Hnew by (apply nthN_updN_same; exact Hidlt).
  assert (forall j, In j (ids t) -> j <> id /\ j < lenN ds) as Tin.
  { intros j Hj. split; [intros ->; contradiction|]. eapply rep_ids; eauto. }
  assert (parent < lenN ds) as Hplt by (eapply nthN_Some_lt; eauto).
  assert (p1 = p) by (rewrite A in Hp1 by auto; congruence). subst p1.
  assert (Rep ds1 (d_child p) t) as HR1.
  { eapply rep_frame; [exact HR|]. intros j Hj. apply A; apply Tin; exact Hj. }
  assert (forall j, In j (ids t) -> nm_of ds1 j = nm_of ds j) as NM1.
  { intros j Hj. unfold nm_of. rewrite A by (apply Tin; exact Hj). reflexivity. }
  assert (bst_find ds1 nm t = None) as HF1 by (rewrite (bst_find_ext ds ds1) by exact NM1; exact HF).
  rewrite (insert_descend_spec ds1 nm t (d_child p) _ parent Eq HR1 HF1) in Hd.
  2: { pose proof (rep_length _ _ _ HR1 ND). lia. }
  injection Hd as Hd. rewrite (ins_point_ext ds ds1) in Hd by exact NM1.
  assert (at_ = prev) as Hat by (unfold at_; fold ds; rewrite Hd; reflexivity).
  assert (t' = bst_insert ds1 nm id t) as Ht' by (unfold t'; symmetry; apply bst_insert_ext; exact NM1).
  assert (bst ds1 t) as HB1 by (eapply bst_frame; [exact NM1|exact HB]).
  assert (nm_of ds1 id = nm) as Hnmid by (unfold nm_of; rewrite Hnew; reflexivity).
  assert (Permutation (ids t') (id :: ids t)) as Perm by (rewrite Ht'; apply perm_bst_insert; exact HF1).
  assert (ord = Eq -> prev = parent) as Hod.
  { intros ->. destruct (btree_case t) as [->|Hne].
    - cbn [ins_point] in Hd. congruence.
    - destruct (ins_rep ds1 parent nm id new Hnew eq_refl eq_refl Hidne t (d_child p) parent Eq prev Eq
                  HR1 ND HF1 Hid Hne) as (_ & Hc & _); [rewrite <- Hd; apply ins_point_ext; exact NM1|congruence]. }
  assert (forall j e, nthN ds1 j = Some e ->
            exists e', nthN (dirs s') j = Some e' /\ same_payload e e' /\ d_color e' = d_color e /\
                       (ord <> Eq \/ j <> parent -> d_child e' = d_child e)) as ST.
  { intros j e He. rewrite Hds. eapply tbl_link_stable; eauto. }
  assert (forall j, nm_of (dirs s') j = nm_of ds1 j) as NM2.
  { intros j. unfold nm_of. destruct (nthN ds1 j) as [e|] eqn:E.
    - destruct (ST j e E) as (e' & He' & P & _). rewrite He'. apply P.
    - assert (lenN (dirs s') = lenN ds1) as L.
      { rewrite Hds. unfold tbl_link. destruct ord; rewrite ?lenN_modN; try reflexivity.
        destruct (nthN ds1 prev); [apply lenN_updN|reflexivity]. }
      apply nthN_None_ge in E. rewrite <- L in E.
      destruct (nthN (dirs s') j) eqn:E'; [|reflexivity]. apply nthN_Some_lt in E'. lia. }
  assert (exists p', nthN (dirs s') parent = Some p' /\ Rep (dirs s') (d_child p') t' /\
                     nthN (dirs s') id = Some new) as Main.
  { rewrite Ht'. destruct (btree_case t) as [->|Hne].
    - cbn [ins_point] in Hd. injection Hd as <- <-.
      rewrite Hds. unfold tbl_link. rewrite A by auto. fold ds. rewrite Hp.
      exists (set_child p id). split; [apply nthN_updN_same; eapply nthN_Some_lt; exact Hp1|].
      assert (nthN (updN ds1 parent (set_child p id)) id = Some new) as Hn2
        by (rewrite nthN_updN_other by congruence; exact Hnew).
      split; [|exact Hn2].
      change (d_child (set_child p id)) with id. cbn [bst_insert].
      split; [reflexivity|]. split; [exact Hidne|]. exists new. split; [exact Hn2|].
      split; reflexivity.
    - destruct (ins_rep ds1 parent nm id new Hnew eq_refl eq_refl Hidne t (d_child p) parent Eq prev ord
                  HR1 ND HF1 Hid Hne) as (Pin & Pod & PR); [rewrite <- Hd; apply ins_point_ext; exact NM1|].
      assert (nthN ds1 parent = Some p) as Hp1' by (rewrite A by auto; exact Hp).
      destruct (ST parent p Hp1') as (p' & Hp' & _ & _ & Cp').
      exists p'. split; [exact Hp'|]. rewrite Cp' by (left; exact Pod).
      rewrite Hds. split; [exact PR|]. rewrite tbl_link_other; [exact Hnew|exact Pod|].
      intros ->. contradiction. }
  destruct Main as (p' & Hp' & HR' & Hn').
  exists p'. split; [exact Hp'|]. split.
  { assert (nthN ds1 parent = Some p) as Hp1' by (rewrite A by auto; exact Hp).
    destruct (ST parent p Hp1') as (p2 & Hp2 & P2 & _). congruence. }
  split; [exact HR'|]. split.
  { rewrite Ht'. eapply bst_frame; [intros j _; apply NM2|].
    apply bst_insert_bst; assumption. }
  split.
  { eapply Permutation_NoDup; [apply Permutation_sym; exact Perm|].
    apply NoDup_cons_iff. split; assumption. }
  split; [exact Perm|]. split; [exact Hn'|]. split.
  - intros i e Hi He. assert (i < lenN ds) as Hlt by (eapply nthN_Some_lt; eauto).
    rewrite <- A in He by assumption.
    destruct (ST i e He) as (e' & He' & P & C & Ch). exists e'. repeat (split; [assumption|]).
    intros Hip. apply Ch. right. exact Hip.
  - intros i Hi Hat' Hlt. rewrite Hat in Hat'. rewrite <- A by assumption. rewrite Hds.
    unfold tbl_link. destruct ord.
    + rewrite (Hod eq_refl) in *. destruct (nthN ds1 parent); [|reflexivity].
      apply nthN_updN_other. congruence.
    + apply nthN_modN_other. congruence.
    + apply nthN_modN_other. congruence.
Qed.

(* the slot chosen by the allocator is unallocated or new: under the usual
   typing of the table the side conditions of insert_rep hold *)
Lemma first_unalloc_spec : forall ds k id, first_unalloc ds k = Some id ->
  k <= id /\ exists e, nthN ds (id - k) = Some e /\ d_type e = TUnalloc.
Proof.
  induction ds as [|e t IH]; intros k id H; cbn [first_unalloc] in H; [discriminate|].
  destruct (objtype_eqb (d_type e) TUnalloc) eqn:T.
  - injection H as <-. split; [lia|]. exists e. rewrite N.sub_diag. split; [reflexivity|].
    destruct (d_type e); try discriminate T; reflexivity.
  - apply IH in H. destruct H as (Hk & e' & He' & Ht). split; [lia|]. exists e'. split; [|exact Ht].
    cbn [nthN]. destruct (N.eqb_spec (id - k) 0); [lia|].
    replace (N.pred (id - k)) with (id - (k + 1)) by lia. exact He'.
Qed.

Lemma alloc_fresh : forall ds ds0 id, (ds0, id) = alloc_tbl ds ->
  (exists e, nthN ds id = Some e /\ d_type e = TUnalloc) \/ id = lenN ds.
Proof.
  intros ds ds0 id H. unfold alloc_tbl in H. destruct (first_unalloc ds 0) as [i|] eqn:F.
  - injection H as _ ->. apply first_unalloc_spec in F. rewrite N.sub_0_r in F. left. tauto.
  - injection H as _ ->. right. reflexivity.
Qed.

Theorem insert_fresh : forall parent nm ty now s s' id p t,
  insert_dir_entry parent nm ty now s = (s', Ok id) ->
  nthN (dirs s) parent = Some p -> Rep (dirs s) (d_child p) t ->
  d_type p <> TUnalloc ->
  (forall j e, In j (ids t) -> nthN (dirs s) j = Some e -> d_type e <> TUnalloc) ->
  lenN (dirs s) < NO_STREAM ->
  ~ In id (ids t) /\ id <> parent /\ id <> NO_STREAM.
Proof.
  intros parent nm ty now s s' id p t H Hp HR Tp Tt Hlen.
  destruct (insert_proj _ _ _ _ _ _ _ H) as (ds0 & p1 & prev & ord & Hal & _).
  destruct (alloc_fresh _ _ _ Hal) as [(e & He & Te)|Hid].
  - split; [|split].
    + intros Hc. exact (Tt id e Hc He Te).
    + intros ->. congruence.
    + apply nthN_Some_lt in He. lia.
  - split; [|split].
    + intros Hc. destruct (rep_ids _ _ _ HR id Hc) as [_ Hlt]. lia.
    + intros ->. apply nthN_Some_lt in Hp. lia.
    + lia.
Qed.

(* ================================================================== *)
(* E. listing: the non-recursive iterator walks ids t in order         *)
(* ================================================================== *)
From Cfb.model Require Cfb.

(* the entry the iterator yields for id i under the path [par] *)
Definition ent (ds : list dirent) (par : list N) (i : N) : Cfb.entry :=
  match nthN ds i with
  | Some e => Cfb.entry_of e (if objtype_eqb (d_type e) TRoot then par else path_join par (d_name e))
  | None => Cfb.entry_of dirent_unallocated par
  end.

(* abstract stack: pending node with the tree of its right link *)
Definition sgood (ds : list dirent) (it : N * btree) : Prop :=
  exists e, nthN ds (fst it) = Some e /\ Rep ds (d_right e) (snd it) /\ NoDup (ids (snd it)).
Definition sout (st : list (N * btree)) : list N := flat_map (fun it => fst it :: ids (snd it)) st.
Definition sconc (par : list N) (st : list (N * btree)) : list (list N * N * bool) :=
  map (fun it => (par, fst it, true)) st.

Fixpoint spine_pairs (t : btree) : list (N * btree) :=
  match t with BL => [] | BN l i r => spine_pairs l ++ [(i, r)] end.

Lemma sout_app : forall a b, sout (a ++ b) = sout a ++ sout b.
Proof. intros. unfold sout. apply flat_map_app. Qed.

Lemma sout_spine : forall t, sout (spine_pairs t) = ids t.
Proof.
  induction t as [|l IHl i r IHr]; [reflexivity|]. cbn [spine_pairs ids].
  rewrite sout_app, IHl. cbn. rewrite app_nil_r. reflexivity.
Qed.

Lemma left_spine_spec : forall ds par t root fuel st,
  Rep ds root t -> NoDup (ids t) -> (length (ids t) < fuel)%nat ->
  Cfb.left_spine fuel ds par root (sconc par st) = Ok (sconc par (spine_pairs t ++ st)) /\
  Forall (sgood ds) (spine_pairs t).
Proof.
  induction t as [|l IHl i r IHr]; intros root fuel st HR ND Hf.
  - cbn [Rep] in HR. subst root. destruct fuel; [cbn in Hf; lia|].
    cbn [Cfb.left_spine]. rewrite N.eqb_refl. split; [reflexivity|constructor].
  - destruct HR as (E & Hne & e & He & HL & HRr). subst root.
    apply nodup_node in ND. destruct ND as (NDl & NDr & _).
    cbn [ids] in Hf. rewrite app_length in Hf. cbn [length] in Hf.
    destruct fuel; [lia|]. cbn [Cfb.left_spine].
    destruct (N.eqb_spec i NO_STREAM); [contradiction|].
    unfold dir_entry_of. rewrite He. cbn [rbind].
    destruct (IHl (d_left e) fuel ((i, r) :: st) HL NDl) as [I1 I2]; [lia|].
    cbn [spine_pairs]. split.
    + change ((par, i, true) :: sconc par st) with (sconc par ((i, r) :: st)).
      rewrite I1. rewrite <- app_assoc. reflexivity.
    + apply Forall_app. split; [exact I2|]. constructor; [|constructor].
      exists e. cbn [fst snd]. auto.
Qed.

Lemma entries_go_spec : forall ds par fuel st acc,
  Forall (sgood ds) st -> (length (sout st) < fuel)%nat ->
  Cfb.entries_go fuel ds Cfb.Nonrecursive (sconc par st) acc =
  Ok (rev acc ++ map (ent ds par) (sout st)).
Proof.
  induction fuel as [|f IH]; intros st acc G Hf; [lia|].
  destruct st as [|[i r] rest].
  - cbn. rewrite app_nil_r. reflexivity.
  - apply Forall_cons_iff in G. destruct G as [(e & He & HRr & NDr) G]. cbn [fst snd] in *.
    cbn [sconc map Cfb.entries_go fst snd].
    unfold dir_entry_of. rewrite He. cbn [rbind].
    change (map (fun it : N * btree => (par, fst it, true)) rest) with (sconc par rest).
    destruct (left_spine_spec ds par r (d_right e) (S (length ds)) rest HRr NDr) as [L1 L2].
    { pose proof (rep_length _ _ _ HRr NDr). lia. }
    rewrite L1. cbn [rbind].
    assert (length (sout ((i, r) :: rest)) = S (length (sout (spine_pairs r ++ rest)))) as Hlen.
    { rewrite sout_app, sout_spine. cbn [sout flat_map fst snd]. cbn [length app].
      rewrite !app_length. reflexivity. }
    rewrite IH; [|apply Forall_app; split; assumption|lia].
    rewrite sout_app, sout_spine. cbn [rev sout flat_map fst snd map app].
    rewrite <- app_assoc. cbn [app]. unfold ent at 2. rewrite He. reflexivity.
Qed.

Theorem entries_nonrec_inorder : forall ds par root t,
  Rep ds root t -> NoDup (ids t) ->
  Cfb.entries_collect ds Cfb.Nonrecursive par root = Ok (map (ent ds par) (ids t)).
Proof.
  intros ds par root t HR ND. unfold Cfb.entries_collect.
  pose proof (rep_length _ _ _ HR ND) as Hlen.
  destruct (left_spine_spec ds par t root (S (length ds)) [] HR ND) as [L1 L2]; [lia|].
  change (@nil (list N * N * bool)) with (sconc par []) at 1.
  rewrite L1. cbn [rbind]. rewrite app_nil_r.
  rewrite entries_go_spec; [|exact L2|rewrite sout_spine; lia].
  rewrite sout_spine. reflexivity.
Qed.

(* for entries that are not of root type the yielded path is parent/name *)
Corollary ent_nonroot : forall ds par i e,
  nthN ds i = Some e -> d_type e <> TRoot ->
  ent ds par i = Cfb.entry_of e (path_join par (d_name e)).
Proof.
  intros ds par i e He Ht. unfold ent. rewrite He.
  destruct (d_type e); try reflexivity. congruence.
Qed.

(* ================================================================== *)
(* D'. removal keeps "no red node has a red child"                     *)
(* ================================================================== *)

Definition col (ds : list dirent) (i : N) : color :=
  match nthN ds i with Some e => d_color e | None => Black end.
Definition root_col (ds : list dirent) (t : btree) : color :=
  match t with BL => Black | BN _ i _ => col ds i end.
Fixpoint no_rr (ds : list dirent) (t : btree) : Prop :=
  match t with
  | BL => True
  | BN l i r =>
    no_rr ds l /\ no_rr ds r /\
    (col ds i = Red -> root_col ds l = Black /\ root_col ds r = Black)
  end.

Lemma root_in : forall t, match t with BL => True | BN _ i _ => In i (ids t) end.
Proof. intros [|l i r]; [exact I|]. apply in_node. right. left. reflexivity. Qed.

Lemma root_col_frame : forall ds ds' t,
  (forall j, In j (ids t) -> col ds' j = col ds j) -> root_col ds' t = root_col ds t.
Proof.
  intros ds ds' [|l i r] H; [reflexivity|]. cbn [root_col]. apply H. apply (root_in (BN l i r)).
Qed.

Lemma no_rr_frame : forall ds ds' t,
  (forall j, In j (ids t) -> col ds' j = col ds j) -> no_rr ds t -> no_rr ds' t.
Proof.
  induction t as [|l IHl i r IHr]; intros H N; [exact I|].
  destruct N as (Nl & Nr & Nc). cbn [no_rr].
  assert (forall j, In j (ids l) -> col ds' j = col ds j) as Hl
    by (intros j Hj; apply H; apply in_node; left; exact Hj).
  assert (forall j, In j (ids r) -> col ds' j = col ds j) as Hr
    by (intros j Hj; apply H; apply in_node; right; right; exact Hj).
  split; [apply IHl; assumption|]. split; [apply IHr; assumption|].
  rewrite (H i) by (apply in_node; right; left; reflexivity).
  rewrite (root_col_frame ds ds' l Hl), (root_col_frame ds ds' r Hr). exact Nc.
Qed.

(* colours are kept except that the root becomes black *)
Lemma no_rr_blacken : forall ds ds' t,
  NoDup (ids t) -> no_rr ds t ->
  (forall j, In j (ids t) -> match t with BN _ c _ => j <> c | BL => True end -> col ds' j = col ds j) ->
  root_col ds' t = Black -> no_rr ds' t.
Proof.
  intros ds ds' [|a c b] ND N H Hb; [exact I|].
  apply nodup_node in ND. destruct ND as (_ & _ & Hca & Hcb & _).
  destruct N as (Na & Nb & _). cbn [no_rr root_col] in *. split; [|split].
  - eapply no_rr_frame; [|exact Na]. intros j Hj. apply H; [apply in_node; left; exact Hj|].
    intros ->. contradiction.
  - eapply no_rr_frame; [|exact Nb]. intros j Hj. apply H; [apply in_node; right; right; exact Hj|].
    intros ->. contradiction.
  - rewrite Hb. discriminate.
Qed.

Lemma col_modN_keep : forall ds k f j,
  (forall e, d_color (f e) = d_color e) -> col (modN ds k f) j = col ds j.
Proof.
  intros ds k f j H. unfold col. rewrite nthN_modN. destruct (k =? j); [|reflexivity].
  destruct (nthN ds j); cbn [option_map]; [apply H|reflexivity].
Qed.

Lemma col_modN_other : forall ds k f j, k <> j -> col (modN ds k f) j = col ds j.
Proof. intros. unfold col. rewrite nthN_modN_other by assumption. reflexivity. Qed.

Lemma col_modN_set : forall ds k f c,
  nthN ds k <> None -> (forall e, d_color (f e) = c) -> col (modN ds k f) k = c.
Proof.
  intros ds k f c Hk H. unfold col. destruct (nthN ds k) as [e|] eqn:E; [|congruence].
  erewrite nthN_modN_same by eauto. apply H.
Qed.

Lemma col_updN_other : forall ds k v j, k <> j -> col (updN ds k v) j = col ds j.
Proof. intros. unfold col. rewrite nthN_updN_other by assumption. reflexivity. Qed.

Lemma col_recolor_other : forall ds c j, c <> j -> col (recolor_black ds c) j = col ds j.
Proof.
  intros. unfold recolor_black. destruct (c =? NO_STREAM); [reflexivity|]. apply col_modN_other. assumption.
Qed.

Lemma col_recolor_same : forall ds c, c <> NO_STREAM -> col (recolor_black ds c) c = Black.
Proof.
  intros ds c Hc. unfold recolor_black. destruct (N.eqb_spec c NO_STREAM); [contradiction|].
  destruct (nthN ds c) as [e|] eqn:E.
  - apply col_modN_set; [congruence|reflexivity].
  - unfold modN. rewrite E. unfold col. rewrite E. reflexivity.
Qed.

Lemma col_relink : forall ds parent sibo x repl j, col (relink ds parent sibo x repl) j = col ds j.
Proof.
  intros. unfold relink. destruct sibo; apply col_modN_keep; intros e.
  - destruct (d_left e =? x); reflexivity.
  - reflexivity.
Qed.

Lemma remove_tbl_col1 : forall ds parent sibo x e pp pred,
  (d_left e =? NO_STREAM) || (d_right e =? NO_STREAM) = true ->
  let c := if d_left e =? NO_STREAM then d_right e else d_left e in
  let ds' := remove_tbl ds parent sibo x e pp pred in
  (forall j, j <> x -> j <> c -> col ds' j = col ds j) /\
  (c <> NO_STREAM -> c <> x -> col ds' c = Black).
Proof.
  intros ds parent sibo x e pp pred C c ds'. subst ds'. unfold remove_tbl, splice_tbl. cbv zeta.
  rewrite C. fold c. split.
  - intros j Hx Hc. rewrite col_updN_other by congruence. rewrite col_relink.
    apply col_recolor_other. congruence.
  - intros Hc Hx. rewrite col_updN_other by congruence. rewrite col_relink.
    apply col_recolor_same. exact Hc.
Qed.

Lemma remove_tbl_col2 : forall ds parent sibo x e pp pred,
  (d_left e =? NO_STREAM) || (d_right e =? NO_STREAM) = false ->
  let pl := match nthN ds pred with Some pe => d_left pe | None => NO_STREAM end in
  let ds' := remove_tbl ds parent sibo x e pp pred in
  (forall j, j <> x -> j <> pl -> j <> pred -> col ds' j = col ds j) /\
  (pred <> x -> nthN ds pred <> None -> col ds' pred = d_color e) /\
  (pl <> NO_STREAM -> pl <> x -> pl <> pred -> col ds' pl = Black).
Proof.
  intros ds parent sibo x e pp pred C pl ds'. subst ds'. unfold remove_tbl, splice_tbl. cbv zeta.
  rewrite C. fold pl.
  set (ds1 := recolor_black ds pl).
  set (ds2 := if pp =? x then ds1
              else modN (modN ds1 pp (fun ppe => set_right ppe pl)) pred
                     (fun pe' => set_left pe' (d_left e))).
  assert (forall j, col ds2 j = col ds1 j) as C2.
  { intros j. unfold ds2. destruct (pp =? x); [reflexivity|].
    rewrite col_modN_keep by reflexivity. apply col_modN_keep. reflexivity. }
  assert (lenN ds2 = lenN ds) as L2.
  { unfold ds2. destruct (pp =? x); rewrite ?lenN_modN; apply lenN_recolor. }
  split; [|split].
  - intros j Hx Hpl Hpred. rewrite col_updN_other by congruence. rewrite col_relink.
    rewrite col_modN_other by congruence. rewrite C2. apply col_recolor_other. congruence.
  - intros Hx Hex. rewrite col_updN_other by congruence. rewrite col_relink.
    apply col_modN_set; [|reflexivity].
    destruct (nthN ds pred) as [pe|] eqn:E; [|congruence].
    apply nthN_Some_lt in E. rewrite <- L2 in E. destruct (nthN_lt_Some _ _ _ E) as [e2 He2]. congruence.
  - intros Hne Hx Hpred. rewrite col_updN_other by congruence. rewrite col_relink.
    rewrite col_modN_other by congruence. rewrite C2. apply col_recolor_same. exact Hne.
Qed.

Lemma pred_left_in : forall ds ll li lr pparent pp pred pe,
  Rep ds li (BN ll li lr) -> lr <> BL -> tree_pred pparent li lr = (pp, pred) ->
  nthN ds pred = Some pe -> d_left pe <> NO_STREAM -> In (d_left pe) (ids lr).
Proof.
  intros ds ll li lr pparent pp pred pe HR Hne HP Hpe Hl.
  destruct HR as (_ & _ & e & He & _ & HRr).
  destruct (tree_pred_in lr li pparent pp pred Hne HP) as [_ Ppred].
  eapply rep_left_in; eauto.
Qed.

Lemma split_max_norr : forall ds ds' pl lr ll li pparent pp pred,
  Rep ds li (BN ll li lr) -> NoDup (ids (BN ll li lr)) -> lr <> BL ->
  tree_pred pparent li lr = (pp, pred) -> no_rr ds (BN ll li lr) ->
  (forall pe, nthN ds pred = Some pe -> d_left pe = pl) ->
  (forall j, In j (ids (BN ll li lr)) -> j <> pl -> j <> pred -> col ds' j = col ds j) ->
  (pl <> NO_STREAM -> col ds' pl = Black) ->
  no_rr ds' (fst (split_max ll li lr)) /\ root_col ds' (fst (split_max ll li lr)) = col ds li.
Proof.
  intros ds ds' pl. induction lr as [|a _ b c IHc];
    intros ll li pparent pp pred HR ND Hne HP NR Kpred Kc Kpl; [congruence|].
  pose proof HR as HR0.
  cbn [tree_pred] in HP.
  destruct HR as (_ & Hine & e & He & HL & HRr).
  pose proof HRr as HRr0.
  destruct HRr as (Eb & Hbne & eb & Heb & HLa & HRc).
  pose proof ND as ND0.
  apply nodup_node in ND. destruct ND as (NDl & NDr & Hil & Hir & Hlr).
  pose proof NDr as NDr0. apply nodup_node in NDr. destruct NDr as (NDa & NDc & Hba & Hbc & Hac).
  destruct NR as (NRl & NRr & NRc). pose proof NRr as NRr0. destruct NRr as (NRa & NRcc & NRb).
  (* where pl lives *)
  assert (pl <> NO_STREAM -> In pl (ids (BN a b c))) as Plin.
  { intros Hpl. destruct (tree_pred_in (BN a b c) li pparent pp pred) as [_ Ppred]; [discriminate|exact HP|].
    destruct (rep_ids _ _ _ HRr0 pred Ppred) as [_ Hlt].
    destruct (nthN_lt_Some _ _ _ Hlt) as [pe Hpe].
    rewrite <- (Kpred pe Hpe) in *.
    eapply (pred_left_in ds ll li (BN a b c) pparent pp pred); eauto; discriminate. }
  assert (In pred (ids (BN a b c))) as Ppred0.
  { destruct (tree_pred_in (BN a b c) li pparent pp pred) as [_ P]; [discriminate|exact HP|exact P]. }
  assert (forall j, In j (ids ll) -> col ds' j = col ds j) as Cll.
  { intros j Hj. apply Kc; [apply in_node; left; exact Hj| |].
    - intros ->. destruct (N.eq_dec pl NO_STREAM) as [E|E].
      + destruct (rep_ids _ _ _ HL pl Hj) as [Hc _]. contradiction.
      + exact (Hlr _ Hj (Plin E)).
    - intros ->. exact (Hlr _ Hj Ppred0). }
  assert (col ds' li = col ds li) as Cli.
  { apply Kc; [apply in_node; right; left; reflexivity| |].
    - intros ->. destruct (N.eq_dec pl NO_STREAM) as [E|E]; [congruence|]. exact (Hir (Plin E)).
    - intros ->. exact (Hir Ppred0). }
  destruct c as [|c1 c2 c3].
  - cbn [tree_pred] in HP. injection HP as <- <-. cbn [split_max fst snd root_col]. split; [|exact Cli].
    assert (d_left eb = pl) as Epl by (apply Kpred; exact Heb).
    assert (no_rr ds' a /\ root_col ds' a = Black) as [NA RA].
    { destruct a as [|a1 a2 a3]; [split; [exact I|reflexivity]|].
      destruct HLa as (Ea & Hane & _). rewrite Epl in Ea. subst a2.
      assert (col ds' pl = Black) as Hb by (apply Kpl; exact Hane).
      split; [|exact Hb]. apply (no_rr_blacken ds ds'); [exact NDa|exact NRa| |exact Hb].
      intros j Hj Hjne. apply Kc; [apply in_node; right; right; apply in_node; left; exact Hj|exact Hjne|].
      intros ->. contradiction. }
    cbn [no_rr]. split; [eapply no_rr_frame; [exact Cll|exact NRl]|]. split; [exact NA|].
    rewrite Cli. intros Hred. destruct (NRc Hred) as [B1 _]. split; [|exact RA].
    rewrite (root_col_frame ds ds' ll Cll). exact B1.
  - assert (Rep ds b (BN a b (BN c1 c2 c3))) as HRb.
    { split; [reflexivity|]. split; [exact Hbne|]. exists eb. split; [exact Heb|]. split; [exact HLa|exact HRc]. }
    destruct (IHc a b li pp pred HRb NDr0) as [IH1 IH2]; [discriminate|exact HP|exact NRr0|exact Kpred| |exact Kpl|].
    { intros j Hj. apply Kc. apply in_node. right. right. exact Hj. }
    change (split_max ll li (BN a b (BN c1 c2 c3)))
      with (let (r', m) := split_max a b (BN c1 c2 c3) in (BN ll li r', m)).
    destruct (split_max a b (BN c1 c2 c3)) as [r' m]. cbn [fst snd] in *.
    cbn [root_col]. split; [|exact Cli].
    cbn [no_rr]. split; [eapply no_rr_frame; [exact Cll|exact NRl]|]. split; [exact IH1|].
    rewrite Cli. intros Hred. destruct (NRc Hred) as [B1 B2]. split.
    + rewrite (root_col_frame ds ds' ll Cll). exact B1.
    + rewrite IH2. exact B2.
Qed.

Lemma kids_norr : forall ds nm x l r t,
  no_rr ds t -> bst_find ds nm t = Some x -> kids ds nm t = (l, r) -> no_rr ds (BN l x r).
Proof.
  intros ds nm x l r. induction t as [|tl IHl i tr IHr]; intros NR HF HK; [discriminate HF|].
  pose proof NR as NR0. destruct NR as (Nl & Nr & _).
  cbn [bst_find kids] in HF, HK. destruct (cmp_names nm (nm_of ds i)).
  - injection HF as <-. injection HK as <- <-. exact NR0.
  - auto.
  - auto.
Qed.

Lemma splice_norr : forall ds parent sibo x e l r pp pred,
  nthN ds x = Some e -> x <> NO_STREAM ->
  Rep ds (d_left e) l -> Rep ds (d_right e) r -> NoDup (ids (BN l x r)) ->
  (d_left e <> NO_STREAM -> d_right e <> NO_STREAM ->
   exists fuel, find_pred fuel ds x (d_left e) = Ok (pp, pred)) ->
  no_rr ds (BN l x r) ->
  let ds' := remove_tbl ds parent sibo x e pp pred in
  no_rr ds' (join l r) /\ (d_color e = Black -> root_col ds' (join l r) = Black).
Proof.
  intros ds parent sibo x e l r pp pred He Hxne HL HR ND Hfp NR ds'.
  pose proof ND as ND0.
  apply nodup_node in ND. destruct ND as (NDl & NDr & Hxl & Hxr & Hlr).
  destruct NR as (NRl & NRr & NRx). unfold col in NRx. rewrite He in NRx.
  destruct l as [|ll li lr].
  - (* no left child *)
    cbn [Rep] in HL.
    assert ((d_left e =? NO_STREAM) || (d_right e =? NO_STREAM) = true) as C
      by (rewrite HL, N.eqb_refl; reflexivity).
    destruct (remove_tbl_col1 ds parent sibo x e pp pred C) as [K1 K2].
    rewrite HL, N.eqb_refl in K1, K2. fold ds' in K1, K2. cbn [join].
    destruct r as [|rl ri rr]; [split; [exact I|reflexivity]|].
    destruct HR as (Er & Hrine & _). rewrite Er in *.
    assert (ri <> x) as Hrx by (intros ->; apply Hxr; apply in_node; right; left; reflexivity).
    assert (col ds' ri = Black) as Hb by (apply K2; assumption).
    split; [|intros _; exact Hb].
    apply (no_rr_blacken ds ds'); [exact NDr|exact NRr| |exact Hb].
    intros j Hj Hjne. apply K1; [intros ->; contradiction|exact Hjne].
  - pose proof HL as HL0. destruct HL as (El & Hline & el & Hel & HLl & HLr). rewrite El in *.
    assert (li <> x) as Hlx by (intros ->; apply Hxl; apply in_node; right; left; reflexivity).
    destruct r as [|rl ri rr].
    + (* no right child *)
      cbn [Rep] in HR.
      assert ((li =? NO_STREAM) || (d_right e =? NO_STREAM) = true) as C
        by (rewrite HR, N.eqb_refl; apply orb_true_r).
      destruct (remove_tbl_col1 ds parent sibo x e pp pred) as [K1 K2]; [rewrite El; exact C|].
      rewrite El in K1, K2. destruct (N.eqb_spec li NO_STREAM); [contradiction|].
      fold ds' in K1, K2. cbn [join].
      assert (col ds' li = Black) as Hb by (apply K2; assumption).
      split; [|intros _; exact Hb].
      apply (no_rr_blacken ds ds'); [exact NDl|exact NRl| |exact Hb].
      intros j Hj Hjne. apply K1; [intros ->; contradiction|exact Hjne].
    + (* two children *)
      pose proof HR as HR0. destruct HR as (Er & Hrine & er & Her & HRl & HRr). rewrite Er in *.
      assert ((d_left e =? NO_STREAM) || (d_right e =? NO_STREAM) = false) as C.
      { rewrite El, Er. destruct (N.eqb_spec li NO_STREAM); [contradiction|].
        destruct (N.eqb_spec ri NO_STREAM); [contradiction|]. reflexivity. }
      destruct (remove_tbl_col2 ds parent sibo x e pp pred C) as (K1 & K2 & K3).
      fold ds' in K1, K2, K3.
      destruct (Hfp Hline Hrine) as [fuel Hf]. apply (find_pred_spec _ _ _ _ _ _ _ _ HL0) in Hf.
      destruct (tree_pred_in2 _ _ _ _ _ Hf) as [_ Ppred].
      assert (In pred (ids (BN ll li lr))) as Ppred'.
      { apply in_node. destruct Ppred as [<-|P]; [right; left; reflexivity|right; right; exact P]. }
      assert (pred <> x) as Hpx by (intros ->; contradiction).
      destruct (rep_ids _ _ _ HL0 pred Ppred') as [Hprne Hplt].
      destruct (nthN_lt_Some _ _ _ Hplt) as [pe Hpe]. rewrite Hpe in K1, K3.
      assert (col ds' pred = d_color e) as Cpred by (apply K2; [exact Hpx|congruence]).
      assert (d_left pe <> NO_STREAM -> In (d_left pe) (ids (BN ll li lr)) /\ d_left pe <> pred) as Plin.
      { intros Hpl. pose proof (rep_left_in _ _ _ _ _ HL0 Ppred' Hpe Hpl) as Hin. split; [exact Hin|].
        (* the left child of pred is not pred: it lies in pred's own left subtree *)
        intros Heq.
        assert (forall t root, Rep ds root t -> NoDup (ids t) -> In pred (ids t) -> False) as Loop.
        { induction t as [|a IHa b c IHc]; intros root HRt NDt Hint; [contradiction|].
          destruct HRt as (_ & _ & eb & Heb & HLa & HRc).
          apply nodup_node in NDt. destruct NDt as (NDa & NDc & Hba & Hbc & Hac).
          apply in_node in Hint. destruct Hint as [Hint|[->|Hint]]; eauto.
          assert (eb = pe) by congruence. subst eb. rewrite Heq in HLa.
          destruct (rep_some _ _ _ HLa Hprne) as (a1 & a2 & ->).
          apply Hba. apply in_node. right. left. reflexivity. }
        exact (Loop _ _ HL0 NDl Ppred'). }
      assert (forall j, In j (ids (BN rl ri rr)) -> col ds' j = col ds j) as Cr.
      { intros j Hj. apply K1.
        - intros ->. contradiction.
        - intros ->. destruct (N.eq_dec (d_left pe) NO_STREAM) as [E|E].
          + destruct (rep_ids _ _ _ HR0 _ Hj). congruence.
          + destruct (Plin E) as [Hin _]. exact (Hlr _ Hin Hj).
        - intros ->. exact (Hlr _ Ppred' Hj). }
      assert (root_col ds' (BN rl ri rr) = root_col ds (BN rl ri rr)) as RCr
        by (apply root_col_frame; exact Cr).
      assert (no_rr ds' (BN rl ri rr)) as NRr' by (eapply no_rr_frame; [exact Cr|exact NRr]).
      apply nodup_node in NDl. destruct NDl as (NDll & NDlr & Hlil & Hlir & Hllr).
      destruct lr as [|q1 q2 q3].
      * (* the left child is the predecessor *)
        cbn [tree_pred] in Hf. injection Hf as <- <-. cbn [join split_max].
        assert (pe = el) by congruence. subst pe.
        assert (no_rr ds' ll /\ root_col ds' ll = Black) as [NA RA].
        { destruct ll as [|a1 a2 a3]; [split; [exact I|reflexivity]|].
          destruct HLl as (Ea & Hane & _).
          destruct (Plin ltac:(congruence)) as [_ Hne2].
          assert (col ds' a2 = Black) as Hb.
          { rewrite <- Ea. apply K3; [congruence| |exact Hne2].
            rewrite Ea. intros ->. apply Hxl. apply in_node. left. apply in_node. right. left. reflexivity. }
          split; [|exact Hb]. apply (no_rr_blacken ds ds'); [exact NDll|apply NRl| |exact Hb].
          intros j Hj Hjne. apply K1.
          - intros ->. apply Hxl. apply in_node. left. exact Hj.
          - congruence.
          - intros ->. contradiction. }
        cbn [no_rr root_col]. rewrite Cpred. split.
        -- split; [exact NA|]. split; [exact NRr'|]. intros Hred.
           split; [exact RA|]. change (col ds' ri) with (root_col ds' (BN rl ri rr)).
           rewrite RCr. apply NRx. exact Hred.
        -- intros Hb. exact Hb.
      * destruct (split_max_norr ds ds' (d_left pe) (BN q1 q2 q3) ll li x pp pred)
          as [S1 S2]; [exact HL0| |discriminate|exact Hf|exact NRl| | | |].
        { apply nodup_node. repeat split; assumption. }
        { intros pe0 Hpe0. congruence. }
        { intros j Hj J1 J2. apply K1; [intros ->; contradiction|exact J1|exact J2]. }
        { intros Hpl. destruct (Plin Hpl) as [Hin Hne2]. apply K3; [exact Hpl| |exact Hne2].
          intros Hc. rewrite Hc in Hin. contradiction. }
        assert (snd (split_max ll li (BN q1 q2 q3)) = pred) as Sm.
        { clear - Hf. revert ll li x Hf. generalize (BN q1 q2 q3) as t.
          induction t as [|a _ b c IHc]; intros ll li x Hf; cbn [tree_pred split_max] in *.
          - injection Hf as _ <-. reflexivity.
          - specialize (IHc a b li Hf). destruct (split_max a b c) as [r' m]. exact IHc. }
        cbn [join]. destruct (split_max ll li (BN q1 q2 q3)) as [l' m]. cbn [fst snd] in *. subst m.
        cbn [no_rr root_col]. rewrite Cpred. split.
        -- split; [exact S1|]. split; [exact NRr'|]. intros Hred. split.
           ++ rewrite S2. apply (NRx Hred).
           ++ change (col ds' ri) with (root_col ds' (BN rl ri rr)). rewrite RCr. apply NRx. exact Hred.
        -- intros Hb. exact Hb.
Qed.

Lemma ctx_norr : forall ds ds' nm x l r t root,
  Rep ds root t -> NoDup (ids t) -> bst_find ds nm t = Some x -> kids ds nm t = (l, r) ->
  no_rr ds t ->
  (forall j, In j (ids t) -> ~ In j (ids (BN l x r)) -> col ds' j = col ds j) ->
  no_rr ds' (join l r) -> (col ds x = Black -> root_col ds' (join l r) = Black) ->
  no_rr ds' (bst_remove x t) /\
  (root_col ds t = Black -> root_col ds' (bst_remove x t) = Black).
Proof.
  intros ds ds' nm x l r.
  induction t as [|tl IHl i tr IHr]; intros root HR ND HF HK NR K NJ BJ; [discriminate HF|].
  destruct HR as (E & Hne & e & He & HL & HRr). subst root.
  apply nodup_node in ND. destruct ND as (NDl & NDr & Hil & Hir & Hlr).
  destruct NR as (NRl & NRr & NRc).
  cbn [bst_find kids] in HF, HK. cbn [bst_remove root_col].
  destruct (cmp_names nm (nm_of ds i)) eqn:C.
  - injection HF as <-. injection HK as <- <-. rewrite N.eqb_refl. split; assumption.
  - pose proof (bst_find_sound _ _ _ _ HF) as [Hxl _].
    pose proof (kids_rep _ _ _ _ _ _ _ HL HF HK) as (_ & KIl & _).
    destruct (N.eqb_spec i x) as [->|Hix]; [contradiction|].
    rewrite (bst_remove_notin x tr) by (intros Hc; exact (Hlr _ Hxl Hc)).
    destruct (IHl (d_left e) HL NDl HF HK NRl) as [I1 I2]; [|exact NJ|exact BJ|].
    { intros j Hj Hn. apply K; [apply in_node; left; exact Hj|exact Hn]. }
    assert (forall j, In j (ids tr) -> col ds' j = col ds j) as Ctr.
    { intros j Hj. apply K; [apply in_node; right; right; exact Hj|].
      intros Hc. exact (Hlr _ (KIl _ Hc) Hj). }
    assert (col ds' i = col ds i) as Ci.
    { apply K; [apply in_node; right; left; reflexivity|]. intros Hc. exact (Hil (KIl _ Hc)). }
    cbn [no_rr root_col]. rewrite Ci. split; [|auto].
    split; [exact I1|]. split; [eapply no_rr_frame; [exact Ctr|exact NRr]|].
    intros Hred. destruct (NRc Hred) as [B1 B2]. split; [auto|].
    rewrite (root_col_frame ds ds' tr Ctr). exact B2.
  - pose proof (bst_find_sound _ _ _ _ HF) as [Hxr _].
    pose proof (kids_rep _ _ _ _ _ _ _ HRr HF HK) as (_ & KIr & _).
    destruct (N.eqb_spec i x) as [->|Hix]; [contradiction|].
    rewrite (bst_remove_notin x tl) by (intros Hc; exact (Hlr _ Hc Hxr)).
    destruct (IHr (d_right e) HRr NDr HF HK NRr) as [I1 I2]; [|exact NJ|exact BJ|].
    { intros j Hj Hn. apply K; [apply in_node; right; right; exact Hj|exact Hn]. }
    assert (forall j, In j (ids tl) -> col ds' j = col ds j) as Ctl.
    { intros j Hj. apply K; [apply in_node; left; exact Hj|].
      intros Hc. exact (Hlr _ Hj (KIr _ Hc)). }
    assert (col ds' i = col ds i) as Ci.
    { apply K; [apply in_node; right; left; reflexivity|]. intros Hc. exact (Hir (KIr _ Hc)). }
    cbn [no_rr root_col]. rewrite Ci. split; [|auto].
    split; [eapply no_rr_frame; [exact Ctl|exact NRl]|]. split; [exact I1|].
    intros Hred. destruct (NRc Hred) as [B1 B2]. split; [|auto].
    rewrite (root_col_frame ds ds' tl Ctl). exact B1.
Qed.

Theorem remove_no_red_red : forall parent nm s s' u p t x,
  remove_dir_entry parent nm s = (s', Ok u) ->
  nthN (dirs s) parent = Some p -> Rep (dirs s) (d_child p) t -> NoDup (ids t) ->
  bst_find (dirs s) nm t = Some x ->
  no_rr (dirs s) t -> no_rr (dirs s') (bst_remove x t).
Proof.
  intros parent nm s s' u p t x H Hp HR ND HF NR.
  destruct (remove_core _ _ _ _ _ _ _ _ H Hp HR ND HF)
    as (e & pp & pred & l & r & He & Hc & Hxp & HK & KR & KND & KI & Hds & Hfp & Hroot & _).
  pose proof (kids_norr _ _ _ _ _ _ NR HF HK) as NRx.
  pose proof KR as KR0. destruct KR as (_ & Hxne & e0 & He0 & HLl & HRr).
  assert (e0 = e) by congruence. subst e0.
  destruct (splice_norr (dirs s) parent (lastN (anc (dirs s) nm t)) x e l r pp pred
              He Hxne HLl HRr KND) as [SN SB]; [|exact NRx|].
  { intros A B. eexists. apply Hfp; assumption. }
  rewrite <- Hds in SN, SB.
  eapply (ctx_norr (dirs s) (dirs s') nm x l r t); eauto.
  - (* colours outside the subtree of x *)
    intros j Hj Hn. rewrite Hds.
    assert (j <> x) as Hjx by (intros ->; apply Hn; apply in_node; right; left; reflexivity).
    (* links of context nodes may change, colours may not *)
    assert (forall j, ~ In j (ids l ++ ids r) -> j <> x ->
              col (remove_tbl (dirs s) parent (lastN (anc (dirs s) nm t)) x e pp pred) j = col (dirs s) j) as CC.
    { intros k Hk Hkx. unfold remove_tbl.
      pose proof (splice_untouched (dirs s) x e pp pred k) as SU.
      destruct (splice_tbl (dirs s) x e pp pred) as [ds1 repl]. cbn [fst] in SU.
      rewrite col_updN_other by congruence. rewrite col_relink. unfold col. rewrite SU; [reflexivity|].
      intros Hc'. apply Hk. eapply splice_touched_in; [exact He|exact HLl|exact HRr| |exact Hc'].
      intros A B. eexists. apply Hfp; assumption. }
    apply CC; [|exact Hjx]. intros Hc'. apply Hn. apply in_node. apply in_app_or in Hc'. tauto.
  - intros Hb. apply SB. unfold col in Hb. rewrite He in Hb. exact Hb.
Qed.

(* ================================================================== *)
Print Assumptions rep_functional.
Print Assumptions rep_frame.
Print Assumptions find_in_siblings_spec.
Print Assumptions bst_find_iff.
Print Assumptions find_in_siblings_total.
Print Assumptions remove_ids_stable_raw.
Print Assumptions remove_ids_stable.
Print Assumptions remove_untouched_exact.
Print Assumptions remove_rep.
Print Assumptions remove_inorder.
Print Assumptions remove_lookup.
Print Assumptions remove_no_red_red.
Print Assumptions insert_rep.
Print Assumptions insert_fresh.
Print Assumptions entries_nonrec_inorder.
