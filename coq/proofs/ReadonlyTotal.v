(* ReadonlyTotal.v — C05: after opening ANY byte string, every sequence of
   read-only calls terminates with Ok or an error value: no Panic, no OutOfFuel,
   and the cached state is never changed.

   T1  validated_directory_is_forest : what Directory::validate (dir_dfs)
       establishes: the table reachable from the root is a finite ternary tree
       (left / child / right links) whose ids are pairwise distinct.
   T2  queries: lookup / listing / walk are total on such a table.
   T3  read_data is total (and state-preserving, and returns at most the
       requested number of bytes) for ANY start sector / length in the entry.
   T4  the buffered handle's read-only operations, and read-to-end (api_cat).
   T5  readonly_total. *)
From Coq Require Import List NArith ZArith Bool Lia ZifyN ZifyBool Arith.
From Cfb.model Require Import Base Names Time DirEnt State Alloc Dir Mini Store Handle Open Cfb.
From Cfb.gen Require Import Consts.
From Cfb.proofs Require Import WalkProofs OpenTotal.
Import ListNotations.
Open Scope N_scope.

(* ================================================================== *)
(* T1. the directory table after validation                            *)
(* ================================================================== *)

(* a node of the table with the trees hanging off its three links *)
Inductive t3 := L3 | N3 (l : t3) (i : N) (c : t3) (r : t3).

Fixpoint ids3 (t : t3) : list N :=
  match t with
  | L3 => []
  | N3 l i c r => i :: ids3 c ++ ids3 r ++ ids3 l
  end.

Fixpoint Rep3 (ds : list dirent) (root : N) (t : t3) : Prop :=
  match t with
  | L3 => root = NO_STREAM
  | N3 l i c r =>
    root = i /\ i <> NO_STREAM /\
    exists e, nthN ds i = Some e /\
      Rep3 ds (d_left e) l /\ Rep3 ds (d_child e) c /\ Rep3 ds (d_right e) r
  end.

Definition typed (ds : list dirent) (i : N) : Prop :=
  exists e, nthN ds i = Some e /\
    (if i =? ROOT_STREAM_ID then d_type e = TRoot
     else d_type e = TStorage \/ d_type e = TStream).

(* [Good ds root t]: t is the (finite) tree of everything linked from [root],
   no entry occurs twice in it, and every entry has an allocated type *)
Definition Good (ds : list dirent) (root : N) (t : t3) : Prop :=
  Rep3 ds root t /\ NoDup (ids3 t) /\ Forall (typed ds) (ids3 t).

Definition DirTree (ds : list dirent) : Prop := exists t, Good ds ROOT_STREAM_ID t.

Definition push_link (x : N) (b : bool) (st : list (N * bool)) : list (N * bool) :=
  if x =? NO_STREAM then st else (x, b) :: st.

Lemma push_link_inv ds x b st ts' :
  Forall2 (fun p t => Rep3 ds (fst p) t) (push_link x b st) ts' ->
  exists t ts, Rep3 ds x t /\ Forall2 (fun p t => Rep3 ds (fst p) t) st ts /\
    flat_map ids3 ts' = ids3 t ++ flat_map ids3 ts.
Proof.
  unfold push_link. destruct (N.eqb_spec x NO_STREAM) as [->|Hx]; intros H.
  - exists L3, ts'. split; [reflexivity|]. split; [exact H|reflexivity].
  - inversion H as [|p t st0 ts Hp Hrest]; subst. cbn [fst] in Hp.
    exists t, ts. split; [exact Hp|]. split; [exact Hrest|reflexivity].
Qed.

Lemma push_link_ne x b st :
  Forall (fun p : N * bool => fst p <> NO_STREAM) st ->
  Forall (fun p : N * bool => fst p <> NO_STREAM) (push_link x b st).
Proof.
  intros H. unfold push_link. destruct (N.eqb_spec x NO_STREAM); [exact H|].
  constructor; [exact n|exact H].
Qed.

Lemma dfs_forest strict ds : forall f stack visited,
  Forall (fun p : N * bool => fst p <> NO_STREAM) stack ->
  dir_dfs f strict ds stack visited = Ok tt ->
  exists ts, Forall2 (fun p t => Rep3 ds (fst p) t) stack ts /\
    NoDup (flat_map ids3 ts) /\
    (forall j, In j (flat_map ids3 ts) -> ~ In j visited) /\
    Forall (typed ds) (flat_map ids3 ts).
Proof.
  induction f as [|f IH]; intros stack visited Hne H; [discriminate|].
  cbn [dir_dfs] in H. destruct stack as [|[id pr] rest].
  { exists []. cbn. repeat split; try constructor. intros j []. }
  inversion Hne as [|? ? Hid Hrest]; subst. cbn [fst] in Hid.
  destruct (memN id visited) eqn:Hmem; [discriminate|]. apply memN_false in Hmem.
  unfold dir_entry_of at 1 in H. destruct (nthN ds id) as [e|] eqn:He; [|discriminate].
  cbn [rbind] in H.
  match type of H with (if ?c then _ else _) = _ => destruct c eqn:Hty end; [discriminate|].
  cbv zeta in H.
  match type of H with (if ?c then _ else _) = _ => destruct c end; [discriminate|].
  apply rbind_Ok in H. destruct H as (st1 & H1 & H).
  assert (E1 : exists b, st1 = push_link (d_left e) b rest).
  { unfold push_link. destruct (d_left e =? NO_STREAM); [injection H1 as <-; exists false; reflexivity|].
    destruct (_ <=? _); [discriminate|].
    destruct (dir_entry_of ds (d_left e)); cbn [rbind] in H1; try discriminate.
    destruct (cmp_names _ _); try discriminate. injection H1 as <-. eauto. }
  clear H1. destruct E1 as [b1 ->].
  apply rbind_Ok in H. destruct H as (st2 & H2 & H).
  assert (E2 : exists b, st2 = push_link (d_right e) b (push_link (d_left e) b1 rest)).
  { unfold push_link at 1. destruct (d_right e =? NO_STREAM); [injection H2 as <-; exists false; reflexivity|].
    destruct (_ <=? _); [discriminate|].
    destruct (dir_entry_of ds (d_right e)); cbn [rbind] in H2; try discriminate.
    destruct (cmp_names _ _); try discriminate. injection H2 as <-. eauto. }
  clear H2. destruct E2 as [b2 ->].
  apply rbind_Ok in H. destruct H as (st3 & H3 & H).
  assert (E3 : st3 = push_link (d_child e) false (push_link (d_right e) b2 (push_link (d_left e) b1 rest))).
  { unfold push_link at 1. destruct (d_child e =? NO_STREAM); [injection H3 as <-; reflexivity|].
    destruct (_ <=? _); [discriminate|]. injection H3 as <-. reflexivity. }
  clear H3. subst st3.
  apply IH in H; [|repeat apply push_link_ne; exact Hrest].
  destruct H as (ts3 & F3 & ND & Hdis & Hty3).
  apply push_link_inv in F3. destruct F3 as (tc & ts2 & Rc & F2 & Ec).
  apply push_link_inv in F2. destruct F2 as (tr & ts1 & Rr & F1 & Er).
  apply push_link_inv in F1. destruct F1 as (tl & ts0 & Rl & F0 & El).
  assert (Eall : flat_map ids3 (N3 tl id tc tr :: ts0) = id :: flat_map ids3 ts3).
  { cbn [flat_map ids3]. rewrite Ec, Er, El. cbn [app]. rewrite <- !app_assoc. reflexivity. }
  exists (N3 tl id tc tr :: ts0). rewrite Eall. split; [|split; [|split]].
  - constructor; [|exact F0]. cbn [fst Rep3]. split; [reflexivity|]. split; [exact Hid|].
    exists e. auto.
  - constructor; [|exact ND]. intros Hin. apply (Hdis _ Hin). left; reflexivity.
  - intros j [<-|Hj]; [exact Hmem|]. intros Hv. apply (Hdis _ Hj). right; exact Hv.
  - constructor; [|exact Hty3]. exists e. split; [exact He|].
    destruct (id =? ROOT_STREAM_ID).
    + destruct (d_type e); cbn in Hty; congruence.
    + destruct (d_type e); cbn in Hty; try discriminate; auto.
Qed.

Theorem validated_directory_is_forest strict ds :
  dir_validate strict ds = Ok tt -> DirTree ds.
Proof.
  unfold dir_validate. destruct ds as [|root tl] eqn:E; [discriminate|].
  destruct (negb _); [discriminate|]. rewrite <- E. intros H.
  apply dfs_forest in H.
  2:{ constructor; [|constructor]. cbn. discriminate. }
  destruct H as (ts & F & ND & _ & Ty).
  inversion F as [|p t st0 ts0 Hp Hrest]; subst. inversion Hrest; subst.
  cbn [flat_map] in *. rewrite app_nil_r in *. cbn [fst] in Hp.
  exists t. split; [exact Hp|]. split; assumption.
Qed.

Lemma open_dir_validate strict bytes s :
  open_model strict bytes = Ok s -> dir_validate strict (dirs s) = Ok tt.
Proof.
  unfold open_model. cbv zeta.
  destruct (_ <? HEADER_LEN); [discriminate|].
  intros H. apply rbind_Ok in H. destruct H as (h & _ & H).
  destruct (_ <? lenN bytes); [discriminate|].
  destruct (lenN bytes <? _); [discriminate|].
  apply rbind_Ok in H. destruct H as ([ids difat0] & _ & H). cbv beta iota in H.
  destruct (_ && _); [discriminate|].
  destruct (strict && negb _); [discriminate|].
  apply rbind_Ok in H. destruct H as (fat0 & _ & H).
  apply rbind_Ok in H. destruct H as ([fat4 fr] & _ & H). cbv beta iota in H.
  apply rbind_Ok in H. destruct H as (ds & _ & H).
  apply rbind_Ok in H. destruct H as ([] & Hdv & H).
  apply rbind_Ok in H. destruct H as ([c s1] & _ & H). cbv beta iota in H.
  destruct (_ && _); [discriminate|].
  apply rbind_Ok in H. destruct H as ([[c2 mbytes] s2] & _ & H). cbv beta iota in H.
  destruct ds as [|root t] eqn:Eds; [discriminate|].
  apply rbind_Ok in H. destruct H as ([mf mfr] & _ & [= <-]).
  cbn [dirs]. exact Hdv.
Qed.

Theorem open_dirtree strict bytes s : open_model strict bytes = Ok s -> DirTree (dirs s).
Proof. intros H. eapply validated_directory_is_forest, open_dir_validate, H. Qed.

(* ================================================================== *)
(* monadic plumbing: a computation that leaves the state alone and is   *)
(* neither Panic nor OutOfFuel                                          *)
(* ================================================================== *)
Definition ro {A} (m : M A) (s : cstate) (P : A -> Prop) : Prop :=
  exists r, m s = (s, r) /\ fine r /\ forall a, r = Ok a -> P a.

Lemma ro_bind {A B} (m : M A) (f : A -> M B) s (P : A -> Prop) (Q : B -> Prop) :
  ro m s P -> (forall a, P a -> ro (f a) s Q) -> ro (bind m f) s Q.
Proof.
  intros (r & E & Hf & HP) Hk. unfold ro, bind. rewrite E.
  destruct r as [a|k|p|]; try contradiction.
  - apply Hk. apply HP. reflexivity.
  - exists (Err k). split; [reflexivity|]. split; [exact I|discriminate].
Qed.

Lemma ro_ret {A} (a : A) s (P : A -> Prop) : P a -> ro (ret a) s P.
Proof. intros H. exists (Ok a). split; [reflexivity|]. split; [exact I|]. intros ? [= <-]. exact H. Qed.

Lemma ro_fail {A} k s (P : A -> Prop) : ro (fail k) s P.
Proof. exists (Err k). split; [reflexivity|]. split; [exact I|discriminate]. Qed.

Lemma ro_get s (P : cstate -> Prop) : P s -> ro get s P.
Proof. intros H. exists (Ok s). split; [reflexivity|]. split; [exact I|]. intros ? [= <-]. exact H. Qed.

Lemma ro_lift {A} (r : res A) s (P : A -> Prop) :
  fine r -> (forall a, r = Ok a -> P a) -> ro (lift r) s P.
Proof. intros Hf HP. exists r. split; [reflexivity|]. split; assumption. Qed.

Lemma ro_weaken {A} (m : M A) s (P Q : A -> Prop) :
  ro m s P -> (forall a, P a -> Q a) -> ro m s Q.
Proof. intros (r & E & Hf & HP) H. exists r. split; [exact E|]. split; [exact Hf|]. intros a Ha. auto. Qed.

Lemma ro_get_bind {B} (f : cstate -> M B) s (Q : B -> Prop) :
  ro (f s) s Q -> ro (bind get f) s Q.
Proof. intros H. eapply ro_bind; [apply (ro_get s (fun x => x = s)); reflexivity|]. intros a ->. exact H. Qed.

(* ================================================================== *)
(* T2. queries on a validated table                                    *)
(* ================================================================== *)
Lemma Rep3_range ds : forall t root, Rep3 ds root t -> Forall (fun j => j < lenN ds) (ids3 t).
Proof.
  induction t as [|l IHl i c IHc r IHr]; intros root H; cbn [ids3]; [constructor|].
  destruct H as (_ & _ & e & He & Hl & Hc & Hr).
  constructor; [eapply nthN_Some_lt; eauto|].
  apply Forall_app. split; [eauto|]. apply Forall_app. split; eauto.
Qed.

Lemma Rep3_size ds t root : Rep3 ds root t -> NoDup (ids3 t) -> (length (ids3 t) <= length ds)%nat.
Proof.
  intros H ND. pose proof (bounded_nodup_length _ _ ND (Rep3_range ds t root H)) as B.
  rewrite lenN_length, Nat2N.id in B. exact B.
Qed.

Lemma nodup_app_l {A} (a b : list A) : NoDup (a ++ b) -> NoDup a.
Proof.
  induction a as [|x a IH]; intros H; [constructor|].
  inversion H as [|? ? Hx Hr]; subst. constructor; [|auto].
  intros Hin. apply Hx. apply in_or_app. left; exact Hin.
Qed.

Lemma nodup_app_r {A} (a b : list A) : NoDup (a ++ b) -> NoDup b.
Proof.
  induction a as [|x a IH]; intros H; [exact H|].
  inversion H; subst. auto.
Qed.

Lemma Good_L3 ds : Good ds NO_STREAM L3.
Proof. split; [reflexivity|]. split; constructor. Qed.

Lemma Good_node ds root l i c r : Good ds root (N3 l i c r) ->
  root = i /\ i <> NO_STREAM /\ typed ds i /\
  exists e, nthN ds i = Some e /\
    Good ds (d_left e) l /\ Good ds (d_child e) c /\ Good ds (d_right e) r.
Proof.
  intros (HR & ND & Ty). cbn [Rep3 ids3] in *.
  destruct HR as (E & Hne & e & He & Hl & Hc & Hr).
  inversion ND as [|? ? _ ND']; subst. inversion Ty as [|? ? Ti Ty']; subst.
  pose proof (nodup_app_l _ _ ND') as NDc.
  pose proof (nodup_app_r _ _ ND') as NDrl.
  pose proof (nodup_app_l _ _ NDrl) as NDr.
  pose proof (nodup_app_r _ _ NDrl) as NDl.
  apply Forall_app in Ty'. destruct Ty' as [Tc Trl]. apply Forall_app in Trl. destruct Trl as [Tr Tl].
  split; [reflexivity|]. split; [exact Hne|]. split; [exact Ti|].
  exists e. split; [exact He|]. repeat split; assumption.
Qed.

Lemma Good_nonleaf ds root t : Good ds root t -> root <> NO_STREAM -> exists l c r, t = N3 l root c r.
Proof.
  intros (HR & _) Hne. destruct t as [|l i c r]; cbn [Rep3] in HR; [contradiction|].
  destruct HR as (-> & _). eauto.
Qed.

Lemma Good_size ds root t : Good ds root t -> (length (ids3 t) <= length ds)%nat.
Proof. intros (HR & ND & _). eapply Rep3_size; eauto. Qed.

Definition GoodAt (ds : list dirent) (id : N) : Prop := id <> NO_STREAM /\ exists t, Good ds id t.

Lemma GoodAt_entry ds id : GoodAt ds id ->
  exists e, nthN ds id = Some e /\ (d_type e = TRoot \/ d_type e = TStorage \/ d_type e = TStream).
Proof.
  intros (Hne & t & G). destruct (Good_nonleaf _ _ _ G Hne) as (l & c & r & ->).
  apply Good_node in G. destruct G as (_ & _ & (e & He & Ty) & _).
  exists e. split; [exact He|]. destruct (id =? ROOT_STREAM_ID); tauto.
Qed.

Lemma fis_good ds nm : forall t root fuel, Good ds root t -> (length (ids3 t) < fuel)%nat ->
  exists r, find_in_siblings fuel ds nm root = Ok r /\ (forall id, r = Some id -> GoodAt ds id).
Proof.
  induction t as [|l IHl i c _ r IHr]; intros root fuel G Hf.
  - destruct G as (HR & _). cbn [Rep3] in HR. subst root.
    destruct fuel; [cbn in Hf; lia|]. cbn [find_in_siblings]. rewrite N.eqb_refl.
    exists None. split; [reflexivity|discriminate].
  - pose proof G as G0. apply Good_node in G. destruct G as (-> & Hne & _ & e & He & Gl & _ & Gr).
    cbn [ids3 length] in Hf. rewrite !app_length in Hf.
    destruct fuel; [lia|]. cbn [find_in_siblings].
    destruct (N.eqb_spec i NO_STREAM); [contradiction|].
    unfold dir_entry_of. rewrite He. cbn [rbind].
    destruct (cmp_names nm (d_name e)).
    + exists (Some i). split; [reflexivity|]. intros id [= <-]. split; [exact Hne|eauto].
    + apply IHl; [exact Gl|lia].
    + apply IHr; [exact Gr|lia].
Qed.

Lemma lookup_good ds : forall names id, GoodAt ds id ->
  exists r, lookup_chain ds names id = Ok r /\ (forall id', r = Some id' -> GoodAt ds id').
Proof.
  induction names as [|nm rest IH]; intros id GA.
  - exists (Some id). split; [reflexivity|]. intros ? [= <-]. exact GA.
  - destruct GA as (Hne & t & G). destruct (Good_nonleaf _ _ _ G Hne) as (l & c & r & ->).
    apply Good_node in G. destruct G as (_ & _ & _ & e & He & _ & Gc & _).
    cbn [lookup_chain]. unfold dir_entry_of. rewrite He. cbn [rbind].
    destruct (fis_good ds nm c (d_child e) (S (length ds)) Gc) as (r0 & -> & Hr0).
    { pose proof (Good_size _ _ _ Gc). lia. }
    cbn [rbind]. destruct r0 as [cid|].
    + apply IH. apply Hr0. reflexivity.
    + exists None. split; [reflexivity|discriminate].
Qed.

(* ---- the Entries iterator ---- *)
Definition item_ok (ds : list dirent) (it : list N * N * bool) (w : nat) : Prop :=
  exists e c r, nthN ds (snd (fst it)) = Some e /\
    Rep3 ds (d_child e) c /\ Rep3 ds (d_right e) r /\
    (length (ids3 c) <= length ds)%nat /\ (length (ids3 r) <= length ds)%nat /\
    (1 + length (ids3 c) + (if snd it then length (ids3 r) else 0) <= w)%nat.

Lemma left_spine_ok ds par : forall t root fuel stack,
  Rep3 ds root t -> (length (ids3 t) < fuel)%nat -> (length (ids3 t) <= length ds)%nat ->
  exists items ws, left_spine fuel ds par root stack = Ok (items ++ stack) /\
    Forall2 (item_ok ds) items ws /\ (list_sum ws <= length (ids3 t))%nat.
Proof.
  induction t as [|l IHl i c _ r _]; intros root fuel stack HR Hf Hs.
  - cbn [Rep3] in HR. subst root. destruct fuel; [cbn in Hf; lia|].
    cbn [left_spine]. rewrite N.eqb_refl. exists [], []. split; [reflexivity|].
    split; [constructor|cbn; lia].
  - destruct HR as (-> & Hne & e & He & Hl & Hc & Hr).
    cbn [ids3 length] in Hf, Hs. rewrite !app_length in Hf, Hs.
    destruct fuel; [lia|]. cbn [left_spine].
    destruct (N.eqb_spec i NO_STREAM); [contradiction|].
    unfold dir_entry_of. rewrite He. cbn [rbind].
    destruct (IHl (d_left e) fuel ((par, i, true) :: stack) Hl) as (items & ws & E & F & Hsum); [lia|lia|].
    exists (items ++ [(par, i, true)]), (ws ++ [(1 + length (ids3 c) + length (ids3 r))%nat]).
    split; [rewrite E, <- app_assoc; reflexivity|]. split.
    + apply Forall2_app; [exact F|]. constructor; [|constructor].
      exists e, c, r. cbn [fst snd]. repeat split; try assumption; lia.
    + rewrite list_sum_app. cbn [list_sum fold_right ids3 length]. rewrite !app_length. lia.
Qed.

Lemma left_spine_model ds par t root stack :
  Rep3 ds root t -> (length (ids3 t) <= length ds)%nat ->
  exists items ws, left_spine (S (length ds)) ds par root stack = Ok (items ++ stack) /\
    Forall2 (item_ok ds) items ws /\ (list_sum ws <= length (ids3 t))%nat.
Proof. intros HR Hs. apply left_spine_ok; [exact HR|lia|exact Hs]. Qed.

Lemma entries_go_fine ds ord : forall fuel stack ws acc,
  Forall2 (item_ok ds) stack ws -> (list_sum ws < fuel)%nat ->
  fine (entries_go fuel ds ord stack acc).
Proof.
  induction fuel as [|f IH]; intros stack ws acc F Hf; [lia|].
  cbn [entries_go]. destruct stack as [|[[par i] vis] rest]; [exact I|].
  inversion F as [|it w st0 ws' Hit Frest]; subst.
  destruct Hit as (e & c & r & He & Hc & Hr & Sc & Sr & Hw). cbn [fst snd] in *.
  change (list_sum (w :: ws')) with (w + list_sum ws')%nat in Hf.
  unfold dir_entry_of. rewrite He. cbn [rbind]. cbv zeta.
  set (path := if objtype_eqb (d_type e) TRoot then par else path_join par (d_name e)).
  assert (H1 : exists items1 ws1,
    (if vis then left_spine (S (length ds)) ds par (d_right e) rest else Ok rest) = Ok (items1 ++ rest) /\
    Forall2 (item_ok ds) items1 ws1 /\
    (list_sum ws1 <= (if vis then length (ids3 r) else 0))%nat).
  { destruct vis.
    - apply left_spine_model; assumption.
    - exists [], []. split; [reflexivity|]. split; [constructor|cbn; lia]. }
  destruct H1 as (items1 & ws1 & -> & F1 & S1). cbn [rbind].
  assert (H2 : exists items2 ws2,
    match ord with
    | Preorder =>
      if negb (objtype_eqb (d_type e) TStream) && negb (d_child e =? NO_STREAM)
      then left_spine (S (length ds)) ds path (d_child e) (items1 ++ rest) else Ok (items1 ++ rest)
    | Nonrecursive => Ok (items1 ++ rest)
    end = Ok (items2 ++ items1 ++ rest) /\
    Forall2 (item_ok ds) items2 ws2 /\ (list_sum ws2 <= length (ids3 c))%nat).
  { destruct ord.
    - exists [], []. split; [reflexivity|]. split; [constructor|cbn; lia].
    - destruct (_ && _).
      + apply left_spine_model; assumption.
      + exists [], []. split; [reflexivity|]. split; [constructor|cbn; lia]. }
  destruct H2 as (items2 & ws2 & -> & F2 & S2). cbn [rbind].
  apply (IH _ (ws2 ++ ws1 ++ ws')).
  - apply Forall2_app; [exact F2|]. apply Forall2_app; [exact F1|exact Frest].
  - rewrite !list_sum_app. clear - Hf Hw S1 S2. destruct vis; lia.
Qed.

Lemma entries_collect_nonrec_fine ds par root t :
  Good ds root t -> fine (entries_collect ds Nonrecursive par root).
Proof.
  intros G. pose proof (Good_size _ _ _ G) as Hs. destruct G as (HR & _).
  unfold entries_collect.
  destruct (left_spine_model ds par t root [] HR Hs) as (items & ws & -> & F & Hsum).
  cbn [rbind]. rewrite app_nil_r. eapply entries_go_fine; [exact F|lia].
Qed.

Lemma entries_collect_pre_fine ds par id : GoodAt ds id -> fine (entries_collect ds Preorder par id).
Proof.
  intros (Hne & t & G). destruct (Good_nonleaf _ _ _ G Hne) as (l & c & r & ->).
  apply Good_node in G. destruct G as (_ & _ & _ & e & He & _ & Gc & Gr).
  pose proof (Good_size _ _ _ Gc) as Sc. pose proof (Good_size _ _ _ Gr) as Sr.
  destruct Gc as (Hc & _). destruct Gr as (Hr & _).
  unfold entries_collect.
  apply (entries_go_fine ds Preorder _ _ [(1 + length (ids3 c))%nat]).
  - constructor; [|constructor]. exists e, c, r. cbn [fst snd]. repeat split; try assumption. lia.
  - cbn [list_sum fold_right]. lia.
Qed.

Lemma name_chain_go_fine : forall cs names, fine (name_chain_go cs names).
Proof.
  induction cs as [|c t IH]; intros names; cbn [name_chain_go]; [exact I|].
  destruct c; try apply IH. destruct names; [exact I|apply IH].
Qed.

Lemma name_chain_fine p : fine (name_chain_from_path p).
Proof. apply name_chain_go_fine. Qed.

Section Queries.
Variable s : cstate.
Hypothesis HT : DirTree (dirs s).

Lemma root_good : GoodAt (dirs s) ROOT_STREAM_ID.
Proof. destruct HT as (t & G). split; [discriminate|eauto]. Qed.

Lemma ro_names_of p : ro (names_of p) s (fun _ => True).
Proof. apply ro_lift; [apply name_chain_fine|auto]. Qed.

Lemma ro_lookup names : ro (lookup names) s (fun r => forall id, r = Some id -> GoodAt (dirs s) id).
Proof.
  unfold lookup. apply ro_get_bind.
  destruct (lookup_good (dirs s) names ROOT_STREAM_ID root_good) as (r & E & Hr).
  rewrite E. apply ro_lift; [exact I|]. intros a [= <-]. exact Hr.
Qed.

Lemma ro_dir_entry id : GoodAt (dirs s) id ->
  ro (dir_entry id) s (fun e => nthN (dirs s) id = Some e /\
        (d_type e = TRoot \/ d_type e = TStorage \/ d_type e = TStream)).
Proof.
  intros GA. destruct (GoodAt_entry _ _ GA) as (e & He & Ty).
  unfold dir_entry. apply ro_get_bind. rewrite He. apply ro_ret. auto.
Qed.

Lemma ro_lookup_path p :
  ro (lookup_path p) s (fun r => forall id e, r = Some (id, e) ->
        GoodAt (dirs s) id /\ nthN (dirs s) id = Some e).
Proof.
  unfold lookup_path, ro. pose proof (name_chain_fine p) as Hn.
  destruct (name_chain_from_path p) as [names|k| |]; try contradiction.
  2:{ eexists. split; [reflexivity|]. split; [exact I|]. intros a [= <-]. discriminate. }
  destruct (ro_lookup names) as (r & -> & Hf & Hr).
  destruct r as [[id|]|k| |]; try contradiction.
  - destruct (ro_dir_entry id (Hr _ eq_refl _ eq_refl)) as (r2 & -> & Hf2 & Hr2).
    destruct r2 as [e|k| |]; try contradiction.
    + eexists. split; [reflexivity|]. split; [exact I|]. intros a [= <-] id' e' [= <- <-].
      split; [apply (Hr _ eq_refl _ eq_refl)|apply (Hr2 _ eq_refl)].
    + eexists. split; [reflexivity|]. split; [exact I|]. discriminate.
  - eexists. split; [reflexivity|]. split; [exact I|]. intros a [= <-]. discriminate.
  - eexists. split; [reflexivity|]. split; [exact I|]. discriminate.
Qed.

Lemma ro_api_exists p : ro (api_exists p) s (fun _ => True).
Proof. unfold api_exists. eapply ro_bind; [apply ro_lookup_path|]. intros; apply ro_ret; exact I. Qed.
Lemma ro_api_is_stream p : ro (api_is_stream p) s (fun _ => True).
Proof. unfold api_is_stream. eapply ro_bind; [apply ro_lookup_path|]. intros; apply ro_ret; exact I. Qed.
Lemma ro_api_is_storage p : ro (api_is_storage p) s (fun _ => True).
Proof. unfold api_is_storage. eapply ro_bind; [apply ro_lookup_path|]. intros; apply ro_ret; exact I. Qed.

Lemma ro_api_entry p : ro (api_entry p) s (fun _ => True).
Proof.
  unfold api_entry. eapply ro_bind; [apply ro_names_of|]. intros names _.
  eapply ro_bind; [apply ro_lookup|]. intros [id|] Hr; [|apply ro_fail].
  eapply ro_bind; [apply ro_dir_entry; auto|]. intros; apply ro_ret; exact I.
Qed.

Lemma ro_api_root_entry : ro api_root_entry s (fun _ => True).
Proof.
  unfold api_root_entry. eapply ro_bind; [apply ro_dir_entry, root_good|].
  intros; apply ro_ret; exact I.
Qed.

Lemma GoodAt_child id e : GoodAt (dirs s) id -> nthN (dirs s) id = Some e ->
  exists c, Good (dirs s) (d_child e) c.
Proof.
  intros (Hne & t & G) He. destruct (Good_nonleaf _ _ _ G Hne) as (l & c & r & ->).
  apply Good_node in G. destruct G as (_ & _ & _ & e' & He' & _ & Gc & _).
  assert (e' = e) by congruence. subst e'. eauto.
Qed.

Lemma ro_api_read_root : ro api_read_root s (fun _ => True).
Proof.
  unfold api_read_root. eapply ro_bind; [apply ro_dir_entry, root_good|]. intros e [He _].
  apply ro_get_bind. destruct (GoodAt_child _ _ root_good He) as (c & Gc).
  apply ro_lift; [|auto]. eapply entries_collect_nonrec_fine; eauto.
Qed.

Lemma ro_api_read_storage p : ro (api_read_storage p) s (fun _ => True).
Proof.
  unfold api_read_storage. eapply ro_bind; [apply ro_names_of|]. intros names _.
  eapply ro_bind; [apply ro_lookup|]. intros [id|] Hr; [|apply ro_fail].
  specialize (Hr _ eq_refl).
  eapply ro_bind; [apply ro_dir_entry; auto|]. intros e [He Ty].
  destruct (objtype_eqb (d_type e) TStream) eqn:E1; [apply ro_fail|].
  replace (negb (objtype_eqb (d_type e) TStorage) && negb (objtype_eqb (d_type e) TRoot)) with false.
  2:{ destruct (d_type e); cbn in E1 |- *; try reflexivity; try discriminate.
      destruct Ty as [T|[T|T]]; discriminate. }
  apply ro_get_bind. destruct (GoodAt_child _ _ Hr He) as (c & Gc).
  apply ro_lift; [|auto]. eapply entries_collect_nonrec_fine; eauto.
Qed.

Lemma ro_api_walk : ro api_walk s (fun _ => True).
Proof.
  unfold api_walk. apply ro_get_bind. apply ro_lift; [|auto].
  apply entries_collect_pre_fine, root_good.
Qed.

Lemma ro_api_walk_storage p : ro (api_walk_storage p) s (fun _ => True).
Proof.
  unfold api_walk_storage. eapply ro_bind; [apply ro_names_of|]. intros names _.
  eapply ro_bind; [apply ro_lookup|]. intros [id|] Hr; [|apply ro_fail].
  apply ro_get_bind. apply ro_lift; [|auto]. apply entries_collect_pre_fine. auto.
Qed.

End Queries.

(* ================================================================== *)
(* T3. reading a stream's bytes                                        *)
(* ================================================================== *)
Definition Inv (s : cstate) : Prop :=
  check_pointees false (fat s) (lenN (fat s)) [] = Ok tt /\
  check_pointees true (minifat s) (lenN (minifat s)) [] = Ok tt /\
  DirTree (dirs s) /\
  lenN (fat s) <= lenN (img s).

Lemma slen_cases s : slen s = 512 \/ slen s = 4096.
Proof. unfold slen. apply sector_len_cases. Qed.

Lemma ro_seek_sector sid off s : off <= slen s -> ro (seek_sector sid off) s (fun _ => True).
Proof.
  intros H. unfold seek_sector. apply ro_get_bind.
  destruct (N.ltb_spec (slen s) off); [lia|].
  destruct (_ <=? _); [apply ro_fail|apply ro_ret; exact I].
Qed.

Lemma ro_sector_read_exact sid off n s : off <= slen s ->
  ro (sector_read_exact sid off n) s (fun bs => lenN bs = n).
Proof.
  intros H. unfold sector_read_exact.
  eapply ro_bind; [apply ro_seek_sector; exact H|]. intros _ _.
  apply ro_get_bind. cbv zeta.
  pose proof (lenN_img_read (img s) (sid + 1) off n).
  destruct (N.ltb_spec (lenN (img_read (img s) (sid + 1) off n)) n); [apply ro_fail|].
  apply ro_ret. lia.
Qed.

Section Reads.
Variable s : cstate.
Hypothesis HI : Inv s.

Lemma ro_chain_new start i :
  ro (chain_new start i) s (fun c => c_off c = 0 /\ chain_ids_of (fat s) start = Ok (c_ids c)).
Proof.
  destruct HI as (Hf & _). unfold chain_new. apply ro_get_bind.
  eapply ro_bind.
  - apply (ro_lift _ s (fun ids => chain_ids_of (fat s) start = Ok ids)).
    + eapply chain_ids_fine; eauto.
    + auto.
  - intros ids Hids. apply ro_ret. cbn. auto.
Qed.

Lemma ro_chain_seek c pos :
  ro (chain_seek c pos) s (fun c' => c_ids c' = c_ids c /\ c_off c' = pos /\
                                      pos <= chain_len (slen s) c).
Proof.
  unfold chain_seek. apply ro_get_bind.
  destruct (N.ltb_spec (chain_len (slen s) c) pos); [apply ro_fail|].
  apply ro_ret. cbn. auto.
Qed.

Lemma sector_read_exact_state sid off n : fst (sector_read_exact sid off n s) = s.
Proof.
  unfold sector_read_exact, seek_sector, bind, get, panic, fail, ret. cbv beta iota zeta.
  destruct (_ <? off); [reflexivity|]. destruct (_ <=? sid); [reflexivity|].
  cbv beta iota. destruct (_ <? n); reflexivity.
Qed.

Lemma chain_read_go_state : forall f c n acc, fst (chain_read_go f c n acc s) = s.
Proof.
  induction f as [|f IH]; intros c n acc; [reflexivity|].
  cbn [chain_read_go]. destruct (n =? 0); [reflexivity|].
  unfold bind at 1, get at 1. cbv beta iota zeta.
  destruct (_ <? c_off c); [reflexivity|].
  destruct (_ =? 0); [reflexivity|].
  destruct (nthN _ _) as [sid|]; [|reflexivity].
  unfold bind at 1.
  pose proof (sector_read_exact_state sid (c_off c mod slen s)
                (N.min (N.min n (chain_len (slen s) c - c_off c)) (slen s - c_off c mod slen s))) as E.
  destruct (sector_read_exact _ _ _ s) as [s1 r]. cbn [fst] in E. subst s1.
  destruct r; try reflexivity. apply IH.
Qed.

Lemma chain_read_go_post : forall f c n acc s' c' bs,
  c_off c <= chain_len (slen s) c ->
  chain_read_go f c n acc s = (s', Ok (c', bs)) ->
  c_off c + n <= chain_len (slen s) c.
Proof.
  induction f as [|f IH]; intros c n acc s' c' bs Hoff; [discriminate|].
  cbn [chain_read_go]. destruct (N.eqb_spec n 0) as [->|Hn]; [intros _; lia|].
  unfold bind at 1, get at 1. cbv beta iota zeta.
  destruct (_ <? c_off c); [unfold panic; discriminate|].
  destruct (N.eqb_spec (N.min n (chain_len (slen s) c - c_off c)) 0); [unfold fail; discriminate|].
  destruct (nthN (c_ids c) _) as [sid|]; [|unfold panic; discriminate].
  set (k := N.min _ (slen s - _)). unfold bind at 1.
  destruct (sector_read_exact sid (c_off c mod slen s) k s) as [s1 r] eqn:E.
  destruct r as [bs0| | |]; try discriminate.
  apply sector_read_exact_len in E. destruct E as [-> Hb].
  intros H. apply IH in H; unfold chain_len in *; cbn [c_ids c_off] in *; lia.
Qed.

Lemma ro_chain_read_exact c n : c_off c <= chain_len (slen s) c ->
  ro (chain_read_exact c n) s (fun r => lenN (snd r) = n /\ c_off c + n <= chain_len (slen s) c).
Proof.
  intros Hoff. pose proof (chain_read_exact_fine_gen c n s Hoff) as Hf.
  unfold chain_read_exact, bind at 1, get at 1 in Hf. cbv beta iota in Hf.
  unfold ro, chain_read_exact, bind at 1, get at 1. cbv beta iota.
  pose proof (chain_read_go_state (S (S (S (N.to_nat (n / slen s))))) c n []) as Hs.
  destruct (chain_read_go _ c n [] s) as [s1 r] eqn:E. cbn [fst snd] in *. subst s1.
  exists r. split; [reflexivity|]. split; [exact Hf|].
  intros [c' bs] ->. cbn [snd]. split.
  - apply chain_read_go_len in E. cbn [lenN] in E. lia.
  - eapply chain_read_go_post; eauto.
Qed.

(* ---- mini chains ---- *)
Lemma ro_mchain_new start :
  ro (mchain_new start) s (fun c => mc_off c = 0 /\ chain_ids_of (minifat s) start = Ok (mc_ids c)).
Proof.
  destruct HI as (_ & Hm & _). unfold mchain_new. apply ro_get_bind.
  eapply ro_bind.
  - apply (ro_lift _ s (fun ids => chain_ids_of (minifat s) start = Ok ids)).
    + eapply chain_ids_fine; eauto.
    + auto.
  - intros ids Hids. apply ro_ret. cbn. auto.
Qed.

Lemma ro_mchain_seek c pos :
  ro (mchain_seek c pos) s (fun c' => mc_ids c' = mc_ids c /\ mc_off c' = pos /\ pos <= mchain_len c).
Proof.
  unfold mchain_seek.
  destruct (N.ltb_spec (mchain_len c) pos); [apply ro_fail|].
  apply ro_ret. cbn. auto.
Qed.

(* the mini sector lies inside the root entry's chain *)
Definition loc (ms : N) : Prop := ms / (slen s / 64) < lenN (fat s).

Lemma ro_mini_locate ms off : off < 64 ->
  ro (mini_locate ms off) s (fun r => snd r + (64 - off) <= slen s /\ loc ms).
Proof.
  intros Hoff. unfold mini_locate. change MINI_SECTOR_LEN with 64.
  destruct (N.leb_spec 64 off); [lia|].
  eapply ro_bind.
  { unfold root_entry. apply ro_dir_entry. apply root_good. apply HI. }
  intros r _.
  eapply ro_bind; [apply ro_chain_new|]. intros c [_ Hc].
  apply ro_get_bind. cbv zeta.
  destruct (nthN (c_ids c) (ms / (slen s / 64))) as [sid|] eqn:Hn; [|apply ro_fail].
  assert (Ho : ms mod (slen s / 64) * 64 + off + (64 - off) <= slen s).
  { destruct (slen_cases s) as [E|E]; rewrite E.
    - change (512 / 64) with 8. pose proof (N.mod_lt ms 8). lia.
    - change (4096 / 64) with 64. pose proof (N.mod_lt ms 64). lia. }
  eapply ro_bind; [apply ro_seek_sector; lia|]. intros _ _.
  apply ro_ret. cbn [snd]. split; [exact Ho|].
  unfold loc. apply nthN_Some_lt in Hn.
  destruct HI as (Hf & _).
  destruct (chain_ids_nodup _ _ Hf _ _ Hc) as (_ & _ & Hl).
  rewrite !lenN_length in *. lia.
Qed.

Definition need (ow m : N) : nat := if m =? 0 then 0%nat else N.to_nat ((ow + m + 63) / 64).

Lemma ro_mchain_read_go : forall f c n acc,
  mc_off c <= mchain_len c ->
  (need (mc_off c mod 64) (N.min n (mchain_len c - mc_off c)) + 1 <= f)%nat ->
  ro (mchain_read_go f c n acc) s (fun r =>
    lenN (snd r) = lenN acc + n /\ mc_off c + n <= mchain_len c /\
    forall b ms, mc_off c <= b -> b < mc_off c + n -> nthN (mc_ids c) (b / 64) = Some ms -> loc ms).
Proof.
  induction f as [|f IH]; intros c n acc Hoff Hf; [lia|].
  cbn [mchain_read_go]. destruct (N.eqb_spec n 0) as [->|Hn].
  { apply ro_ret. cbn [snd]. split; [lia|]. split; [lia|]. intros; lia. }
  cbv zeta. change MINI_SECTOR_LEN with 64 in *.
  unfold mchain_len in *. change MINI_SECTOR_LEN with 64 in *.
  set (L := lenN (mc_ids c)) in *. set (off := mc_off c) in *.
  destruct (N.ltb_spec (64 * L) off); [lia|].
  destruct (N.eqb_spec (N.min n (64 * L - off)) 0) as [|Hm]; [apply ro_fail|].
  destruct (nthN (mc_ids c) (off / 64)) as [ms|] eqn:Hnth.
  2:{ apply nthN_None_ge in Hnth. fold L in Hnth. lia. }
  set (ow := off mod 64) in *.
  assert (How : ow < 64) by (apply N.mod_lt; lia).
  assert (Hdm : off = 64 * (off / 64) + ow) by (apply N.div_mod'; lia).
  set (m := N.min n (64 * L - off)) in *.
  set (k := N.min m (64 - ow)).
  eapply ro_bind; [apply ro_mini_locate; exact How|]. intros [sid o] [Ho Hloc]. cbn [snd] in Ho.
  eapply ro_bind; [apply ro_sector_read_exact; lia|]. intros bs Hbs.
  assert (Hk : k <= m /\ k <= 64 - ow /\ 0 < k) by lia.
  eapply ro_weaken.
  - apply IH; cbn [mc_off mc_ids]; fold L; fold off.
    + lia.
    + unfold need in *. fold m in Hf.
      destruct (N.eqb_spec m 0) as [|_]; [contradiction|].
      assert (Em : N.min (n - k) (64 * L - (off + k)) = m - k) by lia. rewrite Em.
      destruct (N.eqb_spec (m - k) 0) as [|Hmk].
      * assert (1 <= (ow + m + 63) / 64) by (apply N.div_le_lower_bound; lia). lia.
      * assert (Ek : k = 64 - ow) by lia.
        assert (Eo : (off + k) mod 64 = 0).
        { rewrite Hdm, Ek. replace (64 * (off / 64) + ow + (64 - ow)) with ((off / 64 + 1) * 64) by lia.
          apply N.mod_mul. lia. }
        rewrite Eo.
        assert (Ed : (ow + m + 63) / 64 = 1 + (0 + (m - k) + 63) / 64).
        { rewrite <- N.div_add_l by lia. f_equal. lia. }
        lia.
  - intros [c' bs'] (H1 & H2 & H3). cbn [snd mc_off mc_ids] in *. fold L in H2. fold off in H2, H3.
    rewrite lenN_app, Hbs in H1.
    split; [lia|]. split; [lia|].
    intros b ms' Hb1 Hb2 Hb.
    destruct (N.lt_ge_cases b (off + k)) as [Hlt|Hge].
    + assert (b / 64 = off / 64).
      { rewrite Hdm at 1. symmetry. apply N.div_unique with (b - 64 * (off / 64)); lia. }
      congruence.
    + apply (H3 b ms'); [lia|lia|exact Hb].
Qed.

Lemma ro_mchain_read_exact c n : mc_off c <= mchain_len c ->
  ro (mchain_read_exact c n) s (fun r =>
    lenN (snd r) = n /\ mc_off c + n <= mchain_len c /\
    forall b ms, mc_off c <= b -> b < mc_off c + n -> nthN (mc_ids c) (b / 64) = Some ms -> loc ms).
Proof.
  intros Hoff. unfold mchain_read_exact. change MINI_SECTOR_LEN with 64.
  eapply ro_weaken; [apply ro_mchain_read_go; [exact Hoff|]|].
  - unfold need. destruct (_ =? 0); [lia|].
    set (m := N.min _ _). set (ow := mc_off c mod 64).
    assert (How : ow < 64) by (apply N.mod_lt; lia).
    assert (Hm : m <= n) by lia.
    assert ((ow + m + 63) / 64 <= (n + 128) / 64) by (apply N.div_le_mono; lia).
    assert (E : (n + 128) / 64 = n / 64 + 2).
    { replace (n + 128) with (n + 2 * 64) by lia. apply N.div_add. lia. }
    lia.
  - intros [c' bs] H. cbn [snd lenN] in *. exact H.
Qed.

(* ---- read_data ---- *)
(* "the first D bytes of the stream lie in sectors that exist" *)
Definition Backed (e : dirent) (D : N) : Prop :=
  D = 0 \/
  if d_len e <? MINI_STREAM_CUTOFF then
    exists mids, chain_ids_of (minifat s) (d_start e) = Ok mids /\ D <= 64 * lenN mids /\
      forall b ms, b < D -> nthN mids (b / 64) = Some ms -> loc ms
  else
    exists ids, chain_ids_of (fat s) (d_start e) = Ok ids /\ D <= slen s * lenN ids.

Lemma ro_read_data id off n e :
  nthN (dirs s) id = Some e -> d_type e = TStream ->
  ro (read_data id off n) s (fun bs =>
    lenN bs = (if d_len e <=? off then 0 else N.min (d_len e - off) n) /\
    (lenN bs <> 0 -> Backed e off -> Backed e (off + lenN bs))).
Proof.
  intros He Ht. unfold read_data.
  eapply ro_bind.
  { unfold stream_entry. eapply ro_bind.
    - unfold dir_entry. apply ro_get_bind. rewrite He. apply (ro_ret e s (fun x => x = e)). reflexivity.
    - intros e' ->. rewrite Ht. cbn [objtype_eqb negb].
      apply (ro_ret _ s (fun p => p = (d_start e, d_len e))). reflexivity. }
  intros p ->. cbv beta iota zeta.
  set (n0 := if d_len e <=? off then 0 else N.min (d_len e - off) n).
  destruct (N.eqb_spec n0 0) as [E0|Hn0].
  { apply ro_ret. cbn [lenN]. split; [lia|]. intros; contradiction. }
  unfold Backed.
  destruct (d_len e <? MINI_STREAM_CUTOFF).
  - eapply ro_bind; [apply ro_mchain_new|]. intros c [Hc0 Hcids].
    eapply ro_bind; [apply ro_mchain_seek|]. intros c1 (Hi1 & Ho1 & Hp1).
    eapply ro_bind.
    { apply ro_mchain_read_exact. unfold mchain_len in *. rewrite Hi1, Ho1. exact Hp1. }
    intros [c2 bs] (Hl & Hend & Hloc). cbn [snd] in Hl.
    apply ro_ret. split; [exact Hl|]. intros _ HB. right.
    exists (mc_ids c). split; [exact Hcids|].
    unfold mchain_len in Hend. change MINI_SECTOR_LEN with 64 in Hend.
    rewrite Hi1, Ho1, Hl in *. split; [exact Hend|].
    intros b ms Hlt Hn. destruct (N.lt_ge_cases b off) as [Hbo|Hbo]; [|eapply Hloc; eauto].
    destruct HB as [->|(mids & Hm & HD & Hb)]; [lia|].
    rewrite Hcids in Hm. injection Hm as <-. eapply Hb; eauto.
  - eapply ro_bind; [apply ro_chain_new|]. intros c [Hc0 Hcids].
    eapply ro_bind; [apply ro_chain_seek|]. intros c1 (Hi1 & Ho1 & Hp1).
    eapply ro_bind.
    { apply ro_chain_read_exact. unfold chain_len in *. rewrite Hi1, Ho1. exact Hp1. }
    intros [c2 bs] (Hl & Hend). cbn [snd] in Hl.
    apply ro_ret. split; [exact Hl|]. intros _ _. right.
    exists (c_ids c). split; [exact Hcids|].
    unfold chain_len in Hend. rewrite Hi1, Ho1, Hl in *. exact Hend.
Qed.


Lemma nth_error_firstn_some {A} : forall n (l : list A) k x,
  nth_error (firstn n l) k = Some x -> nth_error l k = Some x /\ (k < n)%nat.
Proof.
  induction n as [|n IH]; intros l k x H.
  - cbn in H. destruct k; discriminate.
  - destruct l as [|y l]; cbn in H; [destruct k; discriminate|].
    destruct k as [|k]; cbn in *; [split; [exact H|lia]|].
    apply IH in H. destruct H. split; [assumption|lia].
Qed.

Lemma prefix_bound (l : list N) (J B : N) :
  NoDup l -> J <= lenN l -> (forall j x, j < J -> nthN l j = Some x -> x < B) -> J <= B.
Proof.
  intros ND HJ Hb. set (p := firstn (N.to_nat J) l).
  assert (NDp : NoDup p).
  { apply (nodup_app_l p (skipn (N.to_nat J) l)). unfold p. rewrite firstn_skipn. exact ND. }
  assert (Fp : Forall (fun x => x < B) p).
  { apply Forall_forall. intros x Hx. apply In_nth_error in Hx. destruct Hx as [k Hk].
    apply nth_error_firstn_some in Hk. destruct Hk as [Hk Hlt].
    apply (Hb (N.of_nat k)); [lia|]. rewrite nthN_nth_error, Nat2N.id. exact Hk. }
  pose proof (bounded_nodup_length _ _ NDp Fp) as H. unfold p in H.
  rewrite lenN_length in HJ. rewrite firstn_length_le in H by lia. lia.
Qed.

Lemma Backed_bound e D : Backed e D -> D <= slen s * lenN (fat s).
Proof.
  destruct HI as (Hf & Hm & _).
  intros [->|H]; [lia|]. destruct (d_len e <? MINI_STREAM_CUTOFF).
  - destruct H as (mids & Hc & HD & Hb).
    destruct (chain_ids_nodup _ _ Hm _ _ Hc) as (ND & _ & _).
    set (per := slen s / 64) in *.
    assert (HJ : (D + 63) / 64 <= per * lenN (fat s)).
    { apply (prefix_bound mids); [exact ND| |].
      - assert ((D + 63) / 64 < lenN mids + 1) by (apply N.div_lt_upper_bound; lia). lia.
      - intros j x Hj Hx.
        assert (Hj' : 64 * j < D).
        { assert ((D + 63) / 64 * 64 <= D + 63) by (rewrite N.mul_comm; apply N.mul_div_le; lia). lia. }
        assert (Hx' : nthN mids (64 * j / 64) = Some x).
        { rewrite N.mul_comm, N.div_mul by lia. exact Hx. }
        specialize (Hb _ _ Hj' Hx'). unfold loc in Hb. fold per in Hb.
        assert (Hper : per <> 0).
        { unfold per. destruct (slen_cases s) as [E|E]; rewrite E; discriminate. }
        destruct (N.lt_ge_cases x (per * lenN (fat s))) as [|Hge]; [assumption|].
        apply N.div_le_lower_bound in Hge; [lia|exact Hper]. }
    assert (HD2 : D <= 64 * ((D + 63) / 64)).
    { pose proof (N.div_mod' (D + 63) 64). pose proof (N.mod_lt (D + 63) 64). lia. }
    assert (Hsl : slen s = 64 * per).
    { unfold per. destruct (slen_cases s) as [E|E]; rewrite E; reflexivity. }
    rewrite Hsl. rewrite <- N.mul_assoc.
    etransitivity; [exact HD2|]. apply N.mul_le_mono_l. exact HJ.
  - destruct H as (ids & Hc & HD).
    destruct (chain_ids_nodup _ _ Hf _ _ Hc) as (_ & _ & Hl).
    etransitivity; [exact HD|]. apply N.mul_le_mono_l. rewrite !lenN_length. lia.
Qed.

End Reads.

(* ================================================================== *)
(* T4. the buffered handle, read-only operations                       *)
(* ================================================================== *)
Definition HandleOk (s : cstate) (h : handle) : Prop :=
  exists e, nthN (dirs s) (h_id h) = Some e /\ d_type e = TStream /\
    h_total h = d_len e /\ h_dirty h = false /\
    b_pos (h_buf h) <= b_cap (h_buf h) /\
    b_cap (h_buf h) <= lenN (b_data (h_buf h)) /\
    STREAM_BUFFER_MIN <= lenN (b_data (h_buf h)) /\
    STREAM_BUFFER_MIN <= b_max (h_buf h) /\
    h_off h + b_cap (h_buf h) <= h_total h.

Lemma lenN_buf_resize (d : list byte) n : lenN (buf_resize d n) = n.
Proof.
  unfold buf_resize. rewrite lenN_app, lenN_takeN, lenN_repeatN. lia.
Qed.

Lemma grow_for_read_props b rem :
  STREAM_BUFFER_MIN <= lenN (b_data b) ->
  STREAM_BUFFER_MIN <= lenN (b_data (buf_grow_for_read b rem)) /\
  b_max (buf_grow_for_read b rem) = b_max b.
Proof.
  intros H. unfold buf_grow_for_read. destruct (_ <=? _); [auto|].
  cbn [b_data b_max]. rewrite lenN_buf_resize. split; [lia|reflexivity].
Qed.

Lemma lenN_buf_remaining b : b_cap b <= lenN (b_data b) ->
  lenN (buf_remaining b) = b_cap b - b_pos b.
Proof. intros H. unfold buf_remaining. rewrite lenN_dropN, lenN_takeN. lia. Qed.

Lemma lenN_0_nil {A} (l : list A) : lenN l = 0 -> l = [].
Proof. destruct l; [reflexivity|]. cbn [lenN]. lia. Qed.

Section Handles.
Variable s : cstate.
Hypothesis HI : Inv s.

Lemma ro_open_stream p mb :
  ro (api_open_stream p mb) s (fun h => HandleOk s h /\ h_off h = 0 /\
        b_pos (h_buf h) = 0 /\ b_cap (h_buf h) = 0).
Proof.
  assert (HT : DirTree (dirs s)) by apply HI.
  unfold api_open_stream. eapply ro_bind; [apply ro_names_of|]. intros names _.
  eapply ro_bind; [apply ro_lookup; exact HT|]. intros [id|] Hr; [|apply ro_fail].
  specialize (Hr _ eq_refl).
  eapply ro_bind; [apply ro_dir_entry; auto|]. intros e [He _].
  destruct (objtype_eqb (d_type e) TStream) eqn:Ety; cbn [negb]; [|apply ro_fail].
  assert (Ht : d_type e = TStream) by (destruct (d_type e); cbn in Ety; congruence).
  unfold handle_new', handle_new, stream_len_of, ro.
  unfold dir_entry. unfold bind, get. cbv beta iota. rewrite He. unfold ret. cbv beta iota.
  eexists. split; [reflexivity|]. split; [exact I|]. intros h [= <-].
  cbn [h_off h_buf b_pos b_cap buf_new]. split; [|auto].
  exists e. cbn [h_id h_total h_dirty h_buf h_off buf_new b_pos b_cap b_data b_max].
  rewrite lenN_repeatN. unfold STREAM_BUFFER_MIN. repeat split; try assumption; lia.
Qed.

(* what a refill does to the handle *)
Definition refilled (e : dirent) (h h' : handle) : Prop :=
  h_id h' = h_id h /\ h_total h' = h_total h /\
  h_off h' = h_off h + b_pos (h_buf h) /\ b_pos (h_buf h') = 0 /\
  h_off h' < h_total h /\
  (exists buflen, STREAM_BUFFER_MIN <= buflen /\
     b_cap (h_buf h') = N.min (h_total h - h_off h') buflen) /\
  (Backed s e (h_off h') -> Backed s e (h_off h' + b_cap (h_buf h'))).

Lemma fill_buf_spec h e : HandleOk s h -> nthN (dirs s) (h_id h) = Some e ->
  exists h' r, h_fill_buf' h s = (s, (h', r)) /\ fine r /\ HandleOk s h' /\
    h_id h' = h_id h /\
    forall avail, r = Ok avail ->
      lenN avail = b_cap (h_buf h') - b_pos (h_buf h') /\
      (h' = h \/ refilled e h h').
Proof.
  intros (e' & He' & Ht & Htot & Hd & Hpc & Hcl & Hmin & Hmax & Hoc) He.
  assert (e' = e) by congruence. subst e'.
  unfold h_fill_buf', h_fill_buf. cbv zeta.
  destruct (negb (b_pos (h_buf h) <? b_cap (h_buf h)) && (h_position h <? h_total h)) eqn:Hc.
  2:{ exists h, (Ok (buf_remaining (h_buf h))). split; [reflexivity|]. split; [exact I|].
      split; [exists e; repeat split; assumption|]. split; [reflexivity|].
      intros avail [= <-]. split; [apply lenN_buf_remaining; exact Hcl|left; reflexivity]. }
  apply andb_true_iff in Hc. destruct Hc as [Hc1 Hc2].
  apply negb_true_iff, N.ltb_ge in Hc1. apply N.ltb_lt in Hc2. unfold h_position in Hc2.
  unfold flush_changes. rewrite Hd.
  set (off := h_off h + b_pos (h_buf h)) in *.
  set (b0 := mkBuf (b_data (h_buf h)) 0 (b_cap (h_buf h)) (b_max (h_buf h))).
  set (b1 := buf_grow_for_read b0 (h_total h - off)).
  destruct (grow_for_read_props b0 (h_total h - off) Hmin) as [Hmin1 Hmax1]. fold b1 in Hmin1, Hmax1.
  cbn [b_max b0] in Hmax1.
  set (limit := N.min (h_total h - off) (lenN (b_data b1))).
  destruct (ro_read_data s HI (h_id h) off limit e He Ht) as (r & E & Hf & Hr).
  rewrite E.
  destruct r as [got|k| |]; try contradiction.
  - destruct (Hr got eq_refl) as [Hlen HB]. clear Hr.
    assert (Hlen' : lenN got = N.min (h_total h - off) (lenN (b_data b1))).
    { rewrite Hlen. subst limit. destruct (N.leb_spec (d_len e) off); lia. }
    clear Hlen.
    destruct (N.ltb_spec limit (lenN got)); [subst limit; lia|].
    eexists _, _. split; [reflexivity|]. split; [exact I|].
    cbn [h_id h_buf b_cap b_pos].
    split; [|split; [reflexivity|]].
    + exists e. cbn [h_id h_total h_dirty h_buf h_off b_pos b_cap b_data b_max].
      unfold byte in *. rewrite lenN_app, lenN_dropN.
      repeat split; try assumption; lia.
    + intros avail [= <-]. split.
      * rewrite lenN_buf_remaining; cbn [b_cap b_pos b_data]; [reflexivity|].
        unfold byte in *. rewrite lenN_app, lenN_dropN. lia.
      * right. unfold refilled. cbn [h_id h_total h_off h_buf b_pos b_cap].
        repeat split; try reflexivity; try assumption.
        -- exists (lenN (b_data b1)). split; [exact Hmin1|exact Hlen'].
        -- intros HB0. apply HB; [|exact HB0]. unfold STREAM_BUFFER_MIN in *. lia.
  - eexists _, _. split; [reflexivity|]. split; [exact I|].
    split; [|split; [reflexivity|discriminate]].
    exists e. cbn [h_id h_total h_dirty h_buf h_off buf_clear b_pos b_cap b_data b_max].
    repeat split; try assumption; lia.
Qed.

Lemma consume_spec h amt : HandleOk s h -> amt <= b_cap (h_buf h) - b_pos (h_buf h) ->
  exists h', h_consume h amt = (h', Ok tt) /\ HandleOk s h' /\
    h_id h' = h_id h /\ h_total h' = h_total h /\ h_off h' = h_off h /\
    b_cap (h_buf h') = b_cap (h_buf h) /\ b_pos (h_buf h') = b_pos (h_buf h) + amt.
Proof.
  intros (e & He & Ht & Htot & Hd & Hpc & Hcl & Hmin & Hmax & Hoc) Ha.
  unfold h_consume. cbv zeta.
  destruct (N.ltb_spec (b_cap (h_buf h)) (b_pos (h_buf h) + amt)); [lia|].
  eexists. split; [reflexivity|]. cbn [h_with_buf h_id h_total h_off h_buf b_cap b_pos].
  split; [|repeat split; reflexivity].
  exists e. cbn [h_id h_total h_dirty h_buf h_off b_pos b_cap b_data b_max].
  repeat split; try assumption; lia.
Qed.

Lemma read_spec h n : HandleOk s h ->
  exists h' r, h_read' h n s = (s, (h', r)) /\ fine r /\ HandleOk s h'.
Proof.
  intros HO. pose proof HO as (e & He & _).
  destruct (fill_buf_spec h e HO He) as (h1 & r & E & Hf & HO1 & _ & Hr).
  unfold h_read', h_read. fold h_fill_buf'. rewrite E.
  destruct r as [avail|k| |]; try contradiction.
  - destruct (Hr avail eq_refl) as [Hl _].
    destruct (consume_spec h1 (lenN (takeN n avail)) HO1) as (h2 & Ec & HO2 & _).
    { rewrite lenN_takeN. lia. }
    rewrite Ec. eexists _, _. split; [reflexivity|]. split; [exact I|exact HO2].
  - eexists _, _. split; [reflexivity|]. split; [exact I|exact HO1].
Qed.

Lemma seek_target_ok h w z : HandleOk s h ->
  match seek_target h w z with
  | Ok np => np <= h_total h
  | Err _ => True
  | _ => False
  end.
Proof.
  intros (e & He & Ht & Htot & Hd & Hpc & Hcl & Hmin & Hmax & Hoc).
  unfold seek_target, h_position. destruct w.
  - destruct (N.ltb_spec (h_total h) (Z.to_N z)); [exact I|lia].
  - destruct (0 <? z)%Z; [exact I|].
    destruct (N.ltb_spec (h_total h) (Z.to_N (Z.abs z))); [exact I|lia].
  - destruct (N.ltb_spec (h_total h) (h_off h + b_pos (h_buf h))); [lia|].
    destruct (z <? 0)%Z.
    + destruct (N.ltb_spec (h_off h + b_pos (h_buf h)) (Z.to_N (Z.abs z))); [exact I|lia].
    + destruct (N.ltb_spec (h_total h - (h_off h + b_pos (h_buf h))) (Z.to_N z)); [exact I|lia].
Qed.

Lemma seek_spec h w z : HandleOk s h ->
  exists h' r, h_seek' h w z s = (s, (h', r)) /\ fine r /\ HandleOk s h'.
Proof.
  intros HO. pose proof (seek_target_ok h w z HO) as Hst.
  destruct HO as (e & He & Ht & Htot & Hd & Hpc & Hcl & Hmin & Hmax & Hoc).
  assert (HO : HandleOk s h) by (exists e; repeat split; assumption).
  unfold h_seek', h_seek.
  destruct (seek_target h w z) as [np|k| |]; try contradiction.
  2:{ eexists _, _. split; [reflexivity|]. split; [exact I|exact HO]. }
  destruct ((np <? h_off h) || (h_off h + b_cap (h_buf h) <? np)) eqn:Hw.
  - unfold flush_changes. rewrite Hd.
    eexists _, _. split; [reflexivity|]. split; [exact I|].
    exists e. cbn [h_id h_total h_dirty h_buf h_off buf_clear b_pos b_cap b_data b_max].
    repeat split; try assumption; lia.
  - apply orb_false_iff in Hw. destruct Hw as [Hw1 Hw2].
    apply N.ltb_ge in Hw1, Hw2. cbv zeta.
    destruct (N.ltb_spec (lenN (b_data (h_buf h))) (np - h_off h)); [lia|].
    eexists _, _. split; [reflexivity|]. split; [exact I|].
    exists e. cbn [h_with_buf h_id h_total h_dirty h_buf h_off b_pos b_cap b_data b_max].
    repeat split; try assumption; lia.
Qed.

Lemma flush_clean h : HandleOk s h -> flush_changes' h s = (s, Ok h).
Proof.
  intros (e & _ & _ & _ & Hd & _). unfold flush_changes', flush_changes. rewrite Hd. reflexivity.
Qed.

(* ---- read to end ---- *)
Lemma cat_go_ro e : forall fuel h acc,
  HandleOk s h -> nthN (dirs s) (h_id h) = Some e ->
  b_pos (h_buf h) = b_cap (h_buf h) ->
  Backed s e (h_off h + b_cap (h_buf h)) ->
  (1 <= fuel)%nat ->
  (h_off h + b_cap (h_buf h) < h_total h ->
   (2 + N.to_nat (N.min (h_total h - (h_off h + b_cap (h_buf h)))
                        (slen s * lenN (fat s) - (h_off h + b_cap (h_buf h))) / STREAM_BUFFER_MIN)
    <= fuel)%nat) ->
  ro (cat_go fuel h acc) s (fun _ => True).
Proof.
  induction fuel as [|f IH]; intros h acc HO He Hpc HB Hf1 Hf2; [lia|].
  cbn [cat_go]. unfold ro.
  destruct (fill_buf_spec h e HO He) as (h1 & r & E & Hfr & HO1 & Hid1 & Hr). rewrite E.
  destruct r as [avail|k| |]; try contradiction.
  2:{ eexists. split; [reflexivity|]. split; [exact I|discriminate]. }
  destruct (Hr avail eq_refl) as [Hl Hcase]. clear Hr.
  destruct avail as [|a0 avail'].
  { eexists. split; [reflexivity|]. split; [exact I|auto]. }
  set (avail := a0 :: avail') in *.
  assert (Hnz : lenN avail <> 0) by (unfold avail; cbn [lenN]; lia).
  destruct Hcase as [->|RF]; [lia|].
  destruct RF as (Rid & Rtot & Roff & Rpos & Rlt & (buflen & Hbl & Rcap) & RB).
  destruct (consume_spec h1 (lenN avail) HO1) as (h2 & Ec & HO2 & Cid & Ctot & Coff & Ccap & Cpos); [lia|].
  rewrite Ec.
  rewrite Hpc in Roff.
  assert (HB1 : Backed s e (h_off h1 + b_cap (h_buf h1))) by (apply RB; rewrite Roff; exact HB).
  pose proof (Backed_bound s HI e _ HB1) as Hbound.
  pose proof (Backed_bound s HI e _ HB) as Hbound0.
  apply IH.
  - exact HO2.
  - rewrite Cid, Rid. exact He.
  - rewrite Cpos, Ccap, Rpos, Hl. lia.
  - rewrite Coff, Ccap. exact HB1.
  - assert (Hlt0 : h_off h + b_cap (h_buf h) < h_total h) by lia.
    specialize (Hf2 Hlt0). set (q := N.to_nat _) in Hf2. clearbody q. lia.
  - rewrite Ctot, Coff, Ccap, Rtot. intros Hlt.
    assert (Hlt0 : h_off h + b_cap (h_buf h) < h_total h) by lia.
    specialize (Hf2 Hlt0).
    set (D := h_off h + b_cap (h_buf h)) in *.
    set (C := slen s * lenN (fat s)) in *.
    set (T := h_total h) in *.
    set (n := b_cap (h_buf h1)) in *.
    assert (En : n = buflen) by lia.
    assert (Hn : STREAM_BUFFER_MIN <= n) by lia.
    rewrite Roff in *.
    assert (Ex : N.min (T - (D + n)) (C - (D + n)) = N.min (T - D) (C - D) - n) by lia.
    rewrite Ex.
    set (x := N.min (T - D) (C - D)) in *.
    assert (Hx : n <= x) by lia.
    unfold STREAM_BUFFER_MIN in *.
    assert (Hd : (x - n) / 1024 + 1 <= x / 1024).
    { replace ((x - n) / 1024 + 1) with ((x - n + 1 * 1024) / 1024) by (apply N.div_add; lia).
      apply N.div_le_mono; lia. }
    lia.
Qed.

Lemma ro_api_cat p mb : ro (api_cat p mb) s (fun _ => True).
Proof.
  unfold api_cat. eapply ro_bind; [apply ro_open_stream|].
  intros h (HO & Hoff & Hpos & Hcap). apply ro_get_bind. cbv zeta.
  pose proof HO as (e & He & _).
  apply (cat_go_ro e); try assumption.
  - congruence.
  - left. lia.
  - set (q := N.to_nat _). clearbody q. lia.
  - intros _. rewrite Hoff, Hcap.
    destruct HI as (_ & _ & _ & Himg).
    assert (Hc : slen s * lenN (fat s) <= lenN (img s) * slen s).
    { rewrite (N.mul_comm (slen s)). apply N.mul_le_mono_r. exact Himg. }
    unfold STREAM_BUFFER_MIN.
    assert (Hd : N.min (h_total h - (0 + 0)) (slen s * lenN (fat s) - (0 + 0)) / 1024 <=
                 N.min (h_total h) (lenN (img s) * slen s) / 1024) by (apply N.div_le_mono; lia).
    lia.
Qed.

End Handles.

(* ================================================================== *)
(* what open establishes                                               *)
(* ================================================================== *)
Lemma chunks_go_cover sl : forall f bs,
  lenN bs <= N.of_nat f * sl -> lenN bs <= lenN (chunks_go f sl bs) * sl.
Proof.
  induction f as [|f IH]; intros bs H; [cbn [chunks_go lenN]; lia|].
  cbn [chunks_go]. destruct bs as [|b bs]; [cbn [lenN]; lia|].
  cbn [lenN]. specialize (IH (dropN sl (b :: bs))).
  rewrite lenN_dropN in IH. cbn [lenN] in IH, H. lia.
Qed.

Lemma open_fat_le_img strict bytes s :
  open_model strict bytes = Ok s -> lenN (fat s) <= lenN (img s).
Proof.
  unfold open_model. cbv zeta.
  destruct (N.ltb_spec (lenN bytes) HEADER_LEN) as [|Hlen]; [discriminate|].
  intros H. apply rbind_Ok in H. destruct H as (h & _ & H).
  set (sl := sector_len (h_ver h)) in *.
  assert (Hsl : sl = 512 \/ sl = 4096) by apply sector_len_cases.
  destruct (_ <? lenN bytes); [discriminate|].
  destruct (N.ltb_spec (lenN bytes) sl) as [|Hlsl]; [discriminate|].
  set (ns := (lenN bytes + sl - 1) / sl - 1) in *.
  set (im := chunks sl bytes) in *.
  assert (Hns : ns * sl < lenN bytes).
  { unfold ns. clearbody sl. clear H. destruct Hsl; subst sl; lia. }
  assert (Him : lenN bytes <= lenN im * sl).
  { unfold im, chunks. apply chunks_go_cover.
    clearbody sl. clear - Hsl. destruct Hsl; subst sl; lia. }
  apply rbind_Ok in H. destruct H as ([ids difat0] & _ & H). cbv beta iota in H.
  destruct (_ && _); [discriminate|].
  destruct (strict && negb _); [discriminate|].
  apply rbind_Ok in H. destruct H as (fat0 & _ & H).
  apply rbind_Ok in H. destruct H as ([fat4 fr] & Hav & H). cbv beta iota in H.
  apply alloc_validate_len in Hav.
  apply rbind_Ok in H. destruct H as (ds & _ & H).
  apply rbind_Ok in H. destruct H as (_ & _ & H).
  apply rbind_Ok in H. destruct H as ([c s1] & _ & H). cbv beta iota in H.
  destruct (_ && _); [discriminate|].
  apply rbind_Ok in H. destruct H as ([[c2 mbytes] s2] & _ & H). cbv beta iota in H.
  destruct ds as [|root t] eqn:Eds; [discriminate|].
  apply rbind_Ok in H. destruct H as ([mf mfr] & _ & [= <-]).
  cbn [fat img]. clearbody sl ns im.
  assert (ns * sl < lenN im * sl) by lia.
  assert (ns < lenN im); [|lia].
  apply (N.mul_lt_mono_pos_r sl); [destruct Hsl; lia|assumption].
Qed.

Theorem open_inv strict bytes s : open_model strict bytes = Ok s -> Inv s.
Proof.
  intros H. destruct (open_post _ _ _ H) as (H1 & H2 & _).
  split; [exact H1|]. split; [exact H2|]. split; [eapply open_dirtree; eauto|].
  eapply open_fat_le_img; eauto.
Qed.

(* ================================================================== *)
(* T5. the whole system under read-only operations                     *)
(* ================================================================== *)
Definition HandlesOk (s : cstate) (hs : list (option handle)) : Prop :=
  forall i h, nthN hs i = Some (Some h) -> HandleOk s h.

(* read-only operations; consume is a contract call: the amount must not
   exceed what the buffer holds, i.e. what fill_buf last returned minus what
   has been consumed since *)
Definition ro_op (f : fstate) (o : op) : Prop :=
  match o with
  | OExists _ | OIsStream _ | OIsStorage _ | OEntry _ | ORootEntry | OReadStorage _ | OReadRoot
  | OWalk | OWalkStorage _ | OFlushFile | OVersion | OOpenStream _ _ | OCat _
  | OHRead _ _ | OHFill _ | OHSeek _ _ _ | OHLen _ | OHPos _ | OHDrop _ => True
  | OHConsume i k =>
      match nthN (hs f) i with
      | Some (Some h) => k <= lenN (buf_remaining (h_buf h))
      | _ => True
      end
  | _ => False
  end.

Fixpoint run_ops (f : fstate) (l : list (N * op)) : fstate * list (res value) :=
  match l with
  | [] => (f, [])
  | (now, o) :: t =>
    let '(f1, r) := step f now o in
    let '(f2, rs) := run_ops f1 t in (f2, r :: rs)
  end.

Fixpoint ro_seq (f : fstate) (l : list (N * op)) : Prop :=
  match l with
  | [] => True
  | (now, o) :: t => ro_op f o /\ ro_seq (fst (step f now o)) t
  end.

Lemma nthN_updN_inv {A} : forall (l : list A) i v j x,
  nthN (updN l i v) j = Some x -> (j = i /\ x = v) \/ nthN l j = Some x.
Proof.
  induction l as [|a t IH]; intros i v j x H; [cbn in H; discriminate|].
  cbn [updN] in H. destruct (N.eqb_spec i 0) as [->|Hi].
  - cbn [nthN] in *. destruct (N.eqb_spec j 0) as [->|Hj]; [left; split; congruence|right; exact H].
  - cbn [nthN] in *. destruct (N.eqb_spec j 0) as [->|Hj]; [right; exact H|].
    apply IH in H. destruct H as [[E ->]|H]; [left; split; [lia|reflexivity]|right; exact H].
Qed.

Lemma HandlesOk_upd s hs i oh :
  HandlesOk s hs -> (forall h, oh = Some h -> HandleOk s h) -> HandlesOk s (updN hs i oh).
Proof.
  intros H Hh j h Hj. apply nthN_updN_inv in Hj. destruct Hj as [[_ E]|Hj]; [auto|eauto].
Qed.

Lemma fine_rmap {A B} (k : A -> B) (r : res A) : fine r -> fine (rmap k r).
Proof. destruct r; cbn; auto. Qed.

Section Step.
Variable s : cstate.
Hypothesis HI : Inv s.

Definition FInv (f : fstate) : Prop := cs f = s /\ HandlesOk s (hs f).

Lemma with_cs_ro {A} (f : fstate) (m : M A) (k : A -> value) (P : A -> Prop) :
  FInv f -> ro m s P ->
  fine (snd (with_cs f m k)) /\ FInv (fst (with_cs f m k)).
Proof.
  intros [Hc Hh] (r & E & Hf & _). unfold with_cs. rewrite Hc, E. cbn [fst snd].
  split; [apply fine_rmap; exact Hf|]. split; [reflexivity|exact Hh].
Qed.

Lemma with_handle_ro {A} (f : fstate) i (m : handle -> HM cstate A) (k : A -> value) :
  FInv f ->
  (forall h, HandleOk s h -> exists h' r, m h s = (s, (h', r)) /\ fine r /\ HandleOk s h') ->
  fine (snd (with_handle f i m k)) /\ FInv (fst (with_handle f i m k)).
Proof.
  intros [Hc Hh] Hm. unfold with_handle.
  destruct (nthN (hs f) i) as [[h|]|] eqn:Hn; try (split; [exact I|split; assumption]).
  destruct (Hm h (Hh _ _ Hn)) as (h' & r & E & Hf & HO'). rewrite Hc, E. cbn [fst snd].
  split; [apply fine_rmap; exact Hf|]. split; [reflexivity|].
  cbn [hs]. apply HandlesOk_upd; [exact Hh|]. intros ? [= <-]. exact HO'.
Qed.

Theorem step_readonly f now o :
  FInv f -> ro_op f o ->
  fine (snd (step f now o)) /\ FInv (fst (step f now o)).
Proof.
  assert (HT : DirTree (dirs s)) by apply HI.
  intros HF Hop. destruct o; cbn [ro_op] in Hop; try contradiction; cbn [step].
  - (* OOpenStream *)
    destruct HF as [Hc Hh]. unfold with_new_handle. rewrite Hc.
    destruct (ro_open_stream s HI p (maxbuf f)) as (r & E & Hf & Hr). rewrite E.
    destruct r as [h0|k| |]; try contradiction; cbn [fst snd].
    + split; [exact I|]. split; [reflexivity|]. cbn [hs].
      apply HandlesOk_upd; [exact Hh|]. intros ? [= <-]. apply (Hr _ eq_refl).
    + split; [exact I|]. split; [reflexivity|exact Hh].
  - eapply with_cs_ro; [exact HF|apply ro_api_exists; exact HT].
  - eapply with_cs_ro; [exact HF|apply ro_api_is_stream; exact HT].
  - eapply with_cs_ro; [exact HF|apply ro_api_is_storage; exact HT].
  - eapply with_cs_ro; [exact HF|apply ro_api_entry; exact HT].
  - eapply with_cs_ro; [exact HF|apply ro_api_root_entry; exact HT].
  - eapply with_cs_ro; [exact HF|apply ro_api_read_storage; exact HT].
  - eapply with_cs_ro; [exact HF|apply ro_api_read_root; exact HT].
  - eapply with_cs_ro; [exact HF|apply ro_api_walk; exact HT].
  - eapply with_cs_ro; [exact HF|apply ro_api_walk_storage; exact HT].
  - (* OFlushFile *) split; [exact I|exact HF].
  - (* OVersion *) split; [exact I|exact HF].
  - (* OHRead *) apply with_handle_ro; [exact HF|]. intros h0 HO. apply read_spec; assumption.
  - (* OHFill *) apply with_handle_ro; [exact HF|]. intros h0 HO.
    pose proof HO as (e & He & _).
    destruct (fill_buf_spec s HI h0 e HO He) as (h' & r & E & Hf & HO' & _). eauto.
  - (* OHConsume *)
    destruct HF as [Hc Hh]. unfold with_handle.
    destruct (nthN (hs f) h) as [[h0|]|] eqn:Hn; try (split; [exact I|split; assumption]).
    pose proof (Hh _ _ Hn) as HO.
    destruct (consume_spec s h0 k HO) as (h' & E & HO' & _).
    { rewrite lenN_buf_remaining in Hop; [exact Hop|]. destruct HO as (e & HO). apply HO. }
    rewrite E. cbn [fst snd rmap rbind]. split; [exact I|]. split; [exact Hc|].
    cbn [hs]. apply HandlesOk_upd; [exact Hh|]. intros ? [= <-]. exact HO'.
  - (* OHSeek *) apply with_handle_ro; [exact HF|]. intros h0 HO. apply seek_spec; assumption.
  - (* OHLen *) apply with_handle_ro; [exact HF|]. intros h0 HO.
    eexists _, _. split; [reflexivity|]. split; [exact I|exact HO].
  - (* OHPos *) apply with_handle_ro; [exact HF|]. intros h0 HO.
    eexists _, _. split; [reflexivity|]. split; [exact I|exact HO].
  - (* OHDrop *)
    cbn [snd fst]. destruct HF as [Hc Hh]. unfold drop_handle, drop_result.
    destruct (nthN (hs f) h) as [[h0|]|] eqn:Hn; try (split; [exact I|split; assumption]).
    rewrite Hc, (flush_clean s h0 (Hh _ _ Hn)). cbn [snd]. split; [exact I|]. split; [reflexivity|].
    cbn [hs]. apply HandlesOk_upd; [exact Hh|discriminate].
  - (* OCat *) eapply with_cs_ro; [exact HF|apply ro_api_cat; exact HI].
Qed.

Theorem run_readonly : forall l f,
  FInv f -> ro_seq f l ->
  Forall fine (snd (run_ops f l)) /\ FInv (fst (run_ops f l)).
Proof.
  induction l as [|[now o] t IH]; intros f HF Hs; cbn [run_ops].
  - split; [constructor|exact HF].
  - destruct Hs as [Ho Hs]. destruct (step_readonly f now o HF Ho) as [Hf HF1].
    destruct (step f now o) as [f1 r]. cbn [fst snd] in *.
    destruct (IH f1 HF1 Hs) as [Hfs HF2].
    destruct (run_ops f1 t) as [f2 rs]. cbn [fst snd] in *.
    split; [constructor; assumption|exact HF2].
Qed.

End Step.

(* ------------------------------------------------------------------ *)
(* C05 *)
Theorem readonly_total : forall strict bytes s,
  open_model strict bytes = Ok s ->
  forall f : fstate, cs f = s -> HandlesOk s (hs f) ->
  forall l, ro_seq f l ->
    Forall fine (snd (run_ops f l)) /\
    cs (fst (run_ops f l)) = s /\
    HandlesOk s (hs (fst (run_ops f l))).
Proof.
  intros strict bytes s Ho f Hc Hh l Hl.
  destruct (run_readonly s (open_inv _ _ _ Ho) l f (conj Hc Hh) Hl) as [H1 [H2 H3]].
  auto.
Qed.

(* a table without open handles satisfies the handle predicate *)
Lemma HandlesOk_none s n : HandlesOk s (repeatN None n).
Proof.
  intros i h H. apply nthN_In in H. exfalso.
  unfold repeatN in H. revert H. apply N.peano_ind with (n := n).
  - cbn. tauto.
  - intros k IHk. rewrite N.iter_succ. intros [E|Hin]; [discriminate|auto].
Qed.

(* operations that are read-only whatever the state (everything but consume) *)
Definition ro_op_static (o : op) : Prop :=
  match o with
  | OExists _ | OIsStream _ | OIsStorage _ | OEntry _ | ORootEntry | OReadStorage _ | OReadRoot
  | OWalk | OWalkStorage _ | OFlushFile | OVersion | OOpenStream _ _ | OCat _
  | OHRead _ _ | OHFill _ | OHSeek _ _ _ | OHLen _ | OHPos _ | OHDrop _ => True
  | _ => False
  end.

Lemma ro_seq_static : forall l f, Forall (fun p => ro_op_static (snd p)) l -> ro_seq f l.
Proof.
  induction l as [|[now o] t IH]; intros f H; cbn [ro_seq]; [exact I|].
  inversion H as [|? ? Ho Ht]; subst. cbn [snd] in Ho. split; [|apply IH; exact Ht].
  destruct o; cbn in Ho |- *; try exact I; contradiction.
Qed.

Corollary readonly_total_fresh : forall strict bytes s mb nh,
  open_model strict bytes = Ok s ->
  forall l, Forall (fun p => ro_op_static (snd p)) l ->
    Forall fine (snd (run_ops (mkF s (repeatN None nh) mb) l)) /\
    cs (fst (run_ops (mkF s (repeatN None nh) mb) l)) = s.
Proof.
  intros strict bytes s mb nh Ho l Hl.
  destruct (readonly_total strict bytes s Ho (mkF s (repeatN None nh) mb) eq_refl
              (HandlesOk_none s nh) l (ro_seq_static l _ Hl)) as (H1 & H2 & _).
  auto.
Qed.

(* the handle predicate is established by api_open_stream and preserved *)
Check ro_open_stream.
Check fill_buf_spec.
Check read_spec.
Check seek_spec.
Check consume_spec.

Check validated_directory_is_forest.
Check open_dirtree.
Check open_inv.
Check ro_read_data.
Check ro_api_cat.
Check step_readonly.
Check run_readonly.
Check readonly_total.
Check readonly_total_fresh.
Print Assumptions validated_directory_is_forest.
Print Assumptions step_readonly.
Print Assumptions readonly_total.
Print Assumptions readonly_total_fresh.
