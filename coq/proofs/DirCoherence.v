(* DirCoherence.v — property C02 "write-through" for the directory table and
   the MiniFAT: every mutation of a cached directory entry / MiniFAT cell is
   accompanied by the matching bytes written to the directory / MiniFAT chain,
   so the cached tables always equal what the image says.
   Stdlib only; no axioms, no admits. *)
From Coq Require Import List NArith Lia Bool ZifyN ZifyBool.
From Cfb.model Require Import Base Names DirEnt State Alloc Dir Mini Open.
From Cfb.gen Require Import Consts.
From Cfb.proofs Require Import DirProofs ChainProofs.
From Cfb.proofs Require CodecProofs WalkProofs ReuseProofs CoherenceProofs.
Import ListNotations.
Open Scope N_scope.

Ltac Zify.zify_post_hook ::= Z.div_mod_to_equations.

(* ================================================================== *)
(* definitions                                                         *)
(* ================================================================== *)

Definition dir_ids (s : cstate) (dids : list N) : Prop :=
  chain_ids_of (fat s) (dir_start s) = Ok dids.

Definition slot_bytes (s : cstate) (dids : list N) (id : N) : list byte :=
  takeN DIR_ENTRY_LEN (dropN (DIR_ENTRY_LEN * id) (chain_content s dids)).

(* Name bound: kept as a per-entry premise (not as a separate conjunct of the
   invariant).  That way set_dir_entry has no proof obligation, and
   write_dir_entry's own check (panic 404) discharges it where it matters. *)
Definition DirCoherent (s : cstate) : Prop :=
  exists dids, dir_ids s dids /\ good_chain s dids /\
    DIR_ENTRY_LEN * lenN (dirs s) <= slen s * lenN dids /\
    (forall id e, nthN (dirs s) id = Some e -> lenN (utf16 (d_name e)) <= 31 ->
                  slot_bytes s dids id = dirent_encode e) /\
    (forall id, lenN (dirs s) <= id -> DIR_ENTRY_LEN * (id + 1) <= slen s * lenN dids ->
                slot_bytes s dids id = dirent_encode dirent_unallocated).

(* the same, except that the slots listed in X may be stale on disk *)
Definition DirCohX (X : list N) (s : cstate) (dids : list N) : Prop :=
  dir_ids s dids /\ good_chain s dids /\
  DIR_ENTRY_LEN * lenN (dirs s) <= slen s * lenN dids /\
  (forall id e, ~ In id X -> nthN (dirs s) id = Some e -> lenN (utf16 (d_name e)) <= 31 ->
                slot_bytes s dids id = dirent_encode e) /\
  (forall id, lenN (dirs s) <= id -> DIR_ENTRY_LEN * (id + 1) <= slen s * lenN dids ->
              slot_bytes s dids id = dirent_encode dirent_unallocated).

Lemma DirCoherent_iff : forall s, DirCoherent s <-> exists dids, DirCohX [] s dids.
Proof.
  intro s. split; intros (dids & H1 & H2 & H3 & H4 & H5); exists dids;
    (split; [exact H1|]; split; [exact H2|]; split; [exact H3|]; split; [|exact H5]).
  - intros id e _. apply H4.
  - intros id e. apply H4. intros [].
Qed.

(* ================================================================== *)
(* pure facts on slots of a byte string                                *)
(* ================================================================== *)

Definition slot_of (c : list byte) (id : N) : list byte := takeN 128 (dropN (128 * id) c).

Lemma slot_bytes_of : forall s dids id, slot_bytes s dids id = slot_of (chain_content s dids) id.
Proof. reflexivity. Qed.

Lemma lenN_slot_of : forall c id, 128 * (id + 1) <= lenN c -> lenN (slot_of c id) = 128.
Proof. intros c id H. unfold slot_of. rewrite lenN_takeN, lenN_dropN. blia. Qed.

Lemma slot_splice_same : forall c id off bs,
  128 * (id + 1) <= lenN c -> off + lenN bs <= 128 ->
  slot_of (spliceN c (128 * id + off) bs) id = spliceN (slot_of c id) off bs.
Proof.
  intros c id off bs Hc Hfit. unfold slot_of.
  set (m := takeN 128 (dropN (128 * id) c)).
  assert (Hm : lenN m = 128) by (unfold m; rewrite lenN_takeN, lenN_dropN; blia).
  assert (E : c = takeN (128 * id) c ++ (m ++ dropN 128 (dropN (128 * id) c))).
  { unfold m. rewrite takeN_dropN_id, takeN_dropN_id. reflexivity. }
  rewrite E at 1.
  assert (H1 : lenN (takeN (128 * id) c) = 128 * id) by (rewrite lenN_takeN; blia).
  rewrite spliceN_app_ge by blia.
  rewrite H1. replace (128 * id + off - 128 * id) with off by lia.
  rewrite spliceN_app_le by blia.
  rewrite dropN_app_ge by blia. rewrite H1, N.sub_diag, dropN_0.
  assert (H2 : lenN (spliceN m off bs) = 128) by (rewrite lenN_spliceN; blia).
  rewrite takeN_app_le by blia. apply takeN_all. blia.
Qed.

Lemma slot_splice_other : forall c id off bs j,
  128 * (id + 1) <= lenN c -> off + lenN bs <= 128 -> j <> id ->
  slot_of (spliceN c (128 * id + off) bs) j = slot_of c j.
Proof.
  intros c id off bs j Hc Hfit Hne. unfold slot_of.
  destruct (N.lt_ge_cases j id) as [Hlt|Hge].
  - apply spliceN_read_before; blia.
  - apply spliceN_read_after; blia.
Qed.

(* ================================================================== *)
(* D2 (codec side): the three link fields sit at 68, 72, 76            *)
(* ================================================================== *)

Lemma splice_seg : forall (pre old new post : list byte) off,
  lenN pre = off -> lenN old = lenN new ->
  spliceN (pre ++ old ++ post) off new = pre ++ new ++ post.
Proof.
  intros pre old new post off Hp Ho.
  rewrite spliceN_inside by (rewrite !lenN_app; blia).
  rewrite takeN_app_le by blia. rewrite takeN_all by blia.
  rewrite dropN_app_ge by blia.
  replace (off + lenN new - lenN pre) with (lenN old) by blia.
  rewrite dropN_app_ge by blia. rewrite N.sub_diag, dropN_0. reflexivity.
Qed.

Lemma lenN_enc_prefix : forall (u : list N) (t c : N), lenN u <= 32 ->
  lenN ((flat_map (le_bytes 2) u ++ repeatN 0 (2 * (32 - lenN u))) ++
        le_bytes 2 ((lenN u + 1) * 2) ++ [t] ++ [c]) = 68.
Proof.
  intros u t c H. rewrite lenN_app, CodecProofs.lenN_name_field by exact H.
  rewrite lenN_app, CodecProofs.lenN_le_bytes2. cbn [lenN app]. lia.
Qed.

Theorem dirent_encode_set_left : forall e v, lenN (utf16 (d_name e)) <= 32 ->
  dirent_encode (set_left e v) = spliceN (dirent_encode e) DE_OFF_LEFT (le_bytes 4 v).
Proof.
  intros e v H. unfold dirent_encode. cbv zeta.
  cbn [set_left d_name d_type d_color d_left d_right d_child d_clsid d_state d_ctime d_mtime d_start d_len].
  set (u := utf16 (d_name e)) in *.
  set (post := le_bytes 4 (d_right e) ++ le_bytes 4 (d_child e) ++ clsid_encode (d_clsid e) ++
               le_bytes 4 (d_state e) ++ le_bytes 8 (d_ctime e) ++ le_bytes 8 (d_mtime e) ++
               le_bytes 4 (d_start e) ++ le_bytes 8 (d_len e)).
  pose proof (lenN_enc_prefix u (objtype_byte (d_type e)) (color_byte (d_color e)) H) as HP.
  set (pre := (flat_map (le_bytes 2) u ++ repeatN 0 (2 * (32 - lenN u))) ++
              le_bytes 2 ((lenN u + 1) * 2) ++ [objtype_byte (d_type e)] ++ [color_byte (d_color e)]) in *.
  transitivity (pre ++ le_bytes 4 v ++ post).
  { unfold pre. rewrite <- !app_assoc. reflexivity. }
  symmetry.
  transitivity (spliceN (pre ++ le_bytes 4 (d_left e) ++ post) DE_OFF_LEFT (le_bytes 4 v)).
  { f_equal. unfold pre. rewrite <- !app_assoc. reflexivity. }
  apply splice_seg; [exact HP|]. rewrite !CodecProofs.lenN_le_bytes4. reflexivity.
Qed.

Theorem dirent_encode_set_right : forall e v, lenN (utf16 (d_name e)) <= 32 ->
  dirent_encode (set_right e v) = spliceN (dirent_encode e) DE_OFF_RIGHT (le_bytes 4 v).
Proof.
  intros e v H. unfold dirent_encode. cbv zeta.
  cbn [set_right d_name d_type d_color d_left d_right d_child d_clsid d_state d_ctime d_mtime d_start d_len].
  set (u := utf16 (d_name e)) in *.
  set (post := le_bytes 4 (d_child e) ++ clsid_encode (d_clsid e) ++
               le_bytes 4 (d_state e) ++ le_bytes 8 (d_ctime e) ++ le_bytes 8 (d_mtime e) ++
               le_bytes 4 (d_start e) ++ le_bytes 8 (d_len e)).
  pose proof (lenN_enc_prefix u (objtype_byte (d_type e)) (color_byte (d_color e)) H) as HP.
  set (pre0 := (flat_map (le_bytes 2) u ++ repeatN 0 (2 * (32 - lenN u))) ++
              le_bytes 2 ((lenN u + 1) * 2) ++ [objtype_byte (d_type e)] ++ [color_byte (d_color e)]) in *.
  set (pre := pre0 ++ le_bytes 4 (d_left e)).
  assert (HP' : lenN pre = DE_OFF_RIGHT).
  { unfold pre. rewrite lenN_app, HP, CodecProofs.lenN_le_bytes4. reflexivity. }
  transitivity (pre ++ le_bytes 4 v ++ post).
  { unfold pre, pre0. rewrite <- !app_assoc. reflexivity. }
  symmetry.
  transitivity (spliceN (pre ++ le_bytes 4 (d_right e) ++ post) DE_OFF_RIGHT (le_bytes 4 v)).
  { f_equal. unfold pre, pre0. rewrite <- !app_assoc. reflexivity. }
  apply splice_seg; [exact HP'|]. rewrite !CodecProofs.lenN_le_bytes4. reflexivity.
Qed.

Theorem dirent_encode_set_child : forall e v, lenN (utf16 (d_name e)) <= 32 ->
  dirent_encode (set_child e v) = spliceN (dirent_encode e) DE_OFF_CHILD (le_bytes 4 v).
Proof.
  intros e v H. unfold dirent_encode. cbv zeta.
  cbn [set_child d_name d_type d_color d_left d_right d_child d_clsid d_state d_ctime d_mtime d_start d_len].
  set (u := utf16 (d_name e)) in *.
  set (post := clsid_encode (d_clsid e) ++
               le_bytes 4 (d_state e) ++ le_bytes 8 (d_ctime e) ++ le_bytes 8 (d_mtime e) ++
               le_bytes 4 (d_start e) ++ le_bytes 8 (d_len e)).
  pose proof (lenN_enc_prefix u (objtype_byte (d_type e)) (color_byte (d_color e)) H) as HP.
  set (pre0 := (flat_map (le_bytes 2) u ++ repeatN 0 (2 * (32 - lenN u))) ++
              le_bytes 2 ((lenN u + 1) * 2) ++ [objtype_byte (d_type e)] ++ [color_byte (d_color e)]) in *.
  set (pre := pre0 ++ le_bytes 4 (d_left e) ++ le_bytes 4 (d_right e)).
  assert (HP' : lenN pre = DE_OFF_CHILD).
  { unfold pre. rewrite !lenN_app, HP, !CodecProofs.lenN_le_bytes4. reflexivity. }
  transitivity (pre ++ le_bytes 4 v ++ post).
  { unfold pre, pre0. rewrite <- !app_assoc. reflexivity. }
  symmetry.
  transitivity (spliceN (pre ++ le_bytes 4 (d_child e) ++ post) DE_OFF_CHILD (le_bytes 4 v)).
  { f_equal. unfold pre, pre0. rewrite <- !app_assoc. reflexivity. }
  apply splice_seg; [exact HP'|]. rewrite !CodecProofs.lenN_le_bytes4. reflexivity.
Qed.

(* ================================================================== *)
(* writes into the directory chain                                     *)
(* ================================================================== *)

(* [bs] lands at position [pos] of the chain's content; nothing else moves *)
Definition content_write (s s' : cstate) (ids : list N) (pos : N) (bs : list byte) : Prop :=
  same_meta s s' /\ lenN (img s') = lenN (img s) /\
  chain_content s' ids = spliceN (chain_content s ids) pos bs /\
  good_chain s' ids /\
  (forall x, ~ In x ids -> sector_bytes s' x = sector_bytes s x) /\
  (forall x, lenN (sector_bytes s' x) = lenN (sector_bytes s x)).

Lemma ver_cases : forall s,
  (slen s = 512 /\ dir_per_sector (ver s) = 4) \/ (slen s = 4096 /\ dir_per_sector (ver s) = 32).
Proof.
  intro s. unfold slen, dir_per_sector, sector_len, sector_shift.
  destruct (ver s); [left|right]; split; reflexivity.
Qed.

Lemma write_in_dir_entry_spec : forall s dids id off bs,
  dir_ids s dids -> good_chain s dids ->
  128 * (id + 1) <= slen s * lenN dids -> off + lenN bs <= 128 ->
  exists s', write_in_dir_entry id off bs s = (s', Ok tt) /\
             content_write s s' dids (128 * id + off) bs.
Proof.
  intros s dids id off bs Hids Hgood Hrange Hfit.
  pose proof Hgood as (Hnd & HF & Himg & Hpos).
  set (per := dir_per_sector (ver s)).
  assert (Hper : slen s = 128 * per /\ (per = 4 \/ per = 32)).
  { unfold per. destruct (ver_cases s) as [[-> ->]|[-> ->]]; split; auto. }
  destruct Hper as [Hsl Hper].
  assert (Hq : id / per < lenN dids) by (apply div_lt_len; nia).
  destruct (nthN_lt_Some _ dids (id / per) Hq) as [sid Hn].
  assert (Hgo : dir_sector_go (N.to_nat (id / per)) (fat s) (dir_start s) = Ok sid).
  { apply (WalkProofs.dir_sector_total _ _ dids); [exact Hids|].
    rewrite <- WalkProofs.nthN_nth_error. exact Hn. }
  pose proof (nthN_In _ _ _ _ Hn) as Hin.
  pose proof HF as HF'. rewrite Forall_forall in HF'. destruct (HF' _ Hin) as [Hsid Hlen].
  assert (Hfit' : (id mod per) * 128 + off + lenN bs <= slen s) by lia.
  destruct (sector_write_read s sid ((id mod per) * 128 + off) bs Hsid Hlen Hfit')
    as (s' & Hw & Hs' & Hb & _ & Hoth).
  exists s'. split.
  - unfold write_in_dir_entry. mred. fold per. rewrite Hgo. cbv beta iota.
    exact Hw.
  - assert (Hmeta : same_meta s s') by (unfold same_meta; rewrite Hs'; reflexivity).
    assert (Himg' : lenN (img s') = lenN (img s))
      by (rewrite Hs'; cbn [img w_img]; apply lenN_updN).
    assert (Hlen' : forall x, lenN (sector_bytes s' x) = lenN (sector_bytes s x)).
    { intro x. destruct (N.eq_dec x sid) as [->|Hne].
      - rewrite Hb, lenN_spliceN. blia.
      - rewrite (Hoth x Hne). reflexivity. }
    split; [exact Hmeta|]. split; [exact Himg'|]. split; [|split; [|split]].
    + replace (128 * id + off) with (slen s * (id / per) + ((id mod per) * 128 + off)) by lia.
      apply (content_update s s' (slen s) dids (id / per) sid); try assumption.
      apply good_chain_lens. exact Hgood.
    + apply (good_chain_transfer s s' dids Hgood Hmeta Himg'). intros x _. apply Hlen'.
    + intros x Hx. apply Hoth. intro E. subst x. contradiction.
    + exact Hlen'.
Qed.

Lemma write_dir_entry_spec : forall s dids id e,
  dir_ids s dids -> good_chain s dids ->
  128 * (id + 1) <= slen s * lenN dids ->
  nthN (dirs s) id = Some e -> lenN (utf16 (d_name e)) <= 31 ->
  exists s', write_dir_entry id s = (s', Ok tt) /\
             content_write s s' dids (128 * id) (dirent_encode e).
Proof.
  intros s dids id e Hids Hgood Hrange He Hname.
  assert (Hlen : lenN (dirent_encode e) = 128) by (apply CodecProofs.dirent_encode_length; lia).
  destruct (chain_write_spec s (mkChain IDir dids (DIR_ENTRY_LEN * id)) (dirent_encode e))
    as (s' & Hw & Hc & _ & Hgood' & Hfr & Hl & Himg & Hmeta).
  { exact Hgood. }
  { unfold chain_len. cbn [c_ids c_off]. unfold DIR_ENTRY_LEN. blia. }
  cbn [c_init c_ids c_off] in *.
  exists s'. split.
  - unfold write_dir_entry, chain_new, chain_seek, dir_entry. mred.
    unfold dir_ids in Hids. rewrite Hids. cbv beta iota. cbn [c_ids c_init].
    destruct (slen s * lenN dids <? DIR_ENTRY_LEN * id) eqn:E1; [unfold DIR_ENTRY_LEN in E1; lia|].
    rewrite He.
    destruct (MAX_NAME_LEN <? lenN (utf16 (d_name e))) eqn:E2; [unfold MAX_NAME_LEN in E2; lia|].
    rewrite Hw. reflexivity.
  - split; [exact Hmeta|]. split; [exact Himg|]. split; [exact Hc|]. split; [exact Hgood'|].
    split; [exact Hfr|exact Hl].
Qed.

(* success of write_dir_entry means the entry exists and passed the name check *)
Lemma write_dir_entry_ok_inv : forall id s s' u,
  write_dir_entry id s = (s', Ok u) ->
  exists e, nthN (dirs s) id = Some e /\ lenN (utf16 (d_name e)) <= 31.
Proof.
  intros id s s' u H. unfold write_dir_entry in H.
  binv H s0 s1 H1 H2. apply get_inv in H1. destruct H1 as [-> ->].
  binv H2 c s1 H1 H2. apply (frames_run _ _ _ _ _ (frames_chain_new _ _)) in H1.
  binv H2 c' s2 H2 H3. apply (frames_run _ _ _ _ _ (frames_chain_seek _ _)) in H2.
  binv H3 e s3 H3 H4. apply dir_entry_inv in H3. destruct H3 as [-> He].
  binv H4 u1 s4 H4 H5.
  exists e. split; [congruence|].
  destruct (MAX_NAME_LEN <? lenN (utf16 (d_name e))) eqn:E; [exfalso; eapply panic_inv; eauto|].
  unfold MAX_NAME_LEN in E. lia.
Qed.

(* what a content write inside slot [id] does to the slots *)
Definition slot_write (s s' : cstate) (dids : list N) (id : N) (new : list byte) : Prop :=
  same_meta s s' /\ good_chain s' dids /\
  slot_bytes s' dids id = new /\
  (forall j, j <> id -> slot_bytes s' dids j = slot_bytes s dids j) /\
  (forall x, ~ In x dids -> sector_bytes s' x = sector_bytes s x) /\
  lenN (img s') = lenN (img s) /\
  (forall x, lenN (sector_bytes s' x) = lenN (sector_bytes s x)).

Lemma content_write_slot : forall s s' dids id off bs,
  good_chain s dids ->
  128 * (id + 1) <= slen s * lenN dids -> off + lenN bs <= 128 ->
  content_write s s' dids (128 * id + off) bs ->
  slot_write s s' dids id (spliceN (slot_bytes s dids id) off bs).
Proof.
  intros s s' dids id off bs Hgood Hrange Hfit (Hmeta & Himg & Hc & Hgood' & Hfr & Hl).
  pose proof (good_chain_len _ _ Hgood) as HCL.
  split; [exact Hmeta|]. split; [exact Hgood'|]. split; [|split; [|split; [exact Hfr|split; [exact Himg|exact Hl]]]].
  - rewrite !slot_bytes_of, Hc. apply slot_splice_same; blia.
  - intros j Hj. rewrite !slot_bytes_of, Hc. apply slot_splice_other; try assumption; blia.
Qed.

Lemma splice_whole : forall (l bs : list byte), lenN l = lenN bs -> spliceN l 0 bs = bs.
Proof.
  intros l bs H. rewrite spliceN_inside by blia. rewrite takeN_0. cbn [app].
  rewrite dropN_all by blia. apply app_nil_r.
Qed.

Lemma lenN_slot_bytes : forall s dids id, good_chain s dids ->
  128 * (id + 1) <= slen s * lenN dids -> lenN (slot_bytes s dids id) = 128.
Proof.
  intros s dids id Hgood H. rewrite slot_bytes_of. apply lenN_slot_of.
  rewrite (good_chain_len _ _ Hgood). exact H.
Qed.

(* ------------------------------------------------------------------ *)
(* D2: write_in_dir_entry writes exactly [off, off + len) of slot id   *)
(* ------------------------------------------------------------------ *)
Theorem write_in_dir_entry_field : forall s s' dids id off bs r,
  dir_ids s dids -> good_chain s dids ->
  DIR_ENTRY_LEN * (id + 1) <= slen s * lenN dids -> off + lenN bs <= DIR_ENTRY_LEN ->
  write_in_dir_entry id off bs s = (s', r) ->
  r = Ok tt /\
  slot_bytes s' dids id = spliceN (slot_bytes s dids id) off bs /\
  (forall j, j <> id -> slot_bytes s' dids j = slot_bytes s dids j) /\
  s' = w_img s (img s') /\
  (forall x, ~ In x dids -> sector_bytes s' x = sector_bytes s x) /\
  good_chain s' dids.
Proof.
  intros s s' dids id off bs r Hids Hgood Hrange Hfit H. unfold DIR_ENTRY_LEN in *.
  destruct (write_in_dir_entry_spec s dids id off bs Hids Hgood Hrange Hfit) as (s1 & Hw & Hcw).
  rewrite Hw in H. injection H as <- <-.
  destruct (content_write_slot s s1 dids id off bs Hgood Hrange Hfit Hcw)
    as (Hmeta & Hgood' & Hsame & Hoth & Hfr & _ & _).
  split; [reflexivity|]. repeat (split; [assumption|]). assumption.
Qed.

(* ------------------------------------------------------------------ *)
(* D1: write_dir_entry writes the encoding of the cached entry          *)
(* ------------------------------------------------------------------ *)
Lemma write_dir_entry_slot : forall s dids id e,
  dir_ids s dids -> good_chain s dids ->
  128 * (id + 1) <= slen s * lenN dids ->
  nthN (dirs s) id = Some e -> lenN (utf16 (d_name e)) <= 31 ->
  exists s', write_dir_entry id s = (s', Ok tt) /\ slot_write s s' dids id (dirent_encode e).
Proof.
  intros s dids id e Hids Hgood Hrange He Hname.
  assert (Hlen : lenN (dirent_encode e) = 128) by (apply CodecProofs.dirent_encode_length; lia).
  destruct (write_dir_entry_spec s dids id e Hids Hgood Hrange He Hname) as (s' & Hw & Hcw).
  exists s'. split; [exact Hw|].
  rewrite <- (N.add_0_r (128 * id)) in Hcw.
  pose proof (content_write_slot s s' dids id 0 (dirent_encode e) Hgood Hrange ltac:(blia) Hcw) as Hsw.
  rewrite splice_whole in Hsw; [exact Hsw|].
  rewrite lenN_slot_bytes by assumption. blia.
Qed.

Theorem write_dir_entry_coherent : forall s s' dids id e r,
  dir_ids s dids -> good_chain s dids ->
  DIR_ENTRY_LEN * (id + 1) <= slen s * lenN dids ->
  nthN (dirs s) id = Some e -> lenN (utf16 (d_name e)) <= 31 ->
  write_dir_entry id s = (s', r) ->
  r = Ok tt /\
  slot_bytes s' dids id = dirent_encode e /\
  (forall j, j <> id -> slot_bytes s' dids j = slot_bytes s dids j) /\
  s' = w_img s (img s') /\
  (forall x, ~ In x dids -> sector_bytes s' x = sector_bytes s x) /\
  good_chain s' dids.
Proof.
  intros s s' dids id e r Hids Hgood Hrange He Hname H. unfold DIR_ENTRY_LEN in *.
  destruct (write_dir_entry_slot s dids id e Hids Hgood Hrange He Hname)
    as (s1 & Hw & Hmeta & Hgood' & Hsame & Hoth & Hfr & _ & _).
  rewrite Hw in H. injection H as <- <-.
  split; [reflexivity|]. repeat (split; [assumption|]). assumption.
Qed.

(* ================================================================== *)
(* the invariant through the primitive steps                           *)
(* ================================================================== *)

Lemma slot_bytes_img : forall s s' dids j, img s' = img s ->
  slot_bytes s' dids j = slot_bytes s dids j.
Proof.
  intros s s' dids j H. unfold slot_bytes, chain_content. do 3 f_equal.
  apply map_ext. intro x. unfold sector_bytes. rewrite H. reflexivity.
Qed.

Lemma set_dir_entry_inv' : forall id e s s' u,
  set_dir_entry id e s = (s', Ok u) ->
  id < lenN (dirs s) /\ s' = w_dirs s (updN (dirs s) id e).
Proof.
  intros id e s s' u H. unfold set_dir_entry in H. mred.
  unfold bind, get in H.
  destruct (nthN (dirs s) id) as [e0|] eqn:E; [|discriminate H].
  unfold put in H. injection H as <-. split; [|reflexivity].
  eapply nthN_Some_lt. exact E.
Qed.

Lemma cohX_change : forall X Y s dids,
  DirCohX X s dids ->
  (forall j e, ~ In j Y -> In j X -> nthN (dirs s) j = Some e ->
               lenN (utf16 (d_name e)) <= 31 -> slot_bytes s dids j = dirent_encode e) ->
  DirCohX Y s dids.
Proof.
  intros X Y s dids (H1 & H2 & H3 & H4 & H5) Hfix.
  split; [exact H1|]. split; [exact H2|]. split; [exact H3|]. split; [|exact H5].
  intros j e HjY Hj Hn.
  destruct (in_dec N.eq_dec j X) as [Hin|Hnin].
  - apply Hfix; assumption.
  - apply H4; assumption.
Qed.

Lemma cohX_weaken : forall X Y s dids,
  DirCohX X s dids -> (forall j, In j X -> In j Y) -> DirCohX Y s dids.
Proof.
  intros X Y s dids H Hi. apply (cohX_change X Y s dids H).
  intros j e HjY HjX. exfalso. apply HjY. apply Hi. exact HjX.
Qed.

Lemma cohX_set : forall X s dids id e s' u,
  DirCohX X s dids -> set_dir_entry id e s = (s', Ok u) ->
  DirCohX (id :: X) s' dids /\ id < lenN (dirs s) /\ s' = w_dirs s (updN (dirs s) id e).
Proof.
  intros X s dids id e s' u (H1 & H2 & H3 & H4 & H5) H.
  apply set_dir_entry_inv' in H. destruct H as [Hlt ->].
  split; [|split; [exact Hlt|reflexivity]].
  split; [exact H1|]. split; [exact H2|].
  cbn [dirs w_dirs]. rewrite lenN_updN.
  split; [exact H3|]. split.
  - intros j e0 Hj Hn Hname. cbn [In] in Hj.
    rewrite nthN_updN_other in Hn by (intro E; apply Hj; left; exact E).
    rewrite (slot_bytes_img s) by reflexivity.
    apply H4; [|assumption|assumption]. intro Hx. apply Hj. right. exact Hx.
  - intros j Hj Hr. rewrite (slot_bytes_img s) by reflexivity. apply H5; assumption.
Qed.

Lemma cohX_slot_write : forall X Y s s' dids id new,
  DirCohX X s dids -> slot_write s s' dids id new -> id < lenN (dirs s) ->
  (forall j, In j X -> j <> id -> In j Y) ->
  (forall e, ~ In id Y -> nthN (dirs s) id = Some e -> lenN (utf16 (d_name e)) <= 31 ->
             new = dirent_encode e) ->
  DirCohX Y s' dids.
Proof.
  intros X Y s s' dids id new (H1 & H2 & H3 & H4 & H5)
         (Hmeta & Hgood' & Hsame & Hoth & _) Hlt HXY Hnew.
  destruct (same_meta_fields _ _ Hmeta)
    as (_ & _ & _ & _ & Hfat & _ & Hdirs & Hstart & _ & _ & _ & Hsl).
  split; [unfold dir_ids in *; rewrite Hfat, Hstart; exact H1|].
  split; [exact Hgood'|]. rewrite Hdirs, Hsl. split; [exact H3|]. split.
  - intros j e Hj Hn Hname. destruct (N.eq_dec j id) as [->|Hne].
    + rewrite Hsame. apply Hnew; assumption.
    + rewrite (Hoth j Hne). apply H4; [|assumption|assumption].
      intro Hx. apply Hj. apply HXY; assumption.
  - intros j Hj Hr. rewrite (Hoth j ltac:(lia)). apply H5; assumption.
Qed.

Lemma cohX_range : forall X s dids id, DirCohX X s dids -> id < lenN (dirs s) ->
  128 * (id + 1) <= slen s * lenN dids.
Proof. intros X s dids id (_ & _ & H3 & _) H. unfold DIR_ENTRY_LEN in H3. lia. Qed.

Lemma cohX_write_entry : forall X Y s dids id s' u,
  DirCohX X s dids -> write_dir_entry id s = (s', Ok u) ->
  (forall j, In j X -> j <> id -> In j Y) ->
  DirCohX Y s' dids.
Proof.
  intros X Y s dids id s' u HC H HXY.
  destruct (write_dir_entry_ok_inv _ _ _ _ H) as (e & He & Hname).
  pose proof (nthN_Some_lt _ _ _ _ He) as Hlt.
  pose proof (cohX_range _ _ _ _ HC Hlt) as Hrange.
  pose proof HC as (H1 & H2 & _).
  destruct (write_dir_entry_slot s dids id e H1 H2 Hrange He Hname) as (s1 & Hw & Hsw).
  rewrite Hw in H. injection H as <- _.
  apply (cohX_slot_write X Y s s1 dids id (dirent_encode e) HC Hsw Hlt HXY).
  intros e0 _ He0 _. congruence.
Qed.

(* a field write into a slot that is stale anyway *)
Lemma cohX_write_field_in : forall X s dids id off bs s' r,
  DirCohX X s dids -> In id X -> id < lenN (dirs s) -> off + lenN bs <= 128 ->
  write_in_dir_entry id off bs s = (s', r) ->
  r = Ok tt /\ DirCohX X s' dids.
Proof.
  intros X s dids id off bs s' r HC Hin Hlt Hfit H.
  pose proof (cohX_range _ _ _ _ HC Hlt) as Hrange.
  pose proof HC as (H1 & H2 & _).
  destruct (write_in_dir_entry_spec s dids id off bs H1 H2 Hrange Hfit) as (s1 & Hw & Hcw).
  rewrite Hw in H. injection H as <- <-. split; [reflexivity|].
  pose proof (content_write_slot s s1 dids id off bs H2 Hrange Hfit Hcw) as Hsw.
  apply (cohX_slot_write X X s s1 dids id _ HC Hsw Hlt).
  - intros j Hj _. exact Hj.
  - intros e Hn. contradiction.
Qed.

(* cached entry replaced by e' together with the matching bytes *)
Lemma cohX_link : forall X s dids k e e' off bs s1 u s2 r,
  DirCohX X s dids -> nthN (dirs s) k = Some e ->
  d_name e' = d_name e ->
  (lenN (utf16 (d_name e)) <= 31 -> dirent_encode e' = spliceN (dirent_encode e) off bs) ->
  off + lenN bs <= 128 ->
  set_dir_entry k e' s = (s1, Ok u) ->
  write_in_dir_entry k off bs s1 = (s2, r) ->
  r = Ok tt /\ DirCohX X s2 dids.
Proof.
  intros X s dids k e e' off bs s1 u s2 r HC He Hnm Henc Hfit Hset Hw.
  destruct (cohX_set X s dids k e' s1 u HC Hset) as (HC1 & Hlt & Hs1).
  assert (Hlt1 : k < lenN (dirs s1)) by (rewrite Hs1; cbn [dirs w_dirs]; rewrite lenN_updN; exact Hlt).
  pose proof (cohX_range _ _ _ _ HC1 Hlt1) as Hrange.
  pose proof HC1 as (H1 & H2 & _).
  destruct (write_in_dir_entry_spec s1 dids k off bs H1 H2 Hrange Hfit) as (s3 & Hw3 & Hcw).
  rewrite Hw3 in Hw. injection Hw as <- <-. split; [reflexivity|].
  pose proof (content_write_slot s1 s3 dids k off bs H2 Hrange Hfit Hcw) as Hsw.
  apply (cohX_slot_write (k :: X) X s1 s3 dids k _ HC1 Hsw Hlt1).
  - intros j [Hj|Hj] Hne; [congruence|exact Hj].
  - intros e0 HkX He0 Hname0.
    rewrite Hs1 in He0. cbn [dirs w_dirs] in He0. rewrite nthN_updN_same in He0 by exact Hlt.
    injection He0 as <-. rewrite Hnm in Hname0.
    rewrite (slot_bytes_img s s1) by (rewrite Hs1; reflexivity).
    destruct HC as (_ & _ & _ & H4 & _).
    rewrite (H4 k e HkX He Hname0). symmetry. apply Henc. exact Hname0.
Qed.

(* ================================================================== *)
(* D3, D4                                                              *)
(* ================================================================== *)

Lemma with_dir_entry_mut_cohX : forall s dids id f s' u,
  DirCohX [] s dids -> with_dir_entry_mut id f s = (s', Ok u) -> DirCohX [] s' dids.
Proof.
  intros s dids id f s' u HC H. apply with_dir_entry_mut_ok_inv in H. unfold with_dir_entry_mut_inner in H.
  binv H e s1 H1 H2. apply dir_entry_inv in H1. destruct H1 as [-> He].
  binv H2 u1 s2 H2 H3.
  destruct (cohX_set _ _ _ _ _ _ _ HC H2) as (HC2 & _ & _).
  apply (cohX_write_entry [id] [] s2 dids id s' u HC2 H3).
  intros j [Hj|[]] Hne. congruence.
Qed.

(* No hypothesis on f is needed: write_dir_entry re-checks the name length
   (panic 404) and rewrites the whole slot. *)
Theorem with_dir_entry_mut_coherent : forall s s' id f,
  DirCoherent s -> with_dir_entry_mut id f s = (s', Ok tt) -> DirCoherent s'.
Proof.
  intros s s' id f HC H. apply DirCoherent_iff in HC. destruct HC as [dids HC].
  apply DirCoherent_iff. exists dids. eapply with_dir_entry_mut_cohX; eassumption.
Qed.

Lemma lenN_enc_unalloc : lenN (dirent_encode dirent_unallocated) = 128.
Proof. apply CodecProofs.dirent_encode_length. cbn. lia. Qed.

Lemma free_dir_entry_cohX : forall s dids id s' u,
  DirCohX [] s dids -> free_dir_entry id s = (s', Ok u) -> DirCohX [] s' dids.
Proof.
  intros s dids id s' u HC H. unfold free_dir_entry in H.
  destruct (id =? ROOT_STREAM_ID); [exfalso; eapply panic_inv; eauto|].
  binv H u1 s1 H1 H2.
  pose proof (frames_run _ _ _ _ _ (frames_write_in_dir_entry _ _ _) H1) as Hd1.
  pose proof (set_dir_entry_inv' _ _ _ _ _ H2) as [Hlt1 Hs'].
  assert (Hlt : id < lenN (dirs s)) by (rewrite <- Hd1; exact Hlt1).
  pose proof (cohX_range _ _ _ _ HC Hlt) as Hrange.
  pose proof HC as (Hi & Hg & _).
  pose proof lenN_enc_unalloc as HU.
  destruct (write_in_dir_entry_spec s dids id 0 (dirent_encode dirent_unallocated) Hi Hg Hrange
              ltac:(blia)) as (s2 & Hw & Hcw).
  rewrite Hw in H1. injection H1 as <-.
  pose proof (content_write_slot s s2 dids id 0 (dirent_encode dirent_unallocated)
                Hg Hrange ltac:(blia) Hcw) as Hsw.
  rewrite splice_whole in Hsw by (rewrite lenN_slot_bytes by assumption; blia).
  assert (HC2 : DirCohX [id] s2 dids).
  { apply (cohX_slot_write [] [id] s s2 dids id _ HC Hsw Hlt).
    - intros j [].
    - intros e Hn. exfalso. apply Hn. left. reflexivity. }
  destruct (cohX_set _ _ _ _ _ _ _ HC2 H2) as (HC3 & _ & _).
  apply (cohX_change _ [] _ _ HC3).
  intros j e _ Hj Hn _.
  assert (j = id) by (destruct Hj as [Hj|[Hj|[]]]; congruence). subst j.
  rewrite Hs' in Hn. cbn [dirs w_dirs] in Hn. rewrite nthN_updN_same in Hn by exact Hlt1.
  injection Hn as <-.
  rewrite (slot_bytes_img s2 s') by (rewrite Hs'; reflexivity).
  destruct Hsw as (_ & _ & Hsame & _). exact Hsame.
Qed.

Theorem free_dir_entry_coherent : forall s s' id,
  DirCoherent s -> free_dir_entry id s = (s', Ok tt) -> DirCoherent s'.
Proof.
  intros s s' id HC H. apply DirCoherent_iff in HC. destruct HC as [dids HC].
  apply DirCoherent_iff. exists dids. eapply free_dir_entry_cohX; eassumption.
Qed.

(* ================================================================== *)
(* writes elsewhere                                                    *)
(* ================================================================== *)

Lemma chain_content_ext : forall s s' ids,
  (forall x, In x ids -> sector_bytes s' x = sector_bytes s x) ->
  chain_content s' ids = chain_content s ids.
Proof.
  intros s s' ids H. unfold chain_content. f_equal. apply map_ext_in. exact H.
Qed.

(* whatever sector_write does (fail the bounds check or overwrite), a chain
   that does not contain the target sector is left alone *)
Lemma sector_write_other : forall s ids sid off bs s' r,
  good_chain s ids -> ~ In sid ids ->
  sector_write sid off bs s = (s', r) ->
  same_meta s s' /\ good_chain s' ids /\ chain_content s' ids = chain_content s ids.
Proof.
  intros s ids sid off bs s' r Hgood Hni H.
  pose proof Hgood as (Hnd & HF & Himg & Hpos).
  unfold sector_write, seek_sector, bind, get, panic, fail, ret, modify in H.
  destruct (slen s <? off);
    [injection H as <- _; split; [apply same_meta_refl|split; [exact Hgood|reflexivity]]|].
  destruct (nsect s <=? sid) eqn:E;
    [injection H as <- _; split; [apply same_meta_refl|split; [exact Hgood|reflexivity]]|].
  destruct (lenN (img s) <=? sid + 1) eqn:E2; [lia|].
  destruct (nthN_lt_Some _ (img s) (sid + 1) ltac:(lia)) as [sec Hsec].
  unfold img_write in H. rewrite Hsec in H. injection H as <- _.
  set (s1 := w_img s (updN (img s) (sid + 1) (spliceN sec off bs))).
  assert (Hoth : forall x, x <> sid -> sector_bytes s1 x = sector_bytes s x).
  { intros x Hx. unfold sector_bytes, s1. cbn [img w_img].
    rewrite nthN_updN_other by lia. reflexivity. }
  assert (Hin : forall x, In x ids -> sector_bytes s1 x = sector_bytes s x).
  { intros x Hx. apply Hoth. intro Heq. subst x. contradiction. }
  split; [reflexivity|]. split.
  - apply (good_chain_transfer s s1 ids Hgood); [reflexivity| |].
    + unfold s1. cbn [img w_img]. apply lenN_updN.
    + intros x Hx. rewrite (Hin x Hx). reflexivity.
  - apply chain_content_ext. exact Hin.
Qed.

Theorem data_write_keeps_dir : forall s s' sid off bs r,
  DirCoherent s -> (forall dids, dir_ids s dids -> ~ In sid dids) ->
  sector_write sid off bs s = (s', r) -> DirCoherent s'.
Proof.
  intros s s' sid off bs r (dids & H1 & H2 & H3 & H4 & H5) Hni H.
  destruct (sector_write_other s dids sid off bs s' r H2 (Hni dids H1) H) as (Hmeta & Hgood' & Hc).
  destruct (same_meta_fields _ _ Hmeta)
    as (_ & _ & _ & _ & Hfat & _ & Hdirs & Hstart & _ & _ & _ & Hsl).
  exists dids. split; [unfold dir_ids in *; rewrite Hfat, Hstart; exact H1|].
  split; [exact Hgood'|]. rewrite Hdirs, Hsl. split; [exact H3|].
  unfold slot_bytes in *. rewrite Hc. split; assumption.
Qed.

(* ================================================================== *)
(* MiniFAT                                                             *)
(* ================================================================== *)

Definition minifat_ids (s : cstate) (mids : list N) : Prop :=
  chain_ids_of (fat s) (minifat_start s) = Ok mids.

Definition MiniFatCoherent (s : cstate) : Prop :=
  exists mids, minifat_ids s mids /\ good_chain s mids /\
    4 * lenN (minifat s) <= slen s * lenN mids /\
    forall i v, nthN (minifat s) i = Some v ->
      le_val (takeN 4 (dropN (4 * i) (chain_content s mids))) = v.

(* F1.  The two range conditions (index <= lenN (minifat s), the cell lies in
   the chain) are not hypotheses: set_minifat checks them itself (panics 502,
   503), so they follow from the Ok result. *)
Theorem set_minifat_coherent : forall s s' index v,
  MiniFatCoherent s -> v < 2 ^ 32 ->
  set_minifat index v s = (s', Ok tt) ->
  MiniFatCoherent s' /\
  minifat s' = (if index =? lenN (minifat s) then minifat s ++ [v] else updN (minifat s) index v) /\
  index <= lenN (minifat s) /\
  (forall mids, minifat_ids s mids -> 4 * (index + 1) <= slen s * lenN mids).
Proof.
  intros s s' index v (mids & Hids & Hgood & Hcap & Hcells) Hv H.
  unfold set_minifat, chain_new, chain_seek in H.
  cbv beta iota zeta delta [bind get put modify ret fail panic lift] in H.
  destruct (lenN (minifat s) <? index) eqn:E1; [discriminate H|].
  unfold minifat_ids in Hids. rewrite Hids in H. cbv beta iota in H.
  unfold chain_len in H. cbn [c_ids c_init c_off] in H.
  destruct (slen s * lenN mids <? index * 4 + 4) eqn:E2; [discriminate H|].
  destruct (slen s * lenN mids <? index * 4) eqn:E3; [lia|].
  pose proof (CodecProofs.lenN_le_bytes4 v) as HL4.
  destruct (chain_write_spec s (mkChain IFat mids (index * 4)) (le_bytes 4 v))
    as (s1 & Hw & Hc & _ & Hgood' & _ & _ & _ & Hmeta).
  { exact Hgood. }
  { unfold chain_len. cbn [c_ids c_off]. blia. }
  cbn [c_init c_ids c_off] in *.
  rewrite Hw in H. injection H as <-.
  destruct (same_meta_fields _ _ Hmeta)
    as (_ & _ & _ & _ & Hfat & _ & _ & _ & Hmf & Hmstart & _ & Hsl).
  pose proof (good_chain_len _ _ Hgood) as HCL.
  split; [|split; [cbn [minifat w_minifat]; rewrite Hmf; reflexivity|split; [lia|]]].
  2:{ intros mids' Hm'. unfold minifat_ids in Hm'. rewrite Hids in Hm'. injection Hm' as <-. lia. }
  exists mids. split; [unfold minifat_ids; cbn [fat minifat_start w_minifat]; rewrite Hfat, Hmstart; exact Hids|].
  split; [exact Hgood'|]. cbn [minifat w_minifat]. rewrite Hmf.
  assert (Hsl' : slen (w_minifat s1 (if index =? lenN (minifat s) then minifat s ++ [v]
                                       else updN (minifat s) index v)) = slen s) by exact Hsl.
  rewrite Hsl'.
  assert (Hcc : chain_content (w_minifat s1 (if index =? lenN (minifat s) then minifat s ++ [v]
                                             else updN (minifat s) index v)) mids
                = spliceN (chain_content s mids) (index * 4) (le_bytes 4 v)) by exact Hc.
  rewrite Hcc.
  assert (Hnew : le_val (takeN 4 (dropN (4 * index)
                   (spliceN (chain_content s mids) (index * 4) (le_bytes 4 v)))) = v).
  { replace (4 * index) with (index * 4) by lia.
    rewrite <- HL4 at 1. rewrite spliceN_read_same by blia.
    apply CodecProofs.le_val_le_bytes4. unfold u32_max. change (2 ^ 32) with 4294967296 in Hv. lia. }
  assert (Hold : forall i, i <> index -> 4 * (i + 1) <= slen s * lenN mids ->
            takeN 4 (dropN (4 * i) (spliceN (chain_content s mids) (index * 4) (le_bytes 4 v)))
            = takeN 4 (dropN (4 * i) (chain_content s mids))).
  { intros i Hi Hr. destruct (N.lt_ge_cases i index).
    - apply spliceN_read_before; blia.
    - apply spliceN_read_after; blia. }
  destruct (index =? lenN (minifat s)) eqn:E4.
  - apply N.eqb_eq in E4. split; [rewrite lenN_app; cbn [lenN]; lia|].
    intros i w Hi. destruct (N.eq_dec i index) as [->|Hne].
    + rewrite E4, nthN_app_last in Hi. injection Hi as <-. exact Hnew.
    + pose proof (nthN_Some_lt _ _ _ _ Hi) as Hlt. rewrite lenN_app in Hlt. cbn [lenN] in Hlt.
      rewrite nthN_app_l in Hi by lia.
      rewrite Hold by lia. apply Hcells. exact Hi.
  - apply N.eqb_neq in E4. rewrite lenN_updN. split; [exact Hcap|].
    intros i w Hi. destruct (N.eq_dec i index) as [->|Hne].
    + rewrite nthN_updN_same in Hi by lia. injection Hi as <-. exact Hnew.
    + rewrite nthN_updN_other in Hi by congruence.
      pose proof (nthN_Some_lt _ _ _ _ Hi) as Hlt.
      rewrite Hold by lia. apply Hcells. exact Hi.
Qed.

(* F2: sector_write never touches the cached tables; a write to a sector
   outside the MiniFAT chain keeps the MiniFAT coherent (whatever its outcome) *)
Theorem data_write_keeps_minifat : forall s s' sid off bs r,
  MiniFatCoherent s -> (forall mids, minifat_ids s mids -> ~ In sid mids) ->
  sector_write sid off bs s = (s', r) ->
  MiniFatCoherent s' /\ minifat s' = minifat s /\ fat s' = fat s.
Proof.
  intros s s' sid off bs r (mids & H1 & H2 & H3 & H4) Hni H.
  destruct (sector_write_other s mids sid off bs s' r H2 (Hni mids H1) H) as (Hmeta & Hgood' & Hc).
  destruct (same_meta_fields _ _ Hmeta)
    as (_ & _ & _ & _ & Hfat & _ & _ & _ & Hmf & Hmstart & _ & Hsl).
  split; [|split; assumption].
  exists mids. split; [unfold minifat_ids in *; rewrite Hfat, Hmstart; exact H1|].
  split; [exact Hgood'|]. rewrite Hmf, Hsl, Hc. split; assumption.
Qed.

(* ================================================================== *)
(* D6: remove_dir_entry                                                *)
(* ================================================================== *)

Lemma rmw_cohX : forall X s dids k e e' s1 s2 u,
  DirCohX X s dids -> dir_entry k s = (s1, Ok e) -> set_dir_entry k e' s1 = (s2, Ok u) ->
  DirCohX (k :: X) s2 dids.
Proof.
  intros X s dids k e e' s1 s2 u HC H1 H2.
  apply dir_entry_inv in H1. destruct H1 as [-> _].
  destruct (cohX_set _ _ _ _ _ _ _ HC H2) as (HC2 & _). exact HC2.
Qed.

Lemma recolor_cohX : forall X c s dids s' (t : list N),
  DirCohX X s dids ->
  (if negb (c =? NO_STREAM)
   then do ce <- dir_entry c; set_dir_entry c (set_color ce Black) ;; ret [c]
   else ret []) s = (s', Ok t) ->
  DirCohX (t ++ X) s' dids.
Proof.
  intros X c s dids s' t HC H. destruct (c =? NO_STREAM); cbn [negb] in H.
  - apply ret_inv in H. destruct H as [-> ->]. exact HC.
  - binv H ce s1 H1 H2. binv H2 u s2 H2 H3.
    apply ret_inv in H3. destruct H3 as [-> ->]. cbn [app].
    eapply rmw_cohX; eassumption.
Qed.

(* every cached entry that splice_block changes is reported in [touched] *)
Lemma splice_block_cohX : forall x e s dids s' repl touched,
  DirCohX [] s dids -> splice_block x e s = (s', Ok (repl, touched)) ->
  exists X, DirCohX X s' dids /\ (forall j, In j X -> In j touched).
Proof.
  intros x e s dids s' repl touched HC H. unfold splice_block in H. cbv zeta in H.
  destruct ((d_left e =? NO_STREAM) || (d_right e =? NO_STREAM)).
  - set (c := if d_left e =? NO_STREAM then d_right e else d_left e) in *.
    destruct (c =? NO_STREAM); cbn [negb] in H.
    + apply ret_inv in H. destruct H as [-> H]. injection H as _ ->.
      exists []. split; [exact HC|]. intros j [].
    + binv H ce s1 H1 H2. binv H2 u s2 H2 H3.
      apply ret_inv in H3. destruct H3 as [-> H3]. injection H3 as _ ->.
      exists [c]. split; [eapply rmw_cohX; eassumption|]. intros j Hj. exact Hj.
  - binv H s0 s1 H1 H2. apply get_inv in H1. destruct H1 as [-> ->].
    binv H2 a s1 H1 H2. apply lift_inv in H1. destruct H1 as [-> _].
    destruct a as [pp pred].
    binv H2 pe s1 H1 H2. apply dir_entry_inv in H1. destruct H1 as [-> _].
    binv H2 t1 s1 H1 H2. apply (recolor_cohX [] _ _ _ _ _ HC) in H1. rewrite app_nil_r in H1.
    binv H2 t2 s2 H2 H3.
    assert (exists X2, DirCohX X2 s2 dids /\ (forall j, In j X2 -> In j (t1 ++ t2 ++ [pred])))
      as (X2 & HC2 & HX2).
    { destruct (pp =? x); cbn [negb] in H2.
      - apply ret_inv in H2. destruct H2 as [-> ->]. exists t1. split; [exact H1|].
        intros j Hj. apply in_or_app. left. exact Hj.
      - binv H2 ppe s3 H2 H4. binv H4 u s4 H4 H5.
        pose proof (rmw_cohX _ _ _ _ _ _ _ _ _ H1 H2 H4) as HC4.
        binv H5 pe' s5 H5 H6. binv H6 u' s6 H6 H7.
        pose proof (rmw_cohX _ _ _ _ _ _ _ _ _ HC4 H5 H6) as HC6.
        apply ret_inv in H7. destruct H7 as [-> ->].
        (* pred is rewritten again below and is the last element of touched *)
        exists (pred :: pp :: t1). split; [exact HC6|].
        intros j [Hj|[Hj|Hj]]; apply in_or_app.
        + right. right. left. exact Hj.
        + right. left. exact Hj.
        + left. exact Hj. }
    binv H3 pe' s3 H3 H4. binv H4 u s4 H4 H5.
    pose proof (rmw_cohX _ _ _ _ _ _ _ _ _ HC2 H3 H4) as HC4.
    apply ret_inv in H5. destruct H5 as [-> H5]. injection H5 as _ ->.
    exists (pred :: X2). split; [exact HC4|].
    intros j [Hj|Hj].
    + apply in_or_app. right. apply in_or_app. right. left. exact Hj.
    + apply HX2. exact Hj.
Qed.

Lemma write_entries_cohX : forall l X s dids s' u,
  DirCohX X s dids -> write_entries l s = (s', Ok u) ->
  (forall j, In j X -> In j l) -> DirCohX [] s' dids.
Proof.
  induction l as [|id t IH]; intros X s dids s' u HC H HX; cbn [write_entries] in H.
  - apply ret_inv in H. destruct H as [-> _]. apply (cohX_weaken X); assumption.
  - binv H u1 s1 H1 H2.
    apply (IH t s1 dids s' u); [|exact H2|auto].
    apply (cohX_write_entry X t s dids id s1 u1 HC H1).
    intros j Hj Hne. destruct (HX j Hj) as [E|Hin]; [congruence|exact Hin].
Qed.

Lemma link_left_cohX : forall X s dids k e v s1 u s2 u',
  DirCohX X s dids -> nthN (dirs s) k = Some e ->
  set_dir_entry k (set_left e v) s = (s1, Ok u) ->
  write_in_dir_entry k DE_OFF_LEFT (le_bytes 4 v) s1 = (s2, Ok u') ->
  DirCohX X s2 dids.
Proof.
  intros X s dids k e v s1 u s2 u' HC He H1 H2.
  eapply (cohX_link X s dids k e (set_left e v)); try eassumption; try reflexivity.
  - intro Hn. apply dirent_encode_set_left. lia.
  - rewrite CodecProofs.lenN_le_bytes4. unfold DE_OFF_LEFT. lia.
Qed.

Lemma link_right_cohX : forall X s dids k e v s1 u s2 u',
  DirCohX X s dids -> nthN (dirs s) k = Some e ->
  set_dir_entry k (set_right e v) s = (s1, Ok u) ->
  write_in_dir_entry k DE_OFF_RIGHT (le_bytes 4 v) s1 = (s2, Ok u') ->
  DirCohX X s2 dids.
Proof.
  intros X s dids k e v s1 u s2 u' HC He H1 H2.
  eapply (cohX_link X s dids k e (set_right e v)); try eassumption; try reflexivity.
  - intro Hn. apply dirent_encode_set_right. lia.
  - rewrite CodecProofs.lenN_le_bytes4. unfold DE_OFF_RIGHT. lia.
Qed.

Lemma link_child_cohX : forall X s dids k e v s1 u s2 u',
  DirCohX X s dids -> nthN (dirs s) k = Some e ->
  set_dir_entry k (set_child e v) s = (s1, Ok u) ->
  write_in_dir_entry k DE_OFF_CHILD (le_bytes 4 v) s1 = (s2, Ok u') ->
  DirCohX X s2 dids.
Proof.
  intros X s dids k e v s1 u s2 u' HC He H1 H2.
  eapply (cohX_link X s dids k e (set_child e v)); try eassumption; try reflexivity.
  - intro Hn. apply dirent_encode_set_child. lia.
  - rewrite CodecProofs.lenN_le_bytes4. unfold DE_OFF_CHILD. lia.
Qed.

Lemma remove_dir_entry_cohX : forall s dids parent nm s' u,
  DirCohX [] s dids -> remove_dir_entry parent nm s = (s', Ok u) -> DirCohX [] s' dids.
Proof.
  intros s dids parent nm s' u HC H. apply DirProofs.remove_dir_entry_ok_inv in H. unfold remove_dir_entry_inner in H.
  binv H p s1 H1 H2. apply dir_entry_inv in H1. destruct H1 as [-> Hp].
  binv H2 s0 s1 H1 H2. apply get_inv in H1. destruct H1 as [-> ->].
  binv H2 path s1 H1 H2. apply lift_inv in H1. destruct H1 as [-> _].
  destruct (lastN path) as [x|]; [|exfalso; eapply panic_inv; eauto].
  binv H2 e s1 H1 H2. apply dir_entry_inv in H1. destruct H1 as [-> He].
  binv H2 u1 s1 H1 H2.
  destruct (d_child e =? NO_STREAM); cbn [negb] in H1; [|exfalso; eapply panic_inv; eauto].
  apply ret_inv in H1. destruct H1 as [-> _].
  cbv zeta in H2. binv H2 a s2 H2 H3. destruct a as [repl touched].
  change (splice_block x e s = (s2, Ok (repl, touched))) in H2.
  destruct (splice_block_cohX _ _ _ _ _ _ _ HC H2) as (X & HC2 & HX).
  cbv beta iota in H3.
  binv H3 u2 s3 H3 H4.
  pose proof (write_entries_cohX _ _ _ _ _ _ HC2 H3 HX) as HC3.
  binv H4 u3 s4 H4 H5.
  assert (HC4 : DirCohX [] s4 dids).
  { destruct (lastN (pop_last path)) as [sib|].
    - binv H4 se s5 H4 H6. apply dir_entry_inv in H4. destruct H4 as [-> Hse].
      destruct (d_left se =? x).
      + binv H6 u4 s6 H6 H7. eapply link_left_cohX; eassumption.
      + destruct (d_right se =? x); cbn [negb] in H6; [|exfalso; eapply panic_inv; eauto].
        binv H6 u4 s6 H6 H7. eapply link_right_cohX; eassumption.
    - binv H4 pe s5 H4 H6. apply dir_entry_inv in H4. destruct H4 as [-> Hpe].
      binv H6 u4 s6 H6 H7. eapply link_child_cohX; eassumption. }
  eapply free_dir_entry_cohX; eassumption.
Qed.

Theorem remove_dir_entry_coherent : forall s s' parent nm,
  DirCoherent s -> remove_dir_entry parent nm s = (s', Ok tt) -> DirCoherent s'.
Proof.
  intros s s' parent nm HC H. apply DirCoherent_iff in HC. destruct HC as [dids HC].
  apply DirCoherent_iff. exists dids. eapply remove_dir_entry_cohX; eassumption.
Qed.

(* ================================================================== *)
(* D5: insert_dir_entry                                                *)
(* ================================================================== *)

(* the Eq outcome of the descent is only produced at the very start: then the
   entry to relink is the parent itself (insert_dir_entry reads [prev] but
   writes [parent] in that branch) *)
Lemma insert_descend_eq : forall fuel ds nm sib prev ord p',
  insert_descend fuel ds nm sib prev ord = Ok (p', Eq) -> p' = prev /\ ord = Eq.
Proof.
  induction fuel as [|f IH]; intros ds nm sib prev ord p' H; cbn [insert_descend] in H;
    [discriminate H|].
  destruct (sib =? NO_STREAM).
  - injection H as <- <-. split; reflexivity.
  - destruct (dir_entry_of ds sib) as [e| | |]; cbn [rbind] in H; try discriminate H.
    destruct (cmp_names nm (d_name e)).
    + discriminate H.
    + apply IH in H. destruct H as [_ H]. discriminate H.
    + apply IH in H. destruct H as [_ H]. discriminate H.
Qed.

Lemma insert_dir_entry_cohX_gen : forall s parent nm ty now s' id,
  (forall s1 id1, allocate_dir_entry s = (s1, Ok id1) -> exists dids1, DirCohX [] s1 dids1) ->
  insert_dir_entry parent nm ty now s = (s', Ok id) ->
  exists dids', DirCohX [] s' dids'.
Proof.
  intros s parent nm ty now s' id Halloc H. unfold insert_dir_entry in H.
  binv H id0 s1 H1 H2. destruct (Halloc _ _ H1) as [dids HC1]. exists dids.
  cbv zeta in H2.
  binv H2 u1 s2 H2 H3. destruct (cohX_set _ _ _ _ _ _ _ HC1 H2) as (HC2 & _ & _).
  binv H3 p s3 H3 H4. apply dir_entry_inv in H3. destruct H3 as [-> Hp].
  binv H4 s0 s3 H4 H5. apply get_inv in H4. destruct H4 as [-> ->].
  binv H5 a s3 H5 H6. apply lift_inv in H5. destruct H5 as [-> Hd]. destruct a as [prev ord].
  binv H6 pe s3 H6 H7. apply dir_entry_inv in H6. destruct H6 as [-> Hpe].
  binv H7 u2 s3 H7 H8. binv H8 u3 s4 H8 H9. apply ret_inv in H9. destruct H9 as [-> _].
  assert (HC3 : DirCohX [id0] s3 dids).
  { destruct ord.
    - apply insert_descend_eq in Hd. destruct Hd as [-> _].
      binv H7 u4 s5 H7 H9. eapply link_child_cohX; eassumption.
    - binv H7 u4 s5 H7 H9. eapply link_left_cohX; eassumption.
    - binv H7 u4 s5 H7 H9. eapply link_right_cohX; eassumption. }
  apply (cohX_write_entry [id0] [] s3 dids id0 s4 u3 HC3 H8).
  intros j [Hj|[]] Hne. congruence.
Qed.

(* allocation of a slot without extending the directory chain: either an
   unallocated cached entry is reused (state unchanged), or the cached table
   grows by one blank entry whose slot is already blank on disk *)
Lemma allocate_dir_entry_noext_cohX : forall s dids s' id,
  DirCohX [] s dids ->
  first_unalloc (dirs s) 0 <> None \/ lenN (dirs s) mod dir_per_sector (ver s) <> 0 ->
  allocate_dir_entry s = (s', Ok id) ->
  DirCohX [] s' dids.
Proof.
  intros s dids s' id HC Hne H. unfold allocate_dir_entry in H.
  binv H s0 s1 H1 H2. apply get_inv in H1. destruct H1 as [-> ->].
  destruct (first_unalloc (dirs s) 0) as [i|] eqn:F.
  - apply ret_inv in H2. destruct H2 as [-> _]. exact HC.
  - destruct Hne as [Hne|Hne]; [congruence|].
    destruct (lenN (dirs s) mod dir_per_sector (ver s) =? 0) eqn:E; [lia|].
    binv H2 u1 s1 H1 H2. apply ret_inv in H1. destruct H1 as [-> _].
    binv H2 s0 s1 H1 H2. apply get_inv in H1. destruct H1 as [-> ->].
    binv H2 u2 s2 H2 H3. unfold put in H2. injection H2 as <-.
    apply ret_inv in H3. destruct H3 as [-> _].
    destruct HC as (H1 & H2 & H3 & H4 & H5).
    assert (Hcap : DIR_ENTRY_LEN * (lenN (dirs s) + 1) <= slen s * lenN dids).
    { unfold DIR_ENTRY_LEN in *.
      destruct (ver_cases s) as [[Hs Hp]|[Hs Hp]]; rewrite Hp in Hne; rewrite Hs in *; lia. }
    split; [exact H1|]. split; [exact H2|]. cbn [dirs w_dirs].
    rewrite lenN_app. cbn [lenN].
    change (slen (w_dirs s (dirs s ++ [dirent_unallocated]))) with (slen s).
    split; [lia|]. split.
    + intros j e _ Hn Hname. rewrite (slot_bytes_img s) by reflexivity.
      destruct (N.lt_ge_cases j (lenN (dirs s))) as [Hlt|Hge].
      * rewrite nthN_app_l in Hn by exact Hlt. apply H4; [intros []|assumption|assumption].
      * pose proof (nthN_Some_lt _ _ _ _ Hn) as Hl. rewrite lenN_app in Hl. cbn [lenN] in Hl.
        assert (j = lenN (dirs s)) by lia. subst j.
        rewrite nthN_app_last in Hn. injection Hn as <-.
        apply H5; [lia|exact Hcap].
    + intros j Hj Hr. rewrite (slot_bytes_img s) by reflexivity. apply H5; [lia|exact Hr].
Qed.

(* D5 (no chain extension; covers both the reuse of an unallocated slot and
   the append into a sector that still has room) *)
Theorem insert_dir_entry_coherent : forall s s' parent nm ty now id,
  DirCoherent s ->
  first_unalloc (dirs s) 0 <> None \/ lenN (dirs s) mod dir_per_sector (ver s) <> 0 ->
  insert_dir_entry parent nm ty now s = (s', Ok id) -> DirCoherent s'.
Proof.
  intros s s' parent nm ty now id HC Hne H.
  apply DirCoherent_iff in HC. destruct HC as [dids HC]. apply DirCoherent_iff.
  apply (insert_dir_entry_cohX_gen s parent nm ty now s' id); [|exact H].
  intros s1 id1 Ha. exists dids. eapply allocate_dir_entry_noext_cohX; eassumption.
Qed.

(* ================================================================== *)
(* D7: the directory chain reads back as the cache + blank entries     *)
(* ================================================================== *)

(* what open's dir_loop does with the sectors of the directory chain, one
   sector after the other (img_read of a full sector is the whole sector) *)
Fixpoint read_dir_sectors (v : version) (strict : bool) (s : cstate) (ids : list N)
  : res (list dirent) :=
  match ids with
  | [] => Ok []
  | sid :: t =>
    rbind (read_dirents v strict (N.to_nat (dir_per_sector v)) (sector_bytes s sid)) (fun es =>
    rbind (read_dir_sectors v strict s t) (fun r => Ok (es ++ r)))
  end.

Lemma nthN_takeN_Some : forall A (l : list A) n j e,
  nthN (takeN n l) j = Some e -> nthN l j = Some e /\ j < n.
Proof.
  induction l as [|x t IH]; intros n j e H; [discriminate H|].
  cbn [takeN] in H. destruct (N.eqb_spec n 0) as [->|Hn]; [discriminate H|].
  cbn [nthN] in *. destruct (N.eqb_spec j 0) as [->|Hj].
  - split; [exact H|lia].
  - apply IH in H. destruct H as [H Hlt]. split; [exact H|lia].
Qed.

Lemma nthN_dropN_shift : forall A (l : list A) n j, nthN (dropN n l) j = nthN l (n + j).
Proof.
  induction l as [|x t IH]; intros n j; [reflexivity|].
  cbn [dropN]. destruct (N.eqb_spec n 0) as [->|Hn]; [reflexivity|].
  rewrite IH. rewrite (nthN_cons_pos _ x t (n + j)) by lia. f_equal. lia.
Qed.

Lemma read_dirents_slots : forall v strict n bs es,
  lenN es = N.of_nat n ->
  (forall j e, nthN es j = Some e -> CodecProofs.dirent_wf v e /\ slot_of bs j = dirent_encode e) ->
  read_dirents v strict n bs = Ok es.
Proof.
  induction n as [|n IH]; intros bs es Hl Hs.
  - destruct es; [reflexivity|cbn [lenN] in Hl; lia].
  - destruct es as [|e t]; [cbn [lenN] in Hl; lia|].
    cbn [read_dirents].
    destruct (Hs 0 e (nthN_cons_0 _ _ _)) as [Hwf Hsl].
    unfold slot_of in Hsl. rewrite N.mul_0_r, dropN_0 in Hsl.
    change DIR_ENTRY_LEN with 128. rewrite Hsl, (CodecProofs.dirent_roundtrip _ _ _ Hwf).
    cbn [rbind].
    rewrite (IH (dropN 128 bs) t); [reflexivity| |].
    + cbn [lenN] in Hl. lia.
    + intros j e' Hj. destruct (Hs (j + 1) e') as [Hw' Hs'].
      { rewrite nthN_cons_pos by lia. replace (N.pred (j + 1)) with j by lia. exact Hj. }
      split; [exact Hw'|]. rewrite <- Hs'. unfold slot_of. rewrite dropN_dropN.
      do 2 f_equal. lia.
Qed.

Lemma read_dir_sectors_spec : forall v strict s per ids all,
  per = dir_per_sector v ->
  Forall (fun x => lenN (sector_bytes s x) = 128 * per) ids ->
  lenN all = per * lenN ids ->
  (forall g e, nthN all g = Some e ->
     CodecProofs.dirent_wf v e /\ slot_of (chain_content s ids) g = dirent_encode e) ->
  read_dir_sectors v strict s ids = Ok all.
Proof.
  intros v strict s per ids. induction ids as [|x t IH]; intros all Hper HF Hl Hs.
  - cbn [lenN] in Hl. destruct all; [reflexivity|cbn [lenN] in Hl; lia].
  - pose proof (Forall_inv HF) as Hx. pose proof (Forall_inv_tail HF) as Ht. cbv beta in Hx.
    cbn [lenN] in Hl. cbn [read_dir_sectors]. rewrite <- Hper.
    rewrite (read_dirents_slots v strict (N.to_nat per) (sector_bytes s x) (takeN per all)).
    + cbn [rbind]. rewrite (IH (dropN per all) Hper Ht).
      * cbn [rbind]. rewrite takeN_dropN_id. reflexivity.
      * rewrite lenN_dropN. lia.
      * intros g e Hg. rewrite nthN_dropN_shift in Hg.
        destruct (Hs _ _ Hg) as [Hw Hsl]. split; [exact Hw|]. rewrite <- Hsl.
        rewrite chain_content_cons. unfold slot_of.
        rewrite dropN_app_ge by blia. do 2 f_equal. blia.
    + rewrite lenN_takeN, N2Nat.id. lia.
    + intros j e Hj. apply nthN_takeN_Some in Hj. destruct Hj as [Hj Hlt].
      destruct (Hs _ _ Hj) as [Hw Hsl]. split; [exact Hw|]. rewrite <- Hsl.
      rewrite chain_content_cons. unfold slot_of.
      rewrite dropN_app_le by blia.
      rewrite takeN_app_le by (rewrite lenN_dropN; blia). reflexivity.
Qed.

Theorem dir_reads_back : forall s strict,
  DirCoherent s ->
  (forall e, In e (dirs s) -> CodecProofs.dirent_wf (ver s) e) ->
  exists dids, dir_ids s dids /\
    read_dir_sectors (ver s) strict s dids
    = Ok (dirs s ++ repeatN dirent_unallocated
                      (dir_per_sector (ver s) * lenN dids - lenN (dirs s))).
Proof.
  intros s strict (dids & H1 & H2 & H3 & H4 & H5) Hwf.
  exists dids. split; [exact H1|].
  set (per := dir_per_sector (ver s)).
  assert (Hsl : slen s = 128 * per).
  { unfold per. destruct (ver_cases s) as [[-> ->]|[-> ->]]; reflexivity. }
  unfold DIR_ENTRY_LEN in *.
  apply (read_dir_sectors_spec (ver s) strict s per); [reflexivity| | |].
  - rewrite <- Hsl. apply good_chain_lens. exact H2.
  - rewrite lenN_app, lenN_repeatN. nia.
  - intros g e Hg.
    pose proof (nthN_Some_lt _ _ _ _ Hg) as Hlt. rewrite lenN_app, lenN_repeatN in Hlt.
    change (slot_of (chain_content s dids) g) with (slot_bytes s dids g).
    destruct (N.lt_ge_cases g (lenN (dirs s))) as [Hin|Hout].
    + rewrite nthN_app_l in Hg by exact Hin.
      pose proof (Hwf e (nthN_In _ _ _ _ Hg)) as W. split; [exact W|].
      apply H4; [exact Hg|].
      apply (CodecProofs.wf_name_len (d_type e)). exact (CodecProofs.wf_name _ _ W).
    + rewrite ReuseProofs.nthN_app_r in Hg by exact Hout.
      apply nthN_In in Hg.
      pose proof (CodecProofs.Forall_repeatN _ (eq dirent_unallocated) dirent_unallocated
                    (per * lenN dids - lenN (dirs s)) eq_refl) as HF.
      rewrite Forall_forall in HF. rewrite <- (HF e Hg).
      split; [apply CodecProofs.dirent_wf_unallocated|].
      apply H5; [exact Hout|]. nia.
Qed.

(* ================================================================== *)
(* D5b: insertion that extends the directory chain                     *)
(* ================================================================== *)

(* the cached table grows by one blank entry whose slot is blank on disk *)
Lemma append_blank_cohX : forall s dids,
  DirCohX [] s dids ->
  DIR_ENTRY_LEN * (lenN (dirs s) + 1) <= slen s * lenN dids ->
  DirCohX [] (w_dirs s (dirs s ++ [dirent_unallocated])) dids.
Proof.
  intros s dids (H1 & H2 & H3 & H4 & H5) Hcap.
  split; [exact H1|]. split; [exact H2|]. cbn [dirs w_dirs].
  rewrite lenN_app. cbn [lenN].
  change (slen (w_dirs s (dirs s ++ [dirent_unallocated]))) with (slen s).
  split; [lia|]. split.
  - intros j e _ Hn Hname. rewrite (slot_bytes_img s) by reflexivity.
    destruct (N.lt_ge_cases j (lenN (dirs s))) as [Hlt|Hge].
    + rewrite nthN_app_l in Hn by exact Hlt. apply H4; [intros []|assumption|assumption].
    + pose proof (nthN_Some_lt _ _ _ _ Hn) as Hl. rewrite lenN_app in Hl. cbn [lenN] in Hl.
      assert (j = lenN (dirs s)) by lia. subst j.
      rewrite nthN_app_last in Hn. injection Hn as <-.
      apply H5; [lia|exact Hcap].
  - intros j Hj Hr. rewrite (slot_bytes_img s) by reflexivity. apply H5; [lia|exact Hr].
Qed.

(* what extend_chain (dir_start s) IDir has to deliver: the chain has one more
   sector, that sector holds blank entries, the old sectors are untouched *)
Definition chain_extended (s s1 : cstate) (dids : list N) (new : N) : Prop :=
  ver s1 = ver s /\ dirs s1 = dirs s /\ dir_start s1 = dir_start s /\
  chain_ids_of (fat s1) (dir_start s1) = Ok (dids ++ [new]) /\
  good_chain s1 (dids ++ [new]) /\
  (forall x, In x dids -> sector_bytes s1 x = sector_bytes s x) /\
  sector_bytes s1 new = init_bytes (ver s) IDir.

Lemma chain_content_app : forall s a b,
  chain_content s (a ++ b) = chain_content s a ++ chain_content s b.
Proof. intros s a b. unfold chain_content. rewrite map_app, concat_app. reflexivity. Qed.

Lemma slot_of_app_l : forall (c r : list byte) j,
  128 * (j + 1) <= lenN c -> slot_of (c ++ r) j = slot_of c j.
Proof.
  intros c r j H. unfold slot_of. rewrite dropN_app_le by blia.
  rewrite takeN_app_le by (rewrite lenN_dropN; blia). reflexivity.
Qed.

Lemma slot_of_app_r : forall (c r : list byte) j k,
  lenN c = 128 * k -> k <= j -> slot_of (c ++ r) j = slot_of r (j - k).
Proof.
  intros c r j k Hc Hk. unfold slot_of. rewrite dropN_app_ge by blia.
  do 2 f_equal. blia.
Qed.

Lemma slot_of_blank : forall (b : list byte) n k, lenN b = 128 -> k < n ->
  slot_of (concat (repeatN b n)) k = b.
Proof.
  intros b n. induction n as [|n IH] using N.peano_ind; intros k Hb Hk; [lia|].
  rewrite repeatN_succ. cbn [concat].
  destruct (N.eq_dec k 0) as [->|Hne].
  - unfold slot_of. rewrite N.mul_0_r, dropN_0. rewrite takeN_app_le by blia.
    apply takeN_all. blia.
  - rewrite (slot_of_app_r b _ k 1) by blia. apply IH; [exact Hb|lia].
Qed.

Lemma chain_extended_cohX : forall s s1 dids new,
  DirCohX [] s dids -> chain_extended s s1 dids new -> DirCohX [] s1 (dids ++ [new]).
Proof.
  intros s s1 dids new (H1 & H2 & H3 & H4 & H5) (Ev & Ed & Est & Hids & Hgood & Hold & Hnew).
  pose proof (good_chain_len _ _ H2) as HCL.
  assert (Hsl : slen s1 = slen s) by (unfold slen; rewrite Ev; reflexivity).
  assert (Hc : chain_content s1 (dids ++ [new]) = chain_content s dids ++ init_bytes (ver s) IDir).
  { rewrite chain_content_app. f_equal.
    - apply chain_content_ext. exact Hold.
    - unfold chain_content. cbn [map concat]. rewrite Hnew. apply app_nil_r. }
  unfold DIR_ENTRY_LEN in *.
  split; [exact Hids|]. split; [exact Hgood|]. rewrite Ed, Hsl, lenN_app. cbn [lenN].
  unfold DIR_ENTRY_LEN. split; [lia|]. split.
  - intros j e _ Hn Hname. rewrite slot_bytes_of, Hc.
    pose proof (nthN_Some_lt _ _ _ _ Hn) as Hlt.
    rewrite slot_of_app_l by blia. apply H4; [intros []|assumption|assumption].
  - intros j Hj Hr. rewrite slot_bytes_of, Hc.
    destruct (N.le_gt_cases (128 * (j + 1)) (slen s * lenN dids)) as [Hin|Hout].
    + rewrite slot_of_app_l by blia. apply H5; assumption.
    + set (per := dir_per_sector (ver s)).
      assert (Hper : slen s = 128 * per /\ sector_len (ver s) / DIR_ENTRY_LEN = per).
      { unfold per, dir_per_sector. destruct (ver_cases s) as [[-> E]|[-> E]];
          unfold dir_per_sector in E; rewrite E; split; reflexivity. }
      destruct Hper as [Hs Hq].
      rewrite (slot_of_app_r _ _ j (per * lenN dids)) by (unfold byte in *; nia).
      unfold init_bytes. rewrite Hq.
      apply slot_of_blank; [exact lenN_enc_unalloc|nia].
Qed.

Lemma header_write_cohX : forall X s dids off bs s' r,
  DirCohX X s dids -> header_write off bs s = (s', r) -> DirCohX X s' dids.
Proof.
  intros X s dids off bs s' r HC H. unfold header_write, panic, modify in H.
  destruct (HEADER_LEN <=? off); [injection H as <- _; exact HC|].
  injection H as <- _.
  destruct HC as (H1 & H2 & H3 & H4 & H5).
  pose proof H2 as (Hnd & HF & Himg & Hpos).
  destruct (nthN_lt_Some _ (img s) 0 ltac:(lia)) as [h Hh].
  unfold img_write. rewrite Hh.
  set (s1 := w_img s (updN (img s) 0 (spliceN h off bs))).
  assert (Hsb : forall x, sector_bytes s1 x = sector_bytes s x).
  { intro x. unfold sector_bytes, s1. cbn [img w_img]. rewrite nthN_updN_other by lia. reflexivity. }
  assert (Hc : chain_content s1 dids = chain_content s dids)
    by (apply chain_content_ext; intros x _; apply Hsb).
  split; [exact H1|]. split.
  - apply (good_chain_transfer s s1 dids H2); [reflexivity| |].
    + unfold s1. cbn [img w_img]. apply lenN_updN.
    + intros x _. rewrite Hsb. reflexivity.
  - change (dirs s1) with (dirs s). change (slen s1) with (slen s).
    unfold slot_bytes in *. rewrite Hc. split; [exact H3|]. split; assumption.
Qed.

Lemma update_num_dir_sectors_cohX : forall X s dids s' r,
  DirCohX X s dids -> update_num_dir_sectors s = (s', r) -> DirCohX X s' dids.
Proof.
  intros X s dids s' r HC H. unfold update_num_dir_sectors, next in H.
  cbv beta iota zeta delta [bind get ret lift] in H.
  destruct (ver s).
  - injection H as <- _. exact HC.
  - destruct (next_of (fat s) (dir_start s)) as [nx| | |]; try (injection H as <- _; exact HC).
    destruct (count_dir_go (S (S (length (fat s)))) (fat s) 1 nx) as [n| | |];
      try (injection H as <- _; exact HC).
    eapply header_write_cohX; eassumption.
Qed.

Lemma allocate_dir_entry_ext_cohX : forall s dids s' id,
  DirCohX [] s dids ->
  (forall s1 new, extend_chain (dir_start s) IDir s = (s1, Ok new) ->
                  chain_extended s s1 dids new) ->
  allocate_dir_entry s = (s', Ok id) ->
  exists dids', DirCohX [] s' dids'.
Proof.
  intros s dids s' id HC Hext H.
  destruct (first_unalloc (dirs s) 0) as [i|] eqn:F.
  { exists dids. apply (allocate_dir_entry_noext_cohX s dids s' id HC); [|exact H].
    left. congruence. }
  destruct (lenN (dirs s) mod dir_per_sector (ver s) =? 0) eqn:E.
  2:{ exists dids. apply (allocate_dir_entry_noext_cohX s dids s' id HC); [|exact H].
      right. lia. }
  unfold allocate_dir_entry in H.
  binv H s0 s1 H1 H2. apply get_inv in H1. destruct H1 as [-> ->].
  rewrite F, E in H2.
  binv H2 u1 s1 H1 H2. binv H1 new s2 H1 H3.
  pose proof (chain_extended_cohX s s2 dids new HC (Hext _ _ H1)) as HC2.
  pose proof (update_num_dir_sectors_cohX _ _ _ _ _ HC2 H3) as HC1.
  binv H2 s0 s3 H2 H4. apply get_inv in H2. destruct H2 as [-> ->].
  binv H4 u2 s3 H4 H5. unfold put in H4. injection H4 as <-.
  apply ret_inv in H5. destruct H5 as [-> _].
  exists (dids ++ [new]). apply append_blank_cohX; [exact HC1|].
  (* capacity: the old table fits the old chain; one more sector has room *)
  destruct (Hext _ _ H1) as (Ev & Ed & _).
  assert (Ed1 : dirs s1 = dirs s).
  { rewrite <- Ed. eapply frames_run; [apply frames_update_num_dir_sectors|exact H3]. }
  assert (Ev1 : slen s1 = slen s).
  { destruct HC as (_ & _ & _). destruct HC1 as (_ & G1 & _). destruct HC2 as (_ & G2 & _).
    unfold update_num_dir_sectors, next in H3.
    cbv beta iota zeta delta [bind get ret lift] in H3. unfold slen. rewrite <- Ev.
    destruct (ver s2) eqn:V2.
    - injection H3 as <- _. rewrite V2. reflexivity.
    - destruct (next_of (fat s2) (dir_start s2)) as [nx| | |];
        try (injection H3 as <- _; rewrite V2; reflexivity).
      destruct (count_dir_go (S (S (length (fat s2)))) (fat s2) 1 nx) as [n| | |];
        try (injection H3 as <- _; rewrite V2; reflexivity).
      unfold header_write, panic, modify in H3.
      destruct (HEADER_LEN <=? HDR_OFF_NUM_DIR); injection H3 as <- _; cbn [ver w_img]; rewrite V2; reflexivity. }
  rewrite Ed1, Ev1, lenN_app. cbn [lenN].
  destruct HC as (_ & _ & H3' & _). unfold DIR_ENTRY_LEN in *.
  destruct (ver_cases s) as [[Hs _]|[Hs _]]; rewrite Hs in *; lia.
Qed.

(* D5b, relative to the allocator: whatever extend_chain does, if it delivers
   [chain_extended] then insertion keeps the directory coherent *)
Theorem insert_dir_entry_coherent_ext : forall s s' parent nm ty now id,
  DirCoherent s ->
  (forall dids s1 new, dir_ids s dids ->
     extend_chain (dir_start s) IDir s = (s1, Ok new) -> chain_extended s s1 dids new) ->
  insert_dir_entry parent nm ty now s = (s', Ok id) -> DirCoherent s'.
Proof.
  intros s s' parent nm ty now id HC Hext H.
  apply DirCoherent_iff in HC. destruct HC as [dids HC]. apply DirCoherent_iff.
  apply (insert_dir_entry_cohX_gen s parent nm ty now s' id); [|exact H].
  intros s1 id1 Ha. apply (allocate_dir_entry_ext_cohX s dids s1 id1 HC); [|exact Ha].
  intros s2 new He. apply Hext; [|exact He]. destruct HC as (Hi & _). exact Hi.
Qed.

(* ================================================================== *)
(* D5b, allocator side: extend_chain on the directory chain delivers   *)
(* [chain_extended]                                                    *)
(* ================================================================== *)

(* ---- inversion of the primitive writes on an image with one element per
        sector (lenN (img s) = nsect s + 1) ---- *)

Lemma sector_write_ok_inv : forall s sid off bs s' u,
  lenN (img s) = nsect s + 1 ->
  sector_write sid off bs s = (s', Ok u) ->
  sid < nsect s /\
  s' = w_img s (updN (img s) (sid + 1) (spliceN (sector_bytes s sid) off bs)).
Proof.
  intros s sid off bs s' u Hi H.
  unfold sector_write, seek_sector, bind, get, panic, fail, ret, modify in H.
  destruct (slen s <? off); [discriminate H|].
  destruct (nsect s <=? sid) eqn:E; [discriminate H|].
  destruct (lenN (img s) <=? sid + 1) eqn:E2; [lia|].
  destruct (nthN_lt_Some _ (img s) (sid + 1) ltac:(lia)) as [sec Hsec].
  unfold img_write in H. rewrite Hsec in H. injection H as <-.
  split; [lia|]. unfold sector_bytes. rewrite Hsec. reflexivity.
Qed.

Lemma seek_sector_inv : forall sid off s s' u,
  seek_sector sid off s = (s', Ok u) -> s' = s /\ off <= slen s /\ sid < nsect s.
Proof.
  intros sid off s s' u H. unfold seek_sector, bind, get, panic, fail, ret in H.
  destruct (slen s <? off) eqn:E1; [discriminate H|].
  destruct (nsect s <=? sid) eqn:E2; [discriminate H|].
  injection H as <-. repeat split; lia.
Qed.

Lemma lenN_img_pad_last : forall sl im, lenN (img_pad_last sl im) = lenN im.
Proof.
  intros sl im. unfold img_pad_last. destruct (lastN im) as [sec|] eqn:El; [|reflexivity].
  destruct (lenN sec <? sl); [|reflexivity].
  rewrite (ReuseProofs.lastN_Some_snoc _ _ _ El) at 2. rewrite !lenN_app. reflexivity.
Qed.

Lemma init_sector_ok_inv : forall s sid i s' u,
  lenN (img s) = nsect s + 1 ->
  init_sector sid i s = (s', Ok u) ->
  (sid < nsect s /\
   s' = w_img s (updN (img s) (sid + 1)
                      (spliceN (sector_bytes s sid) 0 (init_bytes (ver s) i)))) \/
  (sid = nsect s /\
   s' = w_img (w_nsect s (nsect s + 1))
              (img_pad_last (slen s) (img s) ++ [init_bytes (ver s) i])).
Proof.
  intros s sid i s' u Hi H. unfold init_sector in H.
  binv H s0 s1 H1 H2. apply get_inv in H1. destruct H1 as [-> ->].
  binv H2 u1 s1 H1 H2.
  destruct (nsect s <? sid) eqn:E1; [discriminate H1|].
  destruct (sid =? nsect s) eqn:E2.
  - apply N.eqb_eq in E2. unfold modify in H1. injection H1 as <-.
    binv H2 s0 s2 H2 H3. apply get_inv in H2. destruct H2 as [-> ->].
    right. split; [exact E2|].
    unfold sector_write in H3. binv H3 u2 s3 H3 H4.
    apply seek_sector_inv in H3. destruct H3 as (-> & _ & _).
    unfold modify in H4. injection H4 as <-.
    cbn [nsect img ver w_nsect].
    change (slen (w_nsect s (nsect s + 1))) with (slen s).
    destruct (lenN (img s) <=? sid + 1) eqn:E4; [|lia].
    unfold img_write.
    destruct (nthN (img_pad_last (slen s) (img s)) (sid + 1)) as [x|] eqn:En.
    + apply nthN_Some_lt in En. rewrite lenN_img_pad_last in En. lia.
    + rewrite CoherenceProofs.spliceN_nil_0. reflexivity.
  - apply ret_inv in H1. destruct H1 as [-> _].
    binv H2 s0 s2 H2 H3. apply get_inv in H2. destruct H2 as [-> ->].
    left. apply sector_write_ok_inv in H3; [|exact Hi]. exact H3.
Qed.

Lemma set_fat_ok_inv : forall s index v s' u,
  lenN (img s) = nsect s + 1 ->
  set_fat index v s = (s', Ok u) ->
  exists fsid, nthN (difat s) (index / fat_per_sector s) = Some fsid /\ fsid < nsect s /\
    index <= lenN (fat s) /\
    s' = w_fat (w_img s (updN (img s) (fsid + 1)
                   (spliceN (sector_bytes s fsid) (4 * (index mod fat_per_sector s)) (le_bytes 4 v))))
               (if index =? lenN (fat s) then fat s ++ [v] else updN (fat s) index v).
Proof.
  intros s index v s' u Hi H. unfold set_fat in H.
  binv H s0 s1 H1 H2. apply get_inv in H1. destruct H1 as [-> ->].
  destruct (lenN (fat s) <? index) eqn:E1; [exfalso; eapply panic_inv; eauto|].
  destruct (nthN (difat s) (index / fat_per_sector s)) as [fsid|] eqn:Ed; [|discriminate H2].
  binv H2 u1 s1 H1 H2. apply sector_write_ok_inv in H1; [|exact Hi]. destruct H1 as [Hf ->].
  unfold modify in H2. injection H2 as <-.
  exists fsid. split; [reflexivity|]. split; [exact Hf|]. split; [lia|]. reflexivity.
Qed.

Lemma header_write_ok_inv : forall s off bs s' u,
  lenN (img s) = nsect s + 1 ->
  header_write off bs s = (s', Ok u) ->
  exists h, nthN (img s) 0 = Some h /\ s' = w_img s (updN (img s) 0 (spliceN h off bs)).
Proof.
  intros s off bs s' u Hi H. unfold header_write, panic, modify in H.
  destruct (HEADER_LEN <=? off); [discriminate H|]. injection H as <-.
  destruct (nthN_lt_Some _ (img s) 0 ltac:(lia)) as [h Hh].
  exists h. split; [exact Hh|]. unfold img_write. rewrite Hh. reflexivity.
Qed.

(* ---- the frame invariant: the sectors in P and their FAT cells stay as in
        s0, and nothing in P becomes a FAT / DIFAT / free sector ---- *)
Section Frame.
Variable P : list N.
Variable s0 : cstate.

Definition K (s : cstate) : Prop :=
  ver s = ver s0 /\ dirs s = dirs s0 /\ dir_start s = dir_start s0 /\
  lenN (img s) = nsect s + 1 /\ lenN (fat s0) <= lenN (fat s) /\
  (exists t, difat s = difat s0 ++ t) /\
  (forall x, x < nsect s -> lenN (sector_bytes s x) = slen s) /\
  (forall x, In x P ->
     x < lenN (fat s0) /\ x < nsect s /\
     sector_bytes s x = sector_bytes s0 x /\ nthN (fat s) x = nthN (fat s0) x /\
     ~ In x (difat s) /\ ~ In x (difat_ids s) /\ ~ In x (free s)).

Lemma K_step : forall s s', K s ->
  ver s' = ver s -> dirs s' = dirs s -> dir_start s' = dir_start s ->
  lenN (img s') = nsect s' + 1 -> lenN (fat s) <= lenN (fat s') -> nsect s <= nsect s' ->
  (exists t, difat s' = difat s ++ t) ->
  (forall x, x < nsect s' -> lenN (sector_bytes s' x) = slen s) ->
  (forall x, In x P -> x < lenN (fat s) -> x < nsect s ->
     ~ In x (difat s) -> ~ In x (difat_ids s) -> ~ In x (free s) ->
     sector_bytes s' x = sector_bytes s x /\ nthN (fat s') x = nthN (fat s) x /\
     ~ In x (difat s') /\ ~ In x (difat_ids s') /\ ~ In x (free s')) ->
  K s'.
Proof.
  intros s s' (K1 & K2 & K3 & K4 & K5 & (t & K6) & K7 & K8) E1 E2 E3 Hi Hf Hn (t' & Hd) Hfull HP.
  split; [congruence|]. split; [congruence|]. split; [congruence|].
  split; [exact Hi|]. split; [lia|].
  split; [exists (t ++ t'); rewrite Hd, K6, app_assoc; reflexivity|].
  split; [intros x Hx; unfold slen; rewrite E1; apply Hfull; exact Hx|].
  intros x Hx. destruct (K8 x Hx) as (A1 & A2 & A3 & A4 & A5 & A6 & A7).
  destruct (HP x Hx ltac:(lia) A2 A5 A6 A7) as (B1 & B2 & B3 & B4 & B5).
  split; [exact A1|]. split; [lia|]. split; [congruence|]. split; [congruence|].
  split; [exact B3|]. split; assumption.
Qed.

Lemma K_notin_new : forall s x, K s -> In x P -> x <> lenN (fat s).
Proof. intros s x (_ & _ & _ & _ & K5 & _ & _ & K8) Hx. destruct (K8 x Hx) as (A1 & _). lia. Qed.

(* overwrite of sector sid (not in P) with a full-length content *)
Lemma K_wr : forall s sid b,
  K s -> ~ In sid P -> sid < nsect s -> lenN b = slen s ->
  K (w_img s (updN (img s) (sid + 1) b)).
Proof.
  intros s sid b HK Hni Hs Hb. pose proof HK as (_ & _ & _ & K4 & _ & _ & K7 & _).
  assert (Hoth : forall x, x <> sid ->
            sector_bytes (w_img s (updN (img s) (sid + 1) b)) x = sector_bytes s x).
  { intros x Hx. unfold sector_bytes. cbn [img w_img]. rewrite nthN_updN_other by lia. reflexivity. }
  apply (K_step s _ HK); [reflexivity|reflexivity|reflexivity| | | | | |].
  - cbn [img w_img nsect]. rewrite lenN_updN. exact K4.
  - cbn [fat w_img]. lia.
  - cbn [nsect w_img]. lia.
  - exists []. cbn [difat w_img]. rewrite app_nil_r. reflexivity.
  - intros x Hx. cbn [nsect w_img] in Hx. destruct (N.eq_dec x sid) as [->|Hne].
    + unfold sector_bytes. cbn [img w_img]. rewrite nthN_updN_same by lia. exact Hb.
    + rewrite Hoth by exact Hne. apply K7. exact Hx.
  - intros x Hx _ _ H5 H6 H7. cbn [fat difat difat_ids free w_img].
    split; [apply Hoth; intro E; subst x; contradiction|]. repeat split; assumption.
Qed.

Lemma K_sector_write : forall s sid off bs s' u,
  K s -> sector_write sid off bs s = (s', Ok u) -> ~ In sid P ->
  off + lenN bs <= slen s -> K s'.
Proof.
  intros s sid off bs s' u HK H Hni Hfit.
  pose proof HK as (_ & _ & _ & K4 & _ & _ & K7 & _).
  apply sector_write_ok_inv in H; [|exact K4]. destruct H as [Hs ->].
  apply K_wr; try assumption. rewrite lenN_spliceN, (K7 sid Hs). blia.
Qed.

Lemma K_header_write : forall s off bs s' u,
  K s -> header_write off bs s = (s', Ok u) -> K s'.
Proof.
  intros s off bs s' u HK H. pose proof HK as (_ & _ & _ & K4 & _ & _ & K7 & _).
  apply header_write_ok_inv in H; [|exact K4]. destruct H as (h & Hh & ->).
  assert (Hsb : forall x, sector_bytes (w_img s (updN (img s) 0 (spliceN h off bs))) x
                          = sector_bytes s x).
  { intro x. unfold sector_bytes. cbn [img w_img]. rewrite nthN_updN_other by lia. reflexivity. }
  apply (K_step s _ HK); [reflexivity|reflexivity|reflexivity| | | | | |].
  - cbn [img w_img nsect]. rewrite lenN_updN. exact K4.
  - cbn [fat w_img]. lia.
  - cbn [nsect w_img]. lia.
  - exists []. cbn [difat w_img]. rewrite app_nil_r. reflexivity.
  - intros x Hx. rewrite Hsb. apply K7. exact Hx.
  - intros x Hx _ _ H5 H6 H7. cbn [fat difat difat_ids free w_img].
    split; [apply Hsb|]. repeat split; assumption.
Qed.

Lemma K_init_sector : forall s sid i s' u,
  K s -> init_sector sid i s = (s', Ok u) -> ~ In sid P ->
  K s' /\ sid < nsect s' /\ sector_bytes s' sid = init_bytes (ver s) i /\ fat s' = fat s /\
  difat s' = difat s.
Proof.
  intros s sid i s' u HK H Hni.
  pose proof HK as (_ & _ & _ & K4 & _ & _ & K7 & K8).
  pose proof (ReuseProofs.lenN_init_bytes (ver s) i) as HL. fold (slen s) in HL.
  apply init_sector_ok_inv in H; [|exact K4].
  destruct H as [[Hs ->]|[-> ->]].
  - assert (Hb : spliceN (sector_bytes s sid) 0 (init_bytes (ver s) i) = init_bytes (ver s) i).
    { apply splice_whole. rewrite (K7 sid Hs). blia. }
    rewrite Hb. split; [apply K_wr; assumption|]. cbn [nsect fat difat w_img].
    split; [exact Hs|]. split; [|split; reflexivity].
    unfold sector_bytes. cbn [img w_img]. rewrite nthN_updN_same by lia. reflexivity.
  - set (b := init_bytes (ver s) i) in *.
    set (s1 := w_img (w_nsect s (nsect s + 1)) (img_pad_last (slen s) (img s) ++ [b])).
    assert (Hold : forall x, x < nsect s -> sector_bytes s1 x = sector_bytes s x).
    { intros x Hx. unfold sector_bytes at 1. unfold s1. cbn [img w_img].
      rewrite nthN_app_l by (rewrite lenN_img_pad_last; lia).
      pose proof (K7 x Hx) as Hlen. pose proof (slen_pos s) as Hpos.
      rewrite (CoherenceProofs.nthN_pad_last (slen s) (img s) (x + 1) (sector_bytes s x));
        [reflexivity| |exact Hlen].
      apply CoherenceProofs.sector_bytes_Some. lia. }
    assert (Hnew : sector_bytes s1 (nsect s) = b).
    { unfold sector_bytes, s1. cbn [img w_img].
      rewrite ReuseProofs.nthN_app_r by (rewrite lenN_img_pad_last; lia).
      rewrite lenN_img_pad_last, K4, N.sub_diag. reflexivity. }
    split; [|split; [cbn [s1 nsect w_img w_nsect]; lia|split; [exact Hnew|split; reflexivity]]].
    apply (K_step s _ HK); [reflexivity|reflexivity|reflexivity| | | | | |].
    + unfold s1. cbn [img w_img nsect w_nsect]. rewrite lenN_app, lenN_img_pad_last. cbn [lenN]. lia.
    + cbn [s1 fat w_img w_nsect]. lia.
    + cbn [s1 nsect w_img w_nsect]. lia.
    + exists []. cbn [s1 difat w_img w_nsect]. rewrite app_nil_r. reflexivity.
    + intros x Hx. cbn [s1 nsect w_img w_nsect] in Hx.
      destruct (N.eq_dec x (nsect s)) as [->|Hne]; [rewrite Hnew; exact HL|].
      rewrite Hold by lia. apply K7. lia.
    + intros x Hx _ Hxn H5 H6 H7. cbn [s1 fat difat difat_ids free w_img w_nsect].
      split; [apply Hold; exact Hxn|]. repeat split; assumption.
Qed.

Lemma K_set_fat : forall s index v s' u,
  K s -> set_fat index v s = (s', Ok u) -> ~ In index P ->
  K s' /\ fat s' = (if index =? lenN (fat s) then fat s ++ [v] else updN (fat s) index v) /\
  nsect s' = nsect s /\ difat s' = difat s /\ free s' = free s /\
  (forall x, lenN (sector_bytes s' x) = lenN (sector_bytes s x)).
Proof.
  intros s index v s' u HK H Hni.
  pose proof HK as (_ & _ & _ & K4 & K5 & _ & K7 & K8).
  apply set_fat_ok_inv in H; [|exact K4]. destruct H as (fsid & Hd & Hf & Hidx & ->).
  set (b := spliceN (sector_bytes s fsid) (4 * (index mod fat_per_sector s)) (le_bytes 4 v)).
  assert (Hb : lenN b = slen s).
  { unfold b. rewrite lenN_spliceN, (K7 fsid Hf), CodecProofs.lenN_le_bytes4.
    pose proof (ReuseProofs.cell_off_fits s index) as Hc. unfold ReuseProofs.cell_off in Hc. blia. }
  assert (HfP : ~ In fsid P).
  { intro Hin. destruct (K8 fsid Hin) as (_ & _ & _ & _ & A5 & _). apply A5.
    eapply nthN_In. exact Hd. }
  pose proof (K_wr s fsid b HK HfP Hf Hb) as HK1.
  set (s1 := w_img s (updN (img s) (fsid + 1) b)) in *.
  split; [|split; [reflexivity|split; [reflexivity|split; [reflexivity|split; [reflexivity|]]]]].
  - apply (K_step s1 _ HK1); [reflexivity|reflexivity|reflexivity| | | | | |].
    + exact (proj1 (proj2 (proj2 (proj2 HK1)))).
    + cbn [fat w_fat]. change (fat s1) with (fat s).
      destruct (index =? lenN (fat s)); [rewrite lenN_app; lia|rewrite lenN_updN; lia].
    + cbn [nsect w_fat]. lia.
    + exists []. cbn [difat w_fat]. rewrite app_nil_r. reflexivity.
    + intros x Hx. destruct HK1 as (_ & _ & _ & _ & _ & _ & K7' & _). apply K7'. exact Hx.
    + intros x Hx Hxf _ H5 H6 H7. cbn [fat difat difat_ids free w_fat].
      change (fat s1) with (fat s) in *.
      split; [reflexivity|]. split; [|repeat split; assumption].
      assert (x <> index) by (intro E; subst x; contradiction).
      destruct (index =? lenN (fat s)).
      * apply nthN_app_l. exact Hxf.
      * apply nthN_updN_other. congruence.
  - intro x. change (sector_bytes (w_fat s1 _) x) with (sector_bytes s1 x).
    destruct (N.eq_dec x fsid) as [->|Hne].
    + unfold sector_bytes at 1. unfold s1. cbn [img w_img]. rewrite nthN_updN_same by lia.
      rewrite Hb. symmetry. apply K7. exact Hf.
    + unfold sector_bytes, s1. cbn [img w_img]. rewrite nthN_updN_other by lia. reflexivity.
Qed.

Lemma K_difat_app : forall s v, K s -> ~ In v P -> K (w_difat s (difat s ++ [v])).
Proof.
  intros s v HK Hv. pose proof HK as (_ & _ & _ & K4 & _ & _ & K7 & _).
  apply (K_step s _ HK); [reflexivity|reflexivity|reflexivity| | | | | |].
  - exact K4.
  - cbn [fat w_difat]. lia.
  - cbn [nsect w_difat]. lia.
  - exists [v]. reflexivity.
  - intros x Hx. apply K7. exact Hx.
  - intros x Hx _ _ H5 H6 H7. cbn [fat difat difat_ids free w_difat].
    split; [reflexivity|]. split; [reflexivity|]. split; [|split; assumption].
    intro Hin. apply in_app_or in Hin. destruct Hin as [Hin|[<-|[]]]; contradiction.
Qed.

Lemma K_difat_ids_app : forall s v, K s -> ~ In v P -> K (w_difat_ids s (difat_ids s ++ [v])).
Proof.
  intros s v HK Hv. pose proof HK as (_ & _ & _ & K4 & _ & _ & K7 & _).
  apply (K_step s _ HK); [reflexivity|reflexivity|reflexivity| | | | | |].
  - exact K4.
  - cbn [fat w_difat_ids]. lia.
  - cbn [nsect w_difat_ids]. lia.
  - exists []. cbn [difat w_difat_ids]. rewrite app_nil_r. reflexivity.
  - intros x Hx. apply K7. exact Hx.
  - intros x Hx _ _ H5 H6 H7. cbn [fat difat difat_ids free w_difat_ids].
    split; [reflexivity|]. split; [reflexivity|]. split; [assumption|]. split; [|assumption].
    intro Hin. apply in_app_or in Hin. destruct Hin as [Hin|[<-|[]]]; contradiction.
Qed.

Lemma K_free_pop : forall s, K s -> K (w_free s (pop_last (free s))).
Proof.
  intros s HK. pose proof HK as (_ & _ & _ & K4 & _ & _ & K7 & _).
  apply (K_step s _ HK); [reflexivity|reflexivity|reflexivity| | | | | |].
  - exact K4.
  - cbn [fat w_free]. lia.
  - cbn [nsect w_free]. lia.
  - exists []. cbn [difat w_free]. rewrite app_nil_r. reflexivity.
  - intros x Hx. apply K7. exact Hx.
  - intros x Hx _ _ H5 H6 H7. cbn [fat difat difat_ids free w_free].
    split; [reflexivity|]. split; [reflexivity|]. split; [assumption|]. split; [assumption|].
    intro Hin. apply H7. eapply ReuseProofs.In_pop_last. exact Hin.
Qed.

End Frame.

Lemma K_ver : forall P s0 s, K P s0 s -> ver s = ver s0.
Proof. intros P s0 s (H & _). exact H. Qed.

Lemma K_not_difat_ids : forall P s0 s x, K P s0 s -> In x (difat_ids s) -> ~ In x P.
Proof.
  intros P s0 s x (_ & _ & _ & _ & _ & _ & _ & K8) Hin Hx.
  destruct (K8 x Hx) as (_ & _ & _ & _ & _ & A6 & _). contradiction.
Qed.

Lemma K_not_free : forall P s0 s x, K P s0 s -> In x (free s) -> ~ In x P.
Proof.
  intros P s0 s x (_ & _ & _ & _ & _ & _ & _ & K8) Hin Hx.
  destruct (K8 x Hx) as (_ & _ & _ & _ & _ & _ & A7). contradiction.
Qed.

Lemma K_new_notin : forall P s0 s, K P s0 s -> ~ In (lenN (fat s)) P.
Proof. intros P s0 s HK Hin. exact (K_notin_new P s0 s _ HK Hin eq_refl). Qed.

Lemma difat_idx_fits : forall s s' a, ver s = ver s' ->
  4 * (a - a / difat_per_sector s * difat_per_sector s) + 4 <= slen s'.
Proof.
  intros s s' a Hv. unfold difat_per_sector, slen. rewrite Hv.
  destruct (ver s'); unfold sector_len, sector_shift, V3_SECTOR_SHIFT, V4_SECTOR_SHIFT.
  - change ((2 ^ 9 - 4) / 4) with 127. change (2 ^ 9) with 512. lia.
  - change ((2 ^ 12 - 4) / 4) with 1023. change (2 ^ 12) with 4096. lia.
Qed.

Lemma K_append_fat_sector : forall P s0 s s' u,
  K P s0 s -> append_fat_sector s = (s', Ok u) -> K P s0 s'.
Proof.
  intros P s0 s s' u HK H. unfold append_fat_sector in H.
  binv H sa s1 H1 H2. apply get_inv in H1. destruct H1 as [-> ->]. cbv zeta in H2.
  binv H2 u1 s1 H1 H2.
  destruct (K_init_sector P s0 _ _ _ _ _ HK H1 (K_new_notin _ _ _ HK)) as (HK1 & _).
  binv H2 u2 s2 H2 H3. unfold modify in H2. injection H2 as <-.
  pose proof (K_difat_app P s0 s1 (lenN (fat s)) HK1 (K_new_notin _ _ _ HK)) as HK2.
  binv H3 u3 s3 H3 H4.
  destruct (K_set_fat P s0 _ _ _ _ _ HK2 H3 (K_new_notin _ _ _ HK)) as (HK3 & _).
  binv H4 u4 s4 H4 H5.
  assert (HK4 : K P s0 s4).
  { destruct (lenN (difat s) <? NUM_DIFAT_HDR).
    - eapply K_header_write; eassumption.
    - binv H4 sb s5 H4 H6. apply get_inv in H4. destruct H4 as [-> ->]. cbv zeta in H6.
      binv H6 u5 s5 H6 H7.
      assert (HK5 : K P s0 s5).
      { destruct (lenN (difat_ids s3) <=?
                  (lenN (difat s) - NUM_DIFAT_HDR) / difat_per_sector s3).
        - binv H6 u6 s6 H6 H8.
          destruct (K_init_sector P s0 _ _ _ _ _ HK3 H6 (K_new_notin _ _ _ HK3)) as (HK6 & _).
          binv H8 u7 s7 H8 H9.
          destruct (K_set_fat P s0 _ _ _ _ _ HK6 H8 (K_new_notin _ _ _ HK3)) as (HK7 & _).
          binv H9 sc s8 H9 H10. apply get_inv in H9. destruct H9 as [-> ->].
          binv H10 u8 s8 H10 H11.
          assert (HK8 : K P s0 s8).
          { destruct (lastN (difat_ids s7)) as [last_sid|] eqn:El.
            - eapply K_sector_write; [exact HK7|exact H10| |].
              + eapply K_not_difat_ids; [exact HK7|]. eapply CoherenceProofs.lastN_In. exact El.
              + rewrite CodecProofs.lenN_le_bytes4.
                destruct (ReuseProofs.slen_cases s7) as [E|E]; rewrite E; lia.
            - apply ret_inv in H10. destruct H10 as [-> _]. exact HK7. }
          binv H11 u9 s9 H11 H12. unfold modify in H11. injection H11 as <-.
          pose proof (K_difat_ids_app P s0 s8 (lenN (fat s3)) HK8 (K_new_notin _ _ _ HK3)) as HK9.
          binv H12 sd s10 H12 H13. apply get_inv in H12. destruct H12 as [-> ->].
          match type of H13 with
          | (match ?l with _ => _ end) _ = _ => destruct l as [|first rest]
          end.
          + exfalso; eapply panic_inv; eauto.
          + eapply K_header_write; eassumption.
        - apply ret_inv in H6. destruct H6 as [-> _]. exact HK3. }
      binv H7 se s6 H7 H8. apply get_inv in H7. destruct H7 as [-> ->].
      destruct (nthN (difat_ids s5) ((lenN (difat s) - NUM_DIFAT_HDR) / difat_per_sector s3))
        as [dsid|] eqn:Ed; [|exfalso; eapply panic_inv; eauto].
      eapply K_sector_write; [exact HK5|exact H8| |].
      + eapply K_not_difat_ids; [exact HK5|]. eapply nthN_In. exact Ed.
      + rewrite CodecProofs.lenN_le_bytes4. apply difat_idx_fits.
        rewrite (K_ver _ _ _ HK3), (K_ver _ _ _ HK5). reflexivity. }
  binv H5 sf s5 H5 H6. apply get_inv in H5. destruct H5 as [-> ->].
  eapply K_header_write; eassumption.
Qed.

(* allocate_sector under the frame invariant: the sector handed out is not in
   P, its FAT cell is END_OF_CHAIN and it holds the initial bytes *)
Lemma K_allocate_sector : forall P s0 s i s' sid,
  K P s0 s -> allocate_sector i s = (s', Ok sid) ->
  K P s0 s' /\ ~ In sid P /\ sid < nsect s' /\
  sector_bytes s' sid = init_bytes (ver s0) i /\
  nthN (fat s') sid = Some END_OF_CHAIN /\
  (In sid (free s) \/ lenN (fat s) <= sid).
Proof.
  intros P s0 s i s' sid HK H. unfold allocate_sector in H.
  binv H sa s1 H1 H2. apply get_inv in H1. destruct H1 as [-> ->].
  assert (Hcell : forall st st' idx u, K P s0 st -> set_fat idx END_OF_CHAIN st = (st', Ok u) ->
            ~ In idx P -> K P s0 st' /\ nthN (fat st') idx = Some END_OF_CHAIN).
  { intros st st' idx u0 Hst Hsf Hni.
    pose proof Hst as (_ & _ & _ & K4 & _).
    destruct (set_fat_ok_inv _ _ _ _ _ K4 Hsf) as (_ & _ & _ & Hle & _).
    destruct (K_set_fat P s0 _ _ _ _ _ Hst Hsf Hni) as (Hst' & Ef & _).
    split; [exact Hst'|]. rewrite Ef.
    destruct (idx =? lenN (fat st)) eqn:E.
    - apply N.eqb_eq in E. subst idx. apply nthN_app_last.
    - apply N.eqb_neq in E. apply nthN_updN_same. lia. }
  destruct (lastN (free s)) as [fs|] eqn:El.
  - binv H2 u1 s1 H1 H2. unfold modify in H1. injection H1 as <-.
    pose proof (K_free_pop P s0 s HK) as HK1.
    assert (HfsP : ~ In fs P).
    { eapply K_not_free; [exact HK|]. eapply CoherenceProofs.lastN_In. exact El. }
    binv H2 u2 s2 H2 H3.
    destruct (Hcell _ _ _ _ HK1 H2 HfsP) as (HK2 & Hc2).
    binv H3 u3 s3 H3 H4. apply ret_inv in H4. destruct H4 as [-> ->].
    destruct (K_init_sector P s0 _ _ _ _ _ HK2 H3 HfsP) as (HK3 & Hs3 & Hb3 & Ef3 & _).
    split; [exact HK3|]. split; [exact HfsP|]. split; [exact Hs3|].
    split; [rewrite Hb3, (K_ver _ _ _ HK2); reflexivity|].
    split; [rewrite Ef3; exact Hc2|]. left. eapply CoherenceProofs.lastN_In. exact El.
  - binv H2 u1 s1 H1 H2.
    assert (HK1 : K P s0 s1 /\ lenN (fat s) <= lenN (fat s1)).
    { destruct (lenN (fat s) mod fat_per_sector s =? 0).
      - pose proof (K_append_fat_sector P s s s1 u1) as Hmono.
        split; [eapply K_append_fat_sector; eassumption|].
        (* the FAT only grows: run the same lemma with P := [] relative to s *)
        assert (K [] s s) as Hrefl.
        { pose proof HK as (_ & _ & _ & K4 & _ & _ & K7 & _).
          split; [reflexivity|]. split; [reflexivity|]. split; [reflexivity|].
          split; [exact K4|]. split; [lia|]. split; [exists []; rewrite app_nil_r; reflexivity|].
          split; [exact K7|]. intros x []. }
        destruct (K_append_fat_sector [] s s s1 u1 Hrefl H1) as (_ & _ & _ & _ & Hle & _).
        exact Hle.
      - apply ret_inv in H1. destruct H1 as [-> _]. split; [exact HK|lia]. }
    destruct HK1 as [HK1 Hmono].
    binv H2 sb s2 H2 H3. apply get_inv in H2. destruct H2 as [-> ->]. cbv zeta in H3.
    binv H3 u2 s2 H3 H4.
    destruct (Hcell _ _ _ _ HK1 H3 (K_new_notin _ _ _ HK1)) as (HK2 & Hc2).
    binv H4 u3 s3 H4 H5. apply ret_inv in H5. destruct H5 as [-> ->].
    destruct (K_init_sector P s0 _ _ _ _ _ HK2 H4 (K_new_notin _ _ _ HK1)) as (HK3 & Hs3 & Hb3 & Ef3 & _).
    split; [exact HK3|]. split; [exact (K_new_notin _ _ _ HK1)|]. split; [exact Hs3|].
    split; [rewrite Hb3, (K_ver _ _ _ HK2); reflexivity|].
    split; [rewrite Ef3; exact Hc2|]. right. exact Hmono.
Qed.

(* ---- the chain walk after linking a fresh sector behind the last one ---- *)

Lemma path_nil_inv : forall fat l, WalkProofs.path fat END_OF_CHAIN l -> l = [].
Proof. intros fat l H. inversion H; [reflexivity|congruence]. Qed.

Lemma find_last_go_path : forall fat f steps cur l last,
  WalkProofs.path fat cur l -> cur <> END_OF_CHAIN ->
  find_last_go f fat steps cur = Ok last -> lastN l = Some last.
Proof.
  intros fat. induction f as [|f IH]; intros steps cur l last Hp Hc H; [discriminate H|].
  cbn [find_last_go] in H.
  inversion Hp as [|c nx l' Hc' Hn Hp' E1 E2]; subst; [congruence|].
  rewrite Hn in H. cbn [rbind] in H.
  destruct (nx =? END_OF_CHAIN) eqn:E.
  - apply N.eqb_eq in E. subst nx. injection H as <-.
    apply path_nil_inv in Hp'. subst l'. reflexivity.
  - apply N.eqb_neq in E. destruct (lenN fat <? steps + 1); [discriminate H|].
    apply (IH _ _ _ _ Hp' E) in H.
    inversion Hp'; subst; [congruence|]. rewrite lastN_cons_cons. exact H.
Qed.

Lemma path_extend : forall fat fat' new,
  lenN fat <= lenN fat' -> nthN fat' new = Some END_OF_CHAIN -> new <= MAX_REGULAR_SECTOR ->
  forall cur l last, WalkProofs.path fat cur l -> lastN l = Some last -> NoDup l ->
  (forall x, In x l -> x <> last -> nthN fat' x = nthN fat x) ->
  nthN fat' last = Some new ->
  WalkProofs.path fat' cur (l ++ [new]).
Proof.
  intros fat fat' new Hlen Hnew Hmax.
  assert (Hnl : new < lenN fat') by (eapply nthN_Some_lt; exact Hnew).
  assert (Hne : new <> END_OF_CHAIN) by (pose proof WalkProofs.MAXREG_lt_EOC; lia).
  intros cur l last Hp. induction Hp as [|cur nx l Hc Hn Hp IH]; intros Hlast Hnd Hsame Hl.
  - discriminate Hlast.
  - cbn [app]. destruct l as [|y l'].
    + injection Hlast as <-.
      econstructor; [exact Hc| |].
      * apply WalkProofs.next_of_Ok. split; [exact Hl|]. right. split; [exact Hmax|exact Hnl].
      * cbn [app]. econstructor; [exact Hne| |constructor].
        apply WalkProofs.next_of_Ok. split; [exact Hnew|]. left. reflexivity.
    + rewrite lastN_cons_cons in Hlast.
      inversion Hnd as [|? ? Hnin Hnd']; subst.
      assert (Hcl : cur <> last).
      { intro E. subst last. apply Hnin. eapply CoherenceProofs.lastN_In. exact Hlast. }
      econstructor; [exact Hc| |apply IH].
      * apply WalkProofs.next_of_Ok in Hn. destruct Hn as [Hn1 Hn2].
        apply WalkProofs.next_of_Ok. split.
        -- rewrite Hsame; [exact Hn1|left; reflexivity|exact Hcl].
        -- destruct Hn2 as [->|[A B]]; [left; reflexivity|right; split; [exact A|lia]].
      * exact Hlast.
      * exact Hnd'.
      * intros x Hx. apply Hsame. right. exact Hx.
      * exact Hl.
Qed.

(* D5b, allocator side.  Hypotheses on the state before the call: the image
   has one full-length element per sector; the directory sectors are neither
   FAT, DIFAT nor free sectors; free sectors are not FAT sectors; FAT sectors
   have FAT cells; every FAT cell lies in a listed FAT sector (all of this is
   part of CoherenceProofs.FatInv / AllocCoh / free_not_fat).  The sector
   handed out must be a regular sector id (it is at most lenN (fat s) + 2). *)
Theorem extend_chain_dir_extended : forall s dids s1 new,
  dir_ids s dids -> good_chain s dids ->
  (forall x, x < nsect s -> lenN (sector_bytes s x) = slen s) ->
  (forall x, In x dids -> ~ In x (difat s) /\ ~ In x (difat_ids s) /\ ~ In x (free s)) ->
  (forall x, In x (free s) -> ~ In x (difat s)) ->
  (forall f, In f (difat s) -> f < lenN (fat s)) ->
  (forall j, j < lenN (fat s) -> j / fat_per_sector s < lenN (difat s)) ->
  extend_chain (dir_start s) IDir s = (s1, Ok new) ->
  new <= MAX_REGULAR_SECTOR ->
  chain_extended s s1 dids new.
Proof.
  intros s dids s1 new Hids Hgood Hfull Hdisj Hfnf Hdlt Hback H Hmax.
  pose proof Hgood as (Hnd & HF & Himg & Hpos).
  pose proof (WalkProofs.chain_ids_path _ _ _ Hids) as Hpath.
  pose proof (WalkProofs.path_lt _ _ _ Hpath) as Hplt.
  rewrite Forall_forall in Hplt, HF.
  assert (HK0 : K dids s s).
  { split; [reflexivity|]. split; [reflexivity|]. split; [reflexivity|].
    split; [exact Himg|]. split; [lia|]. split; [exists []; rewrite app_nil_r; reflexivity|].
    split; [exact Hfull|]. intros x Hx. destruct (Hdisj x Hx) as (D1 & D2 & D3).
    destruct (HF x Hx) as [Hxn _].
    split; [apply Hplt; exact Hx|]. split; [exact Hxn|]. repeat split; assumption. }
  unfold extend_chain in H.
  destruct (dir_start s =? END_OF_CHAIN) eqn:Es; [exfalso; eapply panic_inv; eauto|].
  apply N.eqb_neq in Es.
  binv H sa s2 H1 H2. apply get_inv in H1. destruct H1 as [-> ->].
  binv H2 lst s2 H1 H2. apply lift_inv in H1. destruct H1 as [-> Hfl].
  pose proof (find_last_go_path _ _ _ _ _ _ Hpath Es Hfl) as Hlast.
  pose proof (CoherenceProofs.lastN_In _ _ _ Hlast) as HlastIn.
  binv H2 new' s2 H2 H3.
  destruct (K_allocate_sector dids s s IDir s2 new' HK0 H2) as (HK2 & HnP & Hns & Hb & Hc & Hwhere).
  binv H3 u s3 H3 H4. apply ret_inv in H4. destruct H4 as [-> E]. subst new'.
  pose proof HK2 as (Kv & Kd & Kst & K4 & K5 & (t & K6) & K7 & K8).
  destruct (set_fat_ok_inv _ _ _ _ _ K4 H3) as (fsid & Hd & Hf & Hle & ->).
  assert (Hfps : fat_per_sector s2 = fat_per_sector s)
    by (unfold fat_per_sector, slen; rewrite Kv; reflexivity).
  assert (Hsl2 : slen s2 = slen s) by (unfold slen; rewrite Kv; reflexivity).
  pose proof (Hplt lst HlastIn) as Hlastlt.
  assert (HfsD : In fsid (difat s)).
  { rewrite Hfps, K6 in Hd. rewrite nthN_app_l in Hd by (apply Hback; exact Hlastlt).
    eapply nthN_In. exact Hd. }
  assert (Hfs_new : fsid <> new).
  { intro E. subst fsid. destruct Hwhere as [Hw|Hw].
    - exact (Hfnf _ Hw HfsD).
    - pose proof (Hdlt _ HfsD). lia. }
  assert (Hfs_dids : forall x, In x dids -> x <> fsid).
  { intros x Hx E. subst x. destruct (Hdisj _ Hx) as (D1 & _). contradiction. }
  destruct (lst =? lenN (fat s2)) eqn:El; [lia|].
  set (b := spliceN (sector_bytes s2 fsid) (4 * (lst mod fat_per_sector s2)) (le_bytes 4 new)).
  set (s1 := w_fat (w_img s2 (updN (img s2) (fsid + 1) b)) (updN (fat s2) lst new)).
  assert (Hsb : forall x, x <> fsid -> sector_bytes s1 x = sector_bytes s2 x).
  { intros x Hx. unfold sector_bytes, s1. cbn [img w_img w_fat].
    rewrite nthN_updN_other by lia. reflexivity. }
  assert (Hnl : lst <> new) by (intro E; subst new; contradiction).
  assert (Hnd' : NoDup (dids ++ [new])) by (apply CoherenceProofs.NoDup_app_snoc; assumption).
  split; [exact Kv|]. split; [exact Kd|]. split; [exact Kst|].
  split; [|split; [|split]].
  - cbn [s1 fat dir_start w_fat w_img]. rewrite Kst.
    apply WalkProofs.chain_ids_of_path; [|exact Hnd'].
    apply (path_extend (fat s) (updN (fat s2) lst new) new) with (last := lst).
    + rewrite lenN_updN. exact K5.
    + rewrite nthN_updN_other by exact Hnl. exact Hc.
    + exact Hmax.
    + exact Hpath.
    + exact Hlast.
    + exact Hnd.
    + intros x Hx Hxl. rewrite nthN_updN_other by congruence.
      destruct (K8 x Hx) as (_ & _ & _ & A4 & _). exact A4.
    + apply nthN_updN_same. lia.
  - split; [exact Hnd'|]. split; [|split; [|apply slen_pos]].
    + rewrite Forall_forall. intros x Hx.
      change (nsect s1) with (nsect s2). change (slen s1) with (slen s2).
      apply in_app_or in Hx. destruct Hx as [Hx|[<-|[]]].
      * destruct (K8 x Hx) as (_ & A2 & _). split; [exact A2|].
        rewrite Hsb by (apply Hfs_dids; exact Hx). apply K7. exact A2.
      * split; [exact Hns|]. rewrite Hsb by congruence. apply K7. exact Hns.
    + cbn [s1 img nsect w_fat w_img]. rewrite lenN_updN. exact K4.
  - intros x Hx. rewrite Hsb by (apply Hfs_dids; exact Hx).
    destruct (K8 x Hx) as (_ & _ & A3 & _). exact A3.
  - rewrite Hsb by congruence. exact Hb.
Qed.

(* D5b: insertion keeps the directory coherent also when it has to extend the
   directory chain, under the allocator invariants of
   [extend_chain_dir_extended] *)
Theorem insert_dir_entry_coherent_full : forall s s' parent nm ty now id,
  DirCoherent s ->
  (forall x, x < nsect s -> lenN (sector_bytes s x) = slen s) ->
  (forall dids x, dir_ids s dids -> In x dids ->
     ~ In x (difat s) /\ ~ In x (difat_ids s) /\ ~ In x (free s)) ->
  (forall x, In x (free s) -> ~ In x (difat s)) ->
  (forall f, In f (difat s) -> f < lenN (fat s)) ->
  (forall j, j < lenN (fat s) -> j / fat_per_sector s < lenN (difat s)) ->
  (forall s1 new, extend_chain (dir_start s) IDir s = (s1, Ok new) -> new <= MAX_REGULAR_SECTOR) ->
  insert_dir_entry parent nm ty now s = (s', Ok id) -> DirCoherent s'.
Proof.
  intros s s' parent nm ty now id HC Hfull Hdisj Hfnf Hdlt Hback Hmax H.
  apply (insert_dir_entry_coherent_ext s s' parent nm ty now id HC); [|exact H].
  intros dids s1 new Hids He.
  destruct HC as (dids' & Hids' & Hgood & _).
  unfold dir_ids in Hids, Hids'. rewrite Hids in Hids'. injection Hids' as <-.
  apply (extend_chain_dir_extended s dids s1 new); try assumption.
  - intros x Hx. apply (Hdisj dids); assumption.
  - eapply Hmax. exact He.
Qed.

(* ---- how far the FAT can grow in one allocation: at most 3 cells (a new
        FAT sector, a new DIFAT sector, the sector itself) ---- *)

Lemma sector_write_fat : forall sid off bs s s' r,
  sector_write sid off bs s = (s', r) -> fat s' = fat s.
Proof.
  intros sid off bs s s' r H.
  unfold sector_write, seek_sector, bind, get, panic, fail, ret, modify in H.
  destruct (slen s <? off); [injection H as <- _; reflexivity|].
  destruct (nsect s <=? sid); injection H as <- _; reflexivity.
Qed.

Lemma header_write_fat : forall off bs s s' r,
  header_write off bs s = (s', r) -> fat s' = fat s.
Proof.
  intros off bs s s' r H. unfold header_write, panic, modify in H.
  destruct (HEADER_LEN <=? off); injection H as <- _; reflexivity.
Qed.

Lemma set_fat_len : forall P s0 s index v s' u,
  K P s0 s -> set_fat index v s = (s', Ok u) -> ~ In index P ->
  lenN (fat s') <= lenN (fat s) + 1 /\ index <= lenN (fat s).
Proof.
  intros P s0 s index v s' u HK H Hni.
  pose proof HK as (_ & _ & _ & K4 & _).
  destruct (set_fat_ok_inv _ _ _ _ _ K4 H) as (_ & _ & _ & Hle & _).
  destruct (K_set_fat P s0 _ _ _ _ _ HK H Hni) as (_ & Ef & _). rewrite Ef.
  destruct (index =? lenN (fat s)); [rewrite lenN_app; cbn [lenN]; lia|rewrite lenN_updN; lia].
Qed.

Lemma append_fat_sector_fat_len : forall s0 s s' u,
  K [] s0 s -> append_fat_sector s = (s', Ok u) -> lenN (fat s') <= lenN (fat s) + 2.
Proof.
  intros s0 s s' u HK H. unfold append_fat_sector in H.
  assert (Hnil : forall x : N, ~ In x []) by (intros x []).
  binv H sa s1 H1 H2. apply get_inv in H1. destruct H1 as [-> ->]. cbv zeta in H2.
  binv H2 u1 s1 H1 H2.
  destruct (K_init_sector [] s0 _ _ _ _ _ HK H1 (Hnil _)) as (HK1 & _ & _ & Ef1 & _).
  binv H2 u2 s2 H2 H3. unfold modify in H2. injection H2 as <-.
  pose proof (K_difat_app [] s0 s1 (lenN (fat s)) HK1 (Hnil _)) as HK2.
  binv H3 u3 s3 H3 H4.
  destruct (K_set_fat [] s0 _ _ _ _ _ HK2 H3 (Hnil _)) as (HK3 & _).
  destruct (set_fat_len [] s0 _ _ _ _ _ HK2 H3 (Hnil _)) as (L3 & _).
  change (fat (w_difat s1 (difat s1 ++ [lenN (fat s)]))) with (fat s1) in L3. rewrite Ef1 in L3.
  binv H4 u4 s4 H4 H5.
  assert (L4 : lenN (fat s4) <= lenN (fat s3) + 1).
  { destruct (lenN (difat s) <? NUM_DIFAT_HDR).
    - rewrite (header_write_fat _ _ _ _ _ H4). lia.
    - binv H4 sb s5 H4 H6. apply get_inv in H4. destruct H4 as [-> ->]. cbv zeta in H6.
      binv H6 u5 s5 H6 H7.
      assert (L5 : lenN (fat s5) <= lenN (fat s3) + 1).
      { destruct (lenN (difat_ids s3) <=?
                  (lenN (difat s) - NUM_DIFAT_HDR) / difat_per_sector s3).
        - binv H6 u6 s6 H6 H8.
          destruct (K_init_sector [] s0 _ _ _ _ _ HK3 H6 (Hnil _)) as (HK6 & _ & _ & Ef6 & _).
          binv H8 u7 s7 H8 H9.
          destruct (set_fat_len [] s0 _ _ _ _ _ HK6 H8 (Hnil _)) as (L7 & _). rewrite Ef6 in L7.
          binv H9 sc s8 H9 H10. apply get_inv in H9. destruct H9 as [-> ->].
          binv H10 u8 s8 H10 H11.
          assert (E8 : fat s8 = fat s7).
          { destruct (lastN (difat_ids s7)).
            - eapply sector_write_fat. exact H10.
            - apply ret_inv in H10. destruct H10 as [-> _]. reflexivity. }
          binv H11 u9 s9 H11 H12. unfold modify in H11. injection H11 as <-.
          binv H12 sd s10 H12 H13. apply get_inv in H12. destruct H12 as [-> ->].
          match type of H13 with
          | (match ?l with _ => _ end) _ = _ => destruct l as [|first rest]
          end.
          + exfalso; eapply panic_inv; eauto.
          + rewrite (header_write_fat _ _ _ _ _ H13). cbn [fat w_difat_ids]. rewrite E8. exact L7.
        - apply ret_inv in H6. destruct H6 as [-> _]. lia. }
      binv H7 se s6 H7 H8. apply get_inv in H7. destruct H7 as [-> ->].
      destruct (nthN (difat_ids s5) ((lenN (difat s) - NUM_DIFAT_HDR) / difat_per_sector s3))
        as [dsid|]; [|exfalso; eapply panic_inv; eauto].
      rewrite (sector_write_fat _ _ _ _ _ _ H8). exact L5. }
  binv H5 sf s5 H5 H6. apply get_inv in H5. destruct H5 as [-> ->].
  rewrite (header_write_fat _ _ _ _ _ H6). lia.
Qed.

Lemma K_refl : forall s, lenN (img s) = nsect s + 1 ->
  (forall x, x < nsect s -> lenN (sector_bytes s x) = slen s) -> K [] s s.
Proof.
  intros s Hi Hf. split; [reflexivity|]. split; [reflexivity|]. split; [reflexivity|].
  split; [exact Hi|]. split; [lia|]. split; [exists []; rewrite app_nil_r; reflexivity|].
  split; [exact Hf|]. intros x [].
Qed.

Lemma allocate_sector_bound : forall s i s' sid,
  lenN (img s) = nsect s + 1 ->
  (forall x, x < nsect s -> lenN (sector_bytes s x) = slen s) ->
  allocate_sector i s = (s', Ok sid) -> sid <= lenN (fat s) + 2.
Proof.
  intros s i s' sid Hi Hf H. pose proof (K_refl s Hi Hf) as HK.
  assert (Hnil : forall x : N, ~ In x []) by (intros x []).
  unfold allocate_sector in H.
  binv H sa s1 H1 H2. apply get_inv in H1. destruct H1 as [-> ->].
  destruct (lastN (free s)) as [fs|].
  - binv H2 u1 s1 H1 H2. unfold modify in H1. injection H1 as <-.
    pose proof (K_free_pop [] s s HK) as HK1.
    binv H2 u2 s2 H2 H3.
    destruct (set_fat_len [] s _ _ _ _ _ HK1 H2 (Hnil _)) as (_ & Hle).
    binv H3 u3 s3 H3 H4. apply ret_inv in H4. destruct H4 as [-> ->].
    cbn [fat w_free] in Hle. lia.
  - binv H2 u1 s1 H1 H2.
    assert (L1 : lenN (fat s1) <= lenN (fat s) + 2).
    { destruct (lenN (fat s) mod fat_per_sector s =? 0).
      - eapply append_fat_sector_fat_len; eassumption.
      - apply ret_inv in H1. destruct H1 as [-> _]. lia. }
    binv H2 sb s2 H2 H3. apply get_inv in H2. destruct H2 as [-> ->]. cbv zeta in H3.
    binv H3 u2 s2 H3 H4. binv H4 u3 s3 H4 H5. apply ret_inv in H5. destruct H5 as [-> ->].
    exact L1.
Qed.

Lemma extend_chain_new_bound : forall s start i s1 new,
  lenN (img s) = nsect s + 1 ->
  (forall x, x < nsect s -> lenN (sector_bytes s x) = slen s) ->
  extend_chain start i s = (s1, Ok new) -> new <= lenN (fat s) + 2.
Proof.
  intros s start i s1 new Hi Hf H. unfold extend_chain in H.
  destruct (start =? END_OF_CHAIN); [exfalso; eapply panic_inv; eauto|].
  binv H sa s2 H1 H2. apply get_inv in H1. destruct H1 as [-> ->].
  binv H2 lst s2 H1 H2. apply lift_inv in H1. destruct H1 as [-> _].
  binv H2 new' s2 H2 H3. binv H3 u s3 H3 H4. apply ret_inv in H4. destruct H4 as [-> ->].
  eapply allocate_sector_bound; eassumption.
Qed.

(* D5b with the size bound as a plain state condition *)
Theorem insert_dir_entry_coherent_all : forall s s' parent nm ty now id,
  DirCoherent s ->
  (forall x, x < nsect s -> lenN (sector_bytes s x) = slen s) ->
  (forall dids x, dir_ids s dids -> In x dids ->
     ~ In x (difat s) /\ ~ In x (difat_ids s) /\ ~ In x (free s)) ->
  (forall x, In x (free s) -> ~ In x (difat s)) ->
  (forall f, In f (difat s) -> f < lenN (fat s)) ->
  (forall j, j < lenN (fat s) -> j / fat_per_sector s < lenN (difat s)) ->
  lenN (fat s) + 2 <= MAX_REGULAR_SECTOR ->
  insert_dir_entry parent nm ty now s = (s', Ok id) -> DirCoherent s'.
Proof.
  intros s s' parent nm ty now id HC Hfull Hdisj Hfnf Hdlt Hback Hsize H.
  apply (insert_dir_entry_coherent_full s s' parent nm ty now id HC); try assumption.
  intros s1 new He.
  destruct HC as (dids & _ & (_ & _ & Himg & _) & _).
  pose proof (extend_chain_new_bound s _ _ _ _ Himg Hfull He). lia.
Qed.

(* the same from the allocator invariant of CoherenceProofs *)
Corollary insert_dir_entry_coherent_fatinv : forall s s' parent nm ty now id,
  DirCoherent s ->
  CoherenceProofs.FatInv s -> CoherenceProofs.free_not_fat s ->
  (forall dids x, dir_ids s dids -> In x dids ->
     ~ In x (difat s) /\ ~ In x (difat_ids s) /\ ~ In x (free s)) ->
  lenN (fat s) + 2 <= MAX_REGULAR_SECTOR ->
  insert_dir_entry parent nm ty now s = (s', Ok id) -> DirCoherent s'.
Proof.
  intros s s' parent nm ty now id HC [[Hi Hfull Hcoh Hnd Hlt] Hlen Hpos Htight] Hfnf Hdisj Hsize H.
  apply (insert_dir_entry_coherent_all s s' parent nm ty now id HC); try assumption.
  - intros f Hf. rewrite Hlen. apply Hlt. exact Hf.
  - intros j Hj. destruct (CoherenceProofs.coherent_backed s Hcoh j Hj) as (f & Hf & _).
    eapply nthN_Some_lt. exact Hf.
Qed.

(* ================================================================== *)
(* MiniFAT: dropping trailing cached cells (free_mini_sector)          *)
(* ================================================================== *)

(* free_mini_sector shortens the cached MiniFAT by its trailing FREE_SECTOR
   cells without writing anything: the cells stay FREE_SECTOR on disk.  The
   remaining cached cells still equal the disk. *)
Theorem minifat_truncate_coherent : forall s mf' r fr,
  MiniFatCoherent s -> minifat s = mf' ++ r ->
  MiniFatCoherent (w_mfree (w_minifat s mf') fr).
Proof.
  intros s mf' r fr (mids & H1 & H2 & H3 & H4) E.
  exists mids. split; [exact H1|]. split; [exact H2|].
  cbn [minifat w_minifat w_mfree].
  change (slen (w_mfree (w_minifat s mf') fr)) with (slen s).
  rewrite E, lenN_app in H3. split; [lia|].
  intros i v Hi.
  change (chain_content (w_mfree (w_minifat s mf') fr) mids) with (chain_content s mids).
  apply H4. rewrite E. rewrite nthN_app_l; [exact Hi|]. eapply nthN_Some_lt. exact Hi.
Qed.

Lemma strip_free_prefix : forall l n l' k,
  strip_free l n = (l', k) -> exists r, l = l' ++ r /\ Forall (fun x => x = FREE_SECTOR) r.
Proof.
  induction l as [|x t IH]; intros n l' k H; cbn [strip_free] in H.
  - injection H as <- _. exists []. split; [reflexivity|constructor].
  - destruct (strip_free t n) as [t' k'] eqn:E. destruct (IH _ _ _ E) as (r & -> & Hr).
    destruct t' as [|y t''].
    + destruct (x =? FREE_SECTOR) eqn:Ex.
      * injection H as <- _. apply N.eqb_eq in Ex. exists (x :: r). split; [reflexivity|].
        constructor; assumption.
      * injection H as <- _. exists r. split; [reflexivity|exact Hr].
    + injection H as <- _. exists r. split; [reflexivity|exact Hr].
Qed.

(* ================================================================== *)
(* D7 continued: open's dir_loop on a coherent image                    *)
(* ================================================================== *)

Lemma path_regular : forall fat cur l, WalkProofs.path fat cur l ->
  cur <= MAX_REGULAR_SECTOR \/ cur = END_OF_CHAIN ->
  Forall (fun x => x <= MAX_REGULAR_SECTOR) l.
Proof.
  induction 1 as [|cur nx l Hc Hn Hp IH]; intros Hcur; [constructor|].
  constructor; [destruct Hcur; [assumption|contradiction]|].
  apply IH. apply WalkProofs.next_of_Ok in Hn. destruct Hn as [_ [->|[A _]]]; [right; reflexivity|left; exact A].
Qed.

Lemma dir_loop_spec : forall strict v num_dir s ns fat cur l,
  WalkProofs.path fat cur l ->
  forall fuel count seen acc all,
  (forall x, In x l -> x <= MAX_REGULAR_SECTOR /\ x < ns /\
                       lenN (sector_bytes s x) = sector_len v) ->
  NoDup l -> (forall x, In x l -> ~ In x seen) ->
  (strict && version_eqb v V4 = true -> count + lenN l <= num_dir + 1) ->
  (length l < fuel)%nat ->
  read_dir_sectors v strict s l = Ok all ->
  dir_loop fuel strict v num_dir (img s) ns fat cur count seen acc = Ok (acc ++ all).
Proof.
  intros strict v num_dir s ns fat cur l Hp.
  induction Hp as [|cur nx l Hc Hn Hp IH]; intros fuel count seen acc all Hall Hnd Hseen Hnum Hfuel Hrd.
  - destruct fuel; [cbn in Hfuel; lia|]. cbn [dir_loop]. rewrite N.eqb_refl.
    cbn [read_dir_sectors] in Hrd. injection Hrd as <-. rewrite app_nil_r. reflexivity.
  - destruct fuel; [cbn in Hfuel; lia|]. cbn [dir_loop].
    destruct (N.eqb_spec cur END_OF_CHAIN) as [E|_]; [contradiction|].
    destruct (Hall cur (or_introl eq_refl)) as (Hmax & Hns & Hlen).
    assert (Hc1 : strict && version_eqb v V4 && (num_dir <? count) = false).
    { destruct (strict && version_eqb v V4) eqn:E; [|reflexivity]. cbn [andb].
      specialize (Hnum eq_refl). cbn [lenN] in Hnum. lia. }
    rewrite Hc1.
    destruct (MAX_REGULAR_SECTOR <? cur) eqn:E2; [lia|].
    destruct (ns <=? cur) eqn:E3; [lia|].
    assert (Hm : memN cur seen = false).
    { apply WalkProofs.memN_false. apply Hseen. left. reflexivity. }
    rewrite Hm.
    assert (Hr : img_read (img s) (cur + 1) 0 (sector_len v) = sector_bytes s cur).
    { unfold img_read, sector_bytes in *. destruct (nthN (img s) (cur + 1)) as [sec|].
      - rewrite dropN_0. apply takeN_all. blia.
      - reflexivity. }
    rewrite Hr.
    cbn [read_dir_sectors] in Hrd.
    destruct (read_dirents v strict (N.to_nat (dir_per_sector v)) (sector_bytes s cur))
      as [es| | |]; cbn [rbind] in Hrd; try discriminate Hrd.
    destruct (read_dir_sectors v strict s l) as [r| | |] eqn:Er; cbn [rbind] in Hrd;
      try discriminate Hrd.
    injection Hrd as <-. cbn [rbind]. rewrite Hn. cbn [rbind].
    inversion Hnd as [|? ? Hnin Hnd']; subst.
    rewrite (IH fuel (count + 1) (cur :: seen) (acc ++ es) r).
    + rewrite app_assoc. reflexivity.
    + intros x Hx. apply Hall. right. exact Hx.
    + exact Hnd'.
    + intros x Hx [E|Hin]; [subst x; contradiction|]. exact (Hseen x (or_intror Hx) Hin).
    + intro Hs. specialize (Hnum Hs). cbn [lenN] in Hnum. lia.
    + cbn [length] in Hfuel. lia.
    + reflexivity.
Qed.

(* what open reads from a coherent image: the cached table followed by the
   blank entries that fill the last directory sector *)
Theorem dir_loop_reads_back : forall s strict num_dir,
  DirCoherent s ->
  (forall e, In e (dirs s) -> CodecProofs.dirent_wf (ver s) e) ->
  dir_start s <= MAX_REGULAR_SECTOR ->
  (forall dids, dir_ids s dids -> strict && version_eqb (ver s) V4 = true ->
                lenN dids <= num_dir) ->
  exists dids, dir_ids s dids /\
    dir_loop (S (S (N.to_nat (nsect s)))) strict (ver s) num_dir (img s) (nsect s) (fat s)
             (dir_start s) 1 [] []
    = Ok (dirs s ++ repeatN dirent_unallocated
                      (dir_per_sector (ver s) * lenN dids - lenN (dirs s))).
Proof.
  intros s strict num_dir HC Hwf Hstart Hnum.
  destruct (dir_reads_back s strict HC Hwf) as (dids & Hids & Hrd).
  exists dids. split; [exact Hids|].
  destruct HC as (dids' & Hids' & Hgood & _).
  unfold dir_ids in Hids, Hids'. rewrite Hids in Hids'. injection Hids' as <-.
  pose proof Hgood as (Hnd & HF & _ & _).
  pose proof (WalkProofs.chain_ids_path _ _ _ Hids) as Hpath.
  pose proof (path_regular _ _ _ Hpath (or_introl Hstart)) as Hreg.
  rewrite Forall_forall in HF, Hreg.
  change (dirs s ++ repeatN dirent_unallocated (dir_per_sector (ver s) * lenN dids - lenN (dirs s)))
    with ([] ++ (dirs s ++ repeatN dirent_unallocated
                           (dir_per_sector (ver s) * lenN dids - lenN (dirs s)))).
  apply (dir_loop_spec strict (ver s) num_dir s (nsect s) (fat s) (dir_start s) dids Hpath).
  - intros x Hx. destruct (HF x Hx) as [A B]. split; [apply Hreg; exact Hx|]. split; assumption.
  - exact Hnd.
  - intros x _ [].
  - intro Hs. specialize (Hnum dids Hids Hs). lia.
  - assert (Hb : Forall (fun x => x < nsect s) dids).
    { rewrite Forall_forall. intros x Hx. destruct (HF x Hx) as [A _]. exact A. }
    pose proof (WalkProofs.bounded_nodup_length dids (nsect s) Hnd Hb). lia.
  - exact Hrd.
Qed.

(* ================================================================== *)
(* a decision procedure for DirCoherent, and examples (non-vacuity)    *)
(* ================================================================== *)

Fixpoint nodup_b (l : list N) : bool :=
  match l with [] => true | x :: t => negb (memN x t) && nodup_b t end.

Lemma nodup_b_sound : forall l, nodup_b l = true -> NoDup l.
Proof.
  induction l as [|x t IH]; intro H; [constructor|]. cbn [nodup_b] in H.
  apply andb_true_iff in H. destruct H as [H1 H2]. constructor; [|apply IH; exact H2].
  apply WalkProofs.memN_false. destruct (memN x t); [discriminate H1|reflexivity].
Qed.

Lemma list_eqb_N_eq : forall a b, list_eqb N.eqb a b = true -> a = b.
Proof.
  induction a as [|x a IH]; intros [|y b] H; try discriminate H; [reflexivity|].
  cbn [list_eqb] in H. apply andb_true_iff in H. destruct H as [H1 H2].
  apply N.eqb_eq in H1. subst y. f_equal. apply IH. exact H2.
Qed.

Definition good_chain_b (s : cstate) (ids : list N) : bool :=
  nodup_b ids &&
  forallb (fun sid => (sid <? nsect s) && (lenN (sector_bytes s sid) =? slen s)) ids &&
  (lenN (img s) =? nsect s + 1).

Lemma good_chain_b_sound : forall s ids, good_chain_b s ids = true -> good_chain s ids.
Proof.
  intros s ids H. unfold good_chain_b in H.
  apply andb_true_iff in H. destruct H as [H H3].
  apply andb_true_iff in H. destruct H as [H1 H2].
  split; [apply nodup_b_sound; exact H1|]. split; [|split; [apply N.eqb_eq; exact H3|apply slen_pos]].
  rewrite Forall_forall. intros x Hx. rewrite forallb_forall in H2. specialize (H2 x Hx).
  apply andb_true_iff in H2. destruct H2 as [A B]. split; [apply N.ltb_lt; exact A|].
  unfold byte in *. apply N.eqb_eq. exact B.
Qed.

Definition dir_coherent_b (s : cstate) : bool :=
  match chain_ids_of (fat s) (dir_start s) with
  | Ok dids =>
    good_chain_b s dids && (DIR_ENTRY_LEN * lenN (dirs s) <=? slen s * lenN dids) &&
    forallb (fun id =>
      match nthN (dirs s) id with
      | Some e => (31 <? lenN (utf16 (d_name e))) ||
                  list_eqb N.eqb (slot_bytes s dids id) (dirent_encode e)
      | None => list_eqb N.eqb (slot_bytes s dids id) (dirent_encode dirent_unallocated)
      end) (ReuseProofs.rangeN (slen s * lenN dids / DIR_ENTRY_LEN))
  | _ => false
  end.

Lemma dir_coherent_b_sound : forall s, dir_coherent_b s = true -> DirCoherent s.
Proof.
  intros s H. unfold dir_coherent_b in H.
  destruct (chain_ids_of (fat s) (dir_start s)) as [dids| | |] eqn:E; try discriminate H.
  apply andb_true_iff in H. destruct H as [H H3].
  apply andb_true_iff in H. destruct H as [H1 H2].
  apply N.leb_le in H2. rewrite forallb_forall in H3.
  exists dids. split; [exact E|]. split; [apply good_chain_b_sound; exact H1|].
  split; [exact H2|]. unfold DIR_ENTRY_LEN in *. split.
  - intros id e Hn Hname. pose proof (nthN_Some_lt _ _ _ _ Hn) as Hlt.
    assert (Hr : In id (ReuseProofs.rangeN (slen s * lenN dids / 128)))
      by (apply ReuseProofs.In_rangeN; lia).
    specialize (H3 id Hr). rewrite Hn in H3.
    apply orb_true_iff in H3. destruct H3 as [H3|H3]; [lia|].
    apply list_eqb_N_eq. exact H3.
  - intros id Hge Hr.
    assert (Hin : In id (ReuseProofs.rangeN (slen s * lenN dids / 128)))
      by (apply ReuseProofs.In_rangeN; lia).
    specialize (H3 id Hin).
    destruct (nthN (dirs s) id) as [e|] eqn:Hn.
    + apply nthN_Some_lt in Hn. lia.
    + apply list_eqb_N_eq. exact H3.
Qed.

From Cfb.model Require Store Handle Cfb.

Module Examples.
  Import Cfb.model.Cfb ReuseProofs.Examples.

  (* the empty file is coherent, directory and MiniFAT *)
  Example create_state_dir_coherent :
    DirCoherent (create_state V3) /\ DirCoherent (create_state V4).
  Proof. split; apply dir_coherent_b_sound; vm_compute; reflexivity. Qed.

  Example create_state_minifat_coherent : forall v, MiniFatCoherent (create_state v).
  Proof.
    intro v. exists []. split; [destruct v; vm_compute; reflexivity|].
    split; [|split; [cbn; lia|intros i w Hi; discriminate Hi]].
    split; [constructor|]. split; [constructor|]. split; [destruct v; reflexivity|apply slen_pos].
  Qed.

  (* so is the file after a 5000-byte stream was created and removed: one
     inserted entry, then freed again (slot 1 blank on disk and in the cache) *)
  Example big_dir_coherent : DirCoherent big.
  Proof. apply dir_coherent_b_sound. vm_compute. reflexivity. Qed.
End Examples.

(* ================================================================== *)
(* FOOTER *)
Check dirent_encode_set_left.
Check dirent_encode_set_right.
Check dirent_encode_set_child.
Check write_in_dir_entry_field.
Check write_dir_entry_coherent.
Check with_dir_entry_mut_coherent.
Check free_dir_entry_coherent.
Check insert_dir_entry_coherent.
Check insert_dir_entry_coherent_ext.
Check extend_chain_dir_extended.
Check insert_dir_entry_coherent_full.
Check insert_dir_entry_coherent_all.
Check insert_dir_entry_coherent_fatinv.
Check remove_dir_entry_coherent.
Check dir_reads_back.
Check dir_loop_reads_back.
Check data_write_keeps_dir.
Check set_minifat_coherent.
Check data_write_keeps_minifat.
Check minifat_truncate_coherent.
Print Assumptions dirent_encode_set_left.
Print Assumptions dirent_encode_set_right.
Print Assumptions dirent_encode_set_child.
Print Assumptions write_in_dir_entry_field.
Print Assumptions write_dir_entry_coherent.
Print Assumptions with_dir_entry_mut_coherent.
Print Assumptions free_dir_entry_coherent.
Print Assumptions insert_dir_entry_coherent.
Print Assumptions insert_dir_entry_coherent_ext.
Print Assumptions extend_chain_dir_extended.
Print Assumptions insert_dir_entry_coherent_full.
Print Assumptions insert_dir_entry_coherent_all.
Print Assumptions insert_dir_entry_coherent_fatinv.
Print Assumptions remove_dir_entry_coherent.
Print Assumptions dir_reads_back.
Print Assumptions dir_loop_reads_back.
Print Assumptions data_write_keeps_dir.
Print Assumptions set_minifat_coherent.
Print Assumptions data_write_keeps_minifat.
Print Assumptions minifat_truncate_coherent.
Print Assumptions Examples.create_state_dir_coherent.
Print Assumptions Examples.big_dir_coherent.
