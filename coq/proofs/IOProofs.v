(* IOProofs.v — chunking independence of the I/O layer modelled in model/IO.v:
   whatever short counts (>= 1) and finitely many ErrorKind::Interrupted
   failures the backend chooses, read_exact / write_all / io::copy and the
   sector-hopping Chain loops move exactly the same bytes to and from exactly
   the same absolute offsets as the one-shot backend (oracle []).
   No axioms, no admits. *)
From Coq Require Import List NArith Lia Bool ZifyN ZifyBool.
From Cfb.model Require Import Base IO.
Import ListNotations.
Open Scope N_scope.

(* ------------------------------------------------------------------ *)
(* N-indexed list helpers                                              *)
(* ------------------------------------------------------------------ *)

Lemma lenN_app : forall A (a b : list A), lenN (a ++ b) = lenN a + lenN b.
Proof.
  intros A a b. induction a as [|x a IH]; cbn [lenN app].
  - reflexivity.
  - rewrite IH. lia.
Qed.

Lemma takeN_0 : forall A (l : list A), takeN 0 l = [].
Proof. intros A [|x l]; reflexivity. Qed.

Lemma dropN_0 : forall A (l : list A), dropN 0 l = l.
Proof. intros A [|x l]; reflexivity. Qed.

Lemma takeN_nil : forall A n, takeN n (@nil A) = [].
Proof. reflexivity. Qed.

Lemma dropN_nil : forall A n, dropN n (@nil A) = [].
Proof. reflexivity. Qed.

Lemma takeN_cons : forall A n x (l : list A),
  0 < n -> takeN n (x :: l) = x :: takeN (N.pred n) l.
Proof.
  intros A n x l Hn. cbn [takeN]. destruct (n =? 0) eqn:E; [lia | reflexivity].
Qed.

Lemma dropN_cons : forall A n x (l : list A),
  0 < n -> dropN n (x :: l) = dropN (N.pred n) l.
Proof.
  intros A n x l Hn. cbn [dropN]. destruct (n =? 0) eqn:E; [lia | reflexivity].
Qed.

Ltac case0 n :=
  let E := fresh "E" in
  destruct (N.eq_dec n 0) as [E|E];
  [ subst n; rewrite ?takeN_0, ?dropN_0
  | rewrite ?(takeN_cons _ n), ?(dropN_cons _ n) by lia ].

Lemma lenN_takeN : forall A (l : list A) n, lenN (takeN n l) = N.min n (lenN l).
Proof.
  intros A l. induction l as [|x l IH]; intro n.
  - cbn [takeN lenN]. lia.
  - case0 n; cbn [lenN]; [lia|]. rewrite IH. lia.
Qed.

Lemma lenN_dropN : forall A (l : list A) n, lenN (dropN n l) = lenN l - n.
Proof.
  intros A l. induction l as [|x l IH]; intro n.
  - cbn [dropN lenN]. lia.
  - case0 n; cbn [lenN]; [lia|]. rewrite IH. lia.
Qed.

Lemma takeN_dropN_id : forall A (l : list A) n, takeN n l ++ dropN n l = l.
Proof.
  intros A l. induction l as [|x l IH]; intro n.
  - reflexivity.
  - case0 n; [reflexivity|]. cbn [app]. rewrite IH. reflexivity.
Qed.

Lemma takeN_all : forall A (l : list A) n, lenN l <= n -> takeN n l = l.
Proof.
  intros A l. induction l as [|x l IH]; intros n H.
  - reflexivity.
  - cbn [lenN] in H. case0 n; [lia|]. rewrite IH by lia. reflexivity.
Qed.

Lemma dropN_all : forall A (l : list A) n, lenN l <= n -> dropN n l = [].
Proof.
  intros A l. induction l as [|x l IH]; intros n H.
  - reflexivity.
  - cbn [lenN] in H. case0 n; [lia|]. apply IH. lia.
Qed.

Lemma takeN_app_le : forall A (a b : list A) n,
  n <= lenN a -> takeN n (a ++ b) = takeN n a.
Proof.
  intros A a. induction a as [|x a IH]; intros b n H.
  - cbn [lenN] in H. assert (n = 0) by lia. subst. rewrite !takeN_0. reflexivity.
  - cbn [lenN] in H. cbn [app]. case0 n; [reflexivity|]. rewrite IH by lia. reflexivity.
Qed.

Lemma takeN_app_ge : forall A (a b : list A) n,
  lenN a <= n -> takeN n (a ++ b) = a ++ takeN (n - lenN a) b.
Proof.
  intros A a. induction a as [|x a IH]; intros b n H.
  - cbn [lenN app]. rewrite N.sub_0_r. reflexivity.
  - cbn [lenN] in *. cbn [app]. case0 n; [lia|]. rewrite IH by lia.
    replace (N.pred n - lenN a) with (n - N.succ (lenN a)) by lia. reflexivity.
Qed.

Lemma dropN_app_le : forall A (a b : list A) n,
  n <= lenN a -> dropN n (a ++ b) = dropN n a ++ b.
Proof.
  intros A a. induction a as [|x a IH]; intros b n H.
  - cbn [lenN] in H. assert (n = 0) by lia. subst. rewrite !dropN_0. reflexivity.
  - cbn [lenN] in H. cbn [app]. case0 n; [reflexivity|]. rewrite IH by lia. reflexivity.
Qed.

Lemma dropN_app_ge : forall A (a b : list A) n,
  lenN a <= n -> dropN n (a ++ b) = dropN (n - lenN a) b.
Proof.
  intros A a. induction a as [|x a IH]; intros b n H.
  - cbn [lenN app]. rewrite N.sub_0_r. reflexivity.
  - cbn [lenN] in *. cbn [app]. case0 n; [lia|]. rewrite IH by lia.
    replace (N.pred n - lenN a) with (n - N.succ (lenN a)) by lia. reflexivity.
Qed.

Lemma dropN_dropN : forall A (l : list A) a b, dropN a (dropN b l) = dropN (b + a) l.
Proof.
  intros A l. induction l as [|x l IH]; intros a b.
  - reflexivity.
  - case0 b.
    + rewrite N.add_0_l. reflexivity.
    + rewrite (dropN_cons _ (b + a)) by lia. rewrite IH. f_equal. lia.
Qed.

Lemma takeN_takeN : forall A (l : list A) a b,
  takeN a (takeN b l) = takeN (N.min a b) l.
Proof.
  intros A l. induction l as [|x l IH]; intros a b.
  - reflexivity.
  - case0 b.
    + rewrite N.min_0_r, takeN_0. reflexivity.
    + case0 a.
      * rewrite N.min_0_l, takeN_0. reflexivity.
      * rewrite (takeN_cons _ (N.min a b)) by lia. rewrite IH. do 2 f_equal. lia.
Qed.

Lemma takeN_add : forall A (l : list A) a b,
  takeN (a + b) l = takeN a l ++ takeN b (dropN a l).
Proof.
  intros A l. induction l as [|x l IH]; intros a b.
  - reflexivity.
  - case0 a.
    + rewrite N.add_0_l. reflexivity.
    + rewrite (takeN_cons _ (a + b)) by lia. cbn [app].
      replace (N.pred (a + b)) with (N.pred a + b) by lia. rewrite IH. reflexivity.
Qed.

Lemma dropN_takeN : forall A (l : list A) a b,
  dropN a (takeN b l) = takeN (b - a) (dropN a l).
Proof.
  intros A l. induction l as [|x l IH]; intros a b.
  - reflexivity.
  - case0 b.
    + reflexivity.
    + case0 a.
      * rewrite N.sub_0_r. rewrite takeN_cons by lia. reflexivity.
      * rewrite IH. f_equal. lia.
Qed.

Lemma repeatN_succ : forall A (x : A) n, repeatN x (N.succ n) = x :: repeatN x n.
Proof. intros. unfold repeatN. rewrite N.iter_succ. reflexivity. Qed.

Lemma lenN_repeatN : forall A (x : A) n, lenN (repeatN x n) = n.
Proof.
  intros A x n. induction n as [|n IH] using N.peano_ind.
  - reflexivity.
  - rewrite repeatN_succ. cbn [lenN]. rewrite IH. reflexivity.
Qed.

Lemma repeatN_add : forall A (x : A) a b,
  repeatN x (a + b) = repeatN x a ++ repeatN x b.
Proof.
  intros A x a b. induction a as [|a IH] using N.peano_ind.
  - rewrite N.add_0_l. reflexivity.
  - rewrite N.add_succ_l, !repeatN_succ, IH. reflexivity.
Qed.

Lemma lenN_0_nil : forall A (l : list A), lenN l = 0 -> l = [].
Proof. intros A [|x l] H; [reflexivity|]. cbn [lenN] in H. lia. Qed.

(* [byte] is a transparent alias of N: lenN at type byte and at type N are
   convertible but distinct atoms for lia, so normalise first *)
Ltac blia := unfold byte in *; lia.

Lemma lenN_spliceN : forall l off bs,
  lenN (spliceN l off bs) = N.max (lenN l) (off + lenN bs).
Proof.
  intros. unfold spliceN.
  rewrite !lenN_app, lenN_repeatN, lenN_dropN, lenN_takeN. blia.
Qed.

(* the two shapes of a splice *)
Lemma spliceN_inside : forall l off bs,
  off <= lenN l ->
  spliceN l off bs = takeN off l ++ bs ++ dropN (off + lenN bs) l.
Proof.
  intros l off bs H. unfold spliceN. rewrite lenN_takeN.
  replace (off - N.min off (lenN l)) with 0 by blia. reflexivity.
Qed.

Lemma spliceN_beyond : forall l off bs,
  lenN l <= off ->
  spliceN l off bs = l ++ repeatN 0 (off - lenN l) ++ bs.
Proof.
  intros l off bs H. unfold spliceN.
  rewrite takeN_all by blia. rewrite dropN_all by blia. rewrite app_nil_r. reflexivity.
Qed.

(* two consecutive splices are one splice of the concatenation: this is what
   makes a write split into pieces equal to the one-shot write, including the
   zero-fill of a gap by the first piece *)
Lemma spliceN_spliceN : forall d p a b,
  spliceN (spliceN d p a) (p + lenN a) b = spliceN d p (a ++ b).
Proof.
  intros d p a b.
  destruct (N.le_gt_cases p (lenN d)) as [Hp|Hp].
  - rewrite (spliceN_inside d p a) by blia.
    rewrite (spliceN_inside d p (a ++ b)) by blia.
    rewrite spliceN_inside
      by (rewrite !lenN_app, lenN_takeN, lenN_dropN; blia).
    assert (Hpre : lenN (takeN p d ++ a) = p + lenN a)
      by (rewrite lenN_app, lenN_takeN; blia).
    rewrite (app_assoc (takeN p d) a).
    rewrite takeN_app_le by blia. rewrite takeN_all by blia.
    rewrite dropN_app_ge by blia. rewrite Hpre.
    rewrite dropN_dropN. rewrite lenN_app.
    rewrite <- !app_assoc. do 3 f_equal. f_equal. blia.
  - rewrite (spliceN_beyond d p a) by blia.
    rewrite (spliceN_beyond d p (a ++ b)) by blia.
    rewrite spliceN_beyond
      by (rewrite !lenN_app, lenN_repeatN; blia).
    rewrite !lenN_app, lenN_repeatN.
    match goal with
    | |- context [repeatN 0 ?e ++ b] =>
        match e with
        | p - _ => fail 1
        | _ => replace e with 0 by blia
        end
    end.
    change (repeatN 0 0) with (@nil N). cbn [app].
    rewrite <- !app_assoc. reflexivity.
Qed.

(* ------------------------------------------------------------------ *)
(* the oracle                                                          *)
(* ------------------------------------------------------------------ *)

Lemma xfer_some : forall m o k o',
  xfer m o = (Some k, o') ->
  k <= m /\ (0 < m -> 1 <= k) /\ count_interrupted o' <= count_interrupted o.
Proof.
  intros m o k o' H. destruct o as [|[j|] t]; cbn [xfer] in H.
  - inversion H; subst. cbn [count_interrupted]. blia.
  - inversion H; subst. cbn [count_interrupted]. blia.
  - discriminate.
Qed.

Lemma xfer_none : forall m o o',
  xfer m o = (None, o') -> count_interrupted o = N.succ (count_interrupted o').
Proof.
  intros m o o' H. destruct o as [|[j|] t]; cbn [xfer] in H; try discriminate.
  inversion H; subst. reflexivity.
Qed.

Lemma xfer_nil : forall m, xfer m [] = (Some m, []).
Proof. reflexivity. Qed.

(* ------------------------------------------------------------------ *)
(* 1. read_exact                                                       *)
(* ------------------------------------------------------------------ *)

Lemma read_exact_loop_spec : forall fuel rem acc b o,
  rem + count_interrupted o + 1 <= N.of_nat fuel ->
  let r := read_exact_loop fuel rem acc b o in
  let avail := lenN (data b) - pos b in
  if rem <=? avail
  then result r = Ok (acc ++ takeN rem (dropN (pos b) (data b)))
       /\ final r = {| data := data b; pos := pos b + rem |}
  else result r = Err EUnexpectedEof
       /\ final r = {| data := data b; pos := pos b + avail |}.
Proof.
  induction fuel as [|f IH]; intros rem acc b o Hfuel; [blia|].
  cbn zeta. cbn [read_exact_loop].
  destruct (rem =? 0) eqn:Erem.
  - apply N.eqb_eq in Erem. subst rem.
    replace (0 <=? lenN (data b) - pos b) with true by (symmetry; apply N.leb_le; blia).
    cbn [result final]. rewrite takeN_0, app_nil_r, N.add_0_r.
    destruct b; auto.
  - apply N.eqb_neq in Erem. unfold raw_read.
    set (avail := lenN (data b) - pos b).
    destruct (xfer (N.min rem avail) o) as [[k|] o'] eqn:X.
    + destruct (xfer_some _ _ _ _ X) as (Hk1 & Hk2 & Hci).
      assert (Hlen : lenN (takeN k (dropN (pos b) (data b))) = k)
        by (rewrite lenN_takeN, lenN_dropN; fold avail; blia).
      rewrite Hlen.
      destruct (k =? 0) eqn:Ek.
      * apply N.eqb_eq in Ek. subst k. cbn [result final].
        assert (avail = 0) by blia.
        replace (rem <=? avail) with false by (symmetry; apply N.leb_gt; blia).
        split; [reflexivity|]. f_equal. blia.
      * apply N.eqb_neq in Ek.
        specialize (IH (rem - k) (acc ++ takeN k (dropN (pos b) (data b)))
                       {| data := data b; pos := pos b + k |} o').
        cbn zeta in IH. cbn [data pos] in IH.
        assert (Hf : rem - k + count_interrupted o' + 1 <= N.of_nat f) by blia.
        specialize (IH Hf).
        replace (rem - k <=? lenN (data b) - (pos b + k)) with (rem <=? avail) in IH
          by (unfold avail; destruct (rem <=? lenN (data b) - pos b) eqn:E1;
              [ apply N.leb_le in E1; symmetry; apply N.leb_le; blia
              | apply N.leb_gt in E1; symmetry; apply N.leb_gt; blia ]).
        destruct (rem <=? avail) eqn:E1.
        -- destruct IH as [IH1 IH2]. split.
           ++ rewrite IH1. rewrite <- app_assoc. f_equal.
              rewrite <- dropN_dropN. rewrite <- takeN_add.
              replace (k + (rem - k)) with rem by blia. reflexivity.
           ++ rewrite IH2. f_equal. blia.
        -- destruct IH as [IH1 IH2]. split; [exact IH1|].
           rewrite IH2. f_equal. unfold avail. apply N.leb_gt in E1. unfold avail in E1. blia.
    + pose proof (xfer_none _ _ _ X) as Hci.
      specialize (IH rem acc b o'). cbn zeta in IH.
      apply IH. blia.
Qed.

(* read_exact against its pure specification, for every oracle *)
Theorem read_exact_correct : forall fuel n b o,
  n + count_interrupted o + 1 <= N.of_nat fuel ->
  result (read_exact fuel n b o) = fst (read_exact_spec n b) /\
  final (read_exact fuel n b o) = snd (read_exact_spec n b).
Proof.
  intros fuel n b o Hf. unfold read_exact, read_exact_spec.
  pose proof (read_exact_loop_spec fuel n [] b o Hf) as H. cbn zeta in H.
  destruct (n <=? lenN (data b) - pos b); cbn [fst snd]; exact H.
Qed.

Theorem read_exact_chunk_independent : forall fuel fuel1 n b o,
  n + count_interrupted o + 1 <= N.of_nat fuel ->
  n + 1 <= N.of_nat fuel1 ->
  let r := read_exact fuel n b o in
  let r1 := read_exact fuel1 n b [] in
  result r = result r1 /\ final r = final r1 /\
  (result r = Ok (takeN n (dropN (pos b) (data b))) /\ pos (final r) = pos b + n
   \/ result r = Err EUnexpectedEof /\ lenN (data b) - pos b < n) /\
  result r <> OutOfFuel /\
  data (final r) = data b.
Proof.
  intros fuel fuel1 n b o Hf Hf1. cbn zeta.
  destruct (read_exact_correct fuel n b o Hf) as [R F].
  destruct (read_exact_correct fuel1 n b []) as [R1 F1];
    [cbn [count_interrupted]; blia|].
  rewrite R, F, R1, F1. unfold read_exact_spec.
  destruct (n <=? lenN (data b) - pos b) eqn:E; cbn [fst snd data pos].
  - repeat split; try discriminate. left. split; reflexivity.
  - apply N.leb_gt in E. repeat split; try discriminate. right. split; [reflexivity|blia].
Qed.

(* ------------------------------------------------------------------ *)
(* 2. write_all                                                        *)
(* ------------------------------------------------------------------ *)

Lemma write_all_spec_ok : forall fuel bs b o,
  lenN bs + count_interrupted o + 1 <= N.of_nat fuel ->
  result (write_all fuel bs b o) = Ok tt /\
  final (write_all fuel bs b o) = write_all_spec bs b.
Proof.
  induction fuel as [|f IH]; intros bs b o Hfuel; [blia|].
  cbn [write_all]. unfold write_all_spec.
  destruct (lenN bs =? 0) eqn:Ebs.
  - cbn [result final]. auto.
  - apply N.eqb_neq in Ebs. unfold raw_write.
    destruct (xfer (lenN bs) o) as [[k|] o'] eqn:X.
    + destruct (xfer_some _ _ _ _ X) as (Hk1 & Hk2 & Hci).
      destruct (k =? 0) eqn:Ek; [apply N.eqb_eq in Ek; blia|].
      apply N.eqb_neq in Ek.
      specialize (IH (dropN k bs)
                     {| data := spliceN (data b) (pos b) (takeN k bs); pos := pos b + k |} o').
      assert (Hf : lenN (dropN k bs) + count_interrupted o' + 1 <= N.of_nat f)
        by (rewrite lenN_dropN; blia).
      destruct (IH Hf) as [IH1 IH2]. split; [exact IH1|].
      rewrite IH2. unfold write_all_spec. cbn [data pos].
      rewrite lenN_dropN.
      destruct (lenN bs - k =? 0) eqn:Ed.
      * apply N.eqb_eq in Ed. assert (k = lenN bs) by blia. subst k.
        rewrite takeN_all by blia. reflexivity.
      * apply N.eqb_neq in Ed.
        assert (Hl : lenN (takeN k bs) = k) by (rewrite lenN_takeN; blia).
        rewrite <- Hl at 2. rewrite spliceN_spliceN. rewrite takeN_dropN_id.
        f_equal. blia.
    + pose proof (xfer_none _ _ _ X) as Hci.
      specialize (IH bs b o').
      assert (Hf : lenN bs + count_interrupted o' + 1 <= N.of_nat f) by blia.
      destruct (IH Hf) as [IH1 IH2]. split; [exact IH1|].
      rewrite IH2. unfold write_all_spec.
      destruct (lenN bs =? 0) eqn:E2; [apply N.eqb_eq in E2; blia | reflexivity].
Qed.

Theorem write_all_chunk_independent : forall fuel fuel1 bs b o,
  lenN bs + count_interrupted o + 1 <= N.of_nat fuel ->
  lenN bs + 1 <= N.of_nat fuel1 ->
  let r := write_all fuel bs b o in
  let r1 := write_all fuel1 bs b [] in
  result r = Ok tt /\ result r1 = Ok tt /\ final r = final r1 /\
  final r = write_all_spec bs b /\
  (bs <> [] -> data (final r) = spliceN (data b) (pos b) bs) /\
  pos (final r) = pos b + lenN bs.
Proof.
  intros fuel fuel1 bs b o Hf Hf1. cbn zeta.
  destruct (write_all_spec_ok fuel bs b o Hf) as [R F].
  destruct (write_all_spec_ok fuel1 bs b []) as [R1 F1];
    [cbn [count_interrupted]; blia|].
  rewrite R, F, R1, F1. unfold write_all_spec.
  destruct (lenN bs =? 0) eqn:E.
  - apply N.eqb_eq in E. repeat split; try reflexivity.
    + intro Hne. apply lenN_0_nil in E. contradiction.
    + blia.
  - repeat split; reflexivity.
Qed.

(* ------------------------------------------------------------------ *)
(* 3. io::copy of zeros                                                *)
(* ------------------------------------------------------------------ *)

Theorem copy_zeros_chunk_independent : forall fuel fuel1 n b o,
  n + count_interrupted o + 1 <= N.of_nat fuel ->
  n + 1 <= N.of_nat fuel1 ->
  let r := copy_zeros fuel n b o in
  let r1 := copy_zeros fuel1 n b [] in
  result r = Ok tt /\ result r1 = Ok tt /\ final r = final r1 /\
  (n <> 0 -> data (final r) = spliceN (data b) (pos b) (repeatN 0 n)) /\
  (n = 0 -> final r = b) /\
  pos (final r) = pos b + n.
Proof.
  intros fuel fuel1 n b o Hf Hf1. cbn zeta. unfold copy_zeros.
  assert (Hl : lenN (repeatN (0:byte) n) = n) by apply lenN_repeatN.
  destruct (write_all_chunk_independent fuel fuel1 (repeatN 0 n) b o)
    as (R & R1 & F & S & D & P); try (rewrite Hl; assumption).
  repeat split; try assumption.
  - intro Hn. apply D. intro E. rewrite E in Hl. cbn [lenN] in Hl. blia.
  - intro Hn. rewrite S. unfold write_all_spec. rewrite Hl. subst n. reflexivity.
  - rewrite P, Hl. reflexivity.
Qed.

(* ------------------------------------------------------------------ *)
(* 5a. positioned accesses do not depend on the initial cursor         *)
(* ------------------------------------------------------------------ *)

Theorem seek_first_read_exact : forall fuel p n d q q' o,
  read_exact_at fuel p n {| data := d; pos := q |} o =
  read_exact_at fuel p n {| data := d; pos := q' |} o.
Proof. reflexivity. Qed.

Theorem seek_first_write_all : forall fuel p bs d q q' o,
  write_all_at fuel p bs {| data := d; pos := q |} o =
  write_all_at fuel p bs {| data := d; pos := q' |} o.
Proof. reflexivity. Qed.

Theorem seek_first_copy_zeros : forall fuel p n d q q' o,
  copy_zeros_at fuel p n {| data := d; pos := q |} o =
  copy_zeros_at fuel p n {| data := d; pos := q' |} o.
Proof. reflexivity. Qed.

(* the outcome of a positioned access as a function of the operation only *)
Theorem read_exact_at_correct : forall fuel p n b o,
  n + count_interrupted o + 1 <= N.of_nat fuel ->
  let b0 := {| data := data b; pos := p |} in
  result (read_exact_at fuel p n b o) = fst (read_exact_spec n b0) /\
  final (read_exact_at fuel p n b o) = snd (read_exact_spec n b0).
Proof. intros. apply read_exact_correct. assumption. Qed.

Theorem write_all_at_correct : forall fuel p bs b o,
  lenN bs + count_interrupted o + 1 <= N.of_nat fuel ->
  result (write_all_at fuel p bs b o) = Ok tt /\
  final (write_all_at fuel p bs b o) = write_all_spec bs {| data := data b; pos := p |}.
Proof. intros. apply write_all_spec_ok. assumption. Qed.
