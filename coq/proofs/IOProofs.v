(* IOProofs.v — chunking independence of the I/O layer modelled in model/IO.v:
   whatever short counts (>= 1) and finitely many ErrorKind::Interrupted
   failures the backend chooses, read_exact / write_all / io::copy and the
   sector-hopping Chain loops move exactly the same bytes to and from exactly
   the same absolute offsets as the one-shot backend (oracle []).
   No axioms, no admits. *)
From Coq Require Import List NArith Lia Bool ZifyN ZifyBool.
From Cfb.model Require Import Base IO.
Import ListNotations.
Open Scope N_scope.

(* ------------------------------------------------------------------ *)
(* N-indexed list helpers                                              *)
(* ------------------------------------------------------------------ *)

Lemma lenN_app : forall A (a b : list A), lenN (a ++ b) = lenN a + lenN b.
Proof.
  intros A a b. induction a as [|x a IH]; cbn [lenN app].
  - reflexivity.
  - rewrite IH. lia.
Qed.

Lemma takeN_0 : forall A (l : list A), takeN 0 l = [].
Proof. intros A [|x l]; reflexivity. Qed.

Lemma dropN_0 : forall A (l : list A), dropN 0 l = l.
Proof. intros A [|x l]; reflexivity. Qed.

Lemma takeN_nil : forall A n, takeN n (@nil A) = [].
Proof. reflexivity. Qed.

Lemma dropN_nil : forall A n, dropN n (@nil A) = [].
Proof. reflexivity. Qed.

Lemma takeN_cons : forall A n x (l : list A),
  0 < n -> takeN n (x :: l) = x :: takeN (N.pred n) l.
Proof.
  intros A n x l Hn. cbn [takeN]. destruct (n =? 0) eqn:E; [lia | reflexivity].
Qed.

Lemma dropN_cons : forall A n x (l : list A),
  0 < n -> dropN n (x :: l) = dropN (N.pred n) l.
Proof.
  intros A n x l Hn. cbn [dropN]. destruct (n =? 0) eqn:E; [lia | reflexivity].
Qed.

Ltac case0 n :=
  let E := fresh "E" in
  destruct (N.eq_dec n 0) as [E|E];
  [ subst n; rewrite ?takeN_0, ?dropN_0
  | rewrite ?(takeN_cons _ n), ?(dropN_cons _ n) by lia ].

Lemma lenN_takeN : forall A (l : list A) n, lenN (takeN n l) = N.min n (lenN l).
Proof.
  intros A l. induction l as [|x l IH]; intro n.
  - cbn [takeN lenN]. lia.
  - case0 n; cbn [lenN]; [lia|]. rewrite IH. lia.
Qed.

Lemma lenN_dropN : forall A (l : list A) n, lenN (dropN n l) = lenN l - n.
Proof.
  intros A l. induction l as [|x l IH]; intro n.
  - cbn [dropN lenN]. lia.
  - case0 n; cbn [lenN]; [lia|]. rewrite IH. lia.
Qed.

Lemma takeN_dropN_id : forall A (l : list A) n, takeN n l ++ dropN n l = l.
Proof.
  intros A l. induction l as [|x l IH]; intro n.
  - reflexivity.
  - case0 n; [reflexivity|]. cbn [app]. rewrite IH. reflexivity.
Qed.

Lemma takeN_all : forall A (l : list A) n, lenN l <= n -> takeN n l = l.
Proof.
  intros A l. induction l as [|x l IH]; intros n H.
  - reflexivity.
  - cbn [lenN] in H. case0 n; [lia|]. rewrite IH by lia. reflexivity.
Qed.

Lemma dropN_all : forall A (l : list A) n, lenN l <= n -> dropN n l = [].
Proof.
  intros A l. induction l as [|x l IH]; intros n H.
  - reflexivity.
  - cbn [lenN] in H. case0 n; [lia|]. apply IH. lia.
Qed.

Lemma takeN_app_le : forall A (a b : list A) n,
  n <= lenN a -> takeN n (a ++ b) = takeN n a.
Proof.
  intros A a. induction a as [|x a IH]; intros b n H.
  - cbn [lenN] in H. assert (n = 0) by lia. subst. rewrite !takeN_0. reflexivity.
  - cbn [lenN] in H. cbn [app]. case0 n; [reflexivity|]. rewrite IH by lia. reflexivity.
Qed.

Lemma takeN_app_ge : forall A (a b : list A) n,
  lenN a <= n -> takeN n (a ++ b) = a ++ takeN (n - lenN a) b.
Proof.
  intros A a. induction a as [|x a IH]; intros b n H.
  - cbn [lenN app]. rewrite N.sub_0_r. reflexivity.
  - cbn [lenN] in *. cbn [app]. case0 n; [lia|]. rewrite IH by lia.
    replace (N.pred n - lenN a) with (n - N.succ (lenN a)) by lia. reflexivity.
Qed.

Lemma dropN_app_le : forall A (a b : list A) n,
  n <= lenN a -> dropN n (a ++ b) = dropN n a ++ b.
Proof.
  intros A a. induction a as [|x a IH]; intros b n H.
  - cbn [lenN] in H. assert (n = 0) by lia. subst. rewrite !dropN_0. reflexivity.
  - cbn [lenN] in H. cbn [app]. case0 n; [reflexivity|]. rewrite IH by lia. reflexivity.
Qed.

Lemma dropN_app_ge : forall A (a b : list A) n,
  lenN a <= n -> dropN n (a ++ b) = dropN (n - lenN a) b.
Proof.
  intros A a. induction a as [|x a IH]; intros b n H.
  - cbn [lenN app]. rewrite N.sub_0_r. reflexivity.
  - cbn [lenN] in *. cbn [app]. case0 n; [lia|]. rewrite IH by lia.
    replace (N.pred n - lenN a) with (n - N.succ (lenN a)) by lia. reflexivity.
Qed.

Lemma dropN_dropN : forall A (l : list A) a b, dropN a (dropN b l) = dropN (b + a) l.
Proof.
  intros A l. induction l as [|x l IH]; intros a b.
  - reflexivity.
  - case0 b.
    + rewrite N.add_0_l. reflexivity.
    + rewrite (dropN_cons _ (b + a)) by lia. rewrite IH. f_equal. lia.
Qed.

Lemma takeN_takeN : forall A (l : list A) a b,
  takeN a (takeN b l) = takeN (N.min a b) l.
Proof.
  intros A l. induction l as [|x l IH]; intros a b.
  - reflexivity.
  - case0 b.
    + rewrite N.min_0_r, takeN_0. reflexivity.
    + case0 a.
      * rewrite N.min_0_l, takeN_0. reflexivity.
      * rewrite (takeN_cons _ (N.min a b)) by lia. rewrite IH. do 2 f_equal. lia.
Qed.

Lemma takeN_add : forall A (l : list A) a b,
  takeN (a + b) l = takeN a l ++ takeN b (dropN a l).
Proof.
  intros A l. induction l as [|x l IH]; intros a b.
  - reflexivity.
  - case0 a.
    + rewrite N.add_0_l. reflexivity.
    + rewrite (takeN_cons _ (a + b)) by lia. cbn [app].
      replace (N.pred (a + b)) with (N.pred a + b) by lia. rewrite IH. reflexivity.
Qed.

Lemma dropN_takeN : forall A (l : list A) a b,
  dropN a (takeN b l) = takeN (b - a) (dropN a l).
Proof.
  intros A l. induction l as [|x l IH]; intros a b.
  - reflexivity.
  - case0 b.
    + reflexivity.
    + case0 a.
      * rewrite N.sub_0_r. rewrite takeN_cons by lia. reflexivity.
      * rewrite IH. f_equal. lia.
Qed.

Lemma repeatN_succ : forall A (x : A) n, repeatN x (N.succ n) = x :: repeatN x n.
Proof. intros. unfold repeatN. rewrite N.iter_succ. reflexivity. Qed.

Lemma lenN_repeatN : forall A (x : A) n, lenN (repeatN x n) = n.
Proof.
  intros A x n. induction n as [|n IH] using N.peano_ind.
  - reflexivity.
  - rewrite repeatN_succ. cbn [lenN]. rewrite IH. reflexivity.
Qed.

Lemma repeatN_add : forall A (x : A) a b,
  repeatN x (a + b) = repeatN x a ++ repeatN x b.
Proof.
  intros A x a b. induction a as [|a IH] using N.peano_ind.
  - rewrite N.add_0_l. reflexivity.
  - rewrite N.add_succ_l, !repeatN_succ, IH. reflexivity.
Qed.

Lemma lenN_0_nil : forall A (l : list A), lenN l = 0 -> l = [].
Proof. intros A [|x l] H; [reflexivity|]. cbn [lenN] in H. lia. Qed.

(* [byte] is a transparent alias of N: lenN at type byte and at type N are
   convertible but distinct atoms for lia, so normalise first *)
Ltac blia := unfold byte in *; lia.

Lemma lenN_spliceN : forall l off bs,
  lenN (spliceN l off bs) = N.max (lenN l) (off + lenN bs).
Proof.
  intros. unfold spliceN.
  rewrite !lenN_app, lenN_repeatN, lenN_dropN, lenN_takeN. blia.
Qed.

(* the two shapes of a splice *)
Lemma spliceN_inside : forall l off bs,
  off <= lenN l ->
  spliceN l off bs = takeN off l ++ bs ++ dropN (off + lenN bs) l.
Proof.
  intros l off bs H. unfold spliceN. rewrite lenN_takeN.
  replace (off - N.min off (lenN l)) with 0 by blia. reflexivity.
Qed.

Lemma spliceN_beyond : forall l off bs,
  lenN l <= off ->
  spliceN l off bs = l ++ repeatN 0 (off - lenN l) ++ bs.
Proof.
  intros l off bs H. unfold spliceN.
  rewrite takeN_all by blia. rewrite dropN_all by blia. rewrite app_nil_r. reflexivity.
Qed.

(* two consecutive splices are one splice of the concatenation: this is what
   makes a write split into pieces equal to the one-shot write, including the
   zero-fill of a gap by the first piece *)
Lemma spliceN_spliceN : forall d p a b,
  spliceN (spliceN d p a) (p + lenN a) b = spliceN d p (a ++ b).
Proof.
  intros d p a b.
  destruct (N.le_gt_cases p (lenN d)) as [Hp|Hp].
  - rewrite (spliceN_inside d p a) by blia.
    rewrite (spliceN_inside d p (a ++ b)) by blia.
    rewrite spliceN_inside
      by (rewrite !lenN_app, lenN_takeN, lenN_dropN; blia).
    assert (Hpre : lenN (takeN p d ++ a) = p + lenN a)
      by (rewrite lenN_app, lenN_takeN; blia).
    rewrite (app_assoc (takeN p d) a).
    rewrite takeN_app_le by blia. rewrite takeN_all by blia.
    rewrite dropN_app_ge by blia. rewrite Hpre.
    rewrite dropN_dropN. rewrite lenN_app.
    rewrite <- !app_assoc. do 3 f_equal. f_equal. blia.
  - rewrite (spliceN_beyond d p a) by blia.
    rewrite (spliceN_beyond d p (a ++ b)) by blia.
    rewrite spliceN_beyond
      by (rewrite !lenN_app, lenN_repeatN; blia).
    rewrite !lenN_app, lenN_repeatN.
    match goal with
    | |- context [repeatN 0 ?e ++ b] =>
        match e with
        | p - _ => fail 1
        | _ => replace e with 0 by blia
        end
    end.
    change (repeatN 0 0) with (@nil N). cbn [app].
    rewrite <- !app_assoc. reflexivity.
Qed.

(* ------------------------------------------------------------------ *)
(* the oracle                                                          *)
(* ------------------------------------------------------------------ *)

Lemma xfer_some : forall m o k o',
  xfer m o = (Some k, o') ->
  k <= m /\ (0 < m -> 1 <= k) /\ count_interrupted o' <= count_interrupted o.
Proof.
  intros m o k o' H. destruct o as [|[j|] t]; cbn [xfer] in H.
  - inversion H; subst. cbn [count_interrupted]. blia.
  - inversion H; subst. cbn [count_interrupted]. blia.
  - discriminate.
Qed.

Lemma xfer_none : forall m o o',
  xfer m o = (None, o') -> count_interrupted o = N.succ (count_interrupted o').
Proof.
  intros m o o' H. destruct o as [|[j|] t]; cbn [xfer] in H; try discriminate.
  inversion H; subst. reflexivity.
Qed.

Lemma xfer_nil : forall m, xfer m [] = (Some m, []).
Proof. reflexivity. Qed.

(* ------------------------------------------------------------------ *)
(* 1. read_exact                                                       *)
(* ------------------------------------------------------------------ *)

Lemma read_exact_loop_spec : forall fuel rem acc b o,
  rem + count_interrupted o + 1 <= N.of_nat fuel ->
  let r := read_exact_loop fuel rem acc b o in
  let avail := lenN (data b) - pos b in
  if rem <=? avail
  then result r = Ok (acc ++ takeN rem (dropN (pos b) (data b)))
       /\ final r = {| data := data b; pos := pos b + rem |}
  else result r = Err EUnexpectedEof
       /\ final r = {| data := data b; pos := pos b + avail |}.
Proof.
  induction fuel as [|f IH]; intros rem acc b o Hfuel; [blia|].
  cbn zeta. cbn [read_exact_loop].
  destruct (rem =? 0) eqn:Erem.
  - apply N.eqb_eq in Erem. subst rem.
    replace (0 <=? lenN (data b) - pos b) with true by (symmetry; apply N.leb_le; blia).
    cbn [result final]. rewrite takeN_0, app_nil_r, N.add_0_r.
    destruct b; auto.
  - apply N.eqb_neq in Erem. unfold raw_read.
    set (avail := lenN (data b) - pos b).
    destruct (xfer (N.min rem avail) o) as [[k|] o'] eqn:X.
    + destruct (xfer_some _ _ _ _ X) as (Hk1 & Hk2 & Hci).
      assert (Hlen : lenN (takeN k (dropN (pos b) (data b))) = k)
        by (rewrite lenN_takeN, lenN_dropN; fold avail; blia).
      rewrite Hlen.
      destruct (k =? 0) eqn:Ek.
      * apply N.eqb_eq in Ek. subst k. cbn [result final].
        assert (avail = 0) by blia.
        replace (rem <=? avail) with false by (symmetry; apply N.leb_gt; blia).
        split; [reflexivity|]. f_equal. blia.
      * apply N.eqb_neq in Ek.
        specialize (IH (rem - k) (acc ++ takeN k (dropN (pos b) (data b)))
                       {| data := data b; pos := pos b + k |} o').
        cbn zeta in IH. cbn [data pos] in IH.
        assert (Hf : rem - k + count_interrupted o' + 1 <= N.of_nat f) by blia.
        specialize (IH Hf).
        replace (rem - k <=? lenN (data b) - (pos b + k)) with (rem <=? avail) in IH
          by (unfold avail; destruct (rem <=? lenN (data b) - pos b) eqn:E1;
              [ apply N.leb_le in E1; symmetry; apply N.leb_le; blia
              | apply N.leb_gt in E1; symmetry; apply N.leb_gt; blia ]).
        destruct (rem <=? avail) eqn:E1.
        -- destruct IH as [IH1 IH2]. split.
           ++ rewrite IH1. rewrite <- app_assoc. f_equal.
              rewrite <- dropN_dropN. rewrite <- takeN_add.
              replace (k + (rem - k)) with rem by blia. reflexivity.
           ++ rewrite IH2. f_equal. blia.
        -- destruct IH as [IH1 IH2]. split; [exact IH1|].
           rewrite IH2. f_equal. unfold avail. apply N.leb_gt in E1. unfold avail in E1. blia.
    + pose proof (xfer_none _ _ _ X) as Hci.
      specialize (IH rem acc b o'). cbn zeta in IH.
      apply IH. blia.
Qed.

(* read_exact against its pure specification, for every oracle *)
Theorem read_exact_correct : forall fuel n b o,
  n + count_interrupted o + 1 <= N.of_nat fuel ->
  result (read_exact fuel n b o) = fst (read_exact_spec n b) /\
  final (read_exact fuel n b o) = snd (read_exact_spec n b).
Proof.
  intros fuel n b o Hf. unfold read_exact, read_exact_spec.
  pose proof (read_exact_loop_spec fuel n [] b o Hf) as H. cbn zeta in H.
  destruct (n <=? lenN (data b) - pos b); cbn [fst snd]; exact H.
Qed.

Theorem read_exact_chunk_independent : forall fuel fuel1 n b o,
  n + count_interrupted o + 1 <= N.of_nat fuel ->
  n + 1 <= N.of_nat fuel1 ->
  let r := read_exact fuel n b o in
  let r1 := read_exact fuel1 n b [] in
  result r = result r1 /\ final r = final r1 /\
  (result r = Ok (takeN n (dropN (pos b) (data b))) /\ pos (final r) = pos b + n
   \/ result r = Err EUnexpectedEof /\ lenN (data b) - pos b < n) /\
  result r <> OutOfFuel /\
  data (final r) = data b.
Proof.
  intros fuel fuel1 n b o Hf Hf1. cbn zeta.
  destruct (read_exact_correct fuel n b o Hf) as [R F].
  destruct (read_exact_correct fuel1 n b []) as [R1 F1];
    [cbn [count_interrupted]; blia|].
  rewrite R, F, R1, F1. unfold read_exact_spec.
  destruct (n <=? lenN (data b) - pos b) eqn:E; cbn [fst snd data pos].
  - repeat split; try discriminate. left. split; reflexivity.
  - apply N.leb_gt in E. repeat split; try discriminate. right. split; [reflexivity|blia].
Qed.

(* ------------------------------------------------------------------ *)
(* 2. write_all                                                        *)
(* ------------------------------------------------------------------ *)

Lemma write_all_spec_ok : forall fuel bs b o,
  lenN bs + count_interrupted o + 1 <= N.of_nat fuel ->
  result (write_all fuel bs b o) = Ok tt /\
  final (write_all fuel bs b o) = write_all_spec bs b.
Proof.
  induction fuel as [|f IH]; intros bs b o Hfuel; [blia|].
  cbn [write_all]. unfold write_all_spec.
  destruct (lenN bs =? 0) eqn:Ebs.
  - cbn [result final]. auto.
  - apply N.eqb_neq in Ebs. unfold raw_write.
    destruct (xfer (lenN bs) o) as [[k|] o'] eqn:X.
    + destruct (xfer_some _ _ _ _ X) as (Hk1 & Hk2 & Hci).
      destruct (k =? 0) eqn:Ek; [apply N.eqb_eq in Ek; blia|].
      apply N.eqb_neq in Ek.
      specialize (IH (dropN k bs)
                     {| data := spliceN (data b) (pos b) (takeN k bs); pos := pos b + k |} o').
      assert (Hf : lenN (dropN k bs) + count_interrupted o' + 1 <= N.of_nat f)
        by (rewrite lenN_dropN; blia).
      destruct (IH Hf) as [IH1 IH2]. split; [exact IH1|].
      rewrite IH2. unfold write_all_spec. cbn [data pos].
      rewrite lenN_dropN.
      destruct (lenN bs - k =? 0) eqn:Ed.
      * apply N.eqb_eq in Ed. assert (k = lenN bs) by blia. subst k.
        rewrite takeN_all by blia. reflexivity.
      * apply N.eqb_neq in Ed.
        assert (Hl : lenN (takeN k bs) = k) by (rewrite lenN_takeN; blia).
        rewrite <- Hl at 2. rewrite spliceN_spliceN. rewrite takeN_dropN_id.
        f_equal. blia.
    + pose proof (xfer_none _ _ _ X) as Hci.
      specialize (IH bs b o').
      assert (Hf : lenN bs + count_interrupted o' + 1 <= N.of_nat f) by blia.
      destruct (IH Hf) as [IH1 IH2]. split; [exact IH1|].
      rewrite IH2. unfold write_all_spec.
      destruct (lenN bs =? 0) eqn:E2; [apply N.eqb_eq in E2; blia | reflexivity].
Qed.

Theorem write_all_chunk_independent : forall fuel fuel1 bs b o,
  lenN bs + count_interrupted o + 1 <= N.of_nat fuel ->
  lenN bs + 1 <= N.of_nat fuel1 ->
  let r := write_all fuel bs b o in
  let r1 := write_all fuel1 bs b [] in
  result r = Ok tt /\ result r1 = Ok tt /\ final r = final r1 /\
  final r = write_all_spec bs b /\
  (bs <> [] -> data (final r) = spliceN (data b) (pos b) bs) /\
  pos (final r) = pos b + lenN bs.
Proof.
  intros fuel fuel1 bs b o Hf Hf1. cbn zeta.
  destruct (write_all_spec_ok fuel bs b o Hf) as [R F].
  destruct (write_all_spec_ok fuel1 bs b []) as [R1 F1];
    [cbn [count_interrupted]; blia|].
  rewrite R, F, R1, F1. unfold write_all_spec.
  destruct (lenN bs =? 0) eqn:E.
  - apply N.eqb_eq in E. repeat split; try reflexivity.
    + intro Hne. apply lenN_0_nil in E. contradiction.
    + blia.
  - repeat split; reflexivity.
Qed.

(* ------------------------------------------------------------------ *)
(* 3. io::copy of zeros                                                *)
(* ------------------------------------------------------------------ *)

Theorem copy_zeros_chunk_independent : forall fuel fuel1 n b o,
  n + count_interrupted o + 1 <= N.of_nat fuel ->
  n + 1 <= N.of_nat fuel1 ->
  let r := copy_zeros fuel n b o in
  let r1 := copy_zeros fuel1 n b [] in
  result r = Ok tt /\ result r1 = Ok tt /\ final r = final r1 /\
  (n <> 0 -> data (final r) = spliceN (data b) (pos b) (repeatN 0 n)) /\
  (n = 0 -> final r = b) /\
  pos (final r) = pos b + n.
Proof.
  intros fuel fuel1 n b o Hf Hf1. cbn zeta. unfold copy_zeros.
  pose proof (write_all_chunk_independent fuel fuel1 (repeatN 0 n) b o) as W.
  cbn zeta in W. rewrite !lenN_repeatN in W.
  destruct (W Hf Hf1) as (R & R1 & F & Sp & D & P).
  repeat split; try assumption.
  - intro Hn. apply D. intro E.
    pose proof (lenN_repeatN N 0 n) as Hl. rewrite E in Hl. cbn [lenN] in Hl. blia.
  - intro Hn. rewrite Sp. unfold write_all_spec. rewrite lenN_repeatN. subst n. reflexivity.
Qed.

(* ------------------------------------------------------------------ *)
(* 5a. positioned accesses do not depend on the initial cursor         *)
(* ------------------------------------------------------------------ *)

Theorem seek_first_read_exact : forall fuel p n d q q' o,
  read_exact_at fuel p n {| data := d; pos := q |} o =
  read_exact_at fuel p n {| data := d; pos := q' |} o.
Proof. reflexivity. Qed.

Theorem seek_first_write_all : forall fuel p bs d q q' o,
  write_all_at fuel p bs {| data := d; pos := q |} o =
  write_all_at fuel p bs {| data := d; pos := q' |} o.
Proof. reflexivity. Qed.

Theorem seek_first_copy_zeros : forall fuel p n d q q' o,
  copy_zeros_at fuel p n {| data := d; pos := q |} o =
  copy_zeros_at fuel p n {| data := d; pos := q' |} o.
Proof. reflexivity. Qed.

(* the outcome of a positioned access as a function of the operation only *)
Theorem read_exact_at_correct : forall fuel p n b o,
  n + count_interrupted o + 1 <= N.of_nat fuel ->
  let b0 := {| data := data b; pos := p |} in
  result (read_exact_at fuel p n b o) = fst (read_exact_spec n b0) /\
  final (read_exact_at fuel p n b o) = snd (read_exact_spec n b0).
Proof. intros. apply read_exact_correct. assumption. Qed.

Theorem write_all_at_correct : forall fuel p bs b o,
  lenN bs + count_interrupted o + 1 <= N.of_nat fuel ->
  result (write_all_at fuel p bs b o) = Ok tt /\
  final (write_all_at fuel p bs b o) = write_all_spec bs {| data := data b; pos := p |}.
Proof. intros. apply write_all_spec_ok. assumption. Qed.

(* ------------------------------------------------------------------ *)
(* 4. chains: sector arithmetic                                        *)
(* ------------------------------------------------------------------ *)

Lemma div_mod_shift : forall sl ofs, 0 < sl -> sl <= ofs ->
  ofs / sl = N.succ ((ofs - sl) / sl) /\ ofs mod sl = (ofs - sl) mod sl.
Proof.
  intros sl ofs Hsl H. remember (ofs - sl) as r eqn:Er.
  assert (E : ofs = r + 1 * sl) by lia. rewrite E.
  rewrite N.div_add, N.mod_add by lia. split; lia.
Qed.

Lemma same_sector : forall sl ofs j, 0 < sl -> ofs mod sl + j < sl ->
  (ofs + j) / sl = ofs / sl /\ (ofs + j) mod sl = ofs mod sl + j.
Proof.
  intros sl ofs j Hsl Hj.
  assert (E2 : ofs + j = sl * (ofs / sl) + (ofs mod sl + j)).
  { rewrite N.add_assoc. rewrite <- N.div_mod by lia. reflexivity. }
  split; symmetry.
  - apply (N.div_unique (ofs + j) sl (ofs / sl) (ofs mod sl + j)); assumption.
  - apply (N.mod_unique (ofs + j) sl (ofs / sl) (ofs mod sl + j)); assumption.
Qed.

Lemma nthN_cons_succ : forall A (x : A) l i, nthN (x :: l) (N.succ i) = nthN l i.
Proof.
  intros. cbn [nthN]. destruct (N.succ i =? 0) eqn:E; [lia|].
  rewrite N.pred_succ. reflexivity.
Qed.

Lemma nthN_lt : forall A (l : list A) i, i < lenN l -> exists x, nthN l i = Some x.
Proof.
  intros A l. induction l as [|x l IH]; intros i H; cbn [lenN] in H; [lia|].
  destruct (N.eq_dec i 0) as [E|E].
  - subst. exists x. reflexivity.
  - replace i with (N.succ (N.pred i)) by lia. rewrite nthN_cons_succ. apply IH. lia.
Qed.

Lemma chain_index_lt : forall sl n ofs, 0 < sl -> ofs < sl * n -> ofs / sl < n.
Proof. intros. apply N.div_lt_upper_bound; [lia | assumption]. Qed.

Lemma mod_lt : forall sl ofs, 0 < sl -> ofs mod sl < sl.
Proof. intros. apply N.mod_lt. lia. Qed.

Lemma chain_contents_cons : forall d s tl sl,
  chain_contents d (s :: tl) sl = takeN sl (dropN s d) ++ chain_contents d tl sl.
Proof. reflexivity. Qed.

Lemma lenN_chain_contents : forall d sl secs,
  all_in_bounds d secs sl -> lenN (chain_contents d secs sl) = sl * lenN secs.
Proof.
  intros d sl secs H. induction H as [|s tl Hs Htl IH].
  - cbn [chain_contents flat_map lenN]. lia.
  - rewrite chain_contents_cons, lenN_app, IH, lenN_takeN, lenN_dropN.
    cbn [lenN]. rewrite N.mul_succ_r. blia.
Qed.

(* the bytes at absolute offset sector_start + within ARE the bytes at
   logical offset ofs, as long as we stay inside the sector *)
Lemma chain_locate : forall d sl, 0 < sl -> forall secs ofs,
  all_in_bounds d secs sl -> ofs < sl * lenN secs ->
  exists s, nthN secs (ofs / sl) = Some s /\ s + sl <= lenN d /\
    forall k, k <= sl - ofs mod sl ->
      takeN k (dropN (s + ofs mod sl) d) =
      takeN k (dropN ofs (chain_contents d secs sl)).
Proof.
  intros d sl Hsl secs. induction secs as [|s0 tl IH]; intros ofs Hb Hofs.
  - cbn [lenN] in Hofs. lia.
  - inversion Hb as [|? ? Hs0 Htl]; subst.
    rewrite chain_contents_cons.
    assert (Hlen0 : lenN (takeN sl (dropN s0 d)) = sl)
      by (rewrite lenN_takeN, lenN_dropN; blia).
    destruct (N.lt_ge_cases ofs sl) as [Hlt|Hge].
    + rewrite N.div_small, N.mod_small by assumption.
      exists s0. split; [reflexivity|]. split; [assumption|].
      intros k Hk.
      rewrite dropN_app_le by blia.
      rewrite takeN_app_le by (rewrite lenN_dropN; blia).
      rewrite dropN_takeN, takeN_takeN, dropN_dropN.
      replace (N.min k (sl - ofs)) with k by blia. reflexivity.
    + destruct (div_mod_shift sl ofs Hsl Hge) as [Hd Hm]. rewrite Hd, Hm.
      rewrite nthN_cons_succ.
      cbn [lenN] in Hofs. rewrite N.mul_succ_r in Hofs.
      destruct (IH (ofs - sl) Htl) as (s & Hn & Hsb & Hk); [lia|].
      exists s. split; [assumption|]. split; [assumption|].
      intros k Hk'. rewrite (Hk k Hk').
      rewrite dropN_app_ge by blia. rewrite Hlen0. reflexivity.
Qed.

Lemma backend_eq : forall x y : backend, data x = data y -> pos x = pos y -> x = y.
Proof. intros [dx px] [dy py]; cbn [data pos]; intros; subst; reflexivity. Qed.

(* ------------------------------------------------------------------ *)
(* 4a. Chain::read + read_exact                                        *)
(* ------------------------------------------------------------------ *)

Lemma chain_read_loop_spec : forall sl secs d, 0 < sl -> all_in_bounds d secs sl ->
  forall fuel ofs rem acc b o,
  data b = d ->
  ofs + rem <= sl * lenN secs ->
  rem + count_interrupted o + 1 <= N.of_nat fuel ->
  let r := chain_read_exact_loop fuel sl secs ofs rem acc b o in
  result r = Ok (acc ++ takeN rem (dropN ofs (chain_contents d secs sl)), ofs + rem) /\
  data (final r) = d /\
  pos (final r) = (if rem =? 0 then pos b else chain_abs secs sl (ofs + rem - 1) + 1).
Proof.
  intros sl secs d Hsl Hb.
  induction fuel as [|f IH]; intros ofs rem acc b o Hd Hrange Hfuel; [lia|].
  cbn zeta. cbn [chain_read_exact_loop].
  destruct (rem =? 0) eqn:Erem.
  - apply N.eqb_eq in Erem. subst rem. cbn [result final].
    rewrite takeN_0, app_nil_r, N.add_0_r. auto.
  - apply N.eqb_neq in Erem.
    destruct (N.min rem (sl * lenN secs - ofs) =? 0) eqn:Eml;
      [apply N.eqb_eq in Eml; lia|]. apply N.eqb_neq in Eml.
    destruct (chain_locate d sl Hsl secs ofs Hb) as (s & Hn & Hsb & Hk); [lia|].
    rewrite Hn. unfold sector_read. cbn zeta.
    pose proof (mod_lt sl ofs Hsl) as Hw.
    set (w := ofs mod sl) in *.
    set (ml := N.min (N.min rem (sl * lenN secs - ofs)) (sl - w)).
    destruct (ml =? 0) eqn:Eml2; [apply N.eqb_eq in Eml2; lia|].
    apply N.eqb_neq in Eml2.
    unfold raw_read, raw_seek. cbn [data pos]. rewrite Hd.
    replace (N.min ml (lenN d - (s + w))) with ml by blia.
    destruct (xfer ml o) as [[k|] o'] eqn:X.
    + destruct (xfer_some _ _ _ _ X) as (Hk1 & Hk2 & Hci).
      assert (Hlen : lenN (takeN k (dropN (s + w) d)) = k)
        by (rewrite lenN_takeN, lenN_dropN; blia).
      rewrite Hlen.
      destruct (k =? 0) eqn:Ek; [apply N.eqb_eq in Ek; lia|]. apply N.eqb_neq in Ek.
      specialize (IH (ofs + k) (rem - k) (acc ++ takeN k (dropN (s + w) d))
                     {| data := d; pos := s + w + k |} o' eq_refl).
      cbn zeta in IH. cbn [data pos] in IH.
      destruct IH as (IH1 & IH2 & IH3); [lia | lia |].
      split; [|split].
      * rewrite IH1. rewrite (Hk k) by lia. rewrite <- app_assoc.
        rewrite <- dropN_dropN, <- takeN_add.
        replace (k + (rem - k)) with rem by lia.
        replace (ofs + k + (rem - k)) with (ofs + rem) by lia. reflexivity.
      * exact IH2.
      * rewrite IH3. destruct (rem - k =? 0) eqn:Er.
        -- apply N.eqb_eq in Er. assert (rem = k) by lia. subst rem.
           unfold chain_abs.
           replace (ofs + k - 1) with (ofs + (k - 1)) by lia.
           destruct (same_sector sl ofs (k - 1) Hsl) as [Sd Sm]; [fold w; lia|].
           rewrite Sd, Sm, Hn. fold w. lia.
        -- replace (ofs + k + (rem - k) - 1) with (ofs + rem - 1) by lia. reflexivity.
    + pose proof (xfer_none _ _ _ X) as Hci.
      specialize (IH ofs rem acc {| data := d; pos := s + w |} o' eq_refl).
      cbn zeta in IH. cbn [data pos] in IH.
      destruct IH as (IH1 & IH2 & IH3); [lia | lia |].
      split; [exact IH1|]. split; [exact IH2|].
      rewrite IH3. destruct (rem =? 0) eqn:E; [apply N.eqb_eq in E; lia|reflexivity].
Qed.

Theorem chain_read_exact_correct : forall fuel sl secs ofs n b o,
  0 < sl -> all_in_bounds (data b) secs sl ->
  ofs + n <= sl * lenN secs ->
  n + count_interrupted o + 1 <= N.of_nat fuel ->
  let r := chain_read_exact fuel sl secs ofs n b o in
  result r = Ok (chain_bytes (data b) secs sl ofs n, ofs + n) /\
  data (final r) = data b /\
  pos (final r) = (if n =? 0 then pos b else chain_abs secs sl (ofs + n - 1) + 1).
Proof.
  intros fuel sl secs ofs n b o Hsl Hb Hr Hf. cbn zeta. unfold chain_read_exact, chain_bytes.
  exact (chain_read_loop_spec sl secs (data b) Hsl Hb fuel ofs n [] b o eq_refl Hr Hf).
Qed.

Theorem chain_read_exact_chunk_independent : forall fuel fuel1 sl secs ofs n b o,
  0 < sl -> all_in_bounds (data b) secs sl ->
  ofs + n <= sl * lenN secs ->
  n + count_interrupted o + 1 <= N.of_nat fuel ->
  n + 1 <= N.of_nat fuel1 ->
  let r := chain_read_exact fuel sl secs ofs n b o in
  let r1 := chain_read_exact fuel1 sl secs ofs n b [] in
  result r = Ok (chain_bytes (data b) secs sl ofs n, ofs + n) /\
  result r1 = Ok (chain_bytes (data b) secs sl ofs n, ofs + n) /\
  final r = final r1 /\
  data (final r) = data b.
Proof.
  intros fuel fuel1 sl secs ofs n b o Hsl Hb Hr Hf Hf1. cbn zeta.
  destruct (chain_read_exact_correct fuel sl secs ofs n b o Hsl Hb Hr Hf) as (R & D & P).
  destruct (chain_read_exact_correct fuel1 sl secs ofs n b [] Hsl Hb Hr) as (R1 & D1 & P1);
    [cbn [count_interrupted]; lia|].
  repeat split; try assumption.
  apply backend_eq; congruence.
Qed.

(* ------------------------------------------------------------------ *)
(* 4b. Chain::write + write_all                                        *)
(* ------------------------------------------------------------------ *)

Lemma chain_splice_nil : forall d secs sl ofs bs,
  lenN bs = 0 -> chain_splice d secs sl ofs bs = d.
Proof.
  intros d [|s tl] sl ofs bs H; cbn [chain_splice]; [reflexivity|].
  rewrite H. reflexivity.
Qed.

(* writing a first piece of k bytes (inside the current sector) and then the
   rest is the same as the one-shot per-sector splices *)
Lemma chain_splice_step : forall sl, 0 < sl -> forall secs d ofs bs s k,
  ofs < sl * lenN secs ->
  nthN secs (ofs / sl) = Some s ->
  1 <= k -> k <= lenN bs -> k <= sl - ofs mod sl ->
  chain_splice d secs sl ofs bs =
  chain_splice (spliceN d (s + ofs mod sl) (takeN k bs)) secs sl (ofs + k) (dropN k bs).
Proof.
  intros sl Hsl secs.
  induction secs as [|s0 tl IH]; intros d ofs bs s k Hofs Hn Hk1 Hk2 Hk3.
  - cbn [lenN] in Hofs. lia.
  - cbn [chain_splice].
    destruct (lenN bs =? 0) eqn:Eb; [apply N.eqb_eq in Eb; lia|]. clear Eb.
    rewrite lenN_dropN.
    destruct (ofs <? sl) eqn:Elt.
    + apply N.ltb_lt in Elt.
      rewrite N.div_small in Hn by assumption.
      rewrite N.mod_small in * by assumption.
      cbn [nthN N.eqb] in Hn. inversion Hn; subst s0. clear Hn.
      set (K := N.min (lenN bs) (sl - ofs)).
      destruct (lenN bs - k =? 0) eqn:Ed.
      * apply N.eqb_eq in Ed. assert (HK : K = k) by lia. rewrite HK.
        apply chain_splice_nil. rewrite lenN_dropN. lia.
      * apply N.eqb_neq in Ed.
        destruct (ofs + k <? sl) eqn:Elt2.
        -- apply N.ltb_lt in Elt2.
           assert (Hl : lenN (takeN k bs) = k) by (rewrite lenN_takeN; lia).
           replace (s + (ofs + k)) with (s + ofs + lenN (takeN k bs)) by lia.
           rewrite spliceN_spliceN. rewrite dropN_dropN. rewrite <- takeN_add.
           replace (k + N.min (lenN bs - k) (sl - (ofs + k))) with K by lia.
           reflexivity.
        -- apply N.ltb_ge in Elt2. assert (HK : K = k) by lia. rewrite HK.
           replace (ofs + k - sl) with 0 by lia. reflexivity.
    + apply N.ltb_ge in Elt.
      destruct (div_mod_shift sl ofs Hsl Elt) as [Hd Hm].
      rewrite Hd in Hn. rewrite nthN_cons_succ in Hn. rewrite Hm in *.
      cbn [lenN] in Hofs. rewrite N.mul_succ_r in Hofs.
      rewrite (IH d (ofs - sl) bs s k) by (assumption || lia).
      destruct (lenN bs - k =? 0) eqn:Ed.
      * apply N.eqb_eq in Ed. apply chain_splice_nil. rewrite lenN_dropN. lia.
      * replace (ofs + k <? sl) with false by (symmetry; apply N.ltb_ge; lia).
        replace (ofs - sl + k) with (ofs + k - sl) by lia. reflexivity.
Qed.

Lemma chain_write_loop_spec : forall sl secs, 0 < sl ->
  forall fuel ofs bs b o,
  ofs + lenN bs <= sl * lenN secs ->
  lenN bs + count_interrupted o + 1 <= N.of_nat fuel ->
  let r := chain_write_all_loop fuel sl secs ofs bs b o in
  result r = Ok (ofs + lenN bs) /\
  data (final r) = chain_splice (data b) secs sl ofs bs /\
  pos (final r) =
    (if lenN bs =? 0 then pos b else chain_abs secs sl (ofs + lenN bs - 1) + 1).
Proof.
  intros sl secs Hsl.
  induction fuel as [|f IH]; intros ofs bs b o Hrange Hfuel; [lia|].
  cbn zeta. cbn [chain_write_all_loop].
  destruct (lenN bs =? 0) eqn:Ebs.
  - apply N.eqb_eq in Ebs. cbn [result final]. rewrite Ebs, N.add_0_r.
    rewrite chain_splice_nil by assumption. auto.
  - apply N.eqb_neq in Ebs.
    destruct (sl * lenN secs <=? ofs) eqn:Eend; [apply N.leb_le in Eend; lia|].
    apply N.leb_gt in Eend.
    destruct (nthN_lt _ secs (ofs / sl)) as [s Hn];
      [apply chain_index_lt; assumption|].
    rewrite Hn. unfold sector_write. cbn zeta.
    pose proof (mod_lt sl ofs Hsl) as Hw.
    set (w := ofs mod sl) in *.
    set (ml := N.min (lenN bs) (sl - w)).
    destruct (ml =? 0) eqn:Eml; [apply N.eqb_eq in Eml; lia|].
    apply N.eqb_neq in Eml.
    unfold raw_write, raw_seek. cbn [data pos].
    replace (lenN (takeN ml bs)) with ml by (rewrite lenN_takeN; lia).
    destruct (xfer ml o) as [[k|] o'] eqn:X.
    + destruct (xfer_some _ _ _ _ X) as (Hk1 & Hk2 & Hci).
      destruct (k =? 0) eqn:Ek; [apply N.eqb_eq in Ek; lia|]. apply N.eqb_neq in Ek.
      rewrite takeN_takeN. replace (N.min k ml) with k by lia.
      specialize (IH (ofs + k) (dropN k bs)
                     {| data := spliceN (data b) (s + w) (takeN k bs); pos := s + w + k |} o').
      cbn zeta in IH. cbn [data pos] in IH. rewrite lenN_dropN in IH.
      destruct IH as (IH1 & IH2 & IH3); [lia | lia |].
      split; [|split].
      * rewrite IH1. f_equal. lia.
      * rewrite IH2. symmetry. apply chain_splice_step; try assumption; lia.
      * rewrite IH3. destruct (lenN bs - k =? 0) eqn:Er.
        -- apply N.eqb_eq in Er. assert (Hkl : lenN bs = k) by lia. rewrite Hkl.
           unfold chain_abs.
           replace (ofs + k - 1) with (ofs + (k - 1)) by lia.
           destruct (same_sector sl ofs (k - 1) Hsl) as [Sd Sm]; [fold w; lia|].
           rewrite Sd, Sm, Hn. fold w. lia.
        -- apply N.eqb_neq in Er.
           replace (ofs + k + (lenN bs - k) - 1) with (ofs + lenN bs - 1) by lia.
           reflexivity.
    + pose proof (xfer_none _ _ _ X) as Hci.
      specialize (IH ofs bs {| data := data b; pos := s + w |} o').
      cbn zeta in IH. cbn [data pos] in IH.
      destruct IH as (IH1 & IH2 & IH3); [lia | lia |].
      split; [exact IH1|]. split; [exact IH2|].
      rewrite IH3. destruct (lenN bs =? 0) eqn:E; [apply N.eqb_eq in E; lia|reflexivity].
Qed.

Theorem chain_write_all_correct : forall fuel sl secs ofs bs b o,
  0 < sl ->
  ofs + lenN bs <= sl * lenN secs ->
  lenN bs + count_interrupted o + 1 <= N.of_nat fuel ->
  let r := chain_write_all fuel sl secs ofs bs b o in
  result r = Ok (ofs + lenN bs) /\
  data (final r) = chain_splice (data b) secs sl ofs bs /\
  pos (final r) =
    (if lenN bs =? 0 then pos b else chain_abs secs sl (ofs + lenN bs - 1) + 1).
Proof.
  intros fuel sl secs ofs bs b o Hsl Hr Hf.
  exact (chain_write_loop_spec sl secs Hsl fuel ofs bs b o Hr Hf).
Qed.

Theorem chain_write_all_chunk_independent : forall fuel fuel1 sl secs ofs bs b o,
  0 < sl ->
  ofs + lenN bs <= sl * lenN secs ->
  lenN bs + count_interrupted o + 1 <= N.of_nat fuel ->
  lenN bs + 1 <= N.of_nat fuel1 ->
  let r := chain_write_all fuel sl secs ofs bs b o in
  let r1 := chain_write_all fuel1 sl secs ofs bs b [] in
  result r = Ok (ofs + lenN bs) /\
  result r1 = Ok (ofs + lenN bs) /\
  final r = final r1 /\
  data (final r) = chain_splice (data b) secs sl ofs bs.
Proof.
  intros fuel fuel1 sl secs ofs bs b o Hsl Hr Hf Hf1. cbn zeta.
  destruct (chain_write_all_correct fuel sl secs ofs bs b o Hsl Hr Hf) as (R & D & P).
  destruct (chain_write_all_correct fuel1 sl secs ofs bs b [] Hsl Hr) as (R1 & D1 & P1);
    [cbn [count_interrupted]; lia|].
  repeat split; try assumption.
  apply backend_eq; congruence.
Qed.

(* ------------------------------------------------------------------ *)
(* 5b. chain accesses seek before every raw call                       *)
(* ------------------------------------------------------------------ *)

Lemma sector_read_seek : forall sl s w n b b' o,
  data b = data b' -> sector_read sl s w n b o = sector_read sl s w n b' o.
Proof.
  intros sl s w n b b' o H. unfold sector_read, raw_read, raw_seek.
  cbn [data pos]. rewrite H. reflexivity.
Qed.

Lemma sector_write_seek : forall sl s w bs b b' o,
  data b = data b' -> sector_write sl s w bs b o = sector_write sl s w bs b' o.
Proof.
  intros sl s w bs b b' o H. unfold sector_write, raw_write, raw_seek.
  cbn [data pos]. rewrite H. reflexivity.
Qed.

(* Two backends holding the same file but with different cursors: the chain
   read gives the same result, the same file, consumes the same choices and,
   unless it returned before making any raw call (then the backend is
   returned untouched), leaves the same cursor.  No side conditions. *)
Theorem seek_first_chain_read : forall fuel sl secs ofs n b b' o,
  data b = data b' ->
  let r := chain_read_exact fuel sl secs ofs n b o in
  let r' := chain_read_exact fuel sl secs ofs n b' o in
  result r = result r' /\ data (final r) = data (final r') /\ rest r = rest r' /\
  (final r = final r' \/ final r = b /\ final r' = b').
Proof.
  intros fuel sl secs ofs n b b' o H. cbn zeta. unfold chain_read_exact.
  destruct fuel as [|f]; cbn [chain_read_exact_loop].
  - cbn [result final rest]. auto 6.
  - destruct (n =? 0); [cbn [result final rest]; auto 6|].
    destruct (N.min n (sl * lenN secs - ofs) =? 0); [cbn [result final rest]; auto 6|].
    destruct (nthN secs (ofs / sl)) as [s|]; [|cbn [result final rest]; auto 6].
    rewrite (sector_read_seek sl s (ofs mod sl) _ b b' o H). auto 6.
Qed.

Theorem seek_first_chain_write : forall fuel sl secs ofs bs b b' o,
  data b = data b' ->
  let r := chain_write_all fuel sl secs ofs bs b o in
  let r' := chain_write_all fuel sl secs ofs bs b' o in
  result r = result r' /\ data (final r) = data (final r') /\ rest r = rest r' /\
  (final r = final r' \/ final r = b /\ final r' = b').
Proof.
  intros fuel sl secs ofs bs b b' o H. cbn zeta. unfold chain_write_all.
  destruct fuel as [|f]; cbn [chain_write_all_loop].
  - cbn [result final rest]. auto 6.
  - destruct (lenN bs =? 0); [cbn [result final rest]; auto 6|].
    destruct (sl * lenN secs <=? ofs); [cbn [result final rest]; auto 6|].
    destruct (nthN secs (ofs / sl)) as [s|]; [|cbn [result final rest]; auto 6].
    rewrite (sector_write_seek sl s (ofs mod sl) bs b b' o H). auto 6.
Qed.

(* the p / p' form *)
Corollary seek_first_chain_read_pos : forall fuel sl secs ofs n d p p' o,
  let r := chain_read_exact fuel sl secs ofs n {| data := d; pos := p |} o in
  let r' := chain_read_exact fuel sl secs ofs n {| data := d; pos := p' |} o in
  result r = result r' /\ data (final r) = data (final r') /\ rest r = rest r'.
Proof.
  intros. destruct (seek_first_chain_read fuel sl secs ofs n
    {| data := d; pos := p |} {| data := d; pos := p' |} o eq_refl) as (A & B & C & _).
  auto.
Qed.

Corollary seek_first_chain_write_pos : forall fuel sl secs ofs bs d p p' o,
  let r := chain_write_all fuel sl secs ofs bs {| data := d; pos := p |} o in
  let r' := chain_write_all fuel sl secs ofs bs {| data := d; pos := p' |} o in
  result r = result r' /\ data (final r) = data (final r') /\ rest r = rest r'.
Proof.
  intros. destruct (seek_first_chain_write fuel sl secs ofs bs
    {| data := d; pos := p |} {| data := d; pos := p' |} o eq_refl) as (A & B & C & _).
  auto.
Qed.

(* ------------------------------------------------------------------ *)
(* 3b. io::copy chunk by chunk = one write_all of n zeros              *)
(* ------------------------------------------------------------------ *)

Lemma write_all_rest : forall fuel bs b o,
  count_interrupted (rest (write_all fuel bs b o)) <= count_interrupted o.
Proof.
  induction fuel as [|f IH]; intros bs b o; cbn [write_all].
  - cbn [rest]. lia.
  - destruct (lenN bs =? 0); [cbn [rest]; lia|].
    unfold raw_write.
    destruct (xfer (lenN bs) o) as [[k|] o'] eqn:X.
    + destruct (xfer_some _ _ _ _ X) as (_ & _ & Hci).
      destruct (k =? 0); [cbn [rest]; lia|].
      etransitivity; [apply IH | exact Hci].
    + pose proof (xfer_none _ _ _ X) as Hci.
      etransitivity; [apply IH | lia].
Qed.

Theorem copy_zeros_chunked_correct : forall cfuel wfuel n b o,
  n + 1 <= N.of_nat cfuel ->
  copy_buf_len + count_interrupted o + 1 <= N.of_nat wfuel ->
  result (copy_zeros_chunked cfuel wfuel n b o) = Ok tt /\
  final (copy_zeros_chunked cfuel wfuel n b o) = write_all_spec (repeatN 0 n) b.
Proof.
  assert (Hpos : 0 < copy_buf_len) by (unfold copy_buf_len; lia).
  induction cfuel as [|f IH]; intros wfuel n b o Hc Hw; [lia|].
  cbn [copy_zeros_chunked].
  destruct (n =? 0) eqn:En.
  - apply N.eqb_eq in En. subst n. cbn [result final]. auto.
  - apply N.eqb_neq in En. cbn zeta.
    set (c := N.min n copy_buf_len).
    destruct (write_all_spec_ok wfuel (repeatN 0 c) b o) as [R F];
      [rewrite lenN_repeatN; lia|].
    pose proof (write_all_rest wfuel (repeatN 0 c) b o) as Hrest.
    rewrite R.
    destruct (IH wfuel (n - c) (final (write_all wfuel (repeatN 0 c) b o))
                 (rest (write_all wfuel (repeatN 0 c) b o))) as [R2 F2]; [lia|lia|].
    split; [exact R2|]. rewrite F2, F. unfold write_all_spec.
    rewrite !lenN_repeatN.
    replace (c =? 0) with false by (symmetry; apply N.eqb_neq; lia).
    replace (n =? 0) with false by (symmetry; apply N.eqb_neq; lia).
    destruct (n - c =? 0) eqn:Ed.
    + apply N.eqb_eq in Ed. assert (c = n) by lia. rewrite H. reflexivity.
    + cbn [data pos].
      pose proof (lenN_repeatN N 0 c) as Hl. rewrite <- Hl at 2.
      rewrite spliceN_spliceN, <- repeatN_add.
      replace (c + (n - c)) with n by lia. f_equal. lia.
Qed.

(* so the literal chunked loop and the single write_all model agree *)
Corollary copy_zeros_chunked_eq : forall cfuel wfuel fuel n b o o1,
  n + 1 <= N.of_nat cfuel ->
  copy_buf_len + count_interrupted o + 1 <= N.of_nat wfuel ->
  n + count_interrupted o1 + 1 <= N.of_nat fuel ->
  result (copy_zeros_chunked cfuel wfuel n b o) = result (copy_zeros fuel n b o1) /\
  final (copy_zeros_chunked cfuel wfuel n b o) = final (copy_zeros fuel n b o1).
Proof.
  intros cfuel wfuel fuel n b o o1 Hc Hw Hf.
  destruct (copy_zeros_chunked_correct cfuel wfuel n b o Hc Hw) as [R F].
  destruct (write_all_spec_ok fuel (repeatN 0 n) b o1) as [R1 F1];
    [rewrite lenN_repeatN; exact Hf|].
  unfold copy_zeros. rewrite R, F, R1, F1. auto.
Qed.

(* ------------------------------------------------------------------ *)
(* 6. non-vacuity: concrete runs                                       *)
(* ------------------------------------------------------------------ *)

Definition ex_data : list byte := map N.of_nat (seq 0 48).   (* byte i = i *)
Definition ex_b : backend := {| data := ex_data; pos := 5 |}.
Definition ex_secs : list N := [32; 8; 24].                  (* out of order on purpose *)
Definition ex_oracle : oracle :=
  [Short 1; Interrupted; Short 7; Interrupted; Interrupted; Short 0; Short 3; Short 100].

(* 18 bytes from logical offset 3 of a 3-sector chain, sector length 8:
   crosses both sector boundaries *)
Example ex_chain_read_chunked :
  let r := chain_read_exact 40 8 ex_secs 3 18 ex_b ex_oracle in
  result r = Ok ([35;36;37;38;39; 8;9;10;11;12;13;14;15; 24;25;26;27;28], 21)
  /\ final r = {| data := ex_data; pos := 29 |} /\ rest r = [].
Proof. vm_compute. auto. Qed.

Example ex_chain_read_oneshot_equal :
  let r := chain_read_exact 40 8 ex_secs 3 18 ex_b ex_oracle in
  let r1 := chain_read_exact 19 8 ex_secs 3 18 ex_b [] in
  result r = result r1 /\ final r = final r1
  /\ result r1 = Ok (chain_bytes ex_data ex_secs 8 3 18, 21).
Proof. vm_compute. auto. Qed.

(* the oracle really splits the transfer: one fuel unit fewer than the
   chunked run needs is not enough, although it is plenty for the one-shot *)
Example ex_chain_read_needs_fuel :
  result (chain_read_exact 9 8 ex_secs 3 18 ex_b ex_oracle) = OutOfFuel /\
  is_ok (result (chain_read_exact 9 8 ex_secs 3 18 ex_b [])) = true.
Proof. vm_compute. auto. Qed.

Example ex_chain_write_equal :
  let bs := [201;202;203;204;205;206;207;208;209;210;211] in
  let r := chain_write_all 40 8 ex_secs 6 bs ex_b ex_oracle in
  let r1 := chain_write_all 12 8 ex_secs 6 bs ex_b [] in
  result r = Ok 17 /\ result r1 = Ok 17 /\ final r = final r1 /\
  data (final r) = chain_splice ex_data ex_secs 8 6 bs /\
  takeN 8 (dropN 32 (data (final r))) = [32;33;34;35;36;37;201;202] /\
  takeN 8 (dropN 8 (data (final r))) = [203;204;205;206;207;208;209;210] /\
  takeN 8 (dropN 24 (data (final r))) = [211;25;26;27;28;29;30;31] /\
  pos (final r) = 25.
Proof. vm_compute. repeat split; reflexivity. Qed.

Example ex_read_exact_equal :
  let r := read_exact_at 40 10 20 ex_b ex_oracle in
  let r1 := read_exact_at 21 10 20 ex_b [] in
  result r = result r1 /\ final r = final r1 /\
  result r = Ok (map N.of_nat (seq 10 20)) /\ pos (final r) = 30.
Proof. vm_compute. repeat split; reflexivity. Qed.

Example ex_read_exact_eof :
  let r := read_exact_at 40 40 20 ex_b ex_oracle in
  let r1 := read_exact_at 21 40 20 ex_b [] in
  result r = Err EUnexpectedEof /\ result r1 = Err EUnexpectedEof /\
  final r = final r1 /\ pos (final r) = 48.
Proof. vm_compute. repeat split; reflexivity. Qed.

(* a write past the end zero-fills the gap, whichever piece arrives first *)
Example ex_write_all_gap :
  let r := write_all_at 40 50 [1;2;3;4;5;6;7;8;9;10;11;12] ex_b ex_oracle in
  let r1 := write_all_at 13 50 [1;2;3;4;5;6;7;8;9;10;11;12] ex_b [] in
  result r = Ok tt /\ final r = final r1 /\
  dropN 46 (data (final r)) = [46;47;0;0;1;2;3;4;5;6;7;8;9;10;11;12] /\
  pos (final r) = 62.
Proof. vm_compute. repeat split; reflexivity. Qed.

Example ex_copy_zeros_chunked :
  let r := copy_zeros_chunked 3 (N.to_nat 9000) 10000 {| data := [7;7]; pos := 1 |} [Short 5; Interrupted; Short 8000] in
  result r = Ok tt /\ lenN (data (final r)) = 10001 /\ pos (final r) = 10001.
Proof. vm_compute. repeat split; reflexivity. Qed.

(* ------------------------------------------------------------------ *)

Check read_exact_correct.
Check read_exact_chunk_independent.
Check write_all_chunk_independent.
Check copy_zeros_chunk_independent.
Check copy_zeros_chunked_eq.
Check chain_read_exact_correct.
Check chain_read_exact_chunk_independent.
Check chain_write_all_correct.
Check chain_write_all_chunk_independent.
Check seek_first_read_exact.
Check seek_first_write_all.
Check seek_first_copy_zeros.
Check seek_first_chain_read.
Check seek_first_chain_write.

Print Assumptions read_exact_chunk_independent.
Print Assumptions write_all_chunk_independent.
Print Assumptions copy_zeros_chunk_independent.
Print Assumptions copy_zeros_chunked_eq.
Print Assumptions chain_read_exact_chunk_independent.
Print Assumptions chain_write_all_chunk_independent.
Print Assumptions seek_first_chain_read.
Print Assumptions seek_first_chain_write.
