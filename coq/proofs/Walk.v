From Coq Require Import List Arith Lia.
Import ListNotations.

Section Walk.
Variable n : nat.
Variable nxt : nat -> option nat.
Hypothesis nxt_range : forall i j, nxt i = Some j -> i < n /\ j < n.
Hypothesis nxt_inj : forall i i' j, nxt i = Some j -> nxt i' = Some j -> i = i'.

Fixpoint it (k : nat) (s : nat) : option nat :=
  match k with
  | 0 => Some s
  | S k' => match it k' s with Some x => nxt x | None => None end
  end.

Lemma it_S k s y : it (S k) s = Some y -> exists x, it k s = Some x /\ nxt x = Some y.
Proof. simpl. destruct (it k s) as [x|]; [eauto|discriminate]. Qed.

Lemma it_below k s y : it k s = Some y -> forall j, j <= k -> exists x, it j s = Some x.
Proof.
  revert y; induction k as [|k IH]; intros y H j Hj.
  - assert (j = 0) by lia. subst. eauto.
  - destruct (Nat.eq_dec j (S k)) as [->|Hne]; [eauto|].
    destruct (it_S _ _ _ H) as [x [Hx _]]. apply (IH x Hx). lia.
Qed.

Lemma it_lt k s y : s < n -> it k s = Some y -> y < n.
Proof.
  intros Hs. destruct k as [|k]; simpl.
  - intros [= <-]. exact Hs.
  - destruct (it k s) as [x|]; [|discriminate]. intros H. apply (nxt_range _ _ H).
Qed.

(* two equal points on the walk force an earlier return to the start *)
Lemma no_repeat s : forall i j x, i < j -> it i s = Some x -> it j s = Some x ->
  exists m, 0 < m <= j /\ it m s = Some s.
Proof.
  induction i as [|i IH]; intros j x Hij Hi Hj.
  - simpl in Hi. injection Hi as <-. exists j. split; [lia|exact Hj].
  - destruct j as [|j]; [lia|].
    destruct (it_S _ _ _ Hi) as [a [Ha Hna]].
    destruct (it_S _ _ _ Hj) as [b [Hb Hnb]].
    assert (a = b) by (eapply nxt_inj; eauto). subst b.
    destruct (IH j a ltac:(lia) Ha Hb) as [m [Hm Hms]].
    exists m. split; [lia|exact Hms].
Qed.

(* values of the walk, most recent first, for a total function view *)
Fixpoint pref (f : nat -> nat) (k : nat) : list nat :=
  match k with 0 => [] | S k' => f k' :: pref f k' end.

Lemma pref_length f k : length (pref f k) = k.
Proof. induction k; simpl; lia. Qed.

Lemma pref_in f k x : In x (pref f k) <-> exists i, i < k /\ f i = x.
Proof.
  induction k as [|k IH]; simpl.
  - split; [intros []|intros [i [Hi _]]; lia].
  - rewrite IH. split.
    + intros [H|[i [Hi Hf]]]; [exists k; split; [lia|auto] | exists i; split; [lia|auto]].
    + intros [i [Hi Hf]]. destruct (Nat.eq_dec i k) as [->|Hne]; [left; auto|right; exists i; split; [lia|auto]].
Qed.

Lemma dup_or_nodup f k : NoDup (pref f k) \/ exists i j, i < j < k /\ f i = f j.
Proof.
  induction k as [|k [IH|[i [j [Hij Hf]]]]]; simpl.
  - left; constructor.
  - destruct (in_dec Nat.eq_dec (f k) (pref f k)) as [Hin|Hnin].
    + right. apply pref_in in Hin. destruct Hin as [i [Hi Hf]]. exists i, k. split; [lia|auto].
    + left. constructor; auto.
  - right. exists i, j. split; [lia|auto].
Qed.

Lemma pigeon f k : (forall i, i < k -> f i < n) -> n < k -> exists i j, i < j < k /\ f i = f j.
Proof.
  intros Hlt Hk. destruct (dup_or_nodup f k) as [Hnd|H]; [|exact H]. exfalso.
  assert (length (pref f k) <= length (seq 0 n)).
  { apply NoDup_incl_length; [exact Hnd|]. intros x Hx. apply pref_in in Hx.
    destruct Hx as [i [Hi <-]]. apply in_seq. specialize (Hlt i Hi). lia. }
  rewrite pref_length, seq_length in H. lia.
Qed.

(* A walk from an in-range start that is still defined after n steps has come back to its start. *)
Theorem injective_walk s y : s < n -> it n s = Some y -> exists m, 0 < m <= n /\ it m s = Some s.
Proof.
  intros Hs Hn.
  set (f := fun i => match it i s with Some x => x | None => 0 end).
  assert (Hdef : forall i, i <= n -> it i s = Some (f i)).
  { intros i Hi. destruct (it_below _ _ _ Hn i Hi) as [x Hx]. unfold f. rewrite Hx. reflexivity. }
  destruct (pigeon f (S n)) as [i [j [Hij Hf]]].
  - intros i Hi. eapply it_lt; [exact Hs|]. apply Hdef. lia.
  - lia.
  - destruct (no_repeat s i j (f i)) as [m [Hm Hms]]; [lia | apply Hdef; lia | rewrite Hf; apply Hdef; lia |].
    exists m. split; [lia|exact Hms].
Qed.
End Walk.

Print Assumptions injective_walk.
