(* ReopenProofs.v — property C02, the read side: the bytes of the image alone
   reopen (in both validation modes) to the cached tables.
   Part A: the header is written through (HeaderCoherent).
   Part B: open_model (concat_img (img s)) returns the cached tables.
   Stdlib only; no axioms, no admits. *)
From Coq Require Import List NArith Lia Bool ZifyN ZifyBool.
From Cfb.model Require Import Base Names DirEnt State Alloc Dir Mini Open.
From Cfb.model Require Cfb.
From Cfb.gen Require Import Consts.
From Cfb.proofs Require Import ChainProofs.
From Cfb.proofs Require CodecProofs WalkProofs OpenTotal StrictProofs ReuseProofs
                        CoherenceProofs DirCoherence.
Import ListNotations.
Open Scope N_scope.

Ltac Zify.zify_post_hook ::= Z.div_mod_to_equations.

(* ================================================================== *)
(* numeric facts about the (opaque) marker constants                   *)
(* ================================================================== *)

Lemma MAXREG_val : MAX_REGULAR_SECTOR = 4294967290. Proof. vm_compute. reflexivity. Qed.
Lemma DIFATSECT_val : DIFAT_SECTOR = 4294967292. Proof. vm_compute. reflexivity. Qed.
Lemma FATSECT_val : FAT_SECTOR = 4294967293. Proof. vm_compute. reflexivity. Qed.
Lemma EOC_val : END_OF_CHAIN = 4294967294. Proof. vm_compute. reflexivity. Qed.
Lemma FREE_val : FREE_SECTOR = 4294967295. Proof. vm_compute. reflexivity. Qed.

Ltac markers :=
  pose proof MAXREG_val; pose proof EOC_val; pose proof FREE_val;
  pose proof FATSECT_val; pose proof DIFATSECT_val.

Lemma rbind_ok_l : forall {A B} (m : res A) (f : A -> res B) a, m = Ok a -> rbind m f = f a.
Proof. intros A B m f a ->. reflexivity. Qed.

(* ================================================================== *)
(* B, step 1: cutting the concatenated image gives the image back      *)
(* ================================================================== *)

Definition uniform (sl : N) (im : list (list byte)) : Prop :=
  Forall (fun sec => lenN sec = sl) im.

Lemma lenN_concat_uniform : forall sl im, uniform sl im -> lenN (concat im) = sl * lenN im.
Proof.
  intros sl im H. induction H as [|x t Hx Ht IH]; [cbn [concat lenN]; lia|].
  cbn [concat lenN]. rewrite lenN_app, IH, Hx. lia.
Qed.

Lemma chunks_go_concat : forall sl im, 0 < sl -> uniform sl im ->
  forall fuel, (length im <= fuel)%nat -> chunks_go fuel sl (concat im) = im.
Proof.
  intros sl im Hsl H. induction H as [|x t Hx Ht IH]; intros fuel Hf.
  - destruct fuel; reflexivity.
  - destruct fuel as [|f]; [cbn [length] in Hf; lia|].
    cbn [concat chunks_go].
    destruct x as [|b x']; [cbn [lenN] in Hx; lia|].
    change ((b :: x') ++ concat t) with (b :: (x' ++ concat t)). cbv iota.
    change (b :: (x' ++ concat t)) with ((b :: x') ++ concat t).
    assert (E1 : takeN sl ((b :: x') ++ concat t) = b :: x')
      by (rewrite <- Hx; apply CodecProofs.takeN_app_exact).
    assert (E2 : dropN sl ((b :: x') ++ concat t) = concat t)
      by (rewrite <- Hx; apply CodecProofs.dropN_app_exact).
    rewrite E1, E2.
    f_equal. apply IH. cbn [length] in Hf. lia.
Qed.

Theorem chunks_concat : forall sl im, 0 < sl -> uniform sl im ->
  chunks sl (concat im) = im.
Proof.
  intros sl im Hsl H. unfold chunks. apply chunks_go_concat; [exact Hsl|exact H|].
  rewrite (lenN_concat_uniform sl im H).
  replace (sl * lenN im / sl) with (lenN im) by (symmetry; rewrite N.mul_comm; apply N.div_mul; lia).
  rewrite CodecProofs.lenN_length. lia.
Qed.

(* ================================================================== *)
(* the header implied by the cached state                              *)
(* ================================================================== *)

(* number of sectors of the chain starting at [start] *)
Definition chain_count (fat : list N) (start : N) : N :=
  match chain_ids_of fat start with Ok ids => lenN ids | _ => 0 end.

(* the 109-entry DIFAT array of the header *)
Definition hdr_difat_of (d : list N) : list N :=
  takeN NUM_DIFAT_HDR d ++ repeatN FREE_SECTOR (NUM_DIFAT_HDR - lenN (takeN NUM_DIFAT_HDR d)).

Definition header_of (s : cstate) : header :=
  mkHeader (ver s)
           (match ver s with V3 => 0 | V4 => chain_count (fat s) (dir_start s) end)
           (lenN (difat s))
           (dir_start s)
           (minifat_start s)
           (chain_count (fat s) (minifat_start s))
           (match difat_ids s with x :: _ => x | [] => END_OF_CHAIN end)
           (lenN (difat_ids s))
           (hdr_difat_of (difat s)).

(* the first 512 bytes of image element 0 are the encoding of that header *)
Definition HeaderCoherent (s : cstate) : Prop :=
  takeN HEADER_LEN (hd [] (img s)) = header_encode (header_of s).

(* ================================================================== *)
(* generic list facts                                                  *)
(* ================================================================== *)

Lemma repeatN_snoc : forall A (x : A) k, repeatN x k ++ [x] = repeatN x (N.succ k).
Proof.
  intros A x k. induction k as [|k IH] using N.peano_ind; [reflexivity|].
  rewrite (CodecProofs.repeatN_succ _ x (N.succ k)), (CodecProofs.repeatN_succ _ x k).
  cbn [app]. rewrite IH, (CodecProofs.repeatN_succ _ x k). reflexivity.
Qed.

Lemma rev_repeatN : forall A (x : A) k, rev (repeatN x k) = repeatN x k.
Proof.
  intros A x k. induction k as [|k IH] using N.peano_ind; [reflexivity|].
  rewrite CodecProofs.repeatN_succ. cbn [rev]. rewrite IH, repeatN_snoc.
  apply CodecProofs.repeatN_succ.
Qed.

Lemma nthN_repeatN : forall A (x : A) k j, j < k -> nthN (repeatN x k) j = Some x.
Proof.
  intros A x k. induction k as [|k IH] using N.peano_ind; intros j Hj; [lia|].
  rewrite CodecProofs.repeatN_succ. destruct (N.eq_dec j 0) as [->|Hj0]; [reflexivity|].
  rewrite nthN_cons_pos by lia. apply IH. lia.
Qed.

Lemma popw_repeat : forall p m x k r, p x = true -> m <= lenN r ->
  StrictProofs.popw p m (repeatN x k ++ r) = StrictProofs.popw p m r.
Proof.
  intros p m x k r Hp Hm. induction k as [|k IH] using N.peano_ind; [reflexivity|].
  rewrite CodecProofs.repeatN_succ. cbn [app StrictProofs.popw]. rewrite Hp.
  replace (m <? lenN (x :: repeatN x k ++ r)) with true
    by (cbn [lenN]; rewrite CodecProofs.lenN_app; lia).
  cbn [andb]. exact IH.
Qed.

Lemma strip_app_repeat : forall p m l x k, p x = true -> m <= lenN l ->
  strip_last_while p m (l ++ repeatN x k) = strip_last_while p m l.
Proof.
  intros p m l x k Hp Hm. rewrite !StrictProofs.strip_popw.
  rewrite rev_app_distr, rev_repeatN, popw_repeat; [reflexivity|exact Hp|].
  rewrite CodecProofs.lenN_rev. exact Hm.
Qed.

Lemma strip_keep : forall p m l, (forall x, lastN l = Some x -> p x = false) ->
  strip_last_while p m l = l.
Proof.
  intros p m l H. rewrite StrictProofs.strip_popw. unfold lastN in H.
  destruct (rev l) as [|x t] eqn:E.
  - cbn. rewrite <- (rev_involutive l), E. reflexivity.
  - rewrite StrictProofs.popw_head_fails by (apply H; reflexivity).
    rewrite <- E. apply rev_involutive.
Qed.

(* ================================================================== *)
(* B, step 3: the DIFAT                                                *)
(* ================================================================== *)

Lemma difat_loop_eoc : forall fuel strict im sl ns d,
  difat_loop (S fuel) strict im sl ns END_OF_CHAIN [] [] d = Ok ([], d).
Proof. intros. cbn [difat_loop]. rewrite N.eqb_refl. reflexivity. Qed.

Lemma hdr_difat_of_short : forall d, lenN d <= NUM_DIFAT_HDR ->
  hdr_difat_of d = d ++ repeatN FREE_SECTOR (NUM_DIFAT_HDR - lenN d).
Proof. intros d H. unfold hdr_difat_of. rewrite takeN_all by exact H. reflexivity. Qed.

Lemma lenN_hdr_difat_of : forall d, lenN (hdr_difat_of d) = NUM_DIFAT_HDR.
Proof.
  intro d. unfold hdr_difat_of. rewrite CodecProofs.lenN_app, CodecProofs.lenN_repeatN, lenN_takeN.
  lia.
Qed.

Lemma strip_hdr_difat : forall d, lenN d <= NUM_DIFAT_HDR ->
  Forall (fun f => f <= MAX_REGULAR_SECTOR) d ->
  strip_last_while (fun x => x =? FREE_SECTOR) 0 (hdr_difat_of d) = d.
Proof.
  intros d Hl Hreg. rewrite hdr_difat_of_short by exact Hl.
  rewrite strip_app_repeat by (try apply N.eqb_refl; lia).
  apply strip_keep. intros x Hx. apply CoherenceProofs.lastN_In in Hx.
  rewrite Forall_forall in Hreg. specialize (Hreg x Hx). markers. lia.
Qed.

(* ================================================================== *)
(* B, step 4: the FAT sectors read back as the cached FAT + FREE cells  *)
(* ================================================================== *)

(* the cells of the FAT sectors beyond the cached FAT are FREE_SECTOR on disk
   (FAT sectors are initialised to 0xFF and set_fat never writes beyond
   index lenN (fat s)) *)
Definition FatTailFree (s : cstate) : Prop :=
  forall k f m, nthN (difat s) k = Some f -> m < fat_per_sector s ->
    lenN (fat s) <= k * fat_per_sector s + m ->
    le_val (takeN 4 (dropN (4 * m) (sector_bytes s f))) = FREE_SECTOR.

Theorem reopen_fat_cells : forall s,
  CoherenceProofs.FatCoherent s ->
  (forall f, In f (difat s) -> f < nsect s /\ lenN (sector_bytes s f) = slen s) ->
  FatTailFree s ->
  lenN (fat s) <= fat_per_sector s * lenN (difat s) ->
  CoherenceProofs.read_fat_cells (img s) (slen s) (nsect s) (difat s)
  = Ok (fat s ++ repeatN FREE_SECTOR (fat_per_sector s * lenN (difat s) - lenN (fat s))).
Proof.
  intros s Hc Hall Htail Hcap.
  destruct (CoherenceProofs.read_fat_cells_spec s (difat s) Hall) as (cells & E & L & Hn).
  rewrite E. f_equal. apply StrictProofs.list_ext. intro i.
  pose proof (ReuseProofs.fps_pos s) as Hpos.
  destruct (N.lt_ge_cases i (lenN (fat s))) as [Hi|Hi].
  - rewrite ReuseProofs.nthN_app_l by exact Hi.
    destruct (WalkProofs.nthN_lt_Some (fat s) i Hi) as [v Hv].
    destruct (Hc i v Hv) as (f & Hd & _ & _ & Hcell).
    rewrite Hv, <- Hcell. unfold CoherenceProofs.cell_at.
    rewrite <- (Hn (i / fat_per_sector s) f (i mod fat_per_sector s) Hd)
      by (apply N.mod_lt; lia).
    f_equal. rewrite (N.div_mod i (fat_per_sector s)) at 1 by lia. lia.
  - rewrite ReuseProofs.nthN_app_r by exact Hi.
    destruct (N.lt_ge_cases i (lenN cells)) as [Hic|Hic].
    + assert (Hk : i / fat_per_sector s < lenN (difat s)) by (apply N.div_lt_upper_bound; lia).
      destruct (WalkProofs.nthN_lt_Some (difat s) _ Hk) as [f Hf].
      assert (Hm : i mod fat_per_sector s < fat_per_sector s) by (apply N.mod_lt; lia).
      pose proof (Hn _ f _ Hf Hm) as Hcell.
      replace (i / fat_per_sector s * fat_per_sector s + i mod fat_per_sector s) with i in Hcell
        by (rewrite (N.div_mod i (fat_per_sector s)) at 1 by lia; lia).
      rewrite Hcell, (Htail _ f _ Hf Hm)
        by (rewrite (N.div_mod i (fat_per_sector s)) in Hi by lia; lia).
      symmetry. apply nthN_repeatN. lia.
    + rewrite !StrictProofs.nthN_none; [reflexivity| |exact Hic].
      rewrite CodecProofs.lenN_repeatN. lia.
Qed.

(* ================================================================== *)
(* B, step 5: Allocator::validate changes nothing                      *)
(* ================================================================== *)

Lemma mark_sectors_id : forall strict m ids fat,
  (forall i, In i ids -> nthN fat i = Some m) -> mark_sectors strict m ids fat = Ok fat.
Proof.
  intros strict m ids fat. induction ids as [|i t IH]; intro H; [reflexivity|].
  cbn [mark_sectors]. rewrite (H i (or_introl eq_refl)), N.eqb_refl. cbn [negb andb].
  rewrite (StrictProofs.updN_same _ _ _ (H i (or_introl eq_refl))).
  apply IH. intros j Hj. apply H. right. exact Hj.
Qed.

Theorem alloc_validate_id : forall strict ns fat difat,
  lenN fat <= ns ->
  (forall f, In f difat -> nthN fat f = Some FAT_SECTOR) ->
  check_pointees false fat (lenN fat) [] = Ok tt ->
  alloc_validate strict ns [] difat fat = Ok (fat, free_indices fat 0).
Proof.
  intros strict ns fat difat Hl Hm Hc. unfold alloc_validate.
  replace (ns <? lenN fat) with false by lia.
  cbn [mark_sectors rbind]. rewrite (mark_sectors_id strict FAT_SECTOR difat fat Hm).
  cbn [rbind]. rewrite Hc. reflexivity.
Qed.

(* ================================================================== *)
(* B, step 2: the header decodes to header_of s                        *)
(* ================================================================== *)

Lemma good_chain_count : forall s start ids,
  good_chain s ids -> chain_ids_of (fat s) start = Ok ids ->
  chain_count (fat s) start = lenN ids /\ lenN ids <= nsect s /\
  ((ids = [] /\ start = END_OF_CHAIN) \/ (ids <> [] /\ start < nsect s)).
Proof.
  intros s start ids (Hnd & HF & _ & _) Hids.
  unfold chain_count. rewrite Hids. split; [reflexivity|]. split.
  - assert (Hb : Forall (fun x => x < nsect s) ids).
    { eapply Forall_impl; [|exact HF]. cbv beta. tauto. }
    pose proof (WalkProofs.bounded_nodup_length ids (nsect s) Hnd Hb) as H.
    rewrite CodecProofs.lenN_length. lia.
  - destruct (chain_ids_of_walk _ _ _ Hids) as (_ & Hnil & Hfirst & _).
    destruct ids as [|a t]; [left; split; [reflexivity|apply Hnil; reflexivity]|].
    right. split; [discriminate|]. rewrite <- (Hfirst a eq_refl). apply Forall_inv in HF. tauto.
Qed.

Theorem header_wf_of : forall s,
  nsect s <= MAX_REGULAR_SECTOR ->
  difat_ids s = [] ->
  lenN (difat s) <= NUM_DIFAT_HDR ->
  (forall f, In f (difat s) -> f < nsect s) ->
  chain_count (fat s) (dir_start s) <= nsect s ->
  chain_count (fat s) (minifat_start s) <= nsect s ->
  dir_start s <= MAX_REGULAR_SECTOR ->
  (minifat_start s = END_OF_CHAIN \/ minifat_start s <= MAX_REGULAR_SECTOR) ->
  CodecProofs.header_wf (header_of s).
Proof.
  intros s Hns Hids Hnd Hlt Hcd Hcm Hds Hms. markers.
  unfold header_of. rewrite Hids.
  constructor; cbn [h_ver h_num_dir h_num_fat h_first_dir h_first_minifat h_num_minifat
                    h_first_difat h_num_difat h_difat]; cbn [lenN]; unfold u32_max.
  - destruct (ver s); lia.
  - unfold NUM_DIFAT_HDR in Hnd. lia.
  - lia.
  - destruct Hms; lia.
  - lia.
  - lia.
  - lia.
  - lia.
  - intros ->. reflexivity.
  - apply lenN_hdr_difat_of.
  - rewrite hdr_difat_of_short by exact Hnd. apply CodecProofs.difat_ok_prefix.
    rewrite Forall_forall. intros f Hf. specialize (Hlt f Hf). lia.
Qed.

Theorem reopen_header : forall s strict,
  HeaderCoherent s -> CodecProofs.header_wf (header_of s) ->
  HEADER_LEN <= lenN (hd [] (img s)) ->
  header_decode strict (takeN HEADER_LEN (concat (img s))) = Ok (header_of s).
Proof.
  intros s strict Hc Hwf Hlen. unfold HeaderCoherent in Hc.
  destruct (img s) as [|h rest]; [cbn [hd lenN] in Hlen; unfold HEADER_LEN in Hlen; lia|].
  cbn [hd concat] in *. rewrite takeN_app_le by exact Hlen. rewrite Hc.
  apply CodecProofs.header_roundtrip. exact Hwf.
Qed.

(* ================================================================== *)
(* B, step 6: Directory::validate ignores trailing blank entries        *)
(* ================================================================== *)

Lemma dir_entry_of_app : forall ds ext id e,
  dir_entry_of ds id = Ok e -> dir_entry_of (ds ++ ext) id = Ok e.
Proof.
  intros ds ext id e H. unfold dir_entry_of in *.
  destruct (nthN ds id) as [e'|] eqn:E; [|discriminate H].
  rewrite ReuseProofs.nthN_app_l by (eapply nthN_Some_lt; exact E). rewrite E. exact H.
Qed.

Lemma link_step_app : forall ds ext (lnk : N) (K : dirent -> res (list (N * bool))) rest r,
  (if lnk =? NO_STREAM then Ok rest else
   if lenN ds <=? lnk then Err EInvalidData else rbind (dir_entry_of ds lnk) K) = Ok r ->
  (if lnk =? NO_STREAM then Ok rest else
   if lenN (ds ++ ext) <=? lnk then Err EInvalidData else rbind (dir_entry_of (ds ++ ext) lnk) K) = Ok r.
Proof.
  intros ds ext lnk K rest r H. destruct (lnk =? NO_STREAM); [exact H|].
  destruct (lenN ds <=? lnk) eqn:E; [discriminate H|].
  replace (lenN (ds ++ ext) <=? lnk) with false by (rewrite CodecProofs.lenN_app; lia).
  destruct (dir_entry_of ds lnk) as [e| | |] eqn:E2; try discriminate H.
  rewrite (dir_entry_of_app ds ext lnk e E2). exact H.
Qed.

Lemma child_step_app : forall (ds ext : list dirent) (c : N) (st2 : list (N * bool)) r,
  (if c =? NO_STREAM then Ok st2 else
   if lenN ds <=? c then Err EInvalidData else Ok ((c, false) :: st2)) = Ok r ->
  (if c =? NO_STREAM then Ok st2 else
   if lenN (ds ++ ext) <=? c then Err EInvalidData else Ok ((c, false) :: st2)) = Ok r.
Proof.
  intros ds ext c st2 r H. destruct (c =? NO_STREAM); [exact H|].
  destruct (lenN ds <=? c) eqn:E; [discriminate H|].
  replace (lenN (ds ++ ext) <=? c) with false by (rewrite CodecProofs.lenN_app; lia).
  exact H.
Qed.

Lemma dir_dfs_app : forall strict ds ext f stack visited,
  dir_dfs f strict ds stack visited = Ok tt ->
  forall f', (f <= f')%nat -> dir_dfs f' strict (ds ++ ext) stack visited = Ok tt.
Proof.
  intros strict ds ext. induction f as [|f IH]; intros stack visited H f' Hf; [discriminate H|].
  destruct f' as [|f']; [lia|]. cbn [dir_dfs] in *.
  destruct stack as [|[id pr] rest]; [reflexivity|].
  destruct (memN id visited); [discriminate H|].
  destruct (dir_entry_of ds id) as [e| | |] eqn:Ee; try discriminate H.
  rewrite (dir_entry_of_app ds ext id e Ee). cbn [rbind] in *.
  match type of H with (if ?c then _ else _) = _ => destruct c; [discriminate H|] end.
  match type of H with (if ?c then _ else _) = _ => destruct c; [discriminate H|] end.
  apply StrictProofs.rbind_ok in H. destruct H as (st1 & H1 & H).
  apply StrictProofs.rbind_ok in H. destruct H as (st2 & H2 & H).
  apply StrictProofs.rbind_ok in H. destruct H as (st3 & H3 & H).
  rewrite (link_step_app ds ext _ _ _ _ H1). cbn [rbind].
  rewrite (link_step_app ds ext _ _ _ _ H2). cbn [rbind].
  rewrite (child_step_app ds ext _ _ _ H3). cbn [rbind].
  apply (IH _ _ H). lia.
Qed.

Theorem dir_validate_app : forall strict ds ext,
  dir_validate strict ds = Ok tt -> dir_validate strict (ds ++ ext) = Ok tt.
Proof.
  intros strict ds ext H. unfold dir_validate in *.
  destruct ds as [|root t]; [discriminate H|].
  change ((root :: t) ++ ext) with (root :: (t ++ ext)). cbv iota.
  destruct (negb (d_len root mod MINI_SECTOR_LEN =? 0)); [discriminate H|].
  change (root :: (t ++ ext)) with ((root :: t) ++ ext).
  apply (dir_dfs_app strict (root :: t) ext _ _ _ H).
  rewrite app_length. lia.
Qed.

(* ================================================================== *)
(* B, step 7: the MiniFAT chain reads back as the cached MiniFAT + FREE *)
(* ================================================================== *)

(* the cells of the MiniFAT chain beyond the cached MiniFAT are FREE_SECTOR on
   disk (MiniFAT sectors are initialised to 0xFF; set_minifat writes at most at
   index lenN (minifat s); free_mini_sector writes FREE before it truncates) *)
Definition MiniTailFree (s : cstate) : Prop :=
  forall mids, DirCoherence.minifat_ids s mids ->
  forall i, lenN (minifat s) <= i -> 4 * i + 4 <= slen s * lenN mids ->
    le_val (takeN 4 (dropN (4 * i) (chain_content s mids))) = FREE_SECTOR.

Lemma slen_div4 : forall s k, 4 * (slen s * k / 4) = slen s * k.
Proof. intros s k. destruct (ReuseProofs.slen_cases s) as [E|E]; rewrite E; lia. Qed.

Lemma minifat_chain_read : forall s mids, good_chain s mids ->
  chain_read_exact (mkChain IFat mids 0) (4 * (slen s * lenN mids / 4)) s
  = (s, Ok (mkChain IFat mids (0 + 4 * (slen s * lenN mids / 4)), chain_content s mids)).
Proof.
  intros s mids Hg. rewrite chain_read_spec; cbn [c_ids c_off c_init]; try assumption.
  - rewrite dropN_0, takeN_all; [reflexivity|]. rewrite (good_chain_len _ _ Hg), slen_div4. lia.
  - unfold chain_len. cbn [c_ids]. rewrite slen_div4. lia.
Qed.

Lemma good_chain_img : forall s s0 ids,
  img s0 = img s -> nsect s0 = nsect s -> ver s0 = ver s -> good_chain s ids -> good_chain s0 ids.
Proof.
  intros s s0 ids Hi Hn Hv. unfold good_chain, sector_bytes, slen. rewrite Hi, Hn, Hv. tauto.
Qed.

Lemma minifat_chain_read_ext : forall s s0 mids,
  img s0 = img s -> nsect s0 = nsect s -> ver s0 = ver s -> good_chain s mids ->
  chain_read_exact (mkChain IFat mids 0) (4 * (slen s * lenN mids / 4)) s0
  = (s0, Ok (mkChain IFat mids (0 + 4 * (slen s * lenN mids / 4)), chain_content s mids)).
Proof.
  intros s s0 mids Hi Hn Hv Hg.
  pose proof (good_chain_img s s0 mids Hi Hn Hv Hg) as Hg0.
  assert (Hsl : slen s0 = slen s) by (unfold slen; rewrite Hv; reflexivity).
  assert (Hc : chain_content s0 mids = chain_content s mids).
  { unfold chain_content, sector_bytes. rewrite Hi. reflexivity. }
  rewrite <- Hsl, <- Hc. apply minifat_chain_read. exact Hg0.
Qed.

Theorem u32s_minifat : forall s mids,
  good_chain s mids -> 4 * lenN (minifat s) <= slen s * lenN mids ->
  (forall i v, nthN (minifat s) i = Some v ->
     le_val (takeN 4 (dropN (4 * i) (chain_content s mids))) = v) ->
  (forall i, lenN (minifat s) <= i -> 4 * i + 4 <= slen s * lenN mids ->
     le_val (takeN 4 (dropN (4 * i) (chain_content s mids))) = FREE_SECTOR) ->
  u32s (chain_content s mids)
  = minifat s ++ repeatN FREE_SECTOR (slen s * lenN mids / 4 - lenN (minifat s)).
Proof.
  intros s mids Hg Hcap Hcell Htail.
  pose proof (good_chain_len _ _ Hg) as L.
  apply StrictProofs.list_ext. intro i.
  destruct (N.lt_ge_cases i (lenN (minifat s))) as [Hi|Hi].
  - rewrite ReuseProofs.nthN_app_l by exact Hi.
    destruct (WalkProofs.nthN_lt_Some (minifat s) i Hi) as [v Hv].
    rewrite CoherenceProofs.u32s_nth by (unfold byte in *; lia).
    rewrite Hv, (Hcell i v Hv). reflexivity.
  - rewrite ReuseProofs.nthN_app_r by exact Hi.
    destruct (N.le_gt_cases (4 * i + 4) (slen s * lenN mids)) as [Hin|Hout].
    + rewrite CoherenceProofs.u32s_nth by (unfold byte in *; lia).
      rewrite (Htail i Hi Hin). symmetry. apply nthN_repeatN. lia.
    + rewrite !StrictProofs.nthN_none; [reflexivity| |].
      * rewrite CodecProofs.lenN_repeatN. lia.
      * rewrite OpenTotal.lenN_u32s. unfold byte in *. rewrite L. lia.
Qed.

(* ================================================================== *)
(* B, step 8: MiniAllocator::validate changes nothing                  *)
(* ================================================================== *)

Theorem mini_validate_id : forall strict rl mf,
  lenN mf <= rl / MINI_SECTOR_LEN ->
  check_pointees true mf (lenN mf) [] = Ok tt ->
  mini_validate strict rl mf = Ok (mf, free_indices mf 0).
Proof.
  intros strict rl mf Hl Hc. unfold mini_validate. cbv zeta.
  replace (rl / MINI_SECTOR_LEN <? lenN mf) with false by lia.
  cbn [rbind]. rewrite Hc. reflexivity.
Qed.

(* ================================================================== *)
(* open_model, stage by stage (strict mode, no DIFAT sectors)          *)
(* ================================================================== *)

Lemma rd_eq : forall im sl ns l,
  (fix rd (l : list N) : res (list N) :=
            match l with
            | [] => Ok []
            | sid :: t =>
              if ns <=? sid then Err EInvalidData else
              rbind (read_sector_u32s im sl sid (sl / 4)) (fun cells =>
              rbind (rd t) (fun r => Ok (cells ++ r)))
            end) l = CoherenceProofs.read_fat_cells im sl ns l.
Proof.
  intros im sl ns l. induction l as [|sid t IH]; [reflexivity|].
  cbn [CoherenceProofs.read_fat_cells]. rewrite <- IH. reflexivity.
Qed.

Lemma open_compose : forall bytes h ns im difat2 fat0 fat3 ds mids c' s0' mbytes root rest mf mfr,
  (lenN bytes <? HEADER_LEN) = false ->
  header_decode true (takeN HEADER_LEN bytes) = Ok h ->
  ((MAX_REGULAR_SECTOR + 1) * sector_len (h_ver h) <? lenN bytes) = false ->
  (lenN bytes <? sector_len (h_ver h)) = false ->
  (lenN bytes + sector_len (h_ver h) - 1) / sector_len (h_ver h) - 1 = ns ->
  chunks (sector_len (h_ver h)) bytes = im ->
  h_first_difat h = END_OF_CHAIN ->
  h_num_difat h = 0 ->
  strip_last_while (fun x => x =? FREE_SECTOR) 0 (h_difat h) = difat2 ->
  h_num_fat h = lenN difat2 ->
  CoherenceProofs.read_fat_cells im (sector_len (h_ver h)) ns difat2 = Ok fat0 ->
  strip_last_while (fun x => x =? FREE_SECTOR) ns fat0 ++
    repeatN FREE_SECTOR (ns - lenN (strip_last_while (fun x => x =? FREE_SECTOR) ns fat0)) = fat3 ->
  alloc_validate true ns [] difat2 fat3 = Ok (fat3, free_indices fat3 0) ->
  dir_loop (S (S (N.to_nat ns))) true (h_ver h) (h_num_dir h) im ns fat3 (h_first_dir h) 1 [] []
    = Ok ds ->
  dir_validate true ds = Ok tt ->
  chain_ids_of fat3 (h_first_minifat h) = Ok mids ->
  h_num_minifat h = lenN mids ->
  chain_read_exact (mkChain IFat mids 0) (4 * (sector_len (h_ver h) * lenN mids / 4))
    (mkState (h_ver h) im ns [] difat2 fat3 (free_indices fat3 0) ds (h_first_dir h) []
             (h_first_minifat h) [])
    = (s0', Ok (c', mbytes)) ->
  ds = root :: rest ->
  mini_validate true (d_len root) (strip_last_while (fun x => x =? FREE_SECTOR) 0 (u32s mbytes))
    = Ok (mf, mfr) ->
  open_model true bytes =
  Ok (mkState (h_ver h) im ns [] difat2 fat3 (free_indices fat3 0) ds (h_first_dir h) mf
              (h_first_minifat h) mfr).
Proof.
  intros bytes h ns im difat2 fat0 fat3 ds mids c' s0' mbytes root rest mf mfr
         H1 H2 H3 H4 Hns Him H5 H6 Hd2 H7 H8 Hf3 H9 H10 H11 H12 H13 H14 H15 H16.
  unfold open_model. cbv zeta.
  rewrite H1, H2. cbn [rbind].
  rewrite H3, H4, Hns, Him.
  rewrite H5, difat_loop_eoc. cbn [rbind].
  rewrite H6. cbn [lenN]. change (0 =? 0) with true. cbn [andb negb].
  rewrite Hd2, H7, N.eqb_refl. cbn [andb negb].
  rewrite rd_eq, H8. cbn [rbind].
  rewrite Hf3, H9. cbn [rbind].
  rewrite H10. cbn [rbind]. rewrite H11. cbn [rbind].
  match goal with |- context [run (chain_new _ _) ?S] => set (s0 := S) in * end.
  unfold run at 1.
  rewrite (ReuseProofs.chain_new_exec s0 (h_first_minifat h) IFat mids H12).
  cbn [rbind]. cbv beta iota. cbn [c_ids]. rewrite H13, N.eqb_refl. cbn [negb].
  unfold chain_len. cbn [c_ids]. unfold run. rewrite H14. cbn [rbind]. cbv beta iota.
  rewrite H15. rewrite H16. cbn [rbind]. reflexivity.
Qed.

(* ================================================================== *)
(* B1: the reopen round trip                                           *)
(* ================================================================== *)

(* Everything the cached state must satisfy for the bytes alone to reopen to
   it.  Regime: no DIFAT sectors (at most 109 FAT sectors). *)
Record Coherent (s : cstate) : Prop := mkCoherent {
  ch_hdr : HeaderCoherent s;
  ch_fat : CoherenceProofs.FatInv s;
  ch_difat_ok : CoherenceProofs.DifatOk s;
  ch_ids : difat_ids s = [];
  ch_ndifat : lenN (difat s) <= NUM_DIFAT_HDR;
  ch_nsect : nsect s <= MAX_REGULAR_SECTOR;
  ch_uniform : uniform (slen s) (img s);
  ch_fat_tail : FatTailFree s;
  ch_marks : forall f, In f (difat s) -> nthN (fat s) f = Some FAT_SECTOR;
  ch_fat_valid : check_pointees false (fat s) (lenN (fat s)) [] = Ok tt;
  ch_dir : DirCoherence.DirCoherent s;
  ch_dir_wf : forall e, In e (dirs s) -> CodecProofs.dirent_wf (ver s) e;
  ch_dir_valid : dir_validate true (dirs s) = Ok tt;
  ch_mini : DirCoherence.MiniFatCoherent s;
  ch_mini_tail : MiniTailFree s;
  ch_mini_last : lastN (minifat s) <> Some FREE_SECTOR;
  ch_mini_fits : forall root, nthN (dirs s) 0 = Some root ->
                 lenN (minifat s) <= d_len root / MINI_SECTOR_LEN;
  ch_mini_valid : check_pointees true (minifat s) (lenN (minifat s)) [] = Ok tt
}.

(* number of blank slots that follow the cached table in the last directory sector *)
Definition dir_blanks (s : cstate) : N :=
  dir_per_sector (ver s) * chain_count (fat s) (dir_start s) - lenN (dirs s).

(* what open_model returns on the bytes of a coherent state *)
Definition reopened (s : cstate) : cstate :=
  mkState (ver s) (img s) (nsect s) [] (difat s) (fat s) (free_indices (fat s) 0)
          (dirs s ++ repeatN dirent_unallocated (dir_blanks s)) (dir_start s)
          (minifat s) (minifat_start s) (free_indices (minifat s) 0).

Lemma fat_capacity : forall s, CoherenceProofs.FatInv s ->
  lenN (fat s) <= fat_per_sector s * lenN (difat s) /\
  fat_per_sector s * lenN (difat s) - lenN (fat s) < fat_per_sector s.
Proof.
  intros s [_ _ _ Ht]. rewrite Ht.
  destruct (ReuseProofs.fps_cases s) as [[_ E]|[_ E]]; rewrite E; lia.
Qed.

Theorem reopen_strict : forall s, Coherent s ->
  open_model true (Cfb.concat_img (img s)) = Ok (reopened s).
Proof.
  intros s [Hhdr Hfat Hdok Hids Hnd Hns Huni Hftail Hmarks Hfval Hdir Hdwf Hdval
              Hmini Hmtail Hmlast Hmfits Hmval].
  pose proof (fat_capacity s Hfat) as [Hcap Hcap2].
  pose proof Hfat as [[Himg Hfull Hcoh Hnodup Hlt] Hlen Hpos Htight].
  pose proof Hdir as (dids & Hdids & Hgd & Hdcap & _).
  pose proof Hmini as (mids & Hmids & Hgm & Hmcap & Hmcell).
  unfold DirCoherence.dir_ids in Hdids. unfold DirCoherence.minifat_ids in Hmids.
  destruct (good_chain_count s _ _ Hgd Hdids) as (Hcd & Hld & Hsd).
  destruct (good_chain_count s _ _ Hgm Hmids) as (Hcm & Hlm & Hsm).
  pose proof (ReuseProofs.slen_cases s) as Hsl.
  markers.
  (* the root entry *)
  destruct (dirs s) as [|root dt] eqn:Edirs; [discriminate Hdval|].
  rewrite <- Edirs in *.
  assert (Hroot : nthN (dirs s) 0 = Some root) by (rewrite Edirs; reflexivity).
  assert (Hdpos : 0 < lenN (dirs s)) by (rewrite Edirs; cbn [lenN]; lia).
  assert (Hdstart : dir_start s <= MAX_REGULAR_SECTOR).
  { destruct Hsd as [[E _]|[_ Hs]]; [|lia].
    rewrite E in Hdcap. cbn [lenN] in Hdcap. unfold DIR_ENTRY_LEN in Hdcap. lia. }
  (* header *)
  assert (Hwf : CodecProofs.header_wf (header_of s)).
  { apply header_wf_of; try assumption; lia. }
  assert (Hh0 : lenN (hd [] (img s)) = slen s).
  { destruct (img s) as [|h0 r]; [cbn [lenN] in Himg; lia|].
    apply Forall_inv in Huni. exact Huni. }
  set (bytes := concat (img s)).
  assert (Hbl : lenN bytes = slen s * (nsect s + 1)).
  { unfold bytes. rewrite (lenN_concat_uniform _ _ Huni), Himg. reflexivity. }
  assert (Hdec : header_decode true (takeN HEADER_LEN bytes) = Ok (header_of s)).
  { apply reopen_header; [exact Hhdr|exact Hwf|]. unfold byte in *. rewrite Hh0.
    unfold HEADER_LEN. destruct Hsl as [E|E]; rewrite E; lia. }
  assert (Hreg : Forall (fun f => f <= MAX_REGULAR_SECTOR) (difat s)).
  { rewrite Forall_forall. intros f Hf. specialize (Hlt f Hf). lia. }
  (* FAT *)
  assert (Hall : forall f, In f (difat s) -> f < nsect s /\ lenN (sector_bytes s f) = slen s).
  { intros f Hf. split; [apply Hlt; exact Hf|apply Hfull, Hlt; exact Hf]. }
  pose proof (reopen_fat_cells s Hcoh Hall Hftail Hcap) as Hrd.
  assert (Hstrip : strip_last_while (fun x => x =? FREE_SECTOR) (nsect s)
                     (fat s ++ repeatN FREE_SECTOR (fat_per_sector s * lenN (difat s) - lenN (fat s)))
                   = fat s).
  { rewrite strip_app_repeat by (try apply N.eqb_refl; lia).
    apply StrictProofs.strip_short. lia. }
  (* directory *)
  destruct (DirCoherence.dir_loop_reads_back s true (h_num_dir (header_of s)) Hdir Hdwf Hdstart)
    as (dids' & Hdids' & Hloop).
  { intros dd Hdd Hv4. unfold DirCoherence.dir_ids in Hdd.
    unfold header_of. cbn [h_num_dir]. destruct (ver s); [discriminate Hv4|].
    unfold chain_count. rewrite Hdd. lia. }
  unfold DirCoherence.dir_ids in Hdids'. rewrite Hdids in Hdids'. injection Hdids' as <-.
  rewrite <- Hcd in Hloop. fold (dir_blanks s) in Hloop.
  (* assemble *)
  unfold Cfb.concat_img. fold bytes. unfold reopened.
  eapply (open_compose bytes (header_of s) (nsect s) (img s) (difat s) _ (fat s) _ mids).
  - unfold HEADER_LEN. rewrite Hbl. destruct Hsl as [E|E]; rewrite E; lia.
  - exact Hdec.
  - change (sector_len (h_ver (header_of s))) with (slen s). rewrite Hbl. nia.
  - change (sector_len (h_ver (header_of s))) with (slen s). rewrite Hbl. nia.
  - change (sector_len (h_ver (header_of s))) with (slen s). rewrite Hbl.
    destruct Hsl as [E|E]; rewrite E; lia.
  - change (sector_len (h_ver (header_of s))) with (slen s).
    apply chunks_concat; [destruct Hsl as [E|E]; rewrite E; lia|exact Huni].
  - unfold header_of. cbn [h_first_difat]. rewrite Hids. reflexivity.
  - unfold header_of. cbn [h_num_difat]. rewrite Hids. reflexivity.
  - change (h_difat (header_of s)) with (hdr_difat_of (difat s)).
    apply strip_hdr_difat; assumption.
  - reflexivity.
  - exact Hrd.
  - rewrite Hstrip. replace (nsect s - lenN (fat s)) with 0 by lia.
    change (repeatN FREE_SECTOR 0) with (@nil N). apply app_nil_r.
  - apply alloc_validate_id; [lia|exact Hmarks|exact Hfval].
  - exact Hloop.
  - apply dir_validate_app. exact Hdval.
  - exact Hmids.
  - change (h_num_minifat (header_of s)) with (chain_count (fat s) (minifat_start s)). exact Hcm.
  - change (sector_len (h_ver (header_of s))) with (slen s).
    match goal with |- chain_read_exact _ _ ?S0 = _ =>
      apply (minifat_chain_read_ext s S0 mids eq_refl eq_refl eq_refl Hgm) end.
  - rewrite Edirs. reflexivity.
  - rewrite (u32s_minifat s mids Hgm Hmcap Hmcell (Hmtail mids Hmids)).
    rewrite strip_app_repeat by (try apply N.eqb_refl; lia).
    rewrite strip_keep.
    + apply mini_validate_id; [apply Hmfits; exact Hroot|exact Hmval].
    + intros x Hx. destruct (N.eqb_spec x FREE_SECTOR) as [->|]; [contradiction|reflexivity].
Qed.

(* both validation modes, with the tables spelled out *)
Theorem reopen_both_modes : forall s, Coherent s -> forall strict,
  open_model strict (Cfb.concat_img (img s)) = Ok (reopened s).
Proof.
  intros s C [|]; [apply reopen_strict; exact C|].
  apply StrictProofs.strict_implies_permissive, reopen_strict. exact C.
Qed.

Theorem reopen_same_tables : forall s, Coherent s -> forall strict,
  exists s', open_model strict (Cfb.concat_img (img s)) = Ok s' /\
    ver s' = ver s /\ img s' = img s /\ nsect s' = nsect s /\
    difat s' = difat s /\ difat_ids s' = [] /\ fat s' = fat s /\
    dirs s' = dirs s ++ repeatN dirent_unallocated (dir_blanks s) /\
    dir_start s' = dir_start s /\
    minifat s' = minifat s /\ minifat_start s' = minifat_start s /\
    free s' = free_indices (fat s) 0 /\ mfree s' = free_indices (minifat s) 0.
Proof.
  intros s C strict. exists (reopened s). split; [apply reopen_both_modes; exact C|].
  unfold reopened. cbn [ver img nsect difat difat_ids fat dirs dir_start minifat minifat_start free mfree].
  repeat split.
Qed.

(* ================================================================== *)
(* a decision procedure for Coherent (for the examples)                *)
(* ================================================================== *)

Definition is_ok_tt (r : res unit) : bool := match r with Ok _ => true | _ => false end.
Lemma is_ok_tt_sound : forall r, is_ok_tt r = true -> r = Ok tt.
Proof. intros [[]| | |] H; try discriminate H. reflexivity. Qed.

Definition scalar_b (c : N) : bool := (c <? 55296) || ((57344 <=? c) && (c <? 1114112)).
Definition link_ok_b (x : N) : bool := (x =? NO_STREAM) || (x <=? MAX_REGULAR_STREAM_ID).

Definition dirent_wf_b (v : version) (e : dirent) : bool :=
  forallb scalar_b (d_name e) &&
  (if objtype_eqb (d_type e) TRoot then list_eqb N.eqb (d_name e) ROOT_DIR_NAME
   else is_ok (validate_name (d_name e))) &&
  link_ok_b (d_left e) && link_ok_b (d_right e) && link_ok_b (d_child e) &&
  (d_clsid e <? 2 ^ 128) && (d_state e <=? u32_max) &&
  (d_ctime e <=? u64_max) && (d_mtime e <=? u64_max) &&
  (d_start e <=? u32_max) && (d_len e <=? stream_len_mask v) &&
  (if objtype_eqb (d_type e) TStream
   then (d_child e =? NO_STREAM) && (d_clsid e =? 0) && (d_ctime e =? 0) && (d_mtime e =? 0)
   else true) &&
  (if objtype_eqb (d_type e) TStorage then (d_start e =? 0) && (d_len e =? 0) else true).

Ltac split_andb :=
  repeat match goal with
         | H : _ && _ = true |- _ => apply andb_true_iff in H; destruct H
         end.

Lemma link_ok_b_sound : forall x, link_ok_b x = true -> CodecProofs.link_ok x.
Proof.
  intros x H. unfold link_ok_b in H. apply orb_true_iff in H.
  destruct H as [H|H]; [left; apply N.eqb_eq; exact H|right; apply N.leb_le; exact H].
Qed.

Lemma dirent_wf_b_sound : forall v e, dirent_wf_b v e = true -> CodecProofs.dirent_wf v e.
Proof.
  intros v e H. unfold dirent_wf_b in H. split_andb.
  constructor.
  - rewrite Forall_forall. intros c Hc.
    match goal with H : forallb scalar_b _ = true |- _ =>
      rewrite forallb_forall in H; specialize (H c Hc); unfold scalar_b in H end.
    unfold CodecProofs.scalar. lia.
  - destruct (objtype_eqb (d_type e) TRoot).
    + apply DirCoherence.list_eqb_N_eq. assumption.
    + destruct (validate_name (d_name e)) as [u| | |]; try discriminate. exists u. reflexivity.
  - apply link_ok_b_sound; assumption.
  - apply link_ok_b_sound; assumption.
  - apply link_ok_b_sound; assumption.
  - apply N.ltb_lt; assumption.
  - apply N.leb_le; assumption.
  - apply N.leb_le; assumption.
  - apply N.leb_le; assumption.
  - apply N.leb_le; assumption.
  - apply N.leb_le; assumption.
  - intros Ht. rewrite Ht in *. cbn [objtype_eqb] in *. split_andb.
    repeat split; apply N.eqb_eq; assumption.
  - intros Ht. rewrite Ht in *. cbn [objtype_eqb] in *. split_andb.
    repeat split; apply N.eqb_eq; assumption.
Qed.

Definition fat_tail_b (s : cstate) : bool :=
  forallb (fun i => (i <? lenN (fat s)) ||
     match nthN (difat s) (i / fat_per_sector s) with
     | Some f => le_val (takeN 4 (dropN (4 * (i mod fat_per_sector s)) (sector_bytes s f)))
                 =? FREE_SECTOR
     | None => false
     end) (ReuseProofs.rangeN (fat_per_sector s * lenN (difat s))).

Lemma fat_tail_b_sound : forall s, fat_tail_b s = true -> FatTailFree s.
Proof.
  intros s H k f m Hk Hm Hge. unfold fat_tail_b in H. rewrite forallb_forall in H.
  pose proof (nthN_Some_lt _ _ _ _ Hk) as Hkl.
  assert (Hin : In (k * fat_per_sector s + m)
                   (ReuseProofs.rangeN (fat_per_sector s * lenN (difat s))))
    by (apply ReuseProofs.In_rangeN; nia).
  specialize (H _ Hin). cbv beta in H.
  pose proof (ReuseProofs.fps_pos s) as Hp.
  assert (E1 : (k * fat_per_sector s + m) / fat_per_sector s = k)
    by (rewrite N.div_add_l by lia; rewrite N.div_small by lia; lia).
  assert (E2 : (k * fat_per_sector s + m) mod fat_per_sector s = m)
    by (rewrite N.add_comm, N.mod_add by lia; apply N.mod_small; lia).
  rewrite E1, E2, Hk in H. apply orb_true_iff in H. destruct H as [H|H]; [lia|].
  apply N.eqb_eq. exact H.
Qed.

(* MiniFatCoherent and MiniTailFree in one pass over the cells of the chain *)
Definition minifat_b (s : cstate) : bool :=
  match chain_ids_of (fat s) (minifat_start s) with
  | Ok mids =>
    DirCoherence.good_chain_b s mids && (4 * lenN (minifat s) <=? slen s * lenN mids) &&
    forallb (fun i => le_val (takeN 4 (dropN (4 * i) (chain_content s mids)))
                      =? match nthN (minifat s) i with Some v => v | None => FREE_SECTOR end)
            (ReuseProofs.rangeN (slen s * lenN mids / 4))
  | _ => false
  end.

Lemma minifat_b_sound : forall s, minifat_b s = true ->
  DirCoherence.MiniFatCoherent s /\ MiniTailFree s.
Proof.
  intros s H. unfold minifat_b in H.
  destruct (chain_ids_of (fat s) (minifat_start s)) as [mids| | |] eqn:E; try discriminate H.
  split_andb.
  match goal with H : forallb _ _ = true |- _ => rename H into Hall end.
  rewrite forallb_forall in Hall.
  match goal with H : (_ <=? _) = true |- _ => apply N.leb_le in H; rename H into Hcap end.
  split.
  - exists mids. split; [exact E|]. split; [apply DirCoherence.good_chain_b_sound; assumption|].
    split; [exact Hcap|]. intros i v Hv. pose proof (nthN_Some_lt _ _ _ _ Hv) as Hi.
    assert (Hin : In i (ReuseProofs.rangeN (slen s * lenN mids / 4)))
      by (apply ReuseProofs.In_rangeN; lia).
    specialize (Hall i Hin). cbv beta in Hall. rewrite Hv in Hall. apply N.eqb_eq. exact Hall.
  - intros mids' Hm i Hi Hfit. unfold DirCoherence.minifat_ids in Hm.
    rewrite E in Hm. injection Hm as <-.
    assert (Hin : In i (ReuseProofs.rangeN (slen s * lenN mids / 4)))
      by (apply ReuseProofs.In_rangeN; lia).
    specialize (Hall i Hin). cbv beta in Hall.
    rewrite (StrictProofs.nthN_none _ _ Hi) in Hall. apply N.eqb_eq. exact Hall.
Qed.

Definition coherent_b (s : cstate) : bool :=
  list_eqb N.eqb (takeN HEADER_LEN (hd [] (img s))) (header_encode (header_of s)) &&
  ReuseProofs.alloc_wf_b s && CoherenceProofs.coherent_b s &&
  DirCoherence.nodup_b (difat s) && forallb (fun f => f <? nsect s) (difat s) &&
  (lenN (fat s) =? nsect s) && (0 <? nsect s) &&
  (lenN (difat s) =? (lenN (fat s) + fat_per_sector s - 1) / fat_per_sector s) &&
  (match difat_ids s with [] => true | _ => false end) &&
  (lenN (difat s) <=? NUM_DIFAT_HDR) && (nsect s <=? MAX_REGULAR_SECTOR) &&
  forallb (fun sec => lenN sec =? slen s) (img s) &&
  fat_tail_b s &&
  forallb (fun f => match nthN (fat s) f with Some v => v =? FAT_SECTOR | None => false end)
          (difat s) &&
  is_ok_tt (check_pointees false (fat s) (lenN (fat s)) []) &&
  DirCoherence.dir_coherent_b s && forallb (dirent_wf_b (ver s)) (dirs s) &&
  is_ok_tt (dir_validate true (dirs s)) &&
  minifat_b s &&
  negb (match lastN (minifat s) with Some x => x =? FREE_SECTOR | None => false end) &&
  (match dirs s with root :: _ => lenN (minifat s) <=? d_len root / MINI_SECTOR_LEN | [] => true end) &&
  is_ok_tt (check_pointees true (minifat s) (lenN (minifat s)) []).

Theorem coherent_b_sound : forall s, coherent_b s = true -> Coherent s.
Proof.
  intros s H. unfold coherent_b in H.
  repeat (apply andb_true_iff in H; let H' := fresh "C" in destruct H as [H H']).
  rename H into Hh.
  assert (Hids : difat_ids s = []) by (destruct (difat_ids s); [reflexivity|discriminate]).
  pose proof (ReuseProofs.alloc_wf_b_sound s C19) as [Wimg Wfull _ _].
  destruct (minifat_b_sound s C2) as [Hm1 Hm2].
  constructor.
  - apply DirCoherence.list_eqb_N_eq. exact Hh.
  - constructor; [constructor|..].
    + exact Wimg.
    + exact Wfull.
    + apply CoherenceProofs.coherent_b_sound. exact C18.
    + apply DirCoherence.nodup_b_sound. exact C17.
    + intros f Hf. rewrite forallb_forall in C16. apply N.ltb_lt. apply C16. exact Hf.
    + apply N.eqb_eq. exact C15.
    + apply N.ltb_lt. exact C14.
    + apply N.eqb_eq. exact C13.
  - intros d Hd. rewrite Hids in Hd. destruct Hd.
  - exact Hids.
  - apply N.leb_le. exact C11.
  - apply N.leb_le. exact C10.
  - unfold uniform. rewrite Forall_forall. intros sec Hsec. rewrite forallb_forall in C9.
    apply N.eqb_eq. apply C9. exact Hsec.
  - apply fat_tail_b_sound. exact C8.
  - intros f Hf. rewrite forallb_forall in C7. specialize (C7 f Hf).
    destruct (nthN (fat s) f) as [v|]; [|discriminate C7].
    apply N.eqb_eq in C7. rewrite C7. reflexivity.
  - apply is_ok_tt_sound. exact C6.
  - apply DirCoherence.dir_coherent_b_sound. exact C5.
  - intros e He. rewrite forallb_forall in C4. apply dirent_wf_b_sound. apply C4. exact He.
  - apply is_ok_tt_sound. exact C3.
  - exact Hm1.
  - exact Hm2.
  - intro Hl. rewrite Hl in C1. destruct (N.eqb_spec FREE_SECTOR FREE_SECTOR); [discriminate C1|congruence].
  - intros root Hr. destruct (dirs s) as [|r t]; [discriminate Hr|].
    cbn [nthN N.eqb] in Hr. injection Hr as <-. apply N.leb_le. exact C0.
  - apply is_ok_tt_sound. exact C.
Qed.

(* ================================================================== *)
(* Part A: the header is written through                               *)
(* ================================================================== *)

(* the header bytes of the image currently encode [h] *)
Definition HdrBytes (s : cstate) (h : header) : Prop :=
  takeN HEADER_LEN (hd [] (img s)) = header_encode h.

Lemma HeaderCoherent_HdrBytes : forall s, HeaderCoherent s <-> HdrBytes s (header_of s).
Proof. intro s. split; exact (fun H => H). Qed.

(* ---- A2: the layout of header_encode, field by field ---- *)

Definition h_set_num_dir (h : header) (v : N) : header :=
  mkHeader (h_ver h) v (h_num_fat h) (h_first_dir h) (h_first_minifat h) (h_num_minifat h)
           (h_first_difat h) (h_num_difat h) (h_difat h).
Definition h_set_num_fat (h : header) (v : N) : header :=
  mkHeader (h_ver h) (h_num_dir h) v (h_first_dir h) (h_first_minifat h) (h_num_minifat h)
           (h_first_difat h) (h_num_difat h) (h_difat h).
Definition h_set_first_minifat (h : header) (v : N) : header :=
  mkHeader (h_ver h) (h_num_dir h) (h_num_fat h) (h_first_dir h) v (h_num_minifat h)
           (h_first_difat h) (h_num_difat h) (h_difat h).
Definition h_set_num_minifat (h : header) (v : N) : header :=
  mkHeader (h_ver h) (h_num_dir h) (h_num_fat h) (h_first_dir h) (h_first_minifat h) v
           (h_first_difat h) (h_num_difat h) (h_difat h).
Definition h_set_first_difat (h : header) (v : N) : header :=
  mkHeader (h_ver h) (h_num_dir h) (h_num_fat h) (h_first_dir h) (h_first_minifat h)
           (h_num_minifat h) v (h_num_difat h) (h_difat h).
Definition h_set_num_difat (h : header) (v : N) : header :=
  mkHeader (h_ver h) (h_num_dir h) (h_num_fat h) (h_first_dir h) (h_first_minifat h)
           (h_num_minifat h) (h_first_difat h) v (h_difat h).
Definition h_set_difat_entry (h : header) (i v : N) : header :=
  mkHeader (h_ver h) (h_num_dir h) (h_num_fat h) (h_first_dir h) (h_first_minifat h)
           (h_num_minifat h) (h_first_difat h) (h_num_difat h) (updN (h_difat h) i v).

Lemma splice_skip : forall (a rest : list byte) off b n,
  lenN a = n -> n <= off -> spliceN (a ++ rest) off b = a ++ spliceN rest (off - n) b.
Proof. intros a rest off b n <- H. apply spliceN_app_ge. exact H. Qed.

Lemma splice_here : forall (old new rest : list byte) off,
  off = 0 -> lenN old = lenN new -> spliceN (old ++ rest) off new = new ++ rest.
Proof.
  intros old new rest off -> H.
  exact (DirCoherence.splice_seg [] old new rest 0 eq_refl H).
Qed.

Lemma splice_last : forall (old new : list byte) off,
  off = 0 -> lenN old = lenN new -> spliceN old off new = new.
Proof. intros old new off -> H. apply DirCoherence.splice_whole. exact H. Qed.

Ltac skip n := rewrite (splice_skip _ _ _ _ n) by first [reflexivity | lia].
Ltac hdr_fields :=
  cbn [h_ver h_num_dir h_num_fat h_first_dir h_first_minifat h_num_minifat
       h_first_difat h_num_difat h_difat].
(* the 34 bytes before the first variable field *)
Ltac skip34 := skip 8; skip 16; skip 2; skip 2; skip 2; skip 2; skip 2.

Theorem header_splice_num_dir : forall h v,
  spliceN (header_encode h) HDR_OFF_NUM_DIR (le_bytes 4 v) = header_encode (h_set_num_dir h v).
Proof.
  intros h v. unfold header_encode, h_set_num_dir, HDR_OFF_NUM_DIR. hdr_fields.
  skip34. skip 6.
  rewrite splice_here by reflexivity. reflexivity.
Qed.

Theorem header_splice_num_fat : forall h v,
  spliceN (header_encode h) HDR_OFF_NUM_FAT (le_bytes 4 v) = header_encode (h_set_num_fat h v).
Proof.
  intros h v. unfold header_encode, h_set_num_fat, HDR_OFF_NUM_FAT. hdr_fields.
  skip34. skip 6. skip 4.
  rewrite splice_here by reflexivity. reflexivity.
Qed.

Theorem header_splice_first_minifat : forall h v,
  spliceN (header_encode h) HDR_OFF_FIRST_MINIFAT (le_bytes 4 v)
  = header_encode (h_set_first_minifat h v).
Proof.
  intros h v. unfold header_encode, h_set_first_minifat, HDR_OFF_FIRST_MINIFAT. hdr_fields.
  skip34. skip 6. skip 4. skip 4. skip 4. skip 4. skip 4.
  rewrite splice_here by reflexivity. reflexivity.
Qed.

Theorem header_splice_num_minifat : forall h v,
  spliceN (header_encode h) HDR_OFF_NUM_MINIFAT (le_bytes 4 v)
  = header_encode (h_set_num_minifat h v).
Proof.
  intros h v. unfold header_encode, h_set_num_minifat, HDR_OFF_NUM_MINIFAT. hdr_fields.
  skip34. skip 6. skip 4. skip 4. skip 4. skip 4. skip 4. skip 4.
  rewrite splice_here by reflexivity. reflexivity.
Qed.

(* the 8-byte write of allocate_mini_sector: first MiniFAT sector and count *)
Theorem header_splice_minifat_pair : forall h a b,
  spliceN (header_encode h) HDR_OFF_FIRST_MINIFAT (le_bytes 4 a ++ le_bytes 4 b)
  = header_encode (h_set_num_minifat (h_set_first_minifat h a) b).
Proof.
  intros h a b.
  unfold header_encode, h_set_num_minifat, h_set_first_minifat, HDR_OFF_FIRST_MINIFAT. hdr_fields.
  skip34. skip 6. skip 4. skip 4. skip 4. skip 4. skip 4.
  rewrite (app_assoc (le_bytes 4 (h_first_minifat h)) (le_bytes 4 (h_num_minifat h))).
  rewrite splice_here by reflexivity. rewrite <- app_assoc. reflexivity.
Qed.

Theorem header_splice_first_difat : forall h v,
  spliceN (header_encode h) HDR_OFF_FIRST_DIFAT (le_bytes 4 v)
  = header_encode (h_set_first_difat h v).
Proof.
  intros h v. unfold header_encode, h_set_first_difat, HDR_OFF_FIRST_DIFAT. hdr_fields.
  skip34. skip 6. skip 4. skip 4. skip 4. skip 4. skip 4. skip 4. skip 4.
  rewrite splice_here by reflexivity. reflexivity.
Qed.

(* the 8-byte write of append_fat_sector: first DIFAT sector and count *)
Theorem header_splice_difat_pair : forall h a b,
  spliceN (header_encode h) HDR_OFF_FIRST_DIFAT (le_bytes 4 a ++ le_bytes 4 b)
  = header_encode (h_set_num_difat (h_set_first_difat h a) b).
Proof.
  intros h a b.
  unfold header_encode, h_set_num_difat, h_set_first_difat, HDR_OFF_FIRST_DIFAT. hdr_fields.
  skip34. skip 6. skip 4. skip 4. skip 4. skip 4. skip 4. skip 4. skip 4.
  rewrite (app_assoc (le_bytes 4 (h_first_difat h)) (le_bytes 4 (h_num_difat h))).
  rewrite splice_here by reflexivity. rewrite <- app_assoc. reflexivity.
Qed.

Lemma flat_map_splice : forall l i v, i < lenN l ->
  spliceN (flat_map (le_bytes 4) l) (4 * i) (le_bytes 4 v) = flat_map (le_bytes 4) (updN l i v).
Proof.
  induction l as [|x t IH]; intros i v Hi; [cbn [lenN] in Hi; lia|].
  cbn [flat_map updN]. destruct (N.eqb_spec i 0) as [->|Hne].
  - cbn [flat_map]. apply splice_here; reflexivity.
  - skip 4. cbn [flat_map]. f_equal.
    replace (4 * i - 4) with (4 * N.pred i) by lia. apply IH. cbn [lenN] in Hi. lia.
Qed.

Theorem header_splice_difat_entry : forall h i v, i < lenN (h_difat h) ->
  spliceN (header_encode h) (HDR_OFF_DIFAT_ARRAY + 4 * i) (le_bytes 4 v)
  = header_encode (h_set_difat_entry h i v).
Proof.
  intros h i v Hi. unfold header_encode, h_set_difat_entry, HDR_OFF_DIFAT_ARRAY. hdr_fields.
  skip34. skip 6. skip 4. skip 4. skip 4. skip 4. skip 4. skip 4. skip 4. skip 4. skip 4.
  match goal with |- context [spliceN _ ?o _] => replace o with (4 * i) by lia end.
  rewrite flat_map_splice by exact Hi. reflexivity.
Qed.

(* ---- the header write and the sector write on the image ---- *)

Theorem header_write_bytes : forall s off bs s' h h',
  HdrBytes s h -> img s <> [] -> HEADER_LEN <= lenN (hd [] (img s)) ->
  off + lenN bs <= HEADER_LEN ->
  header_write off bs s = (s', Ok tt) ->
  spliceN (header_encode h) off bs = header_encode h' ->
  HdrBytes s' h' /\ s' = w_img s (img s') /\
  lenN (hd [] (img s')) = lenN (hd [] (img s)) /\ lenN (img s') = lenN (img s).
Proof.
  intros s off bs s' h h' Hb Hne Hlen Hfit H Hsp. unfold header_write, panic, modify in H.
  destruct (HEADER_LEN <=? off); [discriminate H|]. injection H as <-.
  unfold HdrBytes in *. cbn [img w_img].
  destruct (img s) as [|h0 t] eqn:Ei; [contradiction|]. cbn [hd] in *.
  unfold img_write. cbn [nthN N.eqb updN hd tl].
  split; [|split; [reflexivity|split; [|reflexivity]]].
  - rewrite StrictProofs.takeN_splice_comm by (unfold byte in *; lia).
    unfold byte in *. rewrite Hb. exact Hsp.
  - rewrite lenN_spliceN. unfold byte in *. lia.
Qed.

(* a sector write never touches image element 0 (sid + 1 <> 0) nor any cached
   table: the frame lemma for every operation that writes no header field *)
Theorem sector_write_frame : forall s sid off bs s' r,
  lenN (img s) = nsect s + 1 ->
  sector_write sid off bs s = (s', r) ->
  hd [] (img s') = hd [] (img s) /\ s' = w_img s (img s') /\ lenN (img s') = lenN (img s).
Proof.
  intros s sid off bs s' r Hi H.
  unfold sector_write, seek_sector, bind, get, panic, fail, ret, modify in H.
  destruct (slen s <? off);
    [injection H as <- _; split; [reflexivity|split; [apply same_meta_refl|reflexivity]]|].
  destruct (nsect s <=? sid) eqn:E;
    [injection H as <- _; split; [reflexivity|split; [apply same_meta_refl|reflexivity]]|].
  injection H as <- _. cbn [img w_img].
  destruct (lenN (img s) <=? sid + 1) eqn:E2; [lia|].
  destruct (WalkProofs.nthN_lt_Some (img s) (sid + 1) ltac:(lia)) as [sec Hsec].
  unfold img_write. rewrite Hsec.
  split; [|split; [reflexivity|apply lenN_updN]].
  destruct (img s) as [|h0 t]; [reflexivity|]. cbn [updN].
  destruct (N.eqb_spec (sid + 1) 0); [lia|reflexivity].
Qed.

Lemma header_of_w_img : forall s im, header_of (w_img s im) = header_of s.
Proof. reflexivity. Qed.

Corollary sector_write_header_coherent : forall s sid off bs s' r,
  lenN (img s) = nsect s + 1 -> HeaderCoherent s ->
  sector_write sid off bs s = (s', r) -> HeaderCoherent s'.
Proof.
  intros s sid off bs s' r Hi Hc H.
  destruct (sector_write_frame s sid off bs s' r Hi H) as (Hh & Hm & _).
  unfold HeaderCoherent in *. rewrite Hh, Hm, header_of_w_img. exact Hc.
Qed.

(* A1 *)
Theorem create_state_header_coherent : forall v, HeaderCoherent (Cfb.create_state v).
Proof. intros [|]; vm_compute; reflexivity. Qed.

(* ---- A3: the operations that change a header field ---- *)

(* chain walks are not disturbed when the FAT grows *)
Lemma next_of_app : forall fat ext i x, next_of fat i = Ok x -> next_of (fat ++ ext) i = Ok x.
Proof.
  intros fat ext i x H. apply WalkProofs.next_of_Ok in H. destruct H as [Hn Hx].
  apply WalkProofs.next_of_Ok. split.
  - rewrite ReuseProofs.nthN_app_l by (eapply nthN_Some_lt; exact Hn). exact Hn.
  - rewrite CodecProofs.lenN_app. destruct Hx as [Hx|[H1 H2]]; [left; exact Hx|right; lia].
Qed.

Lemma path_app : forall fat ext c l, WalkProofs.path fat c l -> WalkProofs.path (fat ++ ext) c l.
Proof.
  intros fat ext c l Hp. induction Hp as [|cur nx l Hc Hn Hp IH]; [constructor|].
  econstructor; [exact Hc|apply next_of_app; exact Hn|exact IH].
Qed.

Lemma chain_ids_of_app : forall fat ext st ids,
  chain_ids_of fat st = Ok ids -> chain_ids_of (fat ++ ext) st = Ok ids.
Proof.
  intros fat ext st ids H. apply WalkProofs.chain_ids_path in H.
  apply WalkProofs.chain_ids_of_path; [apply path_app; exact H|].
  eapply ReuseProofs.path_nodup. exact H.
Qed.

Lemma chain_count_app : forall fat ext st ids,
  chain_ids_of fat st = Ok ids -> chain_count (fat ++ ext) st = chain_count fat st.
Proof.
  intros fat ext st ids H. unfold chain_count.
  rewrite (chain_ids_of_app fat ext st ids H), H. reflexivity.
Qed.

Lemma updN_app_r : forall A (a b : list A) i v, lenN a <= i ->
  updN (a ++ b) i v = a ++ updN b (i - lenN a) v.
Proof.
  intros A a. induction a as [|x t IH]; intros b i v H.
  - cbn [app lenN]. rewrite N.sub_0_r. reflexivity.
  - cbn [app updN lenN] in *. destruct (N.eqb_spec i 0); [lia|].
    f_equal. rewrite IH by lia. do 2 f_equal. lia.
Qed.

Lemma hdr_difat_of_snoc : forall d x, lenN d < NUM_DIFAT_HDR ->
  hdr_difat_of (d ++ [x]) = updN (hdr_difat_of d) (lenN d) x.
Proof.
  intros d x H.
  rewrite !hdr_difat_of_short by (rewrite ?CodecProofs.lenN_app; cbn [lenN]; lia).
  rewrite updN_app_r by lia. rewrite N.sub_diag, <- app_assoc. f_equal.
  rewrite CodecProofs.lenN_app. cbn [lenN].
  replace (NUM_DIFAT_HDR - lenN d) with (N.succ (NUM_DIFAT_HDR - (lenN d + 1))) by lia.
  rewrite CodecProofs.repeatN_succ. reflexivity.
Qed.

(* (a) update_num_dir_sectors.  Before the call (made right after the directory
   chain was extended) everything but the NUM_DIR field is in step. *)
Theorem update_num_dir_sectors_header : forall s s' old ids,
  HdrBytes s (h_set_num_dir (header_of s) old) ->
  (ver s = V3 -> old = 0) ->
  img s <> [] -> HEADER_LEN <= lenN (hd [] (img s)) ->
  chain_ids_of (fat s) (dir_start s) = Ok ids -> dir_start s <> END_OF_CHAIN ->
  update_num_dir_sectors s = (s', Ok tt) ->
  HeaderCoherent s'.
Proof.
  intros s s' old ids Hb Hv3 Hne Hlen Hids Hstart H.
  unfold update_num_dir_sectors in H. rewrite ReuseProofs.bind_get in H.
  destruct (ver s) eqn:Ev.
  - injection H as <-. unfold HeaderCoherent. unfold HdrBytes in Hb. rewrite Hb.
    rewrite (Hv3 eq_refl). unfold h_set_num_dir, header_of. rewrite Ev. reflexivity.
  - apply ReuseProofs.bind_ok in H. destruct H as (nx & s1 & H1 & H).
    unfold next in H1. rewrite ReuseProofs.bind_get in H1. unfold lift in H1.
    injection H1 as <- Hnx.
    apply ReuseProofs.bind_ok in H. destruct H as (n & s2 & H2 & H).
    unfold lift in H2.
    rewrite (WalkProofs.count_dir_total _ _ _ _ Hids Hstart Hnx) in H2. injection H2 as <- <-.
    destruct (header_write_bytes s HDR_OFF_NUM_DIR (le_bytes 4 (lenN ids)) s' _
                (h_set_num_dir (header_of s) (lenN ids))
                Hb Hne Hlen ltac:(rewrite CodecProofs.lenN_le_bytes4; unfold HDR_OFF_NUM_DIR, HEADER_LEN; lia)
                H (header_splice_num_dir _ _)) as (Hb' & Hm & _).
    unfold HeaderCoherent. unfold HdrBytes in Hb'. rewrite Hb', Hm, header_of_w_img.
    unfold h_set_num_dir, header_of. rewrite Ev. unfold chain_count. rewrite Hids. reflexivity.
Qed.

(* (b) append_fat_sector with the new DIFAT entry still in the header array *)
Theorem append_fat_sector_header : forall s s',
  HeaderCoherent s -> CoherenceProofs.FatInv s ->
  lenN (fat s) mod fat_per_sector s = 0 ->
  lenN (difat s) < NUM_DIFAT_HDR ->
  HEADER_LEN <= lenN (hd [] (img s)) ->
  (exists ids, chain_ids_of (fat s) (dir_start s) = Ok ids) ->
  (exists ids, chain_ids_of (fat s) (minifat_start s) = Ok ids) ->
  append_fat_sector s = (s', Ok tt) ->
  HeaderCoherent s' /\ fat s' = fat s ++ [FAT_SECTOR] /\ difat s' = difat s ++ [nsect s] /\
  nsect s' = nsect s + 1 /\ dir_start s' = dir_start s /\ minifat_start s' = minifat_start s /\
  difat_ids s' = difat_ids s /\ ver s' = ver s /\
  lenN (hd [] (img s')) = lenN (hd [] (img s)) /\ lenN (img s') = nsect s' + 1 /\
  free s' = free s.
Proof.
  intros s s' Hc [Hcore Hlen Hpos Htight] Hmod Hreg Hh0 [dids Hd] [mids Hm] H.
  pose proof (ReuseProofs.fps_pos s) as Hfp.
  pose proof Hcore as [Himg Hfull _ _ _].
  assert (Hne : img s <> []) by (intro E; rewrite E in Himg; cbn [lenN] in Himg; lia).
  unfold append_fat_sector in H. rewrite ReuseProofs.bind_get in H.
  apply ReuseProofs.bind_ok in H. destruct H as ([] & s1 & H1 & H).
  rewrite Hlen in H1.
  rewrite (CoherenceProofs.init_sector_append_exec s IFat Himg Hfull Hpos) in H1.
  apply ReuseProofs.pair_ok_inv in H1. destruct H1 as [E1 _]. subst s1.
  set (s1 := CoherenceProofs.app_sector s (init_bytes (ver s) IFat)) in *.
  rewrite ReuseProofs.bind_modify in H.
  set (s2 := w_difat s1 (difat s1 ++ [lenN (fat s)])) in *.
  apply ReuseProofs.bind_ok in H. destruct H as ([] & s3 & H3 & H).
  assert (Hdl : lenN (difat s) = lenN (fat s) / fat_per_sector s).
  { rewrite Htight. destruct (ReuseProofs.fps_cases s) as [[_ E]|[_ E]]; rewrite E in *; lia. }
  assert (Hd2 : nthN (difat s2) (lenN (fat s) / fat_per_sector s2) = Some (lenN (fat s))).
  { cbn [s2 difat w_difat s1 CoherenceProofs.app_sector w_img w_nsect].
    change (fat_per_sector _) with (fat_per_sector s).
    rewrite ReuseProofs.nthN_app_r by lia. rewrite Hdl, N.sub_diag. reflexivity. }
  assert (Hfn2 : lenN (fat s) < nsect s2) by (cbn; lia).
  assert (Hl2 : lenN (sector_bytes s2 (lenN (fat s))) = slen s2).
  { change (sector_bytes s2 (lenN (fat s))) with (sector_bytes s1 (lenN (fat s))).
    rewrite Hlen. unfold s1. rewrite CoherenceProofs.sector_bytes_app_new by exact Himg.
    apply ReuseProofs.lenN_init_bytes. }
  rewrite (ReuseProofs.set_fat_exec s2 (lenN (fat s)) FAT_SECTOR (lenN (fat s))
             ltac:(cbn; lia) Hd2 Hfn2 Hl2) in H3.
  injection H3 as <-.
  set (s3 := ReuseProofs.set_fat_state s2 (lenN (fat s)) FAT_SECTOR (lenN (fat s))) in *.
  assert (Efat3 : fat s3 = fat s ++ [FAT_SECTOR]).
  { cbn [s3 fat ReuseProofs.set_fat_state w_fat]. unfold ReuseProofs.fat_set.
    cbn [s2 s1 CoherenceProofs.app_sector fat w_img w_nsect w_difat]. rewrite N.eqb_refl. reflexivity. }
  assert (Ed3 : difat s3 = difat s ++ [nsect s]) by (rewrite <- Hlen; reflexivity).
  assert (Eh3 : hd [] (img s3) = hd [] (img s)).
  { cbn [s3 img ReuseProofs.set_fat_state w_fat ReuseProofs.wr w_img].
    cbn [s2 s1 CoherenceProofs.app_sector img w_img w_nsect w_difat].
    destruct (img s) as [|h0 t]; [contradiction|]. cbn [app updN].
    destruct (N.eqb_spec (lenN (fat s) + 1) 0); [lia|reflexivity]. }
  assert (Li3 : lenN (img s3) = nsect s + 2).
  { pose proof (ReuseProofs.set_fat_state_fields s2 (lenN (fat s)) FAT_SECTOR (lenN (fat s)))
      as (_ & _ & _ & _ & _ & _ & _ & _ & _ & _ & _ & Eimg).
    fold s3 in Eimg. rewrite Eimg.
    cbn [s2 s1 CoherenceProofs.app_sector img w_img w_nsect w_difat].
    rewrite CodecProofs.lenN_app, Himg. cbn [lenN]. lia. }
  assert (Hne3 : img s3 <> []).
  { intro E. rewrite E in Li3. cbn [lenN] in Li3. lia. }
  (* the two header writes *)
  cbv zeta in H.
  replace (lenN (difat s) <? NUM_DIFAT_HDR) with true in H by lia.
  apply ReuseProofs.bind_ok in H. destruct H as ([] & s4 & H4 & H).
  rewrite ReuseProofs.bind_get in H.
  assert (Hb3 : HdrBytes s3 (header_of s)) by (unfold HdrBytes; rewrite Eh3; exact Hc).
  destruct (header_write_bytes s3 (HDR_OFF_DIFAT_ARRAY + 4 * lenN (difat s))
              (le_bytes 4 (lenN (fat s))) s4 _
              (h_set_difat_entry (header_of s) (lenN (difat s)) (lenN (fat s)))
              Hb3 Hne3 ltac:(rewrite Eh3; exact Hh0)
              ltac:(rewrite CodecProofs.lenN_le_bytes4; unfold HDR_OFF_DIFAT_ARRAY, HEADER_LEN, NUM_DIFAT_HDR in *; lia)
              H4) as (Hb4 & Hm4 & Hl4 & Li4).
  { apply header_splice_difat_entry. cbn [header_of h_difat]. rewrite lenN_hdr_difat_of. exact Hreg. }
  assert (Hne4 : img s4 <> []).
  { intro E. rewrite E in Hl4. cbn [hd lenN] in Hl4. rewrite Eh3 in Hl4.
    unfold HEADER_LEN in Hh0. unfold byte in *. lia. }
  destruct (header_write_bytes s4 HDR_OFF_NUM_FAT (le_bytes 4 (lenN (difat s4))) s' _
              (h_set_num_fat (h_set_difat_entry (header_of s) (lenN (difat s)) (lenN (fat s)))
                             (lenN (difat s4)))
              Hb4 Hne4 ltac:(unfold byte in *; rewrite Hl4, Eh3; exact Hh0)
              ltac:(rewrite CodecProofs.lenN_le_bytes4; unfold HDR_OFF_NUM_FAT, HEADER_LEN; lia)
              H (header_splice_num_fat _ _)) as (Hb5 & Hm5 & Hl5 & Li5).
  assert (E4 : forall A (f : cstate -> A), (forall t im, f (w_img t im) = f t) -> f s' = f s3).
  { intros A f Hf. rewrite Hm5, Hf, Hm4, Hf. reflexivity. }
  split.
  - unfold HeaderCoherent. unfold HdrBytes in Hb5. rewrite Hb5.
    rewrite (E4 _ header_of header_of_w_img).
    assert (Ed4 : difat s4 = difat s3) by (rewrite Hm4; reflexivity).
    rewrite Ed4, Ed3.
    unfold h_set_num_fat, h_set_difat_entry, header_of. hdr_fields.
    rewrite Efat3, Ed3.
    change (ver s3) with (ver s). change (dir_start s3) with (dir_start s).
    change (minifat_start s3) with (minifat_start s). change (difat_ids s3) with (difat_ids s).
    rewrite (chain_count_app _ _ _ _ Hd), (chain_count_app _ _ _ _ Hm).
    rewrite <- Hlen at 2. rewrite hdr_difat_of_snoc by exact Hreg.
    rewrite <- Hlen. reflexivity.
  - rewrite (E4 _ fat (fun _ _ => eq_refl)), (E4 _ difat (fun _ _ => eq_refl)),
            (E4 _ nsect (fun _ _ => eq_refl)), (E4 _ dir_start (fun _ _ => eq_refl)),
            (E4 _ minifat_start (fun _ _ => eq_refl)), (E4 _ difat_ids (fun _ _ => eq_refl)),
            (E4 _ ver (fun _ _ => eq_refl)), (E4 _ free (fun _ _ => eq_refl)).
    repeat split; try assumption; try reflexivity.
    + unfold byte in *. rewrite Hl5, Hl4, Eh3. reflexivity.
    + rewrite Li5, Li4, Li3. change (nsect s3) with (nsect s + 1). lia.
Qed.

(* ---- A3 (c): frames for the FAT primitives, allocate_sector, the two
        header-writing branches of allocate_mini_sector ---- *)

(* what the primitives below the header layer leave alone *)
Definition hframe (s s' : cstate) : Prop :=
  hd [] (img s') = hd [] (img s) /\ lenN (img s') = nsect s' + 1 /\ ver s' = ver s /\
  difat_ids s' = difat_ids s /\ dir_start s' = dir_start s /\
  minifat_start s' = minifat_start s /\ difat s' = difat s.

Lemma hd_updN_pos : forall A (l : list A) i x d, i <> 0 -> hd d (updN l i x) = hd d l.
Proof.
  intros A l i x d H. destruct l as [|y t]; [reflexivity|]. cbn [updN].
  destruct (N.eqb_spec i 0); [contradiction|reflexivity].
Qed.

Lemma set_fat_hframe : forall s index v s' u,
  lenN (img s) = nsect s + 1 -> set_fat index v s = (s', Ok u) ->
  hframe s s' /\ nsect s' = nsect s /\ fat s' = ReuseProofs.fat_set (fat s) index v /\
  index <= lenN (fat s).
Proof.
  intros s index v s' u Hi H.
  destruct (DirCoherence.set_fat_ok_inv s index v s' u Hi H) as (fsid & Hd & Hf & Hidx & ->).
  unfold hframe. cbn [img nsect ver difat_ids dir_start minifat_start difat fat w_fat w_img].
  repeat split; try reflexivity; try assumption.
  - apply hd_updN_pos. lia.
  - rewrite lenN_updN. exact Hi.
Qed.

Lemma hd_img_pad_last : forall sl (im : list (list byte)),
  sl <= lenN (hd [] im) -> hd [] (img_pad_last sl im) = hd [] im.
Proof.
  intros sl im H. unfold img_pad_last. destruct (lastN im) as [sec|] eqn:El; [|reflexivity].
  destruct (lenN sec <? sl) eqn:E; [|reflexivity].
  destruct im as [|h [|h2 t]].
  - discriminate El.
  - unfold lastN in El. cbn [rev app] in El. injection El as <-. cbn [hd] in H. lia.
  - unfold pop_last. cbn [removelast app hd]. reflexivity.
Qed.

Lemma init_sector_hframe : forall s sid i s' u,
  lenN (img s) = nsect s + 1 -> slen s <= lenN (hd [] (img s)) ->
  init_sector sid i s = (s', Ok u) ->
  hframe s s' /\ fat s' = fat s.
Proof.
  intros s sid i s' u Hi Hh H.
  destruct (DirCoherence.init_sector_ok_inv s sid i s' u Hi H) as [[Hs ->]|[Hs ->]];
    unfold hframe; cbn [img nsect ver difat_ids dir_start minifat_start difat fat w_nsect w_img];
    repeat split; try reflexivity.
  - apply hd_updN_pos. lia.
  - rewrite lenN_updN. exact Hi.
  - pose proof (DirCoherence.lenN_img_pad_last (slen s) (img s)) as L.
    destruct (img_pad_last (slen s) (img s)) as [|p0 pt] eqn:Ep;
      [cbn [lenN] in L; lia|].
    cbn [app hd]. change p0 with (hd [] (p0 :: pt)). rewrite <- Ep.
    apply hd_img_pad_last. exact Hh.
  - rewrite CodecProofs.lenN_app, DirCoherence.lenN_img_pad_last, Hi. cbn [lenN]. lia.
Qed.

(* a chain never visits a FREE cell, so rewriting one does not disturb it *)
Lemma path_next : forall fat c l x, WalkProofs.path fat c l -> In x l ->
  exists nx, next_of fat x = Ok nx.
Proof.
  intros fat c l x Hp. induction Hp as [|cur nx l Hc Hn Hp IH]; intro Hin; [destruct Hin|].
  destruct Hin as [<-|Hin]; [exists nx; exact Hn|apply IH; exact Hin].
Qed.

Lemma chain_ids_of_updN_free : forall fat st ids x v,
  chain_ids_of fat st = Ok ids -> nthN fat x = Some FREE_SECTOR ->
  chain_ids_of (updN fat x v) st = Ok ids.
Proof.
  intros fat st ids x v H Hx. apply WalkProofs.chain_ids_path in H.
  apply WalkProofs.chain_ids_of_path; [|eapply ReuseProofs.path_nodup; exact H].
  apply ReuseProofs.path_updN; [exact H|]. intro Hin.
  destruct (path_next _ _ _ _ H Hin) as [nx Hn]. apply WalkProofs.next_of_Ok in Hn.
  destruct Hn as [Hn Hr]. rewrite Hx in Hn. injection Hn as <-. markers. lia.
Qed.

(* the postcondition carried through the allocator *)
Definition hpost (s s' : cstate) : Prop :=
  HeaderCoherent s' /\ dir_start s' = dir_start s /\ minifat_start s' = minifat_start s /\
  ver s' = ver s /\ difat_ids s' = difat_ids s /\ lenN (img s') = nsect s' + 1 /\
  lenN (hd [] (img s')) = lenN (hd [] (img s)) /\
  (forall st ids, chain_ids_of (fat s) st = Ok ids -> chain_ids_of (fat s') st = Ok ids).

Lemma chain_count_pres : forall fat fat' st,
  (exists ids, chain_ids_of fat st = Ok ids) ->
  (forall st ids, chain_ids_of fat st = Ok ids -> chain_ids_of fat' st = Ok ids) ->
  chain_count fat' st = chain_count fat st.
Proof.
  intros fat fat' st [ids H] Hp. unfold chain_count. rewrite (Hp _ _ H), H. reflexivity.
Qed.

Lemma hframe_hpost : forall s s',
  HeaderCoherent s ->
  (exists ids, chain_ids_of (fat s) (dir_start s) = Ok ids) ->
  (exists ids, chain_ids_of (fat s) (minifat_start s) = Ok ids) ->
  hframe s s' ->
  (forall st ids, chain_ids_of (fat s) st = Ok ids -> chain_ids_of (fat s') st = Ok ids) ->
  hpost s s'.
Proof.
  intros s s' Hc Hd Hm (F1 & F2 & F3 & F4 & F5 & F6 & F7) Hp.
  unfold hpost. repeat split; try assumption; [|rewrite F1; reflexivity].
  unfold HeaderCoherent in *. rewrite F1, Hc. f_equal.
  unfold header_of. rewrite F3, F4, F5, F6, F7.
  rewrite (chain_count_pres _ _ _ Hd Hp), (chain_count_pres _ _ _ Hm Hp). reflexivity.
Qed.

Lemma hpost_trans : forall a b c, hpost a b -> hpost b c -> hpost a c.
Proof.
  intros a b c (A1 & A2 & A3 & A4 & A5 & A6 & A7 & A8) (B1 & B2 & B3 & B4 & B5 & B6 & B7 & B8).
  unfold hpost. repeat split; try congruence. intros st ids H. apply B8, A8, H.
Qed.

Lemma hpost_chains : forall s s', hpost s s' ->
  (exists ids, chain_ids_of (fat s) (dir_start s) = Ok ids) ->
  (exists ids, chain_ids_of (fat s) (minifat_start s) = Ok ids) ->
  (exists ids, chain_ids_of (fat s') (dir_start s') = Ok ids) /\
  (exists ids, chain_ids_of (fat s') (minifat_start s') = Ok ids).
Proof.
  intros s s' (_ & A2 & A3 & _ & _ & _ & _ & A8) [d Hd] [m Hm]. rewrite A2, A3.
  split; [exists d|exists m]; apply A8; assumption.
Qed.

(* set_fat index END_OF_CHAIN ;; init_sector index i on a cell that is free or new *)
Lemma claim_cell_hpost : forall s index i s1 s2 u1 u2,
  HeaderCoherent s -> lenN (img s) = nsect s + 1 -> slen s <= lenN (hd [] (img s)) ->
  (exists ids, chain_ids_of (fat s) (dir_start s) = Ok ids) ->
  (exists ids, chain_ids_of (fat s) (minifat_start s) = Ok ids) ->
  (index = lenN (fat s) \/ nthN (fat s) index = Some FREE_SECTOR) ->
  set_fat index END_OF_CHAIN s = (s1, Ok u1) -> init_sector index i s1 = (s2, Ok u2) ->
  hpost s s2 /\ nthN (fat s2) index = Some END_OF_CHAIN /\ lenN (fat s2) <= lenN (fat s) + 1.
Proof.
  intros s index i s1 s2 u1 u2 Hc Hi Hh Hd Hm Hcell H1 H2.
  destruct (set_fat_hframe s index END_OF_CHAIN s1 u1 Hi H1)
    as ((F1 & F2 & F3 & F4 & F5 & F6 & F7) & Fn & Ffat & Fidx).
  assert (Hh1 : slen s1 <= lenN (hd [] (img s1)))
    by (unfold slen; rewrite F3, F1; exact Hh).
  destruct (init_sector_hframe s1 index i s2 u2 F2 Hh1 H2)
    as ((G1 & G2 & G3 & G4 & G5 & G6 & G7) & Gfat).
  assert (Efat : fat s2 = ReuseProofs.fat_set (fat s) index END_OF_CHAIN) by congruence.
  split.
  - apply hframe_hpost; try assumption.
    + unfold hframe. repeat split; congruence.
    + intros st ids Hst. rewrite Efat. unfold ReuseProofs.fat_set.
      destruct (N.eqb_spec index (lenN (fat s))) as [E|E].
      * apply chain_ids_of_app. exact Hst.
      * destruct Hcell as [Hcell|Hcell]; [contradiction|].
        apply chain_ids_of_updN_free; assumption.
  - rewrite Efat. unfold ReuseProofs.fat_set.
    destruct (N.eqb_spec index (lenN (fat s))) as [->|E].
    + split; [apply CodecProofs.nthN_app_exact|]. rewrite CodecProofs.lenN_app. cbn [lenN]. lia.
    + split; [apply nthN_updN_same; lia|]. rewrite lenN_updN. lia.
Qed.

Theorem allocate_sector_header : forall i s s' sid,
  HeaderCoherent s -> CoherenceProofs.FatInv s ->
  lenN (difat s) < NUM_DIFAT_HDR ->
  slen s <= lenN (hd [] (img s)) ->
  (forall x, In x (free s) -> nthN (fat s) x = Some FREE_SECTOR) ->
  (exists ids, chain_ids_of (fat s) (dir_start s) = Ok ids) ->
  (exists ids, chain_ids_of (fat s) (minifat_start s) = Ok ids) ->
  allocate_sector i s = (s', Ok sid) ->
  hpost s s' /\ nthN (fat s') sid = Some END_OF_CHAIN /\ lenN (fat s') <= lenN (fat s) + 2.
Proof.
  intros i s s' sid Hc Hinv Hreg Hh Hfree Hd Hm H.
  pose proof Hinv as [[Himg Hfull _ _ _] Hlen Hpos Htight].
  assert (Hh512 : HEADER_LEN <= lenN (hd [] (img s))).
  { unfold HEADER_LEN. destruct (ReuseProofs.slen_cases s) as [E|E]; rewrite E in Hh;
      unfold byte in *; lia. }
  unfold allocate_sector in H. rewrite ReuseProofs.bind_get in H.
  destruct (lastN (free s)) as [sid0|] eqn:El.
  - (* reuse *)
    rewrite ReuseProofs.bind_modify in H.
    set (s0 := w_free s (pop_last (free s))) in *.
    apply ReuseProofs.bind_ok in H. destruct H as ([] & s1 & H1 & H).
    apply ReuseProofs.bind_ok in H. destruct H as ([] & s2 & H2 & H).
    unfold ret in H. injection H as <- <-.
    assert (Hc0 : HeaderCoherent s0) by exact Hc.
    destruct (claim_cell_hpost s0 sid0 i s1 s2 tt tt Hc0 Himg Hh Hd Hm
                (or_intror (Hfree _ (CoherenceProofs.lastN_In _ _ _ El))) H1 H2) as (P & Q & R).
    split; [exact P|split; [exact Q|]]. change (fat s0) with (fat s) in R. lia.
  - (* growth *)
    apply ReuseProofs.bind_ok in H. destruct H as ([] & s1 & H1 & H).
    rewrite ReuseProofs.bind_get in H. cbv zeta in H.
    apply ReuseProofs.bind_ok in H. destruct H as ([] & s2 & H2 & H).
    apply ReuseProofs.bind_ok in H. destruct H as ([] & s3 & H3 & H).
    unfold ret in H. injection H as <- <-.
    assert (P1 : (hpost s s1 /\ slen s1 <= lenN (hd [] (img s1))) /\ lenN (fat s1) <= lenN (fat s) + 1).
    { destruct (lenN (fat s) mod fat_per_sector s =? 0) eqn:Em.
      - apply N.eqb_eq in Em.
        destruct (append_fat_sector_header s s1 Hc Hinv Em Hreg Hh512 Hd Hm H1)
          as (A0 & A1 & A2 & A3 & A4 & A5 & A6 & A7 & A8 & A9 & A10).
        split; [split|].
        + unfold hpost. repeat split; try assumption.
          intros st ids Hst. rewrite A1. apply chain_ids_of_app. exact Hst.
        + unfold slen. rewrite A7. unfold byte in *. rewrite A8. exact Hh.
        + rewrite A1, CodecProofs.lenN_app. cbn [lenN]. lia.
      - unfold ret in H1. injection H1 as <-. split; [split; [|exact Hh]|lia].
        unfold hpost. repeat split; try assumption; try reflexivity. intros st ids Hst. exact Hst. }
    destruct P1 as [[P1 Hh1] Hl1].
    pose proof P1 as (B1 & B2 & B3 & B4 & B5 & B6 & B7 & B8).
    destruct (hpost_chains _ _ P1 Hd Hm) as [Hd1 Hm1].
    destruct (claim_cell_hpost s1 (lenN (fat s1)) i s2 s3 tt tt B1 B6 Hh1 Hd1 Hm1
                (or_introl eq_refl) H2 H3) as (P & Q & R).
    split; [exact (hpost_trans _ _ _ P1 P)|split; [exact Q|lia]].
Qed.

(* first MiniFAT sector: begin_chain, then the 8-byte header write; the chain
   start is remembered only once the header records it *)
Definition mini_first_branch : M unit :=
  do sid <- begin_chain IFat;
  header_write HDR_OFF_FIRST_MINIFAT (le_bytes 4 sid ++ le_bytes 4 1) ;;
  modify (fun s => w_minifat_start s sid).

Lemma chain_ids_of_single : forall fat sid,
  nthN fat sid = Some END_OF_CHAIN -> sid <> END_OF_CHAIN -> chain_ids_of fat sid = Ok [sid].
Proof.
  intros fat sid Hn Hne. apply WalkProofs.chain_ids_of_path.
  - econstructor; [exact Hne| |constructor].
    apply WalkProofs.next_of_Ok. split; [exact Hn|left; reflexivity].
  - constructor; [intros []|constructor].
Qed.

Theorem mini_first_branch_header : forall s s',
  HeaderCoherent s -> CoherenceProofs.FatInv s ->
  lenN (difat s) < NUM_DIFAT_HDR ->
  slen s <= lenN (hd [] (img s)) ->
  nsect s + 2 <= MAX_REGULAR_SECTOR ->
  (forall x, In x (free s) -> nthN (fat s) x = Some FREE_SECTOR) ->
  (exists ids, chain_ids_of (fat s) (dir_start s) = Ok ids) ->
  minifat_start s = END_OF_CHAIN ->
  mini_first_branch s = (s', Ok tt) ->
  HeaderCoherent s' /\ minifat_start s' <> END_OF_CHAIN /\
  chain_count (fat s') (minifat_start s') = 1.
Proof.
  intros s s' Hc Hinv Hreg Hh Hbig Hfree Hd Hms H.
  assert (Hm : exists ids, chain_ids_of (fat s) (minifat_start s) = Ok ids).
  { exists []. rewrite Hms. unfold chain_ids_of. cbn [chain_ids_go]. rewrite N.eqb_refl. reflexivity. }
  unfold mini_first_branch in H.
  apply ReuseProofs.bind_ok in H. destruct H as (sid & s1 & H1 & H).
  unfold begin_chain in H1.
  destruct (allocate_sector_header IFat s s1 sid Hc Hinv Hreg Hh Hfree Hd Hm H1)
    as ((B1 & B2 & B3 & B4 & B5 & B6 & B7 & B8) & Hcell & Hfl).
  apply ReuseProofs.bind_ok in H. destruct H as ([] & s2 & H2 & H).
  unfold modify in H. injection H as <-.
  assert (Hsid : sid < lenN (fat s1)) by (eapply nthN_Some_lt; exact Hcell).
  assert (Hne1 : img s1 <> []) by (intro E; rewrite E in B6; cbn [lenN] in B6; lia).
  assert (Hh512 : HEADER_LEN <= lenN (hd [] (img s1))).
  { unfold HEADER_LEN. unfold byte in *. rewrite B7.
    destruct (ReuseProofs.slen_cases s) as [E|E]; rewrite E in Hh; lia. }
  destruct (header_write_bytes s1 HDR_OFF_FIRST_MINIFAT (le_bytes 4 sid ++ le_bytes 4 1) s2
              (header_of s1) (h_set_num_minifat (h_set_first_minifat (header_of s1) sid) 1)
              B1 Hne1 Hh512
              ltac:(rewrite CodecProofs.lenN_app, !CodecProofs.lenN_le_bytes4;
                    unfold HDR_OFF_FIRST_MINIFAT, HEADER_LEN; lia)
              H2 (header_splice_minifat_pair _ _ _)) as (Hb & Hm2 & _ & _).
  set (s' := w_minifat_start s2 sid).
  assert (Efs : fat s' = fat s1) by (cbn [s' fat w_minifat_start]; rewrite Hm2; reflexivity).
  assert (Ems : minifat_start s' = sid) by reflexivity.
  (* sid is a regular sector id *)
  assert (Hsidreg : sid <> END_OF_CHAIN).
  { destruct Hinv as [_ Hlen _ _]. markers. lia. }
  assert (Hcount : chain_count (fat s1) sid = 1).
  { unfold chain_count. rewrite (chain_ids_of_single _ _ Hcell Hsidreg). reflexivity. }
  split; [|split; [rewrite Ems; exact Hsidreg|rewrite Efs, Ems; exact Hcount]].
  unfold HeaderCoherent. unfold HdrBytes in Hb.
  change (img s') with (img s2). rewrite Hb.
  unfold s'. rewrite Hm2.
  unfold h_set_num_minifat, h_set_first_minifat, header_of. hdr_fields.
  cbn [ver fat dir_start difat difat_ids minifat_start w_minifat_start w_img].
  rewrite Hcount. reflexivity.
Qed.

(* MiniFAT chain extension: extend_chain, re-walk, write the new count *)
Definition mini_extend_branch (start : N) : M unit :=
  do _ <- extend_chain start IFat;
  do c2 <- chain_new start IFat;
  header_write HDR_OFF_NUM_MINIFAT (le_bytes 4 (lenN (c_ids c2))).

Theorem mini_extend_branch_header : forall s s' dids mids,
  HeaderCoherent s -> CoherenceProofs.FatInv s ->
  lenN (difat s) < NUM_DIFAT_HDR ->
  slen s <= lenN (hd [] (img s)) ->
  (forall x, In x (free s) -> nthN (fat s) x = Some FREE_SECTOR) ->
  chain_ids_of (fat s) (dir_start s) = Ok dids ->
  chain_ids_of (fat s) (minifat_start s) = Ok mids ->
  (forall x, In x mids -> ~ In x dids) ->
  mini_extend_branch (minifat_start s) s = (s', Ok tt) ->
  HeaderCoherent s'.
Proof.
  intros s s' dids mids Hc Hinv Hreg Hh Hfree Hd Hm Hdisj H.
  unfold mini_extend_branch in H.
  apply ReuseProofs.bind_ok in H. destruct H as (new0 & sF & He & H).
  (* extend_chain *)
  unfold extend_chain in He.
  destruct (N.eqb_spec (minifat_start s) END_OF_CHAIN) as [E|Hne]; [discriminate He|].
  rewrite ReuseProofs.bind_get in He.
  apply ReuseProofs.bind_ok in He. destruct He as (last & s0 & Hl & He).
  unfold lift in Hl.
  assert (Es0 : s0 = s) by (apply (f_equal fst) in Hl; cbn [fst] in Hl; congruence).
  apply (f_equal snd) in Hl. cbn [snd] in Hl. subst s0.
  apply ReuseProofs.bind_ok in He. destruct He as (nw & s1 & Ha & He).
  apply ReuseProofs.bind_ok in He. destruct He as ([] & s2 & Hs & He).
  unfold ret in He. injection He as <- <-.
  destruct (allocate_sector_header IFat s s1 nw Hc Hinv Hreg Hh Hfree
              (ex_intro _ dids Hd) (ex_intro _ mids Hm) Ha)
    as ((B1 & B2 & B3 & B4 & B5 & B6 & B7 & B8) & Hcell & Hfl).
  destruct (set_fat_hframe s1 last nw s2 tt B6 Hs)
    as ((F1 & F2 & F3 & F4 & F5 & F6 & F7) & Fn & Ffat & Fidx).
  pose proof (WalkProofs.chain_ids_path _ _ _ Hm) as Hpm.
  pose proof (DirCoherence.find_last_go_path _ _ _ _ _ _ Hpm Hne Hl) as Hlast.
  assert (Hlin : In last mids) by (eapply CoherenceProofs.lastN_In; exact Hlast).
  assert (Hllt : last < lenN (fat s)).
  { pose proof (WalkProofs.path_lt _ _ _ Hpm) as HF. rewrite Forall_forall in HF. apply HF, Hlin. }
  assert (Hlen1 : last < lenN (fat s1)).
  { (* chains of s survive in s1, in particular cell [last] exists there *)
    pose proof (B8 _ _ Hm) as Hm1. apply WalkProofs.chain_ids_path, WalkProofs.path_lt in Hm1.
    rewrite Forall_forall in Hm1. exact (Hm1 last Hlin). }
  assert (Efat2 : fat s2 = updN (fat s1) last nw).
  { rewrite Ffat. unfold ReuseProofs.fat_set.
    destruct (N.eqb_spec last (lenN (fat s1))); [lia|reflexivity]. }
  (* the directory chain is untouched *)
  assert (Hd2 : chain_ids_of (fat s2) (dir_start s) = Ok dids).
  { rewrite Efat2. pose proof (B8 _ _ Hd) as Hd1.
    apply WalkProofs.chain_ids_path in Hd1.
    apply WalkProofs.chain_ids_of_path; [|eapply ReuseProofs.path_nodup; exact Hd1].
    apply ReuseProofs.path_updN; [exact Hd1|]. intro Hin. exact (Hdisj last Hlin Hin). }
  (* chain_new and the header write *)
  apply ReuseProofs.bind_ok in H. destruct H as (c2 & s3 & Hc2 & H).
  unfold chain_new in Hc2. rewrite ReuseProofs.bind_get in Hc2.
  destruct (chain_ids_of (fat s2) (minifat_start s)) as [ids2| | |] eqn:Eids2;
    try discriminate Hc2.
  unfold lift, bind, ret in Hc2. injection Hc2 as <- <-. cbn [c_ids] in H.
  assert (Hb2 : HdrBytes s2 (header_of s1)) by (unfold HdrBytes; rewrite F1; exact B1).
  assert (Hne2 : img s2 <> []) by (intro E; rewrite E in F2; cbn [lenN] in F2; lia).
  assert (Hh512 : HEADER_LEN <= lenN (hd [] (img s2))).
  { unfold HEADER_LEN. rewrite F1. unfold byte in *. rewrite B7.
    destruct (ReuseProofs.slen_cases s) as [E|E]; rewrite E in Hh; lia. }
  destruct (header_write_bytes s2 HDR_OFF_NUM_MINIFAT (le_bytes 4 (lenN ids2)) s'
              (header_of s1) (h_set_num_minifat (header_of s1) (lenN ids2))
              Hb2 Hne2 Hh512
              ltac:(rewrite CodecProofs.lenN_le_bytes4; unfold HDR_OFF_NUM_MINIFAT, HEADER_LEN; lia)
              H (header_splice_num_minifat _ _)) as (Hb & Hm2 & _ & _).
  unfold HeaderCoherent. unfold HdrBytes in Hb. rewrite Hb, Hm2, header_of_w_img.
  unfold h_set_num_minifat, header_of. hdr_fields.
  rewrite F3, F4, F5, F6, F7, B2, B3.
  assert (Ecd : chain_count (fat s2) (dir_start s) = chain_count (fat s1) (dir_start s)).
  { unfold chain_count. rewrite Hd2, (B8 _ _ Hd). reflexivity. }
  assert (Ecm : chain_count (fat s2) (minifat_start s) = lenN ids2).
  { unfold chain_count. rewrite Eids2. reflexivity. }
  rewrite Ecd, Ecm. reflexivity.
Qed.

(* the two branch fragments above are literally the code of
   Mini.allocate_mini_sector (growth case) *)
Lemma allocate_mini_sector_unfold : forall value s,
  allocate_mini_sector value s
  = bind (pop_free_mini (S (length (mfree s)))) (fun got =>
      match got with
      | Some idx => set_minifat idx value ;; ret idx
      | None =>
        do s <- get;
        (if minifat_start s =? END_OF_CHAIN then
           (if negb (lenN (minifat s) =? 0) then panic 507 else ret tt) ;; mini_first_branch
         else
           do c <- chain_new (minifat_start s) IFat;
           if lenN (c_ids c) * (slen s / 4) <=? lenN (minifat s)
           then mini_extend_branch (minifat_start s) else ret tt) ;;
        do s <- get;
        do r <- root_entry;
        (if d_len r <? (lenN (minifat s) + 1) * MINI_SECTOR_LEN then append_mini_sector else ret tt) ;;
        set_minifat (lenN (minifat s)) value ;; ret (lenN (minifat s))
      end) s.
Proof. reflexivity. Qed.

(* ================================================================== *)
(* B2: non-vacuity                                                     *)
(* ================================================================== *)

Module Examples.
  Import Cfb.model.Cfb ReuseProofs.Examples.

  (* the empty file *)
  Theorem create_state_coherent : forall v, Coherent (create_state v).
  Proof. intros [|]; apply coherent_b_sound; vm_compute; reflexivity. Qed.

  Corollary create_state_reopens : forall v strict,
    open_model strict (concat_img (img (create_state v))) = Ok (reopened (create_state v)).
  Proof. intros v strict. apply reopen_both_modes, create_state_coherent. Qed.

  (* a storage, a small (mini) stream inside it, a big (regular) stream *)
  Definition p_d : list N := [47; 100].                       (* "/d"   *)
  Definition p_da : list N := [47; 100; 47; 97].              (* "/d/a" *)
  Definition p_b : list N := [47; 98].                        (* "/b"   *)
  Definition ex_ops : list op :=
    [OCreateStorage p_d;
     OCreateStream 0 p_da; OHWrite 0 (repeatN 7 100); OHFlush 0; OHDrop 0;
     OCreateStream 0 p_b; OHSetLen 0 5000; OHWrite 0 (repeatN 9 300); OHFlush 0; OHDrop 0].
  Definition ex3 : cstate := cs (fst (run_ops (init_fstate V3 1024 4) ex_ops)).
  Definition ex4 : cstate := cs (fst (run_ops (init_fstate V4 1024 4) ex_ops)).

  Example ex_ops_all_ok :
    snd (run_ops (init_fstate V3 1024 4) ex_ops) = true /\
    snd (run_ops (init_fstate V4 1024 4) ex_ops) = true.
  Proof. vm_compute. split; reflexivity. Qed.

  Example ex_shape :
    nsect ex3 = 14 /\ lenN (dirs ex3) = 4 /\ minifat ex3 = [1; END_OF_CHAIN] /\
    minifat_start ex3 = 2 /\ dir_blanks ex3 = 0 /\
    map d_start (dirs ex3) = [3; 0; 0; 4] /\ map d_len (dirs ex3) = [128; 0; 100; 5000] /\
    nsect ex4 = 6 /\ lenN (dirs ex4) = 4 /\ dir_blanks ex4 = 28.
  Proof. vm_compute. repeat split; reflexivity. Qed.

  Theorem ex3_coherent : Coherent ex3.
  Proof. apply coherent_b_sound. vm_compute. reflexivity. Qed.
  Theorem ex4_coherent : Coherent ex4.
  Proof. apply coherent_b_sound. vm_compute. reflexivity. Qed.

  (* the same fact checked by running open_model on the image *)
  Example ex3_reopens_by_computation : forall strict,
    open_model strict (concat_img (img ex3)) = Ok (reopened ex3).
  Proof. intros [|]; vm_compute; reflexivity. Qed.
  Example ex4_reopens_by_computation : forall strict,
    open_model strict (concat_img (img ex4)) = Ok (reopened ex4).
  Proof. intros [|]; vm_compute; reflexivity. Qed.

  (* more reachable states: everything removed again; ten 1000-byte mini streams
     (160 MiniFAT entries: the MiniFAT chain was extended); a 70000-byte stream
     (a second FAT sector was appended); 40 storages in a V4 file (a second
     directory sector, NUM_DIR rewritten) *)
  Definition p_n (k : N) : list N := [47; 110; 48 + k / 10; 48 + k mod 10].
  Definition mk_small (k : N) : list op :=
    [OCreateStream 0 (p_n k); OHWrite 0 (repeatN 5 1000); OHFlush 0; OHDrop 0].
  Definition st_removed : cstate :=
    cs (fst (run_ops (init_fstate V3 1024 4)
                     (ex_ops ++ [ORemoveStream p_b; ORemoveStream p_da; ORemoveStorage p_d]))).
  Definition st_minis : cstate :=
    cs (fst (run_ops (init_fstate V3 1024 4) (flat_map mk_small [0;1;2;3;4;5;6;7;8;9]))).
  Definition st_grown : cstate :=
    cs (fst (run_ops (init_fstate V3 1024 4) [OCreateStream 0 p_b; OHSetLen 0 70000; OHFlush 0; OHDrop 0])).
  Definition st_dirs4 : cstate :=
    cs (fst (run_ops (init_fstate V4 1024 4)
                     (map (fun k => OCreateStorage (p_n (N.of_nat k))) (seq 0 40)))).

  Example more_shapes :
    lenN (minifat st_removed) = 0 /\ minifat_start st_removed = 2 /\
    lenN (minifat st_minis) = 160 /\ chain_count (fat st_minis) (minifat_start st_minis) = 2 /\
    difat st_grown = [0; 128] /\ nsect st_grown = 140 /\
    lenN (dirs st_dirs4) = 41 /\ chain_count (fat st_dirs4) (dir_start st_dirs4) = 2.
  Proof. vm_compute. repeat split; reflexivity. Qed.

  Theorem more_coherent :
    Coherent st_removed /\ Coherent st_minis /\ Coherent st_grown /\ Coherent st_dirs4.
  Proof.
    split; [|split; [|split]]; apply coherent_b_sound; vm_compute; reflexivity.
  Qed.
End Examples.

(* ------------------------------------------------------------------ *)
Check chunks_concat.
Check header_wf_of.
Check reopen_header.
Check strip_hdr_difat.
Check reopen_fat_cells.
Check alloc_validate_id.
Check dir_validate_app.
Check u32s_minifat.
Check mini_validate_id.
Check open_compose.
Check reopen_strict.
Check reopen_both_modes.
Check reopen_same_tables.
Check coherent_b_sound.
Check create_state_header_coherent.
Check header_splice_num_dir.
Check header_splice_num_fat.
Check header_splice_first_minifat.
Check header_splice_num_minifat.
Check header_splice_minifat_pair.
Check header_splice_first_difat.
Check header_splice_difat_pair.
Check header_splice_difat_entry.
Check header_write_bytes.
Check sector_write_frame.
Check sector_write_header_coherent.
Check update_num_dir_sectors_header.
Check append_fat_sector_header.
Check allocate_sector_header.
Check mini_first_branch_header.
Check mini_extend_branch_header.
Check allocate_mini_sector_unfold.
Check Examples.create_state_coherent.
Check Examples.create_state_reopens.
Check Examples.ex3_coherent.
Check Examples.more_coherent.
Print Assumptions reopen_same_tables.
Print Assumptions reopen_both_modes.
Print Assumptions coherent_b_sound.
Print Assumptions create_state_header_coherent.
Print Assumptions header_splice_difat_entry.
Print Assumptions header_write_bytes.
Print Assumptions sector_write_header_coherent.
Print Assumptions update_num_dir_sectors_header.
Print Assumptions append_fat_sector_header.
Print Assumptions allocate_sector_header.
Print Assumptions mini_first_branch_header.
Print Assumptions mini_extend_branch_header.
Print Assumptions Examples.create_state_coherent.
Print Assumptions Examples.create_state_reopens.
Print Assumptions Examples.ex3_coherent.
Print Assumptions Examples.ex4_coherent.
Print Assumptions Examples.more_coherent.
Print Assumptions Examples.ex3_reopens_by_computation.
