(* ReuseProofs.v — property C15 "released space is reused": the file (its
   number of sectors) grows only when nothing is free.
   Stdlib only; no axioms, no admits. *)
From Coq Require Import List NArith Lia Bool ZifyN ZifyBool.
From Cfb.model Require Import Base Names DirEnt State Alloc Dir Mini.
From Cfb.gen Require Import Consts.
From Cfb.proofs Require Import ChainProofs.
From Cfb.proofs Require CodecProofs WalkProofs.
Import ListNotations.
Open Scope N_scope.

Ltac Zify.zify_post_hook ::= Z.div_mod_to_equations.

(* ------------------------------------------------------------------ *)
(* the state monad: forward execution and inversion                    *)
(* ------------------------------------------------------------------ *)

Lemma bind_exec {A B} (m : M A) (f : A -> M B) s s1 a :
  m s = (s1, Ok a) -> bind m f s = f a s1.
Proof. intro H. unfold bind. rewrite H. reflexivity. Qed.

Lemma bind_ok {A B} (m : M A) (f : A -> M B) s s' x :
  bind m f s = (s', Ok x) ->
  exists a s1, m s = (s1, Ok a) /\ f a s1 = (s', Ok x).
Proof.
  unfold bind. destruct (m s) as [s1 [a|k|n|]]; intro H; try discriminate.
  exists a, s1. split; [reflexivity | exact H].
Qed.

Lemma get_exec s : get s = (s, Ok s).
Proof. reflexivity. Qed.

Lemma bind_get {B} (f : cstate -> M B) s : bind get f s = f s s.
Proof. reflexivity. Qed.

Lemma bind_modify {B} (g : cstate -> cstate) (f : unit -> M B) s :
  bind (modify g) f s = f tt (g s).
Proof. reflexivity. Qed.

Lemma bind_ret {A B} (a : A) (f : A -> M B) s : bind (ret a) f s = f a s.
Proof. reflexivity. Qed.

Lemma bind_put {B} (s' : cstate) (f : unit -> M B) s : bind (put s') f s = f tt s'.
Proof. reflexivity. Qed.

Lemma bind_lift_ok {A B} (a : A) (f : A -> M B) s : bind (lift (Ok a)) f s = f a s.
Proof. reflexivity. Qed.

Lemma pair_ok_inv {A} (s s' : cstate) (a b : A) : (s, Ok a) = (s', Ok b) -> s = s' /\ a = b.
Proof. intro H. injection H as -> ->. split; reflexivity. Qed.

(* ------------------------------------------------------------------ *)
(* sector length                                                       *)
(* ------------------------------------------------------------------ *)

Lemma slen_cases : forall s, slen s = 512 \/ slen s = 4096.
Proof. intro s. unfold slen. destruct (ver s); [left | right]; reflexivity. Qed.

Lemma fps_cases : forall s,
  (slen s = 512 /\ fat_per_sector s = 128) \/ (slen s = 4096 /\ fat_per_sector s = 1024).
Proof.
  intro s. unfold fat_per_sector, slen. destruct (ver s); [left | right]; split; reflexivity.
Qed.

Lemma fps_pos : forall s, 0 < fat_per_sector s.
Proof. intro s. destruct (fps_cases s) as [[_ H]|[_ H]]; rewrite H; lia. Qed.

Lemma fps_slen : forall s, 4 * fat_per_sector s = slen s.
Proof. intro s. destruct (fps_cases s) as [[H1 H2]|[H1 H2]]; rewrite H1, H2; reflexivity. Qed.

Definition cell_off (s : cstate) (index : N) : N := 4 * (index mod fat_per_sector s).

Lemma cell_off_fits : forall s index, cell_off s index + 4 <= slen s.
Proof.
  intros s index. unfold cell_off. pose proof (fps_slen s). pose proof (fps_pos s).
  pose proof (N.mod_lt index (fat_per_sector s)). lia.
Qed.

Lemma lenN_init_bytes : forall v i, lenN (init_bytes v i) = sector_len v.
Proof. intros v i. destruct v, i; vm_compute; reflexivity. Qed.

(* ------------------------------------------------------------------ *)
(* the functional form of a successful sector write                    *)
(* ------------------------------------------------------------------ *)

Definition wr (s : cstate) (sid off : N) (bs : list byte) : cstate :=
  w_img s (updN (img s) (sid + 1) (spliceN (sector_bytes s sid) off bs)).

Definition full (s : cstate) : Prop :=
  forall sid, sid < nsect s -> lenN (sector_bytes s sid) = slen s.

Lemma sector_write_exec : forall s sid off bs,
  sid < nsect s -> lenN (sector_bytes s sid) = slen s -> off + lenN bs <= slen s ->
  sector_write sid off bs s = (wr s sid off bs, Ok tt).
Proof.
  intros s sid off bs H1 H2 H3.
  destruct (sector_write_read s sid off bs H1 H2 H3) as (s' & E1 & E2 & _).
  rewrite E1, E2. reflexivity.
Qed.

Lemma sector_bytes_wr_same : forall s sid off bs,
  lenN (sector_bytes s sid) = slen s ->
  sector_bytes (wr s sid off bs) sid = spliceN (sector_bytes s sid) off bs.
Proof.
  intros s sid off bs H. unfold sector_bytes at 1. unfold wr. cbn [img w_img].
  rewrite nthN_updN_same; [reflexivity|].
  unfold sector_bytes in H. destruct (nthN (img s) (sid + 1)) eqn:E.
  - eapply nthN_Some_lt. exact E.
  - cbn [lenN] in H. pose proof (slen_pos s). lia.
Qed.

Lemma sector_bytes_wr_other : forall s sid off bs sid',
  sid' <> sid -> sector_bytes (wr s sid off bs) sid' = sector_bytes s sid'.
Proof.
  intros s sid off bs sid' H. unfold sector_bytes, wr. cbn [img w_img].
  rewrite nthN_updN_other by lia. reflexivity.
Qed.

Lemma lenN_sector_bytes_wr : forall s sid off bs sid',
  lenN (sector_bytes s sid) = slen s -> off + lenN bs <= slen s ->
  lenN (sector_bytes (wr s sid off bs) sid') = lenN (sector_bytes s sid').
Proof.
  intros s sid off bs sid' H1 H2. destruct (N.eq_dec sid' sid) as [->|Hne].
  - rewrite sector_bytes_wr_same by exact H1. rewrite lenN_spliceN. blia.
  - rewrite sector_bytes_wr_other by exact Hne. reflexivity.
Qed.

Lemma full_wr : forall s sid off bs,
  full s -> sid < nsect s -> off + lenN bs <= slen s -> full (wr s sid off bs).
Proof.
  intros s sid off bs Hf Hs Hb sid' Hs'. cbn [wr w_img nsect] in Hs'.
  rewrite lenN_sector_bytes_wr by (try apply Hf; assumption).
  apply Hf. exact Hs'.
Qed.

Lemma lenN_img_wr : forall s sid off bs, lenN (img (wr s sid off bs)) = lenN (img s).
Proof. intros. unfold wr. cbn [img w_img]. apply lenN_updN. Qed.

(* projections that ignore the tables *)
Lemma sector_bytes_ext : forall s s', img s' = img s -> forall sid, sector_bytes s' sid = sector_bytes s sid.
Proof. intros s s' H sid. unfold sector_bytes. rewrite H. reflexivity. Qed.

Lemma full_ext : forall s s',
  img s' = img s -> nsect s' = nsect s -> ver s' = ver s -> full s -> full s'.
Proof.
  intros s s' Hi Hn Hv Hf sid Hs. rewrite (sector_bytes_ext s s' Hi).
  unfold slen. rewrite Hv. rewrite Hn in Hs. apply Hf. exact Hs.
Qed.

(* ------------------------------------------------------------------ *)
(* set_fat and init_sector, executed                                    *)
(* ------------------------------------------------------------------ *)

Definition fat_set (l : list N) (index v : N) : list N :=
  if index =? lenN l then l ++ [v] else updN l index v.

Definition set_fat_state (s : cstate) (index v f : N) : cstate :=
  w_fat (wr s f (cell_off s index) (le_bytes 4 v)) (fat_set (fat s) index v).

Lemma set_fat_exec : forall s index v f,
  index <= lenN (fat s) ->
  nthN (difat s) (index / fat_per_sector s) = Some f ->
  f < nsect s -> lenN (sector_bytes s f) = slen s ->
  set_fat index v s = (set_fat_state s index v f, Ok tt).
Proof.
  intros s index v f Hi Hd Hf Hl. unfold set_fat. rewrite bind_get.
  destruct (lenN (fat s) <? index) eqn:E; [lia|]. rewrite Hd.
  rewrite (bind_exec _ _ _ _ _ (sector_write_exec s f (cell_off s index) (le_bytes 4 v) Hf Hl
             ltac:(rewrite CodecProofs.lenN_le_bytes4; apply cell_off_fits))).
  reflexivity.
Qed.

Definition init_state (s : cstate) (sid : N) (i : sinit) : cstate :=
  wr s sid 0 (init_bytes (ver s) i).

Lemma init_sector_exec : forall s sid i,
  sid < nsect s -> lenN (sector_bytes s sid) = slen s ->
  init_sector sid i s = (init_state s sid i, Ok tt).
Proof.
  intros s sid i Hs Hl. unfold init_sector. rewrite bind_get.
  destruct (nsect s <? sid) eqn:E1; [lia|].
  destruct (sid =? nsect s) eqn:E2; [lia|].
  rewrite bind_ret, bind_get.
  apply sector_write_exec; [exact Hs | exact Hl |].
  rewrite lenN_init_bytes. unfold slen. lia.
Qed.

(* field projections of the executed states *)
Lemma set_fat_state_fields : forall s index v f,
  ver (set_fat_state s index v f) = ver s /\
  nsect (set_fat_state s index v f) = nsect s /\
  difat_ids (set_fat_state s index v f) = difat_ids s /\
  difat (set_fat_state s index v f) = difat s /\
  fat (set_fat_state s index v f) = fat_set (fat s) index v /\
  free (set_fat_state s index v f) = free s /\
  dirs (set_fat_state s index v f) = dirs s /\
  minifat (set_fat_state s index v f) = minifat s /\
  mfree (set_fat_state s index v f) = mfree s /\
  slen (set_fat_state s index v f) = slen s /\
  fat_per_sector (set_fat_state s index v f) = fat_per_sector s /\
  lenN (img (set_fat_state s index v f)) = lenN (img s).
Proof.
  intros. unfold set_fat_state. repeat split.
  cbn [img w_fat]. apply lenN_img_wr.
Qed.

Lemma init_state_fields : forall s sid i,
  ver (init_state s sid i) = ver s /\
  nsect (init_state s sid i) = nsect s /\
  difat_ids (init_state s sid i) = difat_ids s /\
  difat (init_state s sid i) = difat s /\
  fat (init_state s sid i) = fat s /\
  free (init_state s sid i) = free s /\
  dirs (init_state s sid i) = dirs s /\
  minifat (init_state s sid i) = minifat s /\
  mfree (init_state s sid i) = mfree s /\
  slen (init_state s sid i) = slen s /\
  fat_per_sector (init_state s sid i) = fat_per_sector s /\
  lenN (img (init_state s sid i)) = lenN (img s).
Proof.
  intros. unfold init_state. repeat split. apply lenN_img_wr.
Qed.

Lemma full_set_fat_state : forall s index v f,
  full s -> f < nsect s -> full (set_fat_state s index v f).
Proof.
  intros s index v f Hf Hs. unfold set_fat_state.
  eapply full_ext; [reflexivity | reflexivity | reflexivity |].
  apply full_wr; [exact Hf | exact Hs |].
  rewrite CodecProofs.lenN_le_bytes4. apply cell_off_fits.
Qed.

Lemma full_init_state : forall s sid i,
  full s -> sid < nsect s -> full (init_state s sid i).
Proof.
  intros s sid i Hf Hs. unfold init_state. apply full_wr; [exact Hf | exact Hs |].
  rewrite lenN_init_bytes. unfold slen. lia.
Qed.

(* fat_set *)
Lemma lenN_fat_set_lt : forall l index v, index < lenN l -> lenN (fat_set l index v) = lenN l.
Proof.
  intros l index v H. unfold fat_set. destruct (index =? lenN l) eqn:E; [lia|]. apply lenN_updN.
Qed.

Lemma lenN_fat_set_eq : forall l v, lenN (fat_set l (lenN l) v) = lenN l + 1.
Proof.
  intros l v. unfold fat_set. rewrite N.eqb_refl. rewrite lenN_app. reflexivity.
Qed.

Lemma nthN_app_l : forall A (a b : list A) i, i < lenN a -> nthN (a ++ b) i = nthN a i.
Proof.
  intros A a. induction a as [|x a IH]; intros b i H.
  - cbn [lenN] in H. lia.
  - cbn [lenN] in H. cbn [app nthN]. destruct (i =? 0) eqn:E; [reflexivity|].
    apply IH. lia.
Qed.

Lemma nthN_app_r : forall A (a b : list A) i, lenN a <= i -> nthN (a ++ b) i = nthN b (i - lenN a).
Proof.
  intros A a. induction a as [|x a IH]; intros b i H.
  - cbn [lenN app]. rewrite N.sub_0_r. reflexivity.
  - cbn [lenN] in *. cbn [app nthN]. destruct (i =? 0) eqn:E; [lia|].
    rewrite IH by lia. f_equal. lia.
Qed.

Lemma nthN_fat_set_same : forall l index v, index <= lenN l -> nthN (fat_set l index v) index = Some v.
Proof.
  intros l index v H. unfold fat_set. destruct (index =? lenN l) eqn:E.
  - apply N.eqb_eq in E. subst index. rewrite nthN_app_r by lia.
    rewrite N.sub_diag. reflexivity.
  - apply nthN_updN_same. lia.
Qed.

Lemma nthN_fat_set_other : forall l index v j, j <> index -> index <= lenN l ->
  nthN (fat_set l index v) j = nthN l j.
Proof.
  intros l index v j Hne Hle. unfold fat_set. destruct (index =? lenN l) eqn:E.
  - apply N.eqb_eq in E. subst index.
    destruct (N.lt_ge_cases j (lenN l)) as [Hlt|Hge].
    + apply nthN_app_l. exact Hlt.
    + rewrite nthN_app_r by lia. cbn [nthN].
      destruct (j - lenN l =? 0) eqn:E0; [lia|].
      destruct (nthN l j) eqn:En; [|reflexivity].
      apply nthN_Some_lt in En. lia.
  - apply nthN_updN_other. lia.
Qed.

(* the free stack *)
Lemma lastN_snoc : forall A (l : list A) x, lastN (l ++ [x]) = Some x.
Proof. intros A l x. unfold lastN. rewrite rev_unit. reflexivity. Qed.

Lemma pop_last_snoc : forall A (l : list A) x, pop_last (l ++ [x]) = l.
Proof. intros A l x. unfold pop_last. apply removelast_last. Qed.

Lemma lastN_Some_snoc : forall A (l : list A) x, lastN l = Some x -> l = pop_last l ++ [x].
Proof.
  intros A l x H. destruct (exists_last (l := l)) as (l' & a & E).
  - intro E. subst l. discriminate.
  - subst l. rewrite lastN_snoc in H. injection H as ->. rewrite pop_last_snoc. reflexivity.
Qed.

Lemma lastN_None_nil : forall A (l : list A), lastN l = None -> l = [].
Proof.
  intros A l H. destruct l as [|x t]; [reflexivity|].
  destruct (exists_last (l := x :: t)) as (l' & a & E); [discriminate|].
  rewrite E in H. rewrite lastN_snoc in H. discriminate.
Qed.

Lemma In_pop_last : forall A (l : list A) x, In x (pop_last l) -> In x l.
Proof.
  intros A l x H. destruct (lastN l) as [a|] eqn:E.
  - rewrite (lastN_Some_snoc _ _ _ E). apply in_or_app. left. exact H.
  - apply lastN_None_nil in E. subst l. exact H.
Qed.

(* ------------------------------------------------------------------ *)
(* allocator well-formedness                                           *)
(* ------------------------------------------------------------------ *)

(* every FAT index is backed by a FAT sector that exists *)
Definition backed (s : cstate) : Prop :=
  forall i, i < lenN (fat s) ->
    exists f, nthN (difat s) (i / fat_per_sector s) = Some f /\ f < nsect s.

Definition free_ok (s : cstate) : Prop :=
  forall x, In x (free s) -> x < nsect s /\ x < lenN (fat s).

Ltac csplit := repeat match goal with |- _ /\ _ => split end.

Record AllocWf (s : cstate) : Prop := mkAllocWf {
  wf_img : lenN (img s) = nsect s + 1;
  wf_full : full s;
  wf_free : free_ok s;
  wf_backed : backed s
}.

(* ------------------------------------------------------------------ *)
(* R1: with a free sector available, allocation takes it and the file   *)
(* does not grow                                                       *)
(* ------------------------------------------------------------------ *)

Definition reuse_state (i : sinit) (s : cstate) (sid f : N) : cstate :=
  init_state (set_fat_state (w_free s (pop_last (free s))) sid END_OF_CHAIN f) sid i.

Lemma allocate_reuse_exec : forall i s sid f,
  lastN (free s) = Some sid ->
  sid < nsect s -> sid < lenN (fat s) ->
  nthN (difat s) (sid / fat_per_sector s) = Some f -> f < nsect s ->
  full s ->
  allocate_sector i s = (reuse_state i s sid f, Ok sid).
Proof.
  intros i s sid f Hl Hs Hfat Hd Hf Hfull.
  unfold allocate_sector. rewrite bind_get. rewrite Hl. rewrite bind_modify.
  set (s1 := w_free s (pop_last (free s))).
  assert (Hfull1 : full s1) by (eapply full_ext; [| | | exact Hfull]; reflexivity).
  rewrite (bind_exec _ _ _ _ _ (set_fat_exec s1 sid END_OF_CHAIN f
            ltac:(cbn [s1 fat w_free]; lia) Hd Hf (Hfull1 f Hf))).
  set (s2 := set_fat_state s1 sid END_OF_CHAIN f).
  assert (Hfull2 : full s2) by (apply full_set_fat_state; assumption).
  rewrite (bind_exec _ _ _ _ _ (init_sector_exec s2 sid i Hs (Hfull2 sid Hs))).
  reflexivity.
Qed.

Lemma reuse_state_fields : forall i s sid f,
  sid < lenN (fat s) ->
  ver (reuse_state i s sid f) = ver s /\
  nsect (reuse_state i s sid f) = nsect s /\
  difat_ids (reuse_state i s sid f) = difat_ids s /\
  difat (reuse_state i s sid f) = difat s /\
  fat (reuse_state i s sid f) = updN (fat s) sid END_OF_CHAIN /\
  free (reuse_state i s sid f) = pop_last (free s) /\
  dirs (reuse_state i s sid f) = dirs s /\
  minifat (reuse_state i s sid f) = minifat s /\
  mfree (reuse_state i s sid f) = mfree s /\
  slen (reuse_state i s sid f) = slen s /\
  fat_per_sector (reuse_state i s sid f) = fat_per_sector s /\
  lenN (img (reuse_state i s sid f)) = lenN (img s).
Proof.
  intros i s sid f H. unfold reuse_state.
  repeat split.
  - cbn [fat init_state wr w_img set_fat_state w_fat w_free]. unfold fat_set.
    destruct (sid =? lenN (fat s)) eqn:E; [lia | reflexivity].
  - unfold init_state. rewrite lenN_img_wr. unfold set_fat_state. cbn [img w_fat].
    rewrite lenN_img_wr. reflexivity.
Qed.

Lemma reuse_state_full : forall i s sid f,
  full s -> sid < nsect s -> f < nsect s -> full (reuse_state i s sid f).
Proof.
  intros i s sid f Hfull Hs Hf. unfold reuse_state.
  apply full_init_state; [|exact Hs].
  apply full_set_fat_state; [|exact Hf].
  eapply full_ext; [| | | exact Hfull]; reflexivity.
Qed.

Theorem allocate_reuses : forall i s,
  free s <> [] ->
  (forall x, In x (free s) -> x < nsect s /\ x < lenN (fat s)) ->
  (forall j, j < lenN (fat s) ->
     exists f, nthN (difat s) (j / fat_per_sector s) = Some f /\ f < nsect s) ->
  lenN (img s) = nsect s + 1 ->
  (forall sid, sid < nsect s -> lenN (sector_bytes s sid) = slen s) ->
  exists sid s',
    allocate_sector i s = (s', Ok sid) /\
    lastN (free s) = Some sid /\
    free s' = pop_last (free s) /\
    nsect s' = nsect s /\
    lenN (img s') = lenN (img s) /\
    lenN (fat s') = lenN (fat s) /\
    nthN (fat s') sid = Some END_OF_CHAIN /\
    (forall j, j <> sid -> nthN (fat s') j = nthN (fat s) j) /\
    AllocWf s'.
Proof.
  intros i s Hne Hfree Hback Himg Hfull.
  destruct (exists_last Hne) as (l & sid & El).
  assert (Hlast : lastN (free s) = Some sid) by (rewrite El; apply lastN_snoc).
  destruct (Hfree sid) as [Hs Hfat]; [rewrite El; apply in_or_app; right; left; reflexivity|].
  destruct (Hback sid Hfat) as (f & Hd & Hf).
  exists sid, (reuse_state i s sid f).
  pose proof (reuse_state_fields i s sid f Hfat)
    as (Ev & En & Edi & Ed & Efat & Efr & _ & _ & _ & Esl & Efps & Eimg).
  split; [apply allocate_reuse_exec; assumption|].
  split; [exact Hlast|]. split; [exact Efr|]. split; [exact En|]. split; [exact Eimg|].
  split; [rewrite Efat; apply lenN_updN|].
  split; [rewrite Efat; apply nthN_updN_same; exact Hfat|].
  split; [intros j Hj; rewrite Efat; apply nthN_updN_other; lia|].
  constructor.
  - rewrite Eimg, En. exact Himg.
  - apply reuse_state_full; assumption.
  - intros x Hx. rewrite Efr in Hx. apply In_pop_last in Hx.
    rewrite En, Efat, lenN_updN. apply Hfree. exact Hx.
  - intros j Hj. rewrite Efat, lenN_updN in Hj. rewrite Ed, Efps, En. apply Hback. exact Hj.
Qed.

Corollary allocate_reuses_wf : forall i s,
  AllocWf s -> free s <> [] ->
  exists sid s',
    allocate_sector i s = (s', Ok sid) /\
    lastN (free s) = Some sid /\
    free s' = pop_last (free s) /\
    nsect s' = nsect s /\
    AllocWf s'.
Proof.
  intros i s [H1 H2 H3 H4] Hne.
  destruct (allocate_reuses i s Hne H3 H4 H1 H2)
    as (sid & s' & E & Hl & Hf & Hn & _ & _ & _ & _ & Hwf).
  exists sid, s'. split; [exact E|]. split; [exact Hl|]. split; [exact Hf|].
  split; [exact Hn | exact Hwf].
Qed.

(* ------------------------------------------------------------------ *)
(* R3: last freed, first reused                                         *)
(* ------------------------------------------------------------------ *)

Definition free_state (s : cstate) (x f : N) : cstate :=
  let s1 := set_fat_state s x FREE_SECTOR f in w_free s1 (free s1 ++ [x]).

Lemma free_sector_exec : forall s x f,
  x < lenN (fat s) -> nthN (fat s) x <> Some FREE_SECTOR ->
  nthN (difat s) (x / fat_per_sector s) = Some f -> f < nsect s ->
  lenN (sector_bytes s f) = slen s ->
  free_sector x s = (free_state s x f, Ok tt).
Proof.
  intros s x f Hx Hv Hd Hf Hl. unfold free_sector. rewrite bind_get.
  assert (E : (set_fat x FREE_SECTOR;;
               modify (fun s0 : cstate => w_free s0 (free s0 ++ [x]))) s
              = (free_state s x f, Ok tt)).
  { rewrite (bind_exec _ _ _ _ _ (set_fat_exec s x FREE_SECTOR f ltac:(lia) Hd Hf Hl)).
    reflexivity. }
  destruct (nthN (fat s) x) as [v|] eqn:En; [|exact E].
  destruct (v =? FREE_SECTOR) eqn:Ev; [|exact E].
  apply N.eqb_eq in Ev. subst v. congruence.
Qed.

Lemma free_state_fields : forall s x f,
  x < lenN (fat s) ->
  ver (free_state s x f) = ver s /\
  nsect (free_state s x f) = nsect s /\
  difat_ids (free_state s x f) = difat_ids s /\
  difat (free_state s x f) = difat s /\
  fat (free_state s x f) = updN (fat s) x FREE_SECTOR /\
  free (free_state s x f) = free s ++ [x] /\
  dirs (free_state s x f) = dirs s /\
  minifat (free_state s x f) = minifat s /\
  mfree (free_state s x f) = mfree s /\
  slen (free_state s x f) = slen s /\
  fat_per_sector (free_state s x f) = fat_per_sector s /\
  lenN (img (free_state s x f)) = lenN (img s).
Proof.
  intros s x f H. unfold free_state. repeat split.
  - cbn [fat set_fat_state w_fat w_free]. unfold fat_set.
    destruct (x =? lenN (fat s)) eqn:E; [lia | reflexivity].
  - cbn [img w_free set_fat_state w_fat]. apply lenN_img_wr.
Qed.

Lemma free_state_wf : forall s x f,
  AllocWf s -> x < nsect s -> x < lenN (fat s) -> f < nsect s ->
  AllocWf (free_state s x f).
Proof.
  intros s x f [H1 H2 H3 H4] Hx Hxf Hf.
  pose proof (free_state_fields s x f Hxf)
    as (Ev & En & Edi & Ed & Efat & Efr & _ & _ & _ & Esl & Efps & Eimg).
  constructor.
  - rewrite Eimg, En. exact H1.
  - unfold free_state.
    eapply full_ext; [| | | apply (full_set_fat_state s x FREE_SECTOR f H2 Hf)]; reflexivity.
  - intros y Hy. rewrite Efr in Hy. rewrite En, Efat, lenN_updN.
    apply in_app_or in Hy. destruct Hy as [Hy|[<-|[]]]; [apply H3; exact Hy | split; assumption].
  - intros j Hj. rewrite Efat, lenN_updN in Hj. rewrite Ed, Efps, En. apply H4. exact Hj.
Qed.

Theorem free_then_allocate_no_growth : forall i s x,
  AllocWf s -> x < nsect s -> x < lenN (fat s) -> nthN (fat s) x <> Some FREE_SECTOR ->
  exists s1 s2,
    free_sector x s = (s1, Ok tt) /\
    allocate_sector i s1 = (s2, Ok x) /\
    nsect s1 = nsect s /\ nsect s2 = nsect s /\
    lenN (img s2) = lenN (img s) /\
    free s1 = free s ++ [x] /\ free s2 = free s /\
    AllocWf s1 /\ AllocWf s2.
Proof.
  intros i s x Hwf Hx Hxf Hv.
  destruct (wf_backed s Hwf x Hxf) as (f & Hd & Hf).
  pose proof (free_state_fields s x f Hxf)
    as (Ev & En & Edi & Ed & Efat & Efr & _ & _ & _ & Esl & Efps & Eimg).
  pose proof (free_state_wf s x f Hwf Hx Hxf Hf) as Hwf1.
  exists (free_state s x f).
  destruct (allocate_reuses_wf i (free_state s x f) Hwf1)
    as (sid & s2 & E2 & Hl & Hfr2 & Hn2 & Hwf2).
  { rewrite Efr. intro E. apply app_eq_nil in E. destruct E as [_ E]. discriminate. }
  rewrite Efr, lastN_snoc in Hl. injection Hl as <-.
  exists s2. split; [apply free_sector_exec; try assumption; apply (wf_full s Hwf); exact Hf|].
  split; [exact E2|]. split; [exact En|]. split; [rewrite Hn2; exact En|].
  split.
  { rewrite (wf_img s2 Hwf2), (wf_img s Hwf), Hn2, En. reflexivity. }
  split; [exact Efr|]. split; [rewrite Hfr2, Efr; apply pop_last_snoc|].
  split; assumption.
Qed.

(* the same with the success of free_sector as a hypothesis *)
Corollary free_then_allocate_no_growth' : forall i s x s1,
  AllocWf s -> x < nsect s -> x < lenN (fat s) ->
  free_sector x s = (s1, Ok tt) ->
  exists s2, allocate_sector i s1 = (s2, Ok x) /\ nsect s2 = nsect s /\
             lenN (img s2) = lenN (img s) /\ free s2 = free s.
Proof.
  intros i s x s1 Hwf Hx Hxf Hfree.
  assert (Hv : nthN (fat s) x <> Some FREE_SECTOR).
  { intro E. unfold free_sector in Hfree. rewrite bind_get, E in Hfree.
    rewrite N.eqb_refl in Hfree. discriminate. }
  destruct (free_then_allocate_no_growth i s x Hwf Hx Hxf Hv)
    as (s1' & s2 & E1 & E2 & _ & Hn & Hi & _ & Hf & _).
  rewrite Hfree in E1. injection E1 as <-.
  exists s2. csplit; assumption.
Qed.

(* ------------------------------------------------------------------ *)
(* R4: a freed chain of k sectors feeds the next k allocations          *)
(* ------------------------------------------------------------------ *)

Lemma next_of_updN_other : forall fat x v a,
  a <> x -> next_of (updN fat x v) a = next_of fat a.
Proof.
  intros fat x v a H. unfold next_of. rewrite nthN_updN_other by lia.
  rewrite lenN_updN. reflexivity.
Qed.

Lemma path_updN : forall fat x v cur l,
  WalkProofs.path fat cur l -> ~ In x l -> WalkProofs.path (updN fat x v) cur l.
Proof.
  intros fat x v cur l Hp. induction Hp as [|cur nx l Hc Hn Hp IH]; intro Hni.
  - constructor.
  - econstructor; [exact Hc | | apply IH].
    + rewrite next_of_updN_other; [exact Hn|]. intro E. apply Hni. left. exact E.
    + intro Hin. apply Hni. right. exact Hin.
Qed.

Lemma free_chain_go_exec : forall ids fuel start s,
  AllocWf s -> WalkProofs.path (fat s) start ids -> NoDup ids ->
  Forall (fun x => x < nsect s) ids -> (length ids < fuel)%nat ->
  exists s1,
    free_chain_go fuel start s = (s1, Ok tt) /\
    free s1 = free s ++ ids /\ nsect s1 = nsect s /\
    lenN (img s1) = lenN (img s) /\ lenN (fat s1) = lenN (fat s) /\
    AllocWf s1.
Proof.
  induction ids as [|a l IH]; intros fuel start s Hwf Hp Hnd Hall Hfuel.
  - inversion Hp; subst. destruct fuel as [|fuel]; [cbn in Hfuel; lia|].
    exists s. cbn [free_chain_go]. rewrite N.eqb_refl, app_nil_r.
    csplit; try reflexivity; exact Hwf.
  - inversion Hp as [|cur nx l' Hc Hn Hp']; subst.
    destruct fuel as [|fuel]; [cbn in Hfuel; lia|]. cbn [free_chain_go].
    destruct (a =? END_OF_CHAIN) eqn:Ea; [apply N.eqb_eq in Ea; contradiction|].
    assert (Hnext : next a s = (s, Ok nx)) by (unfold next; rewrite bind_get, Hn; reflexivity).
    rewrite (bind_exec _ _ _ _ _ Hnext).
    pose proof (WalkProofs.next_of_lt _ _ _ Hn) as Halt.
    apply WalkProofs.next_of_Ok in Hn. destruct Hn as [Hnth Hrange].
    assert (Hv : nthN (fat s) a <> Some FREE_SECTOR).
    { rewrite Hnth. intro E. injection E as E.
      pose proof WalkProofs.MAXREG_lt_FREE. destruct Hrange as [Hr|[Hr _]]; [|lia].
      rewrite E in Hr. discriminate Hr. }
    pose proof (Forall_inv Hall) as Ha. cbv beta in Ha.
    destruct (wf_backed s Hwf a Halt) as (f & Hd & Hf).
    rewrite (bind_exec _ _ _ _ _
               (free_sector_exec s a f Halt Hv Hd Hf (wf_full s Hwf f Hf))).
    pose proof (free_state_fields s a f Halt)
      as (Ev & En & Edi & Ed & Efat & Efr & _ & _ & _ & Esl & Efps & Eimg).
    pose proof (free_state_wf s a f Hwf Ha Halt Hf) as Hwf1.
    inversion Hnd as [|? ? Hni Hnd']; subst.
    destruct (IH fuel nx (free_state s a f) Hwf1) as (s1 & E1 & F1 & N1 & I1 & L1 & W1).
    + rewrite Efat. apply path_updN; assumption.
    + exact Hnd'.
    + rewrite En. exact (Forall_inv_tail Hall).
    + cbn [length] in Hfuel. lia.
    + exists s1. split; [exact E1|]. split.
      { rewrite F1, Efr, <- app_assoc. reflexivity. }
      split; [rewrite N1; exact En|]. split; [rewrite I1; exact Eimg|].
      split; [rewrite L1, Efat; apply lenN_updN | exact W1].
Qed.

Fixpoint alloc_n (k : nat) (i : sinit) : M (list N) :=
  match k with
  | O => ret []
  | S k' => do sid <- allocate_sector i; do r <- alloc_n k' i; ret (sid :: r)
  end.

Lemma alloc_n_reuse : forall i l base s,
  AllocWf s -> free s = base ++ rev l ->
  exists s', alloc_n (length l) i s = (s', Ok l) /\
             free s' = base /\ nsect s' = nsect s /\ lenN (img s') = lenN (img s) /\
             AllocWf s'.
Proof.
  intros i l. induction l as [|a l IH]; intros base s Hwf Hfree.
  - exists s. cbn [rev] in Hfree. rewrite app_nil_r in Hfree.
    cbn [length alloc_n]. csplit; try reflexivity; assumption.
  - cbn [rev] in Hfree. rewrite app_assoc in Hfree.
    destruct (allocate_reuses_wf i s Hwf) as (sid & s1 & E1 & Hl & Hf1 & Hn1 & Hwf1).
    { rewrite Hfree. intro E. apply app_eq_nil in E. destruct E as [_ E]. discriminate. }
    rewrite Hfree, lastN_snoc in Hl. injection Hl as <-.
    rewrite Hfree, pop_last_snoc in Hf1.
    destruct (IH base s1 Hwf1 Hf1) as (s' & E' & Hf' & Hn' & Hi' & Hwf').
    exists s'. cbn [length alloc_n].
    rewrite (bind_exec _ _ _ _ _ E1), (bind_exec _ _ _ _ _ E').
    split; [reflexivity|]. split; [exact Hf'|]. split; [rewrite Hn'; exact Hn1|].
    split; [|exact Hwf'].
    rewrite (wf_img s' Hwf'), (wf_img s Hwf), Hn', Hn1. reflexivity.
Qed.

Theorem free_chain_then_alloc : forall i s start ids,
  AllocWf s -> chain_ids_of (fat s) start = Ok ids -> NoDup ids ->
  Forall (fun x => x < nsect s) ids ->
  exists s1 s2,
    free_chain start s = (s1, Ok tt) /\
    free s1 = free s ++ ids /\ nsect s1 = nsect s /\
    alloc_n (length ids) i s1 = (s2, Ok (rev ids)) /\
    nsect s2 = nsect s /\ lenN (img s2) = lenN (img s) /\ free s2 = free s /\
    AllocWf s2.
Proof.
  intros i s start ids Hwf Hc Hnd Hall.
  pose proof (WalkProofs.chain_ids_path _ _ _ Hc) as Hp.
  assert (Hlen : (length ids < S (S (length (fat s))))%nat).
  { pose proof (WalkProofs.bounded_nodup_length _ _ Hnd (WalkProofs.path_lt _ _ _ Hp)) as H.
    rewrite WalkProofs.lenN_length, Nat2N.id in H. lia. }
  destruct (free_chain_go_exec ids _ start s Hwf Hp Hnd Hall Hlen)
    as (s1 & E1 & F1 & N1 & I1 & L1 & W1).
  destruct (alloc_n_reuse i (rev ids) (free s) s1 W1) as (s2 & E2 & F2 & N2 & I2 & W2).
  { rewrite rev_involutive. exact F1. }
  rewrite rev_length in E2.
  exists s1, s2. split; [unfold free_chain; rewrite bind_get; exact E1|].
  split; [exact F1|]. split; [exact N1|]. split; [exact E2|].
  split; [rewrite N2; exact N1|]. split; [rewrite I2; exact I1|]. split; [exact F2 | exact W2].
Qed.

(* a FAT walk that reaches END_OF_CHAIN never repeats a sector, so the NoDup
   hypothesis above is a consequence of chain_ids_of succeeding *)
Lemma path_fun : forall fat c l1, WalkProofs.path fat c l1 ->
  forall l2, WalkProofs.path fat c l2 -> l1 = l2.
Proof.
  intros fat c l1 Hp. induction Hp as [|cur nx l Hc Hn Hp IH]; intros l2 Hp2.
  - inversion Hp2; subst; [reflexivity | congruence].
  - inversion Hp2 as [|cur' nx' l' Hc' Hn' Hp']; subst; [congruence|].
    rewrite Hn in Hn'. injection Hn' as <-. f_equal. apply IH. exact Hp'.
Qed.

Lemma path_suffix : forall fat c l a, WalkProofs.path fat c l -> In a l ->
  exists l1 l2, l = l1 ++ a :: l2 /\ WalkProofs.path fat a (a :: l2).
Proof.
  intros fat c l a Hp. induction Hp as [|cur nx l Hc Hn Hp IH]; intro Hin.
  - destruct Hin.
  - destruct Hin as [<-|Hin].
    + exists [], l. split; [reflexivity|]. econstructor; eassumption.
    + destruct (IH Hin) as (l1 & l2 & -> & Hp2).
      exists (cur :: l1), l2. split; [reflexivity | exact Hp2].
Qed.

Lemma path_nodup : forall fat c l, WalkProofs.path fat c l -> NoDup l.
Proof.
  intros fat c l Hp. induction Hp as [|cur nx l Hc Hn Hp IH].
  - constructor.
  - constructor; [|exact IH]. intro Hin.
    destruct (path_suffix _ _ _ _ Hp Hin) as (l1 & l2 & El & Hp2).
    assert (Hp3 : WalkProofs.path fat cur (cur :: l)) by (econstructor; eassumption).
    pose proof (path_fun _ _ _ Hp2 _ Hp3) as E. injection E as E.
    subst l2. apply (f_equal (@length N)) in El. rewrite app_length in El.
    cbn [length] in El. lia.
Qed.

Theorem free_chain_then_alloc' : forall i s start ids,
  AllocWf s -> chain_ids_of (fat s) start = Ok ids ->
  Forall (fun x => x < nsect s) ids ->
  exists s1 s2,
    free_chain start s = (s1, Ok tt) /\
    free s1 = free s ++ ids /\ nsect s1 = nsect s /\
    alloc_n (length ids) i s1 = (s2, Ok (rev ids)) /\
    nsect s2 = nsect s /\ lenN (img s2) = lenN (img s) /\ free s2 = free s /\
    AllocWf s2.
Proof.
  intros i s start ids Hwf Hc Hall.
  apply free_chain_then_alloc; try assumption.
  eapply path_nodup. apply WalkProofs.chain_ids_path. exact Hc.
Qed.

(* ------------------------------------------------------------------ *)
(* R2: growth happens only on the empty free list, and is bounded       *)
(* ------------------------------------------------------------------ *)

(* what the growth argument tracks: version, free stack, FAT, sector count *)
Definition P (s : cstate) := (ver s, free s, fat s, nsect s).

Lemma sector_write_P : forall sid off bs s s' r,
  sector_write sid off bs s = (s', r) -> P s' = P s.
Proof.
  intros sid off bs s s' r. unfold sector_write, seek_sector, bind, get, panic, fail, ret, modify.
  destruct (slen s <? off); [intro H; injection H as <- _; reflexivity|].
  destruct (nsect s <=? sid); intro H; injection H as <- _; reflexivity.
Qed.

Lemma header_write_P : forall off bs s s' r,
  header_write off bs s = (s', r) -> P s' = P s.
Proof.
  intros off bs s s' r. unfold header_write, panic, modify.
  destruct (HEADER_LEN <=? off); intro H; injection H as <- _; reflexivity.
Qed.

Lemma init_sector_P : forall sid i s s',
  init_sector sid i s = (s', Ok tt) ->
  sid <= nsect s /\
  P s' = (ver s, free s, fat s, if sid =? nsect s then nsect s + 1 else nsect s).
Proof.
  intros sid i s s' H. unfold init_sector in H. rewrite bind_get in H.
  destruct (nsect s <? sid) eqn:E1.
  - unfold bind, fail in H. discriminate.
  - split; [lia|]. destruct (sid =? nsect s) eqn:E2.
    + rewrite bind_modify, bind_get in H. apply sector_write_P in H. rewrite H. reflexivity.
    + rewrite bind_ret, bind_get in H. apply sector_write_P in H. rewrite H. reflexivity.
Qed.

Lemma set_fat_P : forall index v s s',
  set_fat index v s = (s', Ok tt) ->
  index <= lenN (fat s) /\
  P s' = (ver s, free s, fat_set (fat s) index v, nsect s).
Proof.
  intros index v s s' H. unfold set_fat in H. rewrite bind_get in H.
  destruct (lenN (fat s) <? index) eqn:E1; [discriminate|]. split; [lia|].
  destruct (nthN (difat s) (index / fat_per_sector s)) as [f|]; [|discriminate].
  apply bind_ok in H. destruct H as ([] & s1 & H1 & H2).
  apply sector_write_P in H1. unfold modify in H2. injection H2 as <-.
  unfold P in *. cbn [ver free fat nsect w_fat].
  injection H1 as -> -> -> ->. reflexivity.
Qed.

Lemma P_inv : forall s s', P s' = P s ->
  ver s' = ver s /\ free s' = free s /\ fat s' = fat s /\ nsect s' = nsect s.
Proof. intros s s' H. unfold P in H. injection H as -> -> -> ->. repeat split. Qed.

Lemma P_inv' : forall s' a b c d, P s' = (a, b, c, d) ->
  ver s' = a /\ free s' = b /\ fat s' = c /\ nsect s' = d.
Proof. intros s' a b c d H. unfold P in H. injection H as -> -> -> ->. repeat split. Qed.

(* appending a sector: init at index nsect, then its FAT cell *)
Lemma append_pair : forall i v s s1 s2,
  lenN (fat s) = nsect s ->
  init_sector (lenN (fat s)) i s = (s1, Ok tt) ->
  forall s1', P s1' = P s1 ->
  set_fat (lenN (fat s)) v s1' = (s2, Ok tt) ->
  P s2 = (ver s, free s, fat s ++ [v], nsect s + 1) /\ lenN (fat s2) = nsect s2.
Proof.
  intros i v s s1 s2 Hinv H1 s1' HP H2.
  apply init_sector_P in H1. destruct H1 as [_ H1].
  rewrite Hinv, N.eqb_refl in H1. rewrite <- HP in H1.
  apply P_inv' in H1. destruct H1 as (Ev & Efr & Efat & En).
  apply set_fat_P in H2. destruct H2 as [_ H2].
  rewrite Ev, Efr, Efat, En in H2. unfold fat_set in H2. rewrite N.eqb_refl in H2.
  split; [exact H2|]. apply P_inv' in H2. destruct H2 as (_ & _ & -> & ->).
  rewrite lenN_app. cbn [lenN]. lia.
Qed.

Lemma append_fat_sector_P : forall s s',
  lenN (fat s) = nsect s ->
  append_fat_sector s = (s', Ok tt) ->
  ver s' = ver s /\ free s' = free s /\ lenN (fat s') = nsect s' /\
  (nsect s' = nsect s + 1 \/
   (NUM_DIFAT_HDR <= lenN (difat s) /\ nsect s' = nsect s + 2)).
Proof.
  intros s s' Hinv H. unfold append_fat_sector in H. rewrite bind_get in H.
  apply bind_ok in H. destruct H as ([] & s1 & H1 & H).
  rewrite bind_modify in H.
  apply bind_ok in H. destruct H as ([] & s3 & H3 & H).
  destruct (append_pair IFat FAT_SECTOR s s1 s3 Hinv H1
              (w_difat s1 (difat s1 ++ [lenN (fat s)])) eq_refl H3) as [HP3 Hinv3].
  apply P_inv' in HP3. destruct HP3 as (Ev3 & Efr3 & Efat3 & En3).
  apply bind_ok in H. destruct H as ([] & s4 & H4 & H).
  rewrite bind_get in H. apply header_write_P in H.
  apply P_inv in H. destruct H as (Ev & Efr & Efat & En).
  rewrite Ev, Efr, Efat, En.
  destruct (lenN (difat s) <? NUM_DIFAT_HDR) eqn:Ehdr.
  - apply header_write_P in H4. apply P_inv in H4. destruct H4 as (Ev4 & Efr4 & Efat4 & En4).
    rewrite Ev4, Efr4, Efat4, En4. split; [exact Ev3|]. split; [exact Efr3|].
    split; [exact Hinv3|]. left. exact En3.
  - rewrite bind_get in H4. apply bind_ok in H4. destruct H4 as ([] & s5 & H5 & H4).
    rewrite bind_get in H4.
    assert (H4P : P s4 = P s5).
    { destruct (nthN (difat_ids s5) _); [|discriminate]. eapply sector_write_P. exact H4. }
    apply P_inv in H4P. destruct H4P as (Ev4 & Efr4 & Efat4 & En4).
    rewrite Ev4, Efr4, Efat4, En4.
    match type of H5 with (if ?c then _ else _) _ = _ => destruct c eqn:Edif end.
    + apply bind_ok in H5. destruct H5 as ([] & s6 & H6 & H5).
      apply bind_ok in H5. destruct H5 as ([] & s7 & H7 & H5).
      destruct (append_pair IDifat DIFAT_SECTOR s3 s6 s7 Hinv3 H6 _ eq_refl H7) as [HP7 Hinv7].
      apply P_inv' in HP7. destruct HP7 as (Ev7 & Efr7 & Efat7 & En7).
      rewrite bind_get in H5.
      apply bind_ok in H5. destruct H5 as ([] & s8 & H8 & H5).
      rewrite bind_modify, bind_get in H5.
      assert (HP8 : P s8 = P s7).
      { destruct (lastN (difat_ids s7)); [eapply sector_write_P; exact H8|].
        unfold ret in H8. injection H8 as <-. reflexivity. }
      assert (HP5 : P s5 = P s8).
      { cbn [difat_ids w_difat_ids] in H5.
        destruct (difat_ids s8 ++ [lenN (fat s3)]); [discriminate|].
        apply header_write_P in H5. exact H5. }
      rewrite HP8 in HP5. apply P_inv in HP5. destruct HP5 as (Ev5 & Efr5 & Efat5 & En5).
      rewrite Ev5, Efr5, Efat5, En5.
      split; [congruence|]. split; [congruence|]. split; [exact Hinv7|].
      right. split; [lia|]. rewrite En7, En3. lia.
    + unfold ret in H5. injection H5 as <-.
      split; [exact Ev3|]. split; [exact Efr3|]. split; [exact Hinv3|]. left. exact En3.
Qed.

Theorem allocate_appends_only_when_full : forall i s s' sid,
  free s = [] -> lenN (fat s) = nsect s ->
  allocate_sector i s = (s', Ok sid) ->
  sid = nsect s' - 1 /\ lenN (fat s') = nsect s' /\ free s' = [] /\
  nsect s < nsect s' <= nsect s + 3 /\
  nthN (fat s') sid = Some END_OF_CHAIN /\
  (lenN (fat s) mod fat_per_sector s <> 0 -> nsect s' = nsect s + 1 /\ sid = nsect s) /\
  (lenN (difat s) < NUM_DIFAT_HDR -> nsect s' <= nsect s + 2).
Proof.
  intros i s s' sid Hfree Hinv H. unfold allocate_sector in H. rewrite bind_get in H.
  rewrite Hfree in H. change (lastN (@nil N)) with (@None N) in H.
  apply bind_ok in H. destruct H as ([] & s1 & H1 & H). rewrite bind_get in H.
  apply bind_ok in H. destruct H as ([] & s2 & H2 & H).
  apply bind_ok in H. destruct H as ([] & s3 & H3 & H).
  unfold ret in H. injection H as <- <-.
  assert (Hgrow : ver s1 = ver s /\ free s1 = free s /\ lenN (fat s1) = nsect s1 /\
                  (nsect s1 = nsect s /\ fat s1 = fat s /\ lenN (fat s) mod fat_per_sector s <> 0
                   \/ lenN (fat s) mod fat_per_sector s = 0 /\
                      (nsect s1 = nsect s + 1 \/
                       (NUM_DIFAT_HDR <= lenN (difat s) /\ nsect s1 = nsect s + 2)))).
  { destruct (lenN (fat s) mod fat_per_sector s =? 0) eqn:Em.
    - apply append_fat_sector_P in H1; [|exact Hinv].
      destruct H1 as (A & B & C & D). split; [exact A|]. split; [exact B|]. split; [exact C|].
      right. split; [lia | exact D].
    - unfold ret in H1. injection H1 as <-. split; [reflexivity|]. split; [reflexivity|].
      split; [exact Hinv|]. left. split; [reflexivity|]. split; [reflexivity | lia]. }
  destruct Hgrow as (Ev1 & Efr1 & Hinv1 & Hcases).
  apply set_fat_P in H2. destruct H2 as [_ H2].
  unfold fat_set in H2. rewrite N.eqb_refl in H2.
  apply P_inv' in H2. destruct H2 as (Ev2 & Efr2 & Efat2 & En2).
  apply init_sector_P in H3. destruct H3 as [_ H3].
  rewrite Ev2, Efr2, Efat2, En2, Hinv1, N.eqb_refl in H3.
  apply P_inv' in H3. destruct H3 as (Ev3 & Efr3 & Efat3 & En3).
  rewrite Efr3, Efat3, En3, Hinv1.
  assert (Hl : lenN (fat s1 ++ [END_OF_CHAIN]) = nsect s1 + 1)
    by (rewrite lenN_app, Hinv1; reflexivity).
  split; [lia|]. split; [exact Hl|]. split; [congruence|].
  split; [destruct Hcases as [(A & _ & _)|(_ & [A|(_ & A)])]; lia|].
  split; [rewrite <- Hinv1, nthN_app_r by lia; rewrite N.sub_diag; reflexivity|].
  split.
  - intro Hm. destruct Hcases as [(A & _ & _)|(B & _)]; [|contradiction]. lia.
  - intro Hd. destruct Hcases as [(A & _ & _)|(_ & [A|(B & _)])]; lia.
Qed.

(* ------------------------------------------------------------------ *)
(* R5: the MiniFAT allocator reuses before it grows                     *)
(* ------------------------------------------------------------------ *)

(* nothing the sector layer or the FAT allocator looks at has changed *)
Definition same_shape (s s' : cstate) : Prop :=
  nsect s' = nsect s /\ ver s' = ver s /\ lenN (img s') = lenN (img s) /\
  (forall x, lenN (sector_bytes s' x) = lenN (sector_bytes s x)) /\
  fat s' = fat s /\ free s' = free s /\ difat s' = difat s /\
  dir_start s' = dir_start s /\ minifat_start s' = minifat_start s.

Lemma same_shape_refl : forall s, same_shape s s.
Proof. intro s. unfold same_shape. repeat split. Qed.

Lemma same_shape_trans : forall a b c, same_shape a b -> same_shape b c -> same_shape a c.
Proof.
  intros a b c (A1 & A2 & A3 & A4 & A5 & A6 & A7 & A8 & A9)
               (B1 & B2 & B3 & B4 & B5 & B6 & B7 & B8 & B9).
  unfold same_shape. repeat split; try congruence.
  all: intro x; rewrite B4; apply A4.
Qed.

Lemma same_shape_slen : forall s s', same_shape s s' -> slen s' = slen s.
Proof. intros s s' (_ & Hv & _). unfold slen. rewrite Hv. reflexivity. Qed.

Lemma good_chain_shape : forall s s' ids, good_chain s ids -> same_shape s s' -> good_chain s' ids.
Proof.
  intros s s' ids (Hnd & HF & Himg & Hpos) Hsh.
  pose proof (same_shape_slen _ _ Hsh) as Hsl.
  destruct Hsh as (Hn & Hv & Hi & Hl & _).
  split; [exact Hnd|]. split; [|split].
  - rewrite Forall_forall in *. intros x Hx. destruct (HF x Hx) as [H1 H2].
    rewrite Hn, Hsl, Hl. split; assumption.
  - rewrite Hi, Hn. exact Himg.
  - rewrite Hsl. exact Hpos.
Qed.

Lemma chain_write_shape : forall s c bs,
  good_chain s (c_ids c) ->
  c_off c + lenN bs <= chain_len (slen s) c ->
  exists s',
    chain_write_all c bs s = (s', Ok (mkChain (c_init c) (c_ids c) (c_off c + lenN bs))) /\
    same_shape s s' /\ minifat s' = minifat s /\ mfree s' = mfree s /\ dirs s' = dirs s.
Proof.
  intros s c bs Hg Hfit.
  destruct (chain_write_spec s c bs Hg Hfit) as (s' & E & _ & _ & _ & _ & Hl & Hi & Hm).
  exists s'. split; [exact E|].
  destruct (same_meta_fields s s' Hm)
    as (A1 & A2 & A3 & A4 & A5 & A6 & A7 & A8 & A9 & A10 & A11 & A12).
  unfold same_shape. repeat split; assumption.
Qed.

Lemma dir_entry_exec : forall s id e, nthN (dirs s) id = Some e -> dir_entry id s = (s, Ok e).
Proof. intros s id e H. unfold dir_entry. rewrite bind_get, H. reflexivity. Qed.

Lemma set_dir_entry_exec : forall s id e0 e, nthN (dirs s) id = Some e0 ->
  set_dir_entry id e s = (w_dirs s (updN (dirs s) id e), Ok tt).
Proof. intros s id e0 e H. unfold set_dir_entry. rewrite bind_get, H. reflexivity. Qed.

Lemma chain_new_exec : forall s st i ids,
  chain_ids_of (fat s) st = Ok ids -> chain_new st i s = (s, Ok (mkChain i ids 0)).
Proof. intros s st i ids H. unfold chain_new. rewrite bind_get, H. reflexivity. Qed.

(* set_minifat inside the capacity of the MiniFAT chain *)
Lemma set_minifat_exec : forall s idx v ids,
  idx <= lenN (minifat s) ->
  chain_ids_of (fat s) (minifat_start s) = Ok ids -> good_chain s ids ->
  4 * idx + 4 <= slen s * lenN ids ->
  exists s',
    set_minifat idx v s = (s', Ok tt) /\ same_shape s s' /\
    minifat s' = fat_set (minifat s) idx v /\ mfree s' = mfree s /\ dirs s' = dirs s.
Proof.
  intros s idx v ids Hidx Hc Hg Hcap. unfold set_minifat. rewrite bind_get.
  destruct (lenN (minifat s) <? idx) eqn:E1; [lia|].
  rewrite (bind_exec _ _ _ _ _ (chain_new_exec s _ IFat ids Hc)).
  unfold chain_len at 1. cbn [c_ids].
  destruct (slen s * lenN ids <? idx * 4 + 4) eqn:E2; [lia|].
  destruct (chain_seek_spec s (mkChain IFat ids 0) (idx * 4)) as [Hseek _].
  rewrite (bind_exec _ _ _ _ _ (Hseek ltac:(unfold chain_len; cbn [c_ids]; lia))).
  cbn [c_init c_ids].
  destruct (chain_write_shape s (mkChain IFat ids (idx * 4)) (le_bytes 4 v))
    as (s' & E & Hsh & Hmf & Hmfr & Hd).
  - exact Hg.
  - rewrite CodecProofs.lenN_le_bytes4. unfold chain_len. cbn [c_off c_ids]. lia.
  - rewrite (bind_exec _ _ _ _ _ E).
    eexists. split; [reflexivity|].
    split.
    { destruct Hsh as (A1 & A2 & A3 & A4 & A5 & A6 & A7 & A8 & A9).
      unfold same_shape. cbn [nsect ver img fat free difat dir_start minifat_start w_minifat].
      repeat split; try assumption. }
    cbn [minifat mfree dirs w_minifat]. rewrite Hmf. unfold fat_set.
    split; [reflexivity|]. split; assumption.
Qed.

(* popping stale entries until one whose cell is FREE *)
Definition stale (mf : list N) (j : N) : Prop :=
  exists w, nthN mf j = Some w /\ w <> FREE_SECTOR.

Lemma pop_free_mini_found : forall l2 fuel s l1 idx,
  mfree s = l1 ++ idx :: l2 ->
  nthN (minifat s) idx = Some FREE_SECTOR ->
  Forall (stale (minifat s)) l2 ->
  (length l2 < fuel)%nat ->
  pop_free_mini fuel s = (w_mfree s l1, Ok (Some idx)).
Proof.
  intro l2. induction l2 as [|j l2 IH] using rev_ind; intros fuel s l1 idx Hm Hfree Hst Hfuel.
  - destruct fuel as [|fuel]; [cbn in Hfuel; lia|]. cbn [pop_free_mini].
    rewrite bind_get. change (l1 ++ [idx]) with (l1 ++ [idx]) in Hm.
    rewrite Hm, lastN_snoc, pop_last_snoc, bind_put.
    cbn [minifat]. rewrite Hfree, N.eqb_refl. reflexivity.
  - destruct fuel as [|fuel]; [rewrite app_length in Hfuel; cbn in Hfuel; lia|].
    cbn [pop_free_mini]. rewrite bind_get.
    assert (Hm' : mfree s = (l1 ++ idx :: l2) ++ [j]) by (rewrite Hm, <- app_assoc; reflexivity).
    rewrite Hm', lastN_snoc, pop_last_snoc, bind_put.
    apply Forall_app in Hst. destruct Hst as [Hst2 Hj].
    apply Forall_inv in Hj. destruct Hj as (w & Hw & Hwf).
    cbn [minifat]. rewrite Hw.
    destruct (w =? FREE_SECTOR) eqn:Ew; [apply N.eqb_eq in Ew; contradiction|].
    rewrite (IH fuel (w_mfree s (l1 ++ idx :: l2)) l1 idx); [reflexivity|reflexivity|exact Hfree|exact Hst2|].
    rewrite app_length in Hfuel. cbn [length] in Hfuel. lia.
Qed.

Theorem allocate_mini_reuses : forall s v l1 idx l2 ids,
  mfree s = l1 ++ idx :: l2 ->
  nthN (minifat s) idx = Some FREE_SECTOR ->
  Forall (stale (minifat s)) l2 ->
  chain_ids_of (fat s) (minifat_start s) = Ok ids -> good_chain s ids ->
  4 * lenN (minifat s) <= slen s * lenN ids ->
  exists s',
    allocate_mini_sector v s = (s', Ok idx) /\
    nsect s' = nsect s /\ lenN (img s') = lenN (img s) /\
    fat s' = fat s /\ free s' = free s /\
    mfree s' = l1 /\ minifat s' = updN (minifat s) idx v /\ dirs s' = dirs s.
Proof.
  intros s v l1 idx l2 ids Hm Hfree Hst Hc Hg Hcap.
  pose proof (nthN_Some_lt _ _ _ _ Hfree) as Hlt.
  unfold allocate_mini_sector. rewrite bind_get.
  rewrite (bind_exec _ _ _ _ _ (pop_free_mini_found l2 (S (length (mfree s))) s l1 idx Hm Hfree Hst
             ltac:(rewrite Hm, app_length; cbn [length]; lia))).
  set (s1 := w_mfree s l1).
  destruct (set_minifat_exec s1 idx v ids) as (s' & E & Hsh & Hmf & Hmfr & Hd).
  - cbn [s1 minifat w_mfree]. lia.
  - exact Hc.
  - eapply good_chain_shape; [exact Hg|]. unfold same_shape. repeat split.
  - change (slen s1) with (slen s). lia.
  - rewrite (bind_exec _ _ _ _ _ E).
    destruct Hsh as (A1 & A2 & A3 & A4 & A5 & A6 & A7 & A8 & A9).
    exists s'. split; [reflexivity|].
    split; [exact A1|]. split; [exact A3|]. split; [exact A5|]. split; [exact A6|].
    split; [exact Hmfr|]. split; [|exact Hd].
    rewrite Hmf. cbn [s1 minifat w_mfree]. unfold fat_set.
    destruct (idx =? lenN (minifat s)) eqn:Ei; [lia | reflexivity].
Qed.

(* the special case asked for: the top of the stack is FREE *)
Corollary allocate_mini_reuses_top : forall s v idx ids,
  lastN (mfree s) = Some idx ->
  nthN (minifat s) idx = Some FREE_SECTOR ->
  chain_ids_of (fat s) (minifat_start s) = Ok ids -> good_chain s ids ->
  4 * lenN (minifat s) <= slen s * lenN ids ->
  exists s',
    allocate_mini_sector v s = (s', Ok idx) /\
    nsect s' = nsect s /\ lenN (img s') = lenN (img s) /\ free s' = free s /\
    mfree s' = pop_last (mfree s) /\ minifat s' = updN (minifat s) idx v.
Proof.
  intros s v idx ids Hl Hfree Hc Hg Hcap.
  destruct (allocate_mini_reuses s v (pop_last (mfree s)) idx [] ids
              (lastN_Some_snoc _ _ _ Hl) Hfree (Forall_nil _) Hc Hg Hcap)
    as (s' & E & A1 & A2 & _ & A4 & A5 & A6 & _).
  exists s'. repeat split; assumption.
Qed.

(* empty free stack, but the MiniFAT chain and the mini stream still have
   room: the new mini sector is appended without allocating any sector *)
Theorem allocate_mini_within_capacity : forall s v mids r rids dids,
  mfree s = [] ->
  minifat_start s <> END_OF_CHAIN ->
  chain_ids_of (fat s) (minifat_start s) = Ok mids -> good_chain s mids ->
  lenN (minifat s) < lenN mids * (slen s / 4) ->
  nthN (dirs s) ROOT_STREAM_ID = Some r ->
  d_start r <> END_OF_CHAIN -> d_len r mod MINI_SECTOR_LEN = 0 ->
  d_len r <= MINI_SECTOR_LEN * lenN (minifat s) ->
  chain_ids_of (fat s) (d_start r) = Ok rids ->
  d_len r < slen s * lenN rids ->
  d_len r + MINI_SECTOR_LEN <= N.min (MAX_REGULAR_SECTOR * slen s) (stream_len_mask (ver s)) ->
  lenN (utf16 (d_name r)) <= MAX_NAME_LEN ->
  chain_ids_of (fat s) (dir_start s) = Ok dids -> good_chain s dids -> dids <> [] ->
  exists s',
    allocate_mini_sector v s = (s', Ok (lenN (minifat s))) /\
    nsect s' = nsect s /\ lenN (img s') = lenN (img s) /\
    fat s' = fat s /\ free s' = free s /\ mfree s' = [] /\
    minifat s' = minifat s ++ [v] /\
    dirs s' = updN (dirs s) ROOT_STREAM_ID
                (set_start_len r (d_start r) (d_len r + MINI_SECTOR_LEN)).
Proof.
  intros s v mids r rids dids Hm Hstart Hmc Hmg Hmcap Hr Hrs Hrl Hrfit Hrc Hrcap Hbound Hname Hdc Hdg Hdne.
  pose proof (fps_slen s) as Hfs. unfold fat_per_sector in Hfs.
  unfold allocate_mini_sector. rewrite bind_get.
  assert (Hpop : pop_free_mini (S (length (mfree s))) s = (s, Ok None)).
  { cbn [pop_free_mini]. rewrite bind_get, Hm. reflexivity. }
  rewrite (bind_exec _ _ _ _ _ Hpop). rewrite bind_get.
  destruct (minifat_start s =? END_OF_CHAIN) eqn:Es; [apply N.eqb_eq in Es; contradiction|].
  assert (Hgrow : (do c <- chain_new (minifat_start s) IFat;
                   if lenN (c_ids c) * (slen s / 4) <=? lenN (minifat s)
                   then do _ <- extend_chain (minifat_start s) IFat;
                        do c2 <- chain_new (minifat_start s) IFat;
                        header_write HDR_OFF_NUM_MINIFAT (le_bytes 4 (lenN (c_ids c2)))
                   else ret tt) s = (s, Ok tt)).
  { rewrite (bind_exec _ _ _ _ _ (chain_new_exec s _ IFat mids Hmc)). cbn [c_ids].
    destruct (lenN mids * (slen s / 4) <=? lenN (minifat s)) eqn:E; [lia | reflexivity]. }
  rewrite (bind_exec _ _ _ _ _ Hgrow). rewrite bind_get.
  (* append_mini_sector (first, since the MiniFAT entry is recorded after the
     mini stream has grown) *)
  assert (Happ : exists s',
    append_mini_sector s = (s', Ok tt) /\ same_shape s s' /\
    mfree s' = mfree s /\ minifat s' = minifat s /\
    dirs s' = updN (dirs s) ROOT_STREAM_ID
                (set_start_len r (d_start r) (d_len r + MINI_SECTOR_LEN))).
  { unfold append_mini_sector, root_entry.
    rewrite (bind_exec _ _ _ _ _ (dir_entry_exec s _ r Hr)).
    rewrite Hrl. cbn [N.eqb negb]. rewrite bind_ret.
    rewrite bind_get.
    destruct (N.min (MAX_REGULAR_SECTOR * slen s) (stream_len_mask (ver s)) <? d_len r + MINI_SECTOR_LEN) eqn:Eb;
      [apply N.ltb_lt in Eb; lia|]. rewrite bind_ret.
    destruct (d_start r =? END_OF_CHAIN) eqn:Er; [apply N.eqb_eq in Er; contradiction|].
    assert (Hns : (do c <- chain_new (d_start r) IZero;
                   do s0 <- get;
                   (if chain_len (slen s0) c <=? d_len r
                    then do _ <- extend_chain (d_start r) IZero; ret tt else ret tt);;
                   ret (d_start r)) s = (s, Ok (d_start r))).
    { rewrite (bind_exec _ _ _ _ _ (chain_new_exec s _ IZero rids Hrc)).
      rewrite bind_get. unfold chain_len. cbn [c_ids].
      destruct (slen s * lenN rids <=? d_len r) eqn:E; [lia | reflexivity]. }
    rewrite (bind_exec _ _ _ _ _ Hns).
    unfold with_dir_entry_mut, with_dir_entry_mut_inner.
    rewrite (bind_exec _ _ _ _ _ (dir_entry_exec s _ r Hr)).
    set (r' := set_start_len r (d_start r) (d_len r + MINI_SECTOR_LEN)).
    rewrite (bind_exec _ _ _ _ _ (set_dir_entry_exec s _ r r' Hr)).
    set (s2 := w_dirs s (updN (dirs s) ROOT_STREAM_ID r')).
    unfold write_dir_entry. rewrite bind_get.
    rewrite (bind_exec _ _ _ _ _ (chain_new_exec s2 (dir_start s2) IDir dids
               ltac:(cbn [s2 fat dir_start w_dirs]; exact Hdc))).
    destruct (chain_seek_spec s2 (mkChain IDir dids 0) (DIR_ENTRY_LEN * ROOT_STREAM_ID)) as [Hseek _].
    rewrite (bind_exec _ _ _ _ _ (Hseek ltac:(change (DIR_ENTRY_LEN * ROOT_STREAM_ID) with 0; lia))).
    cbn [c_init c_ids].
    assert (Hr2 : nthN (dirs s2) ROOT_STREAM_ID = Some r').
    { cbn [s2 dirs w_dirs]. apply nthN_updN_same. eapply nthN_Some_lt. exact Hr. }
    rewrite (bind_exec _ _ _ _ _ (dir_entry_exec s2 _ r' Hr2)).
    assert (Hnm : d_name r' = d_name r) by reflexivity. rewrite Hnm.
    destruct (MAX_NAME_LEN <? lenN (utf16 (d_name r))) eqn:En; [lia|]. rewrite bind_ret.
    assert (Hsh2 : same_shape s s2).
    { unfold same_shape. cbn [s2 nsect ver img fat free difat dir_start minifat_start w_dirs].
      repeat split. }
    destruct (chain_write_shape s2 (mkChain IDir dids (DIR_ENTRY_LEN * ROOT_STREAM_ID)) (dirent_encode r'))
      as (s3 & E3 & Hsh3 & Hmf3 & Hmfr3 & Hd3).
    - eapply good_chain_shape; [exact Hdg | exact Hsh2].
    - cbn [c_off]. rewrite CodecProofs.dirent_encode_length by (rewrite Hnm; unfold MAX_NAME_LEN in Hname; lia).
      unfold chain_len. cbn [c_ids]. rewrite (same_shape_slen _ _ Hsh2).
      change (DIR_ENTRY_LEN * ROOT_STREAM_ID) with 0.
      destruct dids as [|d0 dt]; [contradiction|]. cbn [lenN].
      destruct (slen_cases s) as [Hs|Hs]; rewrite Hs; lia.
    - rewrite (bind_exec _ _ _ _ _ E3).
      exists s3. split; [reflexivity|].
      split; [exact (same_shape_trans _ _ _ Hsh2 Hsh3)|].
      split; [exact Hmfr3|]. split; [exact Hmf3 | exact Hd3]. }
  destruct Happ as (s1 & E1 & Hsh1 & C5 & C6 & C7).
  rewrite (bind_exec _ _ _ _ _ (dir_entry_exec s _ r Hr : root_entry s = (s, Ok r))).
  destruct (d_len r <? (lenN (minifat s) + 1) * MINI_SECTOR_LEN) eqn:Elt;
    [|apply N.ltb_ge in Elt; unfold MINI_SECTOR_LEN in *; lia].
  rewrite (bind_exec _ _ _ _ _ E1).
  pose proof (same_shape_slen _ _ Hsh1) as Hsl1.
  pose proof Hsh1 as (A1 & A2 & A3 & A4 & A5 & A6 & A7 & A8 & A9).
  destruct (set_minifat_exec s1 (lenN (minifat s)) v mids) as (s' & E' & Hsh' & Hmf' & Hmfr' & Hd').
  - rewrite C6. lia.
  - rewrite A5, A9. exact Hmc.
  - eapply good_chain_shape; [exact Hmg | exact Hsh1].
  - rewrite Hsl1. nia.
  - rewrite (bind_exec _ _ _ _ _ E').
    destruct Hsh' as (B1 & B2 & B3 & B4 & B5 & B6 & B7 & B8 & B9).
    exists s'. split; [reflexivity|].
    split; [congruence|]. split; [congruence|]. split; [congruence|]. split; [congruence|].
    split; [congruence|]. split.
    + rewrite Hmf', C6. unfold fat_set. rewrite N.eqb_refl. reflexivity.
    + rewrite Hd', C7. reflexivity.
Qed.

(* ------------------------------------------------------------------ *)
(* a decision procedure for AllocWf, for the examples                   *)
(* ------------------------------------------------------------------ *)

Definition rangeN (n : N) : list N := map N.of_nat (seq 0 (N.to_nat n)).

Lemma In_rangeN : forall n j, j < n -> In j (rangeN n).
Proof.
  intros n j H. unfold rangeN. apply in_map_iff. exists (N.to_nat j).
  split; [lia|]. apply in_seq. lia.
Qed.

Definition alloc_wf_b (s : cstate) : bool :=
  (lenN (img s) =? nsect s + 1) &&
  forallb (fun sec => lenN sec =? slen s) (tl (img s)) &&
  forallb (fun x => (x <? nsect s) && (x <? lenN (fat s))) (free s) &&
  forallb (fun j => match nthN (difat s) j with Some f => f <? nsect s | None => false end)
          (rangeN ((lenN (fat s) + fat_per_sector s - 1) / fat_per_sector s)).

Lemma alloc_wf_b_sound : forall s, alloc_wf_b s = true -> AllocWf s.
Proof.
  intros s H. unfold alloc_wf_b in H.
  apply andb_true_iff in H. destruct H as [H H4].
  apply andb_true_iff in H. destruct H as [H H3].
  apply andb_true_iff in H. destruct H as [H1 H2].
  apply N.eqb_eq in H1.
  rewrite forallb_forall in H2, H3, H4.
  constructor.
  - exact H1.
  - intros sid Hs. unfold sector_bytes.
    destruct (img s) as [|h t] eqn:Ei; [cbn [lenN] in H1; lia|].
    cbn [lenN] in H1. cbn [tl] in H2.
    rewrite nthN_cons_pos by lia. replace (N.pred (sid + 1)) with sid by lia.
    destruct (WalkProofs.nthN_lt_Some t sid) as [sec Hsec]; [blia|].
    rewrite Hsec. apply N.eqb_eq. apply H2. eapply nthN_In. exact Hsec.
  - intros x Hx. specialize (H3 x Hx). apply andb_true_iff in H3. lia.
  - intros j Hj. pose proof (fps_pos s) as Hp.
    specialize (H4 (j / fat_per_sector s)).
    destruct (nthN (difat s) (j / fat_per_sector s)) as [f|].
    + exists f. split; [reflexivity|]. apply N.ltb_lt. apply H4.
      apply In_rangeN. destruct (fps_cases s) as [[_ E]|[_ E]]; rewrite E in *; lia.
    + assert (false = true); [|discriminate]. apply H4.
      apply In_rangeN. destruct (fps_cases s) as [[_ E]|[_ E]]; rewrite E in *; lia.
Qed.

(* ------------------------------------------------------------------ *)
(* Examples on the empty V3 file                                        *)
(* ------------------------------------------------------------------ *)
From Cfb.model Require Store Handle Open Cfb.

Module Examples.
  Import Cfb.model.Store Cfb.model.Handle Cfb.model.Cfb.

  Definition p_s : list N := [47; 115].                      (* "/s" *)

  Fixpoint run_ops (f : fstate) (ops : list op) : fstate * bool :=
    match ops with
    | [] => (f, true)
    | o :: t => let '(f1, r) := step f 1 o in
                if is_ok r then run_ops f1 t else (f1, false)
    end.

  (* create / write n bytes / flush / close / remove *)
  Definition cycle_ops (n : N) : list op :=
    [OCreateStream 0 p_s; OHWrite 0 (repeatN 7 n); OHFlush 0; OHDrop 0; ORemoveStream p_s].
  Definition cyc (n : N) (f : fstate) : fstate := fst (run_ops f (cycle_ops n)).
  (* create / set_len n / flush / close / remove *)
  Definition big_ops (n : N) : list op :=
    [OCreateStream 0 p_s; OHSetLen 0 n; OHFlush 0; OHDrop 0; ORemoveStream p_s].
  Definition bcyc (n : N) (f : fstate) : fstate := fst (run_ops f (big_ops n)).

  Definition f0 := init_fstate V3 1024 4.

  (* the empty file satisfies the side conditions of R1 *)
  Example create_state_wf : AllocWf (create_state V3) /\ AllocWf (create_state V4).
  Proof. split; apply alloc_wf_b_sound; vm_compute; reflexivity. Qed.

  (* a 5000-byte stream (regular sectors) created and removed: its ten sectors
     are on the free stack, the side conditions of R1 hold, and the next
     allocation returns the last one freed without growing the file *)
  Definition big := cs (bcyc 5000 f0).

  Example after_free_wf :
    snd (run_ops f0 (big_ops 5000)) = true /\
    free big = [2; 3; 4; 5; 6; 7; 8; 9; 10; 11] /\ nsect big = 12 /\
    alloc_wf_b big = true.
  Proof. vm_compute. repeat split; reflexivity. Qed.

  Example after_free_reuse :
    exists s', allocate_sector IZero big = (s', Ok 11) /\ nsect s' = 12 /\
               free s' = [2; 3; 4; 5; 6; 7; 8; 9; 10].
  Proof.
    destruct after_free_wf as (_ & Hf & Hn & Hwf). apply alloc_wf_b_sound in Hwf.
    destruct (allocate_reuses_wf IZero big Hwf) as (sid & s' & E & Hl & Hf' & Hn' & _).
    - rewrite Hf. discriminate.
    - rewrite Hf in Hl, Hf'. vm_compute in Hl. injection Hl as <-.
      exists s'. split; [exact E|]. split; [rewrite Hn'; exact Hn | exact Hf'].
  Qed.

  (* freeing a sector of the empty file directly *)
  Example free_dir_sector_wf :
    exists s1, free_sector 1 (create_state V3) = (s1, Ok tt) /\ free s1 = [1] /\ AllocWf s1.
  Proof.
    eexists. split; [vm_compute; reflexivity|]. split; [reflexivity|].
    apply alloc_wf_b_sound. vm_compute. reflexivity.
  Qed.

  (* the C15 witness: a create/write/remove cycle of a 100-byte stream.  The
     first cycle allocates one MiniFAT sector and one mini-stream sector; they
     are retained and reused, so the file never grows again. *)
  Example small_stream_cycle_stable :
    let f1 := cyc 100 f0 in let f2 := cyc 100 f1 in
    let f3 := cyc 100 f2 in let f4 := cyc 100 f3 in
    map (fun f => snd (run_ops f (cycle_ops 100))) [f0; f1; f2; f3] = [true; true; true; true] /\
    map (fun f => nsect (cs f)) [f0; f1; f2; f3; f4] = [2; 4; 4; 4; 4] /\
    map (fun f => lenN (concat (img (cs f)))) [f0; f1; f2; f3; f4] = [1536; 2560; 2560; 2560; 2560].
  Proof. vm_compute. repeat split; reflexivity. Qed.

  (* the hypotheses of allocate_mini_within_capacity are satisfiable: they hold
     in the state after the first cycle (empty MiniFAT, one retained MiniFAT
     sector 2, one retained mini-stream sector 3) *)
  Lemma good_chain1 : forall s x,
    x < nsect s -> lenN (sector_bytes s x) = slen s -> lenN (img s) = nsect s + 1 ->
    good_chain s [x].
  Proof.
    intros s x H1 H2 H3. split; [constructor; [intros []|constructor]|].
    split; [constructor; [split; assumption|constructor]|]. split; [exact H3 | apply slen_pos].
  Qed.

  Example within_capacity_applies :
    let s := cs (cyc 100 f0) in
    exists s', allocate_mini_sector END_OF_CHAIN s = (s', Ok 0) /\ nsect s' = 4 /\
               fat s' = fat s /\ minifat s' = [END_OF_CHAIN].
  Proof.
    intro s.
    assert (Hr : exists r, nthN (dirs s) ROOT_STREAM_ID = Some r /\ d_start r = 3 /\ d_len r = 0 /\
                           lenN (utf16 (d_name r)) = 10).
    { eexists. split; [vm_compute; reflexivity|]. repeat split. }
    destruct Hr as (r & Hr & Hrs & Hrl & Hrn).
    destruct (allocate_mini_within_capacity s END_OF_CHAIN [2] r [3] [1])
      as (s' & E & A1 & _ & A3 & _ & _ & A6 & _).
    - reflexivity.
    - vm_compute. discriminate.
    - vm_compute. reflexivity.
    - apply good_chain1; vm_compute; reflexivity.
    - vm_compute. reflexivity.
    - exact Hr.
    - rewrite Hrs. vm_compute. discriminate.
    - rewrite Hrl. reflexivity.
    - rewrite Hrl. vm_compute. discriminate.
    - rewrite Hrs. vm_compute. reflexivity.
    - rewrite Hrl. vm_compute. reflexivity.
    - rewrite Hrl. vm_compute. discriminate.
    - rewrite Hrn. vm_compute. discriminate.
    - vm_compute. reflexivity.
    - apply good_chain1; vm_compute; reflexivity.
    - discriminate.
    - exists s'. split; [exact E|]. split; [rewrite A1; vm_compute; reflexivity|].
      split; [exact A3 | exact A6].
  Qed.

  (* the same for a large stream: stable from the second repetition on *)
  Example large_stream_cycle_stable :
    let f1 := bcyc 5000 f0 in let f2 := bcyc 5000 f1 in let f3 := bcyc 5000 f2 in
    map (fun f => nsect (cs f)) [f0; f1; f2; f3] = [2; 12; 12; 12] /\
    map (fun f => alloc_wf_b (cs f)) [f0; f1; f2; f3] = [true; true; true; true].
  Proof. vm_compute. repeat split; reflexivity. Qed.
End Examples.

(* ------------------------------------------------------------------ *)
Check allocate_reuses.
Check allocate_reuses_wf.
Check allocate_appends_only_when_full.
Check free_then_allocate_no_growth.
Check free_then_allocate_no_growth'.
Check free_chain_then_alloc.
Check free_chain_then_alloc'.
Check allocate_mini_reuses.
Check allocate_mini_reuses_top.
Check allocate_mini_within_capacity.
Print Assumptions allocate_reuses.
Print Assumptions allocate_appends_only_when_full.
Print Assumptions free_then_allocate_no_growth.
Print Assumptions free_chain_then_alloc'.
Print Assumptions allocate_mini_reuses.
Print Assumptions allocate_mini_within_capacity.
Print Assumptions Examples.small_stream_cycle_stable.
Print Assumptions Examples.after_free_reuse.
Print Assumptions Examples.within_capacity_applies.
